(* ConsumerBoth.v — C14 from bytes to regions, both formats at once: a GenBank flat file and a GFF3 file that describe the same coding
   features hand the variant caller the same regions (the GFF3 path then sorts them by start) and the same non-coding positions. *)
From GF Require Import Base Alphabet SymbolsDef FastaModel FastaLayout CodonModel TopK RegionsModel LocationModel GffLineModel GffLineProofs GenbankModel GenbankProofs
  GenbankFile GenbankFileProofs GffFile GffFileProofs ConsumerModel ConsumerProofs ConsumerGff.
Open Scope N_scope.

Theorem bytes_regions_gb_vs_gff
  (* the GenBank file *)
  (pre : list section) (items : list (bool * feat * list N * wfeat)) (n : nat) (olines : list (list (list N * list N))) (gblines : list (list N * bool))
  (* the GFF3 file *)
  (regs : list (list N * (nat * nat))) (rows : list grow) (hdr : list N) (chunks : list (list N)) (id : list N) (gs : list group) (gfflines : list (list N * bool)) :
  let rs := map (fun x => cregion_of (region_gb (fst (fst (fst x))) (snd (fst (fst x))) (snd (fst x)))) items in
  let genome := degap (map upper (concat chunks)) in
  (* GenBank side *)
  Forall sec_ok pre -> Forall other_name pre -> items <> [] ->
  Forall (fun x => writes_cds (fst (fst (fst x))) (snd (fst (fst x))) (snd (fst x)) (snd x)) items ->
  Forall (Forall piece_ok) olines -> Forall body_line_ok (map origin_line olines) ->
  Forall (fun le => ok_line (fst le)) gblines ->
  map fst gblines = flatten (pre ++ [features_section (map snd items); origin_section n olines]) ->
  (* GFF3 side *)
  Forall wf_region regs -> rows <> [] -> Forall wf_row rows ->
  first_field hdr = Some id -> concat chunks <> [] -> Forall valid_chunk chunks -> Forall ok_line ((62 :: hdr) :: chunks) ->
  map feat_of rows = rows_of gs -> Forall group_ok gs -> NoDup (map fst gs) ->
  Forall (fun le => ok_line (fst le)) gfflines ->
  map fst gfflines = version_line :: map region_line regs ++ map render_row rows ++ bs "##FASTA" :: (62 :: hdr) :: chunks ->
  (* the two describe the same thing: one sequence length, and each ID's rows give the region of the corresponding CDS feature *)
  length (concat (map (fun l => concat (map snd l)) olines)) = length genome ->
  Forall2 (fun g x => region_from_gfeats genome (snd g) = Ok x) gs rs -> Forall (fun x => cr_name x <> []) rs ->
  forall inter, codes rs (length genome) = Ok inter ->
  regions_of_genbank_text (FastaLayout.render gblines) = Ok (rs, inter) /\
  regions_of_gff_text (FastaLayout.render gfflines) = Ok (ssort cregion (fun a b => (cr_start a <? cr_start b)%Z) rs, inter).
Proof.
  intros rs genome Hpre Hoth Hne Hit Hp Hb Hgl Egl Hregs Hrne Hrows Hid Hc Hv Hok Er Hgs Hnd Hfl Efl Hlen Hreg Hnamed inter Hcodes. split.
  - rewrite (genbank_bytes_to_regions pre items n olines gblines); try assumption. cbv zeta. fold rs. rewrite Hlen, Hcodes. reflexivity.
  - rewrite (gff_bytes_to_regions_full regs rows hdr chunks id gs rs gfflines); try assumption. fold genome. rewrite Hcodes. reflexivity.
Qed.

(* what `codes` leaves over: exactly the positions 1..n that lie in no region, in ascending order *)
Theorem codes_spec (rs : list cregion) (n : nat) (inter : list Z) : codes rs n = Ok inter ->
  (forall p, In p inter <-> (1 <= p <= Z.of_nat n)%Z /\ ~ In p (concat (map cr_pos rs))) /\
  inter = filter (fun p => negb (existsb (Z.eqb p) (concat (map cr_pos rs)))) (map (fun i => Z.of_nat (S i)) (seq 0 n)).
Proof.
  unfold codes. destruct (forallb _ _); [|discriminate]. intros E. injection E as <-. split; [|reflexivity].
  intros p. rewrite filter_In, in_map_iff. split.
  - intros [(i & <- & Hi) Hn]. apply in_seq in Hi. split; [lia|]. intros Hin. cbv beta in Hn. apply negb_true_iff in Hn.
    rewrite <- not_true_iff_false in Hn. apply Hn. apply existsb_exists. eexists. split; [exact Hin|apply Z.eqb_refl].
  - intros [Hr Hn]. split.
    + exists (Z.to_nat p - 1)%nat. split; [lia|]. apply in_seq. lia.
    + apply negb_true_iff. destruct (existsb _ _) eqn:X; [|reflexivity]. apply existsb_exists in X as (q & Hq & Eq). apply Z.eqb_eq in Eq. subst q. contradiction.
Qed.

(* the same with the GFF3 rows in ANY order (the rows of one feature in any order, features interleaved) *)
From GF Require Import ConsumerGffAny.
Theorem bytes_regions_gb_vs_gff_any_order
  (pre : list section) (items : list (bool * feat * list N * wfeat)) (n : nat) (olines : list (list (list N * list N))) (gblines : list (list N * bool))
  (regs : list (list N * (nat * nat))) (rows : list grow) (hdr : list N) (chunks : list (list N)) (id : list N) (gs : list group) (gfflines : list (list N * bool)) :
  let rs := map (fun x => cregion_of (region_gb (fst (fst (fst x))) (snd (fst (fst x))) (snd (fst x)))) items in
  let genome := degap (map upper (concat chunks)) in
  let R := map feat_of rows in
  Forall sec_ok pre -> Forall other_name pre -> items <> [] ->
  Forall (fun x => writes_cds (fst (fst (fst x))) (snd (fst (fst x))) (snd (fst x)) (snd x)) items ->
  Forall (Forall piece_ok) olines -> Forall body_line_ok (map origin_line olines) ->
  Forall (fun le => ok_line (fst le)) gblines ->
  map fst gblines = flatten (pre ++ [features_section (map snd items); origin_section n olines]) ->
  Forall wf_region regs -> rows <> [] -> Forall wf_row rows ->
  first_field hdr = Some id -> concat chunks <> [] -> Forall valid_chunk chunks -> Forall ok_line ((62 :: hdr) :: chunks) ->
  Forall (fun r => is_cds_row r = true /\ exists i, row_id r = Some i) R -> ids_in_order [] R = map fst gs -> Forall (canonical R) gs ->
  Forall (fun le => ok_line (fst le)) gfflines ->
  map fst gfflines = version_line :: map region_line regs ++ map render_row rows ++ bs "##FASTA" :: (62 :: hdr) :: chunks ->
  length (concat (map (fun l => concat (map snd l)) olines)) = length genome ->
  Forall2 (fun g x => region_from_gfeats genome (snd g) = Ok x) gs rs -> Forall (fun x => cr_name x <> []) rs ->
  forall inter, codes rs (length genome) = Ok inter ->
  regions_of_genbank_text (FastaLayout.render gblines) = Ok (rs, inter) /\
  regions_of_gff_text (FastaLayout.render gfflines) = Ok (ssort cregion (fun a b => (cr_start a <? cr_start b)%Z) rs, inter).
Proof.
  intros rs genome R Hpre Hoth Hne Hit Hp Hb Hgl Egl Hregs Hrne Hrows Hid Hc Hv Hok HR Hids Hcan Hfl Efl Hlen Hreg Hnamed inter Hcodes. split.
  - rewrite (genbank_bytes_to_regions pre items n olines gblines); try assumption. cbv zeta. fold rs. rewrite Hlen, Hcodes. reflexivity.
  - rewrite (gff_bytes_to_regions_any_order regs rows hdr chunks id gs rs gfflines); try assumption. fold genome. rewrite Hcodes. reflexivity.
Qed.
