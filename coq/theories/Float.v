(* Float.v — bit-exact model of the float64 operations that influence gofasta's output, on the
   standard library's SpecFloat (pure Z arithmetic), and of strconv.FormatFloat(x,'f',9,64). *)
From Coq Require Import Floats.SpecFloat.
From GF Require Import Base.
Open Scope Z_scope.

Definition prec64 := 53. Definition emax64 := 1024.
Definition f64_of_Z (z : Z) : spec_float := binary_normalize prec64 emax64 z 0 false.
Definition f64_div (a b : spec_float) : spec_float := SFdiv prec64 emax64 a b.
Definition f64_div_Z (a b : Z) : spec_float := f64_div (f64_of_Z a) (f64_of_Z b).
(* an exactly representable m * 2^e, for thresholds chosen by the generators *)
Definition f64_dyadic (m e : Z) : spec_float := binary_normalize prec64 emax64 m e false.
Definition f64_inf : spec_float := S754_infinity false.
Definition is_nan (x : spec_float) : bool := match x with S754_nan => true | _ => false end.
Definition f64_ltb (x y : spec_float) : bool := SFltb x y.
Definition f64_eqb (x y : spec_float) : bool := SFeqb x y.
Definition f64_leb (x y : spec_float) : bool := SFleb x y.

(* exact round-half-even of num/den (num >= 0, den > 0) — Go's bigFtoa + Round for 'f' *)
Definition rhe_div (num den : Z) : Z :=
  let q := num / den in let r := num mod den in
  match Z.compare (2 * r) den with
  | Lt => q | Gt => q + 1 | Eq => if Z.even q then q else q + 1 end.
Definition scaled9 (m : positive) (e : Z) : Z :=
  let n := Zpos m * 1000000000 in
  if 0 <=? e then n * 2 ^ e else rhe_div n (2 ^ (- e)).
Fixpoint pad0 (l : list N) (n : nat) : list N := match n with O => l | S k => 48%N :: pad0 l k end.
Definition fmt_scaled (neg : bool) (s : Z) : list N :=
  let ip := dec_N (Z.to_N (s / 1000000000)) in
  let fp := dec_N (Z.to_N (s mod 1000000000)) in
  (if neg then [45%N] else []) ++ ip ++ [46%N] ++ pad0 fp (9 - length fp).
Definition fmt_f9 (x : spec_float) : list N :=
  match x with
  | S754_zero neg => fmt_scaled neg 0
  | S754_finite neg m e => fmt_scaled neg (scaled9 m e)
  | S754_nan => bs "NaN"
  | S754_infinity neg => (if neg then [45%N] else [43%N]) ++ bs "Inf"
  end.
(* int(x) for a finite non-negative integral float (snp distances) *)
Definition f64_to_Z (x : spec_float) : Z :=
  match x with
  | S754_finite neg m e => let v := if 0 <=? e then Zpos m * 2 ^ e else Zpos m / 2 ^ (- e) in if neg then - v else v
  | _ => 0
  end.

(* ---- the order SFltb/SFeqb induce on non-NaN values is that of a lexicographic code ---- *)
Definition code (x : spec_float) : Z * Z * Z :=
  match x with
  | S754_infinity true => (-2, 0, 0)
  | S754_finite true m e => (-1, - e, - Zpos m)
  | S754_zero _ => (0, 0, 0)
  | S754_nan => (0, 0, 0)
  | S754_finite false m e => (1, e, Zpos m)
  | S754_infinity false => (2, 0, 0)
  end.
Definition lex_lt (a b : Z * Z * Z) : bool :=
  let '(a1, a2, a3) := a in let '(b1, b2, b3) := b in
  (a1 <? b1) || ((a1 =? b1) && ((a2 <? b2) || ((a2 =? b2) && (a3 <? b3)))).
Definition lex_eq (a b : Z * Z * Z) : bool :=
  let '(a1, a2, a3) := a in let '(b1, b2, b3) := b in (a1 =? b1) && (a2 =? b2) && (a3 =? b3).

Lemma Pcompare_Eq_Zcompare m1 m2 : Pos.compare_cont Eq m1 m2 = Z.compare (Zpos m1) (Zpos m2).
Proof. reflexivity. Qed.

Lemma f64_ltb_code x y : is_nan x = false -> is_nan y = false -> f64_ltb x y = lex_lt (code x) (code y).
Proof.
  intros Hx Hy. unfold f64_ltb, SFltb, SFcompare.
  destruct x as [sx|sx| |sx mx ex], y as [sy|sy| |sy my ey]; try discriminate;
    try (destruct sx; try destruct sy; reflexivity); try (destruct sy; reflexivity).
  destruct sx, sy; cbn [code lex_lt]; try reflexivity.
  - rewrite Pcompare_Eq_Zcompare.
    destruct (Z.compare_spec ex ey), (Z.compare_spec (Zpos mx) (Zpos my)); cbn [CompOpp];
      repeat match goal with
      | |- context [?a <? ?b] => destruct (Z.ltb_spec a b)
      | |- context [?a =? ?b] => destruct (Z.eqb_spec a b)
      end; cbn; try reflexivity; lia.
  - rewrite Pcompare_Eq_Zcompare.
    destruct (Z.compare_spec ex ey), (Z.compare_spec (Zpos mx) (Zpos my));
      repeat match goal with
      | |- context [?a <? ?b] => destruct (Z.ltb_spec a b)
      | |- context [?a =? ?b] => destruct (Z.eqb_spec a b)
      end; cbn; try reflexivity; lia.
Qed.

Lemma f64_eqb_code x y : is_nan x = false -> is_nan y = false -> f64_eqb x y = lex_eq (code x) (code y).
Proof.
  intros Hx Hy. unfold f64_eqb, SFeqb, SFcompare.
  destruct x as [sx|sx| |sx mx ex], y as [sy|sy| |sy my ey]; try discriminate;
    try (destruct sx; try destruct sy; reflexivity); try (destruct sy; reflexivity).
  destruct sx, sy; cbn [code lex_eq]; try reflexivity.
  - rewrite Pcompare_Eq_Zcompare.
    destruct (Z.compare_spec ex ey), (Z.compare_spec (Zpos mx) (Zpos my)); cbn [CompOpp];
      repeat match goal with
      | |- context [?a =? ?b] => destruct (Z.eqb_spec a b)
      end; cbn; try reflexivity; lia.
  - rewrite Pcompare_Eq_Zcompare.
    destruct (Z.compare_spec ex ey), (Z.compare_spec (Zpos mx) (Zpos my));
      repeat match goal with
      | |- context [?a =? ?b] => destruct (Z.eqb_spec a b)
      end; cbn; try reflexivity; lia.
Qed.
