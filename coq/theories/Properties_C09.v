(* Properties_C09.v — C09: updown topranking gives identical results for CSV and FASTA inputs. *)
From Coq Require Import Floats.SpecFloat.
From GF Require Import Base Alphabet Symbols FastaModel SnpsModel SnpsProofs UpdownListModel UpdownListProofs Float TopK Balance TopRankModel UpdownCsv.
Open Scope N_scope.

(* the five fields `updown list` writes for a well-formed line are parsed back to exactly that line
   (SNP texts, positions, ambiguity ranges, ambiguity count; the ID kept) *)
Theorem C09_csv_roundtrip : forall u, wf_udl u -> udl_of_fields (fields_of_udl u) = Some u.
Proof. exact csv_roundtrip. Qed.
Print Assumptions C09_csv_roundtrip.

(* every line computed from a sequence is well-formed, so the CSV row of a sequence reads back as the line of the sequence *)
Theorem C09_csv_roundtrip_of_seq : forall ref q id, all_valid ref -> all_valid q ->
  let u := udl_of_seq (map (enc false) ref) id (map (enc false) q) in udl_of_fields (fields_of_udl u) = Some u.
Proof. exact csv_roundtrip_of_seq. Qed.
Print Assumptions C09_csv_roundtrip_of_seq.

(* all four format combinations give the same output, rows in query order (the row list is a map over the queries) *)
Theorem C09_input_format_irrelevant : forall o qs ts, Forall wf_udl qs -> Forall wf_udl ts ->
  topranking_core o (map via_csv qs) ts = topranking_core o qs ts /\
  topranking_core o qs (map via_csv ts) = topranking_core o qs ts /\
  topranking_core o (map via_csv qs) (map via_csv ts) = topranking_core o qs ts.
Proof. exact topranking_input_format_irrelevant. Qed.
Print Assumptions C09_input_format_irrelevant.

(* ---- the text of the CSV (repair D18): the sequence ID is the one cell that can hold arbitrary bytes ---- *)
From GF Require Import CsvModel CsvLine.
(* a line of any fields, each written through csv_field (= csvField of list.go), is split back into exactly those fields by
   the reader (csv_parse models encoding/csv on one line and is compared with it on every run) *)
Theorem C09_csv_line_roundtrip : forall fields : list (list N), fields <> [] ->
  csv_parse (join [44] (map csv_field fields)) = Some fields.
Proof. exact csv_roundtrip_line. Qed.
Print Assumptions C09_csv_line_roundtrip.
(* the row `updown list` writes for a sequence - whatever bytes its ID is made of - is read back as the line computed from the
   sequence itself *)
Theorem C09_list_row_roundtrip : forall ref q id, all_valid ref -> all_valid q ->
  let u := udl_of_seq (map (enc false) ref) id (map (enc false) q) in
  match csv_parse (udl_row u) with Some f => udl_of_fields f | None => None end = Some u.
Proof. exact list_row_roundtrip. Qed.
Print Assumptions C09_list_row_roundtrip.
(* (the model's row is that text plus the line end) *)
Theorem C09_row_text_is_udl_row : forall u, row_text (u_id u) (u_snps u) (u_ambs u) (u_ambc u) = udl_row u ++ [NL].
Proof. exact row_text_is_udl_row. Qed.
Print Assumptions C09_row_text_is_udl_row.
