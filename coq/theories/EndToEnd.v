(* EndToEnd.v — C14, the statement itself: from the BYTES of a GenBank flat file and of a GFF3 file that describe the same coding
   features, for every reference / query pair of rows, the variant caller's two lists of mutations hold the same records. *)
From Coq Require Import Floats.SpecFloat Permutation.
From GF Require Import Base Alphabet SymbolsDef FastaModel FastaLayout CodonModel TopK RegionsModel LocationModel GffLineModel GffLineProofs GenbankModel GenbankProofs
  GenbankFile GenbankFileProofs GffFile GffFileProofs ConsumerModel ConsumerProofs ConsumerGff ConsumerGffAny ConsumerBoth Indels VariantsModel RegionOrder.
Open Scope N_scope.

(* the regions as the caller's model takes them (what the harness hands to VariantsModel from the code's own Region structs) *)
Definition to_region (c : cregion) : region :=
  {| g_name := cr_name c; g_rev := (cr_strand c <? 0)%Z; g_pos := map Z.to_nat (cr_pos c); g_trans := cr_trans c |}.

Theorem same_mutations_from_both_files
  (pre : list section) (items : list (bool * feat * list N * wfeat)) (n : nat) (olines : list (list (list N * list N))) (gblines : list (list N * bool))
  (regs : list (list N * (nat * nat))) (rows : list grow) (hdr : list N) (chunks : list (list N)) (id : list N) (gs : list group) (gfflines : list (list N * bool)) :
  let rs := map (fun x => cregion_of (region_gb (fst (fst (fst x))) (snd (fst (fst x))) (snd (fst x)))) items in
  let genome := degap (map upper (concat chunks)) in
  let R := map feat_of rows in
  Forall sec_ok pre -> Forall other_name pre -> items <> [] ->
  Forall (fun x => writes_cds (fst (fst (fst x))) (snd (fst (fst x))) (snd (fst x)) (snd x)) items ->
  Forall (Forall piece_ok) olines -> Forall body_line_ok (map origin_line olines) ->
  Forall (fun le => ok_line (fst le)) gblines ->
  map fst gblines = flatten (pre ++ [features_section (map snd items); origin_section n olines]) ->
  Forall wf_region regs -> rows <> [] -> Forall wf_row rows ->
  first_field hdr = Some id -> concat chunks <> [] -> Forall valid_chunk chunks -> Forall ok_line ((62 :: hdr) :: chunks) ->
  Forall (fun r => is_cds_row r = true /\ exists i, row_id r = Some i) R -> ids_in_order [] R = map fst gs -> Forall (canonical R) gs ->
  Forall (fun le => ok_line (fst le)) gfflines ->
  map fst gfflines = version_line :: map region_line regs ++ map render_row rows ++ bs "##FASTA" :: (62 :: hdr) :: chunks ->
  length (concat (map (fun l => concat (map snd l)) olines)) = length genome ->
  Forall2 (fun g x => region_from_gfeats genome (snd g) = Ok x) gs rs -> Forall (fun x => cr_name x <> []) rs ->
  forall inter, codes rs (length genome) = Ok inter ->
  exists gb_regions gff_regions,
    regions_of_genbank_text (FastaLayout.render gblines) = Ok (gb_regions, inter) /\
    regions_of_gff_text (FastaLayout.render gfflines) = Ok (gff_regions, inter) /\
    forall (ref que : list N) (l : list variant),
      variants_pair ref que (map to_region gb_regions) (map Z.to_nat inter) = Ok l ->
      exists l', variants_pair ref que (map to_region gff_regions) (map Z.to_nat inter) = Ok l' /\ Permutation l l'.
Proof.
  intros rs genome R Hpre Hoth Hne Hit Hp Hb Hgl Egl Hregs Hrne Hrows Hid Hc Hv Hok HR Hids Hcan Hfl Efl Hlen Hreg Hnamed inter Hcodes.
  destruct (bytes_regions_gb_vs_gff_any_order pre items n olines gblines regs rows hdr chunks id gs gfflines
              Hpre Hoth Hne Hit Hp Hb Hgl Egl Hregs Hrne Hrows Hid Hc Hv Hok HR Hids Hcan Hfl Efl Hlen Hreg Hnamed inter Hcodes) as [E1 E2].
  exists rs, (ssort cregion (fun a b => (cr_start a <? cr_start b)%Z) rs). split; [exact E1|]. split; [exact E2|].
  intros ref que l Hl. apply (variants_region_order_irrelevant ref que (map to_region rs)); [|exact Hl].
  apply Permutation_map, Permutation_sym, ssort_perm.
Qed.
