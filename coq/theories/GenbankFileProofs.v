(* GenbankFileProofs.v — C14: a GenBank flat file written section by section is read back as what its FEATURES and ORIGIN
   sections were written from, whatever other sections surround them, whatever the line ends, wherever blank lines fall. *)
From GF Require Import Base FastaModel FastaLayout GenbankModel GenbankProofs GenbankFile.
Open Scope N_scope.

Record section := { s_head : list N; s_name : list N; s_body : list (list N) }.
Definition head_ok (s : section) : Prop :=
  (exists c t, s_head s = c :: t /\ is_upper_ascii c = true) /\ exists rest, fields_go (s_head s) [] = s_name s :: rest.
Definition body_line_ok (l : list N) : Prop := exists c t, l = c :: t /\ is_upper_ascii c = false.
Definition sec_ok (s : section) : Prop := head_ok s /\ Forall body_line_ok (s_body s).
Definition sec_lines (s : section) : list (list N) := s_head s :: s_body s.
Definition flatten (secs : list section) : list (list N) := concat (map sec_lines secs).
Fixpoint dispatch_all (secs : list section) (g : gbfile) : res gbfile :=
  match secs with [] => Ok g | s :: t => bind (dispatch (s_name s) (s_body s) g) (dispatch_all t) end.

Lemma bind_ok_r {A} (r : res A) : bind r (@Ok A) = r.
Proof. destruct r; reflexivity. Qed.
Lemma file_fold_app l1 : forall s l2, file_fold s (l1 ++ l2) = bind (file_fold s l1) (fun s' => file_fold s' l2).
Proof.
  induction l1 as [|l t IH]; intros s l2; [reflexivity|]. cbn [app file_fold].
  destruct (file_step s l) as [s'| |]; cbn [bind]; [apply IH|reflexivity|reflexivity].
Qed.
Lemma fold_body body : Forall body_line_ok body -> forall s,
  file_fold s body = Ok {| fs_first := fs_first s; fs_header := fs_header s; fs_lines := fs_lines s ++ body; fs_gb := fs_gb s |}.
Proof.
  induction 1 as [|l t (c & r & -> & Hc) _ IH]; intros s.
  - cbn [file_fold]. rewrite app_nil_r. destruct s; reflexivity.
  - cbn [file_fold file_step]. rewrite Hc. cbn [bind]. rewrite IH. cbn [fs_first fs_header fs_lines fs_gb]. rewrite <- app_assoc. reflexivity.
Qed.

Definition finish (s : fstate) : res gbfile := dispatch (fs_header s) (fs_lines s) (fs_gb s).
Lemma step_head s sec : head_ok sec -> fs_first s = false ->
  file_step s (s_head sec) = bind (finish s) (fun g => Ok {| fs_first := false; fs_header := s_name sec; fs_lines := []; fs_gb := g |}).
Proof.
  intros [(c & t & E & Hc) (rest & Ef)] Hf. unfold file_step. rewrite Ef. rewrite E at 1. rewrite Hc, Hf. reflexivity.
Qed.
Lemma fold_sections secs : Forall sec_ok secs -> forall s, fs_first s = false ->
  bind (file_fold s (flatten secs)) finish = bind (finish s) (dispatch_all secs).
Proof.
  induction 1 as [|sec t [Hh Hb] _ IH]; intros s Hf.
  - cbn [flatten map concat file_fold bind dispatch_all]. rewrite bind_ok_r. reflexivity.
  - unfold flatten. cbn [map concat]. fold (flatten t). unfold sec_lines at 1. cbn [app file_fold]. rewrite (step_head s sec Hh Hf).
    destruct (finish s) as [g| |]; cbn [bind]; [|reflexivity|reflexivity].
    rewrite file_fold_app, (fold_body _ Hb). cbn [bind fs_first fs_header fs_lines fs_gb app].
    rewrite IH by reflexivity. unfold finish. cbn [fs_header fs_lines fs_gb dispatch_all]. reflexivity.
Qed.

(* every section is handed, in file order, to the switch on its name *)
Theorem read_sections secs : Forall sec_ok secs -> read_genbank_lines (flatten secs) = dispatch_all secs gb_empty.
Proof.
  intros H. unfold read_genbank_lines. destruct H as [|sec t [Hh Hb] Ht]; [reflexivity|].
  unfold flatten. cbn [map concat]. fold (flatten t). unfold sec_lines at 1. cbn [app file_fold].
  assert (E : file_step fs_init (s_head sec) = Ok {| fs_first := false; fs_header := s_name sec; fs_lines := []; fs_gb := gb_empty |}).
  { destruct Hh as [(c & r & E & Hc) (rest & Ef)]. unfold file_step. rewrite Ef. rewrite E at 1. rewrite Hc. reflexivity. }
  rewrite E. cbn [bind]. rewrite file_fold_app, (fold_body _ Hb). cbn [bind fs_first fs_header fs_lines fs_gb app].
  change (bind (file_fold {| fs_first := false; fs_header := s_name sec; fs_lines := s_body sec; fs_gb := gb_empty |} (flatten t)) finish =
          dispatch_all (sec :: t) gb_empty).
  rewrite (fold_sections t Ht) by reflexivity. reflexivity.
Qed.

(* a blank line, wherever it stands, is not seen *)
Theorem blank_line_ignored l1 l2 : read_genbank_lines (l1 ++ [] :: l2) = read_genbank_lines (l1 ++ l2).
Proof.
  unfold read_genbank_lines. rewrite !file_fold_app. destruct (file_fold fs_init l1) as [s| |]; reflexivity.
Qed.

(* ---- the file an annotation is written as ---- *)
Definition other_name (s : section) : Prop := s_name s <> bs "FEATURES" /\ s_name s <> bs "ORIGIN".
Lemma dispatch_other h lines g : h <> bs "FEATURES" -> h <> bs "ORIGIN" -> dispatch h lines g = Ok g.
Proof.
  intros H1 H2. unfold dispatch.
  destruct (list_eqb h (bs "FEATURES")) eqn:E1; [apply list_eqb_eq in E1; contradiction|].
  destruct (list_eqb h (bs "ORIGIN")) eqn:E2; [apply list_eqb_eq in E2; contradiction|]. reflexivity.
Qed.
Lemma dispatch_all_app a : forall b g, dispatch_all (a ++ b) g = bind (dispatch_all a g) (dispatch_all b).
Proof.
  induction a as [|s t IH]; intros b g; [reflexivity|]. cbn [app dispatch_all].
  destruct (dispatch (s_name s) (s_body s) g); cbn [bind]; [apply IH|reflexivity|reflexivity].
Qed.
Lemma dispatch_all_other pre : Forall other_name pre -> forall g, dispatch_all pre g = Ok g.
Proof.
  induction 1 as [|s t [H1 H2] _ IH]; intros g; [reflexivity|]. cbn [dispatch_all]. rewrite dispatch_other by assumption. apply IH.
Qed.

Definition features_head : list N := bs "FEATURES             Location/Qualifiers".
Definition origin_head (n : nat) : list N := bs "ORIGIN" ++ indent n.
Definition piece_ok (p : list N * list N) : Prop :=
  forallb (fun c => negb (is_letter_ascii c)) (fst p) = true /\ forallb is_letter_ascii (snd p) = true.
Definition origin_line (l : list (list N * list N)) : list N := concat (map (fun p => fst p ++ snd p) l).
Definition features_section (fs : list wfeat) : section :=
  {| s_head := features_head; s_name := bs "FEATURES"; s_body := render_features fs |}.
Definition origin_section (n : nat) (olines : list (list (list N * list N))) : section :=
  {| s_head := origin_head n; s_name := bs "ORIGIN"; s_body := map origin_line olines |}.

Lemma fields_indent_acc n : forall rcur, rcur <> [] -> fields_go (indent n) rcur = [rev rcur].
Proof.
  induction n as [|n IH]; intros rcur H; cbn [indent repeat fields_go].
  - destruct rcur; [congruence|reflexivity].
  - change (is_space 32) with true. cbn iota. destruct rcur as [|x r]; [congruence|]. f_equal.
    clear. induction n as [|n IH]; [reflexivity|]. cbn [repeat fields_go]. change (is_space 32) with true. cbn iota. exact IH.
Qed.
Lemma origin_head_ok n : head_ok {| s_head := origin_head n; s_name := bs "ORIGIN"; s_body := [] |}.
Proof.
  split.
  - exists 79, (bs "RIGIN" ++ indent n). split; reflexivity.
  - exists []. cbn [s_head s_name]. unfold origin_head.
    rewrite (fields_word (bs "ORIGIN")) by (repeat constructor). rewrite fields_indent_acc by discriminate. reflexivity.
Qed.
Lemma more_lines_body cs : Forall body_line_ok (more_lines cs).
Proof.
  induction cs as [|c [|c' t] IH]; [constructor| |].
  - constructor; [|constructor]. exists 32, (indent 20 ++ c ++ [34]). split; reflexivity.
  - change (more_lines (c :: c' :: t)) with ((indent 21 ++ c) :: more_lines (c' :: t)). constructor; [|exact IH].
    exists 32, (indent 20 ++ c). split; reflexivity.
Qed.
Lemma features_body_ok fs : Forall body_line_ok (render_features fs).
Proof.
  unfold render_features. induction fs as [|f t IH]; [constructor|]. cbn [map concat]. apply Forall_app. split; [|exact IH].
  unfold feat_lines. constructor; [|apply Forall_app; split].
  - exists 32, (indent 4 ++ fk f ++ indent 3 ++ floc f). split; reflexivity.
  - apply Forall_forall. intros l Hl. apply in_map_iff in Hl as (c & <- & _). exists 32, (indent 20 ++ c). split; reflexivity.
  - induction (fquals f) as [|q qs IHq]; [constructor|]. cbn [map concat]. apply Forall_app. split; [|exact IHq].
    unfold qual_lines. destruct (qmore q) as [|c cs].
    + constructor; [|constructor]. exists 32, (indent 20 ++ [47] ++ qk q ++ [61] ++ value_text q). split; reflexivity.
    + constructor; [|apply more_lines_body]. exists 32, (indent 20 ++ [47] ++ qk q ++ [61] ++ [34] ++ qv q). split; reflexivity.
Qed.

Theorem genbank_file_read (pre : list section) (fs : list wfeat) (n : nat) (olines : list (list (list N * list N))) :
  Forall sec_ok pre -> Forall other_name pre ->
  fs <> [] -> Forall wf_feat fs ->
  Forall (Forall piece_ok) olines -> Forall body_line_ok (map origin_line olines) ->
  read_genbank_lines (flatten (pre ++ [features_section fs; origin_section n olines])) =
  Ok {| gb_features := Some (map parsed fs); gb_origin := Some (concat (map (fun l => concat (map snd l)) olines)) |}.
Proof.
  intros Hpre Hoth Hne Hwf Hp Hb. rewrite read_sections.
  - rewrite dispatch_all_app, (dispatch_all_other pre Hoth). cbn [bind dispatch_all features_section origin_section s_name s_body].
    unfold dispatch at 1. change (list_eqb (bs "FEATURES") (bs "FEATURES")) with true. cbv iota.
    rewrite (features_roundtrip fs Hne Hwf). cbn [bind]. unfold dispatch.
    change (list_eqb (bs "ORIGIN") (bs "FEATURES")) with false. change (list_eqb (bs "ORIGIN") (bs "ORIGIN")) with true. cbv iota.
    cbn [bind gb_features gb_origin gb_empty].
    change (map origin_line olines) with (map (fun l => concat (map (fun p => fst p ++ snd p) l)) olines).
    rewrite (parse_origin_lines olines Hp). reflexivity.
  - apply Forall_app. split; [exact Hpre|]. constructor; [|constructor; [|constructor]].
    + split; [|apply features_body_ok]. split; [exists 70, (bs "EATURES             Location/Qualifiers"); split; reflexivity|].
      exists [bs "Location/Qualifiers"]. reflexivity.
    + split; [|exact Hb]. destruct (origin_head_ok n) as [H1 H2]. split; assumption.
Qed.

(* ... and as bytes: any mixture of LF and CRLF line ends *)
Theorem genbank_file_bytes_read (lines : list (list N * bool)) :
  Forall (fun le => ok_line (fst le)) lines -> read_genbank (render lines) = read_genbank_lines (map fst lines).
Proof. intros H. unfold read_genbank. rewrite scan_render by exact H. reflexivity. Qed.
