(* GffLineProofs.v — C14: a well-formed GFF3 feature row, written as text, is read back field by field. *)
From GF Require Import Base FastaModel LocationModel LocationProofs GffLineModel.
Open Scope N_scope.

Definition lacks (s : N) (x : list N) : Prop := forall c, In c x -> c <> s.

Lemma split_byte_lacks s x : lacks s x -> forall rest rcur, split_byte s (x ++ rest) rcur = split_byte s rest (rev x ++ rcur).
Proof.
  induction x as [|c x IH]; intros Hx rest rcur; [reflexivity|]. cbn [app split_byte].
  destruct (N.eqb_spec c s) as [E|_]; [exfalso; apply (Hx c); [left; reflexivity|exact E]|].
  rewrite IH by (intros c' Hc'; apply Hx; right; exact Hc'). cbn [rev]. rewrite <- app_assoc. reflexivity.
Qed.
Lemma split_byte_join s (items : list (list N)) : items <> [] -> Forall (lacks s) items -> split_byte s (join [s] items) [] = items.
Proof.
  intros Hne H. induction H as [|x t Hx Ht IH]; [congruence|]. destruct t as [|y t'].
  - cbn [join]. rewrite <- (app_nil_r x) at 1. rewrite split_byte_lacks by exact Hx. cbn. rewrite app_nil_r, rev_involutive. reflexivity.
  - change (join [s] (x :: y :: t')) with (x ++ [s] ++ join [s] (y :: t')). rewrite split_byte_lacks by exact Hx.
    cbn [app split_byte]. rewrite N.eqb_refl, app_nil_r, rev_involutive. f_equal. apply IH. discriminate.
Qed.
Lemma lacks_digits s n : is_digit s = false -> lacks s (dec_nat n).
Proof.
  intros Hs c Hc E. subst c. pose proof (dec_nat_digits n) as D. unfold digits in D. rewrite Forall_forall in D. rewrite (D s Hc) in Hs. discriminate.
Qed.
Lemma lacks_app s a b : lacks s a -> lacks s b -> lacks s (a ++ b).
Proof. intros Ha Hb c Hc. apply in_app_iff in Hc as [H|H]; [apply Ha|apply Hb]; exact H. Qed.
Lemma lacks_join s sep (l : list (list N)) : sep <> s -> Forall (lacks s) l -> lacks s (join [sep] l).
Proof.
  intros Hsep H. induction H as [|x t Hx Ht IH]; [intros c []|]. destruct t as [|y t']; [exact Hx|].
  change (join [sep] (x :: y :: t')) with (x ++ [sep] ++ join [sep] (y :: t')). apply lacks_app; [exact Hx|].
  apply lacks_app; [intros c [<-|[]]; exact Hsep|exact IH].
Qed.

(* ---- well-formed rows ---- *)
Definition wf_attr (kv : list N * list (list N)) : Prop :=
  lacks 9 (fst kv) /\ lacks 59 (fst kv) /\ lacks 61 (fst kv) /\ snd kv <> [] /\
  Forall (fun v => lacks 9 v /\ lacks 59 v /\ lacks 61 v /\ lacks 44 v) (snd kv).
Definition wf_row (r : grow) : Prop :=
  seqid_ok (w_seqid r) = true /\ lacks 9 (w_seqid r) /\ lacks 9 (w_source r) /\ lacks 9 (w_type r) /\ lacks 9 (w_score r) /\
  In (w_strand r) [43; 45; 46; 63] /\
  match w_phase r with Some p => (p <= 2)%nat | None => list_eqb (w_type r) (bs "CDS") = false end /\
  w_attrs r <> [] /\ Forall wf_attr (w_attrs r).
Definition feat_of (r : grow) : gfeat :=
  {| g_seqid := w_seqid r; g_source := w_source r; g_type := w_type r; g_start := Z.of_nat (w_start r); g_end := Z.of_nat (w_end r);
     g_score := w_score r; g_strand := [w_strand r]; g_phase := match w_phase r with Some p => p | None => 0%nat end; g_attrs := w_attrs r |}.

Lemma attr_text_lacks s kv : s <> 61 -> s <> 44 -> lacks s (fst kv) -> Forall (lacks s) (snd kv) -> lacks s (fst kv ++ [61] ++ join [44] (snd kv)).
Proof.
  intros H61 H44 Hk Hv. apply lacks_app; [exact Hk|]. apply lacks_app; [intros c [<-|[]]; congruence|].
  apply lacks_join; [congruence|exact Hv].
Qed.
Lemma attrs_roundtrip a : Forall wf_attr a -> attrs_of (map (fun kv => fst kv ++ [61] ++ join [44] (snd kv)) a) = Some a.
Proof.
  induction 1 as [|[k vs] t (Hk9 & Hk59 & Hk61 & Hne & Hv) Ht IH]; [reflexivity|]. cbn [map attrs_of fst snd] in *.
  rewrite split_byte_lacks by exact Hk61. cbn [app split_byte]. cbn [N.eqb Pos.eqb]. rewrite app_nil_r, rev_involutive.
  assert (Hj : lacks 61 (join [44] vs)).
  { apply lacks_join; [discriminate|]. eapply Forall_impl; [|exact Hv]. intros v (_ & _ & H & _). exact H. }
  rewrite <- (app_nil_r (join [44] vs)) at 1. rewrite split_byte_lacks by exact Hj. cbn [split_byte]. rewrite app_nil_r, rev_involutive. cbv beta iota.
  rewrite split_byte_join; [|exact Hne|eapply Forall_impl; [|exact Hv]; intros v (_ & _ & _ & H); exact H].
  change (fun kv : list N * list (list N) => fst kv ++ 61 :: join [44] (snd kv)) with (fun kv : list N * list (list N) => fst kv ++ [61] ++ join [44] (snd kv)).
  rewrite IH. reflexivity.
Qed.

Theorem gff_row_roundtrip r : wf_row r -> feature_from_line (render_row r) = Ok (feat_of r).
Proof.
  intros (Hid & Hid9 & Hsrc & Htyp & Hsc & Hstr & Hph & Hane & Hattrs).
  assert (Hat9 : lacks 9 (render_attrs (w_attrs r))).
  { unfold render_attrs. apply lacks_join; [discriminate|]. apply Forall_forall. intros x Hx. apply in_map_iff in Hx as (kv & <- & Hkv).
    rewrite Forall_forall in Hattrs. destruct (Hattrs kv Hkv) as (Hk9 & _ & _ & _ & Hv).
    apply attr_text_lacks; try discriminate; [exact Hk9|]. eapply Forall_impl; [|exact Hv]. intros v (H & _). exact H. }
  assert (Hphase9 : lacks 9 (match w_phase r with Some p => dec_nat p | None => [46] end)).
  { destruct (w_phase r); [apply lacks_digits; reflexivity|intros c [<-|[]]; discriminate]. }
  assert (Hstrand9 : lacks 9 [w_strand r]).
  { intros c [<-|[]] E. rewrite E in Hstr. cbn in Hstr. intuition discriminate. }
  unfold feature_from_line, render_row.
  rewrite split_byte_join; [|discriminate|].
  2:{ repeat (constructor; [first [assumption | apply lacks_digits; reflexivity]|]). constructor. }
  rewrite Hid. cbn [negb]. rewrite !atoi_dec.
  assert (Hso : strand_ok [w_strand r] = true).
  { unfold strand_ok. cbn in Hstr. destruct Hstr as [<-|[<-|[<-|[<-|[]]]]]; reflexivity. }
  rewrite Hso. cbn [negb].
  assert (Hpo : phase_of (list_eqb (w_type r) (bs "CDS")) (match w_phase r with Some p => dec_nat p | None => [46] end) =
                Some (match w_phase r with Some p => p | None => 0%nat end)).
  { unfold phase_of. destruct (w_phase r) as [p|].
    - rewrite atoi_dec. destruct (Z.leb_spec 0 (Z.of_nat p)); [|lia]. destruct (Z.leb_spec (Z.of_nat p) 2); [|lia]. cbn [andb]. rewrite Nat2Z.id. reflexivity.
    - rewrite Hph. reflexivity. }
  rewrite Hpo. unfold render_attrs.
  rewrite split_byte_join.
  - rewrite attrs_roundtrip by exact Hattrs. reflexivity.
  - destruct (w_attrs r); [congruence|discriminate].
  - apply Forall_forall. intros x Hx. apply in_map_iff in Hx as (kv & <- & Hkv).
    rewrite Forall_forall in Hattrs. destruct (Hattrs kv Hkv) as (_ & Hk59 & _ & _ & Hv).
    apply attr_text_lacks; try discriminate; [exact Hk59|]. eapply Forall_impl; [|exact Hv]. intros v (_ & H & _). exact H.
Qed.

(* what the row says about a coding feature is what RegionsFromGFF uses: type, start, end, strand, phase, ID and Name *)
Example gff_row_example :
  feature_from_line (bs "MN908947.3" ++ [9] ++ bs "Genbank" ++ [9] ++ bs "CDS" ++ [9] ++ bs "13468" ++ [9] ++ bs "21555" ++ [9; 46; 9; 43; 9; 48; 9] ++ bs "ID=cds-1;Name=ORF1ab;Dbxref=a,b")
  = Ok {| g_seqid := bs "MN908947.3"; g_source := bs "Genbank"; g_type := bs "CDS"; g_start := 13468; g_end := 21555; g_score := [46];
          g_strand := [43]; g_phase := 0; g_attrs := [(bs "ID", [bs "cds-1"]); (bs "Name", [bs "ORF1ab"]); (bs "Dbxref", [bs "a"; bs "b"])] |}.
Proof. vm_compute. reflexivity. Qed.
