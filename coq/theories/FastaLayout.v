(* FastaLayout.v — C16: reading is independent of the layout (line width, blank lines, CRLF,
   final newline, letter case), the readers agree with one another, score and counts. *)
From GF Require Import Base Alphabet Symbols FastaModel FastaProofs.
Open Scope N_scope.

(* a record as laid out in a file: header text, and the sequence cut into chunks (any of which may be blank) *)
Notation laid := (list N * list (list N))%type.
Definition lines_of (r : laid) : list (list N) := (62 :: fst r) :: snd r.

Section Layout.
  Variable conv : N -> option N.
  Hypothesis conv_gt : conv 62 = None.      (* '>' is not a sequence symbol *)

  Definition good_chunk (c : list N) : Prop := exists e, conv_line conv c = Some e.
  Definition wf (w : nat) (r : laid) : Prop :=
    (exists i, first_field (fst r) = Some i) /\ Forall good_chunk (snd r) /\
    (exists e, conv_line conv (concat (snd r)) = Some e /\ length e = w).

  Definition rec_of (k : nat) (r : laid) : rcd :=
    {| r_id := match first_field (fst r) with Some i => i | None => [] end; r_desc := fst r;
       r_seq := match conv_line conv (concat (snd r)) with Some e => e | None => [] end; r_idx := k |}.
  Fixpoint index_recs (k : nat) (l : list laid) : list rcd :=
    match l with [] => [] | r :: t => rec_of k r :: index_recs (S k) t end.

  Lemma index_recs_app k a b : index_recs k (a ++ b) = index_recs k a ++ index_recs (k + length a) b.
  Proof.
    revert k; induction a as [|x a IH]; intros k; cbn [app index_recs length]; [rewrite Nat.add_0_r; reflexivity|].
    rewrite IH. replace (S k + length a)%nat with (k + S (length a))%nat by lia. reflexivity.
  Qed.

  Lemma conv_line_app a b : conv_line conv (a ++ b) =
    match conv_line conv a, conv_line conv b with Some x, Some y => Some (x ++ y) | _, _ => None end.
  Proof.
    induction a as [|c t IH]; cbn [app conv_line]; [destruct (conv_line conv b); reflexivity|].
    rewrite IH. destruct (conv c), (conv_line conv t), (conv_line conv b); reflexivity.
  Qed.

  Lemma good_not_header c d : good_chunk (c :: d) -> (c =? 62) = false.
  Proof.
    intros [e He]. destruct (N.eqb_spec c 62) as [->|]; [|reflexivity].
    cbn [conv_line] in He. rewrite conv_gt in He. discriminate.
  Qed.

  Lemma run_chunks cs : Forall good_chunk cs -> forall s, first s = false ->
    exists e, conv_line conv (concat cs) = Some e /\
      run conv true s cs = Ok {| first := false; cid := cid s; cdesc := cdesc s; buf := buf s ++ e;
                                 width := width s; counter := counter s; out := out s |}.
  Proof.
    induction cs as [|c t IH]; intros Hg s Hf.
    - exists []. split; [reflexivity|]. cbn [run]. rewrite app_nil_r. destruct s; cbn in *; subst; reflexivity.
    - inversion Hg as [|? ? Hc Ht]; subst. cbn [concat run].
      destruct c as [|a d].
      + cbn [step app bind]. apply IH; assumption.
      + pose proof (good_not_header _ _ Hc) as Hne. destruct Hc as [ec Hec].
        unfold step. rewrite Hf, Hne, Hec. cbn [bind].
        set (s1 := {| first := false; cid := cid s; cdesc := cdesc s; buf := buf s ++ ec; width := width s; counter := counter s; out := out s |}).
        destruct (IH Ht s1 eq_refl) as [et [Het Hrun]].
        exists (ec ++ et). split.
        * rewrite conv_line_app, Hec, Het. reflexivity.
        * rewrite Hrun. unfold s1; cbn. rewrite app_assoc. reflexivity.
  Qed.

  Lemma run_app s a b : run conv true s (a ++ b) = bind (run conv true s a) (fun s' => run conv true s' b).
  Proof.
    revert s; induction a as [|l t IH]; intros s; cbn [app run bind]; [reflexivity|].
    destruct (step conv true s l); cbn [bind]; [apply IH|reflexivity|reflexivity].
  Qed.

  (* state in which `done` records have been emitted and `cur` is pending with the part `b` of its sequence read *)
  Definition pstate (w : nat) (done : list laid) (cur : laid) (b : list N) : st :=
    {| first := false; cid := r_id (rec_of 0 cur); cdesc := fst cur; buf := b;
       width := match done with [] => 0%nat | _ => w end; counter := length done; out := index_recs 0 done |}.

  Lemma run_layouts w : (0 < w)%nat -> forall rest done cur, wf w cur -> Forall (wf w) rest ->
    match run conv true (pstate w done cur (r_seq (rec_of 0 cur))) (flat_map lines_of rest) with
    | Ok s => finish true s = Ok (index_recs 0 (done ++ cur :: rest))
    | _ => False end.
  Proof.
    intros Hw0. induction rest as [|r rest IH]; intros done cur Hcur Hrest.
    - cbn [flat_map run]. destruct Hcur as (_ & _ & [ecur [Hecur Hlc]]).
      assert (Hlen : length (r_seq (rec_of 0 cur)) = w) by (unfold rec_of; cbn [r_seq]; rewrite Hecur; exact Hlc).
      unfold finish, pstate. cbn [buf counter width out cid cdesc]. rewrite Hlen.
      destruct (Nat.eqb_spec w 0); [lia|]. cbn [negb orb].
      assert (Hcheck : (negb (Nat.eqb (length done) 0) && negb (Nat.eqb w match done with [] => 0%nat | _ => w end)) = false).
      { destruct done; cbn; [reflexivity|]. rewrite Nat.eqb_refl. reflexivity. }
      rewrite Hcheck. rewrite index_recs_app. cbn [index_recs Nat.add]. reflexivity.
    - inversion Hrest as [|? ? Hr Hrest']; subst.
      cbn [flat_map]. unfold lines_of at 1. rewrite <- app_comm_cons. cbn [run].
      pose proof Hcur as Hcur0. destruct Hcur as (_ & _ & [ecur [Hecur Hlc]]).
      pose proof Hr as Hr0. destruct Hr as ([ir Hir] & Hgr & [er [Her Hlr]]).
      assert (Hlen : length (r_seq (rec_of 0 cur)) = w) by (unfold rec_of; cbn [r_seq]; rewrite Hecur; exact Hlc).
      unfold step at 1. cbn [pstate first counter buf width]. cbn [N.eqb Pos.eqb]. rewrite Hlen.
      assert (Hcheck : (negb (Nat.eqb (length done) 0) && negb (Nat.eqb w match done with [] => 0%nat | _ => w end)) = false).
      { destruct done; cbn; [reflexivity|]. rewrite Nat.eqb_refl. reflexivity. }
      rewrite Hcheck. unfold header. rewrite Hir. cbn [bind].
      rewrite run_app.
      match goal with |- match bind (run _ _ ?s0 _) _ with _ => _ end => set (s1 := s0) end.
      destruct (run_chunks (snd r) Hgr s1 eq_refl) as [e [He Hrun]].
      rewrite Hrun. cbn [bind]. rewrite Her in He. injection He as <-.
      specialize (IH (done ++ [cur]) r Hr0 Hrest').
      replace ((done ++ [cur]) ++ r :: rest) with (done ++ cur :: r :: rest) in IH by (rewrite <- app_assoc; reflexivity).
      match goal with |- match run _ _ ?sa _ with _ => _ end => set (sA := sa) end.
      match type of IH with match run _ _ ?sb _ with _ => _ end => set (sB := sb) in IH end.
      assert (HAB : sA = sB).
      { unfold sA, sB, s1, pstate. cbn [cid cdesc buf width counter out first].
        rewrite app_length, index_recs_app. cbn [length index_recs app Nat.add].
        replace (length done + 1)%nat with (S (length done)) by lia.
        assert (Hid : r_id (rec_of 0 r) = ir) by (unfold rec_of; cbn [r_id]; rewrite Hir; reflexivity).
        assert (Hsq : r_seq (rec_of 0 r) = er) by (unfold rec_of; cbn [r_seq]; rewrite Her; reflexivity).
        rewrite Hid, Hsq. f_equal.
        destruct done; cbn; reflexivity. }
      rewrite HAB. exact IH.
  Qed.

  (* reading any layout of the records returns exactly the records, indexed in input order: the
     chunking (line widths, blank lines) is irrelevant *)
  Theorem read_lines_layout_independent w first_rec rest :
    (0 < w)%nat -> wf w first_rec -> Forall (wf w) rest ->
    read_lines conv true (flat_map lines_of (first_rec :: rest)) = Ok (index_recs 0 (first_rec :: rest)).
  Proof.
    intros Hw Hf Hr. unfold read_lines. cbn [flat_map]. unfold lines_of at 1. rewrite <- app_comm_cons. cbn [run].
    pose proof Hf as Hf0. destruct Hf as ([i Hi] & Hg & [e [He Hl]]).
    unfold step at 1. cbn [init first]. cbn [N.eqb Pos.eqb]. unfold header. rewrite Hi. cbn [bind].
    rewrite run_app.
    match goal with |- bind (bind (run _ _ ?s0 _) _) _ = _ => set (s1 := s0) end.
    destruct (run_chunks (snd first_rec) Hg s1 eq_refl) as [e' [He' Hrun]].
    rewrite Hrun. cbn [bind]. rewrite He in He'. injection He' as <-.
    pose proof (run_layouts w Hw rest [] first_rec Hf0 Hr) as H.
    match goal with |- bind (run _ _ ?sa _) _ = _ => set (sA := sa) end.
    match type of H with match run _ _ ?sb _ with _ => _ end => set (sB := sb) in H end.
    assert (HAB : sA = sB).
    { unfold sA, sB, s1, pstate, init. cbn [cid cdesc buf width counter out first length index_recs app].
      assert (Hid : r_id (rec_of 0 first_rec) = i) by (unfold rec_of; cbn [r_id]; rewrite Hi; reflexivity).
      assert (Hsq : r_seq (rec_of 0 first_rec) = e) by (unfold rec_of; cbn [r_seq]; rewrite He; reflexivity).
      rewrite Hid, Hsq. reflexivity. }
    rewrite HAB. destruct (run conv true sB (flat_map lines_of rest)); cbn [bind]; [exact H|contradiction|contradiction].
  Qed.
End Layout.

(* ---------- byte level: bufio.ScanLines undoes any choice of LF / CRLF line ends ---------- *)
Definition ok_line (l : list N) : Prop := ~ In 10 l /\ last l 0 <> 13.
Definition eol (crlf : bool) : list N := if crlf then [13; 10] else [10].
Fixpoint render (ls : list (list N * bool)) : list N :=
  match ls with [] => [] | (l, e) :: t => l ++ eol e ++ render t end.

Lemma drop_cr_rev_ne x r : x <> 13 -> drop_cr_rev (x :: r) = rev (x :: r).
Proof.
  intros Hx. rewrite !drop_cr_rev_spec. destruct x as [|p]; [reflexivity|].
  do 4 (destruct p as [p|p|]; try reflexivity). congruence.
Qed.

Lemma drop_cr_rev_ok l : last l 0 <> 13 -> drop_cr_rev (rev l) = l.
Proof.
  intros H. destruct (rev l) as [|x r] eqn:E.
  - apply (f_equal (@rev N)) in E. rewrite rev_involutive in E. subst. reflexivity.
  - assert (El : l = rev r ++ [x]) by (apply (f_equal (@rev N)) in E; rewrite rev_involutive in E; exact E).
    rewrite El, last_last in H. rewrite drop_cr_rev_ne by exact H. rewrite <- E. apply rev_involutive.
Qed.

Lemma scan_aux_line l : forall rcur rest, ~ In 10 l ->
  scan_aux rcur (l ++ 10 :: rest) = drop_cr_rev (rev l ++ rcur) :: scan_aux [] rest.
Proof.
  induction l as [|c t IH]; intros rcur rest Hn; cbn [app scan_aux rev].
  - reflexivity.
  - destruct (N.eqb_spec c 10) as [->|Hc]; [exfalso; apply Hn; left; reflexivity|].
    rewrite IH by (intros Hin; apply Hn; right; exact Hin). rewrite <- app_assoc. reflexivity.
Qed.

Lemma scan_aux_last l : forall rcur, ~ In 10 l -> (l <> [] \/ rcur <> []) ->
  scan_aux rcur l = [drop_cr_rev (rev l ++ rcur)].
Proof.
  induction l as [|c t IH]; intros rcur Hn Hne; cbn [scan_aux rev app].
  - destruct rcur; [destruct Hne; congruence|reflexivity].
  - destruct (N.eqb_spec c 10) as [->|Hc]; [exfalso; apply Hn; left; reflexivity|].
    rewrite IH; [rewrite <- app_assoc; reflexivity|intros Hin; apply Hn; right; exact Hin|right; discriminate].
Qed.

Theorem scan_render ls : Forall (fun le => ok_line (fst le)) ls -> scan_lines (render ls) = map fst ls.
Proof.
  unfold scan_lines. induction 1 as [|[l e] t [Hn Hl] Ht IH]; [reflexivity|]. cbn [render map fst] in *.
  destruct e; cbn [eol].
  - replace (l ++ [13; 10] ++ render t) with ((l ++ [13]) ++ 10 :: render t) by (rewrite <- app_assoc; reflexivity).
    rewrite scan_aux_line.
    + rewrite app_nil_r, rev_app_distr. cbn [rev app]. rewrite !drop_cr_rev_spec. rewrite rev_involutive, IH. reflexivity.
    + intros Hin. apply in_app_or in Hin. destruct Hin as [Hin|[Hin|[]]]; [contradiction|discriminate].
  - change (l ++ [10] ++ render t) with (l ++ 10 :: render t). rewrite scan_aux_line by exact Hn.
    rewrite app_nil_r, drop_cr_rev_ok by exact Hl. rewrite IH. reflexivity.
Qed.

(* the last line may lack its newline *)
Theorem scan_render_nofinal ls l : Forall (fun le => ok_line (fst le)) ls -> ok_line l -> l <> [] ->
  scan_lines (render ls ++ l) = map fst ls ++ [l].
Proof.
  unfold scan_lines. intros H [Hn Hl] Hne. induction H as [|[l0 e] t [Hn0 Hl0] Ht IH].
  - cbn [render app map]. rewrite scan_aux_last by (auto). rewrite app_nil_r, drop_cr_rev_ok by exact Hl. reflexivity.
  - cbn [render map fst] in *. destruct e; cbn [eol].
    + replace ((l0 ++ [13; 10] ++ render t) ++ l) with ((l0 ++ [13]) ++ 10 :: (render t ++ l)) by (rewrite <- !app_assoc; reflexivity).
      rewrite scan_aux_line.
      * rewrite app_nil_r, rev_app_distr. cbn [rev app]. rewrite !drop_cr_rev_spec. rewrite rev_involutive, IH. reflexivity.
      * intros Hin. apply in_app_or in Hin. destruct Hin as [Hin|[Hin|[]]]; [contradiction|discriminate].
    + replace ((l0 ++ [10] ++ render t) ++ l) with (l0 ++ 10 :: (render t ++ l)) by (rewrite <- !app_assoc; reflexivity).
      rewrite scan_aux_line by exact Hn0. rewrite app_nil_r, drop_cr_rev_ok by exact Hl0. rewrite IH. reflexivity.
Qed.

(* ---------- file level: any layout of the records, any line ends ---------- *)
Lemma map_fst_combine_eq {A B} (a : list A) (b : list B) : length b = length a -> map fst (combine a b) = a.
Proof.
  revert b; induction a as [|x a IH]; intros [|y b] H; cbn in *; try discriminate; try reflexivity.
  rewrite IH by lia. reflexivity.
Qed.
Theorem reader_layout_independent conv w first_rec rest (eols : list bool) :
  conv 62 = None -> (0 < w)%nat -> wf conv w first_rec -> Forall (wf conv w) rest ->
  Forall ok_line (flat_map lines_of (first_rec :: rest)) ->
  length eols = length (flat_map lines_of (first_rec :: rest)) ->
  read conv true (render (combine (flat_map lines_of (first_rec :: rest)) eols))
  = Ok (index_recs conv 0 (first_rec :: rest)).
Proof.
  intros Hgt Hw Hf Hr Hok Hlen. unfold read. rewrite scan_render.
  - rewrite map_fst_combine_eq by exact Hlen. apply (read_lines_layout_independent conv Hgt w); assumption.
  - apply Forall_forall. intros [l e] Hin. cbn [fst]. rewrite Forall_forall in Hok. apply Hok.
    eapply in_combine_l. exact Hin.
Qed.

(* ---------- letter case of sequence lines never matters to the encoding readers ---------- *)
Lemma conv_enc_case h l l' : Forall (fun c => c < 256) l -> Forall (fun c => c < 256) l' ->
  map upper l = map upper l' -> conv_line (conv_enc h) l = conv_line (conv_enc h) l'.
Proof.
  intros Hl. revert l'. induction Hl as [|c t Hc Ht IH]; intros [|c' t'] Hl' E; try discriminate; [reflexivity|].
  inversion Hl' as [|? ? Hc' Ht']; subst. cbn [map] in E. injection E as E1 E2.
  cbn [conv_line]. rewrite (IH t' Ht' E2). unfold conv_enc.
  destruct (enc_case h c Hc) as [<- _]. destruct (enc_case h c' Hc') as [<- _]. rewrite E1. reflexivity.
Qed.

(* ---------- refinement between conversions: if conv2 accepts what conv1 accepts, mapping the
   result through g, then a successful read with conv1 is a successful read with conv2 ---------- *)
Section Refine.
  Variables conv1 conv2 : N -> option N.
  Variable g : N -> N.
  Hypothesis Hconv : forall c e, conv1 c = Some e -> conv2 c = Some (g e).

  Lemma conv_line_refine l e : conv_line conv1 l = Some e -> conv_line conv2 l = Some (map g e).
  Proof.
    revert e. induction l as [|c t IH]; intros e H; cbn [conv_line] in *; [injection H as <-; reflexivity|].
    destruct (conv1 c) eqn:E1; [|discriminate]. destruct (conv_line conv1 t) eqn:E2; [|discriminate].
    injection H as <-. rewrite (Hconv _ _ E1), (IH _ eq_refl). reflexivity.
  Qed.

  Lemma step_refine s l s' : step conv1 true s l = Ok s' -> step conv2 true (map_st g s) l = Ok (map_st g s').
  Proof.
    unfold step. destruct l as [|c d]; [intros H; injection H as <-; reflexivity|].
    cbn [map_st first counter buf width]. rewrite map_length. destruct (first s).
    - destruct (c =? 62); [|discriminate]. unfold header, bind. destruct (first_field d); [|discriminate].
      intros H; injection H as <-. reflexivity.
    - destruct (c =? 62).
      + destruct (_ && _); [discriminate|]. unfold header, bind. destruct (first_field d); [|discriminate].
        intros H; injection H as <-. unfold map_st. cbn [first cid cdesc buf width counter out map].
        rewrite map_app. reflexivity.
      + destruct (conv_line conv1 (c :: d)) eqn:E; [|discriminate]. intros H; injection H as <-.
        rewrite (conv_line_refine _ _ E). unfold map_st. cbn [first cid cdesc buf width counter out]. rewrite map_app. reflexivity.
  Qed.

  Lemma run_refine ls : forall s s', run conv1 true s ls = Ok s' -> run conv2 true (map_st g s) ls = Ok (map_st g s').
  Proof.
    induction ls as [|l t IH]; intros s s' H; cbn [run] in *; [injection H as <-; reflexivity|].
    unfold bind in *. destruct (step conv1 true s l) as [s1| |] eqn:E; try discriminate.
    rewrite (step_refine _ _ _ E). apply IH. exact H.
  Qed.

  Theorem read_refine file recs : read conv1 true file = Ok recs -> read conv2 true file = Ok (map (map_rcd g) recs).
  Proof.
    unfold read, read_lines, bind. destruct (run conv1 true init (scan_lines file)) as [s| |] eqn:E; try discriminate.
    change init with (map_st g init). rewrite (run_refine _ _ _ E). rewrite finish_map. intros ->. reflexivity.
  Qed.
End Refine.

(* the plain-text reader agrees with the encoding readers: same IDs, descriptions, indices, and its
   (upper-cased) sequence is the decoding of theirs *)
Definition dec1 (e : N) : N := hd 0 (dec e).
Theorem readers_agree h file recs : Forall (fun c => c < 256) file ->
  read_encoded h file = Ok recs -> read_plain file = Ok (map (map_rcd dec1) recs).
Proof.
  intros Hf H. unfold read_plain.
  rewrite (read_refine (conv_enc h) conv_plain dec1) with (recs := recs); [reflexivity| |exact H].
  intros c e Hc. unfold conv_enc in Hc. destruct (N.eqb_spec (enc h c) 0) as [|Hne]; [discriminate|]. injection Hc as <-.
  unfold conv_plain, dec1. f_equal.
  destruct (N.ltb_spec c 256) as [Hlt|Hge].
  - rewrite dec_enc; [reflexivity|exact Hlt|]. apply (enc_valid_iff h c Hlt). exact Hne.
  - exfalso. apply Hne. clear -Hge. unfold enc.
    assert (L : forall t, Forall (fun kv => fst kv < 256) t -> lookup 0 t c = 0).
    { induction 1 as [|[k v] t Hk Ht IH]; [reflexivity|]. cbn [lookup]. cbn [fst] in Hk.
      destruct (N.eqb_spec c k); [lia|exact IH]. }
    destruct h; apply L; apply Forall_forall; intros kv Hin;
      [assert (X : forallb (fun kv => fst kv <? 256) GFgen.Tables.enc_hard_tab = true) by (vm_compute; reflexivity)
      |assert (X : forallb (fun kv => fst kv <? 256) GFgen.Tables.enc_soft_tab = true) by (vm_compute; reflexivity)];
      rewrite forallb_forall in X; apply N.ltb_lt; apply X; exact Hin.
Qed.

(* the scoring reader's score and counts are those of the sequence *)
Definition sum_Z (l : list Z) : Z := fold_right Z.add 0%Z l.
Lemma seq_score_sum s : seq_score s = sum_Z (map escore s).
Proof.
  unfold seq_score. assert (G : forall a, fold_left (fun a e => (a + escore e)%Z) s a = (a + sum_Z (map escore s))%Z).
  { induction s as [|e t IH]; intros a; cbn [fold_left map sum_Z fold_right]; [lia|]. rewrite IH. unfold sum_Z. lia. }
  rewrite G. lia.
Qed.

Theorem score_counts_correct (s : list N) : Forall (fun c => c < 256 /\ valid c = true) s ->
  seq_score (map (enc false) s) = sum_Z (map card_score s) /\
  count_eq 136 (map (enc false) s) = length (filter (fun c => upper c =? 65) s) /\
  count_eq 24 (map (enc false) s) = length (filter (fun c => upper c =? 84) s) /\
  count_eq 72 (map (enc false) s) = length (filter (fun c => upper c =? 71) s) /\
  count_eq 40 (map (enc false) s) = length (filter (fun c => upper c =? 67) s).
Proof.
  intros H. rewrite seq_score_sum. unfold count_eq.
  induction H as [|c t [Hc Vc] Ht IH]; [cbn; repeat split; reflexivity|].
  destruct IH as (I0 & I1 & I2 & I3 & I4). cbn [map sum_Z fold_right filter].
  destruct (enc_consts false c Hc Vc) as (E1 & E2 & E3 & E4 & _).
  rewrite (N.eqb_sym 136), (N.eqb_sym 24), (N.eqb_sym 72), (N.eqb_sym 40), E1, E2, E3, E4.
  rewrite (escore_enc c Hc Vc), (score_spec c Hc). fold (sum_Z (map escore (map (enc false) t))). rewrite I0.
  repeat split; try reflexivity;
    match goal with |- context [if ?b then _ else _] => destruct b end; cbn [length]; congruence.
Qed.
