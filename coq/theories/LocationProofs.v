(* LocationProofs.v — C14: the byte-level reader of GenBank location strings returns, for every rendering of a location
   (a..b, join(...), complement(a..b), complement(join(...)), join(complement(...),...); any numbers, any number of
   segments in any order), exactly the positions the location denotes, and IsReverse its strand. *)
From GF Require Import Base FastaModel LocationModel.
Open Scope N_scope.

(* ---- digits ---- *)
Definition digits (l : list N) : Prop := Forall (fun c => is_digit c = true) l.
Lemma dec_nat_digits n : digits (dec_nat n).
Proof. unfold digits, dec_nat. apply Forall_forall. intros c Hc. pose proof (dec_N_digits (N.of_nat n)) as D. rewrite forallb_forall in D. exact (D c Hc). Qed.
Lemma dec_nat_nonempty' n : dec_nat n <> [].
Proof. apply dec_N_nonempty. Qed.
Lemma digit_range c : is_digit c = true -> 48 <= c <= 57.
Proof. unfold is_digit. rewrite andb_true_iff, !N.leb_le. tauto. Qed.

(* a non-empty digit string: first and last characters are digits *)
Lemma digits_head l : digits l -> l <> [] -> exists d t, l = d :: t /\ is_digit d = true.
Proof. intros H Hn. destruct l as [|d t]; [congruence|]. inversion H; subst. eauto. Qed.
Lemma digits_last l : digits l -> l <> [] -> exists y d, l = y ++ [d] /\ is_digit d = true.
Proof.
  intros H Hn. destruct (exists_last Hn) as (y & d & ->). exists y, d. split; [reflexivity|].
  unfold digits in H. rewrite Forall_forall in H. apply H. apply in_app_iff. right; left; reflexivity.
Qed.

Lemma atoi_dec n : atoi (dec_nat n) = Some (Z.of_nat n).
Proof.
  destruct (digits_head _ (dec_nat_digits n) (dec_nat_nonempty' n)) as (d & t & E & Hd).
  unfold atoi. rewrite E. apply digit_range in Hd.
  destruct (N.eqb_spec d 43); [lia|]. destruct (N.eqb_spec d 45); [lia|]. rewrite <- E.
  unfold dec_nat. rewrite parse_dec_N. cbn [option_map]. rewrite nat_N_Z. reflexivity.
Qed.

(* ---- split on ".." ---- *)
Lemma split_dd_nodot x : (forall c, In c x -> c <> 46) -> forall rest rcur, split_dd (x ++ rest) rcur = split_dd rest (rev x ++ rcur).
Proof.
  induction x as [|c x IH]; intros Hx rest rcur; [reflexivity|]. cbn [app split_dd].
  destruct (N.eqb_spec c 46) as [E|_]; [exfalso; apply (Hx c); [left; reflexivity|exact E]|]. cbn [andb].
  rewrite IH by (intros c' Hc'; apply Hx; right; exact Hc'). cbn [rev]. rewrite <- app_assoc. reflexivity.
Qed.
Lemma digits_nodot l : digits l -> forall c, In c l -> c <> 46.
Proof. intros H c Hc. unfold digits in H. rewrite Forall_forall in H. apply H, digit_range in Hc. lia. Qed.
Lemma split_dd_rng ab : split_dd (rng ab) [] = [dec_nat (fst ab); dec_nat (snd ab)].
Proof.
  unfold rng. rewrite split_dd_nodot by (apply digits_nodot, dec_nat_digits). cbn [app split_dd]. cbn [N.eqb Pos.eqb andb].
  rewrite app_nil_r, rev_involutive. f_equal.
  rewrite <- (app_nil_r (dec_nat (snd ab))) at 1. rewrite split_dd_nodot by (apply digits_nodot, dec_nat_digits).
  cbn [split_dd]. rewrite app_nil_r, rev_involutive. reflexivity.
Qed.
Lemma item_bounds_rng ab : item_bounds (rng ab) = Ok (Z.of_nat (fst ab), Z.of_nat (snd ab)).
Proof. unfold item_bounds. rewrite split_dd_rng, !atoi_dec. reflexivity. Qed.

(* ---- characters of a rendered range ---- *)
Definition rchar (c : N) : Prop := is_digit c = true \/ c = 46.
Lemma rng_chars ab : Forall rchar (rng ab).
Proof.
  unfold rng. apply Forall_app. split; [|apply Forall_app; split].
  - eapply Forall_impl; [|apply dec_nat_digits]. intros c H; left; exact H.
  - repeat constructor; right; reflexivity.
  - eapply Forall_impl; [|apply dec_nat_digits]. intros c H; left; exact H.
Qed.
Lemma rchar_not c x : rchar c -> (x < 46 \/ (57 < x)) -> c <> x.
Proof. intros [H| ->] Hx; [apply digit_range in H; lia|lia]. Qed.
Lemma rng_head ab : exists d t, rng ab = d :: t /\ is_digit d = true.
Proof.
  destruct (digits_head _ (dec_nat_digits (fst ab)) (dec_nat_nonempty' (fst ab))) as (d & t & E & Hd).
  exists d, (t ++ [46; 46] ++ dec_nat (snd ab)). unfold rng. rewrite E. split; [reflexivity|exact Hd].
Qed.
Lemma rng_last ab : exists y d, rng ab = y ++ [d] /\ is_digit d = true.
Proof.
  destruct (digits_last _ (dec_nat_digits (snd ab)) (dec_nat_nonempty' (snd ab))) as (y & d & E & Hd).
  exists (dec_nat (fst ab) ++ [46; 46] ++ y), d. unfold rng. rewrite E, <- !app_assoc. split; [reflexivity|exact Hd].
Qed.

(* ---- contains ".." ---- *)
Lemma contains_app_right p x y : contains p y = true -> contains p (x ++ y) = true.
Proof.
  intros H. induction x as [|c x IH]; [exact H|]. cbn [app contains]. rewrite IH. apply orb_true_r.
Qed.
Lemma is_range_rng ab : is_range (rng ab) = true.
Proof. unfold is_range, rng. apply contains_app_right. reflexivity. Qed.

(* ---- nesting depth ---- *)
Definition noparen (l : list N) : Prop := Forall (fun c => c <> 40 /\ c <> 41) l.
Lemma rng_noparen ab : noparen (rng ab).
Proof. eapply Forall_impl; [|apply rng_chars]. intros c H. split; apply (rchar_not c); try exact H; lia. Qed.
Lemma nested_noparen x : noparen x -> forall d rest, (d <= 1)%Z -> is_nested_from d (x ++ rest) = is_nested_from d rest.
Proof.
  induction 1 as [|c x [H40 H41] Hx IH]; intros d rest Hd; [reflexivity|]. cbn [app is_nested_from].
  destruct (N.eqb_spec c 40); [contradiction|]. destruct (N.eqb_spec c 41); [contradiction|].
  destruct (Z.ltb_spec 1 d); [lia|]. apply IH. exact Hd.
Qed.
Lemma nested_noparen_nil x : noparen x -> forall d, (d <= 1)%Z -> is_nested_from d x = false.
Proof. intros H d Hd. rewrite <- (app_nil_r x). rewrite nested_noparen by assumption. reflexivity. Qed.

(* ---- the two Trim calls ---- *)
Lemma digit_not_in_cut d cut : is_digit d = true -> Forall (fun c => c < 48 \/ 57 < c) cut -> existsb (N.eqb d) cut = false.
Proof.
  intros Hd Hc. apply digit_range in Hd. induction Hc as [|c cut Hc _ IH]; [reflexivity|]. cbn [existsb].
  destruct (N.eqb_spec d c); [lia|]. exact IH.
Qed.
Lemma cut_join_nodigit : Forall (fun c => c < 48 \/ 57 < c) cut_join.
Proof. unfold cut_join. cbn. repeat constructor; lia. Qed.
Lemma cut_comp_nodigit : Forall (fun c => c < 48 \/ 57 < c) cut_comp.
Proof. unfold cut_comp. cbn. repeat constructor; lia. Qed.
(* TrimRight(")") of x ++ ")" where x ends in a digit *)
Lemma trim_right_paren y d : is_digit d = true -> trim_right [41] ((y ++ [d]) ++ [41]) = y ++ [d].
Proof.
  intros Hd. unfold trim_right. rewrite rev_app_distr. cbn [rev app dropwhile existsb]. cbn [N.eqb Pos.eqb orb].
  rewrite rev_app_distr. cbn [rev app dropwhile existsb].
  replace (d =? 41) with false by (symmetry; apply N.eqb_neq; apply digit_range in Hd; lia). cbn [orb].
  change (d :: rev y) with ([d] ++ rev y). rewrite rev_app_distr, rev_involutive. reflexivity.
Qed.

(* ---- split on "," ---- *)
Lemma split_comma_nocomma x : (forall c, In c x -> c <> 44) -> forall rest rcur, split_comma (x ++ rest) rcur = split_comma rest (rev x ++ rcur).
Proof.
  induction x as [|c x IH]; intros Hx rest rcur; [reflexivity|]. cbn [app split_comma].
  destruct (N.eqb_spec c 44) as [E|_]; [exfalso; apply (Hx c); [left; reflexivity|exact E]|].
  rewrite IH by (intros c' Hc'; apply Hx; right; exact Hc'). cbn [rev]. rewrite <- app_assoc. reflexivity.
Qed.
Lemma split_comma_join (items : list (list N)) : items <> [] -> Forall (fun x => forall c, In c x -> c <> 44) items ->
  split_comma (join [44] items) [] = items.
Proof.
  intros Hne H. induction H as [|x t Hx Ht IH]; [congruence|]. destruct t as [|y t'].
  - cbn [join]. rewrite <- (app_nil_r x) at 1. rewrite split_comma_nocomma by exact Hx. cbn. rewrite app_nil_r, rev_involutive. reflexivity.
  - change (join [44] (x :: y :: t')) with (x ++ [44] ++ join [44] (y :: t')). rewrite split_comma_nocomma by exact Hx.
    cbn [app split_comma]. cbn [N.eqb Pos.eqb]. rewrite app_nil_r, rev_involutive. f_equal. apply IH. discriminate.
Qed.
Lemma rng_nocomma ab : forall c, In c (rng ab) -> c <> 44.
Proof. intros c Hc. pose proof (rng_chars ab) as H. rewrite Forall_forall in H. apply (rchar_not c); [apply H; exact Hc|lia]. Qed.

Lemma join_items_rngs segs : join_items (map rng segs) = Ok (concat (map zr segs)).
Proof.
  induction segs as [|ab t IH]; [reflexivity|]. cbn [map join_items concat]. rewrite item_bounds_rng. cbn [bind fst snd].
  rewrite IH. reflexivity.
Qed.

(* the body of a join: ranges separated by commas *)
Definition body (segs : list (nat * nat)) : list N := join [44] (map rng segs).
Lemma body_chars segs : Forall (fun c => rchar c \/ c = 44) (body segs).
Proof.
  unfold body. induction segs as [|ab t IH]; [constructor|]. destruct t as [|ab' t'].
  - cbn [map join]. eapply Forall_impl; [|apply rng_chars]. intros c H; left; exact H.
  - change (join [44] (map rng (ab :: ab' :: t'))) with (rng ab ++ [44] ++ join [44] (map rng (ab' :: t'))).
    apply Forall_app. split; [eapply Forall_impl; [|apply rng_chars]; intros c H; left; exact H|].
    apply Forall_app. split; [repeat constructor; right; reflexivity|exact IH].
Qed.
Lemma body_noparen segs : noparen (body segs).
Proof. eapply Forall_impl; [|apply body_chars]. intros c [H| ->]; [split; apply (rchar_not c); try exact H; lia|split; lia]. Qed.
Lemma body_head segs : segs <> [] -> exists d t, body segs = d :: t /\ is_digit d = true.
Proof.
  intros Hn. destruct segs as [|ab t]; [congruence|]. destruct (rng_head ab) as (d & r & E & Hd). unfold body.
  destruct t as [|ab' t']; cbn [map join]; rewrite E; [exists d, r|exists d, (r ++ [44] ++ join [44] (map rng (ab' :: t')))]; split; try reflexivity; exact Hd.
Qed.
Lemma body_last segs : segs <> [] -> exists y d, body segs = y ++ [d] /\ is_digit d = true.
Proof.
  intros Hn. unfold body. induction segs as [|ab t IH]; [congruence|]. destruct t as [|ab' t'].
  - cbn [map join]. apply rng_last.
  - destruct IH as (y & d & E & Hd); [discriminate|].
    change (join [44] (map rng (ab :: ab' :: t'))) with (rng ab ++ [44] ++ join [44] (map rng (ab' :: t'))). rewrite E.
    exists (rng ab ++ [44] ++ y), d. rewrite <- !app_assoc. split; [reflexivity|exact Hd].
Qed.

(* ---- posFromJoin and posFromComp on their own renderings ---- *)
Lemma trim_left_prefix cut p r d t : Forall (fun c => existsb (N.eqb c) cut = true) p -> r = d :: t -> existsb (N.eqb d) cut = false ->
  trim_left cut (p ++ r) = r.
Proof.
  intros Hp -> Hd. unfold trim_left. induction Hp as [|c p Hc _ IH]; cbn [app dropwhile]; [rewrite Hd; reflexivity|]. rewrite Hc. exact IH.
Qed.
Lemma pos_from_join_render segs : segs <> [] -> pos_from_join (bs "join(" ++ body segs ++ [41]) = Ok (concat (map zr segs)).
Proof.
  intros Hn. unfold pos_from_join.
  destruct (body_head segs Hn) as (d & t & E & Hd). destruct (body_last segs Hn) as (y & dl & El & Hdl).
  rewrite (trim_left_prefix cut_join (bs "join(") (body segs ++ [41]) d (t ++ [41])).
  - rewrite El, trim_right_paren by exact Hdl. rewrite <- El. unfold body.
    rewrite split_comma_join.
    + apply join_items_rngs.
    + destruct segs; [congruence|discriminate].
    + apply Forall_forall. intros x Hx. apply in_map_iff in Hx as (ab & <- & _). apply rng_nocomma.
  - unfold cut_join. cbn. repeat constructor.
  - rewrite E. reflexivity.
  - apply digit_not_in_cut; [exact Hd|exact cut_join_nodigit].
Qed.
Lemma pos_from_comp_render ab : pos_from_comp (bs "complement(" ++ rng ab ++ [41]) = Ok (rev (zr ab)).
Proof.
  unfold pos_from_comp. destruct (rng_head ab) as (d & t & E & Hd). destruct (rng_last ab) as (y & dl & El & Hdl).
  rewrite (trim_left_prefix cut_comp (bs "complement(") (rng ab ++ [41]) d (t ++ [41])).
  - rewrite El, trim_right_paren by exact Hdl. rewrite <- El, item_bounds_rng. reflexivity.
  - unfold cut_comp. cbn. repeat constructor.
  - rewrite E. reflexivity.
  - apply digit_not_in_cut; [exact Hd|exact cut_comp_nodigit].
Qed.

(* ---- GetPositions on the three un-nested forms ---- *)
Lemma get_positions_range ab : get_positions (render (LRange ab)) = Ok (loc_positions (LRange ab)).
Proof.
  cbn [render loc_positions]. unfold get_positions, is_nested. rewrite (nested_noparen_nil _ (rng_noparen ab)) by lia.
  destruct (rng_head ab) as (d & t & E & Hd). rewrite E. unfold is_numeric1. rewrite Hd. rewrite <- E. rewrite is_range_rng.
  unfold pos_from_range. rewrite split_dd_rng, !atoi_dec. reflexivity.
Qed.
Lemma nested_join_flat x : noparen x -> is_nested (bs "join(" ++ x ++ [41]) = false.
Proof.
  intros H. unfold is_nested. cbn [bs app Ascii.N_of_ascii]. cbn [is_nested_from N.eqb Pos.eqb Z.ltb Z.compare Z.add Pos.compare Pos.compare_cont].
  cbn. rewrite nested_noparen by (exact H || lia). reflexivity.
Qed.
Lemma get_positions_join segs : segs <> [] -> get_positions (render (LJoin segs)) = Ok (loc_positions (LJoin segs)).
Proof.
  intros Hn. cbn [render loc_positions]. fold (body segs). unfold get_positions.
  rewrite (nested_join_flat _ (body_noparen segs)).
  rewrite <- (pos_from_join_render segs Hn). reflexivity.
Qed.
Lemma nested_comp_flat x : noparen x -> is_nested (bs "complement(" ++ x ++ [41]) = false.
Proof.
  intros H. unfold is_nested. cbn. rewrite nested_noparen by (exact H || lia). reflexivity.
Qed.
Lemma get_positions_comp ab : get_positions (render (LComp ab)) = Ok (loc_positions (LComp ab)).
Proof.
  cbn [render loc_positions]. unfold get_positions. rewrite (nested_comp_flat _ (rng_noparen ab)).
  rewrite <- (pos_from_comp_render ab). reflexivity.
Qed.

(* ---- the index scan of unNestRecur on  W ++ inner ++ ")"  ---- *)
(* parenthesis depth of a text whose every ')' closes an earlier '(' of the same text *)
Fixpoint bal (d : nat) (l : list N) : option nat :=
  match l with
  | [] => Some d
  | c :: t => if c =? 40 then bal (S d) t
              else if c =? 41 then match d with O => None | S d' => bal d' t end
              else bal d t
  end.
Lemma bal_noparen x : noparen x -> forall d rest, bal d (x ++ rest) = bal d rest.
Proof.
  induction 1 as [|c x [H40 H41] _ IH]; intros d rest; [reflexivity|]. cbn [app bal].
  destruct (N.eqb_spec c 40); [contradiction|]. destruct (N.eqb_spec c 41); [contradiction|]. apply IH.
Qed.
Lemma scan_step_fields st c : sc_oi st <> 0%nat ->
  sc_i (scan_step st c) = S (sc_i st) /\ sc_oi (scan_step st c) = sc_oi st /\
  sc_open (scan_step st c) = (if c =? 40 then S (sc_open st) else sc_open st) /\
  sc_closed (scan_step st c) = (if c =? 40 then sc_closed st else if c =? 41 then S (sc_closed st) else sc_closed st) /\
  sc_ci (scan_step st c) = (if c =? 40 then sc_ci st else if c =? 41 then (if Nat.eqb (sc_open st) (S (sc_closed st)) then sc_i st else sc_ci st) else sc_ci st).
Proof.
  intros Hoi. assert (Eoi : (if Nat.eqb (sc_open st) 1 && Nat.eqb (sc_oi st) 0 then sc_i st else sc_oi st) = sc_oi st).
  { destruct (Nat.eqb_spec (sc_oi st) 0); [contradiction|]. rewrite andb_false_r. reflexivity. }
  unfold scan_step. destruct (c =? 40); [|destruct (c =? 41)]; cbn [sc_i sc_open sc_closed sc_oi sc_ci]; rewrite Eoi; repeat split; reflexivity.
Qed.
Lemma scan_bal l : forall st d d', sc_oi st <> 0%nat -> sc_open st = (sc_closed st + 1 + d)%nat -> bal d l = Some d' ->
  sc_i (fold_left scan_step l st) = (sc_i st + length l)%nat /\
  sc_open (fold_left scan_step l st) = (sc_closed (fold_left scan_step l st) + 1 + d')%nat /\
  sc_oi (fold_left scan_step l st) = sc_oi st /\ sc_ci (fold_left scan_step l st) = sc_ci st.
Proof.
  induction l as [|c t IH]; intros st d d' Hoi Hop Hb; cbn [fold_left length bal] in *.
  - injection Hb as <-. repeat split; lia.
  - destruct (scan_step_fields st c Hoi) as (F1 & F2 & F3 & F4 & F5).
    destruct (N.eqb_spec c 40) as [E40|N40].
    + destruct (IH (scan_step st c) (S d) d') as (I1 & I2 & I3 & I4); [rewrite F2; exact Hoi|rewrite F3, F4; lia|exact Hb|].
      rewrite I1, I3, I4, F1, F2, F5. repeat split; try assumption; lia.
    + destruct (N.eqb_spec c 41) as [E41|N41].
      * destruct d as [|d0]; [discriminate|].
        destruct (IH (scan_step st c) d0 d') as (I1 & I2 & I3 & I4); [rewrite F2; exact Hoi|rewrite F3, F4; lia|exact Hb|].
        rewrite I1, I3, I4, F1, F2, F5. destruct (Nat.eqb_spec (sc_open st) (S (sc_closed st))); [lia|]. repeat split; try assumption; lia.
      * destruct (IH (scan_step st c) d d') as (I1 & I2 & I3 & I4); [rewrite F2; exact Hoi|rewrite F3, F4; lia|exact Hb|].
        rewrite I1, I3, I4, F1, F2, F5. repeat split; try assumption; lia.
Qed.

Definition scanned (W : list N) : Prop :=
  fold_left scan_step W scan0 = {| sc_i := length W; sc_open := 1; sc_closed := 0; sc_oi := 0; sc_ci := 0 |} /\ (0 < length W)%nat.
Lemma scan_wrap W c0 rest : scanned W -> c0 <> 40 -> c0 <> 41 -> bal 0 rest = Some 0%nat ->
  sc_oi (fold_left scan_step (W ++ (c0 :: rest) ++ [41]) scan0) = length W /\
  sc_ci (fold_left scan_step (W ++ (c0 :: rest) ++ [41]) scan0) = (length W + length (c0 :: rest))%nat.
Proof.
  intros [HW HWl] H40 H41 Hb. rewrite fold_left_app, HW. cbn [app fold_left].
  set (st1 := scan_step {| sc_i := length W; sc_open := 1; sc_closed := 0; sc_oi := 0; sc_ci := 0 |} c0).
  assert (E1 : st1 = {| sc_i := S (length W); sc_open := 1; sc_closed := 0; sc_oi := length W; sc_ci := 0 |}).
  { unfold st1, scan_step. destruct (N.eqb_spec c0 40); [contradiction|]. destruct (N.eqb_spec c0 41); [contradiction|]. reflexivity. }
  rewrite fold_left_app. cbn [fold_left].
  destruct (scan_bal rest st1 0 0) as (I1 & I2 & I3 & I4); [rewrite E1; cbn; lia|rewrite E1; reflexivity|exact Hb|].
  set (st2 := fold_left scan_step rest st1) in *.
  destruct (scan_step_fields st2 41) as (F1 & F2 & F3 & F4 & F5); [rewrite I3, E1; cbn; lia|].
  cbn [N.eqb Pos.eqb] in F5. rewrite F2, F5, I3. destruct (Nat.eqb_spec (sc_open st2) (S (sc_closed st2))); [|lia].
  rewrite I1, E1. cbn [sc_i sc_oi length]. split; lia.
Qed.
Lemma scanned_comp : scanned (bs "complement(").  Proof. split; [reflexivity|cbn; lia]. Qed.
Lemma scanned_join : scanned (bs "join(").  Proof. split; [reflexivity|cbn; lia]. Qed.

(* what field_general then cuts out *)
Lemma cut_outer W inner : firstn (length W) (W ++ inner ++ [41]) ++ skipn (length W + length inner) (W ++ inner ++ [41]) = W ++ [41].
Proof.
  rewrite firstn_app, firstn_all, Nat.sub_diag. cbn [firstn]. rewrite app_nil_r. f_equal.
  rewrite app_assoc. rewrite <- app_length. rewrite skipn_app, skipn_all, Nat.sub_diag. reflexivity.
Qed.
Lemma cut_inner W inner : firstn (length W + length inner - length W) (skipn (length W) (W ++ inner ++ [41])) = inner.
Proof.
  rewrite skipn_app, skipn_all, Nat.sub_diag. cbn [skipn app]. replace (length W + length inner - length W)%nat with (length inner) by lia.
  rewrite firstn_app, firstn_all, Nat.sub_diag. cbn [firstn]. apply app_nil_r.
Qed.
Lemma field_general_wrap rec W c0 rest : scanned W -> c0 <> 40 -> c0 <> 41 -> bal 0 rest = Some 0%nat ->
  field_general rec (W ++ (c0 :: rest) ++ [41]) =
  bind (rec (c0 :: rest)) (fun ir =>
    if list_eqb (W ++ [41]) (bs "join()") then Ok (concat ir)
    else if list_eqb (W ++ [41]) (bs "complement()") then match ir with [x] => Ok (rev x) | _ => Err BadFormat end else Ok []).
Proof.
  intros HW H40 H41 Hb. unfold field_general. destruct (scan_wrap W c0 rest HW H40 H41 Hb) as [Eoi Eci]. rewrite Eoi, Eci.
  destruct (Nat.ltb_spec (length W + length (c0 :: rest)) (length W)); [lia|].
  rewrite cut_outer, cut_inner. reflexivity.
Qed.

(* ---- splitOnOuterCommas ---- *)
Lemma split_outer_noparen x : noparen x -> forall d rest rcur, d <> 0%Z ->
  split_outer d (x ++ rest) rcur = split_outer d rest (rev x ++ rcur).
Proof.
  induction 1 as [|c x [H40 H41] _ IH]; intros d rest rcur Hd; [reflexivity|]. cbn [app split_outer].
  destruct (N.eqb_spec c 40); [contradiction|]. destruct (N.eqb_spec c 41); [contradiction|].
  destruct (Z.eqb_spec d 0); [contradiction|]. rewrite andb_false_r. rewrite IH by exact Hd. cbn [rev]. rewrite <- app_assoc. reflexivity.
Qed.
Lemma rev_rev_app {A} (a b : list A) : rev (rev a ++ b) = rev b ++ a.
Proof. rewrite rev_app_distr, rev_involutive. reflexivity. Qed.

Lemma split_outer_join_flat x : noparen x -> split_outer 0 (bs "join(" ++ x ++ [41]) [] = [bs "join(" ++ x ++ [41]].
Proof.
  intros H. cbn [bs app Ascii.N_of_ascii]. cbn. rewrite split_outer_noparen by (exact H || lia). cbn.
  f_equal. rewrite rev_rev_app. reflexivity.
Qed.

(* ---- complement(join(...)) ---- *)
Lemma get_positions_compjoin segs : segs <> [] -> get_positions (render (LCompJoin segs)) = Ok (loc_positions (LCompJoin segs)).
Proof.
  intros Hn. cbn [render loc_positions]. fold (body segs).
  set (inner := bs "join(" ++ body segs ++ [41]).
  assert (Es : bs "complement(join(" ++ body segs ++ [41; 41] = bs "complement(" ++ inner ++ [41]).
  { unfold inner. rewrite <- !app_assoc. reflexivity. }
  rewrite Es. unfold get_positions.
  assert (Hnest : is_nested (bs "complement(" ++ inner ++ [41]) = true) by reflexivity.
  rewrite Hnest.
  assert (Hsplit : split_outer 0 (bs "complement(" ++ inner ++ [41]) [] = [bs "complement(" ++ inner ++ [41]]).
  { unfold inner. rewrite <- !app_assoc. cbn [bs app Ascii.N_of_ascii]. cbn. rewrite split_outer_noparen by (apply body_noparen || lia). cbn.
    f_equal. rewrite rev_rev_app. cbn [rev app]. rewrite <- !app_assoc. reflexivity. }
  cbn [un_nest]. rewrite Hsplit. cbn [un_nest_fields]. unfold field_one at 1. rewrite Hnest.
  assert (Ei : inner = 106 :: (bs "oin(" ++ body segs ++ [41])) by reflexivity.
  rewrite Ei at 1. rewrite (field_general_wrap _ (bs "complement(") 106 (bs "oin(" ++ body segs ++ [41]) scanned_comp); try lia.
  2:{ cbn [bs app Ascii.N_of_ascii]. cbn. rewrite bal_noparen by apply body_noparen. reflexivity. }
  rewrite <- Ei. cbn [un_nest]. unfold inner. rewrite (split_outer_join_flat _ (body_noparen segs)).
  cbn [un_nest_fields]. unfold field_one at 1. rewrite (nested_join_flat _ (body_noparen segs)).
  change (first4 (bs "join(" ++ body segs ++ [41])) with (Some (bs "join")). cbv iota. rewrite list_eqb_refl.
  rewrite (pos_from_join_render segs Hn). reflexivity.
Qed.

(* ---- join(complement(a..b),complement(c..d),...) ---- *)
Definition item (ab : nat * nat) : list N := bs "complement(" ++ rng ab ++ [41].
Definition items (segs : list (nat * nat)) : list N := join [44] (map item segs).

Lemma split_outer_plain x : noparen x -> (forall c, In c x -> c <> 44) -> forall d rest rcur,
  split_outer d (x ++ rest) rcur = split_outer d rest (rev x ++ rcur).
Proof.
  induction 1 as [|c x [H40 H41] _ IH]; intros Hc d rest rcur; [reflexivity|]. cbn [app split_outer].
  destruct (N.eqb_spec c 40); [contradiction|]. destruct (N.eqb_spec c 41); [contradiction|].
  destruct (N.eqb_spec c 44) as [E|_]; [exfalso; apply (Hc c); [left; reflexivity|exact E]|]. cbn [andb].
  rewrite IH by (intros c' Hc'; apply Hc; right; exact Hc'). cbn [rev]. rewrite <- app_assoc. reflexivity.
Qed.
Lemma rev_item ab : rev (item ab) = 41 :: rev (rng ab) ++ rev (bs "complement(").
Proof. unfold item. rewrite !rev_app_distr. reflexivity. Qed.
Lemma split_outer_item ab d rest rcur : split_outer d (item ab ++ rest) rcur = split_outer d rest (rev (item ab) ++ rcur).
Proof.
  rewrite rev_item. unfold item. rewrite <- !app_assoc. cbn [bs app Ascii.N_of_ascii]. cbn.
  rewrite (split_outer_plain _ (rng_noparen ab) (rng_nocomma ab)). cbn.
  replace (d + 1 - 1)%Z with d by lia. rewrite <- app_assoc. reflexivity.
Qed.
Lemma split_outer_items segs : segs <> [] -> split_outer 0 (items segs) [] = map item segs.
Proof.
  intros Hn. unfold items. induction segs as [|ab t IH]; [congruence|]. destruct t as [|ab' t'].
  - cbn [map join]. rewrite <- (app_nil_r (item ab)) at 1. rewrite split_outer_item. cbn [split_outer]. rewrite app_nil_r, rev_involutive. reflexivity.
  - change (join [44] (map item (ab :: ab' :: t'))) with (item ab ++ [44] ++ join [44] (map item (ab' :: t'))).
    rewrite split_outer_item. cbn [app split_outer]. cbn [N.eqb Pos.eqb Z.eqb andb]. rewrite app_nil_r, rev_involutive.
    cbn [map]. f_equal. apply IH. discriminate.
Qed.
Lemma split_outer_items_in segs d rest rcur : d <> 0%Z -> split_outer d (items segs ++ rest) rcur = split_outer d rest (rev (items segs) ++ rcur).
Proof.
  intros Hd. unfold items. revert rcur. induction segs as [|ab t IH]; intros rcur; [reflexivity|]. destruct t as [|ab' t'].
  - cbn [map join]. apply split_outer_item.
  - change (join [44] (map item (ab :: ab' :: t'))) with (item ab ++ [44] ++ join [44] (map item (ab' :: t'))).
    rewrite <- !app_assoc. rewrite split_outer_item. cbn [app split_outer]. cbn [N.eqb Pos.eqb].
    destruct (Z.eqb_spec d 0); [contradiction|]. cbn [andb]. rewrite IH. f_equal.
    rewrite !rev_app_distr. cbn [rev app]. rewrite <- !app_assoc. reflexivity.
Qed.
Lemma bal_item ab d rest : bal d (item ab ++ rest) = bal d rest.
Proof.
  unfold item. rewrite <- !app_assoc. cbn [bs app Ascii.N_of_ascii]. cbn. rewrite bal_noparen by apply rng_noparen. reflexivity.
Qed.
Lemma bal_items segs d rest : bal d (items segs ++ rest) = bal d rest.
Proof.
  unfold items. induction segs as [|ab t IH]; [reflexivity|]. destruct t as [|ab' t'].
  - cbn [map join]. apply bal_item.
  - change (join [44] (map item (ab :: ab' :: t'))) with (item ab ++ [44] ++ join [44] (map item (ab' :: t'))).
    rewrite <- !app_assoc. rewrite bal_item. cbn [app bal]. cbn [N.eqb Pos.eqb]. exact IH.
Qed.
Lemma items_head segs : segs <> [] -> exists rest, items segs = 99 :: bs "omplement(" ++ rest.
Proof.
  intros Hn. destruct segs as [|ab t]; [congruence|]. unfold items. destruct t as [|ab' t'].
  - cbn [map join]. exists (rng ab ++ [41]). reflexivity.
  - exists (rng ab ++ [41] ++ [44] ++ join [44] (map item (ab' :: t'))).
    change (join [44] (map item (ab :: ab' :: t'))) with (item ab ++ [44] ++ join [44] (map item (ab' :: t'))).
    unfold item. rewrite <- !app_assoc. reflexivity.
Qed.
Lemma field_one_item rec ab : field_one rec (item ab) = Ok (rev (zr ab)).
Proof.
  unfold field_one, item. rewrite (nested_comp_flat _ (rng_noparen ab)).
  change (first4 (bs "complement(" ++ rng ab ++ [41])) with (Some (bs "comp")). cbv iota.
  replace (list_eqb (bs "comp") (bs "join")) with false by reflexivity. rewrite list_eqb_refl.
  rewrite pos_from_comp_render. reflexivity.
Qed.
Lemma fields_items rec segs : un_nest_fields rec (map item segs) = Ok (map (fun ab => rev (zr ab)) segs).
Proof.
  induction segs as [|ab t IH]; [reflexivity|]. cbn [map un_nest_fields]. rewrite field_one_item, IH. reflexivity.
Qed.

Lemma get_positions_joincomp segs : segs <> [] -> get_positions (render (LJoinComp segs)) = Ok (loc_positions (LJoinComp segs)).
Proof.
  intros Hn. cbn [render loc_positions]. change (join [44] (map (fun ab => bs "complement(" ++ rng ab ++ [41]) segs)) with (items segs).
  destruct (items_head segs Hn) as (tl & Eh).
  unfold get_positions.
  assert (Hnest : is_nested (bs "join(" ++ items segs ++ [41]) = true) by (rewrite Eh; reflexivity).
  rewrite Hnest.
  assert (Hsplit : split_outer 0 (bs "join(" ++ items segs ++ [41]) [] = [bs "join(" ++ items segs ++ [41]]).
  { cbn [bs app Ascii.N_of_ascii]. cbn. rewrite split_outer_items_in by lia. cbn. f_equal.
    rewrite rev_app_distr, rev_involutive. rewrite <- app_assoc. reflexivity. }
  cbn [un_nest]. rewrite Hsplit. cbn [un_nest_fields]. unfold field_one at 1. rewrite Hnest.
  rewrite Eh at 1. rewrite (field_general_wrap _ (bs "join(") 99 (bs "omplement(" ++ tl) scanned_join); try lia.
  2:{ assert (Eb : bal 0 (items segs ++ []) = Some 0%nat) by (rewrite bal_items; reflexivity).
      rewrite app_nil_r, Eh in Eb. cbn [bal] in Eb. cbn [N.eqb Pos.eqb] in Eb. exact Eb. }
  rewrite <- Eh. cbn [un_nest]. rewrite (split_outer_items segs Hn). rewrite fields_items. cbn [bind].
  replace (list_eqb (bs "join(" ++ [41]) (bs "join()")) with true by reflexivity. reflexivity.
Qed.

(* ---- the whole statement ---- *)
Definition wf_loc (l : loc) : Prop :=
  match l with LJoin segs | LCompJoin segs | LJoinComp segs => segs <> [] | _ => True end.

Theorem get_positions_render l : wf_loc l -> get_positions (render l) = Ok (loc_positions l).
Proof.
  destruct l as [ab|segs|ab|segs|segs]; cbn [wf_loc]; intros H.
  - apply get_positions_range.
  - apply get_positions_join; exact H.
  - apply get_positions_comp.
  - apply get_positions_compjoin; exact H.
  - apply get_positions_joincomp; exact H.
Qed.

Lemma contains_no_first p0 p l : (forall c, In c l -> c <> p0) -> contains (p0 :: p) l = false.
Proof.
  induction l as [|c t IH]; intros H; [reflexivity|]. cbn [contains is_prefix].
  destruct (N.eqb_spec p0 c) as [E|_]; [exfalso; apply (H c); [left; reflexivity|symmetry; exact E]|]. cbn [andb orb].
  apply IH. intros c' Hc'. apply H. right; exact Hc'.
Qed.
Lemma body_no99 segs : forall c, In c (body segs) -> c <> 99.
Proof. intros c Hc. pose proof (body_chars segs) as H. rewrite Forall_forall in H. destruct (H c Hc) as [Hr| ->]; [apply (rchar_not c); [exact Hr|lia]|lia]. Qed.
Lemma rng_no99 ab : forall c, In c (rng ab) -> c <> 99.
Proof. intros c Hc. pose proof (rng_chars ab) as H. rewrite Forall_forall in H. apply (rchar_not c); [apply H; exact Hc|lia]. Qed.

Theorem is_reverse_render l : wf_loc l -> is_reverse (render l) = Ok (loc_reverse l).
Proof.
  intros H. unfold is_reverse. rewrite (get_positions_render l H). cbn [bind]. f_equal.
  change cut_comp with (99 :: bs "omplement(").
  destruct l as [ab|segs|ab|segs|segs]; cbn [render loc_reverse wf_loc] in *.
  - apply contains_no_first. apply rng_no99.
  - apply contains_no_first. intros c Hc. apply in_app_iff in Hc as [Hc|Hc].
    + cbn in Hc. intuition (subst; try lia).
    + apply in_app_iff in Hc as [Hc|Hc]; [fold (body segs) in Hc; apply (body_no99 segs); exact Hc|cbn in Hc; destruct Hc as [<-|[]]; lia].
  - reflexivity.
  - reflexivity.
  - change (join [44] (map (fun ab => bs "complement(" ++ rng ab ++ [41]) segs)) with (items segs).
    destruct (items_head segs H) as (tl & Eh). apply contains_app_right. rewrite Eh. reflexivity.
Qed.

(* the old rule (first position > last position) is wrong on renderings of locations: D14 at byte level *)
Lemma is_reverse_old_refuted :
  is_reverse_old (render (LJoin [(40, 51); (1, 9)]%nat)) = Ok true /\ loc_reverse (LJoin [(40, 51); (1, 9)]%nat) = false /\
  is_reverse_old (render (LCompJoin [(38, 41); (25, 26); (28, 33)]%nat)) = Ok false /\ loc_reverse (LCompJoin [(38, 41); (25, 26); (28, 33)]%nat) = true.
Proof. repeat split; vm_compute; reflexivity. Qed.

(* ---- from the feature AST of RegionsModel.v to the text and back: what CDSRegion2fromGenbank gets from the location
   qualifier of a feature is the position list the AST-level model uses (before codon_start is applied) ---- *)
From GF Require Import Alphabet SymbolsDef CodonModel RegionsModel.
Definition gb_loc (form1 : bool) (f : feat) : loc :=
  match f_segs f with
  | [ab] => if f_rev f then LComp ab else LRange ab
  | segs => if f_rev f then (if form1 then LJoinComp (rev segs) else LCompJoin segs) else LJoin segs
  end.
Lemma map_seq_Z a n : map Z.of_nat (seq a n) = map (fun i => (Z.of_nat a + Z.of_nat i)%Z) (seq 0 n).
Proof.
  revert a. induction n as [|n IH]; intros a; [reflexivity|]. cbn [seq map]. f_equal; [lia|].
  rewrite IH. rewrite <- seq_shift, map_map. apply map_ext. intros i. lia.
Qed.
Lemma range_zr ab : map Z.of_nat (range ab) = zr ab.
Proof.
  unfold range, zr, zrange. rewrite map_seq_Z. f_equal. f_equal. lia.
Qed.
Lemma concat_range_zr segs : map Z.of_nat (concat (map range segs)) = concat (map zr segs).
Proof. induction segs as [|ab t IH]; [reflexivity|]. cbn [map concat]. rewrite map_app, range_zr, IH. reflexivity. Qed.
Theorem gb_loc_positions form1 f : f_segs f <> [] ->
  wf_loc (gb_loc form1 f) /\
  loc_reverse (gb_loc form1 f) = f_rev f /\
  loc_positions (gb_loc form1 f) =
  map Z.of_nat (if f_rev f then (if form1 then concat (map rrange (rev (f_segs f))) else rev (concat (map range (f_segs f))))
                else concat (map range (f_segs f))).
Proof.
  intros Hn. unfold gb_loc. destruct (f_segs f) as [|ab [|ab' t]] eqn:E; [congruence| |].
  - destruct (f_rev f), form1; cbn [wf_loc loc_reverse loc_positions map concat rev app]; rewrite ?app_nil_r; unfold rrange;
      rewrite ?map_rev, ?range_zr; repeat split; reflexivity.
  - destruct (f_rev f); [destruct form1|]; cbn [wf_loc loc_reverse loc_positions].
    + split; [intros H; apply (f_equal (@length _)) in H; rewrite rev_length in H; discriminate|]. split; [reflexivity|].
      rewrite concat_map, map_map. f_equal. apply map_ext. intros x. unfold rrange. rewrite map_rev, range_zr. reflexivity.
    + split; [discriminate|]. split; [reflexivity|]. rewrite map_rev, concat_range_zr. reflexivity.
    + split; [discriminate|]. split; [reflexivity|]. rewrite concat_range_zr. reflexivity.
Qed.
(* the composition: text of the location qualifier -> GetPositions / IsReverse -> the AST-level positions and strand *)
Theorem genbank_location_read form1 f : f_segs f <> [] ->
  get_positions (render (gb_loc form1 f)) =
    Ok (map Z.of_nat (if f_rev f then (if form1 then concat (map rrange (rev (f_segs f))) else rev (concat (map range (f_segs f))))
                      else concat (map range (f_segs f)))) /\
  is_reverse (render (gb_loc form1 f)) = Ok (f_rev f).
Proof.
  intros Hn. destruct (gb_loc_positions form1 f Hn) as (Hw & Hr & Hp).
  rewrite (get_positions_render _ Hw), (is_reverse_render _ Hw), Hr, Hp. split; reflexivity.
Qed.
