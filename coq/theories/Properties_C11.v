(* Properties_C11.v — C11: sam variants and variants agree on the same alignment.
   The theorem is the (short) model-level fact that `sam variants` applies the shared caller
   variants_pair to the encoded rows block_to_seq_pair builds - the rows `sam toPairAlign` writes.  That the
   FASTA form of those rows is read back unchanged is C16 (layout independence); that both implementations
   are these models is the correspondence check, which also compares the real commands with each other. *)
From Coq Require Import Floats.SpecFloat.
From GF Require Import Base Alphabet SymbolsDef FastaModel Float TopK CodonModel Indels VariantsModel Cigar SamModel TopaModel TopaProofs PairProofs Check_C04 Check_C11 SamVariantsProofs.
Open Scope N_scope.
Theorem C11_samvariants_eq_variants_on_pair : forall ref gs inter b rc0 tl R Q,
  b = rc0 :: tl -> block_to_seq_pair ref b = Some (R, Q) ->
  sam_call_all ref gs inter [b] =
  bind (variants_pair (map (enc false) R) (map (enc false) Q) gs inter) (fun vs => Ok [(s_name rc0, vs)]).
Proof. exact samvariants_eq_variants_on_pair. Qed.
Print Assumptions C11_samvariants_eq_variants_on_pair.

(* second clause: when the query has no insertions, `sam variants` reports what `variants` computes for the alignment
   made of the reference and the query's sam toMultiAlign --pad row (any number of records) *)
Theorem C11_samvariants_eq_variants_on_toma_pad_row : forall ref gs inter rc0 tl,
  ~ In 45 ref -> Forall (fun c => 42 <= c) ref -> block_insertions (rc0 :: tl) = [] ->
  forall R Q, block_to_seq_pair ref (rc0 :: tl) = Some (R, Q) ->
  exists raw, seq_from_block (length ref) (rc0 :: tl) = Some raw /\
    sam_call_all ref gs inter [rc0 :: tl] =
    bind (variants_pair (map (enc false) ref) (map (enc false) (fasta_seq true false 0 0 raw)) gs inter) (fun vs => Ok [(s_name rc0, vs)]).
Proof. exact samvariants_eq_variants_on_toma_pad_row. Qed.
Print Assumptions C11_samvariants_eq_variants_on_toma_pad_row.
