(* Properties_C11.v — C11: sam variants and variants agree on the same alignment.
   The theorem is the (short) model-level fact that `sam variants` applies the shared caller
   variants_pair to the encoded rows block_to_seq_pair builds - the rows `sam toPairAlign` writes.  That the
   FASTA form of those rows is read back unchanged is C16 (layout independence); that both implementations
   are these models is the correspondence check, which also compares the real commands with each other. *)
From Coq Require Import Floats.SpecFloat.
From GF Require Import Base Alphabet SymbolsDef FastaModel Float TopK CodonModel Indels VariantsModel Cigar SamModel TopaModel Check_C04 Check_C11.
Open Scope N_scope.
Theorem C11_samvariants_eq_variants_on_pair : forall ref gs inter b rc0 tl R Q,
  b = rc0 :: tl -> block_to_seq_pair ref b = Some (R, Q) ->
  sam_call_all ref gs inter [b] =
  bind (variants_pair (map (enc false) R) (map (enc false) Q) gs inter) (fun vs => Ok [(s_name rc0, vs)]).
Proof. exact samvariants_eq_variants_on_pair. Qed.
Print Assumptions C11_samvariants_eq_variants_on_pair.
