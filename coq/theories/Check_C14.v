From GF Require Import Base Alphabet SymbolsDef FastaModel CodonModel RegionsModel Harness.
From GF Require Export Check_C04.
Open Scope N_scope.
(* the regions parsed by the implementation from the rendered annotation vs the AST-level model:
   name, strand, ordered positions, translation (one letter per codon, last one the stop) *)
Definition region_ok (genome : list N) (f : list N * bool * list (nat * nat) * nat) (r : list N * bool * list nat * list N) : bool :=
  let '(fname, frev, fsegs, fcs) := f in let '(rn, rr, rp, rt) := r in
  let ft := {| f_name := fname; f_rev := frev; f_segs := fsegs; f_cstart := fcs |} in
  list_eqb fname rn && Bool.eqb frev rr &&
  (Nat.eqb (length rp) (length (gff_positions ft)) && forallb (fun ab => Nat.eqb (fst ab) (snd ab)) (combine rp (gff_positions ft))) &&
  match gff_translation genome ft with Ok t => list_eqb t rt | _ => false end.
Fixpoint find_region (n : list N) (rs : list (list N * bool * list nat * list N)) :=
  match rs with [] => None | r :: t => if list_eqb (fst (fst (fst r))) n then Some r else find_region n t end.
Definition regions_ok (genome : list N) (fs : list (list N * bool * list (nat * nat) * nat)) (rs : list (list N * bool * list nat * list N)) : bool :=
  Nat.eqb (length fs) (length rs) &&
  forallb (fun f => match find_region (fst (fst (fst f))) rs with Some r => region_ok genome f r | None => false end) fs.

Definition check_C14 (c : list N * list (list N * bool * list (nat * nat) * nat) *
                          (list N * list N * list (list N * bool * list nat * list N) * list N * (bool * bool * bool) * (Z * Z) * (N * Z * Z) * gores)) : N :=
  let '(genome, fs, vc) := c in
  let '(_, _, rs, _, _, _, _, _) := vc in
  if regions_ok genome fs rs then check_variants vc else 1.
