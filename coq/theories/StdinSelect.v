(* StdinSelect.v — C12 / C15 (repair D19): `variants --reference ID` with the alignment on stdin waits for the first record.
   The reader goroutine pushes the n records of the alignment into a buffered channel and THEN offers its done signal; the main
   goroutine arrives at its select at some moment of that history.  Which branch can the select take? *)
From Coq Require Import List Arith Lia Bool.
Import ListNotations.

Inductive outcome := TookRecord | SawDone.      (* SawDone = "is the pipe to --msa empty?" *)

(* the moment the main goroutine reaches the select: the reader has pushed `pushed` of its n records (all of them fit the buffer)
   and, only once all are pushed, may be offering the done signal *)
Record moment := { pushed : nat; offering_done : bool }.
Definition reachable (n : nat) (m : moment) : Prop := pushed m <= n /\ (offering_done m = true -> pushed m = n).

(* one plain select over {record ready, done offered}: any ready branch may be taken; if none is ready the goroutine sleeps and is
   woken by the reader's NEXT action, which is a push while records remain and the done offer afterwards *)
Definition old_select (n : nat) (m : moment) : list outcome :=
  (if Nat.ltb 0 (pushed m) then [TookRecord] else []) ++
  (if offering_done m then [SawDone] else []) ++
  (if Nat.eqb (pushed m) 0 && negb (offering_done m) then (if Nat.ltb 0 n then [TookRecord] else [SawDone]) else []).
(* the repaired form: a waiting record is taken first (outer select with default), otherwise the plain select *)
Definition new_select (n : nat) (m : moment) : list outcome :=
  if Nat.ltb 0 (pushed m) then [TookRecord] else old_select n m.

(* a non-empty alignment is never mistaken for an empty pipe, whatever the moment *)
Theorem new_select_takes_the_record n m : 0 < n -> reachable n m -> forall o, In o (new_select n m) -> o = TookRecord.
Proof.
  intros Hn [Hp Hd] o. unfold new_select, old_select. destruct (Nat.ltb_spec 0 (pushed m)) as [H|H].
  - intros [<-|[]]. reflexivity.
  - assert (E : pushed m = 0) by lia. rewrite E. cbn [Nat.eqb app andb].
    destruct (offering_done m) eqn:Ed; [specialize (Hd eq_refl); lia|]. cbn [negb app].
    destruct (Nat.ltb_spec 0 n); [|lia]. intros [<-|[]]. reflexivity.
Qed.
(* ... and an empty one is reported as such *)
Theorem new_select_empty m : reachable 0 m -> forall o, In o (new_select 0 m) -> o = SawDone.
Proof.
  intros [Hp Hd] o. assert (E : pushed m = 0) by lia. unfold new_select, old_select. rewrite E. cbn [Nat.ltb Nat.leb Nat.eqb app andb].
  destruct (offering_done m); cbn; intros [<-|[]]; reflexivity.
Qed.
(* the plain select could: a short alignment wholly in the buffer with the reader already offering done *)
Theorem old_select_refuted : exists n m, 0 < n /\ reachable n m /\ In SawDone (old_select n m).
Proof. exists 3, {| pushed := 3; offering_done := true |}. repeat split; cbn; try lia. right; left; reflexivity. Qed.
