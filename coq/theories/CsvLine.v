(* CsvLine.v — C09: the text line `updown list` writes for a sequence is read back by the CSV reader as the five fields of
   that sequence, whatever bytes the sequence ID is made of (repair D18). *)
From Coq Require Import Floats.SpecFloat.
From GF Require Import Base Alphabet Symbols SymbolsDef FastaModel SnpsModel SnpsProofs UpdownListModel UpdownListProofs Float TopK Balance TopRankModel UpdownCsv CsvModel.
Open Scope N_scope.

Definition plain (s : list N) : Prop := existsb csv_special s = false.
Lemma csv_field_plain s : plain s -> csv_field s = s.
Proof. unfold plain, csv_field. intros ->. reflexivity. Qed.
Lemma plain_app a b : plain a -> plain b -> plain (a ++ b).
Proof. unfold plain. rewrite existsb_app. intros -> ->. reflexivity. Qed.
Lemma plain_digits n : plain (dec_nat n).
Proof.
  unfold plain. destruct (existsb csv_special (dec_nat n)) eqn:E; [|reflexivity].
  apply existsb_exists in E as (c & Hc & Hs). exfalso.
  assert (D : is_digit c = true). { pose proof (dec_N_digits (N.of_nat n)) as D. rewrite forallb_forall in D. exact (D c Hc). }
  unfold is_digit in D. apply andb_true_iff in D as [D1 D2]. apply N.leb_le in D1, D2.
  unfold csv_special in Hs. rewrite !orb_true_iff, !N.eqb_eq in Hs. lia.
Qed.
Lemma plain_join_bar (l : list (list N)) : Forall plain l -> plain (join [124] l).
Proof.
  induction 1 as [|x t Hx Ht IH]; [reflexivity|]. destruct t as [|y t']; [exact Hx|].
  change (join [124] (x :: y :: t')) with (x ++ [124] ++ join [124] (y :: t')). apply plain_app; [exact Hx|]. apply plain_app; [reflexivity|exact IH].
Qed.
Lemma plain_range r : plain (range_text r).
Proof.
  destruct r as [a b]. unfold range_text. cbn [fst snd]. destruct (Nat.eqb a b); [apply plain_digits|].
  apply plain_app; [apply plain_digits|]. apply plain_app; [reflexivity|apply plain_digits].
Qed.

(* the row as written (without the line end) *)
Definition udl_row (u : udl) : list N :=
  csv_field (u_id u) ++ [44] ++ join [124] (u_snps u) ++ [44] ++ join [124] (map range_text (u_ambs u)) ++ [44] ++
  dec_nat (length (u_snps u)) ++ [44] ++ dec_nat (u_ambc u).
Lemma row_text_is_udl_row u : row_text (u_id u) (u_snps u) (u_ambs u) (u_ambc u) = udl_row u ++ [NL].
Proof. unfold row_text, udl_row. rewrite <- !app_assoc. reflexivity. Qed.

Theorem udl_row_parse u : Forall plain (u_snps u) -> csv_parse (udl_row u) = Some (fields_of_udl u).
Proof.
  intros Hs. unfold udl_row, fields_of_udl.
  pose proof (csv_roundtrip_line [u_id u; join [124] (u_snps u); join [124] (map range_text (u_ambs u)); dec_nat (length (u_snps u)); dec_nat (u_ambc u)]
                                  ltac:(discriminate)) as R.
  cbn [map join] in R.
  rewrite (csv_field_plain (join [124] (u_snps u))) in R by (apply plain_join_bar; exact Hs).
  rewrite (csv_field_plain (join [124] (map range_text (u_ambs u)))) in R
    by (apply plain_join_bar; apply Forall_forall; intros x Hx; apply in_map_iff in Hx as (r & <- & _); apply plain_range).
  rewrite !(csv_field_plain (dec_nat _)) in R by apply plain_digits.
  exact R.
Qed.

(* the SNP texts of a line computed from sequences are plain: <base><decimal><base> over the upper-case alphabet *)
Lemma upper_plain c : valid c = true -> csv_special (upper c) = false.
Proof.
  intros V. unfold upper. destruct ((97 <=? c) && (c <=? 122)) eqn:B.
  - apply andb_true_iff in B as [B1 B2]. apply N.leb_le in B1, B2. unfold csv_special.
    repeat (match goal with |- context [?a =? ?b] => destruct (N.eqb_spec a b); [lia|] end). reflexivity.
  - destruct (csv_special c) eqn:E; [|reflexivity]. unfold csv_special in E. rewrite !orb_true_iff, !N.eqb_eq in E.
    destruct E as [[[->| ->]| ->]| ->]; vm_compute in V; discriminate.
Qed.
Theorem udl_of_seq_plain ref q id : all_valid ref -> all_valid q ->
  Forall plain (u_snps (udl_of_seq (map (enc false) ref) id (map (enc false) q))).
Proof.
  intros Hr Hq. unfold udl_of_seq. rewrite cols_of_spec by assumption. rewrite get_line_spec. cbn [u_snps].
  assert (B : forall p, In p (spec_snp_pos 1 (spec_cols ref q)) -> (1 <= p <= Nat.min (length ref) (length q))%nat).
  { intros p Hp. apply spec_snp_pos_bounds in Hp. rewrite spec_cols_length in Hp. lia. }
  apply Forall_forall. intros t Ht. apply in_map_iff in Ht as (p & <- & Hp). destruct (B p Hp) as [B1 B2].
  unfold snp_text.
  assert (One : forall (l : list N) k, all_valid l -> (k < length l)%nat -> exists a, dec (nth k (map (enc false) l) 0) = [a] /\ csv_special a = false).
  { intros l k Hl Hk. rewrite (nth_indep _ 0 (enc false 0)) by (rewrite map_length; exact Hk). rewrite map_nth.
    unfold all_valid in Hl. rewrite Forall_forall in Hl. destruct (Hl (nth k l 0) (nth_In _ _ Hk)) as [H1 H2].
    exists (upper (nth k l 0)). split; [apply dec_enc; assumption|apply upper_plain; exact H2]. }
  destruct (One ref (p - 1)%nat Hr ltac:(lia)) as (a & Ea & Ha). destruct (One q (p - 1)%nat Hq ltac:(lia)) as (b & Eb & Hb).
  rewrite Ea, Eb. apply plain_app; [unfold plain; cbn [existsb]; rewrite Ha; reflexivity|].
  apply plain_app; [apply plain_digits|unfold plain; cbn [existsb]; rewrite Hb; reflexivity].
Qed.

(* whatever the ID: the row written for a sequence is split into the five fields and these give back the line of the sequence *)
Theorem list_row_roundtrip ref q id : all_valid ref -> all_valid q ->
  let u := udl_of_seq (map (enc false) ref) id (map (enc false) q) in
  match csv_parse (udl_row u) with Some f => udl_of_fields f | None => None end = Some u.
Proof.
  intros Hr Hq u. unfold u. rewrite udl_row_parse by (apply udl_of_seq_plain; assumption).
  apply csv_roundtrip_of_seq; assumption.
Qed.
