From Coq Require Import List Arith Lia Bool.
Import ListNotations.

(* A bin during the round-robin fill of updown.balance: (current size, spare candidates still available). *)
Notation bin := (nat * nat)%type.
Fixpoint lsum (l : list nat) : nat := match l with [] => 0 | x :: t => x + lsum t end.
Definition ssum (l : list bin) := lsum (map fst l).
Definition asum (l : list bin) := lsum (map snd l).

(* if sizeObserved[i] > sizeIdeal[i] && sizeAvail[i] > 0 { size[i]++; sizeAvail[i]-- } *)
Definition bump (b : bin) : bin := match b with (s, S a) => (S s, a) | (s, 0) => (s, 0) end.

(* the inner `for i := range sizeObserved` loop, bins left of i in `done`, bins from i on in `todo` *)
Fixpoint inner (total : nat) (done todo : list bin) : list bin * bool :=
  match todo with
  | [] => (done, false)
  | b :: t =>
      if asum (done ++ todo) =? 0 then (done ++ todo, true)                    (* sum4(sizeAvail) == 0: n--; break *)
      else let b' := bump b in
           if ssum (done ++ b' :: t) =? total then (done ++ b' :: t, true)     (* sum4(size) == sizetotal: n--; break *)
           else inner total (done ++ [b']) t
  end.

(* the outer `for n := 1; n > 0;` loop, with fuel *)
Fixpoint outer (fuel total : nat) (bins : list bin) : option (list bin) :=
  match fuel with
  | 0 => None
  | S f => let (bins', stop) := inner total [] bins in if stop then Some bins' else outer f total bins'
  end.

(* ---- closed form: after r rounds a bin that started at (s0, A) is at level r ---- *)
Definition lvl (r : nat) (b : bin) : bin := (fst b + min r (snd b), snd b - min r (snd b)).

Lemma bump_lvl r b : bump (lvl r b) = lvl (S r) b.
Proof.
  destruct b as [s A]. unfold lvl, bump. cbn [fst snd].
  destruct (Nat.le_gt_cases A r) as [H|H].
  - rewrite !Nat.min_r by lia. replace (A - A) with 0 by lia. reflexivity.
  - rewrite (Nat.min_l r A) by lia. rewrite (Nat.min_l (S r) A) by lia.
    destruct (A - r) eqn:E; [lia|]. f_equal; lia.
Qed.

Lemma lvl_0 b : lvl 0 b = b.
Proof. destruct b as [s A]. unfold lvl. cbn. f_equal; lia. Qed.

(* one round started at level r ends, stopped or not, in a state that is level r+1 on a prefix and level r on the rest *)
Lemma inner_levels total r : forall t0 d0,
  exists d1 t1 stop, d0 ++ t0 = d1 ++ t1 /\
    inner total (map (lvl (S r)) d0) (map (lvl r) t0) = (map (lvl (S r)) d1 ++ map (lvl r) t1, stop) /\
    (stop = false -> t1 = []).
Proof.
  induction t0 as [|b t IH]; intros d0.
  - exists d0, [], false. cbn. rewrite !app_nil_r. auto.
  - cbn [map inner].
    destruct (asum _ =? 0).
    + exists d0, (b :: t), true. cbn [map]. split; [reflexivity|]. split; [reflexivity|discriminate].
    + rewrite bump_lvl. destruct (ssum _ =? total).
      * exists (d0 ++ [b]), t, true. rewrite map_app, <- !app_assoc. cbn. split; [reflexivity|]. split; [reflexivity|discriminate].
      * specialize (IH (d0 ++ [b])). rewrite map_app in IH. cbn [map] in IH.
        destruct IH as (d1 & t1 & stop & He & Hi & Hs). exists d1, t1, stop.
        rewrite <- app_assoc in He. cbn in He. auto.
Qed.

(* the whole loop: the result is level r+1 on a prefix and level r on the rest, for some r *)
Theorem outer_levels total : forall fuel r bins res,
  outer fuel total (map (lvl r) bins) = Some res ->
  exists r' d t, bins = d ++ t /\ res = map (lvl (S r')) d ++ map (lvl r') t.
Proof.
  induction fuel as [|f IH]; intros r bins res H; [discriminate|].
  cbn [outer] in H.
  destruct (inner_levels total r bins []) as (d1 & t1 & stop & He & Hi & Hs). cbn [map app] in Hi, He.
  rewrite Hi in H. destruct stop.
  - injection H as <-. exists r, d1, t1. auto.
  - rewrite (Hs eq_refl) in *. cbn [map] in H. rewrite app_nil_r in H, He. subst d1.
    apply (IH (S r) bins res H).
Qed.

(* ---- consequences: the clauses of balance_spec ---- *)
Lemma lvl_bounds r b : fst b <= fst (lvl r b) <= fst b + snd b /\ fst (lvl r b) + snd (lvl r b) = fst b + snd b.
Proof. destruct b as [s A]. unfold lvl. cbn [fst snd]. lia. Qed.

(* evenness: a bin is at most one behind any other, unless its spare supply is exhausted *)
Lemma lvl_even r r' bi bj : r' <= S r -> r <= r' ->
  fst (lvl r' bj) - fst bj <= fst (lvl r bi) - fst bi + 1 \/ snd (lvl r bi) = 0.
Proof. destruct bi as [si Ai], bj as [sj Aj]. unfold lvl. cbn [fst snd]. lia. Qed.

Theorem balance_closed_form total fuel bins res :
  outer fuel total bins = Some res ->
  exists r d t, bins = d ++ t /\ res = map (lvl (S r)) d ++ map (lvl r) t.
Proof.
  intros H. apply (outer_levels total fuel 0 bins res).
  rewrite (map_ext _ (fun b => b) lvl_0), map_id. exact H.
Qed.

(* ---- termination: asum(level r) strictly decreases while it is positive ---- *)
Lemma asum_lvl_dec r bins : asum (map (lvl r) bins) <> 0 -> asum (map (lvl (S r)) bins) < asum (map (lvl r) bins).
Proof.
  unfold asum. induction bins as [|[s A] t IH]; cbn [map lsum lvl fst snd]; [intros H; exfalso; apply H; reflexivity|].
  intros H. destruct (Nat.eq_dec (lsum (map snd (map (lvl r) t))) 0) as [E|E].
  - assert (lsum (map snd (map (lvl (S r)) t)) <= lsum (map snd (map (lvl r) t))).
    { clear. induction t as [|[s A] t IH]; cbn [map lsum lvl fst snd]; lia. }
    lia.
  - specialize (IH E). lia.
Qed.

(* a round on a non-empty list that does not stop saw a positive asum at its first check *)
Lemma inner_nonstop_pos total b t res : inner total [] (b :: t) = (res, false) -> asum (b :: t) <> 0.
Proof.
  cbn [inner app]. destruct (asum (b :: t) =? 0) eqn:E; [discriminate|]. intros _. apply Nat.eqb_neq, E.
Qed.

Theorem balance_terminates total : forall fuel r bins, bins <> [] ->
  asum (map (lvl r) bins) < fuel -> exists res, outer fuel total (map (lvl r) bins) = Some res.
Proof.
  induction fuel as [|f IH]; intros r bins Hne Hf; [lia|].
  cbn [outer].
  destruct (inner_levels total r bins []) as (d1 & t1 & stop & He & Hi & Hs). cbn [map app] in Hi, He.
  rewrite Hi. destruct stop; [eexists; reflexivity|].
  rewrite (Hs eq_refl) in *. cbn [map]. rewrite app_nil_r in *. subst d1.
  apply IH; [exact Hne|].
  assert (Hpos : asum (map (lvl r) bins) <> 0).
  { destruct bins as [|b t]; [congruence|]. cbn [map] in Hi |- *. eapply inner_nonstop_pos. exact Hi. }
  pose proof (asum_lvl_dec r bins Hpos). lia.
Qed.

(* ---- the sum clause: the loop stops exactly when the total is reached or the supply is exhausted ---- *)
Lemma ssum_app a b : ssum (a ++ b) = ssum a + ssum b.
Proof. unfold ssum. rewrite map_app. induction (map fst a); cbn; lia. Qed.
Lemma asum_app a b : asum (a ++ b) = asum a + asum b.
Proof. unfold asum. rewrite map_app. induction (map snd a); cbn; lia. Qed.
Lemma bump_ssum b : fst (bump b) <= fst b + 1 /\ fst (bump b) + snd (bump b) = fst b + snd b.
Proof. destruct b as [s [|a]]; cbn; lia. Qed.

Lemma inner_sums total : forall todo done res stop,
  ssum (done ++ todo) < total -> inner total done todo = (res, stop) ->
  ssum res + asum res = ssum (done ++ todo) + asum (done ++ todo) /\
  (stop = true -> asum res = 0 \/ ssum res = total) /\ (stop = false -> ssum res < total).
Proof.
  induction todo as [|b t IH]; intros done res stop Hlt H.
  - cbn [inner] in H. injection H as <- <-. rewrite app_nil_r in *. split; [reflexivity|]. split; [discriminate|auto].
  - cbn [inner] in H. destruct (asum (done ++ b :: t) =? 0) eqn:Ea.
    + injection H as <- <-. split; [reflexivity|]. split; [left; apply Nat.eqb_eq, Ea|discriminate].
    + pose proof (bump_ssum b) as [Hb1 Hb2].
      assert (Hs : ssum (done ++ bump b :: t) <= ssum (done ++ b :: t) + 1 /\
                   ssum (done ++ bump b :: t) + asum (done ++ bump b :: t) = ssum (done ++ b :: t) + asum (done ++ b :: t)).
      { rewrite !ssum_app, !asum_app. unfold ssum, asum. cbn [map lsum]. lia. }
      destruct (ssum (done ++ bump b :: t) =? total) eqn:Et.
      * injection H as <- <-. split; [lia|]. split; [right; apply Nat.eqb_eq, Et|discriminate].
      * apply Nat.eqb_neq in Et.
        assert (Hlt' : ssum ((done ++ [bump b]) ++ t) < total) by (rewrite <- app_assoc; cbn [app]; lia).
        destruct (IH (done ++ [bump b]) res stop Hlt' H) as (H1 & H2 & H3).
        rewrite <- app_assoc in H1. cbn [app] in H1. split; [lia|]. split; assumption.
Qed.

Theorem balance_sum total : forall fuel bins res,
  ssum bins < total -> outer fuel total bins = Some res ->
  ssum res + asum res = ssum bins + asum bins /\ (asum res = 0 \/ ssum res = total) /\ ssum res <= total.
Proof.
  induction fuel as [|f IH]; intros bins res Hlt H; [discriminate|].
  cbn [outer] in H. destruct (inner total [] bins) as [bins' stop] eqn:Hi.
  destruct (inner_sums total bins [] bins' stop Hlt Hi) as (H1 & H2 & H3). cbn [app] in H1.
  destruct stop.
  - injection H as <-. split; [exact H1|]. split; [apply H2; reflexivity|]. destruct (H2 eq_refl); [|lia].
    (* supply exhausted: the sizes never passed the total *) 
    assert (G : forall todo done res, ssum (done ++ todo) < total -> inner total done todo = (res, true) -> ssum res <= total).
    { clear. induction todo as [|b t IH]; intros done res Hlt H; cbn [inner] in H; [discriminate|].
      destruct (asum (done ++ b :: t) =? 0); [injection H as <-; lia|].
      destruct (ssum (done ++ bump b :: t) =? total) eqn:Et; [injection H as <-; apply Nat.eqb_eq in Et; lia|].
      apply Nat.eqb_neq in Et. apply (IH (done ++ [bump b]) res); [|exact H].
      rewrite <- app_assoc. cbn [app]. pose proof (bump_ssum b) as [Hb _].
      rewrite !ssum_app in *. unfold ssum in *. cbn [map lsum] in *. lia. }
    apply (G bins [] bins'); [exact Hlt|exact Hi].
  - destruct (IH bins' res (H3 eq_refl) H) as (I1 & I2 & I3). split; [lia|]. split; assumption.
Qed.
Print Assumptions balance_closed_form.
Print Assumptions balance_terminates.
Print Assumptions balance_sum.
