From Coq Require Import Floats.SpecFloat.
From GF Require Import Base Alphabet SymbolsDef FastaModel Float TopK SnpsModel SnpsAggModel ClosestModel Harness.
From GF Require Export Check_C04.
Open Scope N_scope.
(* snps --aggregate *)
Definition check_snps_agg (c : bool * (N * Z * Z) * list N * list N * gores) : N :=
  let '(h, (tk, tm, te), ref, aln, g) := c in verdict_p g (snps_agg_cmd h (sf_norm tk tm te) ref aln) true.
(* one entry point for both kinds of case *)
Inductive c13case :=
| CSnps (c : bool * (N * Z * Z) * list N * list N * gores)
| CVar (c : list N * list N * list (list N * bool * list nat * list N) * list N * (bool * bool * bool) * (Z * Z) * (N * Z * Z) * gores).
Definition check_C13 (c : c13case) : N := match c with CSnps x => check_snps_agg x | CVar x => check_variants x end.
