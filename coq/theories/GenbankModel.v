(* GenbankModel.v — C14: the FEATURES block of a GenBank flat file at the level of bytes (pkg/genbank/genbank.go
   isFeatureLine, parseGenbankFEATURES), with Go's panics (index of an empty string, assignment to a nil map) as `Panic`.
   Definitions only.  Outside the model: non-ASCII bytes. *)
From GF Require Import Base FastaModel.
Open Scope N_scope.

Definition is_space (c : N) : bool := (c =? 32) || ((9 <=? c) && (c <=? 13)).            (* unicode.IsSpace on ASCII *)
Fixpoint fields_go (l : list N) (rcur : list N) : list (list N) :=                       (* strings.Fields *)
  match l with
  | [] => match rcur with [] => [] | _ => [rev rcur] end
  | c :: t => if is_space c then (match rcur with [] => fields_go t [] | _ => rev rcur :: fields_go t [] end)
              else fields_go t (c :: rcur)
  end.
Fixpoint drop_space (l : list N) : list N := match l with c :: t => if is_space c then drop_space t else l | [] => [] end.
Definition trim_space (l : list N) : list N := rev (drop_space (rev (drop_space l))).   (* strings.TrimSpace *)

Definition is_feature_line (line : list N) (quote_closed : bool) : bool :=
  quote_closed && match fields_go line [] with
                  | [f0; _] => match f0 with c :: _ => negb (c =? 47) | [] => false end
                  | _ => false
                  end.

(* the scan of a qualifier line after its slash, or of a continuation line: EVERY equals sign is skipped and ends the key (also
   inside a value); inside the value every double quote is skipped and toggles quote_closed *)
Record qst := { q_iskey : bool; q_closed : bool; q_key : list N; q_val : list N }.       (* key and value reversed *)
Definition qual_char (s : qst) (c : N) : qst :=
  if c =? 61 then {| q_iskey := false; q_closed := q_closed s; q_key := q_key s; q_val := q_val s |}
  else if q_iskey s then {| q_iskey := true; q_closed := q_closed s; q_key := c :: q_key s; q_val := q_val s |}
  else if c =? 34 then {| q_iskey := false; q_closed := negb (q_closed s); q_key := q_key s; q_val := q_val s |}
  else {| q_iskey := false; q_closed := q_closed s; q_key := q_key s; q_val := c :: q_val s |}.
Definition cont_char (s : qst) (c : N) : qst :=
  if c =? 34 then {| q_iskey := q_iskey s; q_closed := negb (q_closed s); q_key := q_key s; q_val := q_val s |}
  else {| q_iskey := q_iskey s; q_closed := q_closed s; q_key := q_key s; q_val := c :: q_val s |}.

Record gbfeat := { gf_key : list N; gf_loc : list N; gf_info : option (list (list N * list N)) }.   (* None = nil map *)
Record gbst := { st_closed : bool; st_cur : gbfeat; st_key : list N; st_val : list N; st_done : list gbfeat; st_line : nat }.
Definition zero_feat : gbfeat := {| gf_key := []; gf_loc := []; gf_info := None |}.
Definition gb_init : gbst := {| st_closed := true; st_cur := zero_feat; st_key := []; st_val := []; st_done := []; st_line := 0 |}.
Definition put_info (f : gbfeat) (k v : list N) : option gbfeat :=
  match gf_info f with None => None | Some m => Some {| gf_key := gf_key f; gf_loc := gf_loc f; gf_info := Some (m ++ [(k, v)]) |} end.
Definition new_feat (line : list N) : gbfeat :=
  match fields_go line [] with f0 :: f1 :: _ => {| gf_key := f0; gf_loc := f1; gf_info := Some [] |} | _ => zero_feat end.

(* cont = true: the code as it is now (repair D23); false: before it, a continued location line was dropped *)
Definition gb_step_gen (cont : bool) (s : gbst) (line : list N) : res gbst :=
  let nf := is_feature_line line (st_closed s) in
  let n' := S (st_line s) in
  if nf && Nat.eqb (st_line s) 0 then
    Ok {| st_closed := st_closed s; st_cur := new_feat line; st_key := []; st_val := []; st_done := st_done s; st_line := n' |}
  else match trim_space line with
  | [] => Panic                                                            (* strings.TrimSpace(line)[0] *)
  | c0 :: rest =>
      if (c0 =? 47) && (match st_key s with [] => true | _ => false end) then
        let q := fold_left qual_char rest {| q_iskey := true; q_closed := true; q_key := []; q_val := [] |} in
        Ok {| st_closed := q_closed q; st_cur := st_cur s; st_key := rev (q_key q); st_val := rev (q_val q); st_done := st_done s; st_line := n' |}
      else if negb (st_closed s) then
        let q := fold_left cont_char (c0 :: rest) {| q_iskey := false; q_closed := st_closed s; q_key := []; q_val := rev (st_val s) |} in
        Ok {| st_closed := q_closed q; st_cur := st_cur s; st_key := st_key s; st_val := rev (q_val q); st_done := st_done s; st_line := n' |}
      else if c0 =? 47 then
        match put_info (st_cur s) (st_key s) (st_val s) with
        | None => Panic                                                      (* assignment to entry in nil map *)
        | Some f =>
            let q := fold_left qual_char rest {| q_iskey := true; q_closed := true; q_key := []; q_val := [] |} in
            Ok {| st_closed := q_closed q; st_cur := f; st_key := rev (q_key q); st_val := rev (q_val q); st_done := st_done s; st_line := n' |}
        end
      else if nf then
        match put_info (st_cur s) (st_key s) (st_val s) with
        | None => Panic
        | Some f => Ok {| st_closed := true; st_cur := new_feat line; st_key := []; st_val := []; st_done := st_done s ++ [f]; st_line := n' |}
        end
      else match gf_info (st_cur s), st_key s with
           | Some m, [] =>                                                   (* a location continued on the next line *)
               if negb cont then Ok {| st_closed := st_closed s; st_cur := st_cur s; st_key := st_key s; st_val := st_val s; st_done := st_done s; st_line := n' |} else
               Ok {| st_closed := st_closed s;
                     st_cur := {| gf_key := gf_key (st_cur s); gf_loc := gf_loc (st_cur s) ++ c0 :: rest; gf_info := Some m |};
                     st_key := st_key s; st_val := st_val s; st_done := st_done s; st_line := n' |}
           | _, _ => Ok {| st_closed := st_closed s; st_cur := st_cur s; st_key := st_key s; st_val := st_val s; st_done := st_done s; st_line := n' |}
           end
  end.
Notation gb_step := (gb_step_gen true).
Fixpoint gb_fold_gen (cont : bool) (s : gbst) (lines : list (list N)) : res gbst :=
  match lines with [] => Ok s | l :: t => bind (gb_step_gen cont s l) (fun s' => gb_fold_gen cont s' t) end.
Notation gb_fold := (gb_fold_gen true).
Definition parse_features_gen (cont : bool) (lines : list (list N)) : res (list gbfeat) :=
  bind (gb_fold_gen cont gb_init lines) (fun s =>
    match st_key s, st_val s with
    | _ :: _, _ :: _ => match put_info (st_cur s) (st_key s) (st_val s) with None => Panic | Some f => Ok (st_done s ++ [f]) end
    | _, _ => Ok (st_done s ++ [st_cur s])
    end).
Notation parse_features := (parse_features_gen true).
Notation parse_features_old := (parse_features_gen false).
(* the qualifier a consumer reads: the LAST entry with that key *)
Fixpoint info_get (k : list N) (m : list (list N * list N)) : option (list N) :=
  match m with [] => None | (k', v) :: t => match info_get k t with Some r => Some r | None => if list_eqb k k' then Some v else None end end.

(* ---- ORIGIN (parseGenbankORIGIN): every letter of every line of the block, in order ---- *)
Definition is_letter_ascii (c : N) : bool := ((65 <=? c) && (c <=? 90)) || ((97 <=? c) && (c <=? 122)).     (* unicode.IsLetter on ASCII *)
Definition parse_origin (lines : list (list N)) : list N := filter is_letter_ascii (concat lines).
