(* AggregateVariants.v — C13: the variants aggregator's counting list is the generic counter on the projected key. *)
From Coq Require Import Floats.SpecFloat.
From GF Require Import Base Alphabet SymbolsDef FastaModel Float TopK CodonModel Indels VariantsModel SnpsModel SnpsAggModel AggregateProofs.
Open Scope N_scope.

(* what AggregateWriteVariants' map key (Vskinny) contains: representation, position, kind, alleles, residue, feature, length *)
Definition pkey := (list N * Z * Z * list N * list N * nat * list N * nat)%type.
Definition akey_proj (k : akey) : pkey :=
  (k_rep k, v_pos (k_v k), kind_rank (v_kind (k_v k)), v_queal (k_v k), v_refal (k_v k), v_residue (k_v k), v_feature (k_v k), v_len (k_v k)).
Definition pkey_eqb (a b : pkey) : bool :=
  let '(r1, p1, k1, q1, f1, s1, t1, l1) := a in let '(r2, p2, k2, q2, f2, s2, t2, l2) := b in
  list_eqb r1 r2 && Z.eqb p1 p2 && Z.eqb k1 k2 && list_eqb q1 q2 && list_eqb f1 f2 && Nat.eqb s1 s2 && list_eqb t1 t2 && Nat.eqb l1 l2.

Lemma pkey_eqb_eq a b : pkey_eqb a b = true <-> a = b.
Proof.
  destruct a as [[[[[[[r1 p1] k1] q1] f1] s1] t1] l1], b as [[[[[[[r2 p2] k2] q2] f2] s2] t2] l2]. cbn [pkey_eqb].
  rewrite !andb_true_iff, !list_eqb_eq, !Z.eqb_eq, !Nat.eqb_eq. split.
  - intros [[[[[[[-> ->] ->] ->] ->] ->] ->] ->]. reflexivity.
  - intros [= -> -> -> -> -> -> -> ->]. repeat split; reflexivity.
Qed.

Lemma akey_eqb_proj a b : akey_eqb a b = pkey_eqb (akey_proj a) (akey_proj b).
Proof. reflexivity. Qed.

Definition pj (kn : akey * nat) : pkey * nat := (akey_proj (fst kn), snd kn).

Lemma count_key_proj k cs : map pj (count_key k cs) = cadd pkey pkey_eqb (akey_proj k) (map pj cs).
Proof.
  induction cs as [|[k' n] t IH]; [reflexivity|]. cbn [count_key map pj cadd fst snd].
  rewrite akey_eqb_proj. destruct (pkey_eqb (akey_proj k) (akey_proj k')); cbn [map pj fst snd]; [reflexivity|]. rewrite IH. reflexivity.
Qed.

(* the aggregator's fold, projected, is the generic counting fold over the projected keys of the per-sequence lists *)
Theorem aggregate_fold_proj (mk : variant -> akey) (lists : list (list variant)) : forall cs,
  map pj (fold_left (fun cs l => fold_left (fun cs v => count_key (mk v) cs) l cs) lists cs) =
  fold_left (fun cs l => fold_left (fun cs x => cadd pkey pkey_eqb x cs) l cs)
            (map (map (fun v => akey_proj (mk v))) lists) (map pj cs).
Proof.
  induction lists as [|l t IH]; intros cs; cbn [fold_left map]; [reflexivity|]. rewrite IH. f_equal.
  revert cs. induction l as [|v r IHr]; intros cs; cbn [fold_left map]; [reflexivity|]. rewrite IHr, count_key_proj. reflexivity.
Qed.

(* hence: the count the variants aggregator holds for a key is the number of its occurrences over the per-sequence lists *)
Theorem variants_aggregate_counts (mk : variant -> akey) (lists : list (list variant)) k :
  cget pkey pkey_eqb k (map pj (fold_left (fun cs l => fold_left (fun cs v => count_key (mk v) cs) l cs) lists [])) =
  total_occ pkey pkey_eqb k (map (map (fun v => akey_proj (mk v))) lists).
Proof. rewrite aggregate_fold_proj. cbn [map]. apply (aggregate_counts pkey pkey_eqb pkey_eqb_eq _ [] k). Qed.

Theorem variants_aggregate_once (mk : variant -> akey) (lists : list (list variant)) :
  keys_distinct pkey (map pj (fold_left (fun cs l => fold_left (fun cs v => count_key (mk v) cs) l cs) lists [])).
Proof. rewrite aggregate_fold_proj. cbn [map]. apply (aggregate_keys_distinct pkey pkey_eqb pkey_eqb_eq). constructor. Qed.

(* ---- the table of the variants aggregator (before the threshold), on the projected keys ---- *)
Theorem variants_aggregate_table (mk : variant -> akey) (lists : list (list variant)) :
  Forall (@NoDup pkey) (map (map (fun v => akey_proj (mk v))) lists) -> forall k c,
  In (k, c) (map pj (fold_left (fun cs l => fold_left (fun cs v => count_key (mk v) cs) l cs) lists [])) <->
  (0 < c)%nat /\ c = length (filter (fun l => existsb (pkey_eqb k) l) (map (map (fun v => akey_proj (mk v))) lists)).
Proof.
  intros Hnd k c. rewrite aggregate_fold_proj. cbn [map].
  apply (aggregate_table pkey pkey_eqb pkey_eqb_eq _ Hnd k c).
Qed.

(* ---- the order of the printed list: akey_lt is a strict order, so the sorted list is ordered by it, and in
   particular by genomic position ---- *)
Lemma bytes_ltb_irrefl a : bytes_ltb a a = false.
Proof. induction a as [|x a IH]; [reflexivity|]. cbn [bytes_ltb]. rewrite N.ltb_irrefl, N.eqb_refl, IH. reflexivity. Qed.
Lemma bytes_ltb_trans a : forall b c, bytes_ltb a b = true -> bytes_ltb b c = true -> bytes_ltb a c = true.
Proof.
  induction a as [|x a IH]; intros [|y b] [|z c]; cbn [bytes_ltb]; try discriminate; try reflexivity.
  rewrite !orb_true_iff, !andb_true_iff, !N.ltb_lt, !N.eqb_eq.
  intros [H1|[E1 H1]] [H2|[E2 H2]].
  - left; lia.
  - left; lia.
  - left; lia.
  - right. split; [lia|]. exact (IH b c H1 H2).
Qed.

Lemma akey_lt_irrefl a : akey_lt a a = false.
Proof. unfold akey_lt. rewrite !Z.ltb_irrefl, !bytes_ltb_irrefl, !andb_false_r. reflexivity. Qed.

Lemma akey_lt_trans a b c : akey_lt a b = true -> akey_lt b c = true -> akey_lt a c = true.
Proof.
  unfold akey_lt. cbv zeta.
  generalize (v_pos (k_v a)) (v_pos (k_v b)) (v_pos (k_v c)). intros pa pb pc.
  generalize (kind_rank (v_kind (k_v a))) (kind_rank (v_kind (k_v b))) (kind_rank (v_kind (k_v c))). intros ka kb kc.
  generalize (v_queal (k_v a)) (v_queal (k_v b)) (v_queal (k_v c)). intros qa qb qc.
  generalize (k_rep a) (k_rep b) (k_rep c). intros ra rb rc.
  repeat (rewrite orb_true_iff || rewrite andb_true_iff). rewrite !Z.ltb_lt, !Z.eqb_eq, !list_eqb_eq.
  intros [H1|[E1 [H1|[F1 [H1|[G1 H1]]]]]] [H2|[E2 [H2|[F2 [H2|[G2 H2]]]]]]; try (left; lia).
  all: right; split; [lia|]; try (left; lia).
  all: right; split; [lia|].
  - left. exact (bytes_ltb_trans _ _ _ H1 H2).
  - left. subst qc. exact H1.
  - left. subst qb. exact H2.
  - right. split; [congruence|]. exact (bytes_ltb_trans _ _ _ H1 H2).
Qed.

Theorem variants_agg_sorted (counts : list (akey * nat)) :
  sorted (akey * nat) (fun a b => akey_lt (fst a) (fst b)) (ssort (akey * nat) (fun a b => akey_lt (fst a) (fst b)) counts).
Proof. apply ssort_sorted; [intros x; apply akey_lt_irrefl|intros x y z; apply akey_lt_trans]. Qed.

(* ... hence by genomic position: every later row's position is not smaller *)
From Coq Require Import Sorted.
Theorem variants_agg_positions_ascending (counts : list (akey * nat)) :
  StronglySorted (fun a b => (v_pos (k_v (fst a)) <= v_pos (k_v (fst b)))%Z)
                 (ssort (akey * nat) (fun a b => akey_lt (fst a) (fst b)) counts).
Proof.
  pose proof (variants_agg_sorted counts) as H. revert H.
  generalize (ssort (akey * nat) (fun a b => akey_lt (fst a) (fst b)) counts). intros l.
  induction l as [|x t IH]; intros H; [constructor|]. cbn [sorted] in H. destruct H as [H1 H2].
  constructor; [apply IH; exact H2|]. apply Forall_forall. intros y Hy. specialize (H1 y Hy).
  unfold akey_lt in H1. apply orb_false_iff in H1 as [H1 _]. apply Z.ltb_ge in H1. exact H1.
Qed.

(* the printed rows: the sorted table rows whose frequency is not below the threshold *)
Theorem aggregate_rows_spec append_snp s e thr refid recs :
  let qs := filter (fun nv => negb (list_eqb (fst nv) refid)) recs in
  let n := length qs in
  let freq (kn : akey * nat) := f64_div_Z (Z.of_nat (snd kn)) (Z.of_nat n) in
  let counts := fold_left (fun cs nv =>
                  fold_left (fun cs v => count_key {| k_v := v; k_rep := format_variant append_snp v |} cs)
                            (filter (in_window s e) (snd nv)) cs) qs [] in
  aggregate_rows append_snp s e thr refid recs =
  concat (map (fun kn => k_rep (fst kn) ++ [44] ++ fmt_f9 (freq kn) ++ [NL])
              (filter (fun kn => negb (f64_ltb (freq kn) thr))
                      (ssort (akey * nat) (fun a b => akey_lt (fst a) (fst b)) counts))).
Proof. intros qs n freq counts. unfold aggregate_rows. apply (concat_map_if (fun kn => f64_ltb (freq kn) thr)). Qed.
