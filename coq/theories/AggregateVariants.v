(* AggregateVariants.v — C13: the variants aggregator's counting list is the generic counter on the projected key. *)
From Coq Require Import Floats.SpecFloat.
From GF Require Import Base Alphabet SymbolsDef FastaModel Float TopK CodonModel Indels VariantsModel SnpsModel SnpsAggModel AggregateProofs.
Open Scope N_scope.

(* what AggregateWriteVariants' map key (Vskinny) contains: representation, position, kind, alleles, residue, feature, length *)
Definition pkey := (list N * Z * Z * list N * list N * nat * list N * nat)%type.
Definition akey_proj (k : akey) : pkey :=
  (k_rep k, v_pos (k_v k), kind_rank (v_kind (k_v k)), v_queal (k_v k), v_refal (k_v k), v_residue (k_v k), v_feature (k_v k), v_len (k_v k)).
Definition pkey_eqb (a b : pkey) : bool :=
  let '(r1, p1, k1, q1, f1, s1, t1, l1) := a in let '(r2, p2, k2, q2, f2, s2, t2, l2) := b in
  list_eqb r1 r2 && Z.eqb p1 p2 && Z.eqb k1 k2 && list_eqb q1 q2 && list_eqb f1 f2 && Nat.eqb s1 s2 && list_eqb t1 t2 && Nat.eqb l1 l2.

Lemma pkey_eqb_eq a b : pkey_eqb a b = true <-> a = b.
Proof.
  destruct a as [[[[[[[r1 p1] k1] q1] f1] s1] t1] l1], b as [[[[[[[r2 p2] k2] q2] f2] s2] t2] l2]. cbn [pkey_eqb].
  rewrite !andb_true_iff, !list_eqb_eq, !Z.eqb_eq, !Nat.eqb_eq. split.
  - intros [[[[[[[-> ->] ->] ->] ->] ->] ->] ->]. reflexivity.
  - intros [= -> -> -> -> -> -> -> ->]. repeat split; reflexivity.
Qed.

Lemma akey_eqb_proj a b : akey_eqb a b = pkey_eqb (akey_proj a) (akey_proj b).
Proof. reflexivity. Qed.

Definition pj (kn : akey * nat) : pkey * nat := (akey_proj (fst kn), snd kn).

Lemma count_key_proj k cs : map pj (count_key k cs) = cadd pkey pkey_eqb (akey_proj k) (map pj cs).
Proof.
  induction cs as [|[k' n] t IH]; [reflexivity|]. cbn [count_key map pj cadd fst snd].
  rewrite akey_eqb_proj. destruct (pkey_eqb (akey_proj k) (akey_proj k')); cbn [map pj fst snd]; [reflexivity|]. rewrite IH. reflexivity.
Qed.

(* the aggregator's fold, projected, is the generic counting fold over the projected keys of the per-sequence lists *)
Theorem aggregate_fold_proj (mk : variant -> akey) (lists : list (list variant)) : forall cs,
  map pj (fold_left (fun cs l => fold_left (fun cs v => count_key (mk v) cs) l cs) lists cs) =
  fold_left (fun cs l => fold_left (fun cs x => cadd pkey pkey_eqb x cs) l cs)
            (map (map (fun v => akey_proj (mk v))) lists) (map pj cs).
Proof.
  induction lists as [|l t IH]; intros cs; cbn [fold_left map]; [reflexivity|]. rewrite IH. f_equal.
  revert cs. induction l as [|v r IHr]; intros cs; cbn [fold_left map]; [reflexivity|]. rewrite IHr, count_key_proj. reflexivity.
Qed.

(* hence: the count the variants aggregator holds for a key is the number of its occurrences over the per-sequence lists *)
Theorem variants_aggregate_counts (mk : variant -> akey) (lists : list (list variant)) k :
  cget pkey pkey_eqb k (map pj (fold_left (fun cs l => fold_left (fun cs v => count_key (mk v) cs) l cs) lists [])) =
  total_occ pkey pkey_eqb k (map (map (fun v => akey_proj (mk v))) lists).
Proof. rewrite aggregate_fold_proj. cbn [map]. apply (aggregate_counts pkey pkey_eqb pkey_eqb_eq _ [] k). Qed.

Theorem variants_aggregate_once (mk : variant -> akey) (lists : list (list variant)) :
  keys_distinct pkey (map pj (fold_left (fun cs l => fold_left (fun cs v => count_key (mk v) cs) l cs) lists [])).
Proof. rewrite aggregate_fold_proj. cbn [map]. apply (aggregate_keys_distinct pkey pkey_eqb pkey_eqb_eq). constructor. Qed.
