From GF Require Import Base Harness.
Definition check_C12 (c : N) : N := c.
