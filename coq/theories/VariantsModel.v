(* VariantsModel.v — model of pkg/variants (pairwise.go, variants.go): the per-pair caller
   (indels, intergenic nucs, per-codon aa/nuc decision, merge / stable sort / dedupe), the
   per-sequence and aggregate writers, and the window filter.  Regions (feature positions,
   strand, translation) are an input here; their construction from GenBank/GFF is RegionsModel.v.
   Definitions only. *)
From Coq Require Import Floats.SpecFloat.
From GF Require Import Base Alphabet SymbolsDef FastaModel Float TopK CodonModel Indels.
Open Scope N_scope.

Record region := { g_name : list N; g_rev : bool; g_pos : list nat; g_trans : list N }.

Inductive vkind := KAA | KDel | KIns | KNuc.       (* string order of "aa" < "del" < "ins" < "nuc" *)
Definition kind_rank (k : vkind) : Z := match k with KAA => 0 | KDel => 1 | KIns => 2 | KNuc => 3 end.
Record variant := { v_kind : vkind; v_pos : Z; v_refal : list N; v_queal : list N; v_residue : nat;
                    v_feature : list N; v_len : nat; v_snps : list N }.
Definition mk_nuc (r q : list N) (p : nat) : variant :=
  {| v_kind := KNuc; v_pos := Z.of_nat p; v_refal := r; v_queal := q; v_residue := 0; v_feature := []; v_len := 0; v_snps := [] |}.
Definition mk_indel (i : indel) : variant :=
  match i with
  | Ins p l => {| v_kind := KIns; v_pos := Z.of_nat p; v_refal := []; v_queal := []; v_residue := 0; v_feature := []; v_len := l; v_snps := [] |}
  | Del p l => {| v_kind := KDel; v_pos := Z.of_nat p; v_refal := []; v_queal := []; v_residue := 0; v_feature := []; v_len := l; v_snps := [] |}
  end.
Definition variant_eqb (a b : variant) : bool :=
  Z.eqb (kind_rank (v_kind a)) (kind_rank (v_kind b)) && Z.eqb (v_pos a) (v_pos b) &&
  list_eqb (v_refal a) (v_refal b) && list_eqb (v_queal a) (v_queal b) && Nat.eqb (v_residue a) (v_residue b) &&
  list_eqb (v_feature a) (v_feature b) && Nat.eqb (v_len a) (v_len b) && list_eqb (v_snps a) (v_snps b).

(* ---- GetMSAOffsets: refToMSA[k] = gap columns left of the k-th reference base ---- *)
Fixpoint ref_to_msa_from (gapsum : nat) (ref : list N) : list nat :=
  match ref with
  | [] => []
  | c :: t => if c =? 244 then ref_to_msa_from (S gapsum) t else gapsum :: ref_to_msa_from gapsum t
  end.
Definition ref_to_msa := ref_to_msa_from 0.
Definition cols_of_rows (ref que : list N) : list (bool * bool) :=
  map (fun rq => (fst rq =? 244, snd rq =? 244)) (combine ref que).
(* alignment column of (1-based) reference position p *)
Definition align_pos (r2m : list nat) (p : nat) : nat := ((p - 1) + nth (p - 1) r2m 0)%nat.

Definition nuc_text (v : variant) : list N := bs "nuc:" ++ v_refal v ++ dec_Z (v_pos v) ++ v_queal v.

(* ---- getNucsPair ---- *)
Definition get_nucs (ref que : list N) (r2m : list nat) (inter : list nat) : list variant :=
  flat_map (fun p => let ap := align_pos r2m p in
                     let r := nth ap ref 0 in let q := nth ap que 0 in
                     if N.land r q <? 16 then [mk_nuc (dec r) (dec q) p] else []) inter.

(* ---- getAAsPair: the codon loop over a region's positions ---- *)
(* Every emitted variant is paired with the reference positions it MENTIONS (a nuc: record its own position, an
   aa: record the positions of the SNPs in its (nuc:...) list).  The pairing is bookkeeping for the theorems of
   VariantsProofs.v; what is printed is the first component. *)
Notation traced := (variant * list nat)%type (only parsing).
Definition trace_nuc (v : variant) : traced := (v, [Z.to_nat (v_pos v)]).
Record aast := { a_snps : list variant; a_codon : list N; a_cc : nat; a_aa : nat; a_out : list traced; a_panic : bool }.
Definition aa_init := {| a_snps := []; a_codon := []; a_cc := 0; a_aa := 0; a_out := []; a_panic := false |}.
Definition aa_step (ref que : list N) (r2m : list nat) (g : region) (s : aast) (refPos : nat) : aast :=
  if a_panic s then s else
  let ap := align_pos r2m refPos in
  let r := nth ap ref 0 in let q := nth ap que 0 in
  if r =? 244 then s else
  let snps' := if N.land q r <? 16 then a_snps s ++ [mk_nuc (dec r) (dec q) refPos] else a_snps s in
  let codon' := a_codon s ++ dec q in
  if Nat.eqb (S (a_cc s)) 3 then
    let codon'' := if g_rev g then complement codon' else codon' in
    let aa := match dict GFgen.Tables.codon_tab codon'' with Some v => v | None => [88] end in
    match nth_error (g_trans g) (a_aa s) with
    | None => {| a_snps := snps'; a_codon := codon'; a_cc := a_cc s; a_aa := a_aa s; a_out := a_out s; a_panic := true |}
    | Some ra =>
        let refaa := [ra] in
        let out' :=
          if negb (list_eqb aa refaa) && negb (list_eqb aa [88]) then
            a_out s ++ [({| v_kind := KAA; v_pos := (Z.of_nat refPos - 2 * (if g_rev g then -1 else 1))%Z;
                            v_refal := refaa; v_queal := aa; v_residue := S (a_aa s); v_feature := g_name g; v_len := 0;
                            v_snps := join [59] (map nuc_text snps') |}, map (fun v => Z.to_nat (v_pos v)) snps')]
          else a_out s ++ map trace_nuc snps' in
        {| a_snps := []; a_codon := []; a_cc := 0; a_aa := S (a_aa s); a_out := out'; a_panic := false |}
    end
  else {| a_snps := snps'; a_codon := codon'; a_cc := S (a_cc s); a_aa := a_aa s; a_out := a_out s; a_panic := false |}.
Definition get_aas_traced (ref que : list N) (r2m : list nat) (g : region) : res (list traced) :=
  let s := fold_left (aa_step ref que r2m g) (g_pos g) aa_init in
  if a_panic s then Panic else Ok (a_out s).
Definition get_aas (ref que : list N) (r2m : list nat) (g : region) : res (list variant) :=
  match get_aas_traced ref que r2m g with Ok l => Ok (map fst l) | Err e => Err e | Panic => Panic end.

(* ---- GetVariantsPair: merge, stable sort by (Position, Changetype), drop del@0 and every repeated record (the seen-map of
   repair D20; before it only a record equal to the last kept one was dropped) ---- *)
Definition v_lt (a b : variant) : bool :=
  (v_pos a <? v_pos b)%Z || ((v_pos a =? v_pos b)%Z && (kind_rank (v_kind a) <? kind_rank (v_kind b))%Z).
Definition t_lt (a b : traced) : bool := v_lt (fst a) (fst b).
Fixpoint dedupe (seen : list variant) (l : list traced) : list traced :=
  match l with
  | [] => []
  | v :: t =>
      if (match v_kind (fst v) with KDel => true | _ => false end) && (v_pos (fst v) =? 0)%Z then dedupe seen t
      else if existsb (variant_eqb (fst v)) seen then dedupe seen t
      else v :: dedupe (fst v :: seen) t
  end.
Fixpoint all_aas (ref que : list N) (r2m : list nat) (gs : list region) : res (list traced) :=
  match gs with
  | [] => Ok []
  | g :: t => bind (get_aas_traced ref que r2m g) (fun a => bind (all_aas ref que r2m t) (fun r => Ok (a ++ r)))
  end.
Definition variants_pair_traced (ref que : list N) (gs : list region) (inter : list nat) : res (list traced) :=
  let r2m := ref_to_msa ref in
  bind (all_aas ref que r2m gs) (fun aas =>
    Ok (dedupe [] (ssort traced t_lt (map (fun i => (mk_indel i, [])) (get_indels (cols_of_rows ref que)) ++
                                         map trace_nuc (get_nucs ref que r2m inter) ++ aas)))).
Definition variants_pair (ref que : list N) (gs : list region) (inter : list nat) : res (list variant) :=
  match variants_pair_traced ref que gs inter with Ok l => Ok (map fst l) | Err e => Err e | Panic => Panic end.

(* codes: the 1-based reference positions not in any region *)
Definition inter_of (gs : list region) (reflen : nat) : list nat :=
  filter (fun p => negb (existsb (fun g => existsb (Nat.eqb p) (g_pos g)) gs)) (seq 1 reflen).

(* ---- FormatVariant and the writers ---- *)
Definition format_variant (append_snp : bool) (v : variant) : list N :=
  match v_kind v with
  | KDel => bs "del:" ++ dec_Z (v_pos v) ++ [58] ++ dec_nat (v_len v)
  | KIns => bs "ins:" ++ dec_Z (v_pos v) ++ [58] ++ dec_nat (v_len v)
  | KNuc => nuc_text v
  | KAA => bs "aa:" ++ v_feature v ++ [58] ++ v_refal v ++ dec_nat (v_residue v) ++ v_queal v ++
           (if append_snp then [40] ++ v_snps v ++ [41] else [])
  end.
Definition in_window (s e : Z) (v : variant) : bool :=
  negb (((0 <? s) && (v_pos v <? s)) || ((0 <? e) && (e <? v_pos v)))%Z.

(* per-sequence mode: records in input order, the reference record (by name) skipped *)
Definition variants_rows (append_snp : bool) (s e : Z) (refid : list N) (recs : list (list N * list variant)) : list N :=
  concat (map (fun nv => if list_eqb (fst nv) refid then []
                         else fst nv ++ [44] ++ join [124] (map (format_variant append_snp) (filter (in_window s e) (snd nv))) ++ [NL]) recs).
Definition variants_header : list N := bs "query,mutations" ++ [NL].

(* aggregate mode *)
Fixpoint bytes_ltb (a b : list N) : bool :=
  match a, b with
  | _, [] => false
  | [], _ :: _ => true
  | x :: a', y :: b' => (x <? y) || ((x =? y) && bytes_ltb a' b')
  end.
Record akey := { k_v : variant; k_rep : list N }.
Definition akey_eqb (a b : akey) : bool :=
  list_eqb (k_rep a) (k_rep b) && Z.eqb (v_pos (k_v a)) (v_pos (k_v b)) &&
  Z.eqb (kind_rank (v_kind (k_v a))) (kind_rank (v_kind (k_v b))) && list_eqb (v_queal (k_v a)) (v_queal (k_v b)) &&
  list_eqb (v_refal (k_v a)) (v_refal (k_v b)) && Nat.eqb (v_residue (k_v a)) (v_residue (k_v b)) &&
  list_eqb (v_feature (k_v a)) (v_feature (k_v b)) && Nat.eqb (v_len (k_v a)) (v_len (k_v b)).
Definition akey_lt (a b : akey) : bool :=
  let pa := v_pos (k_v a) in let pb := v_pos (k_v b) in
  let ka := kind_rank (v_kind (k_v a)) in let kb := kind_rank (v_kind (k_v b)) in
  let qa := v_queal (k_v a) in let qb := v_queal (k_v b) in
  ((pa <? pb) || ((pa =? pb) && ((ka <? kb) || ((ka =? kb) &&
     (bytes_ltb qa qb || (list_eqb qa qb && bytes_ltb (k_rep a) (k_rep b)))))))%Z.
Fixpoint count_key (k : akey) (cs : list (akey * nat)) : list (akey * nat) :=
  match cs with
  | [] => [(k, 1%nat)]
  | (k', n) :: t => if akey_eqb k k' then (k', S n) :: t else (k', n) :: count_key k t
  end.
Definition aggregate_rows (append_snp : bool) (s e : Z) (thr : spec_float) (refid : list N)
           (recs : list (list N * list variant)) : list N :=
  let qs := filter (fun nv => negb (list_eqb (fst nv) refid)) recs in
  let n := length qs in
  let counts := fold_left (fun cs nv =>
                  fold_left (fun cs v => count_key {| k_v := v; k_rep := format_variant append_snp v |} cs)
                            (filter (in_window s e) (snd nv)) cs) qs [] in
  let ordered := ssort (akey * nat) (fun a b => akey_lt (fst a) (fst b)) counts in
  concat (map (fun kn => let f := f64_div_Z (Z.of_nat (snd kn)) (Z.of_nat n) in
                         if f64_ltb f thr then [] else k_rep (fst kn) ++ [44] ++ fmt_f9 f ++ [NL]) ordered).
Definition aggregate_header : list N := bs "mutation,frequency" ++ [NL].

(* ---- the command core: reference row + alignment records + regions -> output ---- *)
Fixpoint call_all (ref : list N) (gs : list region) (inter : list nat) (recs : list rcd) : res (list (list N * list variant)) :=
  match recs with
  | [] => Ok []
  | r :: t => if negb (Nat.eqb (length (r_seq r)) (length ref)) then Err DiffLen
              else bind (variants_pair ref (r_seq r) gs inter) (fun vs =>
                   bind (call_all ref gs inter t) (fun rest => Ok ((r_id r, vs) :: rest)))
  end.
Definition variants_core (aggregate append_snp : bool) (s e : Z) (thr : spec_float) (refid : list N)
           (ref : list N) (gs : list region) (inter : list nat) (recs : list rcd) : res (list N) :=
  bind (call_all ref gs inter recs) (fun called =>
    Ok (if aggregate then aggregate_header ++ aggregate_rows append_snp s e thr refid called
        else variants_header ++ variants_rows append_snp s e refid called)).
