(* RegionOrder.v — C14 / C04: the variant caller does not care in which order it is handed the regions: the GenBank path hands them
   over in file order, the GFF3 path sorted by start; the lists of mutations are permutations of one another (the same records). *)
From Coq Require Import Floats.SpecFloat Permutation.
From GF Require Import Base Alphabet SymbolsDef FastaModel CodonModel TopK Indels VariantsModel VariantsProofs AaUniq.
Open Scope N_scope.

Lemma all_aas_perm ref que r2m gs gs' : Permutation gs gs' -> forall a, all_aas ref que r2m gs = Ok a ->
  exists a', all_aas ref que r2m gs' = Ok a' /\ Permutation a a'.
Proof.
  induction 1 as [|g t t' _ IH|g1 g2 t|t1 t2 t3 _ IH1 _ IH2]; intros a Ha.
  - exists a. split; [exact Ha|apply Permutation_refl].
  - cbn [all_aas] in *. destruct (get_aas_traced ref que r2m g) as [x| |]; try discriminate. cbn [bind] in *.
    destruct (all_aas ref que r2m t) as [r| |] eqn:Er; try discriminate. cbn [bind] in Ha. injection Ha as <-.
    destruct (IH r eq_refl) as (r' & E' & P). rewrite E'. cbn [bind]. exists (x ++ r'). split; [reflexivity|apply Permutation_app_head; exact P].
  - cbn [all_aas] in *. destruct (get_aas_traced ref que r2m g2) as [x2| |]; try discriminate. cbn [bind] in *.
    destruct (get_aas_traced ref que r2m g1) as [x1| |]; try discriminate. cbn [bind] in *.
    destruct (all_aas ref que r2m t) as [r| |]; try discriminate. cbn [bind] in *. injection Ha as <-.
    exists (x1 ++ x2 ++ r). split; [reflexivity|]. rewrite !app_assoc. apply Permutation_app_tail, Permutation_app_comm.
  - destruct (IH1 a Ha) as (a2 & E2 & P2). destruct (IH2 a2 E2) as (a3 & E3 & P3). exists a3. split; [exact E3|eapply Permutation_trans; eassumption].
Qed.

Definition dropped (v : variant) : bool := match v_kind v with KDel => (v_pos v =? 0)%Z | _ => false end.
Lemma dedupe_not_dropped l : forall seen v, In v (map fst (dedupe seen l)) -> dropped v = false.
Proof.
  induction l as [|x t IH]; intros seen v H; cbn [dedupe] in H; [contradiction|].
  destruct ((match v_kind (fst x) with KDel => true | _ => false end) && (v_pos (fst x) =? 0)%Z) eqn:Ed; [apply (IH seen); exact H|].
  destruct (existsb (variant_eqb (fst x)) seen); [apply (IH seen); exact H|]. cbn [map] in H. destruct H as [<-|H]; [|apply (IH _ _ H)].
  unfold dropped. destruct (v_kind (fst x)); try reflexivity. cbn [andb] in Ed. exact Ed.
Qed.
Lemma dedupe_members l v : In v (map fst (dedupe [] l)) <-> In v (map fst l) /\ dropped v = false.
Proof.
  split.
  - intros H. split; [|apply (dedupe_not_dropped l [] v H)]. apply in_map_iff in H as (x & <- & Hx). apply in_map. apply (dedupe_sub l [] x Hx).
  - intros [H Hd]. destruct (dedupe_keeps l [] v H Hd) as [K|[]]. exact K.
Qed.

(* the caller's list for one sequence: the same records, whatever the order of the regions *)
Theorem variants_region_order_irrelevant ref que gs gs' inter l :
  Permutation gs gs' -> variants_pair ref que gs inter = Ok l ->
  exists l', variants_pair ref que gs' inter = Ok l' /\ Permutation l l'.
Proof.
  intros P H. unfold variants_pair, variants_pair_traced in *.
  destruct (all_aas ref que (ref_to_msa ref) gs) as [a| |] eqn:Ea; try discriminate. cbn [bind] in H. injection H as <-.
  destruct (all_aas_perm ref que (ref_to_msa ref) gs gs' P a Ea) as (a' & Ea' & Pa). rewrite Ea'. cbn [bind]. eexists. split; [reflexivity|].
  set (X := map (fun i => (mk_indel i, @nil nat)) (get_indels (cols_of_rows ref que)) ++ map trace_nuc (get_nucs ref que (ref_to_msa ref) inter)).
  assert (PS : Permutation (ssort traced t_lt (X ++ a)) (ssort traced t_lt (X ++ a'))).
  { eapply Permutation_trans; [apply ssort_perm|]. eapply Permutation_trans; [|apply Permutation_sym, ssort_perm]. apply Permutation_app_head. exact Pa. }
  unfold X in PS. rewrite <- !app_assoc in PS.
  apply NoDup_Permutation; [apply dedupe_nodup|apply dedupe_nodup|].
  intros v. rewrite !dedupe_members. split; intros [Hin Hd]; (split; [|exact Hd]).
  - apply (Permutation_in _ (Permutation_map fst PS)). exact Hin.
  - apply (Permutation_in _ (Permutation_sym (Permutation_map fst PS))). exact Hin.
Qed.
