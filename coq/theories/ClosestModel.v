(* ClosestModel.v — model of pkg/closest (closest.go, closest_n.go).  Definitions only. *)
From Coq Require Import Floats.SpecFloat.
From GF Require Import Base Alphabet SymbolsDef FastaModel Float TopK.
Open Scope N_scope.

(* ---- per-pair distances on encoded sequences (C07) ---- *)
Fixpoint snp_count (q t : list N) : nat :=
  match q, t with
  | a :: q', b :: t' => let dis := N.land a b <? 16 in ((if dis then 1 else 0) + snp_count q' t')%nat
  | _, _ => 0%nat
  end.
(* rawDistance: (n, d) with n = disjoint columns, d = n + columns where both carry the same resolved base *)
Fixpoint raw_counts (q t : list N) : nat * nat :=
  match q, t with
  | a :: q', b :: t' =>
      let '(n, d) := raw_counts q' t' in
      let dis := N.land a b <? 16 in
      let same := (N.land a 8 =? 8) && (a =? b) in
      ((if dis then S n else n), (if dis then S d else d) + (if same then 1 else 0))%nat
  | _, _ => (0, 0)%nat
  end.
Definition nan_to_inf (x : spec_float) : spec_float := if is_nan x then f64_inf else x.
Definition raw_dist (q t : list N) : spec_float :=
  let '(n, d) := raw_counts q t in f64_div_Z (Z.of_nat n) (Z.of_nat d).
Definition snp_dist (q t : list N) : spec_float := f64_of_Z (Z.of_nat (snp_count q t)).

(* tn93: the column classes (counts) are modelled; the float evaluation of eq. (7) is not *)
Record tn93c := { c_P1 : nat; c_P2 : nat; c_d : nat; c_L : nat }.
Fixpoint tn93_counts (q t : list N) : tn93c :=
  match q, t with
  | a :: q', b :: t' =>
      let c := tn93_counts q' t' in
      if (N.land a b <? 16) && (N.land a 8 =? 8) && (N.land b 8 =? 8) then
        {| c_P1 := (if N.lor a b =? 200 then S (c_P1 c) else c_P1 c);
           c_P2 := (if N.lor a b =? 200 then c_P2 c else if N.lor a b =? 56 then S (c_P2 c) else c_P2 c);
           c_d := S (c_d c); c_L := S (c_L c) |}
      else if (N.land a 8 =? 8) && (a =? b) then
        {| c_P1 := c_P1 c; c_P2 := c_P2 c; c_d := c_d c; c_L := S (c_L c) |}
      else c
  | _, _ => {| c_P1 := 0; c_P2 := 0; c_d := 0; c_L := 0 |}
  end.

(* ---- a candidate target as seen by one query ---- *)
Record cand := { k_name : list N; k_score : Z; k_dist : spec_float; k_seq : list N }.
Definition key_lt (x y : cand) : bool :=
  f64_ltb (k_dist x) (k_dist y) || (f64_eqb (k_dist x) (k_dist y) && (k_score y <? k_score x)%Z).

(* findClosest: running best; first target taken, then replaced on strictly smaller distance, or on
   equal distance and strictly greater completeness *)
Fixpoint best_from (cur : cand) (l : list cand) : cand :=
  match l with
  | [] => cur
  | t :: r => best_from (if f64_ltb (k_dist t) (k_dist cur) then t
                         else if f64_eqb (k_dist t) (k_dist cur) && (k_score cur <? k_score t)%Z then t else cur) r
  end.
Definition find_closest (l : list cand) : option cand :=
  match l with [] => None | t :: r => Some (best_from t r) end.

(* findClosestN: -d pre-filter, then the bounded catchment (TopK.step with the Go admission rule) *)
Definition within (maxd : option spec_float) (c : cand) : bool :=
  match maxd with None => true | Some d => negb (f64_ltb d (k_dist c)) end.
Definition find_closest_n (K : nat) (maxd : option spec_float) (l : list cand) : list cand :=
  online cand key_lt K (filter (within maxd) l).

(* ---- output ---- *)
Definition closest_snps (q t : list N) : list (list N) :=
  (fix go (i : nat) (q t : list N) : list (list N) :=
     match q, t with
     | a :: q', b :: t' => (if N.land a b <? 16 then [dec_nat (S i) ++ dec a ++ dec b] else []) ++ go (S i) q' t'
     | _, _ => []
     end) 0%nat q t.
(* measure: 0 raw, 1 snp, 2 tn93 *)
Definition dist_text (measure : N) (d : spec_float) : list N :=
  match measure with 1 => dec_Z (f64_to_Z d) | _ => fmt_f9 d end.

Definition mk_cands (measure : N) (oracle : list spec_float) (q : rcd) (ts : list scored) : list cand :=
  map (fun to => let '(t, o) := to in
         {| k_name := r_id (sc_rec t); k_score := sc_score t; k_seq := r_seq (sc_rec t);
            k_dist := nan_to_inf (match measure with
                                  | 0 => raw_dist (r_seq q) (r_seq (sc_rec t))
                                  | 1 => snp_dist (r_seq q) (r_seq (sc_rec t))
                                  | _ => o end) |})
      (combine ts (match measure with 2 => oracle | _ => map (fun _ => S754_nan) ts end)).

Definition width_ok (qs : list rcd) (ts : list scored) : bool :=
  match qs, ts with q :: _, t :: _ => Nat.eqb (length (r_seq q)) (length (r_seq (sc_rec t))) | _, _ => true end.


Definition closest_gen (pick : list cand -> option cand) (measure : N) (oracle : list (list spec_float))
           (qfile tfile : list N) : res (list N) :=
  bind (read_encoded false qfile) (fun qs =>
  bind (read_scored false tfile) (fun ts =>
    if negb (width_ok qs ts) then Err DiffLen else
    Ok (bs "query,closest,distance,SNPs" ++ [NL] ++
        concat (map (fun q =>
          match pick (mk_cands measure (nth (r_idx q) oracle []) q ts) with
          | None => []
          | Some c => r_id q ++ [44] ++ k_name c ++ [44] ++ dist_text measure (k_dist c) ++ [44] ++
                      join [59] (closest_snps (r_seq q) (k_seq c)) ++ [NL]
          end) qs)))).
Definition closest_cmd := closest_gen find_closest.

(* K = 0 with a distance limit means "all within the limit" (catchmentSize = MaxInt: never full) *)
Definition closestn_gen (sel : nat -> option spec_float -> list cand -> list cand)
           (K : nat) (maxd : option spec_float) (measure : N) (table : bool)
           (oracle : list (list spec_float)) (qfile tfile : list N) : res (list N) :=
  bind (read_encoded false qfile) (fun qs =>
  bind (read_scored false tfile) (fun ts =>
    if negb (width_ok qs ts) then Err DiffLen else
    let K' := match K with O => S (length ts) | _ => K end in
    let hits q := sel K' maxd (mk_cands measure (nth (r_idx q) oracle []) q ts) in
    Ok (if table then
          bs "query,target,distance" ++ [NL] ++
          concat (map (fun q => concat (map (fun c => r_id q ++ [44] ++ k_name c ++ [44] ++ dist_text measure (k_dist c) ++ [NL]) (hits q))) qs)
        else
          bs "query,closest" ++ [NL] ++
          concat (map (fun q => r_id q ++ [44] ++ join [59] (map k_name (hits q)) ++ [NL]) qs)))).
Definition closestn_cmd := closestn_gen find_closest_n.

(* ---- SPEC of the ranking: first K, within D, of the targets ordered by (distance asc, completeness desc,
   file position) ---- *)
Definition closest_spec (K : nat) (maxd : option spec_float) (l : list cand) : list cand :=
  firstn K (ssort cand key_lt (filter (within maxd) l)).
Definition closestn_spec_cmd := closestn_gen closest_spec.
Definition closest_spec_cmd := closest_gen (fun l => hd_error (closest_spec 1 None l)).

Definition sf_of (k : N) (m e : Z) : spec_float :=
  match k with
  | 0 => S754_zero false | 1 => S754_finite false (Z.to_pos m) e | 2 => S754_finite true (Z.to_pos m) e
  | 3 => S754_infinity false | 4 => S754_infinity true | _ => S754_nan end.
(* the same, normalised to the canonical binary64 representation (for values built outside Go's bits) *)
Definition sf_norm (k : N) (m e : Z) : spec_float :=
  match k with 1 => f64_dyadic m e | 2 => f64_dyadic (- m) e | _ => sf_of k m e end.
