From Coq Require Import List String Bool.
From GF Require Import Base Harness.
From GFgen Require Import WriteSites.
Import ListNotations.
(* the unchecked sites, for the replay of a broken obligation *)
Definition unchecked_sites : list (string * list (nat * string * bool)) :=
  filter (fun f => negb (forallb (fun s => snd s) (snd f))) write_sites.
Definition check_C19 (c : N) : N := c.
