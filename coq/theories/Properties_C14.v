(* Properties_C14.v — C14: GenBank and GFF3 descriptions of the same genes give the same mutations. *)
From GF Require Import Base Alphabet Symbols FastaModel CodonModel RegionsModel.

(* For every feature (forward or reverse strand, any number of segments, any codon_start), the ordered
   position list derived on the GenBank path - both for complement(join(...)) and for
   join(complement(...),...) - equals the one derived on the GFF3 path from the equivalent rows. *)
Theorem C14_positions_gb_eq_gff : forall f,
  gb_positions_form0 f = gff_positions f /\ gb_positions_form1 f = gff_positions f.
Proof. exact positions_gb_eq_gff. Qed.
Print Assumptions C14_positions_gb_eq_gff.
