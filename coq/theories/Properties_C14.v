(* Properties_C14.v — C14: GenBank and GFF3 descriptions of the same genes give the same mutations. *)
From GF Require Import Base Alphabet Symbols FastaModel CodonModel RegionsModel.

(* For every feature (forward or reverse strand, any number of segments listed in ascending order, any codon_start), the
   ordered position list derived on the GenBank path - both for complement(join(...)) and for
   join(complement(...),...) - equals the one derived on the GFF3 path from the equivalent rows.  (A join that lists its
   segments in another order - a gene across the origin of a circular genome - has no equivalent in plain GFF3 rows,
   whose order carries no meaning: see C14_gff_row_order_irrelevant.) *)
Theorem C14_positions_gb_eq_gff : forall f, segs_ascending (f_segs f) ->
  gb_positions_form0 f = gff_positions f /\ gb_positions_form1 f = gff_positions f.
Proof. exact positions_gb_eq_gff. Qed.
Print Assumptions C14_positions_gb_eq_gff.

(* a consistent annotation - the GenBank /translation is what the CDS translates to (stop excluded) - gives the SAME region
   (name, strand, ordered positions, residues) on the GenBank path, in either spelling of a reverse-strand join, and on
   the GFF3 path, which recomputes the residues from the reference bases at those positions *)
Theorem C14_regions_gb_eq_gff : forall genome f translation form1, segs_ascending (f_segs f) ->
  gff_translation genome f = Ok (translation ++ [42%N]) -> region_gff genome f = Ok (region_gb form1 f translation).
Proof. exact regions_gb_eq_gff. Qed.
Print Assumptions C14_regions_gb_eq_gff.

(* hence, for every list of coding features, the two descriptions hand identical region lists to the variant caller
   (which is one function of the rows and the regions: C04, C05), so the mutations are the same, in the same order *)
Theorem C14_region_lists_gb_eq_gff : forall genome fs, Forall (fun f => segs_ascending (f_segs f)) fs ->
  forall trs forms, length trs = length fs -> length forms = length fs ->
  (forall k, (k < length fs)%nat -> gff_translation genome (nth k fs {| f_name := []; f_rev := false; f_segs := []; f_cstart := 1 |}) = Ok (nth k trs [] ++ [42%N])) ->
  map (region_gff genome) fs = map (@Ok aregion) (map (fun x => region_gb (fst (fst x)) (snd (fst x)) (snd x)) (combine (combine forms fs) trs)).
Proof. exact region_lists_gb_eq_gff. Qed.
Print Assumptions C14_region_lists_gb_eq_gff.

(* D15 (repaired): the GFF3 path does not depend on the order in which the rows of one feature are listed in the file *)
Theorem C14_gff_row_order_irrelevant : forall f f', Permutation.Permutation (f_segs f) (f_segs f') -> NoDup (map fst (f_segs f)) ->
  f_rev f = f_rev f' -> f_cstart f = f_cstart f' -> gff_positions f = gff_positions f'.
Proof. exact gff_row_order_irrelevant. Qed.
Print Assumptions C14_gff_row_order_irrelevant.

(* D14 (repaired): the rule "reverse iff first position > last position", which the GenBank path used for the strand before
   the repair, disagrees with the annotation's strand on joins listed in descending order, in both directions *)
Theorem C14_old_strand_rule_refuted :
  (exists f, f_rev f = false /\ old_is_reverse (gb_positions_form0 f) = true) /\
  (exists f, f_rev f = true /\ old_is_reverse (gb_positions_form0 f) = false).
Proof. exact old_strand_rule_refuted. Qed.
Print Assumptions C14_old_strand_rule_refuted.

(* ---- the GenBank location qualifier at the level of bytes (LocationModel.v mirrors pkg/genbank/location.go and is compared
   with it on every run) ---- *)
From GF Require Import LocationModel LocationProofs.
(* GetPositions of the text of a location - a..b, join(...), complement(a..b), complement(join(...)), join(complement(...),...),
   any numbers, any number of segments listed in any order - is exactly the position list the location denotes *)
Theorem C14_location_positions : forall l, wf_loc l -> get_positions (render l) = Ok (loc_positions l).
Proof. exact get_positions_render. Qed.
Print Assumptions C14_location_positions.
(* ... and IsReverse (as repaired, D14) its strand *)
Theorem C14_location_strand : forall l, wf_loc l -> is_reverse (render l) = Ok (loc_reverse l).
Proof. exact is_reverse_render. Qed.
Print Assumptions C14_location_strand.
(* composed with the feature AST: what CDSRegion2fromGenbank reads from the qualifier is what the AST-level model assumes *)
Theorem C14_genbank_location_read : forall form1 f, f_segs f <> [] ->
  get_positions (render (gb_loc form1 f)) =
    Ok (map Z.of_nat (if f_rev f then (if form1 then concat (map rrange (rev (f_segs f))) else rev (concat (map range (f_segs f))))
                      else concat (map range (f_segs f)))) /\
  is_reverse (render (gb_loc form1 f)) = Ok (f_rev f).
Proof. exact genbank_location_read. Qed.
Print Assumptions C14_genbank_location_read.
(* the rule IsReverse used before D14, on the very texts: wrong in both directions *)
Theorem C14_old_strand_rule_refuted_on_text :
  is_reverse_old (render (LJoin [(40, 51); (1, 9)]%nat)) = Ok true /\ loc_reverse (LJoin [(40, 51); (1, 9)]%nat) = false /\
  is_reverse_old (render (LCompJoin [(38, 41); (25, 26); (28, 33)]%nat)) = Ok false /\ loc_reverse (LCompJoin [(38, 41); (25, 26); (28, 33)]%nat) = true.
Proof. exact is_reverse_old_refuted. Qed.
Print Assumptions C14_old_strand_rule_refuted_on_text.

(* ---- the two annotation texts at the level of bytes (GffLineModel.v / GenbankModel.v mirror pkg/gff/gff.go and
   pkg/genbank/genbank.go and are compared with them on every run) ---- *)
From GF Require Import GffLineModel GffLineProofs GenbankModel GenbankProofs.
(* a well-formed GFF3 feature row - any seqid over the permitted characters, any source / type / score text without tabs, strand
   + - . ?, phase 0-2 (or . for a non-CDS row), one or more attributes tag=v1,v2,... - is read back field by field *)
Theorem C14_gff_row_roundtrip : forall r, wf_row r -> feature_from_line (render_row r) = Ok (feat_of r).
Proof. exact gff_row_roundtrip. Qed.
Print Assumptions C14_gff_row_roundtrip.
(* a FEATURES block written from any features (any key that does not begin with a slash - 5'UTR and -10_signal included -, any
   location text without blanks, on one line or continued over any number of further lines (repair D23), one or more qualifiers, each on one line or - a quoted value such as a long /translation - running over any number of lines /k=v or /k="v") is read back as exactly those features with
   exactly those qualifiers: no qualifier moves to a neighbouring feature *)
Theorem C14_genbank_features_roundtrip : forall fs, fs <> [] -> Forall wf_feat fs -> parse_features (render_features fs) = Ok (map parsed fs).
Proof. exact features_roundtrip. Qed.
Print Assumptions C14_genbank_features_roundtrip.
(* the ORIGIN block: however the sequence is cut into numbered, blank-separated chunks, every letter is kept, in order *)
Theorem C14_genbank_origin_roundtrip : forall lines : list (list (list N * list N)),
  Forall (Forall (fun p => forallb (fun c => negb (is_letter_ascii c)) (fst p) = true /\ forallb is_letter_ascii (snd p) = true)) lines ->
  parse_origin (map (fun l => concat (map (fun p => fst p ++ snd p) l)) lines) = concat (map (fun l => concat (map snd l)) lines).
Proof. exact parse_origin_lines. Qed.
Print Assumptions C14_genbank_origin_roundtrip.

(* before repair D23 a location that continues on a second line was cut at the end of the first *)
Theorem C14_wrapped_location_old_refuted :
  exists f, wf_feat f /\ parse_features_old (render_features [f]) = Ok [{| gf_key := fk f; gf_loc := floc f; gf_info := gf_info (parsed f) |}] /\
            floc f <> full_loc f /\ parse_features (render_features [f]) = Ok [parsed f].
Proof. exact wrapped_location_old_refuted. Qed.
Print Assumptions C14_wrapped_location_old_refuted.

From GF Require Import FastaLayout GenbankFile GenbankFileProofs GffFile GffFileProofs.
(* a whole GenBank flat file, section by section: every section (a line that begins with a capital letter, then lines that do
   not) is handed, in file order, to the switch on its first word *)
Theorem C14_genbank_sections : forall secs, Forall sec_ok secs -> read_genbank_lines (flatten secs) = dispatch_all secs gb_empty.
Proof. exact read_sections. Qed.
Print Assumptions C14_genbank_sections.
(* ... so a file made of any other sections (LOCUS, DEFINITION, REFERENCE ... with any continuation lines), then FEATURES written
   from any well-formed features, then ORIGIN (any number of trailing blanks) with the sequence cut into numbered chunks and the
   closing // line, is read as exactly those features and exactly that sequence *)
Theorem C14_genbank_file_read : forall pre fs n olines,
  Forall sec_ok pre -> Forall other_name pre -> fs <> [] -> Forall wf_feat fs ->
  Forall (Forall piece_ok) olines -> Forall body_line_ok (map origin_line olines) ->
  read_genbank_lines (flatten (pre ++ [features_section fs; origin_section n olines])) =
  Ok {| gb_features := Some (map parsed fs); gb_origin := Some (concat (map (fun l => concat (map snd l)) olines)) |}.
Proof. exact genbank_file_read. Qed.
Print Assumptions C14_genbank_file_read.
(* a blank line, wherever it stands, changes nothing; and the lines are those between LF or CRLF line ends, in any mixture *)
Theorem C14_genbank_blank_line_ignored : forall l1 l2, read_genbank_lines (l1 ++ [] :: l2) = read_genbank_lines (l1 ++ l2).
Proof. exact blank_line_ignored. Qed.
Print Assumptions C14_genbank_blank_line_ignored.
Theorem C14_genbank_line_ends : forall lines : list (list N * bool),
  Forall (fun le => ok_line (fst le)) lines -> read_genbank (FastaLayout.render lines) = read_genbank_lines (map fst lines).
Proof. exact genbank_file_bytes_read. Qed.
Print Assumptions C14_genbank_line_ends.
(* a whole GFF3 file: ##gff-version 3, any ##sequence-region lines, one or more well-formed rows, ##FASTA and any sequence lines
   is read as that version, those regions, those rows field by field, and what the list reader of C16 makes of the sequence lines *)
Theorem C14_gff_file_read : forall regs rows flines,
  Forall wf_region regs -> rows <> [] -> Forall wf_row rows ->
  read_gff_lines (version_line :: map region_line regs ++ map render_row rows ++ bs "##FASTA" :: flines) =
  bind (fasta_of flines) (fun fa =>
    Ok {| gff_version := bs "3"; gff_regions := map region_of regs; gff_features := map feat_of rows; gff_fasta := fa |}).
Proof. exact gff_file_read. Qed.
Print Assumptions C14_gff_file_read.
Theorem C14_gff_line_ends : forall lines : list (list N * bool),
  Forall (fun le => ok_line (fst le)) lines -> read_gff (FastaLayout.render lines) = read_gff_lines (map fst lines).
Proof. exact gff_file_bytes_read. Qed.
Print Assumptions C14_gff_line_ends.

(* ---- from the parsed files to the regions the variant callers use (ConsumerModel.v mirrors CDSRegion2fromGenbank,
   CDSRegion2fromGFF, RegionsFromGenbank, RegionsFromGFF, codes; compared with the code on the bytes of whole files on every run) ---- *)
From GF Require Import RegionsModel LocationModel LocationProofs ConsumerModel ConsumerProofs.
(* GenBank: a CDS feature whose location qualifier is the text of the feature's location (either spelling of a reverse join) and whose
   /gene, /codon_start, /translation are the feature's gives exactly the region of the AST-level model *)
Theorem C14_genbank_feature_to_region : forall form1 f t (g : gbfeat) m,
  f_segs f <> [] -> (1 <= f_cstart f)%nat -> (f_cstart f - 1 <= length (gb_full form1 f))%nat ->
  gf_loc g = render (gb_loc form1 f) -> gf_info g = Some m ->
  info_get (bs "gene") m = Some (f_name f) ->
  info_get (bs "codon_start") m = Some (dec_nat (f_cstart f)) ->
  info_get (bs "translation") m = Some t ->
  (if form1 then gb_positions_form1 f else gb_positions_form0 f) <> [] ->
  (length (if form1 then gb_positions_form1 f else gb_positions_form0 f) mod 3 = 0)%nat ->
  region_from_gbfeat g = Ok (cregion_of (region_gb form1 f t)).
Proof. exact region_from_gbfeat_read. Qed.
Print Assumptions C14_genbank_feature_to_region.
(* GFF3: the rows of one ID (put in coordinate order by RegionsFromGFF), one per segment, all on the feature's strand, the first
   carrying Name, the first in translation order carrying the phase, give the region of the AST-level model - or its refusal *)
Theorem C14_gff_rows_to_region : forall genome (f : feat) (fs : list gfeat) rest,
  fs <> [] -> bounds fs = map zpair (sort_segs (f_segs f)) ->
  Forall (fun r => g_strand r = [if f_rev f then 45 else 43]%N) fs ->
  attr_get (bs "Name") (g_attrs (hd dflt_row fs)) = Some (f_name f :: rest) ->
  g_phase (if f_rev f then last fs dflt_row else hd dflt_row fs) = (f_cstart f - 1)%nat ->
  (f_cstart f - 1 <= length (if f_rev f then concat (map rrange (rev (sort_segs (f_segs f)))) else concat (map range (sort_segs (f_segs f)))))%nat ->
  gff_positions f <> [] ->
  forallb (fun p => Nat.leb 1 p && Nat.leb p (length genome)) (gff_positions f) = true ->
  region_from_gfeats genome fs = bind (region_gff genome f) (fun a => Ok (cregion_of a)).
Proof. exact region_from_gfeats_read. Qed.
Print Assumptions C14_gff_rows_to_region.
(* hence, for a consistent annotation (the /translation is what the CDS translates to), the two functions of the code return the
   SAME region from the two parsed descriptions of one feature: the AST-level theorem carried down to what the code computes *)
Theorem C14_parsed_regions_gb_eq_gff : forall genome form1 f t (g : gbfeat) m (fs : list gfeat) rest,
  segs_ascending (f_segs f) -> gff_translation genome f = Ok (t ++ [42%N]) ->
  f_segs f <> [] -> (1 <= f_cstart f)%nat -> (f_cstart f - 1 <= length (gb_full form1 f))%nat ->
  gf_loc g = render (gb_loc form1 f) -> gf_info g = Some m ->
  info_get (bs "gene") m = Some (f_name f) -> info_get (bs "codon_start") m = Some (dec_nat (f_cstart f)) -> info_get (bs "translation") m = Some t ->
  fs <> [] -> bounds fs = map zpair (sort_segs (f_segs f)) -> Forall (fun r => g_strand r = [if f_rev f then 45 else 43]%N) fs ->
  attr_get (bs "Name") (g_attrs (hd dflt_row fs)) = Some (f_name f :: rest) ->
  g_phase (if f_rev f then last fs dflt_row else hd dflt_row fs) = (f_cstart f - 1)%nat ->
  gff_positions f <> [] -> (length (gff_positions f) mod 3 = 0)%nat ->
  forallb (fun p => Nat.leb 1 p && Nat.leb p (length genome)) (gff_positions f) = true ->
  region_from_gbfeat g = region_from_gfeats genome fs.
Proof. exact parsed_regions_gb_eq_gff. Qed.
Print Assumptions C14_parsed_regions_gb_eq_gff.
(* ... and from the BYTES of a GenBank flat file: any other sections, a FEATURES table of coding features each written with the
   location text of its AST feature (on one line or continued over several) and /gene, /codon_start, /translation, ORIGIN cut into
   numbered chunks, any LF / CRLF mixture: the regions the code hands to the variant caller are exactly those of the AST-level model,
   in file order, with the non-coding positions of `codes` *)
Theorem C14_genbank_bytes_to_regions : forall (pre : list section) (items : list (bool * feat * list N * wfeat)) (n : nat)
        (olines : list (list (list N * list N))) (lines : list (list N * bool)),
  Forall sec_ok pre -> Forall other_name pre -> items <> [] ->
  Forall (fun x => writes_cds (fst (fst (fst x))) (snd (fst (fst x))) (snd (fst x)) (snd x)) items ->
  Forall (Forall piece_ok) olines -> Forall body_line_ok (map origin_line olines) ->
  Forall (fun le => ok_line (fst le)) lines ->
  map fst lines = flatten (pre ++ [features_section (map snd items); origin_section n olines]) ->
  regions_of_genbank_text (FastaLayout.render lines) =
  let rs := map (fun x => cregion_of (region_gb (fst (fst (fst x))) (snd (fst (fst x))) (snd (fst x)))) items in
  bind (codes rs (length (concat (map (fun l => concat (map snd l)) olines)))) (fun inter => Ok (rs, inter)).
Proof. exact genbank_bytes_to_regions. Qed.
Print Assumptions C14_genbank_bytes_to_regions.
(* the list level of RegionsFromGFF: coding rows grouped by ID (each feature's rows next to one another, in coordinate order) give one
   region per ID in order of first appearance - no row strays into a neighbouring feature - the named ones then sorted by start *)
From GF Require Import ConsumerGff.
Theorem C14_gff_regions_grouped : forall genome (gs : list group) (rs : list cregion),
  Forall group_ok gs -> NoDup (map fst gs) ->
  Forall2 (fun g r => region_from_gfeats genome (snd g) = Ok r) gs rs ->
  Forall (fun r => cr_name r <> []) rs ->
  regions_from_gff (rows_of gs) genome =
  bind (codes rs (length genome)) (fun inter => Ok (TopK.ssort cregion (fun a b => (cr_start a <? cr_start b)%Z) rs, inter)).
Proof. exact regions_from_gff_grouped. Qed.
Print Assumptions C14_gff_regions_grouped.
(* ... and from the BYTES of a GFF3 file (version, sequence-region lines, well-formed rows, ##FASTA whose single record is the
   reference), any LF / CRLF mixture *)
Theorem C14_gff_bytes_to_regions : forall (regs : list (list N * (nat * nat))) (rows : list grow) (flines : list (list N)) (r : rcd) (genome : list N)
        (gs : list group) (rs : list cregion) (lines : list (list N * bool)),
  Forall wf_region regs -> rows <> [] -> Forall wf_row rows ->
  fasta_of flines = Ok (Some [r]) -> degap (r_seq r) = genome ->
  map feat_of rows = rows_of gs -> Forall group_ok gs -> NoDup (map fst gs) ->
  Forall2 (fun g x => region_from_gfeats genome (snd g) = Ok x) gs rs -> Forall (fun x => cr_name x <> []) rs ->
  Forall (fun le => ok_line (fst le)) lines ->
  map fst lines = version_line :: map region_line regs ++ map render_row rows ++ bs "##FASTA" :: flines ->
  regions_of_gff_text (FastaLayout.render lines) =
  bind (codes rs (length genome)) (fun inter => Ok (TopK.ssort cregion (fun a b => (cr_start a <? cr_start b)%Z) rs, inter)).
Proof. exact gff_bytes_to_regions. Qed.
Print Assumptions C14_gff_bytes_to_regions.
(* the ##FASTA section of a GFF3 file - one record, its sequence cut into lines, every symbol in the alphabet - is returned by the list
   reader of C16 and decoded as that sequence in upper case ... *)
Theorem C14_gff_fasta_section : forall (hdr : list N) (chunks : list (list N)) (id : list N),
  first_field hdr = Some id -> concat chunks <> [] -> Forall valid_chunk chunks ->
  Forall ok_line ((62%N :: hdr) :: chunks) ->
  fasta_of ((62%N :: hdr) :: chunks) = Ok (Some [{| r_id := id; r_desc := hdr; r_seq := map upper (concat chunks); r_idx := 0 |}]).
Proof. exact gff_fasta_section. Qed.
Print Assumptions C14_gff_fasta_section.
(* ... so the whole chain for a GFF3 file holds with structural premises only: bytes -> lines -> directives, rows, sequence
   section -> rows grouped by ID -> regions *)
Theorem C14_gff_bytes_to_regions_full : forall (regs : list (list N * (nat * nat))) (rows : list grow) (hdr : list N) (chunks : list (list N)) (id : list N)
        (gs : list group) (rs : list cregion) (lines : list (list N * bool)),
  let genome := degap (map upper (concat chunks)) in
  Forall wf_region regs -> rows <> [] -> Forall wf_row rows ->
  first_field hdr = Some id -> concat chunks <> [] -> Forall valid_chunk chunks -> Forall ok_line ((62%N :: hdr) :: chunks) ->
  map feat_of rows = rows_of gs -> Forall group_ok gs -> NoDup (map fst gs) ->
  Forall2 (fun g x => region_from_gfeats genome (snd g) = Ok x) gs rs -> Forall (fun x => cr_name x <> []) rs ->
  Forall (fun le => ok_line (fst le)) lines ->
  map fst lines = version_line :: map region_line regs ++ map render_row rows ++ bs "##FASTA" :: (62%N :: hdr) :: chunks ->
  regions_of_gff_text (FastaLayout.render lines) =
  bind (codes rs (length genome)) (fun inter => Ok (TopK.ssort cregion (fun a b => (cr_start a <? cr_start b)%Z) rs, inter)).
Proof. exact gff_bytes_to_regions_full. Qed.
Print Assumptions C14_gff_bytes_to_regions_full.
(* D15 at the level of the whole file: the rows may stand in ANY order - the rows of one feature in any order, the rows of different
   features interleaved or not; what matters is the order in which the IDs first appear and, per ID, the set of its rows *)
From GF Require Import ConsumerGffAny.
Theorem C14_gff_regions_any_order : forall genome (R : list gfeat) (gs : list group) (rs : list cregion),
  Forall (fun r => is_cds_row r = true /\ exists i, row_id r = Some i) R ->
  ids_in_order [] R = map fst gs ->
  Forall (canonical R) gs ->
  Forall2 (fun g r => region_from_gfeats genome (snd g) = Ok r) gs rs ->
  Forall (fun r => cr_name r <> []) rs ->
  regions_from_gff R genome =
  bind (codes rs (length genome)) (fun inter => Ok (TopK.ssort cregion (fun a b => (cr_start a <? cr_start b)%Z) rs, inter)).
Proof. exact regions_from_gff_any_order. Qed.
Print Assumptions C14_gff_regions_any_order.
Theorem C14_gff_file_row_order_irrelevant : forall genome (R R' : list gfeat) (gs : list group) (rs : list cregion),
  Forall (fun r => is_cds_row r = true /\ exists i, row_id r = Some i) R -> Forall (fun r => is_cds_row r = true /\ exists i, row_id r = Some i) R' ->
  ids_in_order [] R = map fst gs -> ids_in_order [] R' = map fst gs ->
  Forall (canonical R) gs -> Forall (canonical R') gs ->
  Forall2 (fun g r => region_from_gfeats genome (snd g) = Ok r) gs rs -> Forall (fun r => cr_name r <> []) rs ->
  regions_from_gff R genome = regions_from_gff R' genome.
Proof. exact gff_file_row_order_irrelevant. Qed.
Print Assumptions C14_gff_file_row_order_irrelevant.
(* the headline, from bytes to regions in both formats at once: a GenBank flat file (any other sections, CDS features written with the
   location text of their AST features, ORIGIN) and a GFF3 file (version, regions, well-formed rows grouped by ID, ##FASTA) whose IDs
   give the regions of the corresponding CDS features hand the variant caller the SAME regions - the GFF3 path then sorts them by
   start - and the same non-coding positions; the caller is one function of the rows and these (C04, C05) *)
From GF Require Import ConsumerBoth.
Theorem C14_bytes_regions_gb_vs_gff : forall
  (pre : list section) (items : list (bool * feat * list N * wfeat)) (n : nat) (olines : list (list (list N * list N))) (gblines : list (list N * bool))
  (regs : list (list N * (nat * nat))) (rows : list grow) (hdr : list N) (chunks : list (list N)) (id : list N) (gs : list group) (gfflines : list (list N * bool)),
  let rs := map (fun x => cregion_of (region_gb (fst (fst (fst x))) (snd (fst (fst x))) (snd (fst x)))) items in
  let genome := degap (map upper (concat chunks)) in
  Forall sec_ok pre -> Forall other_name pre -> items <> [] ->
  Forall (fun x => writes_cds (fst (fst (fst x))) (snd (fst (fst x))) (snd (fst x)) (snd x)) items ->
  Forall (Forall piece_ok) olines -> Forall body_line_ok (map origin_line olines) ->
  Forall (fun le => ok_line (fst le)) gblines ->
  map fst gblines = flatten (pre ++ [features_section (map snd items); origin_section n olines]) ->
  Forall wf_region regs -> rows <> [] -> Forall wf_row rows ->
  first_field hdr = Some id -> concat chunks <> [] -> Forall valid_chunk chunks -> Forall ok_line ((62%N :: hdr) :: chunks) ->
  map feat_of rows = rows_of gs -> Forall group_ok gs -> NoDup (map fst gs) ->
  Forall (fun le => ok_line (fst le)) gfflines ->
  map fst gfflines = version_line :: map region_line regs ++ map render_row rows ++ bs "##FASTA" :: (62%N :: hdr) :: chunks ->
  length (concat (map (fun l => concat (map snd l)) olines)) = length genome ->
  Forall2 (fun g x => region_from_gfeats genome (snd g) = Ok x) gs rs -> Forall (fun x => cr_name x <> []) rs ->
  forall inter, codes rs (length genome) = Ok inter ->
  regions_of_genbank_text (FastaLayout.render gblines) = Ok (rs, inter) /\
  regions_of_gff_text (FastaLayout.render gfflines) = Ok (TopK.ssort cregion (fun a b => (cr_start a <? cr_start b)%Z) rs, inter).
Proof. exact bytes_regions_gb_vs_gff. Qed.
Print Assumptions C14_bytes_regions_gb_vs_gff.
(* what `codes` leaves over: exactly the positions 1..n that lie in no region, ascending *)
Theorem C14_codes_spec : forall (rs : list cregion) (n : nat) (inter : list Z), codes rs n = Ok inter ->
  (forall p, In p inter <-> (1 <= p <= Z.of_nat n)%Z /\ ~ In p (concat (map cr_pos rs))) /\
  inter = filter (fun p => negb (existsb (Z.eqb p) (concat (map cr_pos rs)))) (map (fun i => Z.of_nat (S i)) (seq 0 n)).
Proof. exact codes_spec. Qed.
Print Assumptions C14_codes_spec.
(* ... and from the BYTES of a GFF3 file whose rows stand in any order (structural premises only) *)
Theorem C14_gff_bytes_to_regions_any_order : forall (regs : list (list N * (nat * nat))) (rows : list grow) (hdr : list N) (chunks : list (list N)) (id : list N)
        (gs : list group) (rs : list cregion) (lines : list (list N * bool)),
  let genome := degap (map upper (concat chunks)) in
  let R := map feat_of rows in
  Forall wf_region regs -> rows <> [] -> Forall wf_row rows ->
  first_field hdr = Some id -> concat chunks <> [] -> Forall valid_chunk chunks -> Forall ok_line ((62%N :: hdr) :: chunks) ->
  Forall (fun r => is_cds_row r = true /\ exists i, row_id r = Some i) R -> ids_in_order [] R = map fst gs -> Forall (canonical R) gs ->
  Forall2 (fun g x => region_from_gfeats genome (snd g) = Ok x) gs rs -> Forall (fun x => cr_name x <> []) rs ->
  Forall (fun le => ok_line (fst le)) lines ->
  map fst lines = version_line :: map region_line regs ++ map render_row rows ++ bs "##FASTA" :: (62%N :: hdr) :: chunks ->
  regions_of_gff_text (FastaLayout.render lines) =
  bind (codes rs (length genome)) (fun inter => Ok (TopK.ssort cregion (fun a b => (cr_start a <? cr_start b)%Z) rs, inter)).
Proof. exact gff_bytes_to_regions_any_order. Qed.
Print Assumptions C14_gff_bytes_to_regions_any_order.
(* the last link: the variant caller does not care in which ORDER it is handed the regions (file order on the GenBank path, sorted by
   start on the GFF3 path): for every sequence the two lists hold the same records - "up to the order of records that share one
   genomic position" *)
From GF Require Import Indels VariantsModel RegionOrder.
Theorem C14_variants_region_order_irrelevant : forall ref que gs gs' inter l,
  Permutation.Permutation gs gs' -> variants_pair ref que gs inter = Ok l ->
  exists l', variants_pair ref que gs' inter = Ok l' /\ Permutation.Permutation l l'.
Proof. exact variants_region_order_irrelevant. Qed.
Print Assumptions C14_variants_region_order_irrelevant.
(* C14 itself, from bytes to mutations: a GenBank flat file and a GFF3 file (rows in any order) that describe the same coding features
   give, for EVERY reference / query pair of rows, lists of mutations that hold the same records.  (to_region is the harness's reading
   of the code's Region struct - strand -1 = reverse - under which the caller's model is compared with the code in C04 / C14.) *)
From GF Require Import ConsumerGffAny EndToEnd.
Theorem C14_same_mutations_from_both_files : forall
  (pre : list section) (items : list (bool * feat * list N * wfeat)) (n : nat) (olines : list (list (list N * list N))) (gblines : list (list N * bool))
  (regs : list (list N * (nat * nat))) (rows : list grow) (hdr : list N) (chunks : list (list N)) (id : list N) (gs : list group) (gfflines : list (list N * bool)),
  let rs := map (fun x => cregion_of (region_gb (fst (fst (fst x))) (snd (fst (fst x))) (snd (fst x)))) items in
  let genome := degap (map upper (concat chunks)) in
  let R := map feat_of rows in
  Forall sec_ok pre -> Forall other_name pre -> items <> [] ->
  Forall (fun x => writes_cds (fst (fst (fst x))) (snd (fst (fst x))) (snd (fst x)) (snd x)) items ->
  Forall (Forall piece_ok) olines -> Forall body_line_ok (map origin_line olines) ->
  Forall (fun le => ok_line (fst le)) gblines ->
  map fst gblines = flatten (pre ++ [features_section (map snd items); origin_section n olines]) ->
  Forall wf_region regs -> rows <> [] -> Forall wf_row rows ->
  first_field hdr = Some id -> concat chunks <> [] -> Forall valid_chunk chunks -> Forall ok_line ((62%N :: hdr) :: chunks) ->
  Forall (fun r => is_cds_row r = true /\ exists i, row_id r = Some i) R -> ids_in_order [] R = map fst gs -> Forall (canonical R) gs ->
  Forall (fun le => ok_line (fst le)) gfflines ->
  map fst gfflines = version_line :: map region_line regs ++ map render_row rows ++ bs "##FASTA" :: (62%N :: hdr) :: chunks ->
  length (concat (map (fun l => concat (map snd l)) olines)) = length genome ->
  Forall2 (fun g x => region_from_gfeats genome (snd g) = Ok x) gs rs -> Forall (fun x => cr_name x <> []) rs ->
  forall inter, codes rs (length genome) = Ok inter ->
  exists gb_regions gff_regions,
    regions_of_genbank_text (FastaLayout.render gblines) = Ok (gb_regions, inter) /\
    regions_of_gff_text (FastaLayout.render gfflines) = Ok (gff_regions, inter) /\
    forall (ref que : list N) (l : list variant),
      variants_pair ref que (map to_region gb_regions) (map Z.to_nat inter) = Ok l ->
      exists l', variants_pair ref que (map to_region gff_regions) (map Z.to_nat inter) = Ok l' /\ Permutation.Permutation l l'.
Proof. exact same_mutations_from_both_files. Qed.
Print Assumptions C14_same_mutations_from_both_files.
