(* Base.v — bytes, tables, decimal rendering: shared by every model. *)
From Coq Require Export NArith ZArith List Bool Lia.
From Coq Require Ascii String.
Export Coq.Strings.String.StringSyntax.
Delimit Scope string_scope with string.
From Coq Require Import DecimalString DecimalN DecimalNat.
Export ListNotations.
Open Scope N_scope.

(* A byte is an N below 256; sequences are lists of bytes. *)
Notation byte := N (only parsing).
Notation bytes := (list N) (only parsing).

(* Coq string literals are used only to write byte strings compactly in cases files. *)
Fixpoint bs (s : String.string) : list N :=
  match s with
  | String.EmptyString => []
  | String.String a r => Ascii.N_of_ascii a :: bs r
  end.
Arguments bs s%string.

Fixpoint lookup {V} (d : V) (t : list (N * V)) (k : N) : V :=
  match t with [] => d | (k', v) :: r => if N.eqb k k' then v else lookup d r k end.

Definition upper (c : N) : N := if (97 <=? c) && (c <=? 122) then c - 32 else c.
Definition lower (c : N) : N := if (65 <=? c) && (c <=? 90) then c + 32 else c.

Fixpoint list_eqb (a b : list N) : bool :=
  match a, b with
  | [], [] => true
  | x :: a', y :: b' => N.eqb x y && list_eqb a' b'
  | _, _ => false
  end.

Lemma list_eqb_eq a b : list_eqb a b = true <-> a = b.
Proof.
  revert b; induction a as [|x a IH]; intros [|y b]; simpl; split; intros H;
    try reflexivity; try discriminate.
  - apply andb_true_iff in H as [H1 H2]. apply N.eqb_eq in H1. apply IH in H2. congruence.
  - injection H as -> ->. rewrite N.eqb_refl. apply IH. reflexivity.
Qed.

Lemma list_eqb_refl a : list_eqb a a = true.
Proof. apply list_eqb_eq. reflexivity. Qed.

(* all 256 byte values, for finite sweeps *)
Definition all_bytes : list N := map N.of_nat (seq 0 256).
Lemma all_bytes_In c : c < 256 -> In c all_bytes.
Proof.
  intros H. unfold all_bytes. apply in_map_iff. exists (N.to_nat c). split; [apply N2Nat.id|].
  apply in_seq. lia.
Qed.

(* decimal rendering of a natural number, as strconv.Itoa prints it *)
Fixpoint uint_bytes (u : Decimal.uint) : list N :=
  match u with
  | Decimal.Nil => []
  | Decimal.D0 r => 48 :: uint_bytes r | Decimal.D1 r => 49 :: uint_bytes r
  | Decimal.D2 r => 50 :: uint_bytes r | Decimal.D3 r => 51 :: uint_bytes r
  | Decimal.D4 r => 52 :: uint_bytes r | Decimal.D5 r => 53 :: uint_bytes r
  | Decimal.D6 r => 54 :: uint_bytes r | Decimal.D7 r => 55 :: uint_bytes r
  | Decimal.D8 r => 56 :: uint_bytes r | Decimal.D9 r => 57 :: uint_bytes r
  end.
Definition dec_N (n : N) : list N := uint_bytes (N.to_uint n).
Definition dec_nat (n : nat) : list N := dec_N (N.of_nat n).
Definition dec_Z (z : Z) : list N :=
  match z with Zneg p => 45 :: dec_N (Npos p) | _ => dec_N (Z.to_N z) end.

(* parse: the inverse direction, used for round-trip theorems *)
Definition digit_of (c : N) : option Decimal.uint -> option Decimal.uint :=
  fun r => match r with None => None | Some r =>
  match c with
  | 48 => Some (Decimal.D0 r) | 49 => Some (Decimal.D1 r) | 50 => Some (Decimal.D2 r)
  | 51 => Some (Decimal.D3 r) | 52 => Some (Decimal.D4 r) | 53 => Some (Decimal.D5 r)
  | 54 => Some (Decimal.D6 r) | 55 => Some (Decimal.D7 r) | 56 => Some (Decimal.D8 r)
  | 57 => Some (Decimal.D9 r) | _ => None end end.
Definition bytes_uint (l : list N) : option Decimal.uint := fold_right digit_of (Some Decimal.Nil) l.
Definition parse_N (l : list N) : option N :=
  match l with [] => None | _ => option_map N.of_uint (bytes_uint l) end.

Lemma bytes_uint_bytes u : bytes_uint (uint_bytes u) = Some u.
Proof. induction u; simpl; try reflexivity; unfold bytes_uint in *; simpl; rewrite IHu; reflexivity. Qed.

Lemma dec_N_nonempty n : dec_N n <> [].
Proof.
  unfold dec_N. destruct n as [|p]; [discriminate|]. simpl.
  pose proof (DecimalPos.Unsigned.to_uint_nonnil p) as H.
  destruct (Pos.to_uint p); simpl; try discriminate. congruence.
Qed.

Theorem parse_dec_N n : parse_N (dec_N n) = Some n.
Proof.
  unfold parse_N. pose proof (dec_N_nonempty n) as H. destruct (dec_N n) eqn:E; [congruence|].
  rewrite <- E. unfold dec_N. rewrite bytes_uint_bytes. simpl. rewrite DecimalN.Unsigned.of_to. reflexivity.
Qed.

Definition is_digit (c : N) : bool := (48 <=? c) && (c <=? 57).
Lemma uint_bytes_digits u : forallb is_digit (uint_bytes u) = true.
Proof. induction u; simpl; auto. Qed.
Lemma dec_N_digits n : forallb is_digit (dec_N n) = true.
Proof. apply uint_bytes_digits. Qed.

(* join with a separator, as strings.Join *)
Fixpoint join (sep : list N) (l : list (list N)) : list N :=
  match l with
  | [] => []
  | [x] => x
  | x :: r => x ++ sep ++ join sep r
  end.

Definition NL : N := 10.
