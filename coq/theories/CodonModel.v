(* CodonModel.v — C17: the standard genetic code written independently (spec), the model of
   alphabet.Translate / Complement / ReverseComplement over the dumped tables, and the boolean
   sweeps with their failing-entry search helpers.  Definitions only. *)
From GF Require Import Base Alphabet SymbolsDef FastaModel.
From GFgen Require Import Tables.
Open Scope N_scope.

(* ---- SPEC: the standard genetic code in TCAG order ---- *)
Definition b2n (b : base) : nat := match b with bT => 0 | bC => 1 | bA => 2 | bG => 3 end.
Definition aas : list N := bs "FFLLSSSSYY**CC*WLLLLPPPPHHQQRRRRIIIMTTTTNNKKSSRRVVVVAAAADDEEGGGG".
Definition std (x y z : base) : N := nth (16 * b2n x + 4 * b2n y + b2n z)%nat aas 0.

Definition dedupN (l : list N) : list N :=
  fold_right (fun a acc => if existsb (N.eqb a) acc then acc else a :: acc) [] l.
(* the product shared by every A/C/G/T expansion of an IUPAC codon, if there is one *)
Definition unique_product (c1 c2 c3 : N) : option N :=
  match denote_up false c1, denote_up false c2, denote_up false c3 with
  | Some X, Some Y, Some Z =>
      match dedupN (flat_map (fun x => flat_map (fun y => map (fun z => std x y z) Z) Y) X) with
      | [a] => Some a | _ => None end
  | _, _, _ => None
  end.

(* ---- MODEL: dictionary lookup, Translate ---- *)
Fixpoint dict (t : list (list N * list N)) (k : list N) : option (list N) :=
  match t with [] => None | (k', v) :: r => if list_eqb k k' then Some v else dict r k end.
Definition codon_aa (c1 c2 c3 : N) : option (list N) := dict codon_tab [c1; c2; c3].

Fixpoint codons (fuel : nat) (l : list N) : option (list (N * N * N)) :=
  match l with
  | [] => Some []
  | a :: b :: c :: t => match fuel with O => None | S f => option_map (cons (a, b, c)) (codons f t) end
  | _ => None
  end.

Fixpoint translate_codons (strict : bool) (cs : list (N * N * N)) : res (list N) :=
  match cs with
  | [] => Ok []
  | (a, b, c) :: t =>
      match codon_aa a b c with
      | Some v => bind (translate_codons strict t) (fun r => Ok (v ++ r))
      | None => if strict then Err Other else bind (translate_codons strict t) (fun r => Ok (88 :: r))
      end
  end.
Definition translate (strict : bool) (nuc : list N) : res (list N) :=
  match codons (length nuc) nuc with
  | None => Err Other            (* length not divisible by 3 *)
  | Some cs => translate_codons strict cs
  end.

Fixpoint spec_translate_codons (strict : bool) (cs : list (N * N * N)) : res (list N) :=
  match cs with
  | [] => Ok []
  | (a, b, c) :: t =>
      match unique_product a b c with
      | Some v => bind (spec_translate_codons strict t) (fun r => Ok (v :: r))
      | None => if strict then Err Other else bind (spec_translate_codons strict t) (fun r => Ok (88 :: r))
      end
  end.
Definition spec_translate (strict : bool) (nuc : list N) : res (list N) :=
  match codons (length nuc) nuc with
  | None => Err Other
  | Some cs => spec_translate_codons strict cs
  end.

(* ---- complement ---- *)
Definition complement (s : list N) : list N := map comp_txt s.
Definition revcomp (s : list N) : list N := rev (complement s).
Definition ecomplement (s : list N) : list N := map comp_enc s.
Definition erevcomp (s : list N) : list N := rev (ecomplement s).

(* ---- sweeps ---- *)
Definition codon_ok (c1 c2 c3 : N) : bool :=
  match codon_aa c1 c2 c3, unique_product c1 c2 c3 with
  | Some [a], Some b => N.eqb a b
  | None, None => true
  | _, _ => false end.
Definition sweep_codons : bool :=
  forallb (fun c1 => forallb (fun c2 => forallb (fun c3 => codon_ok c1 c2 c3) iupac15) iupac15) iupac15.
Definition failing_codons : list (list N) :=
  flat_map (fun c1 => flat_map (fun c2 => flat_map (fun c3 =>
     if codon_ok c1 c2 c3 then [] else [[c1;c2;c3]]) iupac15) iupac15) iupac15.

(* the dictionary has no entry outside the 15^3 upper-case IUPAC codons *)
Definition sweep_dict_keys : bool :=
  forallb (fun kv => match fst kv with
                     | [a;b;c] => existsb (N.eqb a) iupac15 && existsb (N.eqb b) iupac15 && existsb (N.eqb c) iupac15
                     | _ => false end) codon_tab.

(* all 64 unambiguous codons against the independently written table *)
Definition acgt : list N := [65;67;71;84].
Definition base_of_up (c : N) : base := match c with 65 => bA | 67 => bC | 71 => bG | _ => bT end.
Definition sweep_std64 : bool :=
  forallb (fun c1 => forallb (fun c2 => forallb (fun c3 =>
    match codon_aa c1 c2 c3 with Some [a] => N.eqb a (std (base_of_up c1) (base_of_up c2) (base_of_up c3)) | _ => false end)
    acgt) acgt) acgt.

(* complement: denotes the base-wise complements; text and encoded forms; involution *)
Definition comp_set (s : list base) : list base := map compl s.
Definition comp_txt_ok (h : bool) (c : N) : bool :=
  match denote h c, denote h (comp_txt c) with
  | Some s, Some s' => set_eqb s' (comp_set s)
  | _, _ => false end
  && N.eqb (comp_txt (comp_txt c)) c
  && Bool.eqb ((97 <=? c) && (c <=? 122)) ((97 <=? comp_txt c) && (comp_txt c <=? 122)).   (* keeps letter case *)
Definition comp_enc_ok (h : bool) (c : N) : bool :=
  N.eqb (comp_enc (enc h c)) (enc h (comp_txt c)) && N.eqb (comp_enc (comp_enc (enc h c))) (enc h c).
Definition sweep_comp : bool :=
  forallb (fun h => forallb (fun c => comp_txt_ok h c && comp_enc_ok h c) accepted32) bools.
Definition failing_comp : list (bool * N * bool * bool) :=
  flat_map (fun h => flat_map (fun c => if comp_txt_ok h c && comp_enc_ok h c then [] else [(h, c, comp_txt_ok h c, comp_enc_ok h c)]) accepted32) bools.
