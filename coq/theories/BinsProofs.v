(* BinsProofs.v — C08: in size mode every reported bin is a prefix of that bin's candidates (targets of that direction
   within the bin's --dist limit) ordered by distance, then fewer ambiguities, then file order. *)
From Coq Require Import Floats.SpecFloat.
From GF Require Import Base Alphabet SymbolsDef FastaModel SnpsModel UpdownListModel Float TopK Balance TopRankModel.
Open Scope nat_scope.

Lemma hit_lt_irrefl x : hit_lt x x = false.
Proof. unfold hit_lt. rewrite !Nat.ltb_irrefl, Nat.eqb_refl. reflexivity. Qed.
Lemma hit_lt_iff a b : hit_lt a b = true <-> h_dist a < h_dist b \/ (h_dist a = h_dist b /\ h_amb a < h_amb b).
Proof. unfold hit_lt. rewrite orb_true_iff, andb_true_iff, !Nat.ltb_lt, Nat.eqb_eq. reflexivity. Qed.
Lemma hit_lt_trans x y z : hit_lt x y = true -> hit_lt y z = true -> hit_lt x z = true.
Proof. rewrite !hit_lt_iff. lia. Qed.
Lemma hit_lt_ntrans x y z : hit_lt x y = false -> hit_lt y z = false -> hit_lt x z = false.
Proof.
  intros H1 H2. destruct (hit_lt x z) eqn:E; [|reflexivity]. apply hit_lt_iff in E.
  assert (N1 : ~ (h_dist x < h_dist y \/ (h_dist x = h_dist y /\ h_amb x < h_amb y))) by (rewrite <- hit_lt_iff, H1; discriminate).
  assert (N2 : ~ (h_dist y < h_dist z \/ (h_dist y = h_dist z /\ h_amb y < h_amb z))) by (rewrite <- hit_lt_iff, H2; discriminate).
  lia.
Qed.

Lemma online_zero {E} (lt : E -> E -> bool) xs : online E lt 0 xs = [].
Proof.
  unfold online. assert (H : fold_left (TopK.step E lt 0) xs [] = []).
  { induction xs as [|x xs IH]; [reflexivity|]. cbn [fold_left]. unfold TopK.step at 2. cbn. exact IH. }
  rewrite H. reflexivity.
Qed.
Lemma online_hits K xs : online hit hit_lt K xs = firstn K (ssort hit hit_lt xs).
Proof.
  destruct K as [|K]; [rewrite online_zero; reflexivity|].
  apply online_topk_eq_sorted_prefix; [apply hit_lt_irrefl|apply hit_lt_trans|apply hit_lt_ntrans|lia].
Qed.

(* the candidates of one bin: direction dir, within the bin's distance limit, in file order *)
Definition candidates (dists : list Z) (dir : nat) (cl : list (nat * hit)) : list hit :=
  filter (fun h => negb (nth dir dists 0%Z <? Z.of_nat (h_dist h))%Z) (of_dir dir cl).

Lemma balance_sizes_length total ideal observed nofill :
  length ideal = length observed -> length (balance_sizes total ideal observed nofill) = length ideal.
Proof.
  intros Hl. unfold balance_sizes. destruct (forallb _ _); [reflexivity|].
  assert (Hs : length (map (fun io : nat * nat => Nat.min (fst io) (snd io)) (combine ideal observed)) = length ideal).
  { rewrite map_length, combine_length. lia. }
  destruct nofill; [exact Hs|].
  destruct (outer _ _ _) as [bins|] eqn:E; [|exact Hs].
  apply balance_closed_form in E. destruct E as (r & d & t & E1 & ->).
  rewrite map_length, app_length, !map_length, <- app_length, <- E1, combine_length, !map_length, combine_length. lia.
Qed.

Theorem size_mode_bins_are_prefixes sizes dists nofill n cl : length sizes = 4 ->
  exists n0 n1 n2 n3,
    size_mode sizes dists nofill n cl =
    [firstn n0 (ssort hit hit_lt (candidates dists 0 cl)); firstn n1 (ssort hit hit_lt (candidates dists 1 cl));
     firstn n2 (ssort hit hit_lt (candidates dists 2 cl)); firstn n3 (ssort hit hit_lt (candidates dists 3 cl))].
Proof.
  intros Hs. unfold size_mode. cbn [map]. rewrite !online_hits.
  fold (candidates dists 0 cl) (candidates dists 1 cl) (candidates dists 2 cl) (candidates dists 3 cl).
  set (K := capn n _). set (obs := [length _; length _; length _; length _]).
  pose proof (balance_sizes_length K (map (capn n) sizes) obs nofill) as Hl. rewrite map_length, Hs in Hl. specialize (Hl eq_refl).
  destruct (balance_sizes K (map (capn n) sizes) obs nofill) as [|a [|b [|c [|d [|e rest]]]]]; try discriminate.
  exists (Nat.min a K), (Nat.min b K), (Nat.min c K), (Nat.min d K). cbn [combine map fst snd]. rewrite !firstn_firstn. reflexivity.
Qed.

(* checkArgs always hands four sizes to the bins *)
Lemma check_args_sizes_length st su sd ss sm da du dd ds dp sizes dists :
  check_args_tr st su sd ss sm da du dd ds dp = Some (sizes, dists) -> length sizes = 4 /\ length dists = 4.
Proof.
  unfold check_args_tr. destruct (_ && _ && _ && _); [discriminate|]. destruct (_ && _ && _ && _); [discriminate|].
  intros H. injection H as <- <-. split.
  - destruct (0 <? st)%Z; [reflexivity|]. destruct (negb _); reflexivity.
  - destruct (0 <? da)%Z; [reflexivity|]. destruct (negb _); reflexivity.
Qed.
