From Coq Require Import List Arith Lia Bool Permutation.
Import ListNotations.

Section Reorder.
  Variable R : Type.

  (* the map[int]R of the Go writers, as a total function *)
  Definition omap := nat -> option R.
  Definition empty : omap := fun _ => None.
  Definition put (m : omap) (k : nat) (r : R) : omap := fun j => if Nat.eqb j k then Some r else m j.
  Definition del (m : omap) (k : nat) : omap := fun j => if Nat.eqb j k then None else m j.

  Record st := { mp : omap; ctr : nat; out : list R }.

  (* for { if rec, ok := m[counter]; ok { write; delete; counter++ } else { break } } *)
  Fixpoint drain (fuel : nat) (s : st) : st :=
    match fuel with
    | 0 => s
    | S f => match mp s (ctr s) with
             | Some r => drain f {| mp := del (mp s) (ctr s); ctr := S (ctr s); out := out s ++ [r] |}
             | None => s
             end
    end.

  (* one arrival: outputMap[idx] = rec; then drain *)
  Definition arrive (n : nat) (s : st) (a : nat * R) : st :=
    drain (S n) {| mp := put (mp s) (fst a) (snd a); ctr := ctr s; out := out s |}.

  Definition init : st := {| mp := empty; ctr := 0; out := [] |}.
  Definition run (n : nat) (arr : list (nat * R)) : list R := out (fold_left (arrive n) arr init).

  Variable recs : list R.
  Let n := length recs.

  Definition Inv (seen : list (nat * R)) (s : st) : Prop :=
    ctr s <= n /\
    out s = firstn (ctr s) recs /\
    (forall k r, mp s k = Some r -> nth_error recs k = Some r) /\
    (forall k r, In (k, r) seen -> ctr s <= k -> mp s k = Some r).

  Lemma firstn_S_nth k r : nth_error recs k = Some r -> firstn (S k) recs = firstn k recs ++ [r].
  Proof.
    clear n. revert k; induction recs as [|x t IH]; intros k H; [destruct k; discriminate|].
    destruct k as [|k]; cbn in *; [injection H as ->; reflexivity|]. f_equal. apply IH, H.
  Qed.

  Lemma drain_inv seen fuel s :
    Inv seen s -> n - ctr s < fuel ->
    Inv seen (drain fuel s) /\ mp (drain fuel s) (ctr (drain fuel s)) = None.
  Proof.
    revert s; induction fuel as [|f IH]; intros s Hi Hf; [lia|].
    cbn [drain]. destruct (mp s (ctr s)) as [r|] eqn:Hm; [|split; assumption].
    destruct Hi as (Ha & Hb & Hc & Hd).
    pose proof (Hc _ _ Hm) as Hn.
    assert (Hlt : ctr s < n) by (apply nth_error_Some; rewrite Hn; discriminate).
    apply IH; cbn [ctr mp out]; [|lia].
    repeat split; cbn [ctr mp out].
    - lia.
    - rewrite Hb. symmetry. apply firstn_S_nth, Hn.
    - intros k r0. unfold del. destruct (Nat.eqb k (ctr s)); [discriminate|apply Hc].
    - intros k r0 Hin Hk. unfold del. destruct (Nat.eqb_spec k (ctr s)); [lia|]. apply Hd; [exact Hin|lia].
  Qed.

  (* every arrival carries the record of its index *)
  Definition correct (arr : list (nat * R)) : Prop := forall k r, In (k, r) arr -> nth_error recs k = Some r.

  Lemma arrive_inv seen s a :
    correct (seen ++ [a]) -> Inv seen s ->
    Inv (seen ++ [a]) (arrive n s a) /\ mp (arrive n s a) (ctr (arrive n s a)) = None.
  Proof.
    intros Hc (Ha & Hb & Hm & Hd). unfold arrive. apply drain_inv; cbn [ctr mp out]; [|lia].
    destruct a as [k0 r0]. cbn [fst snd].
    assert (H0 : nth_error recs k0 = Some r0) by (apply Hc, in_or_app; right; left; reflexivity).
    repeat split; cbn [ctr mp out]; try assumption.
    - intros k r. unfold put. destruct (Nat.eqb_spec k k0); [intros [= <-]; subst; exact H0|apply Hm].
    - intros k r Hin Hk. unfold put. apply in_app_or in Hin. destruct (Nat.eqb_spec k k0) as [->|Hne].
      + f_equal. assert (Hr : nth_error recs k0 = Some r).
        { apply Hc. apply in_or_app. destruct Hin as [Hin|[Hin|[]]]; [left; exact Hin|right; left; exact Hin]. }
        rewrite H0 in Hr. injection Hr as ->. reflexivity.
      + destruct Hin as [Hin|[Hin|[]]]; [apply Hd; assumption|injection Hin as -> ->; contradiction].
  Qed.

  Theorem reorder_writer_any_arrival arr :
    correct arr ->                                   (* arrivals are records of the input, with their index *)
    (forall k, k < n -> exists r, In (k, r) arr) ->   (* every index arrives (at least once) *)
    run n arr = recs.
  Proof.
    intros Hc Hall. unfold run.
    assert (H : forall seen rest s, seen ++ rest = arr -> Inv seen s -> (seen = [] \/ mp s (ctr s) = None) ->
                Inv arr (fold_left (arrive n) rest s) /\
                (arr = [] \/ mp (fold_left (arrive n) rest s) (ctr (fold_left (arrive n) rest s)) = None)).
    { intros seen rest; revert seen; induction rest as [|a rest IH]; intros seen s He Hi Hn; cbn [fold_left].
      - rewrite app_nil_r in He. subst. split; [exact Hi|]. destruct Hn; [left|right]; assumption.
      - assert (Hc' : correct (seen ++ [a])).
        { intros k r Hin. apply Hc. rewrite <- He. apply in_app_or in Hin. apply in_or_app.
          destruct Hin as [Hin|[Hin|[]]]; [left; exact Hin|right; left; exact Hin]. }
        destruct (arrive_inv seen s a Hc' Hi) as [Hi' Hn'].
        apply (IH (seen ++ [a])); [rewrite <- app_assoc; exact He|exact Hi'|right; exact Hn']. }
    destruct (H [] arr init eq_refl) as [(Ha & Hb & Hm & Hd) Hn].
    { unfold Inv, init; cbn [ctr out mp]. split; [lia|]. split; [reflexivity|]. split.
      - intros k r H0. unfold empty in H0. discriminate H0.
      - intros k r Hin. contradiction. }
    { left; reflexivity. }
    set (s := fold_left (arrive n) arr init) in *.
    assert (Hctr : ctr s = n).
    { destruct (Nat.eq_dec (ctr s) n) as [|Hne]; [assumption|exfalso].
      assert (Hlt : ctr s < n) by lia. destruct (Hall _ Hlt) as [r Hin].
      destruct Hn as [->|Hn]; [contradiction|]. rewrite (Hd _ _ Hin (le_n _)) in Hn. discriminate. }
    rewrite Hb, Hctr. apply firstn_all.
  Qed.

End Reorder.
Print Assumptions reorder_writer_any_arrival.
