(* Writers.v — C19: a writer function as a sequence of write events, each issued at a call site that either
   checks the result of the write (and then returns / reports the error) or drops it. *)
From Coq Require Import List Arith Lia Bool.
Import ListNotations.

Inductive outcome := Success | Failure.

(* run: events = the call sites (checked?) hit by the run, in order; fails k = the k-th write call (0-based) fails *)
Fixpoint run_from (k : nat) (events : list bool) (fails : nat -> bool) : outcome :=
  match events with
  | [] => Success
  | checked :: t => if fails k && checked then Failure else run_from (S k) t fails
  end.
Definition run := run_from 0.

(* if every call site checks its write, a failure of ANY write of the run makes the run fail: exit status 0
   implies every write was accepted *)
Lemma checked_from events : forall base fails, forallb (fun c => c) events = true ->
  (exists k, k < length events /\ fails (base + k) = true) -> run_from base events fails = Failure.
Proof.
  induction events as [|c t IH]; intros base fails Hall (k & Hk & Hf); [cbn in Hk; lia|].
  cbn [forallb] in Hall. apply andb_true_iff in Hall as [Hc Ht]. subst c. cbn [run_from].
  destruct (fails base) eqn:E; [reflexivity|]. cbn [andb].
  destruct k as [|k]; [rewrite Nat.add_0_r in Hf; congruence|].
  apply IH; [exact Ht|]. exists k. split; [cbn in Hk; lia|]. replace (S base + k) with (base + S k) by lia. exact Hf.
Qed.
Theorem checked_sites_propagate_fault events fails : forallb (fun c => c) events = true ->
  (exists k, k < length events /\ fails k = true) -> run events fails = Failure.
Proof. intros H (k & Hk & Hf). apply checked_from; [exact H|]. exists k. auto. Qed.

(* conversely a dropped site hides a failure: the run that only fails there still succeeds *)
Theorem dropped_site_hides_fault pre post : forallb (fun c => c) (pre ++ post) = true ->
  run (pre ++ false :: post) (fun k => Nat.eqb k (length pre)) = Success.
Proof.
  unfold run. intros H.
  assert (Q : forall post base f, (forall j, f (base + j) = false) -> run_from base post f = Success).
  { induction post0 as [|c t IH]; intros base f Hf; [reflexivity|]. cbn [run_from]. specialize (Hf 0) as H0. rewrite Nat.add_0_r in H0.
    rewrite H0. cbn [andb]. apply IH. intros j. replace (S base + j) with (base + S j) by lia. apply Hf. }
  assert (R : forall pre base, run_from base (pre ++ false :: post) (fun k => Nat.eqb k (base + length pre)) = Success).
  { induction pre0 as [|c t IH]; intros base; cbn [app run_from length].
    - rewrite andb_false_r. apply Q. intros j. apply Nat.eqb_neq. lia.
    - destruct (Nat.eqb_spec base (base + S (length t))); [lia|]. cbn [andb].
      replace (base + S (length t)) with (S base + length t) by lia. apply IH. }
  apply (R pre 0).
Qed.
