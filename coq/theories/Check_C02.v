From GF Require Import Base FastaModel Cigar SamModel TopaModel Harness.
Open Scope N_scope.
(* case: (reference file, @SQ name, records, wrap, start, end, omit-reference, skip-insertions,
          serialised files expected by the statement-level oracle, observation) *)
Definition check_C02 (c : list N * list N * list srec * nat * Z * Z * bool * bool * option (list N) * gores) : N :=
  let '(ref_file, refname, recs, w, ts, te, omit_ref, omit_ins, expect, g) := c in
  let model := match topa_cmd ref_file refname recs w ts te omit_ref omit_ins with
               | Ok l => Ok (ser_files l) | Err e => Err e | Panic => Panic end in
  let spec := match expect with Some e => agree g (Ok e) | None => true end in
  verdict_p g model spec.
