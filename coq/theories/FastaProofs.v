(* FastaProofs.v — theorems about the reader model of FastaModel.v (C16, used by every
   command-level theorem). *)
From GF Require Import Base Alphabet Symbols FastaModel.
Open Scope N_scope.

(* ---------- totality: the reader never panics, on any input whatsoever ---------- *)
Lemma step_no_panic conv s l : step conv true s l <> Panic.
Proof.
  unfold step, header, bind. destruct l as [|c d]; [discriminate|].
  destruct (first s); destruct (c =? 62); try discriminate.
  - destruct (first_field d); discriminate.
  - destruct (_ && _); [discriminate|]. destruct (first_field d); discriminate.
  - destruct (conv_line conv (c :: d)); discriminate.
Qed.

Lemma run_no_panic conv ls : forall s, run conv true s ls <> Panic.
Proof.
  induction ls as [|l t IH]; intros s; cbn [run]; [discriminate|].
  pose proof (step_no_panic conv s l). unfold bind. destruct (step conv true s l); [apply IH|discriminate|contradiction].
Qed.

Theorem read_lines_never_panics conv ls : read_lines conv true ls <> Panic.
Proof.
  unfold read_lines, bind. pose proof (run_no_panic conv ls (init)) as H.
  destruct (run conv true init ls) as [s| |]; [|discriminate|contradiction].
  unfold finish. repeat match goal with |- context [if ?b then _ else _] => destruct b end; discriminate.
Qed.

Theorem reader_never_panics conv file : read conv true file <> Panic.
Proof. apply read_lines_never_panics. Qed.

(* the pinned snapshot did panic: a blank line after the first header, or a header with no ID *)
Example reader_panics_refuted :
  read (fun c => Some c) false (bs ">a" ++ [10] ++ bs "AC" ++ [10;10] ++ bs "GT" ++ [10]) = Panic /\
  read (fun c => Some c) false (bs ">" ++ [10] ++ bs "AC" ++ [10]) = Panic.
Proof. split; vm_compute; reflexivity. Qed.

(* ---------- the reader only looks at conv on the bytes of the file ---------- *)
Lemma conv_line_ext f g l : (forall c, In c l -> f c = g c) -> conv_line f l = conv_line g l.
Proof.
  induction l as [|c t IH]; intros H; [reflexivity|]. cbn [conv_line].
  rewrite (H c (or_introl eq_refl)), IH; [reflexivity|]. intros; apply H; right; assumption.
Qed.

Lemma step_ext f g rep s l : (forall c, In c l -> f c = g c) -> step f rep s l = step g rep s l.
Proof. intros H. unfold step. destruct l as [|c d]; [reflexivity|]. rewrite (conv_line_ext f g (c :: d) H). reflexivity. Qed.

Lemma run_ext f g rep ls : Forall (fun l => forall c, In c l -> f c = g c) ls ->
  forall s, run f rep s ls = run g rep s ls.
Proof.
  induction 1 as [|l t Hl Ht IH]; intros s; cbn [run]; [reflexivity|].
  rewrite (step_ext f g rep s l Hl). unfold bind. destruct (step g rep s l); [apply IH|reflexivity|reflexivity].
Qed.

Lemma drop_cr_rev_In rcur c : In c (drop_cr_rev rcur) -> In c rcur.
Proof.
  rewrite !drop_cr_rev_spec. destruct rcur as [|x r]; [intros []|].
  destruct (N.eqb_spec x 13) as [->|Hx].
  - intros H. right. apply in_rev. exact H.
  - assert (E : match x with 13 => rev r | _ => rev (x :: r) end = rev (x :: r)).
    { destruct x as [|p]; [reflexivity|]. do 4 (destruct p as [p|p|]; try reflexivity). congruence. }
    rewrite E. intros H. apply in_rev. exact H.
Qed.

Lemma scan_aux_In file : forall rcur l c, In l (scan_aux rcur file) -> In c l -> In c rcur \/ In c file.
Proof.
  induction file as [|x t IH]; intros rcur l c Hl Hc; cbn [scan_aux] in Hl.
  - destruct rcur; [contradiction|]. destruct Hl as [<-|[]]. left. apply drop_cr_rev_In. exact Hc.
  - destruct (x =? 10).
    + destruct Hl as [<-|Hl]; [left; apply drop_cr_rev_In; exact Hc|].
      destruct (IH [] l c Hl Hc) as [[]|H]. right; right; exact H.
    + destruct (IH (x :: rcur) l c Hl Hc) as [[->|H]|H]; [right; left; reflexivity|left; exact H|right; right; exact H].
Qed.

Lemma scan_lines_In file l c : In l (scan_lines file) -> In c l -> In c file.
Proof. intros Hl Hc. destruct (scan_aux_In file [] l c Hl Hc) as [[]|H]. exact H. Qed.

Theorem read_ext f g rep file : (forall c, In c file -> f c = g c) -> read f rep file = read g rep file.
Proof.
  intros H. unfold read, read_lines. rewrite (run_ext f g rep (scan_lines file)); [reflexivity|].
  apply Forall_forall. intros l Hl c Hc. apply H. eapply scan_lines_In; eassumption.
Qed.

(* ---------- mapping the symbols: a reader whose conversion is g after conv returns the
   records of the conv reader with g applied to every sequence symbol ---------- *)
Definition map_rcd (g : N -> N) (r : rcd) : rcd :=
  {| r_id := r_id r; r_desc := r_desc r; r_seq := map g (r_seq r); r_idx := r_idx r |}.
Definition map_res {A B} (f : A -> B) (r : res A) : res B :=
  match r with Ok a => Ok (f a) | Err e => Err e | Panic => Panic end.
Definition map_st (g : N -> N) (s : st) : st :=
  {| first := first s; cid := cid s; cdesc := cdesc s; buf := map g (buf s); width := width s;
     counter := counter s; out := map (map_rcd g) (out s) |}.

Section MapConv.
  Variable conv : N -> option N.
  Variable g : N -> N.
  Definition conv' (c : N) : option N := option_map g (conv c).

  Lemma conv_line_map l : conv_line conv' l = option_map (map g) (conv_line conv l).
  Proof.
    induction l as [|c t IH]; [reflexivity|]. cbn [conv_line]. rewrite IH. unfold conv'.
    destruct (conv c), (conv_line conv t); reflexivity.
  Qed.

  Lemma step_map rep s l : step conv' rep (map_st g s) l = map_res (map_st g) (step conv rep s l).
  Proof.
    unfold step. destruct l as [|c d].
    - destruct rep; [reflexivity|]. cbn [map_st first]. destruct (first s); reflexivity.
    - cbn [map_st first counter buf width]. rewrite map_length. rewrite conv_line_map.
      destruct (first s).
      + destruct (c =? 62); [|reflexivity]. unfold header, bind. destruct (first_field d); [reflexivity|]. destruct rep; reflexivity.
      + destruct (c =? 62).
        * destruct (_ && _); [reflexivity|]. unfold header, bind.
          destruct (first_field d); [|destruct rep; reflexivity].
          cbn [map_res]. unfold map_st. cbn [first cid cdesc buf width counter out map].
          rewrite map_app. cbn [map map_rcd r_id r_desc r_seq r_idx]. reflexivity.
        * destruct (conv_line conv (c :: d)); [|reflexivity]. cbn [option_map map_res].
          unfold map_st. cbn [first cid cdesc buf width counter out]. rewrite map_app. reflexivity.
  Qed.

  Lemma run_map rep ls : forall s, run conv' rep (map_st g s) ls = map_res (map_st g) (run conv rep s ls).
  Proof.
    induction ls as [|l t IH]; intros s; cbn [run]; [reflexivity|].
    rewrite step_map. unfold bind. destruct (step conv rep s l); cbn [map_res]; [apply IH|reflexivity|reflexivity].
  Qed.

  Lemma finish_map rep s : finish rep (map_st g s) = map_res (map (map_rcd g)) (finish rep s).
  Proof.
    unfold finish. cbn [map_st buf counter width out cid cdesc]. rewrite map_length.
    destruct (if rep then _ else _).
    - destruct (_ && _); [reflexivity|]. cbn [map_res]. rewrite map_app. reflexivity.
    - destruct (Nat.eqb (counter s) 0); reflexivity.
  Qed.

  Theorem read_map rep file : read conv' rep file = map_res (map (map_rcd g)) (read conv rep file).
  Proof.
    unfold read, read_lines. change (init) with (map_st g init) at 1.
    rewrite run_map. unfold bind. destruct (run conv rep init (scan_lines file)); cbn [map_res]; [apply finish_map|reflexivity|reflexivity].
  Qed.
End MapConv.

(* ---------- every sequence symbol of a returned record is a conv output ---------- *)
Section SeqInv.
  Variable conv : N -> option N.
  Variable P : N -> Prop.
  Hypothesis conv_P : forall c e, conv c = Some e -> P e.

  Lemma conv_line_P l e : conv_line conv l = Some e -> Forall P e.
  Proof.
    revert e. induction l as [|c t IH]; intros e H; cbn [conv_line] in H.
    - injection H as <-. constructor.
    - destruct (conv c) eqn:Ec; [|discriminate]. destruct (conv_line conv t) eqn:Et; [|discriminate].
      injection H as <-. constructor; [eapply conv_P; eassumption|apply IH; reflexivity].
  Qed.

  Definition st_P (s : st) : Prop := Forall P (buf s) /\ Forall (fun r => Forall P (r_seq r)) (out s).

  Lemma step_P rep s l s' : st_P s -> step conv rep s l = Ok s' -> st_P s'.
  Proof.
    intros [Hb Ho] H. unfold step in H. destruct l as [|c d].
    - destruct rep; [injection H as <-; split; assumption|]. destruct (first s); discriminate.
    - destruct (first s).
      + destruct (c =? 62); [|discriminate]. unfold header, bind in H. destruct (first_field d); [|destruct rep; discriminate].
        injection H as <-. split; [constructor|exact Ho].
      + destruct (c =? 62).
        * destruct (_ && _); [discriminate|]. unfold header, bind in H. destruct (first_field d); [|destruct rep; discriminate].
          injection H as <-. split; [constructor|]. cbn [out]. apply Forall_app. split; [exact Ho|]. constructor; [exact Hb|constructor].
        * destruct (conv_line conv (c :: d)) eqn:E; [|discriminate]. injection H as <-. split; [|exact Ho].
          cbn [buf]. apply Forall_app. split; [exact Hb|]. eapply conv_line_P; eassumption.
  Qed.

  Lemma run_P rep ls : forall s s', st_P s -> run conv rep s ls = Ok s' -> st_P s'.
  Proof.
    induction ls as [|l t IH]; intros s s' Hs H; cbn [run] in H; [injection H as <-; exact Hs|].
    unfold bind in H. destruct (step conv rep s l) eqn:E; try discriminate. eapply IH; [|exact H]. eapply step_P; eassumption.
  Qed.

  Theorem read_seq_P rep file recs : read conv rep file = Ok recs -> Forall (fun r => Forall P (r_seq r)) recs.
  Proof.
    unfold read, read_lines, bind. destruct (run conv rep init (scan_lines file)) as [s| |] eqn:E; try discriminate.
    assert (Hs : st_P s) by (eapply run_P; [|exact E]; split; constructor).
    destruct Hs as [Hb Ho]. unfold finish. destruct (if rep then _ else _).
    - destruct (_ && _); [discriminate|]. intros H; injection H as <-. apply Forall_app. split; [exact Ho|]. constructor; [exact Hb|constructor].
    - destruct (Nat.eqb (counter s) 0); [discriminate|]. intros H; injection H as <-. exact Ho.
  Qed.
End SeqInv.

(* ---------- the encoding readers are the validity-only reader followed by encoding ---------- *)
Lemma valid_lt c : valid c = true -> c < 256.
Proof.
  intros H. destruct (N.ltb_spec c 256) as [|Hge]; [assumption|exfalso].
  unfold valid, denote, upper in H.
  replace ((97 <=? c) && (c <=? 122)) with false in H
    by (symmetry; apply andb_false_iff; right; apply N.leb_gt; lia).
  destruct c as [|p]; [lia|].
  do 8 (destruct p as [p|p|]; try (exfalso; lia)); cbn in H; discriminate.
Qed.

Lemma conv_enc_raw h c : c < 256 -> conv_enc h c = conv' conv_raw (enc h) c.
Proof.
  intros Hc. unfold conv_enc, conv', conv_raw. pose proof (enc_valid_iff h c Hc) as [H1 H2].
  destruct (valid c) eqn:V; cbn [option_map].
  - destruct (N.eqb_spec (enc h c) 0) as [E|E]; [exfalso; apply (H2 eq_refl); exact E|reflexivity].
  - destruct (N.eqb_spec (enc h c) 0) as [E|E]; [reflexivity|]. specialize (H1 E). discriminate.
Qed.

Lemma read_encoded_raw h file : Forall (fun c => c < 256) file ->
  read_encoded h file = map_res (map (map_rcd (enc h))) (read conv_raw true file).
Proof.
  intros Hf. unfold read_encoded. rewrite <- read_map. apply read_ext.
  intros c Hc. apply conv_enc_raw. rewrite Forall_forall in Hf. apply Hf. exact Hc.
Qed.

Lemma conv_raw_valid c e : conv_raw c = Some e -> e < 256 /\ valid e = true.
Proof.
  unfold conv_raw. destruct (valid c) eqn:V; [|discriminate]. intros H; injection H as <-.
  split; [apply valid_lt|]; assumption.
Qed.

