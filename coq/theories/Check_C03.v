From GF Require Import Base Alphabet SymbolsDef FastaModel SnpsModel Harness.
Definition check_C03 (c : bool * list N * list N * gores) : N :=
  let '(h, ref, aln, g) := c in verdict g (snps_cmd h ref aln) (snps_spec_cmd h ref aln).
