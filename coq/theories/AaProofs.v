(* AaProofs.v — C04: the codon loop of one coding feature as a function of its codons.  For every feature (strand,
   joined segments: any position list), every pair of rows and every length, getAAsPair emits, codon by codon, either one
   aa: record - exactly when the query codon (on the feature's strand) has a dictionary product that is neither 'X' nor
   the reference residue - carrying the codon's SNPs, or else the codon's SNPs as nuc: records. *)
From Coq Require Import Floats.SpecFloat.
From GF Require Import Base Alphabet Symbols FastaModel Float TopK CodonModel CodonProofs Indels VariantsModel VariantsProofs.
From GFgen Require Import Tables.
Open Scope N_scope.

Section AA.
  Variables (ref que : list N) (r2m : list nat) (g : region).

  Definition rsym (p : nat) : N := nth (align_pos r2m p) ref 0.
  Definition qsym (p : nat) : N := nth (align_pos r2m p) que 0.
  Definition snp_at (p : nat) : list variant :=
    if N.land (qsym p) (rsym p) <? 16 then [mk_nuc (dec (rsym p)) (dec (qsym p)) p] else [].
  Definition strand (c : list N) : list N := if g_rev g then complement c else c.
  Definition aa_lookup (codon : list N) : list N :=
    match dict codon_tab (strand codon) with Some v => v | None => [88] end.
  Definition codon_out_gen (k : nat) (snps : list variant) (codon : list N) (p3 : nat) (ra : N) : list traced :=
    let aa := aa_lookup codon in
    if negb (list_eqb aa [ra]) && negb (list_eqb aa [88]) then
      [({| v_kind := KAA; v_pos := (Z.of_nat p3 - 2 * (if g_rev g then -1 else 1))%Z; v_refal := [ra]; v_queal := aa;
           v_residue := S k; v_feature := g_name g; v_len := 0; v_snps := join [59] (map nuc_text snps) |},
        map (fun v => Z.to_nat (v_pos v)) snps)]
    else map trace_nuc snps.
  Definition codon_out (k p1 p2 p3 : nat) (ra : N) : list traced :=
    codon_out_gen k (snp_at p1 ++ snp_at p2 ++ snp_at p3) (dec (qsym p1) ++ dec (qsym p2) ++ dec (qsym p3)) p3 ra.
  (* SPEC of the loop: codons are consecutive triples of the feature's position list; residue k+1 is compared with the
     k-th residue of the feature's reference translation; a missing reference residue is the code's index panic *)
  Fixpoint codon_spec (k : nat) (P : list nat) : option (list traced) :=
    match P with
    | p1 :: p2 :: p3 :: rest =>
        match nth_error (g_trans g) k with
        | None => None
        | Some ra => option_map (app (codon_out k p1 p2 p3 ra)) (codon_spec (S k) rest)
        end
    | _ => Some []
    end.

  Lemma step_mid s p : a_panic s = false -> (nth (align_pos r2m p) ref 0 =? 244) = false -> Nat.eqb (S (a_cc s)) 3 = false ->
    aa_step ref que r2m g s p =
    {| a_snps := a_snps s ++ snp_at p; a_codon := a_codon s ++ dec (qsym p); a_cc := S (a_cc s); a_aa := a_aa s;
       a_out := a_out s; a_panic := false |}.
  Proof.
    intros Hp Hr Hc. unfold aa_step. rewrite Hp, Hr, Hc. unfold snp_at, qsym, rsym.
    destruct (N.land _ _ <? 16); [reflexivity|rewrite app_nil_r; reflexivity].
  Qed.
  Lemma step_last s p : a_panic s = false -> (nth (align_pos r2m p) ref 0 =? 244) = false -> a_cc s = 2%nat ->
    aa_step ref que r2m g s p =
    match nth_error (g_trans g) (a_aa s) with
    | None => {| a_snps := a_snps s ++ snp_at p; a_codon := a_codon s ++ dec (qsym p); a_cc := a_cc s; a_aa := a_aa s;
                 a_out := a_out s; a_panic := true |}
    | Some ra => {| a_snps := []; a_codon := []; a_cc := 0; a_aa := S (a_aa s);
                    a_out := a_out s ++ codon_out_gen (a_aa s) (a_snps s ++ snp_at p) (a_codon s ++ dec (qsym p)) p ra;
                    a_panic := false |}
    end.
  Proof.
    intros Hp Hr Hc. unfold aa_step. rewrite Hp, Hr, Hc. cbn [Nat.eqb].
    assert (E : (if N.land (nth (align_pos r2m p) que 0) (nth (align_pos r2m p) ref 0) <? 16
                 then a_snps s ++ [mk_nuc (dec (nth (align_pos r2m p) ref 0)) (dec (nth (align_pos r2m p) que 0)) p] else a_snps s)
                = a_snps s ++ snp_at p).
    { unfold snp_at, qsym, rsym. destruct (N.land _ _ <? 16); [reflexivity|rewrite app_nil_r; reflexivity]. }
    rewrite E. destruct (nth_error (g_trans g) (a_aa s)) as [ra|]; [|reflexivity].
    unfold codon_out_gen, aa_lookup, strand, qsym. destruct (negb _ && negb _); reflexivity.
  Qed.
  Lemma fold_panic P : forall s, a_panic s = true -> fold_left (aa_step ref que r2m g) P s = s.
  Proof. induction P as [|p t IH]; intros s H; [reflexivity|]. cbn [fold_left]. unfold aa_step at 2. rewrite H. apply IH, H. Qed.

  Theorem aa_fold_spec : forall P k o, (forall p, In p P -> (nth (align_pos r2m p) ref 0 =? 244) = false) ->
    let s := fold_left (aa_step ref que r2m g) P {| a_snps := []; a_codon := []; a_cc := 0; a_aa := k; a_out := o; a_panic := false |} in
    match codon_spec k P with
    | Some l => a_panic s = false /\ a_out s = o ++ l
    | None => a_panic s = true
    end.
  Proof.
    intros P. remember (length P) as n eqn:Hn. revert P Hn. induction n as [n IH] using lt_wf_ind. intros P Hn k o Hng.
    destruct P as [|p1 [|p2 [|p3 rest]]].
    - cbn. split; [reflexivity|rewrite app_nil_r; reflexivity].
    - cbn [fold_left codon_spec]. rewrite (step_mid _ p1) by (try reflexivity; apply Hng; left; reflexivity).
      cbn. split; [reflexivity|rewrite app_nil_r; reflexivity].
    - cbn [fold_left codon_spec]. rewrite (step_mid _ p1) by (try reflexivity; apply Hng; left; reflexivity).
      rewrite (step_mid _ p2) by (try reflexivity; apply Hng; right; left; reflexivity).
      cbn. split; [reflexivity|rewrite app_nil_r; reflexivity].
    - cbn [fold_left codon_spec]. rewrite (step_mid _ p1) by (try reflexivity; apply Hng; left; reflexivity).
      rewrite (step_mid _ p2) by (try reflexivity; apply Hng; right; left; reflexivity).
      rewrite (step_last _ p3) by (try reflexivity; apply Hng; right; right; left; reflexivity).
      cbn [a_snps a_codon a_cc a_aa a_out a_panic app].
      destruct (nth_error (g_trans g) k) as [ra|].
      + assert (Hl : (length rest < n)%nat) by (subst n; cbn [length]; lia).
        specialize (IH (length rest) Hl rest eq_refl (S k)
                      (o ++ codon_out_gen k ((snp_at p1 ++ snp_at p2) ++ snp_at p3) ((dec (qsym p1) ++ dec (qsym p2)) ++ dec (qsym p3)) p3 ra)
                      (fun p Hp => Hng p (or_intror (or_intror (or_intror Hp))))).
        cbv zeta in IH. destruct (codon_spec (S k) rest) as [l|]; cbn [option_map]; [|exact IH].
        destruct IH as [H1 H2]. split; [exact H1|]. rewrite H2. unfold codon_out. rewrite <- !app_assoc. reflexivity.
      + rewrite fold_panic by reflexivity. reflexivity.
  Qed.

  Theorem codon_loop_spec : (forall p, In p (g_pos g) -> (nth (align_pos r2m p) ref 0 =? 244) = false) ->
    get_aas_traced ref que r2m g = match codon_spec 0 (g_pos g) with Some l => Ok l | None => Panic end.
  Proof.
    intros Hng. unfold get_aas_traced. pose proof (aa_fold_spec (g_pos g) 0%nat [] Hng) as H. cbv zeta in H. fold aa_init in H.
    destruct (codon_spec 0 (g_pos g)) as [l|]; [destruct H as [-> ->]; reflexivity|rewrite H; reflexivity].
  Qed.

  (* what the loop emits, codon by codon: j-th codon = positions 3j, 3j+1, 3j+2 of the list, residue j+1 *)
  Lemma codon_spec_In : forall P k l x, codon_spec k P = Some l ->
    (In x l <-> exists j ra, (3 * j + 2 < length P)%nat /\ nth_error (g_trans g) (k + j) = Some ra /\
                            In x (codon_out (k + j) (nth (3 * j) P 0%nat) (nth (3 * j + 1) P 0%nat) (nth (3 * j + 2) P 0%nat) ra)).
  Proof.
    intros P. remember (length P) as n eqn:Hn. revert P Hn. induction n as [n IH] using lt_wf_ind. intros P Hn k l x H. subst n.
    assert (Hshort : (length P < 3)%nat -> Some (@nil (variant * list nat)) = Some l ->
              (In x l <-> exists j ra, (3 * j + 2 < length P)%nat /\ nth_error (g_trans g) (k + j) = Some ra /\
                            In x (codon_out (k + j) (nth (3 * j) P 0%nat) (nth (3 * j + 1) P 0%nat) (nth (3 * j + 2) P 0%nat) ra))).
    { intros Hlen E. injection E as <-. split; [intros []|intros (j & ra & Hj & _); lia]. }
    destruct P as [|p1 [|p2 [|p3 rest]]]; cbn [codon_spec] in H;
      [apply Hshort; [cbn; lia|exact H]|apply Hshort; [cbn; lia|exact H]|apply Hshort; [cbn; lia|exact H]|]. clear Hshort.
    destruct (nth_error (g_trans g) k) as [ra|] eqn:Era; [|discriminate].
    destruct (codon_spec (S k) rest) as [l'|] eqn:El; [|discriminate]. cbn [option_map] in H. injection H as <-.
    assert (Hl : (length rest < length (p1 :: p2 :: p3 :: rest))%nat) by (cbn [length]; lia).
    specialize (IH (length rest) Hl rest eq_refl (S k) l' x El). rewrite in_app_iff, IH. split.
    - intros [Hx|(j & ra' & Hj & Hr & Hx)].
      + exists 0%nat, ra. rewrite Nat.add_0_r. cbn [length Nat.mul Nat.add nth]. split; [lia|split; [exact Era|exact Hx]].
      + exists (S j), ra'. cbn [length]. split; [lia|]. split; [rewrite <- Hr; f_equal; lia|].
        replace (k + S j)%nat with (S k + j)%nat by lia.
        replace (3 * S j)%nat with (S (S (S (3 * j)))) by lia. cbn [nth Nat.add]. exact Hx.
    - intros (j & ra' & Hj & Hr & Hx). destruct j as [|j].
      + left. rewrite Nat.add_0_r in *. cbn [Nat.mul Nat.add nth] in Hx. rewrite Era in Hr. injection Hr as <-. exact Hx.
      + right. exists j, ra'. cbn [length] in Hj. split; [lia|]. split; [rewrite <- Hr; f_equal; lia|].
        replace (k + S j)%nat with (S k + j)%nat in Hx by lia.
        replace (3 * S j)%nat with (S (S (S (3 * j)))) in Hx by lia. cbn [nth Nat.add] in Hx. exact Hx.
  Qed.

  Lemma trace_nuc_kind v p : In v (snp_at p) -> v_kind v = KNuc.
  Proof. unfold snp_at. destruct (N.land _ _ <? 16); [intros [<-|[]]; reflexivity|intros []]. Qed.
  (* an aa: record comes out of a codon exactly when the query codon's dictionary product is neither X nor the
     reference residue; and then it is that one record *)
  Lemma codon_out_aa k p1 p2 p3 ra x : In x (codon_out k p1 p2 p3 ra) /\ v_kind (fst x) = KAA <->
    (let aa := aa_lookup (dec (qsym p1) ++ dec (qsym p2) ++ dec (qsym p3)) in
     aa <> [ra] /\ aa <> [88] /\ codon_out k p1 p2 p3 ra = [x] /\ v_kind (fst x) = KAA /\ v_queal (fst x) = aa /\ v_refal (fst x) = [ra] /\
     v_residue (fst x) = S k /\ v_feature (fst x) = g_name g).
  Proof.
    cbv zeta. unfold codon_out, codon_out_gen. set (aa := aa_lookup _). set (snps := snp_at p1 ++ snp_at p2 ++ snp_at p3).
    destruct (list_eqb aa [ra]) eqn:E1; [|destruct (list_eqb aa [88]) eqn:E2]; cbn [negb andb].
    - apply list_eqb_eq in E1. split; [|intros (H & _); contradiction].
      intros [Hin Hk]. exfalso. apply in_map_iff in Hin. destruct Hin as (v & <- & Hv). cbn [fst trace_nuc] in Hk.
      unfold snps in Hv. rewrite !in_app_iff in Hv. destruct Hv as [Hv|[Hv|Hv]]; apply trace_nuc_kind in Hv; congruence.
    - apply list_eqb_eq in E2. split; [|intros (_ & H & _); contradiction].
      intros [Hin Hk]. exfalso. apply in_map_iff in Hin. destruct Hin as (v & <- & Hv). cbn [fst trace_nuc] in Hk.
      unfold snps in Hv. rewrite !in_app_iff in Hv. destruct Hv as [Hv|[Hv|Hv]]; apply trace_nuc_kind in Hv; congruence.
    - assert (N1 : aa <> [ra]) by (intros H; apply list_eqb_eq in H; congruence).
      assert (N2 : aa <> [88]) by (intros H; apply list_eqb_eq in H; congruence).
      split.
      + intros [[<-|[]] _]. cbn [fst v_kind v_queal v_refal v_residue v_feature]. repeat split; assumption.
      + intros (_ & _ & H & Hk & _). rewrite H. split; [left; reflexivity|exact Hk].
  Qed.

  Theorem aa_records_exact out : (forall p, In p (g_pos g) -> (nth (align_pos r2m p) ref 0 =? 244) = false) ->
    get_aas_traced ref que r2m g = Ok out -> forall x,
    (In x out /\ v_kind (fst x) = KAA <->
     exists j ra, (3 * j + 2 < length (g_pos g))%nat /\ nth_error (g_trans g) j = Some ra /\
       let p1 := nth (3 * j) (g_pos g) 0%nat in let p2 := nth (3 * j + 1) (g_pos g) 0%nat in let p3 := nth (3 * j + 2) (g_pos g) 0%nat in
       let aa := aa_lookup (dec (qsym p1) ++ dec (qsym p2) ++ dec (qsym p3)) in
       aa <> [ra] /\ aa <> [88] /\ codon_out j p1 p2 p3 ra = [x] /\ v_kind (fst x) = KAA /\ v_queal (fst x) = aa /\ v_refal (fst x) = [ra] /\
       v_residue (fst x) = S j /\ v_feature (fst x) = g_name g).
  Proof.
    intros Hng H x. rewrite (codon_loop_spec Hng) in H. destruct (codon_spec 0 (g_pos g)) as [l|] eqn:E; [|discriminate].
    injection H as <-. rewrite (codon_spec_In (g_pos g) 0%nat l x E). cbn [Nat.add]. split.
    - intros [(j & ra & Hj & Hr & Hx) Hk]. exists j, ra. split; [exact Hj|split; [exact Hr|]]. apply codon_out_aa. split; assumption.
    - intros (j & ra & Hj & Hr & Hx). apply codon_out_aa in Hx. destruct Hx as [Hx Hk]. split; [|exact Hk].
      exists j, ra. split; [exact Hj|split; [exact Hr|exact Hx]].
  Qed.
End AA.

(* ---------- the dictionary product is the standard genetic code ---------- *)
Lemma dict_In (t : list (list N * list N)) k v : dict t k = Some v -> exists k', In (k', v) t /\ k = k'.
Proof.
  induction t as [|[k' v'] r IH]; [discriminate|]. cbn [dict]. destruct (list_eqb k k') eqn:E.
  - intros H. injection H as <-. apply list_eqb_eq in E. exists k'. split; [left; reflexivity|exact E].
  - intros H. destruct (IH H) as (k'' & Hin & Hk). exists k''. split; [right; exact Hin|exact Hk].
Qed.
Lemma existsb_eqb_In a l : existsb (N.eqb a) l = true -> In a l.
Proof. intros H. apply existsb_exists in H. destruct H as (x & Hx & E). apply N.eqb_eq in E. subst. exact Hx. Qed.
Lemma dict_key_iupac k v : dict codon_tab k = Some v ->
  exists c1 c2 c3, k = [c1; c2; c3] /\ In c1 iupac15 /\ In c2 iupac15 /\ In c3 iupac15.
Proof.
  intros H. apply dict_In in H. destruct H as (k' & Hin & ->). pose proof sweep_dict_keys_ok as S. unfold sweep_dict_keys in S.
  rewrite forallb_forall in S. specialize (S _ Hin). cbn [fst] in S.
  destruct k' as [|a [|b [|c [|? ?]]]]; try discriminate. apply andb_true_iff in S. destruct S as [S S3].
  apply andb_true_iff in S. destruct S as [S1 S2]. exists a, b, c. split; [reflexivity|].
  repeat split; apply existsb_eqb_In; assumption.
Qed.

Theorem aa_lookup_is_genetic_code (g : region) (c : list N) (b : N) : b <> 88 ->
  (aa_lookup g c = [b] <->
   exists c1 c2 c3, strand g c = [c1; c2; c3] /\ In c1 iupac15 /\ In c2 iupac15 /\ In c3 iupac15 /\
                    unique_product c1 c2 c3 = Some b).
Proof.
  intros Hb. unfold aa_lookup. split.
  - destruct (dict codon_tab (strand g c)) as [v|] eqn:E; [|intros H; injection H as H; congruence].
    intros ->. destruct (dict_key_iupac _ _ E) as (c1 & c2 & c3 & Hk & H1 & H2 & H3). exists c1, c2, c3.
    split; [exact Hk|]. repeat split; try assumption. rewrite Hk in E.
    change (dict codon_tab [c1; c2; c3]) with (codon_aa c1 c2 c3) in E. rewrite (codon_table_sound_complete c1 c2 c3 H1 H2 H3) in E.
    destruct (unique_product c1 c2 c3) as [u|]; [|discriminate]. cbn in E. congruence.
  - intros (c1 & c2 & c3 & Hk & H1 & H2 & H3 & Hu). rewrite Hk. change (dict codon_tab [c1; c2; c3]) with (codon_aa c1 c2 c3).
    rewrite (codon_table_sound_complete c1 c2 c3 H1 H2 H3), Hu. reflexivity.
Qed.

Lemma aa_lookup_single (g : region) (c : list N) : exists b, aa_lookup g c = [b].
Proof.
  unfold aa_lookup. destruct (dict codon_tab (strand g c)) as [v|] eqn:E; [|exists 88; reflexivity].
  destruct (dict_key_iupac _ _ E) as (c1 & c2 & c3 & Hk & H1 & H2 & H3). rewrite Hk in E.
  change (dict codon_tab [c1; c2; c3]) with (codon_aa c1 c2 c3) in E. rewrite (codon_table_sound_complete c1 c2 c3 H1 H2 H3) in E.
  destruct (unique_product c1 c2 c3) as [u|]; [|discriminate]. cbn in E. injection E as <-. exists u. reflexivity.
Qed.

(* the reference residues the GFF path computes (strict translation of the feature's reference bases): residue k is the
   unique product of the k-th reference codon *)
Lemma strict_codons_nth cs : forall tr, spec_translate_codons true cs = Ok tr ->
  forall k a b c, nth_error cs k = Some (a, b, c) -> exists v, unique_product a b c = Some v /\ nth_error tr k = Some v.
Proof.
  induction cs as [|[[a0 b0] c0] t IH]; intros tr H k a b c Hk; [destruct k; discriminate|].
  cbn [spec_translate_codons] in H. destruct (unique_product a0 b0 c0) as [v0|] eqn:E0; [|discriminate].
  destruct (spec_translate_codons true t) as [r| |] eqn:Er; try discriminate. cbn [bind] in H. injection H as <-.
  destruct k as [|k]; cbn [nth_error] in *.
  - injection Hk as <- <- <-. exists v0. split; [exact E0|reflexivity].
  - apply (IH r eq_refl k a b c Hk).
Qed.
Theorem reference_residues_are_code nuc tr : Forall (fun c => In c iupac15) nuc -> translate true nuc = Ok tr ->
  exists cs, codons (length nuc) nuc = Some cs /\
    forall k a b c, nth_error cs k = Some (a, b, c) -> exists v, unique_product a b c = Some v /\ nth_error tr k = Some v.
Proof.
  intros Hn H. rewrite (translate_spec true nuc Hn) in H. unfold spec_translate in H.
  destruct (codons (length nuc) nuc) as [cs|]; [|discriminate]. exists cs. split; [reflexivity|]. apply strict_codons_nth, H.
Qed.
