(* Properties_C16.v — C16: FASTA reading is layout-independent, strict, total and the same in every reader. *)
From GF Require Import Base Alphabet Symbols FastaModel FastaProofs FastaLayout.
Open Scope N_scope.

(* Any byte stream is either read or rejected with an error: never a panic (and, the model being a
   terminating function, never a hang) *)
Theorem C16_reader_never_panics : forall conv file, read conv true file <> Panic.
Proof. exact reader_never_panics. Qed.
Print Assumptions C16_reader_never_panics.

(* Layout independence, file level: records laid out with ANY chunking of the sequence into lines
   (blank chunks included) and ANY choice of LF / CRLF per line are read back as exactly those records
   (ID = first whitespace-delimited token, description = whole header, sequence = converted
   concatenation of the chunks, index = position). *)
Theorem C16_reader_layout_independent : forall conv w first_rec rest (eols : list bool),
  conv 62 = None -> (0 < w)%nat -> wf conv w first_rec -> Forall (wf conv w) rest ->
  Forall ok_line (flat_map lines_of (first_rec :: rest)) ->
  length eols = length (flat_map lines_of (first_rec :: rest)) ->
  read conv true (render (combine (flat_map lines_of (first_rec :: rest)) eols))
  = Ok (index_recs conv 0 (first_rec :: rest)).
Proof. exact reader_layout_independent. Qed.
Print Assumptions C16_reader_layout_independent.

(* the last line may lack its newline *)
Theorem C16_scan_nofinal : forall ls l, Forall (fun le => ok_line (fst le)) ls -> ok_line l -> l <> [] ->
  scan_lines (render ls ++ l) = map fst ls ++ [l].
Proof. exact scan_render_nofinal. Qed.
Print Assumptions C16_scan_nofinal.

(* letter case of a sequence line never matters to the encoding readers *)
Theorem C16_case_insensitive : forall h l l', Forall (fun c => c < 256) l -> Forall (fun c => c < 256) l' ->
  map upper l = map upper l' -> conv_line (conv_enc h) l = conv_line (conv_enc h) l'.
Proof. exact conv_enc_case. Qed.
Print Assumptions C16_case_insensitive.

(* the plain-text reader agrees with the encoding readers *)
Theorem C16_readers_agree : forall h file recs, Forall (fun c => c < 256) file ->
  read_encoded h file = Ok recs -> read_plain file = Ok (map (map_rcd dec1) recs).
Proof. exact readers_agree. Qed.
Print Assumptions C16_readers_agree.

(* the encoding readers reject exactly what the Alphabet calls invalid, and otherwise return the
   records of the validity-only reader with every symbol encoded *)
Theorem C16_strict : forall h file, Forall (fun c => c < 256) file ->
  read_encoded h file = map_res (map (map_rcd (enc h))) (read conv_raw true file).
Proof. exact read_encoded_raw. Qed.
Print Assumptions C16_strict.

(* completeness score and A/C/G/T counts of the scoring reader are those of the sequence *)
Theorem C16_score_counts : forall s, Forall (fun c => c < 256 /\ valid c = true) s ->
  seq_score (map (enc false) s) = sum_Z (map card_score s) /\
  count_eq 136 (map (enc false) s) = length (filter (fun c => upper c =? 65) s) /\
  count_eq 24 (map (enc false) s) = length (filter (fun c => upper c =? 84) s) /\
  count_eq 72 (map (enc false) s) = length (filter (fun c => upper c =? 71) s) /\
  count_eq 40 (map (enc false) s) = length (filter (fun c => upper c =? 67) s).
Proof. exact score_counts_correct. Qed.
Print Assumptions C16_score_counts.

(* the pinned snapshot violated the first theorem (D7): kept as a refuted witness of the old reader *)
Theorem C16_old_reader_panics_refuted :
  read (fun c => Some c) false (bs ">a" ++ [10] ++ bs "AC" ++ [10;10] ++ bs "GT" ++ [10]) = Panic /\
  read (fun c => Some c) false (bs ">" ++ [10] ++ bs "AC" ++ [10]) = Panic.
Proof. exact reader_panics_refuted. Qed.
Print Assumptions C16_old_reader_panics_refuted.

Example C16_example :
  read_encoded false (bs ">s1 d" ++ [13;10;10] ++ bs "ac" ++ [10] ++ bs "G-" ++ [10] ++ bs ">s2" ++ [10] ++ bs "NNNN")
  = Ok [ {| r_id := bs "s1"; r_desc := bs "s1 d"; r_seq := [136;40;72;244]; r_idx := 0 |};
         {| r_id := bs "s2"; r_desc := bs "s2"; r_seq := [240;240;240;240]; r_idx := 1 |} ].
Proof. vm_compute. reflexivity. Qed.
