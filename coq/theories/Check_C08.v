From Coq Require Import Floats.SpecFloat.
From GF Require Import Base Alphabet SymbolsDef FastaModel SnpsModel UpdownListModel Float TopK Balance TopRankModel Harness.
Open Scope N_scope.
(* case: (options, reference, query, target files, observation) *)
Definition mk_opts (table : bool) (ignore : list (list N)) (sz : Z * Z * Z * Z * Z) (ds : Z * Z * Z * Z)
           (thr : N * Z * Z) (threshtarg : Z) (nofill : bool) (distpush : Z) : tropts :=
  let '(st, su, sd, ss, sm) := sz in let '(da, du, dd, dsd) := ds in let '(k, m, e) := thr in
  {| o_table := table; o_ignore := ignore; o_sizetotal := st; o_sizeup := su; o_sizedown := sd; o_sizeside := ss; o_sizesame := sm;
     o_distall := da; o_distup := du; o_distdown := dd; o_distside := dsd; o_thresh := f32_norm k m e; o_threshtarg := threshtarg;
     o_nofill := nofill; o_distpush := distpush |}.
Definition check_C08 (c : tropts * list N * list N * list N * gores) : N :=
  let '(o, ref, qf, tf, g) := c in verdict_p g (topranking_cmd o ref qf tf) true.
