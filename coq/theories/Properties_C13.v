(* Properties_C13.v — C13: --aggregate frequencies are exactly the per-sequence results, counted. *)
From Coq Require Import Floats.SpecFloat.
From GF Require Import Base Alphabet SymbolsDef FastaModel Float TopK SnpsModel SnpsAggModel AggregateProofs.

(* The counting association list (the code's map, any key type with a deciding equality; instantiated by
   count_snp for snps and by count_key for variants): after all sequences, the count of a key is the
   total number of its occurrences in the per-sequence lists ... *)
Theorem C13_count_is_occurrences : forall (K : Type) (eqb : K -> K -> bool),
  (forall a b, eqb a b = true <-> a = b) -> forall ls k,
  cget K eqb k (fold_left (fun cs l => fold_left (fun cs x => cadd K eqb x cs) l cs) ls []) = total_occ K eqb k ls.
Proof. intros K eqb H ls k. exact (aggregate_counts K eqb H ls [] k). Qed.
Print Assumptions C13_count_is_occurrences.

(* ... which, the per-sequence lists being duplicate-free, is the number of sequences whose
   per-sequence output contains the mutation *)
Theorem C13_count_is_number_of_sequences : forall (K : Type) (eqb : K -> K -> bool),
  (forall a b, eqb a b = true <-> a = b) -> forall ls k, Forall (@NoDup K) ls ->
  total_occ K eqb k ls = length (filter (fun l => existsb (eqb k) l) ls).
Proof. intros K eqb H ls k. exact (aggregate_counts_sequences K eqb H ls k). Qed.
Print Assumptions C13_count_is_number_of_sequences.

(* each distinct mutation is listed once *)
Theorem C13_each_mutation_once : forall (K : Type) (eqb : K -> K -> bool),
  (forall a b, eqb a b = true <-> a = b) -> forall ls,
  keys_distinct K (fold_left (fun cs l => fold_left (fun cs x => cadd K eqb x cs) l cs) ls []).
Proof. intros K eqb H ls. apply (aggregate_keys_distinct K eqb H ls []). constructor. Qed.
Print Assumptions C13_each_mutation_once.

(* snps: the per-sequence lists are duplicate-free, the counter is the generic one, the output is sorted by
   (position, query allele) *)
Theorem C13_snps_lists_nodup : forall i r q, NoDup (get_snps_from i r q).
Proof. exact get_snps_from_nodup. Qed.
Print Assumptions C13_snps_lists_nodup.

Theorem C13_snps_counter_is_generic : forall k cs, count_snp k cs = cadd snp snp_eqb k cs.
Proof. exact count_snp_cadd. Qed.
Print Assumptions C13_snps_counter_is_generic.

Theorem C13_snps_ordered : forall counts, sorted (snp * nat) snp_lt (ssort (snp * nat) snp_lt counts).
Proof. exact snps_agg_ordered. Qed.
Print Assumptions C13_snps_ordered.

(* variants / sam variants: the aggregator's key (representation, position, kind, alleles, residue, feature, length) has
   a deciding equality, its counting list is the generic one on that key, so the two generic theorems above apply *)
From GF Require Import CodonModel Indels VariantsModel AggregateVariants.
Theorem C13_variants_counts : forall (mk : variant -> akey) (lists : list (list variant)) k,
  cget pkey pkey_eqb k (map pj (fold_left (fun cs l => fold_left (fun cs v => count_key (mk v) cs) l cs) lists [])) =
  total_occ pkey pkey_eqb k (map (map (fun v => akey_proj (mk v))) lists).
Proof. exact variants_aggregate_counts. Qed.
Print Assumptions C13_variants_counts.

Theorem C13_variants_each_mutation_once : forall (mk : variant -> akey) (lists : list (list variant)),
  keys_distinct pkey (map pj (fold_left (fun cs l => fold_left (fun cs v => count_key (mk v) cs) l cs) lists [])).
Proof. exact variants_aggregate_once. Qed.
Print Assumptions C13_variants_each_mutation_once.
