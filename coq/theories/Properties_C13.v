(* Properties_C13.v — C13: --aggregate frequencies are exactly the per-sequence results, counted. *)
From Coq Require Import Floats.SpecFloat.
From GF Require Import Base Alphabet SymbolsDef FastaModel Float TopK SnpsModel SnpsAggModel AggregateProofs.

(* The counting association list (the code's map, any key type with a deciding equality; instantiated by
   count_snp for snps and by count_key for variants): after all sequences, the count of a key is the
   total number of its occurrences in the per-sequence lists ... *)
Theorem C13_count_is_occurrences : forall (K : Type) (eqb : K -> K -> bool),
  (forall a b, eqb a b = true <-> a = b) -> forall ls k,
  cget K eqb k (fold_left (fun cs l => fold_left (fun cs x => cadd K eqb x cs) l cs) ls []) = total_occ K eqb k ls.
Proof. intros K eqb H ls k. exact (aggregate_counts K eqb H ls [] k). Qed.
Print Assumptions C13_count_is_occurrences.

(* ... which, the per-sequence lists being duplicate-free, is the number of sequences whose
   per-sequence output contains the mutation *)
Theorem C13_count_is_number_of_sequences : forall (K : Type) (eqb : K -> K -> bool),
  (forall a b, eqb a b = true <-> a = b) -> forall ls k, Forall (@NoDup K) ls ->
  total_occ K eqb k ls = length (filter (fun l => existsb (eqb k) l) ls).
Proof. intros K eqb H ls k. exact (aggregate_counts_sequences K eqb H ls k). Qed.
Print Assumptions C13_count_is_number_of_sequences.

(* each distinct mutation is listed once *)
Theorem C13_each_mutation_once : forall (K : Type) (eqb : K -> K -> bool),
  (forall a b, eqb a b = true <-> a = b) -> forall ls,
  keys_distinct K (fold_left (fun cs l => fold_left (fun cs x => cadd K eqb x cs) l cs) ls []).
Proof. intros K eqb H ls. apply (aggregate_keys_distinct K eqb H ls []). constructor. Qed.
Print Assumptions C13_each_mutation_once.

(* snps: the per-sequence lists are duplicate-free, the counter is the generic one, the output is sorted by
   (position, query allele) *)
Theorem C13_snps_lists_nodup : forall i r q, NoDup (get_snps_from i r q).
Proof. exact get_snps_from_nodup. Qed.
Print Assumptions C13_snps_lists_nodup.

Theorem C13_snps_counter_is_generic : forall k cs, count_snp k cs = cadd snp snp_eqb k cs.
Proof. exact count_snp_cadd. Qed.
Print Assumptions C13_snps_counter_is_generic.

Theorem C13_snps_ordered : forall counts, sorted (snp * nat) snp_lt (ssort (snp * nat) snp_lt counts).
Proof. exact snps_agg_ordered. Qed.
Print Assumptions C13_snps_ordered.

(* variants / sam variants: the aggregator's key (representation, position, kind, alleles, residue, feature, length) has
   a deciding equality, its counting list is the generic one on that key, so the two generic theorems above apply *)
From GF Require Import CodonModel Indels VariantsModel AggregateVariants.
Theorem C13_variants_counts : forall (mk : variant -> akey) (lists : list (list variant)) k,
  cget pkey pkey_eqb k (map pj (fold_left (fun cs l => fold_left (fun cs v => count_key (mk v) cs) l cs) lists [])) =
  total_occ pkey pkey_eqb k (map (map (fun v => akey_proj (mk v))) lists).
Proof. exact variants_aggregate_counts. Qed.
Print Assumptions C13_variants_counts.

Theorem C13_variants_each_mutation_once : forall (mk : variant -> akey) (lists : list (list variant)),
  keys_distinct pkey (map pj (fold_left (fun cs l => fold_left (fun cs v => count_key (mk v) cs) l cs) lists [])).
Proof. exact variants_aggregate_once. Qed.
Print Assumptions C13_variants_each_mutation_once.

(* ---- the whole table, declaratively ---- *)
(* snps: before the threshold the table is sorted, lists each SNP once, and contains exactly the pairs
   (SNP, number of sequences whose per-sequence list contains it) with that number >= 1 *)
Theorem C13_snps_table : forall lists : list (list snp), Forall (@NoDup snp) lists ->
  let S := ssort (snp * nat) snp_lt (fold_left (fun cs l => fold_left (fun cs s => count_snp s cs) l cs) lists []) in
  sorted (snp * nat) snp_lt S /\ NoDup (map fst S) /\
  forall k c, In (k, c) S <-> (0 < c)%nat /\ c = length (filter (fun l => existsb (snp_eqb k) l) lists).
Proof. exact snps_agg_table. Qed.
Print Assumptions C13_snps_table.

(* (the lists the command counts are duplicate-free, so the theorem applies to every run) *)
Theorem C13_snps_command_lists_nodup : forall refseq recs ls, snps_lists refseq recs = Ok ls -> Forall (@NoDup snp) ls.
Proof. exact snps_lists_nodup. Qed.
Print Assumptions C13_snps_command_lists_nodup.

(* the printed rows are the table rows whose frequency count/n (float64) is not below the threshold, in table order,
   each printed as SNP,frequency to 9 decimals *)
Theorem C13_snps_rows_spec : forall thr lists,
  let n := length lists in
  let freq (kn : snp * nat) := f64_div_Z (Z.of_nat (snd kn)) (Z.of_nat n) in
  snps_agg_rows thr lists =
  concat (map (fun kn => snp_bytes (fst kn) ++ [44%N] ++ fmt_f9 (freq kn) ++ [NL])
              (filter (fun kn => negb (f64_ltb (freq kn) thr))
                      (ssort (snp * nat) snp_lt (fold_left (fun cs l => fold_left (fun cs s => count_snp s cs) l cs) lists [])))).
Proof. exact snps_agg_rows_spec. Qed.
Print Assumptions C13_snps_rows_spec.

(* variants / sam variants: the same table on the aggregator's key *)
Theorem C13_variants_table : forall (mk : variant -> akey) (lists : list (list variant)),
  Forall (@NoDup pkey) (map (map (fun v => akey_proj (mk v))) lists) -> forall k c,
  In (k, c) (map pj (fold_left (fun cs l => fold_left (fun cs v => count_key (mk v) cs) l cs) lists [])) <->
  (0 < c)%nat /\ c = length (filter (fun l => existsb (pkey_eqb k) l) (map (map (fun v => akey_proj (mk v))) lists)).
Proof. exact variants_aggregate_table. Qed.
Print Assumptions C13_variants_table.

(* ordered by the aggregator's key, whose first component is the genomic position: positions never decrease down the list *)
Theorem C13_variants_sorted : forall counts : list (akey * nat),
  sorted (akey * nat) (fun a b => akey_lt (fst a) (fst b)) (ssort (akey * nat) (fun a b => akey_lt (fst a) (fst b)) counts).
Proof. exact variants_agg_sorted. Qed.
Print Assumptions C13_variants_sorted.
Theorem C13_variants_positions_ascending : forall counts : list (akey * nat),
  Sorted.StronglySorted (fun a b => (v_pos (k_v (fst a)) <= v_pos (k_v (fst b)))%Z)
                        (ssort (akey * nat) (fun a b => akey_lt (fst a) (fst b)) counts).
Proof. exact variants_agg_positions_ascending. Qed.
Print Assumptions C13_variants_positions_ascending.

Theorem C13_variants_rows_spec : forall append_snp s e thr refid recs,
  let qs := filter (fun nv => negb (list_eqb (fst nv) refid)) recs in
  let n := length qs in
  let freq (kn : akey * nat) := f64_div_Z (Z.of_nat (snd kn)) (Z.of_nat n) in
  let counts := fold_left (fun cs nv =>
                  fold_left (fun cs v => count_key {| k_v := v; k_rep := format_variant append_snp v |} cs)
                            (filter (in_window s e) (snd nv)) cs) qs [] in
  aggregate_rows append_snp s e thr refid recs =
  concat (map (fun kn => k_rep (fst kn) ++ [44%N] ++ fmt_f9 (freq kn) ++ [NL])
              (filter (fun kn => negb (f64_ltb (freq kn) thr))
                      (ssort (akey * nat) (fun a b => akey_lt (fst a) (fst b)) counts))).
Proof. exact aggregate_rows_spec. Qed.
Print Assumptions C13_variants_rows_spec.

(* the per-sequence lists that variants / sam variants count are duplicate-free for every annotation (C04_no_record_twice, repair
   D20), so "count" is "number of sequences" whenever the aggregator's key separates what the per-sequence record separates *)
From GF Require Import VariantsProofs AaUniq.
Theorem C13_variants_lists_nodup : forall ref que gs inter out, variants_pair_traced ref que gs inter = Ok out -> NoDup (map fst out).
Proof. exact final_list_nodup. Qed.
Print Assumptions C13_variants_lists_nodup.
