(* PairInsProofs.v — C02, last clause: in the gap columns of the reference row the query row carries the inserted bases,
   in order (blocks whose insertions start at pairwise distinct reference positions). *)
From GF Require Import Base Alphabet SymbolsDef FastaModel Cigar SamModel SamProofs TopaModel TopaProofs PairProofs.
Open Scope nat_scope.

(* the query row restricted to the columns where the reference row has '-' *)
Definition cproj (R Q : list N) : list N := map snd (filter (fun rq : N * N => (fst rq =? 45)%N) (combine R Q)).
Lemma cproj_app R1 R2 Q1 Q2 : length R1 = length Q1 -> cproj (R1 ++ R2) (Q1 ++ Q2) = cproj R1 Q1 ++ cproj R2 Q2.
Proof. intros H. unfold cproj. rewrite combine_app by exact H. rewrite filter_app, map_app. reflexivity. Qed.
Lemma cproj_gaps l : forall X, length X = l -> cproj (repeat 45%N l) X = X.
Proof. induction l as [|l IH]; intros [|x X] H; try discriminate; [reflexivity|]. unfold cproj in *. cbn. f_equal. apply IH. cbn in H. lia. Qed.
Lemma cproj_nogap R : forall Q, ~ In 45%N R -> cproj R Q = [].
Proof.
  induction R as [|c t IH]; intros [|x Q] Hn; try reflexivity. unfold cproj in *. cbn [combine filter fst].
  destruct (N.eqb_spec c 45) as [->|]; [exfalso; apply Hn; left; reflexivity|]. apply IH. intros Hin. apply Hn. right. exact Hin.
Qed.
Lemma cproj_map f R : forall Q, cproj R (map f Q) = map f (cproj R Q).
Proof.
  induction R as [|c t IH]; intros [|x Q]; try reflexivity. unfold cproj in *. cbn [map combine filter fst].
  destruct (c =? 45)%N; cbn [map snd]; rewrite IH; reflexivity.
Qed.

(* ---------- regap_row with its column made explicit ---------- *)
Definition ins_col (g0 : nat) (segs : list seg) (s : nat) : nat := match s with O => 0 | S s' => colof g0 segs s' + 1 end.
Definition ins_at (col l : nat) (q : list N) : list N := firstn col q ++ repeat 45%N l ++ skipn col q.
Lemma regap_row_val s l g0 segs q : wf_segs segs -> s <= length segs ->
  regap_row s l (flat g0 segs, q) = (ins_at (ins_col g0 segs s) l (flat g0 segs), ins_at (ins_col g0 segs s) l q).
Proof.
  intros Hwf Hs. unfold regap_row. destruct s as [|s'].
  - rewrite find_col_done by lia. cbn [Nat.ltb Nat.leb]. reflexivity.
  - unfold flat at 1. rewrite find_col_gaps by lia. rewrite (find_col_segs (S s') segs Hwf) by lia. cbn [Nat.add].
    replace (S s' - 0) with (S s') by lia. destruct (Nat.leb_spec (S s') (length segs)); [|lia].
    destruct (Nat.ltb_spec (S s') (S s')); [lia|]. replace (S s' - 1) with s' by lia. reflexivity.
Qed.
Lemma regap_row_val_far s l g0 segs q : wf_segs segs -> length segs < s -> regap_row s l (flat g0 segs, q) = (flat g0 segs, q).
Proof.
  intros Hwf Hs. unfold regap_row. destruct s as [|s']; [lia|].
  unfold flat at 1. rewrite find_col_gaps by lia. rewrite (find_col_segs (S s') segs Hwf) by lia. cbn [Nat.add].
  replace (S s' - 0) with (S s') by lia. destruct (Nat.leb_spec (S s') (length segs)); [lia|].
  destruct (Nat.ltb_spec (length segs) (S s')); [reflexivity|lia].
Qed.

(* ---------- rows as a leading run and (character, run) units; both rows of a pair have this form with equal run lengths ---------- *)
Definition unit := (N * list N)%type.
Definition ubody (us : list unit) : list N := concat (map (fun u : unit => fst u :: snd u) us).
Definition urow (r0 : list N) (us : list unit) : list N := r0 ++ ubody us.
Definition ucol (r0 : list N) (us : list unit) (s : nat) : nat :=
  match s with O => 0 | S s' => length r0 + length (ubody (firstn s' us)) + 1 end.
Definition ubump (l : nat) (r0 : list N) (us : list unit) (s : nat) : list N * list unit :=
  match s with
  | O => (repeat 45%N l ++ r0, us)
  | S s' => (r0, firstn s' us ++ (fst (nth s' us (0%N, [])), repeat 45%N l ++ snd (nth s' us (0%N, []))) :: skipn s us)
  end.
Lemma ubody_app a b : ubody (a ++ b) = ubody a ++ ubody b.
Proof. unfold ubody. rewrite map_app, concat_app. reflexivity. Qed.
Lemma ubody_cons c run t : ubody ((c, run) :: t) = c :: run ++ ubody t.
Proof. reflexivity. Qed.
Lemma urow_ins l r0 us s : s <= length us ->
  ins_at (ucol r0 us s) l (urow r0 us) = urow (fst (ubump l r0 us s)) (snd (ubump l r0 us s)).
Proof.
  intros Hs. unfold ins_at. destruct s as [|s']; cbn [ucol ubump fst snd].
  - cbn [firstn skipn app]. unfold urow. rewrite <- app_assoc. reflexivity.
  - destruct (nth s' us (0%N, [])) as [c run] eqn:En.
    assert (Esplit : us = firstn s' us ++ (c, run) :: skipn (S s') us) by (rewrite <- En; apply nth_split; lia).
    assert (Erow : urow r0 us = (r0 ++ ubody (firstn s' us) ++ [c]) ++ run ++ ubody (skipn (S s') us)).
    { unfold urow. rewrite Esplit at 1. rewrite ubody_app, ubody_cons. rewrite <- !app_assoc. reflexivity. }
    assert (Ecol : length r0 + length (ubody (firstn s' us)) + 1 = length (r0 ++ ubody (firstn s' us) ++ [c])).
    { rewrite !app_length. cbn [length]. lia. }
    rewrite Erow, Ecol, firstn_app, firstn_all, Nat.sub_diag, skipn_app, skipn_all, Nat.sub_diag. cbn [firstn skipn app]. rewrite app_nil_r.
    unfold urow. rewrite ubody_app, ubody_cons. rewrite <- !app_assoc. reflexivity.
Qed.

(* the reference row in unit form *)
Definition runits (segs : list seg) : list unit := map (fun s : seg => (fst s, repeat 45%N (snd s))) segs.
Lemma flat_urow g0 segs : flat g0 segs = urow (repeat 45%N g0) (runits segs).
Proof.
  unfold flat, urow. f_equal. unfold flat_segs, ubody, runits. rewrite map_map. reflexivity.
Qed.
Definition same_shape (r0 : list N) (us : list unit) (g0 : nat) (segs : list seg) : Prop :=
  length r0 = g0 /\ map (fun u : unit => length (snd u)) us = map snd segs.
Lemma shape_body us segs : map (fun u : unit => length (snd u)) us = map snd segs -> forall k, length (ubody (firstn k us)) = length (flat_segs (firstn k segs)).
Proof.
  revert segs. induction us as [|[cu ru] t IH]; intros [|[c g] segs] H k; try discriminate; [destruct k; reflexivity|].
  cbn [map snd] in H. injection H as H0 H. destruct k as [|k]; [reflexivity|]. cbn [firstn].
  rewrite flat_segs_cons, ubody_cons. cbn [length]. rewrite !app_length, repeat_length, H0, (IH segs H k). reflexivity.
Qed.
Lemma shape_col r0 us g0 segs s : same_shape r0 us g0 segs -> ucol r0 us s = ins_col g0 segs s.
Proof.
  intros [H0 H]. destruct s as [|s']; [reflexivity|]. cbn [ucol ins_col]. unfold colof. rewrite H0, (shape_body us segs H). reflexivity.
Qed.
Lemma shape_len (us : list unit) (segs : list seg) : map (fun u : unit => length (snd u)) us = map snd segs -> length us = length segs.
Proof. intros H. apply (f_equal (@length nat)) in H. rewrite !map_length in H. exact H. Qed.

(* one re-gapping step on a pair whose query row has the reference row's shape *)
Lemma regap_row_units s l g0 segs r0 us : wf_segs segs -> same_shape r0 us g0 segs ->
  regap_row s l (flat g0 segs, urow r0 us) =
  if s <=? length segs
  then (flat (fst (add_gap s l g0 segs)) (snd (add_gap s l g0 segs)), urow (fst (ubump l r0 us s)) (snd (ubump l r0 us s)))
  else (flat g0 segs, urow r0 us).
Proof.
  intros Hwf Hsh. destruct (Nat.leb_spec s (length segs)) as [Hle|Hgt]; [|apply regap_row_val_far; assumption].
  rewrite (regap_row_val s l g0 segs _ Hwf Hle). f_equal.
  - pose proof (regap_row_flat s l g0 segs (flat g0 segs) Hwf) as [H1 _]. rewrite (regap_row_val s l g0 segs _ Hwf Hle) in H1. exact H1.
  - rewrite <- (shape_col r0 us g0 segs s Hsh). apply urow_ins. rewrite (shape_len us segs (proj2 Hsh)). exact Hle.
Qed.

(* ---------- the canonical query row over a canonical reference row ---------- *)
(* qb k = the query character in the column of reference base k+1; G s = the query characters in the gap run after s bases *)
Definition qsegs (qb : nat -> N) (G : nat -> list N) (r n : nat) : list unit := map (fun k => (qb (r + k), G (r + k + 1))) (seq 0 n).
Definition qgrow (qb : nat -> N) (G : nat -> list N) (E : nat) : list N := urow (G 0) (qsegs qb G 0 E).
Definition gbump (G : nat -> list N) (s l : nat) : nat -> list N := fun x => if x =? s then repeat 45%N l ++ G x else G x.

Lemma qsegs_length qb G r n : length (qsegs qb G r n) = n.
Proof. unfold qsegs. rewrite map_length, seq_length. reflexivity. Qed.
Lemma qsegs_S qb G r n : qsegs qb G r (S n) = (qb r, G (r + 1)) :: qsegs qb G (S r) n.
Proof.
  unfold qsegs. cbn [seq map]. rewrite Nat.add_0_r. f_equal. rewrite <- seq_shift, map_map. apply map_ext. intros k.
  replace (r + S k) with (S r + k) by lia. reflexivity.
Qed.
Lemma qsegs_app qb G r n m : qsegs qb G r (n + m) = qsegs qb G r n ++ qsegs qb G (r + n) m.
Proof.
  revert r. induction n as [|n IH]; intros r; [cbn [Nat.add]; rewrite Nat.add_0_r; reflexivity|].
  cbn [Nat.add]. rewrite !qsegs_S, IH. cbn [app]. replace (S r + n) with (r + S n) by lia. reflexivity.
Qed.
Lemma qsegs_ext qb G G' r n : (forall x, r < x <= r + n -> G x = G' x) -> qsegs qb G r n = qsegs qb G' r n.
Proof. intros H. unfold qsegs. apply map_ext_in. intros k Hk. apply in_seq in Hk. rewrite H by lia. reflexivity. Qed.
Lemma qsegs_split qb G E s' : S s' <= E ->
  qsegs qb G 0 E = qsegs qb G 0 s' ++ (qb s', G (S s')) :: qsegs qb G (S s') (E - S s').
Proof.
  intros H. replace E with (s' + S (E - S s')) at 1 by lia. rewrite qsegs_app, qsegs_S. cbn [Nat.add].
  replace (s' + 1) with (S s') by lia. reflexivity.
Qed.
Lemma qgrow_bump qb G E s l : s <= E ->
  urow (fst (ubump l (G 0) (qsegs qb G 0 E) s)) (snd (ubump l (G 0) (qsegs qb G 0 E) s)) = qgrow qb (gbump G s l) E.
Proof.
  intros Hs. unfold qgrow. destruct s as [|s']; cbn [ubump fst snd].
  - unfold gbump at 1. cbn [Nat.eqb]. f_equal. apply qsegs_ext. intros x Hx. unfold gbump. destruct (Nat.eqb_spec x 0); [lia|reflexivity].
  - unfold gbump at 1. cbn [Nat.eqb]. f_equal.
    rewrite (qsegs_split qb (gbump G (S s') l) E s' Hs). rewrite (qsegs_split qb G E s' Hs).
    etransitivity; [exact (add_mid s' (qsegs qb G 0 s') (qb s', G (S s')) (qsegs qb G (S s') (E - S s')) (0%N, [])
                                     (fun y : unit => (fst y, repeat 45%N l ++ snd y)) (qsegs_length _ _ _ _))|]. cbn [fst snd].
    f_equal; [apply qsegs_ext; intros x Hx; unfold gbump; destruct (Nat.eqb_spec x (S s')); [lia|reflexivity]|].
    f_equal; [unfold gbump; rewrite Nat.eqb_refl; reflexivity|].
    apply qsegs_ext. intros x Hx. unfold gbump. destruct (Nat.eqb_spec x (S s')); [lia|reflexivity].
Qed.
Lemma qgrow_ext qb G G' E : (forall x, x <= E -> G x = G' x) -> qgrow qb G E = qgrow qb G' E.
Proof. intros H. unfold qgrow. rewrite (H 0) by lia. f_equal. apply qsegs_ext. intros x Hx. apply H. lia. Qed.

Lemma shape_grow ref I qb G E : (forall k, k <= E -> length (G k) = I k) ->
  same_shape (G 0) (qsegs qb G 0 E) (I 0) (gsegs ref I 0 E).
Proof.
  intros H. split; [apply H; lia|]. unfold qsegs, gsegs. rewrite !map_map. apply map_ext_in. intros k Hk. apply in_seq in Hk.
  cbn [snd]. apply H. lia.
Qed.

(* one re-gapping step on a canonical pair *)
Lemma regap_row_canon ref I qb G E s l : ~ In 45%N ref -> E <= length ref -> (forall k, k <= E -> length (G k) = I k) ->
  regap_row s l (grow ref I E, qgrow qb G E) = (grow ref (bump I s l) E, qgrow qb (gbump G s l) E).
Proof.
  intros Hng HE Hsh. unfold grow at 1. unfold qgrow at 1.
  rewrite (regap_row_units s l (I 0) (gsegs ref I 0 E) (G 0) (qsegs qb G 0 E) (gsegs_wf ref I 0 E Hng HE) (shape_grow ref I qb G E Hsh)).
  rewrite gsegs_length. destruct (Nat.leb_spec s E) as [Hle|Hgt].
  - rewrite grow_bump, qgrow_bump by exact Hle. reflexivity.
  - f_equal.
    + apply grow_ext. intros x Hx. unfold bump. destruct (Nat.eqb_spec x s); [lia|reflexivity].
    + apply qgrow_ext. intros x Hx. unfold gbump. destruct (Nat.eqb_spec x s); [lia|reflexivity].
Qed.

(* ---------- the re-gapping loop on canonical pairs ---------- *)
Section RegapQ.
  Variables (ref : list N) (E : nat -> nat) (qb : nat -> nat -> N) (n : nat).
  Hypothesis (Hng : ~ In 45%N ref) (HE : forall j, j < n -> E j <= length ref).

  Definition RowsQ (rows : list (list N * list N)) (I : nat -> nat -> nat) (G : nat -> nat -> list N) : Prop :=
    length rows = n /\
    forall j, j < n -> nth j rows dpair = (grow ref (I j) (E j), qgrow (qb j) (G j) (E j)) /\ (forall k, k <= E j -> length (G j k) = I j k).
  Definition stepG (G : nat -> nat -> list N) (i : nat * nat * nat) : nat -> nat -> list N :=
    let '(s, l, row) := i in fun j => if j =? row then G j else gbump (G j) s l.
  Lemma stepQ_inv rows I G i : RowsQ rows I G -> RowsQ (step_rows rows i) (stepF I i) (stepG G i).
  Proof.
    intros [Hl Hr]. destruct i as [[s l] row]. unfold step_rows, stepF, stepG. split; [rewrite mapi_from_length; exact Hl|].
    intros j Hj. rewrite (mapi_from_nth _ rows 0 j dpair dpair) by lia. cbn [Nat.add]. destruct (Hr j Hj) as [H1 H2].
    destruct (Nat.eqb_spec j row); [split; assumption|]. rewrite H1. split.
    - apply regap_row_canon; [exact Hng|apply HE, Hj|exact H2].
    - intros k Hk. unfold gbump, bump. destruct (k =? s); [rewrite app_length, repeat_length, H2 by exact Hk; reflexivity|apply H2, Hk].
  Qed.
  Fixpoint foldG (G : nat -> nat -> list N) (INS : list (nat * nat * nat)) : nat -> nat -> list N :=
    match INS with [] => G | i :: t => foldG (stepG G i) t end.
  Lemma regapQ_inv INS : forall rows I G, RowsQ rows I G -> RowsQ (regap rows INS) (foldF I INS) (foldG G INS).
  Proof.
    induction INS as [|i t IH]; intros rows I G H; [exact H|]. unfold regap. cbn [fold_left foldF foldG].
    change (RowsQ (regap (step_rows rows i) t) (foldF (stepF I i) t) (foldG (stepG G i) t)). apply IH, stepQ_inv, H.
  Qed.
  Lemma foldG_spec INS : forall G j x,
    foldG G INS j x = repeat 45%N (Iof (filter (fun i : nat * nat * nat => negb (snd i =? j)) INS) x) ++ G j x.
  Proof.
    induction INS as [|[[s l] row] t IH]; intros G j x; [reflexivity|]. cbn [foldG filter snd]. rewrite IH. unfold stepG.
    destruct (Nat.eqb_spec row j) as [->|Hn].
    - rewrite Nat.eqb_refl. cbn [negb]. reflexivity.
    - destruct (Nat.eqb_spec j row); [congruence|]. cbn [negb Iof]. unfold bump, gbump. destruct (x =? s); [|reflexivity].
      rewrite Nat.add_comm, repeat_app, <- app_assoc. reflexivity.
  Qed.
End RegapQ.

(* ---------- the inserted bases of a record, by start ---------- *)
Fixpoint insq (pos q : nat) (ops : list (op * nat)) (sq : list N) : list (nat * list N) :=
  match ops with
  | [] => []
  | (o, len) :: t =>
      (match o with OI => [(pos, firstn len (skipn q sq))] | _ => [] end) ++
      insq (match o with OM | OEq | OX | OD | ON => pos + len | _ => pos end)
           (match o with OM | OEq | OX | OI | OS => q + len | _ => q end) t sq
  end.
Definition Oof (L : list (nat * list N)) (k : nat) : list N := concat (map snd (filter (fun e : nat * list N => fst e =? k) L)).
Lemma Oof_nil L k : (forall e, In e L -> fst e <> k) -> Oof L k = [].
Proof.
  intros H. unfold Oof. induction L as [|e t IH]; [reflexivity|]. cbn [filter]. destruct (Nat.eqb_spec (fst e) k) as [E|E]; [exfalso; apply (H e); [left; reflexivity|exact E]|].
  apply IH. intros e' He'. apply H. right. exact He'.
Qed.
Lemma Oof_cons e L k : Oof (e :: L) k = (if fst e =? k then snd e else []) ++ Oof L k.
Proof. unfold Oof. cbn [filter]. destruct (fst e =? k); reflexivity. Qed.
Lemma insq_range ops : forall pos q sq e, In e (insq pos q ops sq) -> pos <= fst e <= pos + ref_span ops.
Proof.
  induction ops as [|[o len] t IH]; intros pos q sq e H; [contradiction|]. cbn [insq ref_span] in *. apply in_app_iff in H.
  destruct H as [H|H].
  - destruct o; try contradiction. destruct H as [<-|[]]. cbn [fst]. lia.
  - apply IH in H. destruct o; cbv beta iota in H |- *; lia.
Qed.

Lemma qsegs_ext_qb qb qb' G r n : (forall i, r <= i < r + n -> qb i = qb' i) -> qsegs qb G r n = qsegs qb' G r n.
Proof. intros H. unfold qsegs. apply map_ext_in. intros k Hk. apply in_seq in Hk. rewrite H by lia. reflexivity. Qed.
Lemma qzero_stretch qb G n : forall len r, (forall x, r <= x < r + len -> G x = []) ->
  G r ++ ubody (qsegs qb G r (len + n)) = map qb (seq r len) ++ G (r + len) ++ ubody (qsegs qb G (r + len) n).
Proof.
  induction len as [|len IH]; intros r Hz; [cbn [Nat.add seq map app]; rewrite Nat.add_0_r; reflexivity|].
  rewrite (Hz r) by lia. cbn [app Nat.add seq map]. rewrite qsegs_S, ubody_cons. f_equal.
  replace (r + 1) with (S r) by lia. rewrite (IH (S r)) by (intros x Hx; apply Hz; lia).
  replace (S r + len) with (r + S len) by lia. reflexivity.
Qed.
Lemma map_const_seq {A} (c : A) r len : map (fun _ => c) (seq r len) = repeat c len.
Proof. revert r; induction len as [|len IH]; intros r; [reflexivity|]. cbn. rewrite IH. reflexivity. Qed.

Lemma map_nth_seq_id (a : list N) : forall r, map (fun i => nth (i - r) a 0%N) (seq r (length a)) = a.
Proof.
  induction a as [|c t IH]; intros r; [reflexivity|]. cbn [length seq map]. rewrite Nat.sub_diag. cbn [nth]. f_equal.
  transitivity (map (fun i => nth (i - S r) t 0%N) (seq (S r) (length t))); [|apply IH].
  apply map_ext_in. intros i Hi. apply in_seq in Hi. replace (i - r) with (S (i - S r)) by lia. reflexivity.
Qed.
(* the query side of the paired walk, in unit form over the same insertion table *)
Lemma walk2_x ops : forall q r sq ref x y, walk2 true ops q r sq ref = Some (x, y) ->
  exists qb, x = Oof (insq r q ops sq) r ++ ubody (qsegs qb (Oof (insq r q ops sq)) r (ref_span ops)).
Proof.
  induction ops as [|[o len] t IH]; intros q r sq ref x y H; cbn [walk2 ref_span insq] in *.
  - injection H as <- <-. exists (fun _ => 0%N). reflexivity.
  - assert (STEP : forall a x' L', length a = len ->
              (exists qb', x' = Oof L' (r + len) ++ ubody (qsegs qb' (Oof L') (r + len) (ref_span t))) ->
              (forall e, In e L' -> r + len <= fst e) ->
              exists qb, a ++ x' = Oof L' r ++ ubody (qsegs qb (Oof L') r (len + ref_span t))).
    { intros a x' L' Ha (qb' & ->) Hge. exists (fun i => if i <? r + len then nth (i - r) a 0%N else qb' i).
      rewrite qzero_stretch by (intros s Hs; apply Oof_nil; intros e He; specialize (Hge e He); lia). f_equal.
      - symmetry. transitivity (map (fun i => nth (i - r) a 0%N) (seq r (length a))); [|apply map_nth_seq_id].
        rewrite Ha. apply map_ext_in. intros i Hi. apply in_seq in Hi. destruct (Nat.ltb_spec i (r + len)); [reflexivity|lia].
      - f_equal. f_equal. apply qsegs_ext_qb. intros i Hi. destruct (Nat.ltb_spec i (r + len)); [lia|reflexivity]. }
    destruct o; cbn [app].
    + destruct (slice sq q len) as [a|] eqn:Ea; [|discriminate]. destruct (slice ref r len) as [b|]; [|discriminate].
      destruct (walk2 true t (q + len) (r + len) sq ref) as [[x' y']|] eqn:Ew; [|discriminate]. injection H as <- <-.
      apply STEP; [exact (slice_length _ _ _ _ Ea)|apply (IH _ _ _ _ _ _ Ew)|intros e He; apply insq_range in He; lia].
    + destruct (slice sq q len) as [a|] eqn:Ea; [|discriminate].
      destruct (walk2 true t (q + len) r sq ref) as [[x' y']|] eqn:Ew; [|discriminate]. injection H as <- <-.
      destruct (IH _ _ _ _ _ _ Ew) as (qb' & ->). exists qb'. destruct (slice_is _ _ _ _ Ea) as [-> _].
      rewrite Oof_cons. cbn [fst snd]. rewrite Nat.eqb_refl, <- app_assoc. f_equal. f_equal. f_equal.
      apply qsegs_ext. intros s Hs. rewrite Oof_cons. cbn [fst]. destruct (Nat.eqb_spec r s); [lia|reflexivity].
    + destruct (slice ref r len) as [b|]; [|discriminate].
      destruct (walk2 true t q (r + len) sq ref) as [[x' y']|] eqn:Ew; [|discriminate]. injection H as <- <-.
      apply STEP; [apply repeat_length|apply (IH _ _ _ _ _ _ Ew)|intros e He; apply insq_range in He; lia].
    + destruct (slice ref r len) as [b|]; [|discriminate].
      destruct (walk2 true t q (r + len) sq ref) as [[x' y']|] eqn:Ew; [|discriminate]. injection H as <- <-.
      apply STEP; [apply repeat_length|apply (IH _ _ _ _ _ _ Ew)|intros e He; apply insq_range in He; lia].
    + apply (IH _ _ _ _ _ _ H).
    + apply (IH _ _ _ _ _ _ H).
    + apply (IH _ _ _ _ _ _ H).
    + destruct (slice sq q len) as [a|] eqn:Ea; [|discriminate]. destruct (slice ref r len) as [b|]; [|discriminate].
      destruct (walk2 true t (q + len) (r + len) sq ref) as [[x' y']|] eqn:Ew; [|discriminate]. injection H as <- <-.
      apply STEP; [exact (slice_length _ _ _ _ Ea)|apply (IH _ _ _ _ _ _ Ew)|intros e He; apply insq_range in He; lia].
    + destruct (slice sq q len) as [a|] eqn:Ea; [|discriminate]. destruct (slice ref r len) as [b|]; [|discriminate].
      destruct (walk2 true t (q + len) (r + len) sq ref) as [[x' y']|] eqn:Ew; [|discriminate]. injection H as <- <-.
      apply STEP; [exact (slice_length _ _ _ _ Ea)|apply (IH _ _ _ _ _ _ Ew)|intros e He; apply insq_range in He; lia].
Qed.

(* run lengths: the inserted bases of a start are as many as the insertion table says *)
Lemma walk2_Oof_len row ops : forall q r sq ref x y, walk2 true ops q r sq ref = Some (x, y) ->
  forall k, length (Oof (insq r q ops sq) k) = Iof (ins_of_cigar row r ops) k.
Proof.
  induction ops as [|[o len] t IH]; intros q r sq ref x y H k; cbn [walk2 insq ins_of_cigar] in *; [reflexivity|].
  destruct o; cbn [app].
  + destruct (slice sq q len) as [a|]; [|discriminate]. destruct (slice ref r len) as [b|]; [|discriminate].
    destruct (walk2 true t (q + len) (r + len) sq ref) as [[x' y']|] eqn:Ew; [|discriminate]. apply (IH _ _ _ _ _ _ Ew).
  + destruct (slice sq q len) as [a|] eqn:Ea; [|discriminate].
    destruct (walk2 true t (q + len) r sq ref) as [[x' y']|] eqn:Ew; [|discriminate].
    rewrite Oof_cons, app_length, (IH _ _ _ _ _ _ Ew k). cbn [fst snd Iof]. unfold bump. rewrite (Nat.eqb_sym k r).
    destruct (r =? k); [|reflexivity]. destruct (slice_is _ _ _ _ Ea) as [Eq _]. rewrite <- Eq, (slice_length _ _ _ _ Ea). reflexivity.
  + destruct (slice ref r len) as [b|]; [|discriminate].
    destruct (walk2 true t q (r + len) sq ref) as [[x' y']|] eqn:Ew; [|discriminate]. apply (IH _ _ _ _ _ _ Ew).
  + destruct (slice ref r len) as [b|]; [|discriminate].
    destruct (walk2 true t q (r + len) sq ref) as [[x' y']|] eqn:Ew; [|discriminate]. apply (IH _ _ _ _ _ _ Ew).
  + apply (IH _ _ _ _ _ _ H).
  + apply (IH _ _ _ _ _ _ H).
  + apply (IH _ _ _ _ _ _ H).
  + destruct (slice sq q len) as [a|]; [|discriminate]. destruct (slice ref r len) as [b|]; [|discriminate].
    destruct (walk2 true t (q + len) (r + len) sq ref) as [[x' y']|] eqn:Ew; [|discriminate]. apply (IH _ _ _ _ _ _ Ew).
  + destruct (slice sq q len) as [a|]; [|discriminate]. destruct (slice ref r len) as [b|]; [|discriminate].
    destruct (walk2 true t (q + len) (r + len) sq ref) as [[x' y']|] eqn:Ew; [|discriminate]. apply (IH _ _ _ _ _ _ Ew).
Qed.

Definition rec_insq (rc : srec) : list (nat * list N) := insq (s_pos rc) 0 (s_cigar rc) (s_seq rc).
Theorem one_line_canon row rc ref qrow rrow : one_line_plus_ref true rc ref = Some (qrow, rrow) ->
  exists qb, qrow = qgrow qb (Oof (rec_insq rc)) (rec_E rc) /\ forall k, length (Oof (rec_insq rc) k) = Iof (rec_ins row rc) k.
Proof.
  intros H. unfold one_line_plus_ref in H. destruct (Nat.ltb_spec (length ref) (s_pos rc)); [discriminate|].
  destruct (walk2 true (s_cigar rc) 0 (s_pos rc) (s_seq rc) ref) as [[x y]|] eqn:Ew; [|discriminate]. injection H as <- <-.
  destruct (walk2_x _ _ _ _ _ _ _ Ew) as (qb & Hx). fold (rec_insq rc) in Hx.
  exists (fun i => if i <? s_pos rc then 42%N else qb i). split; [|intros k; apply (walk2_Oof_len row _ _ _ _ _ _ _ Ew)].
  unfold qgrow, urow, rec_E. rewrite (qzero_stretch _ (Oof (rec_insq rc)) (ref_span (s_cigar rc)) (s_pos rc) 0).
  - cbn [Nat.add]. rewrite Hx. f_equal.
    + rewrite <- (map_const_seq 42%N 0 (s_pos rc)). apply map_ext_in. intros i Hi. apply in_seq in Hi.
      destruct (Nat.ltb_spec i (s_pos rc)); [reflexivity|lia].
    + f_equal. f_equal. apply qsegs_ext_qb. intros i Hi. destruct (Nat.ltb_spec i (s_pos rc)); [lia|reflexivity].
  - intros s Hs. apply Oof_nil. intros e He. apply insq_range in He. lia.
Qed.

(* ---------- reading the gap runs of a row ---------- *)
Definition urun (r0 : list N) (us : list unit) (k : nat) : list N := match k with O => r0 | S k' => snd (nth k' us (0%N, [])) end.
Lemma urow_run_nth r0 us k t d : k <= length us -> t < length (urun r0 us k) ->
  nth (ucol r0 us k + t) (urow r0 us) d = nth t (urun r0 us k) d.
Proof.
  intros Hk Ht. destruct k as [|k']; cbn [ucol urun] in *.
  - unfold urow. rewrite app_nth1 by exact Ht. reflexivity.
  - destruct (nth k' us (0%N, [])) as [c run] eqn:En. cbn [snd] in *.
    assert (Esplit : us = firstn k' us ++ (c, run) :: skipn (S k') us) by (rewrite <- En; apply nth_split; lia).
    unfold urow. rewrite Esplit at 2. rewrite ubody_app, ubody_cons.
    rewrite app_nth2 by lia. rewrite app_nth2 by lia.
    replace (length r0 + length (ubody (firstn k' us)) + 1 + t - length r0 - length (ubody (firstn k' us))) with (S t) by lia.
    cbn [nth]. rewrite app_nth1 by exact Ht. reflexivity.
Qed.
Lemma urow_length r0 us : length (urow r0 us) = length r0 + length (ubody us).
Proof. unfold urow. apply app_length. Qed.

(* the gap columns of a reference row, run by run *)
Definition runlen (g0 : nat) (segs : list seg) (k : nat) : nat := match k with O => g0 | S k' => snd (nth k' segs (0%N, 0)) end.
Lemma cproj_flat_runs g0 segs : wf_segs segs -> forall Q', length Q' = length (flat g0 segs) ->
  cproj (flat g0 segs) Q' =
  concat (map (fun k => firstn (runlen g0 segs k) (skipn (ins_col g0 segs k) Q')) (seq 0 (S (length segs)))).
Proof.
  induction segs as [|sg segs IH] using rev_ind; intros Hwf Q' Hl.
  - unfold flat in *. cbn [flat_segs map concat app length seq runlen ins_col skipn] in *. rewrite app_nil_r in *. rewrite repeat_length in Hl.
    rewrite cproj_gaps by exact Hl. rewrite <- Hl, firstn_all, app_nil_r. reflexivity.
  - apply Forall_app in Hwf. destruct Hwf as [Hwf Hc]. inversion Hc as [|? ? Hc' _]; subst.
    assert (EF : flat g0 (segs ++ [sg]) = flat g0 segs ++ fst sg :: repeat 45%N (snd sg)).
    { unfold flat. rewrite flat_segs_app, app_assoc. f_equal. cbn [flat_segs map concat]. rewrite app_nil_r. reflexivity. }
    set (L := length (flat g0 segs)). rewrite EF in Hl |- *. rewrite app_length in Hl. cbn [length] in Hl. rewrite repeat_length in Hl. fold L in Hl.
    rewrite <- (firstn_skipn L Q') at 1. assert (HL1 : length (firstn L Q') = L) by (rewrite firstn_length; lia).
    destruct (skipn L Q') as [|x rest] eqn:Es; [apply (f_equal (@length N)) in Es; rewrite skipn_length in Es; cbn in Es; lia|].
    assert (Hrest : length rest = snd sg). { apply (f_equal (@length N)) in Es. rewrite skipn_length in Es. cbn [length] in Es. lia. }
    rewrite cproj_app by (rewrite HL1; reflexivity). rewrite (IH Hwf (firstn L Q') HL1).
    replace (length (segs ++ [sg])) with (S (length segs)) by (rewrite app_length; cbn [length]; lia).
    rewrite (seq_S (S (length segs)) 0), map_app, concat_app. cbn [map concat Nat.add]. rewrite app_nil_r. f_equal.
    + f_equal. apply map_ext_in. intros k Hk. apply in_seq in Hk.
      assert (Hrl : runlen g0 (segs ++ [sg]) k = runlen g0 segs k).
      { destruct k as [|k']; [reflexivity|]. cbn [runlen]. rewrite app_nth1 by lia. reflexivity. }
      assert (Hic : ins_col g0 (segs ++ [sg]) k = ins_col g0 segs k).
      { destruct k as [|k']; [reflexivity|]. cbn [ins_col]. unfold colof. rewrite firstn_app. replace (k' - length segs) with 0 by lia. cbn [firstn]. rewrite app_nil_r. reflexivity. }
      rewrite Hrl, Hic.
      (* the run lies inside the first L columns *)
      assert (Hin : ins_col g0 segs k + runlen g0 segs k <= L).
      { unfold L. rewrite flat_length. destruct k as [|k']; cbn [ins_col runlen]; [lia|]. unfold colof.
        rewrite <- (firstn_skipn k' segs) at 3. rewrite flat_segs_app, app_length.
        rewrite (skipn_nth_cons segs k' (0%N, 0)) by lia. destruct (nth k' segs (0%N, 0)) as [c g]. rewrite flat_segs_cons. cbn [length snd]. rewrite app_length, repeat_length. lia. }
      rewrite <- (firstn_skipn L Q') at 2. rewrite skipn_app, HL1.
      replace (ins_col g0 segs k - L) with 0 by lia. cbn [skipn]. rewrite firstn_app, skipn_length, HL1.
      replace (runlen g0 segs k - (L - ins_col g0 segs k)) with 0 by lia. cbn [firstn]. rewrite app_nil_r. reflexivity.
    + unfold cproj. cbn [combine filter fst]. destruct (N.eqb_spec (fst sg) 45); [contradiction|].
      fold (cproj (repeat 45%N (snd sg)) rest). rewrite cproj_gaps by exact Hrest.
      cbn [runlen ins_col]. rewrite nth_middle. unfold colof. rewrite firstn_app, firstn_all, Nat.sub_diag. cbn [firstn]. rewrite app_nil_r.
      assert (EL : g0 + length (flat_segs segs) + 1 = S L) by (unfold L; rewrite flat_length; lia).
      rewrite EL. rewrite <- (firstn_skipn L Q') at 1. rewrite Es.
      replace (S L) with (length (firstn L Q' ++ [x])) by (rewrite app_length, HL1; cbn; lia).
      change (firstn L Q' ++ x :: rest) with (firstn L Q' ++ [x] ++ rest). rewrite app_assoc, skipn_app, skipn_all, Nat.sub_diag. cbn [skipn app].
      rewrite <- Hrest, firstn_all. reflexivity.
Qed.

(* ---------- flattening a gap column: the inserting record's base beats '-' and '*' ---------- *)
Lemma nfs_owner site x : In x site -> (forall y, In y site -> y = x \/ y = 45%N \/ y = 42%N) -> (45 < x)%N -> nuc_from_site site = x.
Proof.
  intros Hx Hall Hgt. assert (Hne : site <> []) by (intros ->; contradiction).
  destruct (flatten_max site) as [Hin Hmax]; [|exact Hne|].
  - intros a b Ha Hb La Lb. destruct (Hall a Ha) as [-> | [-> | ->]]; try discriminate. destruct (Hall b Hb) as [-> | [-> | ->]]; try discriminate. reflexivity.
  - specialize (Hmax x Hx). destruct (Hall _ Hin) as [E|[E|E]]; [exact E| |]; rewrite E in Hmax; lia.
Qed.

(* ---------- block-level facts about the insertion tables ---------- *)
Lemma Iof_block_owner (block : list srec) : forall k0 x d, 0 < Iof (concat (mapi_from rec_ins k0 block)) x ->
  exists j, k0 <= j < k0 + length block /\ 0 < Iof (rec_ins j (nth (j - k0) block d)) x.
Proof.
  induction block as [|rc t IH]; intros k0 x d H; [cbn in H; lia|]. cbn [mapi_from concat] in H. rewrite Iof_app in H.
  destruct (Nat.eq_dec (Iof (rec_ins k0 rc) x) 0) as [E|E].
  - destruct (IH (S k0) x d ltac:(lia)) as (j & Hj & Hp). exists j. cbn [length]. split; [lia|].
    replace (j - k0) with (S (j - S k0)) by lia. exact Hp.
  - exists k0. cbn [length]. split; [lia|]. rewrite Nat.sub_diag. cbn [nth]. lia.
Qed.
Lemma Iof_block_others (block : list srec) o x d : forall k0,
  (forall j, k0 <= j < k0 + length block -> j <> o -> Iof (rec_ins j (nth (j - k0) block d)) x = 0) ->
  Iof (filter (fun i : nat * nat * nat => negb (snd i =? o)) (concat (mapi_from rec_ins k0 block))) x = 0.
Proof.
  induction block as [|rc t IH]; intros k0 H; [reflexivity|]. cbn [mapi_from concat]. rewrite filter_app, Iof_app.
  rewrite (IH (S k0)).
  - pose proof (ins_of_cigar_row k0 (s_cigar rc) (s_pos rc)) as Hrow. destruct (Nat.eq_dec k0 o) as [->|Hn].
    + rewrite Iof_filter_none; [reflexivity|]. eapply Forall_impl; [|exact Hrow]. cbn. intros e ->. rewrite Nat.eqb_refl. reflexivity.
    + rewrite Iof_filter_all.
      * specialize (H k0 ltac:(cbn [length]; lia) Hn). rewrite Nat.sub_diag in H. cbn [nth] in H. unfold rec_ins in *. lia.
      * eapply Forall_impl; [|exact Hrow]. cbn. intros e ->. destruct (Nat.eqb_spec k0 o); [contradiction|reflexivity].
  - intros j Hj Hne. specialize (H j ltac:(cbn [length]; lia) Hne). replace (j - k0) with (S (j - S k0)) in H by lia. exact H.
Qed.
Definition Otot (block : list srec) (k : nat) : list N := concat (map (fun rc => Oof (rec_insq rc) k) block).
Lemma Otot_owner (block : list srec) o k d : o < length block ->
  (forall j, j < length block -> j <> o -> Oof (rec_insq (nth j block d)) k = []) ->
  Otot block k = Oof (rec_insq (nth o block d)) k.
Proof.
  unfold Otot. revert o. induction block as [|rc t IH]; intros o Ho H; [cbn in Ho; lia|]. cbn [map concat]. destruct o as [|o].
  - cbn [nth]. assert (Z : concat (map (fun rc0 => Oof (rec_insq rc0) k) t) = []).
    { apply concat_nil_Forall. apply Forall_forall. intros l Hl. apply in_map_iff in Hl. destruct Hl as (rc' & <- & Hin).
      apply (In_nth _ _ d) in Hin. destruct Hin as (j & Hj & <-). apply (H (S j)); [cbn [length]; lia|discriminate]. }
    rewrite Z, app_nil_r. reflexivity.
  - pose proof (H 0 ltac:(cbn [length]; lia) ltac:(discriminate)) as H0. cbn [nth] in H0. rewrite H0. cbn [nth app]. apply IH; [cbn [length] in Ho; lia|].
    intros j Hj Hne. apply (H (S j)); [cbn [length]; lia|lia].
Qed.
Lemma insq_sub ops : forall pos q sq e c, In e (insq pos q ops sq) -> In c (snd e) -> In c sq.
Proof.
  induction ops as [|[o len] t IH]; intros pos q sq e c H Hc; [contradiction|]. cbn [insq] in H. apply in_app_iff in H. destruct H as [H|H].
  - destruct o; try contradiction. destruct H as [<-|[]]. cbn [snd] in Hc. apply firstn_In_sub in Hc. eapply skipn_In_sub; eauto.
  - eapply IH; eauto.
Qed.
Lemma Oof_sub L k c : In c (Oof L k) -> exists e, In e L /\ In c (snd e).
Proof.
  unfold Oof. intros H. apply in_concat in H. destruct H as (l & Hl & Hc). apply in_map_iff in Hl. destruct Hl as (e & <- & He).
  apply filter_In in He. exists e. split; [exact (proj1 He)|exact Hc].
Qed.

(* ---------- assembling ---------- *)
Lemma fin_choice {A} (P : nat -> A -> Prop) (d : A) : forall n, (forall j, j < n -> exists a, P j a) -> exists F : nat -> A, forall j, j < n -> P j (F j).
Proof.
  induction n as [|n IH]; intros H; [exists (fun _ => d); intros j Hj; lia|].
  destruct (IH (fun j Hj => H j (Nat.lt_lt_succ_r _ _ Hj))) as [F HF]. destruct (H n (Nat.lt_succ_diag_r n)) as [a Ha].
  exists (fun j => if j =? n then a else F j). intros j Hj. destruct (Nat.eqb_spec j n) as [->|Hn]; [exact Ha|apply HF; lia].
Qed.
Lemma qsegs_nth qb G E k d : k < E -> nth k (qsegs qb G 0 E) d = (qb k, G (k + 1)).
Proof.
  intros H. rewrite (qsegs_split qb G E k) by lia.
  destruct (@split3 unit (qsegs qb G 0 k) (qb k, G (S k)) (qsegs qb G (S k) (E - S k)) d) as (_ & H2 & _).
  rewrite qsegs_length in H2. rewrite Nat.add_1_r. exact H2.
Qed.
Lemma gsegs_nth ref I E k d : k < E -> nth k (gsegs ref I 0 E) d = (nth k ref 0%N, I (k + 1)).
Proof.
  intros H. rewrite (gsegs_split ref I E k) by lia.
  destruct (@split3 seg (gsegs ref I 0 k) (nth k ref 0%N, I (S k)) (gsegs ref I (S k) (E - S k)) d) as (_ & H2 & _).
  rewrite gsegs_length in H2. rewrite Nat.add_1_r. exact H2.
Qed.
Lemma swap_pad_id l : Forall (fun c => (45 < c)%N) l -> swap_pad l = l.
Proof.
  unfold swap_pad. induction 1 as [|c t Hc Ht IH]; [reflexivity|]. cbn [map]. rewrite IH. destruct (N.eqb_spec c 42); [lia|reflexivity].
Qed.
Lemma concat_map_nil_tail {A} (f : nat -> list A) a b : (forall k, a <= k < a + b -> f k = []) -> concat (map f (seq a b)) = [].
Proof.
  revert a. induction b as [|b IH]; intros a H; [reflexivity|]. cbn [seq map concat]. rewrite (H a) by lia. cbn [app].
  apply IH. intros k Hk. apply H. lia.
Qed.

Definition no_shared_starts (block : list srec) (d : srec) : Prop :=
  forall k j1 j2, j1 < length block -> j2 < length block -> j1 <> j2 ->
    Iof (rec_ins j1 (nth j1 block d)) k = 0 \/ Iof (rec_ins j2 (nth j2 block d)) k = 0.

Lemma run_in_range g0 segs k : k <= length segs -> ins_col g0 segs k + runlen g0 segs k <= length (flat g0 segs).
Proof.
  intros Hk. rewrite flat_length. destruct k as [|k']; cbn [ins_col runlen]; [lia|]. unfold colof.
  rewrite <- (firstn_skipn k' segs) at 3. rewrite flat_segs_app, app_length.
  rewrite (skipn_nth_cons segs k' (0%N, 0)) by lia. destruct (nth k' segs (0%N, 0)) as [c g]. rewrite flat_segs_cons. cbn [length snd].
  rewrite app_length, repeat_length. lia.
Qed.
Lemma ins_col_firstn g0 segs m k : k <= m -> ins_col g0 (firstn m segs) k = ins_col g0 segs k.
Proof. intros H. destruct k as [|k']; [reflexivity|]. cbn [ins_col]. rewrite colof_firstn by lia. reflexivity. Qed.
Lemma runlen_firstn g0 (segs : list seg) m k : k <= m -> m <= length segs -> runlen g0 (firstn m segs) k = runlen g0 segs k.
Proof.
  intros H Hm. destruct k as [|k']; [reflexivity|]. cbn [runlen]. f_equal.
  rewrite <- (firstn_skipn m segs) at 2. rewrite app_nth1 by (rewrite firstn_length; lia). reflexivity.
Qed.
Lemma ins_col_ge g0 segs m k : m < k -> k <= length segs -> length (flat g0 (firstn m segs)) <= ins_col g0 segs k.
Proof.
  intros H Hk. destruct k as [|k']; [lia|]. cbn [ins_col]. unfold colof. rewrite flat_length.
  rewrite <- (firstn_skipn m (firstn k' segs)). rewrite firstn_firstn, Nat.min_l by lia. rewrite flat_segs_app, app_length. lia.
Qed.
(* what one row contributes to a gap column of the longest row *)
Lemma row_run_value g0 S m r0 us k t : wf_segs S -> m <= length S -> same_shape r0 us g0 (firstn m S) -> k <= length S -> t < runlen g0 S k ->
  nth (ins_col g0 S k + t) (pad_to (length (flat g0 S)) (urow r0 us)) 0%N = if k <=? m then nth t (urun r0 us k) 0%N else 42%N.
Proof.
  intros Hwf Hm Hsh Hk Ht.
  assert (Hlq : length (urow r0 us) = length (flat g0 (firstn m S))).
  { rewrite urow_length, flat_length. destruct Hsh as [H0 H1]. rewrite H0. f_equal.
    pose proof (shape_body us (firstn m S) H1 (length us)) as B. rewrite firstn_all in B. rewrite B.
    rewrite (shape_len us (firstn m S) H1), firstn_all. reflexivity. }
  assert (Hlus : length us = m) by (rewrite (shape_len us (firstn m S) (proj2 Hsh)), firstn_length; lia).
  pose proof (run_in_range g0 S k Hk) as Hin. unfold pad_to. destruct (Nat.leb_spec k m) as [Hle|Hgt].
  - assert (Hcol : ucol r0 us k = ins_col g0 S k) by (rewrite (shape_col r0 us g0 (firstn m S) k Hsh); apply ins_col_firstn; exact Hle).
    assert (Hrl : length (urun r0 us k) = runlen g0 S k).
    { rewrite <- (runlen_firstn g0 S m k Hle Hm). destruct Hsh as [H0 H1]. destruct k as [|k']; cbn [urun runlen]; [exact H0|].
      apply (f_equal (fun l => nth k' l 0)) in H1.
      rewrite (nth_indep _ 0 ((fun u : unit => length (snd u)) (0%N, []))) in H1 by (rewrite map_length; lia).
      rewrite (map_nth (fun u : unit => length (snd u))) in H1. rewrite H1.
      rewrite (nth_indep _ 0 (snd (0%N, 0))) by (rewrite map_length, firstn_length; lia). rewrite (map_nth (@snd N nat)). reflexivity. }
    pose proof (run_in_range g0 (firstn m S) k ltac:(rewrite firstn_length; lia)) as Hin'.
    rewrite (ins_col_firstn g0 S m k Hle), (runlen_firstn g0 S m k Hle Hm) in Hin'.
    rewrite app_nth1 by lia. rewrite <- Hcol. apply urow_run_nth; lia.
  - pose proof (ins_col_ge g0 S m k Hgt Hk) as Hge. rewrite app_nth2 by lia. apply nth_repeat_lt. lia.
Qed.
Lemma Iof_pos_In L k : 0 < Iof L k -> exists e, In e L /\ fst (fst e) = k.
Proof.
  induction L as [|[[s l] r] t IH]; intros H; [cbn in H; lia|]. cbn [Iof] in H. unfold bump in H. destruct (Nat.eqb_spec k s) as [->|Hn].
  - exists (s, l, r). split; [left; reflexivity|reflexivity].
  - destruct (IH H) as (e & He & Hk). exists e. split; [right; exact He|exact Hk].
Qed.
Lemma length_zero_nil {A} (l : list A) : length l = 0 -> l = [].
Proof. destruct l; [reflexivity|discriminate]. Qed.

Theorem pairk_insertions ref rc0 rest R Q : let block := rc0 :: rest in
  ~ In 45%N ref -> Forall (fun c => (42 <= c)%N) ref ->
  no_shared_starts block rc0 -> Forall (fun rc => Forall (fun c => (45 < c)%N) (s_seq rc)) block ->
  block_to_seq_pair ref block = Some (R, Q) ->
  cproj R Q = concat (map (Otot block) (seq 0 (S (length ref)))).
Proof.
  intros block Hng Hge Hns Hseq H.
  destruct (pairk_struct ref rc0 rest R Q Hng Hge H) as (pairs & rows & js & mx & Ea & Hrl & Hrows & Hjs & HEr & -> & Hmx & -> & Hst & HQl & Hrdef).
  fold block in Ea, Hrl, Hrows, Hjs, HEr, Hmx, Hst, Hrdef |- *.
  set (n := length block) in *. set (BI := block_insertions block) in *. set (Itot := Iof BI) in *.
  set (Ej := rec_E (nth js block rc0)) in *. set (E := fun j => rec_E (nth j block rc0)).
  assert (HEr' : Ej <= length ref) by exact HEr.
  set (Sg := gsegs ref Itot 0 Ej). assert (HwfS : wf_segs Sg) by (apply gsegs_wf; [exact Hng|lia]).
  assert (HlS : length Sg = Ej) by apply gsegs_length.
  destruct (map_eq_nth (fun rc => one_line_plus_ref true rc ref) (@Some (list N * list N)) block pairs rc0 dpair Ea) as [Hpl Hrec].
  fold n in Hpl, Hrec.
  assert (HE : forall j, j < n -> E j <= length ref).
  { intros j Hj. specialize (Hrec j Hj). destruct (nth j pairs dpair) as [qr rr]. apply (one_line_grow j _ _ _ _ Hng Hrec). }
  (* choose the base-column characters of every record's query row *)
  destruct (fin_choice (fun j (qbj : nat -> N) => fst (nth j pairs dpair) = qgrow qbj (Oof (rec_insq (nth j block rc0))) (E j)) (fun _ => 0%N) n) as [qb Hqb].
  { intros j Hj. specialize (Hrec j Hj). destruct (nth j pairs dpair) as [qr rr]. destruct (one_line_canon j _ _ _ _ Hrec) as (qbj & Hq & _). exists qbj. exact Hq. }
  set (I0 := fun j => Iof (rec_ins j (nth j block rc0))). set (G0 := fun j => Oof (rec_insq (nth j block rc0))).
  assert (H0 : RowsQ ref E qb n (map (fun p : list N * list N => (snd p, fst p)) pairs) I0 G0).
  { split; [rewrite map_length; lia|]. intros j Hj. change dpair with ((fun p : list N * list N => (snd p, fst p)) dpair). rewrite map_nth.
    specialize (Hqb j Hj). specialize (Hrec j Hj). destruct (nth j pairs dpair) as [qr rr]. cbn [fst snd] in *.
    destruct (one_line_grow j _ _ _ _ Hng Hrec) as (G1 & _ & _). destruct (one_line_canon j _ _ _ _ Hrec) as (_ & _ & Hlen).
    split; [rewrite G1, Hqb; reflexivity|]. intros k _. apply Hlen. }
  pose proof (regapQ_inv ref E qb n Hng HE (sort_insertions BI) _ _ _ H0) as [_ HQrows]. rewrite <- Hrdef in HQrows.
  set (If := foldF I0 (sort_insertions BI)) in *. set (Gf := foldG G0 (sort_insertions BI)) in *.
  assert (HIf : forall j x, j < n -> If j x = Itot x).
  { intros j x Hj. unfold If. rewrite foldF_spec, Iof_sort. unfold I0, Itot, BI, block_insertions.
    change (fun (i : nat) (rc : srec) => ins_of_cigar i (s_pos rc) (s_cigar rc)) with rec_ins.
    rewrite (Iof_filter_split (fun i => snd i =? j) (concat (mapi_from rec_ins 0 block)) x).
    rewrite (block_ins_row block 0 j x rc0) by (fold n; lia). rewrite Nat.sub_0_r. reflexivity. }
  assert (HGf : forall j x, Gf j x = repeat 45%N (Iof (filter (fun i : nat * nat * nat => negb (snd i =? j)) BI) x) ++ G0 j x).
  { intros j x. unfold Gf. rewrite foldG_spec, Iof_sort. reflexivity. }
  (* the query row of the block *)
  set (Qf := flatten_block (map (fun rq : list N * list N => pad_to mx (snd rq)) rows)) in *.
  set (Rmax := grow ref Itot Ej) in *.
  assert (HRQ : length Rmax = length Qf) by (rewrite HQl; symmetry; exact Hmx).
  unfold swap_pad. rewrite cproj_map. fold (swap_pad (cproj (Rmax ++ skipn Ej ref) (Qf ++ repeat 42%N (length ref - Ej)))).
  rewrite cproj_app by exact HRQ. rewrite (cproj_nogap (skipn Ej ref)) by (intros Hin; apply Hng; eapply skipn_In_sub; eauto). rewrite app_nil_r.
  unfold Rmax, grow. fold Sg. rewrite (cproj_flat_runs (Itot 0) Sg HwfS Qf) by (symmetry; exact HRQ). rewrite HlS.
  (* run by run *)
  assert (Hmxflat : length (flat (Itot 0) Sg) = mx) by (symmetry; exact Hmx).
  assert (Hown_len : forall j k, j < n -> length (G0 j k) = I0 j k).
  { intros j k Hj. specialize (Hrec j Hj). destruct (nth j pairs dpair) as [qr rr]. destruct (one_line_canon j _ _ _ _ Hrec) as (_ & _ & Hlen). apply Hlen. }
  assert (Hsplit : forall j k, j < n -> Itot k = I0 j k + Iof (filter (fun i : nat * nat * nat => negb (snd i =? j)) BI) k).
  { intros j k Hj. unfold Itot, BI, block_insertions, I0. change (fun (i : nat) (rc : srec) => ins_of_cigar i (s_pos rc) (s_cigar rc)) with rec_ins.
    rewrite (Iof_filter_split (fun i => snd i =? j) (concat (mapi_from rec_ins 0 block)) k).
    rewrite (block_ins_row block 0 j k rc0) by (fold n; lia). rewrite Nat.sub_0_r. reflexivity. }
  assert (HEjj : forall j, j < n -> E j <= Ej) by (intros j Hj; apply (Hrows j Hj)).
  assert (Hrowq : forall j, j < n -> snd (nth j rows dpair) = urow (Gf j 0) (qsegs (qb j) (Gf j) 0 (E j)) /\
                                   same_shape (Gf j 0) (qsegs (qb j) (Gf j) 0 (E j)) (Itot 0) (firstn (E j) Sg)).
  { intros j Hj. destruct (HQrows j Hj) as [Hn Hlen]. split; [rewrite Hn; reflexivity|].
    pose proof (shape_grow ref (If j) (qb j) (Gf j) (E j) Hlen) as Hsh. rewrite (HIf j 0 Hj) in Hsh.
    unfold Sg. rewrite (gsegs_firstn ref Itot (E j) Ej (HEjj j Hj)).
    rewrite (gsegs_ext ref (If j) Itot 0 (E j)) in Hsh by (intros x Hx; apply HIf, Hj). exact Hsh. }
  assert (Hlens : Forall (fun r => length r = mx) (map (fun rq : list N * list N => pad_to mx (snd rq)) rows)).
  { apply Forall_forall. intros r Hr. apply in_map_iff in Hr. destruct Hr as (rq & <- & Hin). apply (In_nth _ _ dpair) in Hin.
    destruct Hin as (j & Hj & <-). rewrite Hrl in Hj. fold n in Hj. destruct (Hrows j Hj) as (G1 & G2 & _ & G4).
    unfold pad_to. rewrite app_length, repeat_length, G2, G1. fold Itot. pose proof (grow_length_le ref Itot _ _ (HEjj j Hj)) as Hle.
    unfold grow in Hle at 2. fold Sg in Hle. change (rec_E (nth j block rc0)) with (E j). lia. }
  assert (Hrows_ne : map (fun rq : list N * list N => pad_to mx (snd rq)) rows <> []).
  { intros E0. apply (f_equal (@length _)) in E0. rewrite map_length, Hrl in E0. unfold n, block in E0. discriminate. }
  assert (Hrunlen : forall k, k <= Ej -> runlen (Itot 0) Sg k = Itot k).
  { intros k Hk. destruct k as [|k']; [reflexivity|]. cbn [runlen]. unfold Sg. rewrite gsegs_nth by lia. cbn [snd]. f_equal. lia. }
  assert (Hurun : forall j k, j < n -> k <= E j -> urun (Gf j 0) (qsegs (qb j) (Gf j) 0 (E j)) k = Gf j k).
  { intros j k Hj Hk. destruct k as [|k']; [reflexivity|]. cbn [urun]. rewrite qsegs_nth by lia. cbn [snd]. f_equal. lia. }
  assert (Hrun : forall k, k <= Ej -> firstn (runlen (Itot 0) Sg k) (skipn (ins_col (Itot 0) Sg k) Qf) = Otot block k /\
                                     Forall (fun c => (45 < c)%N) (Otot block k)).
  { intros k Hk. rewrite (Hrunlen k Hk). destruct (Nat.eq_dec (Itot k) 0) as [Hz|Hnz].
    - (* nobody inserts after k bases *)
      assert (HO : Otot block k = []).
      { unfold Otot. apply concat_nil_Forall. apply Forall_forall. intros l Hl. apply in_map_iff in Hl. destruct Hl as (rc & <- & Hin).
        apply (In_nth _ _ rc0) in Hin. destruct Hin as (j & Hj & <-). fold n in Hj. apply length_zero_nil.
        change (length (G0 j k) = 0). rewrite (Hown_len j k Hj). pose proof (Hsplit j k Hj). lia. }
      rewrite HO, Hz. split; [reflexivity|constructor].
    - (* the record that inserts after k bases *)
      destruct (Iof_block_owner block 0 k rc0) as (o & Ho & Hpos).
      { unfold Itot, BI, block_insertions in Hnz. change (fun (i : nat) (rc : srec) => ins_of_cigar i (s_pos rc) (s_cigar rc)) with rec_ins in Hnz. lia. }
      rewrite Nat.sub_0_r in Hpos. cbn [Nat.add] in Ho. fold n in Ho. assert (Hon : o < n) by lia. fold (I0 o) in Hpos.
      assert (Hothers : forall j, j < n -> j <> o -> I0 j k = 0).
      { intros j Hj Hne. destruct (Hns k j o Hj Hon Hne) as [Hz|Hz]; [exact Hz|]. unfold I0 in Hpos. lia. }
      assert (Hfo : Iof (filter (fun i : nat * nat * nat => negb (snd i =? o)) BI) k = 0).
      { unfold BI, block_insertions. change (fun (i : nat) (rc : srec) => ins_of_cigar i (s_pos rc) (s_cigar rc)) with rec_ins.
        apply (Iof_block_others block o k rc0 0). intros j Hj Hne. rewrite Nat.sub_0_r. apply (Hothers j); [cbn [Nat.add] in Hj; fold n in Hj; lia|exact Hne]. }
      assert (HIo : I0 o k = Itot k) by (pose proof (Hsplit o k Hon); lia).
      assert (HGo : Gf o k = G0 o k) by (rewrite HGf, Hfo; reflexivity).
      assert (HGj : forall j, j < n -> j <> o -> Gf j k = repeat 45%N (Itot k)).
      { intros j Hj Hne. rewrite HGf. rewrite (length_zero_nil (G0 j k)) by (rewrite (Hown_len j k Hj); apply Hothers; assumption).
        rewrite app_nil_r. f_equal. pose proof (Hsplit j k Hj). rewrite (Hothers j Hj Hne) in H1. lia. }
      assert (HO : Otot block k = G0 o k).
      { apply (Otot_owner block o k rc0 Hon). intros j Hj Hne. apply length_zero_nil. change (length (G0 j k) = 0).
        rewrite (Hown_len j k Hj). apply Hothers; assumption. }
      assert (Hko : k <= E o).
      { destruct (Iof_pos_In _ _ Hpos) as (e & He & Hek). unfold rec_ins in He. apply ins_of_cigar_range in He. unfold E, rec_E. lia. }
      assert (Hbases : Forall (fun c => (45 < c)%N) (G0 o k)).
      { apply Forall_forall. intros c Hc. unfold G0 in Hc. apply Oof_sub in Hc. destruct Hc as (e & He & Hce). unfold rec_insq in He.
        apply (insq_sub _ _ _ _ _ c He) in Hce. rewrite Forall_forall in Hseq. specialize (Hseq (nth o block rc0) (nth_In _ _ Hon)).
        rewrite Forall_forall in Hseq. apply Hseq, Hce. }
      rewrite HO. split; [|exact Hbases].
      pose proof (run_in_range (Itot 0) Sg k ltac:(lia)) as Hin. rewrite (Hrunlen k Hk) in Hin.
      apply (nth_ext _ _ 0%N 0%N).
      + rewrite firstn_length, skipn_length, (Hown_len o k Hon), HIo. rewrite <- HRQ. unfold Rmax, grow. fold Sg. lia.
      + intros t Ht. rewrite firstn_length, skipn_length in Ht. assert (Ht' : t < Itot k) by lia.
        rewrite nth_firstn_lt by exact Ht'. rewrite nth_skipn_add.
        unfold Qf. rewrite (flatten_block_nth _ mx _ Hrows_ne Hlens) by (rewrite <- Hmxflat; lia). rewrite map_map.
        (* each row's contribution *)
        assert (Hval : forall j, j < n -> nth (ins_col (Itot 0) Sg k + t) (pad_to mx (snd (nth j rows dpair))) 0%N =
                                         if k <=? E j then nth t (Gf j k) 0%N else 42%N).
        { intros j Hj. destruct (Hrowq j Hj) as [Hq Hsh]. rewrite Hq, <- Hmxflat.
          rewrite (row_run_value (Itot 0) Sg (E j) _ _ k t HwfS ltac:(rewrite HlS; apply HEjj, Hj) Hsh ltac:(lia) ltac:(rewrite (Hrunlen k Hk); exact Ht')).
          destruct (Nat.leb_spec k (E j)); [rewrite (Hurun j k Hj) by assumption|]; reflexivity. }
        apply nfs_owner.
        * apply in_map_iff. exists (nth o rows dpair). split; [|apply nth_In; rewrite Hrl; exact Hon].
          rewrite (Hval o Hon). destruct (Nat.leb_spec k (E o)); [|lia]. rewrite HGo. reflexivity.
        * intros y Hy. apply in_map_iff in Hy. destruct Hy as (rq & <- & Hin'). apply (In_nth _ _ dpair) in Hin'. destruct Hin' as (j & Hj & <-).
          rewrite Hrl in Hj. fold n in Hj. rewrite (Hval j Hj). destruct (Nat.leb_spec k (E j)); [|right; right; reflexivity].
          destruct (Nat.eq_dec j o) as [->|Hne]; [left; rewrite HGo; reflexivity|]. right. left. rewrite (HGj j Hj Hne). apply nth_repeat_lt. exact Ht'.
        * rewrite Forall_forall in Hbases. apply Hbases. apply nth_In. rewrite (Hown_len o k Hon), HIo. exact Ht'. }
  assert (Htail : forall k, Ej < k -> Otot block k = []).
  { intros k Hk. unfold Otot. apply concat_nil_Forall. apply Forall_forall. intros l Hl. apply in_map_iff in Hl. destruct Hl as (rc & <- & Hin).
    apply (In_nth _ _ rc0) in Hin. destruct Hin as (j & Hj & <-). fold n in Hj. apply Oof_nil. intros e He. unfold rec_insq in He.
    apply insq_range in He. pose proof (HEjj j Hj) as Hle. unfold E, rec_E in Hle. lia. }
  rewrite (map_ext_in _ (Otot block) (seq 0 (S Ej))) by (intros k Hk; apply in_seq in Hk; apply Hrun; lia).
  replace (S (length ref)) with (S Ej + (length ref - Ej)) by lia. rewrite seq_app, map_app, concat_app.
  rewrite (concat_map_nil_tail (Otot block) (0 + S Ej) (length ref - Ej)) by (intros k Hk; apply Htail; lia). rewrite app_nil_r.
  apply swap_pad_id. apply Forall_concat. apply Forall_forall. intros l Hl. apply in_map_iff in Hl. destruct Hl as (k & <- & Hk). apply in_seq in Hk.
  apply Hrun. lia.
Qed.
