(* TopRankModel.v — model of `updown topranking` (pkg/updown/topranking.go; FASTA input path of input.go).
   Definitions only. *)
From Coq Require Import Floats.SpecFloat.
From GF Require Import Base Alphabet SymbolsDef FastaModel SnpsModel UpdownListModel Float TopK Balance.
Open Scope N_scope.

Record udl := { u_id : list N; u_snps : list (list N); u_pos : list nat; u_ambs : list (nat * nat); u_ambc : nat }.
Definition udl_of_seq (refenc : list N) (id seq : list N) : udl :=
  let '(sn, rs, ac) := get_line (cols_of refenc seq) in
  {| u_id := id; u_snps := map (snp_text refenc seq) sn; u_pos := sn; u_ambs := rs; u_ambc := ac |}.

(* float32 *)
Definition f32_of_Z (z : Z) : spec_float := binary_normalize 24 128 z 0 false.
Definition f32_div (a b : spec_float) : spec_float := SFdiv 24 128 a b.
Definition f32_norm (k : N) (m e : Z) : spec_float :=
  match k with 0 => S754_zero false | 1 => binary_normalize 24 128 m e false | 2 => binary_normalize 24 128 (- m) e false
             | 3 => S754_infinity false | 4 => S754_infinity true | _ => S754_nan end.

(* ---- whichWay ---- *)
Definition is_site_amb (p : nat) (ambs : list (nat * nat)) : bool :=
  existsb (fun r => Nat.leb (fst r) p && Nat.leb p (snd r)) ambs.
Definition in_texts (x : list N) (l : list (list N)) : bool := existsb (list_eqb x) l.
Record wtab := { w0 : nat; w1 : nat; w2 : nat; w3 : nat; wd : list nat; wplus : nat }.
Definition which_way (q t : udl) (thresh : spec_float) : option (nat * nat) :=
  let s1 := fold_left (fun s tp =>
              let '(txt, p) := tp in
              if is_site_amb p (u_ambs t) then {| w0 := w0 s; w1 := w1 s; w2 := w2 s; w3 := S (w3 s); wd := wd s; wplus := wplus s |}
              else if in_texts txt (u_snps t) then {| w0 := w0 s; w1 := S (w1 s); w2 := w2 s; w3 := w3 s; wd := wd s; wplus := wplus s |}
              else {| w0 := S (w0 s); w1 := w1 s; w2 := w2 s; w3 := w3 s; wd := wd s ++ [p]; wplus := wplus s |})
            (combine (u_snps q) (u_pos q)) {| w0 := 0; w1 := 0; w2 := 0; w3 := 0; wd := []; wplus := 0 |} in
  let s2 := fold_left (fun s tp =>
              let '(txt, p) := tp in
              if is_site_amb p (u_ambs q) then {| w0 := w0 s; w1 := w1 s; w2 := w2 s; w3 := S (w3 s); wd := wd s; wplus := wplus s |}
              else if negb (in_texts txt (u_snps q)) then
                {| w0 := w0 s; w1 := w1 s; w2 := S (w2 s); w3 := w3 s; wd := wd s;
                   wplus := if existsb (Nat.eqb p) (wd s) then wplus s else S (wplus s) |}
              else s)
            (combine (u_snps t) (u_pos t)) s1 in
  let sum := (w0 s2 + w1 s2 + w2 s2 + w3 s2)%nat in
  if f64_ltb thresh (f32_div (f32_of_Z (Z.of_nat (w3 s2))) (f32_of_Z (Z.of_nat sum))) then None
  else Some ((if Nat.eqb (w0 s2) 0 then (if Nat.eqb (w2 s2) 0 then 0 else 2) else (if Nat.eqb (w2 s2) 0 then 1 else 3))%nat,
             (length (wd s2) + wplus s2)%nat).

(* ---- SPEC of the pairwise classification, column by column from the statement: a column is
   (reference, query, target symbol); "carries a difference from the reference that the other lacks" and
   "both are A/C/G/T and differ" are read literally ---- *)
Definition col := (N * (N * N))%type.
Definition nequp (x y : N) : bool := negb (upper x =? upper y).
Definition c_qonly (c : col) : bool := let '(r, (a, b)) := c in resolved a && resolved b && nequp a r && nequp a b.
Definition c_tonly (c : col) : bool := let '(r, (a, b)) := c in resolved a && resolved b && nequp b r && nequp a b.
Definition c_shared (c : col) : bool := let '(r, (a, b)) := c in resolved a && resolved b && nequp a r && negb (nequp a b).
Definition c_amb (c : col) : bool :=
  let '(r, (a, b)) := c in (resolved a && nequp a r && negb (resolved b)) || (resolved b && nequp b r && negb (resolved a)).
Definition c_dist (c : col) : bool := let '(r, (a, b)) := c in resolved a && resolved b && nequp a b.
Definition countp {A} (f : A -> bool) (l : list A) : nat := length (filter f l).
Definition spec_which_way (ref q t : list N) (thresh : spec_float) : option (nat * nat) :=
  let cs := combine ref (combine q t) in
  let n0 := countp c_qonly cs in let n1 := countp c_shared cs in let n2 := countp c_tonly cs in let n3 := countp c_amb cs in
  if f64_ltb thresh (f32_div (f32_of_Z (Z.of_nat n3)) (f32_of_Z (Z.of_nat (n0 + n1 + n2 + n3)))) then None
  else Some ((if Nat.eqb n0 0 then (if Nat.eqb n2 0 then 0 else 2) else (if Nat.eqb n2 0 then 1 else 3))%nat, countp c_dist cs).

(* ---- a hit, the (distance, ambiguity) order ---- *)
Record hit := { h_name : list N; h_dist : nat; h_amb : nat }.
Definition hit_lt (a b : hit) : bool :=
  Nat.ltb (h_dist a) (h_dist b) || (Nat.eqb (h_dist a) (h_dist b) && Nat.ltb (h_amb a) (h_amb b)).

(* targets as each query sees them: --ignore, --threshold-target, --threshold-pair applied; (direction, hit) in file order *)
Definition classified (q : udl) (ignore : list (list N)) (thresh : spec_float) (threshtarg : Z) (ts : list udl) : list (nat * hit) :=
  flat_map (fun t =>
    if (threshtarg <? Z.of_nat (u_ambc t))%Z then []
    else if in_texts (u_id t) ignore then []
    else match which_way q t thresh with
         | None => []
         | Some (dir, d) => [(dir, {| h_name := u_id t; h_dist := d; h_amb := u_ambc t |})]
         end) ts.
Definition of_dir (dir : nat) (l : list (nat * hit)) : list hit := map snd (filter (fun x => Nat.eqb (fst x) dir) l).

(* ---- size mode: four bounded catchments + balance ---- *)
Definition capn (n : nat) (z : Z) : nat := Z.to_nat (Z.min z (Z.of_nat (S n))).     (* any size > #targets behaves alike *)
Definition maxint32 : Z := 2147483647.
Definition balance_sizes (total : nat) (ideal observed : list nat) (nofill : bool) : list nat :=
  if forallb (fun io => Nat.leb (fst io) (snd io)) (combine ideal observed) then ideal
  else
    let size := map (fun io => Nat.min (fst io) (snd io)) (combine ideal observed) in
    if nofill then size else
    let avail := map (fun io => (snd io - fst io)%nat) (combine ideal observed) in
    match outer (S (lsum avail)) total (combine size avail) with
    | Some bins => map fst bins
    | None => size
    end.
Definition size_mode (sizes : list Z) (dists : list Z) (nofill : bool) (n : nat) (cl : list (nat * hit)) : list (list hit) :=
  let sizetotal := if existsb (Z.eqb maxint32) sizes then maxint32 else fold_left Z.add sizes 0%Z in
  let K := capn n sizetotal in
  let bins := map (fun dir => online hit hit_lt K
                      (filter (fun h => negb (nth dir dists 0 <? Z.of_nat (h_dist h))%Z) (of_dir dir cl))) [0;1;2;3]%nat in
  let size := balance_sizes K (map (capn n) sizes) (map (@length hit) bins) nofill in
  map (fun bs => firstn (fst bs) (snd bs)) (combine size bins).

(* ---- --dist-push k: the k smallest occurring distances per direction; `same` unlimited and unsorted ---- *)
Record pst := { p_map : list (nat * list hit); p_ndists : nat; p_maxdist : nat }.
Definition p_max (m : list (nat * list hit)) : nat := fold_left Nat.max (map fst m) 0%nat.
Fixpoint p_append (d : nat) (h : hit) (m : list (nat * list hit)) : option (list (nat * list hit)) :=
  match m with
  | [] => None
  | (d', l) :: t => if Nat.eqb d d' then Some ((d', l ++ [h]) :: t) else option_map (cons (d', l)) (p_append d h t)
  end.
Definition push_step (k : nat) (s : pst) (h : hit) : pst :=
  if Nat.leb (h_dist h) (p_maxdist s) || Nat.ltb (p_ndists s) k then
    match p_append (h_dist h) h (p_map s) with
    | Some m' => {| p_map := m'; p_ndists := p_ndists s; p_maxdist := p_maxdist s |}
    | None =>
        let m0 := if Nat.eqb (length (p_map s)) k
                  then filter (fun e => negb (Nat.eqb (fst e) (p_max (p_map s)))) (p_map s) else p_map s in
        let m' := m0 ++ [(h_dist h, [h])] in
        {| p_map := m'; p_ndists := length m'; p_maxdist := p_max m' |}
    end
  else s.
Definition push_bin (k : nat) (hs : list hit) : list hit :=
  let s := fold_left (push_step k) hs {| p_map := []; p_ndists := 0; p_maxdist := 0 |} in
  ssort hit hit_lt (concat (map snd (ssort (nat * list hit) (fun a b => Nat.ltb (fst a) (fst b)) (p_map s)))).
Definition push_mode (k : nat) (cl : list (nat * hit)) : list (list hit) :=
  [of_dir 0 cl; push_bin k (of_dir 1 cl); push_bin k (of_dir 2 cl); push_bin k (of_dir 3 cl)].

(* ---- checkArgs ---- *)
Definition all_zero (l : list Z) : bool := forallb (Z.eqb 0) l.
Definition check_args_tr (sizetotal sizeup sizedown sizeside sizesame distall distup distdown distside distpush : Z)
  : option (list Z * list Z) :=
  if (sizetotal =? 0)%Z && all_zero [sizeup; sizedown; sizeside; sizesame] && (distpush =? 0)%Z && all_zero [distup; distdown; distside; distall] then None
  else if (negb (sizetotal =? 0)%Z && negb (all_zero [sizeup; sizedown; sizeside; sizesame])) && negb (all_zero [distup; distdown; distside; distall]) && (0 <? distpush)%Z then None
  else
    let sizes :=
      if (0 <? sizetotal)%Z then let q := (sizetotal / 4)%Z in [(sizetotal - 3 * q)%Z; q; q; q]
      else if negb (all_zero [sizeup; sizedown; sizeside; sizesame])
           then map (fun n => if (n =? -1)%Z then maxint32 else n) [sizesame; sizeup; sizedown; sizeside]
           else [maxint32; maxint32; maxint32; maxint32] in
    let dists :=
      if (0 <? distall)%Z then [0%Z; distall; distall; distall]
      else if negb (all_zero [distup; distdown; distside]) then [0%Z; distup; distdown; distside]
      else [maxint32; maxint32; maxint32; maxint32] in
    Some (sizes, dists).

(* ---- writers ---- *)
Definition dir_name (i : nat) : list N := match i with O => bs "same" | 1%nat => bs "up" | 2%nat => bs "down" | _ => bs "side" end.
Definition write_catchment (rows : list (list N * list (list hit))) : list N :=
  bs "query,closestsame,closestup,closestdown,closestside" ++ [NL] ++
  concat (map (fun r => fst r ++ [44] ++ join [44] (map (fun b => join [59] (map h_name b)) (snd r)) ++ [NL]) rows).
Fixpoint mapi_dir {A B} (f : nat -> A -> B) (i : nat) (l : list A) : list B :=
  match l with [] => [] | a :: t => f i a :: mapi_dir f (S i) t end.
Definition write_table (rows : list (list N * list (list hit))) : list N :=
  bs "query,direction,distance,target" ++ [NL] ++
  concat (map (fun r => concat (mapi_dir (fun i b => concat (map (fun h =>
            fst r ++ [44] ++ dir_name i ++ [44] ++ dec_nat (h_dist h) ++ [44] ++ h_name h ++ [NL]) b)) 0%nat (snd r))) rows).

(* ---- the command, FASTA inputs: reference, queries, targets ---- *)
Record tropts := { o_table : bool; o_ignore : list (list N);
                   o_sizetotal : Z; o_sizeup : Z; o_sizedown : Z; o_sizeside : Z; o_sizesame : Z;
                   o_distall : Z; o_distup : Z; o_distdown : Z; o_distside : Z;
                   o_thresh : spec_float; o_threshtarg : Z; o_nofill : bool; o_distpush : Z }.
Fixpoint udls (refenc : list N) (recs : list rcd) : res (list udl) :=
  match recs with
  | [] => Ok []
  | r :: t => if Nat.eqb (length (r_seq r)) (length refenc)
              then bind (udls refenc t) (fun rest => Ok (udl_of_seq refenc (r_id r) (r_seq r) :: rest))
              else Err DiffLen
  end.
Definition topranking_core (o : tropts) (qs ts : list udl) : res (list N) :=
  match check_args_tr (o_sizetotal o) (o_sizeup o) (o_sizedown o) (o_sizeside o) (o_sizesame o)
                      (o_distall o) (o_distup o) (o_distdown o) (o_distside o) (o_distpush o) with
  | None => Err Other
  | Some (sizes, dists) =>
      let rows := map (fun q =>
                    let cl := classified q (o_ignore o) (o_thresh o) (o_threshtarg o) ts in
                    (u_id q, if (0 <? o_distpush o)%Z then push_mode (Z.to_nat (o_distpush o)) cl
                             else size_mode sizes dists (o_nofill o) (length ts) cl)) qs in
      Ok (if o_table o then write_table rows else write_catchment rows)
  end.
Definition topranking_cmd (o : tropts) (ref qf tf : list N) : res (list N) :=
  match check_args_tr (o_sizetotal o) (o_sizeup o) (o_sizedown o) (o_sizeside o) (o_sizesame o)
                      (o_distall o) (o_distup o) (o_distdown o) (o_distside o) (o_distpush o) with
  | None => Err Other
  | Some _ =>
    bind (read_encoded false ref) (fun refs =>
      match refs with
      | [r0] => bind (read_encoded false qf) (fun qrecs => bind (udls (r_seq r0) qrecs) (fun qs =>
                bind (read_encoded false tf) (fun trecs => bind (udls (r_seq r0) trecs) (fun ts =>
                  topranking_core o qs ts))))
      | [] => Panic
      | _ => Err Other
      end)
  end.
