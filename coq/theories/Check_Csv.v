(* Check_Csv.v — verdict for one CSV line: encoding/csv (implementation) vs csv_parse (model).  0 agree, 2 disagree *)
From GF Require Import Base FastaModel Harness CsvModel.
Open Scope N_scope.
Definition ser_fields (fs : list (list N)) : list N := concat (map (fun f => dec_nat (length f) ++ [58] ++ f) fs).
Definition check_csv (c : list N * gores) : N :=
  let '(line, g) := c in
  let m := match csv_parse line with Some fs => Ok (ser_fields fs) | None => Err BadFormat end in
  if agree g m then 0 else 2.
