(* UpdownListModel.v — model of `updown list` (pkg/updown/input.go getLines, pkg/updown/list.go
   writeOutput, List) and its column-wise spec.  Definitions only. *)
From GF Require Import Base Alphabet SymbolsDef FastaModel SnpsModel.
From GF Require Import CsvModel.
Open Scope N_scope.

(* class of one alignment column: a known base (A/C/G/T) that is or is not a SNP w.r.t. the
   reference symbol, or an ambiguous symbol *)
Inductive cls := Kn (snp : bool) | Am.

(* ---- getLines' per-record loop (input.go:410-444) over column classes ---- *)
Record lst := { cont : bool; astart : nat; astop : nat; snps : list nat; ambs : list (nat * nat); ambc : nat; idx : nat }.
Definition linit := {| cont := false; astart := 0; astop := 0; snps := []; ambs := []; ambc := 0; idx := 0 |}.
Definition lstep (s : lst) (c : cls) : lst :=
  let i := idx s in
  match c with
  | Kn d =>
      {| cont := false; astart := astart s; astop := astop s;
         snps := if d then snps s ++ [(i + 1)%nat] else snps s;
         ambs := if cont s then ambs s ++ [((astart s + 1)%nat, (astop s + 1)%nat)] else ambs s;
         ambc := ambc s; idx := S i |}
  | Am =>
      {| cont := true; astart := if cont s then astart s else i; astop := i;
         snps := snps s; ambs := ambs s; ambc := S (ambc s); idx := S i |}
  end.
Definition lfinish (s : lst) : list nat * list (nat * nat) * nat :=
  (snps s, if cont s then ambs s ++ [((astart s + 1)%nat, (astop s + 1)%nat)] else ambs s, ambc s).
Definition get_line (cols : list cls) := lfinish (fold_left lstep cols linit).

(* the byte tests of the code on encoded symbols: q&8==8, (r&q)<16 *)
Definition classify (r q : N) : cls := if N.land q 8 =? 8 then Kn (N.land r q <? 16) else Am.
Fixpoint cols_of (refenc qenc : list N) : list cls :=
  match refenc, qenc with
  | r :: rt, q :: qt => classify r q :: cols_of rt qt
  | _, _ => []
  end.

Definition snp_text (refenc qenc : list N) (p : nat) : list N :=
  dec (nth (p - 1) refenc 0) ++ dec_nat p ++ dec (nth (p - 1) qenc 0).
Definition range_text (r : nat * nat) : list N :=
  if Nat.eqb (fst r) (snd r) then dec_nat (fst r) else dec_nat (fst r) ++ [45] ++ dec_nat (snd r).

Definition list_header : list N := bs "query,SNPs,ambiguities,SNPcount,ambcount" ++ [NL].
(* the ID is the one free-text cell: written through csvField since repair D18 (CsvModel.v) *)
Definition row_text (id : list N) (snptexts : list (list N)) (rs : list (nat * nat)) (ac : nat) : list N :=
  csv_field id ++ [44] ++ join [124] snptexts ++ [44] ++ join [124] (map range_text rs) ++ [44] ++
  dec_nat (length snptexts) ++ [44] ++ dec_nat ac ++ [NL].
Definition list_row (refenc : list N) (r : rcd) : list N :=
  let '(sn, rs, ac) := get_line (cols_of refenc (r_seq r)) in
  row_text (r_id r) (map (snp_text refenc (r_seq r)) sn) rs ac.

Fixpoint list_rows (refenc : list N) (recs : list rcd) : res (list N) :=
  match recs with
  | [] => Ok []
  | r :: t => if Nat.eqb (length (r_seq r)) (length refenc)
              then bind (list_rows refenc t) (fun rest => Ok (list_row refenc r ++ rest))
              else Err DiffLen
  end.
Definition list_cmd (ref aln : list N) : res (list N) :=
  bind (read_encoded false ref) (fun refs =>
    match refs with
    | [r0] => bind (read_encoded false aln) (fun recs =>
                bind (list_rows (r_seq r0) recs) (fun rows => Ok (list_header ++ rows)))
    | [] => Panic
    | _ => Err Other
    end).

(* ---- SPEC, column-wise from the meaning of the symbols ---- *)
Definition spec_class (r q : N) : cls := if resolved q then Kn (disjoint_sym false r q) else Am.
Fixpoint spec_cols (ref que : list N) : list cls :=
  match ref, que with
  | r :: rt, q :: qt => spec_class r q :: spec_cols rt qt
  | _, _ => []
  end.
Definition is_am (c : cls) : bool := match c with Am => true | _ => false end.
(* a maximal run of ambiguous columns starts where the column is ambiguous and the previous one is not
   (or there is none), and stops where the next one is not (or there is none) *)
Fixpoint run_starts (prev_am : bool) (i : nat) (cols : list cls) : list nat :=
  match cols with
  | [] => []
  | c :: t => (if is_am c && negb prev_am then [i] else []) ++ run_starts (is_am c) (S i) t
  end.
Fixpoint run_stops (i : nat) (cols : list cls) : list nat :=
  match cols with
  | [] => []
  | c :: t => (if is_am c && negb (match t with c' :: _ => is_am c' | [] => false end) then [i] else []) ++ run_stops (S i) t
  end.
Definition spec_ranges (cols : list cls) : list (nat * nat) := combine (run_starts false 1 cols) (run_stops 1 cols).
Fixpoint spec_snp_pos (i : nat) (cols : list cls) : list nat :=
  match cols with
  | [] => []
  | Kn true :: t => i :: spec_snp_pos (S i) t
  | _ :: t => spec_snp_pos (S i) t
  end.
Definition spec_snp_text (ref que : list N) (p : nat) : list N :=
  [upper (nth (p - 1) ref 0)] ++ dec_nat p ++ [upper (nth (p - 1) que 0)].
Definition spec_list_row (ref : list N) (r : rcd) : list N :=
  let cols := spec_cols ref (r_seq r) in
  row_text (r_id r) (map (spec_snp_text ref (r_seq r)) (spec_snp_pos 1 cols)) (spec_ranges cols)
           (length (filter is_am cols)).
Fixpoint spec_list_rows (ref : list N) (recs : list rcd) : res (list N) :=
  match recs with
  | [] => Ok []
  | r :: t => if Nat.eqb (length (r_seq r)) (length ref)
              then bind (spec_list_rows ref t) (fun rest => Ok (spec_list_row ref r ++ rest))
              else Err DiffLen
  end.
Definition list_spec_cmd (ref aln : list N) : res (list N) :=
  bind (read conv_raw true ref) (fun refs =>
    match refs with
    | [r0] => bind (read conv_raw true aln) (fun recs =>
                bind (spec_list_rows (r_seq r0) recs) (fun rows => Ok (list_header ++ rows)))
    | [] => Panic
    | _ => Err Other
    end).

(* reconstruction: the row determines the class of every column *)
Definition in_ranges (p : nat) (rs : list (nat * nat)) : bool := existsb (fun r => Nat.leb (fst r) p && Nat.leb p (snd r)) rs.
Definition cell (sn : list nat) (rs : list (nat * nat)) (p : nat) : cls :=
  if in_ranges p rs then Am else Kn (existsb (Nat.eqb p) sn).
Definition rebuild (n : nat) (row : list nat * list (nat * nat) * nat) : list cls :=
  let '(sn, rs, _) := row in map (fun i => cell sn rs (i + 1)%nat) (seq 0 n).
