(* TopRankSpec.v — C08: the stages composed.  For FASTA-derived rows, the core of `updown topranking` (classification of
   every target against every query, the two binning modes, the writers) equals a specification command in which the
   classification is the column-wise spec_which_way, a size-mode bin is the first K of the stably sorted candidates, and a
   --dist-push bin is push_spec (the candidates at the k smallest occurring distances). *)
From Coq Require Import Floats.SpecFloat.
From GF Require Import Base Alphabet Symbols FastaModel FastaProofs SnpsModel SnpsProofs UpdownListModel UpdownListProofs
  Float TopK Balance TopRankModel UpdownCsv WhichWayProofs PushProofs BinsProofs.
Open Scope nat_scope.

Definition spec_classified (ref q : list N) (ignore : list (list N)) (thresh : spec_float) (threshtarg : Z)
           (ts : list (list N * list N)) : list (nat * hit) :=
  flat_map (fun it : list N * list N =>
    let ac := length (filter is_am (spec_cols ref (snd it))) in
    if (threshtarg <? Z.of_nat ac)%Z then []
    else if in_texts (fst it) ignore then []
    else match spec_which_way ref q (snd it) thresh with
         | None => []
         | Some (dir, d) => [(dir, {| h_name := fst it; h_dist := d; h_amb := ac |})]
         end) ts.
Definition spec_size_mode (sizes dists : list Z) (nofill : bool) (n : nat) (cl : list (nat * hit)) : list (list hit) :=
  let sizetotal := if existsb (Z.eqb maxint32) sizes then maxint32 else fold_left Z.add sizes 0%Z in
  let K := capn n sizetotal in
  let bins := map (fun dir => firstn K (ssort hit hit_lt (candidates dists dir cl))) [0; 1; 2; 3] in
  let size := balance_sizes K (map (capn n) sizes) (map (@length hit) bins) nofill in
  map (fun bs => firstn (fst bs) (snd bs)) (combine size bins).
Definition spec_push_mode (k : nat) (cl : list (nat * hit)) : list (list hit) :=
  [of_dir 0 cl; push_spec k (of_dir 1 cl); push_spec k (of_dir 2 cl); push_spec k (of_dir 3 cl)].
Definition spec_core (o : tropts) (ref : list N) (qs ts : list (list N * list N)) : res (list N) :=
  match check_args_tr (o_sizetotal o) (o_sizeup o) (o_sizedown o) (o_sizeside o) (o_sizesame o)
                      (o_distall o) (o_distup o) (o_distdown o) (o_distside o) (o_distpush o) with
  | None => Err Other
  | Some (sizes, dists) =>
      let rows := map (fun iq : list N * list N =>
                    let cl := spec_classified ref (snd iq) (o_ignore o) (o_thresh o) (o_threshtarg o) ts in
                    (fst iq, if (0 <? o_distpush o)%Z then spec_push_mode (Z.to_nat (o_distpush o)) cl
                             else spec_size_mode sizes dists (o_nofill o) (length ts) cl)) qs in
      Ok (if o_table o then write_table rows else write_catchment rows)
  end.

Definition udl_of (ref : list N) (it : list N * list N) : udl := udl_of_seq (map (enc false) ref) (fst it) (map (enc false) (snd it)).
Definition seq_ok (ref : list N) (it : list N * list N) : Prop := all_valid (snd it) /\ length (snd it) = length ref.

Lemma udl_ambc ref it : all_valid ref -> seq_ok ref it -> u_ambc (udl_of ref it) = length (filter is_am (spec_cols ref (snd it))) /\ u_id (udl_of ref it) = fst it.
Proof. intros Vr [Vt Lt]. unfold udl_of. rewrite udl_of_seq_spec by assumption. split; reflexivity. Qed.

Lemma classified_spec ref iq ignore thr tt ts : all_valid ref -> Forall (fun c => resolved c = true) ref -> seq_ok ref iq ->
  Forall (seq_ok ref) ts ->
  classified (udl_of ref iq) ignore thr tt (map (udl_of ref) ts) = spec_classified ref (snd iq) ignore thr tt ts.
Proof.
  intros Vr Rr [Vq Lq] Hts. unfold classified, spec_classified. induction Hts as [|it t Hit Ht IH]; [reflexivity|].
  cbn [map flat_map]. rewrite IH. f_equal. destruct (udl_ambc ref it Vr Hit) as [Ea Ei]. rewrite Ea, Ei.
  destruct Hit as [Vt Lt]. unfold udl_of at 1 2. rewrite (which_way_spec ref (snd iq) (snd it) (fst iq) (fst it) thr) by assumption. reflexivity.
Qed.
Lemma size_mode_spec sizes dists nofill n cl : size_mode sizes dists nofill n cl = spec_size_mode sizes dists nofill n cl.
Proof. unfold size_mode, spec_size_mode. cbn [map]. rewrite !online_hits. reflexivity. Qed.
Lemma push_mode_spec k cl : 0 < k -> push_mode k cl = spec_push_mode k cl.
Proof. intros Hk. unfold push_mode, spec_push_mode. rewrite !(push_bin_spec k) by exact Hk. reflexivity. Qed.

Theorem core_eq_spec o ref qs ts : all_valid ref -> Forall (fun c => resolved c = true) ref ->
  Forall (seq_ok ref) qs -> Forall (seq_ok ref) ts ->
  topranking_core o (map (udl_of ref) qs) (map (udl_of ref) ts) = spec_core o ref qs ts.
Proof.
  intros Vr Rr Hqs Hts. unfold topranking_core, spec_core.
  destruct (check_args_tr _ _ _ _ _ _ _ _ _ _) as [[sizes dists]|]; [|reflexivity]. destruct (o_table o); do 2 f_equal.
  all: rewrite map_map, map_length; apply map_ext_in; intros iq Hiq; rewrite Forall_forall in Hqs; specialize (Hqs iq Hiq);
    rewrite (classified_spec ref iq _ _ _ ts Vr Rr Hqs Hts); destruct (udl_ambc ref iq Vr Hqs) as [_ ->]; f_equal;
    destruct (Z.ltb_spec 0 (o_distpush o)); [apply push_mode_spec; lia|apply size_mode_spec].
Qed.
