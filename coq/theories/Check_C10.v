From GF Require Import Base Alphabet SymbolsDef FastaModel SnpsModel UpdownListModel Harness.
Definition check_C10 (c : list N * list N * gores) : N :=
  let '(ref, aln, g) := c in verdict g (list_cmd ref aln) (list_spec_cmd ref aln).
