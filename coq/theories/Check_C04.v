From Coq Require Import Floats.SpecFloat.
From GF Require Import Base Alphabet SymbolsDef FastaModel Float TopK CodonModel Indels VariantsModel ClosestModel Harness.
Open Scope N_scope.

Definition mk_region (x : list N * bool * list nat * list N) : region :=
  let '(n, r, p, t) := x in {| g_name := n; g_rev := r; g_pos := p; g_trans := t |}.

(* the `variants` command over: the (encoded, gapped) reference row and its ID as selected by the code, the regions
   as parsed by the code, the alignment file, and the options *)
Definition variants_cmd_model (ref refid : list N) (gs : list region) (msa : list N)
           (aggregate append_snp stdin : bool) (s e : Z) (thr : spec_float) : res (list N) :=
  bind (read_encoded false msa) (fun recs =>
    if stdin then
      match recs with
      | r0 :: rest =>
          if list_eqb (r_id r0) refid then
            let inter := inter_of gs (length (filter (fun c => negb (c =? 244)) (r_seq r0))) in
            variants_core aggregate append_snp s e thr refid (r_seq r0) gs inter rest
          else Err Other
      | [] => Err Other
      end
    else
      let inter := inter_of gs (length (filter (fun c => negb (c =? 244)) ref)) in
      variants_core aggregate append_snp s e thr refid ref gs inter recs).

Definition check_variants (c : list N * list N * list (list N * bool * list nat * list N) * list N *
                               (bool * bool * bool) * (Z * Z) * (N * Z * Z) * gores) : N :=
  let '(ref, refid, gs, msa, (aggregate, append_snp, stdin), (s, e), (tk, tm, te), g) := c in
  verdict_p g (variants_cmd_model ref refid (map mk_region gs) msa aggregate append_snp stdin s e (sf_norm tk tm te)) true.
