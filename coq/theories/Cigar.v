From Coq Require Import List Arith Lia Bool NArith.
Import ListNotations.

Inductive op := OM | OI | OD | ON | OS | OH | OP | OEq | OX.
Inductive cell := Star | Gap | Base (b : N).
Notation cigar := (list (op * nat)).

(* ---- model of getOneLine with the no-insertion operator table (pkg/sam/cigar.go:7) ---- *)
(* seq[q : q+len] panics when q+len exceeds the slice; None = that panic *)
Definition slice (seq : list N) (q len : nat) : option (list N) :=
  if q + len <=? length seq then Some (firstn len (skipn q seq)) else None.

Fixpoint walk (ops : cigar) (q : nat) (seq : list N) : option (list cell) :=
  match ops with
  | [] => Some []
  | (o, len) :: t =>
      match o with
      | OM | OEq | OX =>
          match slice seq q len, walk t (q + len) seq with
          | Some bs, Some rest => Some (map Base bs ++ rest) | _, _ => None end
      | OI | OS => walk t (q + len) seq
      | OD => option_map (app (repeat Gap len)) (walk t q seq)
      | ON => option_map (app (repeat Star len)) (walk t q seq)
      | OH | OP => walk t q seq
      end
  end.

Definition one_line (pos : nat) (ops : cigar) (seq : list N) (reflen : nat) : option (list cell) :=
  match walk ops 0 seq with
  | Some row => let l := repeat Star pos ++ row in
                if length l <=? reflen then Some (l ++ repeat Star (reflen - length l)) else None   (* make([]byte, negative) panics *)
  | None => None
  end.

(* ---- spec: the cell at reference position i, by walking with two counters; builds no list ---- *)
Fixpoint aligned (ops : cigar) (q r : nat) (seq : list N) (i : nat) : cell :=
  match ops with
  | [] => Star
  | (o, len) :: t =>
      let here := (r <=? i) && (i <? r + len) in
      match o with
      | OM | OEq | OX => if here then Base (nth (q + (i - r)) seq 0%N) else aligned t (q + len) (r + len) seq i
      | OD => if here then Gap else aligned t q (r + len) seq i
      | ON => if here then Star else aligned t q (r + len) seq i
      | OI | OS => aligned t (q + len) r seq i
      | OH | OP => aligned t q r seq i
      end
  end.

Definition cellat (row : list cell) (r i : nat) : cell := if i <? r then Star else nth (i - r) row Star.

Lemma cellat_app m row r i :
  cellat (m ++ row) r i = if i <? r then Star else if i <? r + length m then nth (i - r) m Star else cellat row (r + length m) i.
Proof.
  unfold cellat. destruct (Nat.ltb_spec i r); [reflexivity|].
  destruct (Nat.ltb_spec i (r + length m)).
  - apply app_nth1. lia.
  - destruct (Nat.ltb_spec i (r + length m)); [lia|]. rewrite app_nth2 by lia. f_equal. lia.
Qed.

Lemma nth_repeat_cell c k j : nth j (repeat c k) Star = if j <? k then c else Star.
Proof.
  revert j; induction k as [|k IH]; intros j; cbn; [destruct j; reflexivity|].
  destruct j as [|j]; [reflexivity|]. rewrite IH. reflexivity.
Qed.

Lemma nth_firstn_lt {A} (l : list A) len j d : j < len -> nth j (firstn len l) d = nth j l d.
Proof.
  revert l j; induction len as [|len IH]; intros l j Hj; [lia|].
  destruct l as [|a t]; [destruct j; reflexivity|]. destruct j as [|j]; [reflexivity|]. cbn. apply IH. lia.
Qed.
Lemma nth_skipn_add {A} (l : list A) q j d : nth j (skipn q l) d = nth (q + j) l d.
Proof.
  revert l; induction q as [|q IH]; intros l; [reflexivity|].
  destruct l as [|a t]; [destruct j; reflexivity|]. cbn. apply IH.
Qed.

Lemma slice_spec seq q len bs : slice seq q len = Some bs ->
  length bs = len /\ forall j, j < len -> nth j (map Base bs) Star = Base (nth (q + j) seq 0%N).
Proof.
  unfold slice. destruct (Nat.leb_spec (q + len) (length seq)) as [Hle|]; [|discriminate].
  intros [= <-]. split.
  - rewrite firstn_length, skipn_length. lia.
  - intros j Hj. rewrite (nth_indep _ Star (Base 0%N)) by (rewrite map_length, firstn_length, skipn_length; lia).
    rewrite map_nth. f_equal. rewrite nth_firstn_lt by exact Hj. apply nth_skipn_add.
Qed.

Theorem walk_cell ops : forall q seq row, walk ops q seq = Some row ->
  forall r i, cellat row r i = aligned ops q r seq i.
Proof.
  induction ops as [|[o len] t IH]; intros q seq row Hw r i.
  - injection Hw as <-. unfold cellat. cbn [aligned]. destruct (i <? r); [reflexivity|]. destruct (i - r); reflexivity.
  - cbn [walk aligned] in *.
    assert (HM : forall bs rest, slice seq q len = Some bs -> walk t (q + len) seq = Some rest -> row = map Base bs ++ rest ->
                 cellat row r i = if (r <=? i) && (i <? r + len) then Base (nth (q + (i - r)) seq 0%N) else aligned t (q + len) (r + len) seq i).
    { intros bs rest Hs Hr ->. destruct (slice_spec _ _ _ _ Hs) as [Hl Hn].
      rewrite cellat_app, map_length, Hl.
      destruct (Nat.ltb_spec i r) as [Hir|Hir].
      - destruct (Nat.leb_spec r i); [lia|]. cbn [andb]. rewrite <- (IH _ _ _ Hr). unfold cellat. destruct (Nat.ltb_spec i (r + len)); [reflexivity|lia].
      - destruct (Nat.leb_spec r i); [|lia]. cbn [andb]. destruct (Nat.ltb_spec i (r + len)).
        + apply Hn. lia.
        + apply (IH _ _ _ Hr). }
    assert (HR : forall c rest, walk t q seq = Some rest -> row = repeat c len ++ rest ->
                 cellat row r i = if (r <=? i) && (i <? r + len) then c else aligned t q (r + len) seq i).
    { intros c rest Hr ->. rewrite cellat_app, repeat_length.
      destruct (Nat.ltb_spec i r) as [Hir|Hir].
      - destruct (Nat.leb_spec r i); [lia|]. cbn [andb]. rewrite <- (IH _ _ _ Hr). unfold cellat. destruct (Nat.ltb_spec i (r + len)); [reflexivity|lia].
      - destruct (Nat.leb_spec r i); [|lia]. cbn [andb]. destruct (Nat.ltb_spec i (r + len)).
        + rewrite nth_repeat_cell. destruct (Nat.ltb_spec (i - r) len); [reflexivity|lia].
        + apply (IH _ _ _ Hr). }
    destruct o.
    all: try (destruct (slice seq q len) as [bs|] eqn:Hs; [|discriminate];
              destruct (walk t (q + len) seq) as [rest|] eqn:Hr; [|discriminate];
              injection Hw as <-; eapply HM; eauto).
    all: try (apply (IH _ _ _ Hw)).
    all: destruct (walk t q seq) as [rest|] eqn:Hr; [|discriminate]; cbn in Hw; injection Hw as <-.
    + exact (HR Gap rest eq_refl eq_refl).
    + exact (HR Star rest eq_refl eq_refl).
Qed.

(* the row built by getOneLine has the reference length and, at every reference position, the aligned cell *)
Theorem one_line_cell pos ops seq reflen row :
  one_line pos ops seq reflen = Some row ->
  length row = reflen /\ forall i, i < reflen -> nth i row Star = aligned ops 0 pos seq i.
Proof.
  unfold one_line. destruct (walk ops 0 seq) as [w|] eqn:Hw; [|discriminate].
  destruct (Nat.leb_spec (length (repeat Star pos ++ w)) reflen) as [Hle|]; [|discriminate].
  intros [= <-]. rewrite app_length, repeat_length in Hle. split.
  - rewrite !app_length, !repeat_length. lia.
  - intros i Hi. rewrite <- (walk_cell _ _ _ _ Hw pos i). unfold cellat.
    rewrite <- app_assoc.
    destruct (Nat.ltb_spec i pos).
    + rewrite app_nth1 by (rewrite repeat_length; lia). rewrite nth_repeat_cell. destruct (i <? pos); reflexivity.
    + rewrite app_nth2 by (rewrite repeat_length; lia). rewrite repeat_length.
      destruct (Nat.ltb_spec (i - pos) (length w)).
      * apply app_nth1; assumption.
      * rewrite app_nth2 by lia. rewrite nth_repeat_cell, (nth_overflow w) by lia.
        destruct (_ <? _); reflexivity.
Qed.
Print Assumptions one_line_cell.

(* example: POS 2 (0-based 1), 2S3=1X2N1P2M3D2M on a 30-base reference: -TGACNNGG---AG (before flank rewriting) *)
Example ex_row :
  option_map (firstn 14) (one_line 1 [(OS,2);(OEq,3);(OX,1);(ON,2);(OP,1);(OM,2);(OD,3);(OM,2)]
     [71;71;84;71;65;67;71;71;65;71]%N 30)
  = Some [Star; Base 84; Base 71; Base 65; Base 67; Star; Star; Base 71; Base 71; Gap; Gap; Gap; Base 65; Base 71]%N.
Proof. vm_compute. reflexivity. Qed.
