(* Properties_C05.v — C05: indels are reported in reference coordinates whatever the alignment's columns. *)
From Coq Require Import List Arith Lia Bool.
From GF Require Import Indels IndelsSpec.
Import ListNotations.

(* The scan of the code (alignment positions, the MSAToRef offset table which is 0 at reference-gap
   columns) reports exactly what the reference-coordinate machine `indels_ref` reports: an insertion is
   opened at P = number of reference bases to its left, grows over (reference gap, query base) columns,
   is untouched by double-gap columns and is emitted once at the next reference column or at the end;
   a deletion is opened at 1 + reference bases to its left, grows over reference columns with a query
   gap, is emitted once when a reference column carries a base, is dropped when it started at the first
   reference base, and is never emitted when it reaches the end.  Every alignment, any length. *)
Theorem C05_scan_is_reference_coordinates : forall cs, get_indels cs = indels_ref cs.
Proof. exact get_indels_ref_coords. Qed.
Print Assumptions C05_scan_is_reference_coordinates.

(* adding or removing columns that are gaps in both rows never changes the reported list *)
Theorem C05_invariant_under_double_gap_columns : forall pre post,
  get_indels (pre ++ (true, true) :: post) = get_indels (pre ++ post).
Proof. exact indels_invariant_under_double_gap_columns. Qed.
Print Assumptions C05_invariant_under_double_gap_columns.

(* ---- what the records MEAN, stated on the columns of the pairwise relation alone (no machine) ---- *)
(* `ins:P:L` is listed iff L >= 1 and exactly L columns with a reference gap and a query base have exactly P reference
   bases to their left (so the L bases sit immediately after reference base P; columns that are gaps in both rows,
   between or around them, do not count and do not split the run) *)
Theorem C05_ins_iff : forall cs P L, In (Ins P L) (get_indels cs) <-> 0 < L /\ L = inslen cs P.
Proof. exact ins_iff. Qed.
Print Assumptions C05_ins_iff.

(* `del:P:L` is listed iff reference bases P..P+L-1 are absent from the query, and bases P-1 and P+L both exist and are
   present: the run is maximal, and runs containing the first or the last reference base are not listed *)
Theorem C05_del_iff : forall cs P L,
  In (Del P L) (get_indels cs) <->
  1 < P /\ 0 < L /\ P + L <= refcols cs /\ (forall k, P <= k < P + L -> deleted cs k = true) /\
  deleted cs (P - 1) = false /\ deleted cs (P + L) = false.
Proof. exact del_iff. Qed.
Print Assumptions C05_del_iff.

(* one record per maximal run: nothing is listed twice, and a position carries at most one insertion and one deletion *)
Theorem C05_one_record_per_run : forall cs, NoDup (get_indels cs).
Proof. exact indels_nodup. Qed.
Print Assumptions C05_one_record_per_run.
Theorem C05_lengths_unique : forall cs P L L',
  (In (Ins P L) (get_indels cs) -> In (Ins P L') (get_indels cs) -> L = L') /\
  (In (Del P L) (get_indels cs) -> In (Del P L') (get_indels cs) -> L = L').
Proof. exact lengths_unique. Qed.
Print Assumptions C05_lengths_unique.

Example C05_example :
  get_indels [(false,false);(false,false);(false,false);(true,false);(true,false);(true,false);
              (false,false);(false,false);(false,true);(false,true);(false,false);(false,false);(false,true);(false,true)]
  = [Ins 3 3; Del 6 2].
Proof. exact ex_unit. Qed.
