(* Properties_C05.v — C05: indels are reported in reference coordinates whatever the alignment's columns. *)
From Coq Require Import List Arith Lia Bool.
From GF Require Import Indels.
Import ListNotations.

(* The scan of the code (alignment positions, the MSAToRef offset table which is 0 at reference-gap
   columns) reports exactly what the reference-coordinate machine `indels_ref` reports: an insertion is
   opened at P = number of reference bases to its left, grows over (reference gap, query base) columns,
   is untouched by double-gap columns and is emitted once at the next reference column or at the end;
   a deletion is opened at 1 + reference bases to its left, grows over reference columns with a query
   gap, is emitted once when a reference column carries a base, is dropped when it started at the first
   reference base, and is never emitted when it reaches the end.  Every alignment, any length. *)
Theorem C05_scan_is_reference_coordinates : forall cs, get_indels cs = indels_ref cs.
Proof. exact get_indels_ref_coords. Qed.
Print Assumptions C05_scan_is_reference_coordinates.

(* adding or removing columns that are gaps in both rows never changes the reported list *)
Theorem C05_invariant_under_double_gap_columns : forall pre post,
  get_indels (pre ++ (true, true) :: post) = get_indels (pre ++ post).
Proof. exact indels_invariant_under_double_gap_columns. Qed.
Print Assumptions C05_invariant_under_double_gap_columns.

Example C05_example :
  get_indels [(false,false);(false,false);(false,false);(true,false);(true,false);(true,false);
              (false,false);(false,false);(false,true);(false,true);(false,false);(false,false);(false,true);(false,true)]
  = [Ins 3 3; Del 6 2].
Proof. exact ex_unit. Qed.
