(* SamModel.v — model of `sam toMultiAlign` (pkg/sam/sam.go, cigar.go, toma.go; writers in fastaio).
   The SAM text is parsed by biogo/hts (trusted library): the model starts from parsed records.
   Definitions only. *)
From GF Require Import Base FastaModel Cigar.
Open Scope N_scope.

Record srec := { s_name : list N; s_flag : N; s_pos : nat;      (* 0-based leftmost position (SAM POS - 1) *)
                 s_cigar : list (op * nat); s_seq : list N }.

Definition cell_byte (c : cell) : N := match c with Star => 42 | Gap => 45 | Base b => b end.
Definition is_letter (b : N) : bool := ((65 <=? b) && (b <=? 90)) || ((97 <=? b) && (b <=? 122)).

(* groupSamRecords: drop unmapped (0x4) and secondary (0x100) records, then group consecutive equal names *)
Definition skipped (r : srec) : bool := N.testbit (s_flag r) 2 || N.testbit (s_flag r) 8.
Fixpoint group_from (cur : list srec) (name : list N) (l : list srec) : list (list srec) :=
  match l with
  | [] => [rev cur]
  | r :: t => if list_eqb (s_name r) name then group_from (r :: cur) name t
              else rev cur :: group_from [r] (s_name r) t
  end.
Definition group_records (l : list srec) : list (list srec) :=
  match filter (fun r => negb (skipped r)) l with
  | [] => []
  | r :: t => group_from [r] (s_name r) t
  end.

(* getNucFromSite on the bytes of one column *)
Definition dedup_bytes (l : list N) : list N :=
  fold_right (fun a acc => if existsb (N.eqb a) acc then acc else a :: acc) [] l.
Definition nuc_from_site (site : list N) : N :=
  let ss := dedup_bytes site in
  if Nat.ltb 1 (length (filter is_letter ss)) then 78
  else fold_left N.max ss 0.
Fixpoint transpose_n (n : nat) (rows : list (list N)) : list (list N) :=
  match n with
  | O => []
  | S k => map (fun r => hd 0 r) rows :: transpose_n k (map (@tl N) rows)
  end.
Definition flatten_rows (reflen : nat) (rows : list (list N)) : list N :=
  match rows with
  | [r] => r
  | _ => map nuc_from_site (transpose_n reflen rows)
  end.

Fixpoint all_some {A} (l : list (option A)) : option (list A) :=
  match l with [] => Some [] | Some a :: t => option_map (cons a) (all_some t) | None :: _ => None end.
Definition seq_from_block (reflen : nat) (block : list srec) : option (list N) :=
  option_map (fun rows => flatten_rows reflen (map (map cell_byte) rows))
             (all_some (map (fun r => one_line (s_pos r) (s_cigar r) (s_seq r) reflen) block)).

(* swapInNs / swapInGapsNs *)
Definition swap_pad (s : list N) : list N := map (fun b => if b =? 42 then 78 else b) s.
Fixpoint first_letter (i : nat) (s : list N) : option nat :=
  match s with [] => None | b :: t => if is_letter b then Some i else first_letter (S i) t end.
Fixpoint last_letter (i : nat) (s : list N) (acc : option nat) : option nat :=
  match s with [] => acc | b :: t => last_letter (S i) t (if is_letter b then Some i else acc) end.
Fixpoint mapi_from {A B} (f : nat -> A -> B) (i : nat) (l : list A) : list B :=
  match l with [] => [] | a :: t => f i a :: mapi_from f (S i) t end.
Definition swap_flank (s : list N) : list N :=
  let n := length s in
  let fi := match first_letter 0 s with Some i => i | None => n end in
  let li := match last_letter 0 s None with Some i => i | None => n end in
  mapi_from (fun i b => if b =? 42 then
                          (if Nat.ltb i fi then 45 else if Nat.ltb fi i && Nat.ltb i li then 78 else if Nat.ltb li i then 45 else b)
                        else b) 0%nat s.

(* checkArgs: -1 = not given; returns (start, end, trim) or an error *)
Definition check_args (reflen : nat) (ts te : Z) : option (nat * nat * bool) :=
  let s := if (ts =? -1)%Z then 1%Z else ts in
  let e := if (te =? -1)%Z then Z.of_nat reflen else te in
  let trim := negb (ts =? -1)%Z || negb (te =? -1)%Z in
  if ((Z.of_nat reflen <? s) || (s <? 1) || (Z.of_nat reflen <? e) || (e <? 1) || (e <? s))%Z then None
  else Some (Z.to_nat s, Z.to_nat e, trim).

Definition fasta_seq (pad trim : bool) (ts te : nat) (raw : list N) : list N :=
  let s := if pad then swap_pad raw else swap_flank raw in
  if trim then
    if pad then mapi_from (fun i b => if Nat.ltb i (ts - 1) || Nat.leb te i then 78 else b) 0%nat s
    else firstn (te - (ts - 1)) (skipn (ts - 1) s)
  else s.

(* the command: reference length (from the header), parsed records, options -> bytes *)
Definition toma_cmd (reflen : nat) (recs : list srec) (wrap : nat) (ts te : Z) (pad : bool) : res (list N) :=
  match check_args reflen ts te with
  | None => Err Other
  | Some (s, e, trim) =>
      (fix go (blocks : list (list srec)) : res (list N) :=
         match blocks with
         | [] => Ok []
         | b :: t =>
             match b, seq_from_block reflen b with
             | r0 :: _, Some raw =>
                 let sq := fasta_seq pad trim s e raw in
                 bind (go t) (fun rest =>
                   Ok ((if Nat.ltb 0 wrap then fasta_record_wrap wrap (s_name r0) sq else fasta_record (s_name r0) sq) ++ rest))
             | _, _ => Panic
             end
         end) (group_records recs)
  end.
