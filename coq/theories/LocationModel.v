(* LocationModel.v — C14: the GenBank location strings (pkg/genbank/location.go), at the level of bytes.
   GetPositions / IsReverse / unNestRecur / posFromRange / posFromJoin / posFromComp / isNested / splitOnOuterCommas,
   with Go's panics (index and slice bounds) as `Panic`.  Definitions only.
   Outside the model: non-ASCII bytes (Go ranges over runes), numbers of more than 18 digits (strconv.Atoi overflows). *)
From GF Require Import Base FastaModel.
Open Scope N_scope.

(* ---- strings ---- *)
Fixpoint dropwhile (p : N -> bool) (l : list N) : list N :=
  match l with [] => [] | c :: t => if p c then dropwhile p t else l end.
Definition trim_left (cut : list N) (l : list N) : list N := dropwhile (fun c => existsb (N.eqb c) cut) l.     (* strings.TrimLeft *)
Definition trim_right (cut : list N) (l : list N) : list N := rev (dropwhile (fun c => existsb (N.eqb c) cut) (rev l)).
(* strings.Split(s, "..") *)
Fixpoint split_dd (l : list N) (rcur : list N) : list (list N) :=
  match l with
  | [] => [rev rcur]
  | c :: t => if (c =? 46) && (match t with d :: _ => d =? 46 | [] => false end)
              then rev rcur :: match t with _ :: t' => split_dd t' [] | [] => [] end
              else split_dd t (c :: rcur)
  end.
(* strings.Split(s, ",") *)
Fixpoint split_comma (l : list N) (rcur : list N) : list (list N) :=
  match l with
  | [] => [rev rcur]
  | c :: t => if c =? 44 then rev rcur :: split_comma t [] else split_comma t (c :: rcur)
  end.
Fixpoint is_prefix (p l : list N) : bool :=
  match p, l with
  | [], _ => true
  | x :: p', y :: l' => (x =? y) && is_prefix p' l'
  | _, [] => false
  end.
Fixpoint contains (p l : list N) : bool :=                                              (* strings.Contains *)
  is_prefix p l || match l with [] => false | _ :: t => contains p t end.

(* strconv.Atoi on at most 18 digits: optional sign, then one or more digits *)
Definition atoi (l : list N) : option Z :=
  match l with
  | c :: t => if c =? 43 then option_map Z.of_N (parse_N t)
              else if c =? 45 then option_map (fun n => (- Z.of_N n)%Z) (parse_N t)
              else option_map Z.of_N (parse_N l)
  | [] => None
  end.

(* a..b ascending (empty when a > b), as the Go loops build it *)
Definition zrange (a b : Z) : list Z := map (fun i => (a + Z.of_nat i)%Z) (seq 0 (Z.to_nat (b - a + 1))).

(* ---- location.go ---- *)
(* isNested: some prefix has two more '(' than ')' *)
Fixpoint is_nested_from (d : Z) (l : list N) : bool :=
  match l with
  | [] => false
  | c :: t => let d' := if c =? 40 then (d + 1)%Z else if c =? 41 then (d - 1)%Z else d in
              if (1 <? d')%Z then true else is_nested_from d' t
  end.
Definition is_nested (l : list N) : bool := is_nested_from 0 l.

(* isNumeric(string(s[0])): ParseFloat of one ASCII character succeeds exactly on a digit *)
Definition is_numeric1 (c : N) : bool := is_digit c.
Definition is_range (l : list N) : bool := contains [46; 46] l.

Definition pos_from_range (s : list N) : res (list Z) :=
  match split_dd s [] with
  | [x; y] => match atoi x with
              | None => Err BadFormat
              | Some a => match atoi y with None => Err BadFormat | Some b => Ok (zrange a b) end
              end
  | _ => Err BadFormat
  end.

(* one a..b item of posFromJoin / posFromComp: f := Split(item, ".."); Atoi(f[0]); Atoi(f[1]) - f[1] panics when there is no ".." *)
Definition item_bounds (item : list N) : res (Z * Z) :=
  match split_dd item [] with
  | [] => Panic
  | x :: rest => match atoi x with
                 | None => Err BadFormat
                 | Some a => match rest with
                             | [] => Panic
                             | y :: _ => match atoi y with None => Err BadFormat | Some b => Ok (a, b) end
                             end
                 end
  end.
Definition cut_join : list N := bs "join(".
Definition cut_comp : list N := bs "complement(".
Fixpoint join_items (items : list (list N)) : res (list Z) :=
  match items with
  | [] => Ok []
  | it :: t => bind (item_bounds it) (fun ab => bind (join_items t) (fun r => Ok (zrange (fst ab) (snd ab) ++ r)))
  end.
Definition pos_from_join (s : list N) : res (list Z) :=
  join_items (split_comma (trim_right [41] (trim_left cut_join s)) []).
Definition pos_from_comp (s : list N) : res (list Z) :=
  bind (item_bounds (trim_right [41] (trim_left cut_comp s))) (fun ab => Ok (rev (zrange (fst ab) (snd ab)))).

(* splitOnOuterCommas *)
Fixpoint split_outer (d : Z) (l : list N) (rcur : list N) : list (list N) :=
  match l with
  | [] => [rev rcur]
  | c :: t => if c =? 40 then split_outer (d + 1)%Z t (c :: rcur)
              else if c =? 41 then split_outer (d - 1)%Z t (c :: rcur)
              else if (c =? 44) && (d =? 0)%Z then rev rcur :: split_outer d t []
              else split_outer d t (c :: rcur)
  end.

(* the index scan of unNestRecur: open_idx = index after the first '(', closed_idx = index of the last ')' at which
   as many ')' as '(' have been seen *)
Record scan := { sc_i : nat; sc_open : nat; sc_closed : nat; sc_oi : nat; sc_ci : nat }.
Definition scan_step (s : scan) (c : N) : scan :=
  let oi := if Nat.eqb (sc_open s) 1 && Nat.eqb (sc_oi s) 0 then sc_i s else sc_oi s in
  if c =? 40 then {| sc_i := S (sc_i s); sc_open := S (sc_open s); sc_closed := sc_closed s; sc_oi := oi; sc_ci := sc_ci s |}
  else if c =? 41 then
    let cl := S (sc_closed s) in
    {| sc_i := S (sc_i s); sc_open := sc_open s; sc_closed := cl; sc_oi := oi;
       sc_ci := if Nat.eqb (sc_open s) cl then sc_i s else sc_ci s |}
  else {| sc_i := S (sc_i s); sc_open := sc_open s; sc_closed := sc_closed s; sc_oi := oi; sc_ci := sc_ci s |}.
Definition scan0 := {| sc_i := 0; sc_open := 0; sc_closed := 0; sc_oi := 0; sc_ci := 0 |}.

Definition first4 (f : list N) : option (list N) := if Nat.ltb (length f) 4 then None else Some (firstn 4 f).
(* posFromJoin / posFromComp called with the error dropped: `pos, _ := ...` keeps the empty slice *)
Definition drop_err (r : res (list Z)) : res (list Z) := match r with Err _ => Ok [] | x => x end.

(* one field of unNestRecur: the positions it contributes; `rec` is the recursive call on the text between the parentheses *)
Definition field_general (rec : list N -> res (list (list Z))) (f : list N) : res (list Z) :=
  let sc := fold_left scan_step f scan0 in
  if Nat.ltb (sc_ci sc) (sc_oi sc) then Panic
  else
    let outer := firstn (sc_oi sc) f ++ skipn (sc_ci sc) f in
    let inner := firstn (sc_ci sc - sc_oi sc) (skipn (sc_oi sc) f) in
    bind (rec inner) (fun ir =>
      if list_eqb outer (bs "join()") then Ok (concat ir)
      else if list_eqb outer (bs "complement()")
           then match ir with [x] => Ok (rev x) | _ => Err BadFormat end
           else Ok []).
Definition field_one (rec : list N -> res (list (list Z))) (f : list N) : res (list Z) :=
  if is_nested f then field_general rec f
  else match first4 f with
       | None => Panic
       | Some h => if list_eqb h (bs "join") then drop_err (pos_from_join f)
                   else if list_eqb h (bs "comp") then drop_err (pos_from_comp f)
                   else field_general rec f
       end.
Fixpoint un_nest_fields (rec : list N -> res (list (list Z))) (fs : list (list N)) : res (list (list Z)) :=
  match fs with
  | [] => Ok []
  | f :: rest => bind (field_one rec f) (fun p => bind (un_nest_fields rec rest) (fun r => Ok (p :: r)))
  end.
Fixpoint un_nest (fuel : nat) (s : list N) : res (list (list Z)) :=
  match fuel with
  | O => Err Other
  | S fuel' => un_nest_fields (un_nest fuel') (split_outer 0 s [])
  end.

Definition get_positions (s : list N) : res (list Z) :=
  if is_nested s then
    match un_nest (S (S (length s))) s with
    | Ok [x] => Ok x
    | Panic => Panic
    | _ => Err BadFormat
    end
  else match s with
       | [] => Panic
       | c :: _ =>
           if is_numeric1 c then (if is_range s then pos_from_range s else Err BadFormat)
           else match first4 s with
                | None => Panic
                | Some h => if list_eqb h (bs "join") then pos_from_join s
                            else if list_eqb h (bs "comp") then pos_from_comp s
                            else Err BadFormat
                end
       end.

(* IsReverse after repair D14: an error of GetPositions is returned; otherwise "contains complement(" *)
Definition is_reverse (s : list N) : res bool :=
  bind (get_positions s) (fun _ => Ok (contains cut_comp s)).
(* ... and before: first position > last position (panics on an empty list) *)
Definition is_reverse_old (s : list N) : res bool :=
  bind (get_positions s) (fun ps => match ps with [] => Panic | p :: _ => Ok (last ps 0%Z <? p)%Z end).

(* ---- the location AST and its renderings (what a GenBank file writes for a CDS) ---- *)
Inductive loc :=
| LRange (ab : nat * nat)
| LJoin (segs : list (nat * nat))
| LComp (ab : nat * nat)
| LCompJoin (segs : list (nat * nat))
| LJoinComp (segs : list (nat * nat)).
Definition rng (ab : nat * nat) : list N := dec_nat (fst ab) ++ [46; 46] ++ dec_nat (snd ab).
Definition render (l : loc) : list N :=
  match l with
  | LRange ab => rng ab
  | LJoin segs => bs "join(" ++ join [44] (map rng segs) ++ [41]
  | LComp ab => bs "complement(" ++ rng ab ++ [41]
  | LCompJoin segs => bs "complement(join(" ++ join [44] (map rng segs) ++ [41; 41]
  | LJoinComp segs => bs "join(" ++ join [44] (map (fun ab => bs "complement(" ++ rng ab ++ [41]) segs) ++ [41]
  end.
Definition zr (ab : nat * nat) : list Z := zrange (Z.of_nat (fst ab)) (Z.of_nat (snd ab)).
Definition loc_positions (l : loc) : list Z :=
  match l with
  | LRange ab => zr ab
  | LJoin segs => concat (map zr segs)
  | LComp ab => rev (zr ab)
  | LCompJoin segs => rev (concat (map zr segs))
  | LJoinComp segs => concat (map (fun ab => rev (zr ab)) segs)
  end.
Definition loc_reverse (l : loc) : bool :=
  match l with LRange _ | LJoin _ => false | _ => true end.
