(* Properties_C03.v — C03: snps reports exactly the certainly-different sites, in reference order.
   Only theorem statements, each closed by `exact`, each followed by Print Assumptions. *)
From GF Require Import Base Alphabet Symbols FastaModel FastaProofs SnpsModel SnpsProofs.
Open Scope N_scope.

(* For EVERY pair of byte files the model of the command (reader over the dumped encoding
   tables, bitwise test, decoding) returns what the specification command returns: the
   records of the files, one row per record in input order, listing by spec_from the
   columns whose denoted base sets are disjoint; same errors on the same inputs. *)
Theorem C03_command_eq_spec : forall h ref aln,
  Forall (fun c => c < 256) ref -> Forall (fun c => c < 256) aln ->
  snps_cmd h ref aln = snps_spec_cmd h ref aln.
Proof. exact snps_cmd_eq_spec. Qed.
Print Assumptions C03_command_eq_spec.

(* the bitwise loop over encoded symbols lists exactly the spec's SNPs *)
Theorem C03_get_snps_spec : forall h ref que,
  all_valid ref -> all_valid que -> get_snps h ref que = spec_from h 0 ref que.
Proof. exact snps_row_spec. Qed.
Print Assumptions C03_get_snps_spec.

(* none is invented: every listed SNP is a 1-based column with disjoint base sets, printed as
   <REF><pos><QUE> in upper case *)
Theorem C03_listed_sound : forall h ref que s, In s (spec_from h 0 ref que) ->
  exists k, (k < length ref)%nat /\ (k < length que)%nat /\ s_pos s = 0 + N.of_nat k + 1 /\
            disjoint_sym h (nth k ref 0) (nth k que 0) = true /\
            s_ref s = [upper (nth k ref 0)] /\ s_que s = [upper (nth k que 0)].
Proof. intros h ref que s. exact (spec_from_positions h 0 ref que s). Qed.
Print Assumptions C03_listed_sound.

(* none is dropped *)
Theorem C03_listed_complete : forall h ref que k,
  (k < length ref)%nat -> (k < length que)%nat ->
  disjoint_sym h (nth k ref 0) (nth k que 0) = true ->
  In {| s_ref := [upper (nth k ref 0)]; s_pos := 0 + N.of_nat k + 1; s_que := [upper (nth k que 0)] |}
     (spec_from h 0 ref que).
Proof. intros h ref que k. exact (spec_from_complete h 0 ref que k). Qed.
Print Assumptions C03_listed_complete.

Theorem C03_ascending : forall h ref que, ascending (spec_from h 0 ref que).
Proof. intros h ref que. exact (spec_from_ascending h 0 ref que). Qed.
Print Assumptions C03_ascending.

(* letter case of the input never matters *)
Theorem C03_case_insensitive : forall h ref ref' que que',
  all_valid ref -> all_valid que -> all_valid ref' -> all_valid que' ->
  same_upto_case ref ref' -> same_upto_case que que' ->
  get_snps h ref que = get_snps h ref' que'.
Proof. exact snps_case_insensitive. Qed.
Print Assumptions C03_case_insensitive.

(* non-vacuity: a concrete alignment with ambiguity codes, gaps and mixed case *)
Example C03_example :
  snps_cmd false (bs ">ref" ++ [10] ++ bs "ACGTR-" ++ [10]) (bs ">q1 x" ++ [10] ++ bs "ATn" ++ [13;10] ++ bs "aC-" ++ [10])
  = Ok (bs "query,SNPs" ++ [10] ++ bs "q1,C2T|T4A|R5C" ++ [10]).
Proof. vm_compute. reflexivity. Qed.
