(* FastaModel.v — model of the FASTA readers (pkg/fastaio/fastaio.go: ReadAlignment,
   ReadEncodeAlignment, ReadEncodeScoreAlignment, ReadEncodeAlignmentToList; and
   pkg/variants/variants.go findReference) and of bufio.ScanLines.  Definitions only. *)
From GF Require Import Base Alphabet SymbolsDef.
Open Scope N_scope.

Notation line := (list N) (only parsing).

Inductive err := BadFormat | DiffLen | EmptyFile | BadSymbol | NoID | NotFound | Other.
Inductive res (A : Type) := Ok (a : A) | Err (e : err) | Panic.
Arguments Ok {A}. Arguments Err {A}. Arguments Panic {A}.

Definition bind {A B} (r : res A) (f : A -> res B) : res B :=
  match r with Ok a => f a | Err e => Err e | Panic => Panic end.

(* ---- bufio.ScanLines: split at LF, drop one trailing CR of each token; a final
   unterminated non-empty remainder is a token too.  (The 1 MiB token limit is outside
   the model: every modelled input has shorter lines.) *)
(* List.rev is quadratic; the reader reverses a whole line at once (lines of 70,000 symbols are evaluated by the checks) *)
Definition frev {A} (l : list A) : list A := rev_append l [].
Lemma frev_rev {A} (l : list A) : frev l = rev l.
Proof. unfold frev. symmetry. apply rev_alt. Qed.
Definition drop_cr_rev (rcur : list N) : list N :=
  match rcur with 13 :: r => frev r | _ => frev rcur end.
Lemma drop_cr_rev_spec rcur : drop_cr_rev rcur = match rcur with 13 :: r => rev r | _ => rev rcur end.
Proof.
  unfold drop_cr_rev. destruct rcur as [|x r]; [reflexivity|]. destruct x as [|p]; [apply frev_rev|].
  do 4 (destruct p as [p|p|]; try apply frev_rev).
Qed.
Fixpoint scan_aux (rcur : list N) (l : list N) : list (list N) :=
  match l with
  | [] => match rcur with [] => [] | _ => [drop_cr_rev rcur] end
  | c :: t => if c =? 10 then drop_cr_rev rcur :: scan_aux [] t else scan_aux (c :: rcur) t
  end.
Definition scan_lines (l : list N) : list (list N) := scan_aux [] l.

(* ---- strings.Fields(d)[0] on ASCII white space ---- *)
Definition is_space (c : N) : bool := (c =? 32) || ((9 <=? c) && (c <=? 13)).
Fixpoint take_token (d : list N) : list N :=
  match d with [] => [] | c :: t => if is_space c then [] else c :: take_token t end.
Fixpoint first_field (d : list N) : option (list N) :=
  match d with [] => None | c :: t => if is_space c then first_field t else Some (c :: take_token t) end.

Record rcd := { r_id : list N; r_desc : list N; r_seq : list N; r_idx : nat }.

Section Reader.
  (* symbol conversion: the encoding table (None = byte not in the alphabet) for the encoding
     readers, ASCII ToUpper for the plain reader *)
  Variable conv : N -> option N.
  (* repaired = true: the code as it is now (blank lines skipped, header without ID refused, a
     trailing empty record width-checked); false: the pinned snapshot, whose line[0] and
     Fields(..)[0] sites panic.  Kept for the refuted witnesses. *)
  Variable repaired : bool.

  Record st := { first : bool; cid : list N; cdesc : list N; buf : list N; width : nat; counter : nat; out : list rcd }.
  Definition init := {| first := true; cid := []; cdesc := []; buf := []; width := 0%nat; counter := 0%nat; out := [] |}.

  Fixpoint conv_line (l : list N) : option (list N) :=
    match l with
    | [] => Some []
    | c :: t => match conv c, conv_line t with Some e, Some r => Some (e :: r) | _, _ => None end
    end.

  Definition header (d : list N) : res (list N) :=
    match first_field d with Some i => Ok i | None => if repaired then Err NoID else Panic end.

  Definition step (s : st) (l : list N) : res st :=
    match l with
    | [] => if repaired then Ok s
            else if first s then Err BadFormat else Panic
    | c :: d =>
        if first s then
          if c =? 62 then
            bind (header d) (fun i =>
              Ok {| first := false; cid := i; cdesc := d; buf := []; width := width s; counter := counter s; out := out s |})
          else Err BadFormat
        else if c =? 62 then
          if negb (Nat.eqb (counter s) 0) && negb (Nat.eqb (length (buf s)) (width s)) then Err DiffLen
          else bind (header d) (fun i =>
                 Ok {| first := false; cid := i; cdesc := d; buf := [];
                       width := if Nat.eqb (counter s) 0 then length (buf s) else width s;
                       counter := S (counter s);
                       out := out s ++ [{| r_id := cid s; r_desc := cdesc s; r_seq := buf s; r_idx := counter s |}] |})
        else match conv_line l with
             | Some e => Ok {| first := false; cid := cid s; cdesc := cdesc s; buf := buf s ++ e;
                               width := width s; counter := counter s; out := out s |}
             | None => Err BadSymbol end
    end.

  Fixpoint run (s : st) (ls : list (list N)) : res st :=
    match ls with [] => Ok s | l :: t => bind (step s l) (fun s' => run s' t) end.

  Definition finish (s : st) : res (list rcd) :=
    let pending := if repaired then negb (Nat.eqb (length (buf s)) 0) || negb (Nat.eqb (counter s) 0)
                   else negb (Nat.eqb (length (buf s)) 0) in
    if pending then
      if negb (Nat.eqb (counter s) 0) && negb (Nat.eqb (length (buf s)) (width s)) then Err DiffLen
      else Ok (out s ++ [{| r_id := cid s; r_desc := cdesc s; r_seq := buf s; r_idx := counter s |}])
    else if Nat.eqb (counter s) 0 then Err EmptyFile else Ok (out s).

  Definition read_lines (ls : list (list N)) : res (list rcd) := bind (run init ls) finish.
  Definition read (file : list N) : res (list rcd) := read_lines (scan_lines file).
End Reader.

(* the three conversions in use *)
Definition conv_enc (hard : bool) (c : N) : option N := let e := enc hard c in if e =? 0 then None else Some e.
Definition conv_plain (c : N) : option N := Some (upper c).
(* spec-level conversion: symbols kept as written, validity by the Alphabet *)
Definition conv_raw (c : N) : option N := if valid c then Some c else None.

Definition read_encoded (hard : bool) := read (conv_enc hard) true.
Definition read_plain := read conv_plain true.

(* the scoring reader's extra fields, as functions of the encoded sequence *)
Definition seq_score (s : list N) : Z := fold_left (fun a e => (a + escore e)%Z) s 0%Z.
Definition count_eq (e : N) (s : list N) : nat := length (filter (N.eqb e) s).
Record scored := { sc_rec : rcd; sc_score : Z; sc_A : nat; sc_T : nat; sc_G : nat; sc_C : nat }.
Definition score_rec (r : rcd) : scored :=
  {| sc_rec := r; sc_score := seq_score (r_seq r);
     sc_A := count_eq 136 (r_seq r); sc_T := count_eq 24 (r_seq r);
     sc_G := count_eq 72 (r_seq r); sc_C := count_eq 40 (r_seq r) |}.
Definition read_scored (hard : bool) (file : list N) : res (list scored) :=
  bind (read_encoded hard file) (fun l => Ok (map score_rec l)).

(* findReference (variants): first record whose ID is refid; records before it are width-checked
   against each other, the found record itself is not, nothing after it is read. *)
Section FindRef.
  Variable refid : list N.
  Record fst_ := { f_first : bool; f_id : list N; f_desc : list N; f_buf : list N; f_width : nat; f_counter : nat; f_found : bool }.
  Definition finit := {| f_first := true; f_id := []; f_desc := []; f_buf := []; f_width := 0%nat; f_counter := 0%nat; f_found := false |}.
  (* inl = keep scanning, inr = returned *)
  Definition fstep (s : fst_) (l : list N) : res (fst_ + rcd) :=
    match l with
    | [] => Ok (inl s)
    | c :: d =>
        if f_first s then
          if c =? 62 then
            match first_field d with
            | None => Err NoID
            | Some i => Ok (inl {| f_first := false; f_id := i; f_desc := d; f_buf := []; f_width := f_width s;
                                   f_counter := f_counter s; f_found := list_eqb i refid |})
            end
          else Err BadFormat
        else if c =? 62 then
          if f_found s then Ok (inr {| r_id := f_id s; r_desc := f_desc s; r_seq := f_buf s; r_idx := f_counter s |})
          else if negb (Nat.eqb (f_counter s) 0) && negb (Nat.eqb (length (f_buf s)) (f_width s)) then Err DiffLen
          else match first_field d with
               | None => Err NoID
               | Some i => Ok (inl {| f_first := false; f_id := i; f_desc := d; f_buf := [];
                                      f_width := if Nat.eqb (f_counter s) 0 then length (f_buf s) else f_width s;
                                      f_counter := S (f_counter s); f_found := list_eqb i refid |})
               end
        else match conv_line (conv_enc false) l with
             | Some e => Ok (inl {| f_first := false; f_id := f_id s; f_desc := f_desc s; f_buf := f_buf s ++ e;
                                    f_width := f_width s; f_counter := f_counter s; f_found := f_found s |})
             | None => Err BadSymbol end
    end.
  Fixpoint frun (s : fst_) (ls : list (list N)) : res rcd :=
    match ls with
    | [] => if f_found s then Ok {| r_id := f_id s; r_desc := f_desc s; r_seq := f_buf s; r_idx := f_counter s |}
            else Err NotFound
    | l :: t => match fstep s l with
                | Ok (inl s') => frun s' t
                | Ok (inr r) => Ok r
                | Err e => Err e
                | Panic => Panic end
    end.
  Definition find_reference (file : list N) : res rcd := frun finit (scan_lines file).
End FindRef.

(* ---- writers (fastaio.WriteAlignment / WriteWrapAlignment), value level: ">" ID LF seq LF ---- *)
Definition fasta_record (id sq : list N) : list N := 62 :: id ++ [NL] ++ sq ++ [NL].
(* WriteWrapAlignment's inner loop: lines of w characters, the last one shorter; nothing for an
   empty sequence.  fuel = length of the sequence suffices when 0 < w. *)
Fixpoint wrap_lines (fuel : nat) (w : nat) (s : list N) : list N :=
  match s with
  | [] => []
  | _ => match fuel with
         | O => []
         | S f => if Nat.leb (length s) w then s ++ [NL]
                  else firstn w s ++ [NL] ++ wrap_lines f w (skipn w s)
         end
  end.
Definition fasta_record_wrap (w : nat) (id sq : list N) : list N :=
  62 :: id ++ [NL] ++ wrap_lines (length sq) w sq.
