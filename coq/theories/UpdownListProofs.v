(* UpdownListProofs.v — C10 *)
From Coq Require Import Sorting.Sorted.
From GF Require Import Base Alphabet Symbols FastaModel FastaProofs SnpsModel SnpsProofs UpdownListModel.
Open Scope nat_scope.

(* ---------- 1. reconstruction: the row determines the class of every column ---------- *)
Definition cur_ambs (s : lst) := if cont s then ambs s ++ [(astart s + 1, astop s + 1)] else ambs s.

Definition Inv (p : list cls) (s : lst) : Prop :=
  idx s = length p /\
  (forall q, In q (snps s) -> 1 <= q <= length p) /\
  (forall r, In r (ambs s) -> snd r <= length p /\ (cont s = true -> snd r < astart s + 1)) /\
  (cont s = true -> astart s <= astop s /\ astop s + 1 = length p) /\
  map (fun i => cell (snps s) (cur_ambs s) (i + 1)) (seq 0 (length p)) = p /\
  ambc s = length (filter is_am p).

Lemma in_ranges_app p a b : in_ranges p (a ++ b) = in_ranges p a || in_ranges p b.
Proof. unfold in_ranges. apply existsb_app. Qed.
Lemma in_ranges_one p a b : in_ranges p [(a, b)] = (a <=? p) && (p <=? b).
Proof. unfold in_ranges. cbn. apply orb_false_r. Qed.
Lemma existsb_snoc_nat p l x : existsb (Nat.eqb p) (l ++ [x]) = existsb (Nat.eqb p) l || Nat.eqb p x.
Proof. rewrite existsb_app. cbn. rewrite orb_false_r. reflexivity. Qed.
Lemma seq_snoc n : seq 0 (S n) = seq 0 n ++ [n].
Proof. rewrite seq_S. reflexivity. Qed.
Lemma not_in_ranges p rs : (forall r, In r rs -> snd r < p) -> in_ranges p rs = false.
Proof.
  intros H. unfold in_ranges. apply not_true_is_false. intros Hex. apply existsb_exists in Hex.
  destruct Hex as (r & Hr & Hb). apply andb_true_iff in Hb. destruct Hb as [_ Hb]. apply Nat.leb_le in Hb.
  specialize (H r Hr). lia.
Qed.

Lemma step_inv pre s c : Inv pre s -> Inv (pre ++ [c]) (lstep s c).
Proof.
  intros (Hidx & Hsn & Ham & Hco & Hmap & Hcnt).
  assert (Hlen : length (pre ++ [c]) = S (length pre)) by (rewrite app_length; cbn; lia).
  set (n := length pre) in *.
  assert (Hold : forall sn' rs',
            (forall q, q <= n -> existsb (Nat.eqb q) sn' = existsb (Nat.eqb q) (snps s)) ->
            (forall q, 1 <= q <= n -> in_ranges q rs' = in_ranges q (cur_ambs s)) ->
            map (fun i => cell sn' rs' (i + 1)) (seq 0 n) = pre).
  { intros sn' rs' H1 H2. etransitivity; [|exact Hmap]. apply map_ext_in. intros i Hi. apply in_seq in Hi.
    unfold cell. rewrite H1, H2 by lia. reflexivity. }
  assert (Hclosed : forall r, In r (ambs s) -> snd r < n + 1) by (intros r Hr; destruct (Ham r Hr); lia).
  unfold Inv. rewrite Hlen, seq_snoc, map_app. cbn [map]. fold n.
  destruct c as [d|]; unfold lstep; rewrite Hidx; fold n; cbn [idx cont astart astop snps ambs ambc].
  - assert (Hcur : forall r, In r (cur_ambs s) -> snd r < n + 1).
    { unfold cur_ambs. intros r Hr. destruct (cont s) eqn:Hc; [|apply Hclosed, Hr].
      apply in_app_or in Hr. destruct Hr as [Hr|[<-|[]]]; [apply Hclosed, Hr|cbn; destruct (Hco eq_refl); lia]. }
    split; [lia|]. split; [|split; [|split; [discriminate|split]]].
    + intros q Hq. destruct d; [apply in_app_or in Hq; destruct Hq as [Hq|[<-|[]]]; [apply Hsn in Hq|]; lia|apply Hsn in Hq; lia].
    + intros r Hr. split; [|discriminate]. fold (cur_ambs s) in Hr. specialize (Hcur r Hr). lia.
    + unfold cur_ambs at 1 2. cbn [cont ambs]. fold (cur_ambs s). f_equal.
      * apply Hold; [|reflexivity].
        intros q Hq. destruct d; [|reflexivity]. rewrite existsb_snoc_nat.
        destruct (Nat.eqb_spec q (n + 1)); [lia|]. apply orb_false_r.
      * f_equal. unfold cell. rewrite (not_in_ranges _ _ Hcur). f_equal. destruct d.
        -- rewrite existsb_snoc_nat, Nat.eqb_refl. apply orb_true_r.
        -- apply not_true_is_false. intros Hex. apply existsb_exists in Hex. destruct Hex as (q & Hq & He).
           apply Nat.eqb_eq in He. subst q. apply Hsn in Hq. lia.
    + rewrite filter_app, app_length. cbn. lia.
  - split; [lia|]. split; [|split; [|split; [|split]]].
    + intros q Hq. apply Hsn in Hq. lia.
    + intros r Hr. destruct (Ham r Hr) as [H1 H2]. split; [lia|]. intros _.
      destruct (cont s) eqn:Hc; [apply H2; reflexivity|lia].
    + intros _. destruct (cont s) eqn:Hc; [destruct (Hco eq_refl); lia|lia].
    + unfold cur_ambs at 1 2. cbn [cont ambs astart astop]. f_equal.
      * apply Hold; [reflexivity|].
        intros q Hq. unfold cur_ambs. rewrite in_ranges_app, in_ranges_one. destruct (cont s) eqn:Hc.
        -- rewrite in_ranges_app, in_ranges_one. f_equal. destruct (Hco eq_refl) as [_ Hst]. f_equal.
           destruct (Nat.leb_spec q (astop s + 1)), (Nat.leb_spec q (n + 1)); try reflexivity; lia.
        -- destruct (Nat.leb_spec (n + 1) q); [lia|]. cbn. apply orb_false_r.
      * f_equal. unfold cell. rewrite in_ranges_app, in_ranges_one, Nat.leb_refl, andb_true_r.
        replace ((if cont s then astart s else n) + 1 <=? n + 1) with true; [rewrite orb_true_r; reflexivity|].
        symmetry. apply Nat.leb_le. destruct (cont s) eqn:Hc; [destruct (Hco eq_refl); lia|lia].
    + rewrite filter_app, app_length. cbn. lia.
Qed.

Lemma fold_inv post : forall pre s, Inv pre s -> Inv (pre ++ post) (fold_left lstep post s).
Proof.
  induction post as [|c post IH]; intros pre s Hi; cbn [fold_left]; [rewrite app_nil_r; exact Hi|].
  replace (pre ++ c :: post) with ((pre ++ [c]) ++ post) by (rewrite <- app_assoc; reflexivity).
  apply IH, step_inv, Hi.
Qed.
Lemma inv_init : Inv [] linit.
Proof.
  unfold Inv, linit; cbn. split; [reflexivity|]. split; [intros q []|]. split; [intros r []|]. split; [discriminate|]. split; reflexivity.
Qed.

Theorem list_reconstructs cols : rebuild (length cols) (get_line cols) = cols.
Proof.
  unfold get_line. destruct (fold_inv cols [] linit inv_init) as (_ & _ & _ & _ & Hmap & _).
  cbn [app] in Hmap. unfold rebuild, lfinish. exact Hmap.
Qed.

Theorem list_ambcount cols : snd (get_line cols) = length (filter is_am cols).
Proof.
  unfold get_line. destruct (fold_inv cols [] linit inv_init) as (_ & _ & _ & _ & _ & Hc). exact Hc.
Qed.

(* ---------- 2. the row as a function of the columns: SNP positions ascending, ranges = maximal runs ---------- *)
Fixpoint runs (open : option nat) (i : nat) (cols : list cls) : list (nat * nat) :=
  match cols with
  | [] => match open with Some a => [(a, i - 1)] | None => [] end
  | Am :: t => runs (Some (match open with Some a => a | None => i end)) (S i) t
  | Kn _ :: t => match open with Some a => (a, i - 1) :: runs None (S i) t | None => runs None (S i) t end
  end.

Definition open_of (s : lst) : option nat := if cont s then Some (astart s + 1) else None.

Lemma fold_runs cols : forall s, (cont s = true -> astop s + 1 = idx s) ->
  lfinish (fold_left lstep cols s) =
  (snps s ++ spec_snp_pos (idx s + 1) cols, ambs s ++ runs (open_of s) (idx s + 1) cols,
   ambc s + length (filter is_am cols)).
Proof.
  induction cols as [|c t IH]; intros s Hs.
  - cbn [fold_left spec_snp_pos runs filter length]. unfold lfinish, open_of. rewrite app_nil_r, Nat.add_0_r.
    replace (idx s + 1 - 1) with (idx s) by lia.
    destruct (cont s) eqn:Hc; [|rewrite app_nil_r; reflexivity].
    rewrite (Hs eq_refl). reflexivity.
  - cbn [fold_left]. destruct c as [d|].
    + rewrite IH by (cbn; discriminate). unfold lstep, open_of. cbn [snps ambs ambc idx cont astart astop].
      cbn [spec_snp_pos runs filter is_am].
      replace (S (idx s) + 1) with (S (idx s + 1)) by lia.
      replace (idx s + 1 - 1) with (idx s) by lia.
      destruct (cont s) eqn:Hc.
      * rewrite (Hs eq_refl). destruct d; rewrite <- ?app_assoc; reflexivity.
      * destruct d; rewrite <- ?app_assoc; reflexivity.
    + rewrite IH by (cbn; lia). unfold lstep, open_of. cbn [snps ambs ambc idx cont astart astop].
      cbn [spec_snp_pos runs filter is_am length].
      replace (S (idx s) + 1) with (S (idx s + 1)) by lia.
      f_equal; [|lia]. f_equal. f_equal. destruct (cont s); [reflexivity|f_equal; lia].
Qed.

Theorem get_line_runs cols :
  get_line cols = (spec_snp_pos 1 cols, runs None 1 cols, length (filter is_am cols)).
Proof. unfold get_line. rewrite fold_runs by (cbn; discriminate). reflexivity. Qed.

(* runs = starts paired with stops, the declarative form of "maximal runs" *)
Definition hd_am (cols : list cls) : bool := match cols with c :: _ => is_am c | [] => false end.
Definition stops_from (prev_am : bool) (i : nat) (cols : list cls) : list nat :=
  (if prev_am && negb (hd_am cols) then [i - 1] else []) ++ run_stops i cols.

Lemma runs_starts_stops cols : forall open i,
  runs open i cols =
  combine ((match open with Some a => [a] | None => [] end) ++
           run_starts (match open with Some _ => true | None => false end) i cols)
          (stops_from (match open with Some _ => true | None => false end) i cols).
Proof.
  induction cols as [|c t IH]; intros open i.
  - unfold stops_from. cbn. destruct open; reflexivity.
  - destruct c as [d|].
    + cbn [runs]. destruct open as [a|].
      * rewrite IH. unfold stops_from. cbn [hd_am is_am negb andb run_starts run_stops app combine].
        reflexivity.
      * rewrite IH. unfold stops_from. cbn [hd_am is_am negb andb run_starts run_stops app combine].
        reflexivity.
    + cbn [runs]. rewrite IH. unfold stops_from. cbn [hd_am is_am negb andb run_starts run_stops app].
      replace (S i - 1) with i by lia.
      destruct open as [a|]; cbn [andb negb app]; destruct t as [|c' t']; cbn [hd_am is_am negb andb app];
        try reflexivity; destruct c'; cbn [is_am negb andb app]; reflexivity.
Qed.

Theorem get_line_spec cols :
  get_line cols = (spec_snp_pos 1 cols, spec_ranges cols, length (filter is_am cols)).
Proof.
  rewrite get_line_runs, runs_starts_stops. unfold spec_ranges, stops_from. reflexivity.
Qed.

(* ---------- 3. from bytes: the code's bit tests are the column classes of the spec ---------- *)
Open Scope N_scope.
Lemma classify_spec r q : r < 256 -> q < 256 -> valid r = true -> valid q = true ->
  classify (enc false r) (enc false q) = spec_class r q.
Proof.
  intros Hr Hq Vr Vq. unfold classify, spec_class.
  rewrite (resolved_iff false q Hq Vq), (enc_disjoint_iff false r q Hr Hq Vr Vq). reflexivity.
Qed.

Lemma cols_of_spec ref que : all_valid ref -> all_valid que ->
  cols_of (map (enc false) ref) (map (enc false) que) = spec_cols ref que.
Proof.
  intros Hr. revert que. induction Hr as [|r rt [Hr Vr] Hrt IH]; intros que Hq; [reflexivity|].
  destruct Hq as [|q qt [Hq Vq] Hqt]; [reflexivity|]. cbn [map cols_of spec_cols].
  rewrite classify_spec, IH by assumption. reflexivity.
Qed.

Open Scope nat_scope.
Lemma spec_snp_pos_bounds cols : forall i p, In p (spec_snp_pos i cols) -> i <= p < i + length cols.
Proof.
  induction cols as [|c t IH]; intros i p H; [contradiction|]. cbn [spec_snp_pos length] in *.
  destruct c as [[|]|]; [destruct H as [<-|H]; [lia|]| |]; apply IH in H; lia.
Qed.
Lemma spec_cols_length ref que : length (spec_cols ref que) = Nat.min (length ref) (length que).
Proof. revert que; induction ref as [|r rt IH]; intros [|q qt]; cbn; auto. Qed.

Lemma snp_text_spec ref que p : all_valid ref -> all_valid que ->
  1 <= p <= Nat.min (length ref) (length que) ->
  snp_text (map (enc false) ref) (map (enc false) que) p = spec_snp_text ref que p.
Proof.
  intros Hr Hq Hp. unfold snp_text, spec_snp_text.
  assert (A : forall l, all_valid l -> p - 1 < length l ->
              dec (nth (p - 1) (map (enc false) l) 0%N) = [upper (nth (p - 1) l 0%N)]).
  { intros l Hl Hlt. rewrite (nth_indep _ 0%N (enc false 0%N)) by (rewrite map_length; exact Hlt).
    rewrite map_nth. unfold all_valid in Hl. rewrite Forall_forall in Hl.
    destruct (Hl (nth (p - 1) l 0%N) (nth_In _ _ Hlt)) as [H1 H2]. apply dec_enc; assumption. }
  rewrite (A ref Hr), (A que Hq) by lia. reflexivity.
Qed.

Lemma list_row_spec ref r : all_valid ref -> all_valid (r_seq r) ->
  list_row (map (enc false) ref) (map_rcd (enc false) r) = spec_list_row ref r.
Proof.
  intros Hr Hq. unfold list_row, spec_list_row. cbn [map_rcd r_seq r_id].
  rewrite cols_of_spec by assumption. rewrite get_line_spec. f_equal.
  apply map_ext_in. intros p Hp. apply spec_snp_pos_bounds in Hp. rewrite spec_cols_length in Hp.
  apply snp_text_spec; [assumption|assumption|lia].
Qed.

Lemma list_rows_spec ref recs : all_valid ref -> Forall (fun r => all_valid (r_seq r)) recs ->
  list_rows (map (enc false) ref) (map (map_rcd (enc false)) recs) = spec_list_rows ref recs.
Proof.
  intros Hr. induction 1 as [|r t Hq Ht IH]; [reflexivity|].
  cbn [map list_rows spec_list_rows]. cbn [map_rcd r_seq]. rewrite !map_length.
  destruct (Nat.eqb _ _); [|reflexivity]. rewrite IH.
  change {| r_id := r_id r; r_desc := r_desc r; r_seq := map (enc false) (r_seq r); r_idx := r_idx r |} with (map_rcd (enc false) r).
  rewrite list_row_spec by assumption. reflexivity.
Qed.

Theorem list_cmd_eq_spec ref aln :
  Forall (fun c => (c < 256)%N) ref -> Forall (fun c => (c < 256)%N) aln ->
  list_cmd ref aln = list_spec_cmd ref aln.
Proof.
  intros Hr Ha. unfold list_cmd, list_spec_cmd. rewrite (read_encoded_raw false ref Hr), (read_encoded_raw false aln Ha).
  destruct (read conv_raw true ref) as [refs| |] eqn:Er; cbn [map_res bind]; try reflexivity.
  pose proof (read_seq_P conv_raw _ conv_raw_valid true ref refs Er) as Pr.
  destruct refs as [|r0 [|r1 rest]]; cbn [map]; try reflexivity.
  destruct (read conv_raw true aln) as [recs| |] eqn:Ea; cbn [map_res bind]; try reflexivity.
  pose proof (read_seq_P conv_raw _ conv_raw_valid true aln recs Ea) as Pa.
  cbn [map_rcd r_seq]. rewrite list_rows_spec; [reflexivity| |exact Pa].
  inversion Pr; assumption.
Qed.

(* ---------- 4. shape of the row: ranges are maximal (disjoint, ascending, not adjacent), SNPs ascending ---------- *)
Definition gapped (r1 r2 : nat * nat) : Prop := snd r1 + 1 < fst r2.
Lemma runs_shape cols : forall open i, 1 <= i ->
  (forall a, open = Some a -> 1 <= a < i) ->
  StronglySorted gapped (runs open i cols) /\
  Forall (fun r => fst r <= snd r /\ (match open with Some a => a | None => i end) <= fst r /\ snd r < i + length cols) (runs open i cols).
Proof.
  induction cols as [|c t IH]; intros open i Hi Ho.
  - cbn [runs length]. destruct open as [a|]; [|split; constructor].
    specialize (Ho a eq_refl). split; [repeat constructor|]. constructor; [cbn; lia|constructor].
  - destruct c as [d|]; cbn [runs length].
    + destruct open as [a|].
      * specialize (Ho a eq_refl). destruct (IH None (S i) ltac:(lia) ltac:(discriminate)) as [S1 F1]. split.
        -- constructor; [exact S1|]. eapply Forall_impl; [|exact F1]. intros r (H1 & H2 & H3). unfold gapped. cbn. lia.
        -- constructor; [cbn; lia|]. eapply Forall_impl; [|exact F1]. intros r (H1 & H2 & H3). lia.
      * destruct (IH None (S i) ltac:(lia) ltac:(discriminate)) as [S1 F1]. split; [exact S1|].
        eapply Forall_impl; [|exact F1]. intros r (H1 & H2 & H3). lia.
    + destruct open as [a|].
      * specialize (Ho a eq_refl). destruct (IH (Some a) (S i) ltac:(lia) ltac:(intros ? [= <-]; lia)) as [S1 F1]. split; [exact S1|].
        eapply Forall_impl; [|exact F1]. intros r (H1 & H2 & H3). lia.
      * destruct (IH (Some i) (S i) ltac:(lia) ltac:(intros ? [= <-]; lia)) as [S1 F1]. split; [exact S1|].
        eapply Forall_impl; [|exact F1]. intros r (H1 & H2 & H3). lia.
Qed.

Theorem list_ranges_maximal cols :
  let '(_, rs, _) := get_line cols in
  StronglySorted gapped rs /\ Forall (fun r => 1 <= fst r <= snd r /\ snd r <= length cols) rs.
Proof.
  rewrite get_line_runs. destruct (runs_shape cols None 1 ltac:(lia) ltac:(discriminate)) as [S1 F1]. split; [exact S1|].
  eapply Forall_impl; [|exact F1]. intros r (H1 & H2 & H3). lia.
Qed.

Lemma spec_snp_pos_sorted cols : forall i, StronglySorted lt (spec_snp_pos i cols).
Proof.
  induction cols as [|c t IH]; intros i; [constructor|]. cbn [spec_snp_pos].
  destruct c as [[|]|]; try apply IH. constructor; [apply IH|].
  apply Forall_forall. intros p Hp. apply spec_snp_pos_bounds in Hp. lia.
Qed.

(* the SNP list is exactly the Kn true columns *)
Lemma spec_snp_pos_iff cols : forall i p, In p (spec_snp_pos i cols) <-> (i <= p /\ nth_error cols (p - i) = Some (Kn true)).
Proof.
  induction cols as [|c t IH]; intros i p.
  - cbn. split; [intros []|]. intros [_ H]. destruct (p - i); discriminate.
  - cbn [spec_snp_pos]. destruct c as [[|]|].
    + cbn [In]. rewrite IH. split.
      * intros [<-|[H1 H2]]; [rewrite Nat.sub_diag; cbn; split; [lia|reflexivity]|].
        split; [lia|]. replace (p - i) with (S (p - S i)) by lia. exact H2.
      * intros [H1 H2]. destruct (Nat.eq_dec i p) as [->|Hne]; [left; reflexivity|right].
        split; [lia|]. replace (p - i) with (S (p - S i)) in H2 by lia. exact H2.
    + rewrite IH. split.
      * intros [H1 H2]. split; [lia|]. replace (p - i) with (S (p - S i)) by lia. exact H2.
      * intros [H1 H2]. destruct (Nat.eq_dec i p) as [->|Hne]; [rewrite Nat.sub_diag in H2; discriminate|].
        split; [lia|]. replace (p - i) with (S (p - S i)) in H2 by lia. exact H2.
    + rewrite IH. split.
      * intros [H1 H2]. split; [lia|]. replace (p - i) with (S (p - S i)) by lia. exact H2.
      * intros [H1 H2]. destruct (Nat.eq_dec i p) as [->|Hne]; [rewrite Nat.sub_diag in H2; discriminate|].
        split; [lia|]. replace (p - i) with (S (p - S i)) in H2 by lia. exact H2.
Qed.
