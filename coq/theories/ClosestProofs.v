(* ClosestProofs.v — C06 (ranking) *)
From Coq Require Import Floats.SpecFloat.
From GF Require Import Base Alphabet Symbols FastaModel Float TopK ClosestModel.

(* ---------- TopK only evaluates the order on elements of its input ---------- *)
Section Ext.
  Variable E : Type.
  Variables lt1 lt2 : E -> E -> bool.
  Variable P : E -> Prop.
  Hypothesis agree : forall x y, P x -> P y -> lt1 x y = lt2 x y.

  Lemma ins_ext x l : P x -> Forall P l -> ins E lt1 x l = ins E lt2 x l.
  Proof.
    intros Hx. induction 1 as [|a t Ha Ht IH]; [reflexivity|]. cbn [ins]. rewrite (agree x a Hx Ha), IH. reflexivity.
  Qed.
  Lemma ins_P lt x l : P x -> Forall P l -> Forall P (ins E lt x l).
  Proof.
    intros Hx. induction 1 as [|a t Ha Ht IH]; cbn [ins]; [repeat constructor; exact Hx|].
    destruct (lt x a); repeat constructor; assumption.
  Qed.
  Lemma ssort_ext_P l : Forall P l -> ssort E lt1 l = ssort E lt2 l /\ Forall P (ssort E lt2 l).
  Proof.
    unfold ssort. intros H.
    assert (G : forall acc, Forall P acc ->
               fold_left (fun acc x => ins E lt1 x acc) l acc = fold_left (fun acc x => ins E lt2 x acc) l acc /\
               Forall P (fold_left (fun acc x => ins E lt2 x acc) l acc)).
    { induction H as [|x t Hx Ht IH]; intros acc Hacc; cbn [fold_left]; [split; [reflexivity|exact Hacc]|].
      rewrite (ins_ext x acc Hx Hacc). apply IH. apply ins_P; assumption. }
    apply G. constructor.
  Qed.
  Lemma ssort_ext l : Forall P l -> ssort E lt1 l = ssort E lt2 l.
  Proof. intros H. apply ssort_ext_P. exact H. Qed.

  Lemma Forall_firstn_P n (l : list E) : Forall P l -> Forall P (firstn n l).
  Proof. revert n; induction l as [|a t IH]; intros [|n] H; cbn; try constructor; inversion H; subst; auto. Qed.

  Lemma last_opt_P c w : Forall P c -> last_opt E c = Some w -> P w.
  Proof.
    unfold last_opt. intros H Hw. destruct (rev c) as [|y r] eqn:Er; [discriminate|]. injection Hw as ->.
    rewrite Forall_forall in H. apply H. apply in_rev. rewrite Er. left. reflexivity.
  Qed.

  Lemma step_ext K c x : Forall P c -> P x -> step E lt1 K c x = step E lt2 K c x /\ Forall P (step E lt2 K c x).
  Proof.
    intros Hc Hx. unfold step.
    assert (Hcx : Forall P (c ++ [x])) by (apply Forall_app; split; [exact Hc|repeat constructor; exact Hx]).
    destruct (ssort_ext_P (c ++ [x]) Hcx) as [E1 P1].
    destruct (length c <? K)%nat.
    - destruct (length (c ++ [x]) =? K)%nat; [rewrite E1; split; [reflexivity|apply Forall_firstn_P; exact P1]|split; [reflexivity|exact Hcx]].
    - destruct (last_opt E c) as [w|] eqn:Ew; [|split; [reflexivity|exact Hc]].
      rewrite (agree x w Hx (last_opt_P c w Hc Ew)). destruct (lt2 x w); [rewrite E1; split; [reflexivity|apply Forall_firstn_P; exact P1]|split; [reflexivity|exact Hc]].
  Qed.

  Lemma online_ext K xs : Forall P xs -> online E lt1 K xs = online E lt2 K xs.
  Proof.
    intros H. unfold online.
    assert (G : forall c, Forall P c -> fold_left (step E lt1 K) xs c = fold_left (step E lt2 K) xs c /\ Forall P (fold_left (step E lt2 K) xs c)).
    { induction H as [|x t Hx Ht IH]; intros c Hc; cbn [fold_left]; [split; [reflexivity|exact Hc]|].
      destruct (step_ext K c x Hc Hx) as [E1 P1]. rewrite E1. apply IH. exact P1. }
    destruct (G [] ltac:(constructor)) as [E1 P1]. rewrite E1. unfold finish.
    destruct ((_ <? _)%nat && _); [|reflexivity]. rewrite (ssort_ext _ P1). reflexivity.
  Qed.
End Ext.

(* ---------- the key order, through the lexicographic code of a float ---------- *)
Open Scope Z_scope.
Definition key_code_lt (x y : cand) : bool :=
  lex_lt (code (k_dist x)) (code (k_dist y)) || (lex_eq (code (k_dist x)) (code (k_dist y)) && (k_score y <? k_score x)).
Definition defined_key (c : cand) : Prop := is_nan (k_dist c) = false.

Lemma key_lt_code x y : defined_key x -> defined_key y -> key_lt x y = key_code_lt x y.
Proof. intros Hx Hy. unfold key_lt, key_code_lt. rewrite f64_ltb_code, f64_eqb_code by assumption. reflexivity. Qed.

Definition KL (x y : cand) : Prop :=
  let '(a1, a2, a3) := code (k_dist x) in let '(b1, b2, b3) := code (k_dist y) in
  (a1 < b1 \/ (a1 = b1 /\ (a2 < b2 \/ (a2 = b2 /\ a3 < b3)))) \/
  ((a1 = b1 /\ a2 = b2 /\ a3 = b3) /\ k_score y < k_score x).
Lemma kc_reflect x y : key_code_lt x y = true <-> KL x y.
Proof.
  unfold key_code_lt, KL, lex_lt, lex_eq.
  destruct (code (k_dist x)) as [[a1 a2] a3], (code (k_dist y)) as [[b1 b2] b3].
  rewrite !orb_true_iff, !andb_true_iff, !orb_true_iff, !andb_true_iff, !Z.ltb_lt, !Z.eqb_eq. tauto.
Qed.
Lemma kc_reflect_f x y : key_code_lt x y = false <-> ~ KL x y.
Proof. rewrite <- kc_reflect. split; [intros H; rewrite H; discriminate|apply not_true_is_false]. Qed.

Lemma kc_irrefl x : key_code_lt x x = false.
Proof. apply kc_reflect_f. unfold KL. destruct (code (k_dist x)) as [[a1 a2] a3]. lia. Qed.
Lemma kc_trans x y z : key_code_lt x y = true -> key_code_lt y z = true -> key_code_lt x z = true.
Proof.
  rewrite !kc_reflect. unfold KL.
  destruct (code (k_dist x)) as [[a1 a2] a3], (code (k_dist y)) as [[b1 b2] b3], (code (k_dist z)) as [[c1 c2] c3]. lia.
Qed.
Lemma kc_ntrans x y z : key_code_lt x y = false -> key_code_lt y z = false -> key_code_lt x z = false.
Proof.
  rewrite !kc_reflect_f. unfold KL.
  destruct (code (k_dist x)) as [[a1 a2] a3], (code (k_dist y)) as [[b1 b2] b3], (code (k_dist z)) as [[c1 c2] c3]. lia.
Qed.
Close Scope Z_scope.

(* ---------- the bounded catchment returns the first K of the stable sort of the targets within D ---------- *)
Theorem closestN_spec K maxd l : (0 < K)%nat -> Forall defined_key l ->
  find_closest_n K maxd l = closest_spec K maxd l.
Proof.
  intros HK Hl. unfold find_closest_n, closest_spec.
  assert (Hf : Forall defined_key (filter (within maxd) l)).
  { apply Forall_forall. intros c Hc. apply filter_In in Hc as [Hc _]. rewrite Forall_forall in Hl. auto. }
  rewrite (online_ext cand key_lt key_code_lt defined_key key_lt_code K _ Hf).
  rewrite (online_topk_eq_sorted_prefix cand key_code_lt kc_irrefl kc_trans kc_ntrans K _ HK).
  rewrite (ssort_ext cand key_lt key_code_lt defined_key key_lt_code _ Hf). reflexivity.
Qed.

(* plain closest = closest -n 1 *)
Lemma best_from_step cur r : fold_left (step cand key_lt 1) r [cur] = [best_from cur r].
Proof.
  revert cur. induction r as [|t r IH]; intros cur; cbn [fold_left best_from]; [reflexivity|].
  replace (step cand key_lt 1 [cur] t) with [if key_lt t cur then t else cur].
  - rewrite IH. unfold key_lt. destruct (f64_ltb (k_dist t) (k_dist cur)); [reflexivity|].
    cbn [orb]. destruct (f64_eqb (k_dist t) (k_dist cur) && (k_score cur <? k_score t)%Z); reflexivity.
  - unfold step, last_opt. cbn. destruct (key_lt t cur); reflexivity.
Qed.

Theorem closest1_eq_topk1 l : Forall defined_key l -> find_closest l = hd_error (closest_spec 1 None l).
Proof.
  intros Hl. rewrite <- closestN_spec by (auto). unfold find_closest_n.
  assert (Hf : filter (within None) l = l).
  { clear Hl. induction l as [|a t IH]; cbn; [reflexivity|]. rewrite IH. reflexivity. }
  rewrite Hf. destruct l as [|t r]; [reflexivity|]. unfold find_closest, online. cbn [fold_left].
  replace (step cand key_lt 1 [] t) with [t] by reflexivity. rewrite best_from_step. reflexivity.
Qed.

(* ---------- an undefined distance never displaces a defined one ---------- *)
Definition undefined (c : cand) : Prop := k_dist c = f64_inf.
Definition finite_dist (c : cand) : Prop :=
  match k_dist c with S754_finite _ _ _ | S754_zero _ => True | _ => False end.

Lemma finite_before_undefined d u : finite_dist d -> undefined u -> key_code_lt d u = true /\ key_code_lt u d = false.
Proof.
  unfold finite_dist, undefined, key_code_lt. intros Hd ->. destruct (k_dist d) as [s|s| |s m e]; try contradiction.
  - split; reflexivity.
  - destruct s; split; reflexivity.
Qed.

Lemma sorted_firstn_closed (l : list cand) : sorted cand key_code_lt l -> forall K u d,
  In u (firstn K l) -> In d l -> key_code_lt d u = true -> In d (firstn K l).
Proof.
  induction l as [|x t IH]; intros Hs K u d Hu Hd Hlt; [contradiction|].
  destruct Hs as [Hx Ht]. destruct K as [|k]; [contradiction|]. cbn [firstn] in *.
  destruct Hu as [<-|Hu].
  - destruct Hd as [->|Hd]; [rewrite kc_irrefl in Hlt; discriminate|]. rewrite (Hx d Hd) in Hlt. discriminate.
  - destruct Hd as [->|Hd]; [left; reflexivity|right]. eapply IH; eassumption.
Qed.

Theorem undefined_never_displaces K maxd l u d : Forall defined_key l ->
  In u (closest_spec K maxd l) -> undefined u ->
  In d (filter (within maxd) l) -> finite_dist d -> In d (closest_spec K maxd l).
Proof.
  intros Hl Hu Uu Hd Fd. unfold closest_spec in *.
  assert (Hf : Forall defined_key (filter (within maxd) l)).
  { apply Forall_forall. intros c Hc. apply filter_In in Hc as [Hc _]. rewrite Forall_forall in Hl. auto. }
  rewrite (ssort_ext cand key_lt key_code_lt defined_key key_lt_code _ Hf) in *.
  eapply sorted_firstn_closed; [apply ssort_sorted; [exact kc_irrefl|exact kc_trans]|exact Hu| |apply finite_before_undefined; assumption].
  clear -Hd. generalize dependent (filter (within maxd) l). intros l0 Hd. unfold ssort.
  assert (G : forall acc, In d acc \/ In d l0 -> In d (fold_left (fun acc x => ins cand key_code_lt x acc) l0 acc)).
  { clear Hd. induction l0 as [|a t IH]; intros acc [H|H]; cbn [fold_left]; try assumption; try contradiction.
    - apply IH. left. apply ins_In. right. exact H.
    - destruct H as [->|H]; apply IH; [left; apply ins_In; left; reflexivity|right; exact H]. }
  apply G. right. exact Hd.
Qed.

(* every candidate a command builds has a defined key (NaN has been mapped to +Inf) *)
Lemma mk_cands_defined measure oracle q ts : Forall defined_key (mk_cands measure oracle q ts).
Proof.
  unfold mk_cands. apply Forall_forall. intros c Hc. apply in_map_iff in Hc as ([t o] & <- & _).
  unfold defined_key. cbn [k_dist]. unfold nan_to_inf.
  match goal with |- is_nan (if is_nan ?x then _ else _) = false => destruct (is_nan x) eqn:E; [reflexivity|exact E] end.
Qed.

(* ---------- command level: the model commands equal the spec commands on every input ---------- *)
Theorem closestn_cmd_eq_spec K maxd measure table oracle qf tf :
  closestn_cmd K maxd measure table oracle qf tf = closestn_spec_cmd K maxd measure table oracle qf tf.
Proof.
  unfold closestn_cmd, closestn_spec_cmd, closestn_gen.
  destruct (read_encoded false qf) as [qs| |]; cbn [bind]; try reflexivity.
  destruct (read_scored false tf) as [ts| |]; cbn [bind]; try reflexivity.
  destruct (negb (width_ok qs ts)); [reflexivity|].
  assert (HK : (0 < match K with O => S (length ts) | S _ => K end)%nat) by (destruct K; lia).
  destruct table; do 4 apply f_equal; apply map_ext; intros q;
    rewrite closestN_spec by (try exact HK; apply mk_cands_defined); reflexivity.
Qed.

Theorem closest_cmd_eq_spec measure oracle qf tf :
  closest_cmd measure oracle qf tf = closest_spec_cmd measure oracle qf tf.
Proof.
  unfold closest_cmd, closest_spec_cmd, closest_gen.
  destruct (read_encoded false qf) as [qs| |]; cbn [bind]; try reflexivity.
  destruct (read_scored false tf) as [ts| |]; cbn [bind]; try reflexivity.
  destruct (negb (width_ok qs ts)); [reflexivity|].
  do 4 apply f_equal. apply map_ext; intros q.
  rewrite closest1_eq_topk1 by apply mk_cands_defined. reflexivity.
Qed.
