(* SnpsAggModel.v — snps --aggregate (pkg/snps/snps.go aggregateWriteOutput).  Definitions only. *)
From Coq Require Import Floats.SpecFloat.
From GF Require Import Base Alphabet SymbolsDef FastaModel Float TopK SnpsModel.
Open Scope N_scope.

Definition snp_eqb (a b : snp) : bool := list_eqb (s_ref a) (s_ref b) && (s_pos a =? s_pos b) && list_eqb (s_que a) (s_que b).
Fixpoint count_snp (k : snp) (cs : list (snp * nat)) : list (snp * nat) :=
  match cs with
  | [] => [(k, 1%nat)]
  | (k', n) :: t => if snp_eqb k k' then (k', S n) :: t else (k', n) :: count_snp k t
  end.
(* sort key of the code: position, then the last byte of the text (the query allele) *)
Definition snp_lt (a b : snp * nat) : bool :=
  let alt x := last (s_que (fst x)) 0 in
  (s_pos (fst a) <? s_pos (fst b)) || ((s_pos (fst a) =? s_pos (fst b)) && (alt a <? alt b)).

Fixpoint snps_lists (refseq : list N) (recs : list rcd) : res (list (list snp)) :=
  match recs with
  | [] => Ok []
  | r :: t => if Nat.eqb (length (r_seq r)) (length refseq)
              then bind (snps_lists refseq t) (fun rest => Ok (get_snps_from 0 refseq (r_seq r) :: rest))
              else Err DiffLen
  end.
Definition snps_agg_rows (thr : spec_float) (lists : list (list snp)) : list N :=
  let n := length lists in
  let counts := fold_left (fun cs l => fold_left (fun cs s => count_snp s cs) l cs) lists [] in
  concat (map (fun kn => let f := f64_div_Z (Z.of_nat (snd kn)) (Z.of_nat n) in
                         if f64_ltb f thr then [] else snp_bytes (fst kn) ++ [44] ++ fmt_f9 f ++ [NL])
              (ssort (snp * nat) snp_lt counts)).
Definition snps_agg_cmd (hard : bool) (thr : spec_float) (ref aln : list N) : res (list N) :=
  bind (read_encoded hard ref) (fun refs =>
    match refs with
    | [r0] => bind (read_encoded hard aln) (fun recs =>
                bind (snps_lists (r_seq r0) recs) (fun ls => Ok (bs "SNP,frequency" ++ [NL] ++ snps_agg_rows thr ls)))
    | [] => Panic
    | _ => Err Other
    end).
