From GF Require Import Base Alphabet SymbolsDef FastaModel CodonModel Harness.
Open Scope N_scope.
(* op: 0 translate lenient, 1 translate strict, 2 complement, 3 revcomp, 4 encoded complement (input = text,
   encoded with the soft/hard table by the harness; output = encoded bytes), 5 encoded revcomp *)
(* The property quantifies over codons of the 15 IUPAC codes only; on any other byte ('?', '-', lower case, 'X', ...)
   the statement demands nothing, so the expectation there is the model's own output (a difference is then a broken
   correspondence, not a spec violation). *)
Definition in15 (c : N) : bool := existsb (N.eqb c) iupac15.
Fixpoint expect_codons (strict : bool) (cs : list (N * N * N)) : res (list N) :=
  match cs with
  | [] => Ok []
  | (a, b, c) :: t =>
      match (if in15 a && in15 b && in15 c then option_map (fun v => [v]) (unique_product a b c) else codon_aa a b c) with
      | Some v => bind (expect_codons strict t) (fun r => Ok (v ++ r))
      | None => if strict then Err Other else bind (expect_codons strict t) (fun r => Ok (88 :: r))
      end
  end.
Definition expect_translate (strict : bool) (x : list N) : res (list N) :=
  match codons (length x) x with None => Err Other | Some cs => expect_codons strict cs end.
Definition run_C17 (op : N) (h : bool) (x : list N) : res (list N) * res (list N) :=
  match op with
  | 0 => (translate false x, expect_translate false x)
  | 1 => (translate true x, expect_translate true x)
  | 2 => (Ok (complement x), Ok (complement x))
  | 3 => (Ok (revcomp x), Ok (revcomp x))
  | 4 => (Ok (ecomplement (map (enc h) x)), Ok (map (enc h) (complement x)))
  | _ => (Ok (erevcomp (map (enc h) x)), Ok (map (enc h) (revcomp x)))
  end.
Definition check_C17 (c : N * bool * list N * gores) : N :=
  let '(op, h, x, g) := c in let (m, s) := run_C17 op h x in verdict g m s.
Definition failing_C17 := (failing_codons, failing_comp).
