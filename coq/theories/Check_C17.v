From GF Require Import Base Alphabet SymbolsDef FastaModel CodonModel Harness.
Open Scope N_scope.
(* op: 0 translate lenient, 1 translate strict, 2 complement, 3 revcomp, 4 encoded complement (input = text,
   encoded with the soft/hard table by the harness; output = encoded bytes), 5 encoded revcomp *)
Definition run_C17 (op : N) (h : bool) (x : list N) : res (list N) * res (list N) :=
  match op with
  | 0 => (translate false x, spec_translate false x)
  | 1 => (translate true x, spec_translate true x)
  | 2 => (Ok (complement x), Ok (complement x))
  | 3 => (Ok (revcomp x), Ok (revcomp x))
  | 4 => (Ok (ecomplement (map (enc h) x)), Ok (map (enc h) (complement x)))
  | _ => (Ok (erevcomp (map (enc h) x)), Ok (map (enc h) (revcomp x)))
  end.
Definition check_C17 (c : N * bool * list N * gores) : N :=
  let '(op, h, x, g) := c in let (m, s) := run_C17 op h x in verdict g m s.
Definition failing_C17 := (failing_codons, failing_comp).
