(* AaUniq.v — C04: when the coding features carry pairwise distinct names no two aa: records of a pair are equal, so
   the duplicate removal drops none and "none is dropped" holds without a side condition on the sorted list. *)
From Coq Require Import Floats.SpecFloat Permutation.
From GF Require Import Base Alphabet Symbols FastaModel Float TopK CodonModel CodonProofs Indels VariantsModel VariantsProofs AaProofs.
Open Scope N_scope.

Definition isAA (v : variant) : bool := match v_kind v with KAA => true | _ => false end.

Lemma variant_eqb_eq a b : variant_eqb a b = true -> a = b.
Proof.
  unfold variant_eqb. rewrite !andb_true_iff. intros [[[[[[[H1 H2] H3] H4] H5] H6] H7] H8].
  apply Z.eqb_eq in H1, H2. apply kind_rank_inj in H1. apply list_eqb_eq in H3, H4, H6, H8. apply Nat.eqb_eq in H5, H7.
  destruct a, b. cbn in *. subst. reflexivity.
Qed.

Lemma aa_uniq_of_nodup l : NoDup (filter isAA (map fst l)) -> aa_uniq l.
Proof.
  induction l as [|x t IH]; intros H; [exact I|]. cbn [map filter] in H. cbn [aa_uniq]. split.
  - intros K. unfold isAA in H at 1. rewrite K in H. apply NoDup_cons_iff in H. destruct H as [Hn _].
    apply Forall_forall. intros y Hy. destruct (variant_eqb (fst y) (fst x)) eqn:E; [|reflexivity].
    exfalso. apply Hn. apply variant_eqb_eq in E. rewrite <- E. apply filter_In. split; [apply in_map; exact Hy|].
    unfold isAA. rewrite E, K. reflexivity.
  - apply IH. destruct (isAA (fst x)); [apply NoDup_cons_iff in H; exact (proj2 H)|exact H].
Qed.

Lemma Permutation_filter {A} (f : A -> bool) l l' : Permutation l l' -> Permutation (filter f l) (filter f l').
Proof.
  induction 1 as [|x l l' _ IH|x y l|l l' l'' _ IH1 _ IH2]; cbn [filter].
  - constructor.
  - destruct (f x); [apply perm_skip|]; exact IH.
  - destruct (f x), (f y); try apply Permutation_refl. apply perm_swap.
  - eapply Permutation_trans; eassumption.
Qed.
Lemma aa_nodup_perm (l l' : list (variant * list nat)) : Permutation l l' ->
  NoDup (filter isAA (map fst l')) -> NoDup (filter isAA (map fst l)).
Proof.
  intros P H. eapply Permutation_NoDup; [|exact H]. apply Permutation_filter, Permutation_map, Permutation_sym, P.
Qed.

(* ---- one feature: residues strictly increase ---- *)
Section OneFeature.
  Variables (ref que : list N) (r2m : list nat) (g : region).
  Lemma codon_out_aas k p1 p2 p3 ra :
    filter isAA (map fst (codon_out ref que r2m g k p1 p2 p3 ra)) = [] \/
    exists v, filter isAA (map fst (codon_out ref que r2m g k p1 p2 p3 ra)) = [v] /\ v_feature v = g_name g /\ v_residue v = S k.
  Proof.
    unfold codon_out, codon_out_gen. destruct (negb _ && negb _).
    - right. eexists. cbn [map fst filter isAA v_kind]. split; [reflexivity|split; reflexivity].
    - left. rewrite map_map. cbn [fst trace_nuc]. rewrite map_id.
      assert (H : forall l, Forall (fun v => v_kind v = KNuc) l -> filter isAA l = []).
      { induction l as [|v t IH]; intros F; [reflexivity|]. inversion F as [|? ? Hv Ht]; subst. cbn [filter]. unfold isAA at 1. rewrite Hv. apply IH, Ht. }
      apply H. apply Forall_forall. intros v Hv. rewrite !in_app_iff in Hv. destruct Hv as [Hv|[Hv|Hv]]; eapply trace_nuc_kind; exact Hv.
  Qed.
  Lemma codon_spec_aas : forall P k l, codon_spec ref que r2m g k P = Some l ->
    NoDup (filter isAA (map fst l)) /\ Forall (fun v => v_feature v = g_name g /\ (k < v_residue v)%nat) (filter isAA (map fst l)).
  Proof.
    intros P. remember (length P) as n eqn:Hn. revert P Hn. induction n as [n IH] using lt_wf_ind. intros P Hn k l H. subst n.
    destruct P as [|p1 [|p2 [|p3 rest]]]; cbn [codon_spec] in H; try (injection H as <-; split; constructor).
    destruct (nth_error (g_trans g) k) as [ra|]; [|discriminate].
    destruct (codon_spec ref que r2m g (S k) rest) as [l'|] eqn:El; [|discriminate]. cbn [option_map] in H. injection H as <-.
    assert (Hl : (length rest < length (p1 :: p2 :: p3 :: rest))%nat) by (cbn [length]; lia).
    destruct (IH (length rest) Hl rest eq_refl (S k) l' El) as [Hnd Hall].
    rewrite map_app, filter_app. destruct (codon_out_aas k p1 p2 p3 ra) as [->|(v & -> & Hf & Hr)]; cbn [app].
    - split; [exact Hnd|]. eapply Forall_impl; [|exact Hall]. cbn. intros v [H1 H2]. split; [exact H1|lia].
    - split.
      + constructor; [|exact Hnd]. intros Hin. rewrite Forall_forall in Hall. destruct (Hall v Hin) as [_ H2]. lia.
      + constructor; [split; [exact Hf|lia]|]. eapply Forall_impl; [|exact Hall]. cbn. intros w [H1 H2]. split; [exact H1|lia].
  Qed.
End OneFeature.

Section AllFeatures.
  Variables (ref que : list N) (gs : list region).
  Let r2m := ref_to_msa ref.
  Let reflen := length (filter nongap ref).
  Let inter := inter_of gs reflen.
  Hypothesis regions_in_range : forall g p, In g gs -> In p (g_pos g) -> (1 <= p <= reflen)%nat.
  Hypothesis regions_mod3 : forall g, In g gs -> (length (g_pos g) mod 3 = 0)%nat.
  Hypothesis names_distinct : NoDup (map g_name gs).

  Lemma all_aas_nodup : forall l aas, (forall g, In g l -> In g gs) -> NoDup (map g_name l) -> all_aas ref que r2m l = Ok aas ->
    NoDup (filter isAA (map fst aas)) /\ Forall (fun v => In (v_feature v) (map g_name l)) (filter isAA (map fst aas)).
  Proof.
    induction l as [|g t IH]; intros aas Hsub Hnd H; cbn [all_aas] in H; [injection H as <-; split; constructor|].
    destruct (get_aas_traced ref que r2m g) as [a| |] eqn:Ea; try discriminate. cbn [bind] in H.
    destruct (all_aas ref que r2m t) as [r| |] eqn:Er; try discriminate. cbn [bind] in H. injection H as <-.
    cbn [map] in Hnd. apply NoDup_cons_iff in Hnd. destruct Hnd as [Hg Hnt].
    destruct (IH r (fun g' Hg' => Hsub g' (or_intror Hg')) Hnt eq_refl) as [Nr Fr].
    assert (Hng : forall p, In p (g_pos g) -> (nth (align_pos r2m p) ref 0 =? 244) = false).
    { intros p Hp. apply align_pos_is_own_column. apply (regions_in_range g p); [apply Hsub; left; reflexivity|exact Hp]. }
    rewrite (codon_loop_spec ref que r2m g Hng) in Ea. destruct (codon_spec ref que r2m g 0 (g_pos g)) as [la|] eqn:Ec; [|discriminate].
    injection Ea as <-. destruct (codon_spec_aas ref que r2m g (g_pos g) 0%nat la Ec) as [Na Fa].
    rewrite map_app, filter_app. split.
    - (* NoDup of an append: both NoDup and disjoint by feature name *)
      clear IH. revert Na Fa. generalize (filter isAA (map fst la)). intros L Na Fa. induction L as [|v L IHL]; [exact Nr|].
      cbn [app]. apply NoDup_cons_iff in Na. destruct Na as [Nv NL]. inversion Fa as [|? ? [Fv _] FL]; subst. constructor.
      + rewrite in_app_iff. intros [Hv|Hv]; [contradiction|]. rewrite Forall_forall in Fr. specialize (Fr v Hv). rewrite Fv in Fr. contradiction.
      + apply IHL; assumption.
    - apply Forall_app. split.
      + eapply Forall_impl; [|exact Fa]. cbn. intros v [Fv _]. left. symmetry. exact Fv.
      + eapply Forall_impl; [|exact Fr]. cbn. intros v Hv. right. exact Hv.
  Qed.

  Lemma merged_aa_nodup aas : all_aas ref que r2m gs = Ok aas ->
    NoDup (filter isAA (map fst (map (fun i => (mk_indel i, @nil nat)) (Indels.get_indels (cols_of_rows ref que)) ++
                                 map trace_nuc (get_nucs ref que r2m inter) ++ aas))).
  Proof.
    intros Ha. rewrite !map_app, !filter_app.
    assert (E1 : filter isAA (map fst (map (fun i => (mk_indel i, @nil nat)) (Indels.get_indels (cols_of_rows ref que)))) = []).
    { induction (Indels.get_indels (cols_of_rows ref que)) as [|i t IH]; [reflexivity|]. cbn [map fst filter]. destruct i; cbn; exact IH. }
    assert (E2 : filter isAA (map fst (map trace_nuc (get_nucs ref que r2m inter))) = []).
    { rewrite map_map. cbn [fst trace_nuc]. rewrite map_id. unfold get_nucs. induction inter as [|p t IH]; [reflexivity|].
      cbn [flat_map]. rewrite filter_app, IH, app_nil_r. destruct (N.land _ _ <? 16); reflexivity. }
    rewrite E1, E2. cbn [app]. apply (all_aas_nodup gs aas (fun g H => H) names_distinct Ha).
  Qed.

  (* none is dropped, no side condition on the sorted list: distinct feature names suffice *)
  Theorem nuc_mentions_complete_names out :
    variants_pair_traced ref que gs inter = Ok out ->
    forall p, (1 <= p <= reflen)%nat -> dis ref que r2m p = true -> In p (flat_map snd out).
  Proof.
    intros Hout p Hr Hd. assert (exists aas, all_aas ref que r2m gs = Ok aas) as [aas Ha].
    { unfold variants_pair_traced in Hout. fold r2m in Hout. destruct (all_aas ref que r2m gs) as [a| |]; try discriminate. exists a. reflexivity. }
    apply (nuc_mentions_complete ref que gs regions_in_range regions_mod3 out aas Ha Hout); [|exact Hr|exact Hd].
    apply aa_uniq_of_nodup. eapply aa_nodup_perm; [apply ssort_perm|]. apply merged_aa_nodup, Ha.
  Qed.
End AllFeatures.

(* ================= aa: records through merge, sort and duplicate removal ================= *)
(* the duplicate removal only drops start-abutting deletions and records equal to one kept earlier: every other
   variant of the sorted list is still in the output *)
Lemma dedupe_keeps l : forall seen v, In v (map fst l) ->
  (match v_kind v with KDel => (v_pos v =? 0)%Z | _ => false end) = false ->
  In v (map fst (dedupe seen l)) \/ In v seen.
Proof.
  induction l as [|x t IH]; intros seen v Hin Hd; [contradiction|]. cbn [map] in Hin. cbn [dedupe].
  destruct ((match v_kind (fst x) with KDel => true | _ => false end) && (v_pos (fst x) =? 0)%Z) eqn:Edel.
  - destruct Hin as [<-|Hin]; [|apply (IH seen v Hin Hd)]. exfalso. destruct (v_kind (fst x)); cbn in Edel; try discriminate. rewrite Edel in Hd. discriminate.
  - destruct (existsb (variant_eqb (fst x)) seen) eqn:Edup.
    + destruct Hin as [<-|Hin]; [|apply (IH seen v Hin Hd)]. right. apply existsb_exists in Edup as (pv & Hpv & E). apply variant_eqb_eq in E. rewrite E. exact Hpv.
    + cbn [map]. destruct Hin as [<-|Hin]; [left; left; reflexivity|].
      destruct (IH (fst x :: seen) v Hin Hd) as [H|[<-|H]]; [left; right; exact H|left; left; reflexivity|right; exact H].
Qed.
Lemma variant_eqb_refl v : variant_eqb v v = true.
Proof. unfold variant_eqb. rewrite !Z.eqb_refl, !list_eqb_refl, !Nat.eqb_refl. reflexivity. Qed.
(* ... and it leaves no record twice, whatever the annotation (repair D20) *)
Lemma dedupe_fresh l : forall seen v, In v (map fst (dedupe seen l)) -> ~ In v seen.
Proof.
  induction l as [|x t IH]; intros seen v H; cbn [dedupe] in H; [contradiction|].
  destruct (_ && _); [apply IH; exact H|].
  destruct (existsb (variant_eqb (fst x)) seen) eqn:Edup; [apply IH; exact H|].
  cbn [map] in H. destruct H as [<-|H].
  - intros Hin. assert (existsb (variant_eqb (fst x)) seen = true); [|congruence].
    apply existsb_exists. exists (fst x). split; [exact Hin|apply variant_eqb_refl].
  - intros Hin. apply (IH (fst x :: seen) v H). right. exact Hin.
Qed.
Lemma dedupe_nodup l : forall seen, NoDup (map fst (dedupe seen l)).
Proof.
  induction l as [|x t IH]; intros seen; cbn [dedupe]; [constructor|].
  destruct (_ && _); [apply IH|]. destruct (existsb (variant_eqb (fst x)) seen); [apply IH|].
  cbn [map]. constructor; [|apply IH]. intros H. apply (dedupe_fresh t (fst x :: seen) (fst x) H). left; reflexivity.
Qed.

Section AaFinal.
  Variables (ref que : list N) (gs : list region) (inter : list nat).
  (* sound: an aa: record of the final list was emitted by the codon loop of one of the features;
     complete: every aa: record a feature's codon loop emits is in the final list *)
  Theorem aa_final_exact out : variants_pair_traced ref que gs inter = Ok out -> forall v, v_kind v = KAA ->
    (In v (map fst out) <-> exists g l, In g gs /\ get_aas_traced ref que (ref_to_msa ref) g = Ok l /\ In v (map fst l)).
  Proof.
    intros H v Hk. unfold variants_pair_traced in H. destruct (all_aas ref que (ref_to_msa ref) gs) as [aas| |] eqn:Ea; try discriminate.
    cbn [bind] in H. injection H as <-.
    set (L := map (fun i => (mk_indel i, @nil nat)) (Indels.get_indels (cols_of_rows ref que)) ++
              map trace_nuc (get_nucs ref que (ref_to_msa ref) inter) ++ aas).
    assert (Haas : In v (map fst aas) <-> exists g l, In g gs /\ get_aas_traced ref que (ref_to_msa ref) g = Ok l /\ In v (map fst l)).
    { clear L. revert aas Ea. induction gs as [|g t IH]; intros aas Ea; cbn [all_aas] in Ea.
      - injection Ea as <-. split; [intros []|intros (g & l & [] & _)].
      - destruct (get_aas_traced ref que (ref_to_msa ref) g) as [a| |] eqn:Eg; try discriminate. cbn [bind] in Ea.
        destruct (all_aas ref que (ref_to_msa ref) t) as [r| |] eqn:Er; try discriminate. cbn [bind] in Ea. injection Ea as <-.
        rewrite map_app, in_app_iff, (IH r eq_refl). split.
        + intros [Hv|(g' & l & Hg' & Hl & Hv)]; [exists g, a; split; [left; reflexivity|split; [exact Eg|exact Hv]]|].
          exists g', l. split; [right; exact Hg'|split; assumption].
        + intros (g' & l & [<-|Hg'] & Hl & Hv); [left; rewrite Eg in Hl; injection Hl as <-; exact Hv|].
          right. exists g', l. split; [exact Hg'|split; assumption]. }
    assert (HL : In v (map fst L) <-> In v (map fst aas)).
    { unfold L. rewrite !map_app, !in_app_iff. split; [|intros Hv; right; right; exact Hv]. intros [Hv|[Hv|Hv]]; [| |exact Hv].
      - exfalso. rewrite map_map in Hv. apply in_map_iff in Hv. destruct Hv as (i & <- & _). destruct i; discriminate.
      - exfalso. rewrite map_map in Hv. cbn [fst trace_nuc] in Hv. rewrite map_id in Hv. apply get_nucs_iff in Hv. destruct Hv as (p & _ & _ & ->). discriminate. }
    rewrite <- Haas, <- HL. split.
    - intros Hv. apply in_map_iff in Hv. destruct Hv as (x & <- & Hx). apply dedupe_sub in Hx. apply (proj1 (VariantsProofs.ssort_In t_lt L x)) in Hx.
      apply in_map. exact Hx.
    - intros Hv. apply in_map_iff in Hv. destruct Hv as (x & <- & Hx).
      destruct (dedupe_keeps (ssort (variant * list nat) t_lt L) [] (fst x)) as [Hd|[]]; [| |exact Hd].
      + apply in_map. apply (proj2 (VariantsProofs.ssort_In t_lt L x)). exact Hx.
      + rewrite Hk. reflexivity.
  Qed.
End AaFinal.

(* the mutation list of a sequence never holds a record twice: any reference, query, regions (repair D20) *)
Theorem final_list_nodup ref que gs inter out : variants_pair_traced ref que gs inter = Ok out -> NoDup (map fst out).
Proof.
  unfold variants_pair_traced. destruct (all_aas ref que (ref_to_msa ref) gs) as [aas| |]; try discriminate.
  cbn [bind]. intros [= <-]. apply dedupe_nodup.
Qed.
