From GF Require Import Base Alphabet Symbols FastaModel FastaProofs SnpsModel.
Open Scope N_scope.

Definition all_valid (l : list N) : Prop := Forall (fun c => c < 256 /\ valid c = true) l.

Theorem snps_row_spec h ref que :
  all_valid ref -> all_valid que -> get_snps h ref que = spec_from h 0 ref que.
Proof.
  unfold get_snps. generalize 0 as i. revert que.
  induction ref as [|a r IH]; intros que i Hr Hq; [reflexivity|].
  destruct que as [|b q]; [reflexivity|].
  inversion Hr as [|? ? [Ha Va] Hr']; subst. inversion Hq as [|? ? [Hb Vb] Hq']; subst.
  cbn [map get_snps_from spec_from].
  rewrite (enc_disjoint_iff h a b Ha Hb Va Vb), (dec_enc h a Ha Va), (dec_enc h b Hb Vb), (IH q (i+1) Hr' Hq').
  reflexivity.
Qed.

(* positions are ascending and 1-based, every listed column is a disjoint column and conversely *)
Lemma spec_from_positions h i ref que s :
  In s (spec_from h i ref que) ->
  exists k, (k < length ref)%nat /\ (k < length que)%nat /\ s_pos s = i + N.of_nat k + 1 /\
            disjoint_sym h (nth k ref 0) (nth k que 0) = true /\
            s_ref s = [upper (nth k ref 0)] /\ s_que s = [upper (nth k que 0)].
Proof.
  revert i que. induction ref as [|a r IH]; intros i que Hin; [contradiction|].
  destruct que as [|b q]; [contradiction|]. cbn [spec_from] in Hin.
  destruct (disjoint_sym h a b) eqn:E.
  - destruct Hin as [<-|Hin].
    + exists 0%nat. cbn. repeat split; try lia; assumption.
    + destruct (IH _ _ Hin) as (k & ? & ? & Hp & ? & ? & ?). exists (S k). cbn. repeat split; try lia; assumption.
  - destruct (IH _ _ Hin) as (k & ? & ? & Hp & ? & ? & ?). exists (S k). cbn. repeat split; try lia; assumption.
Qed.

Lemma spec_from_complete h i ref que k :
  (k < length ref)%nat -> (k < length que)%nat ->
  disjoint_sym h (nth k ref 0) (nth k que 0) = true ->
  In {| s_ref := [upper (nth k ref 0)]; s_pos := i + N.of_nat k + 1; s_que := [upper (nth k que 0)] |}
     (spec_from h i ref que).
Proof.
  revert i que k. induction ref as [|a r IH]; intros i que k Hr Hq Hd; [cbn in Hr; lia|].
  destruct que as [|b q]; [cbn in Hq; lia|]. cbn [spec_from].
  destruct k as [|k].
  - cbn in Hd. rewrite Hd. left. f_equal. cbn. lia.
  - cbn in Hr, Hq, Hd. specialize (IH (i+1) q k ltac:(lia) ltac:(lia) Hd).
    replace (i + N.of_nat (S k) + 1) with (i + 1 + N.of_nat k + 1) by lia.
    destruct (disjoint_sym h a b); [right|]; exact IH.
Qed.

Inductive ascending : list snp -> Prop :=
| asc_nil : ascending []
| asc_one s : ascending [s]
| asc_cons s1 s2 l : s_pos s1 < s_pos s2 -> ascending (s2 :: l) -> ascending (s1 :: s2 :: l).

Lemma spec_from_lb h i ref que s : In s (spec_from h i ref que) -> i < s_pos s.
Proof. intros H. destruct (spec_from_positions _ _ _ _ _ H) as (k & _ & _ & -> & _). lia. Qed.

Lemma spec_from_ascending h i ref que : ascending (spec_from h i ref que).
Proof.
  revert i que. induction ref as [|a r IH]; intros i que; [constructor|].
  destruct que as [|b q]; [constructor|]. cbn [spec_from].
  destruct (disjoint_sym h a b); [|apply IH].
  specialize (IH (i+1) q). pose proof (spec_from_lb h (i+1) r q) as LB.
  destruct (spec_from h (i+1) r q) as [|s2 l]; constructor; [|exact IH].
  cbn. specialize (LB s2 (or_introl eq_refl)). lia.
Qed.

(* letter case of the input never matters *)
Lemma upper_idem c : upper (upper c) = upper c.
Proof.
  unfold upper. destruct ((97 <=? c) && (c <=? 122)) eqn:E.
  - apply andb_true_iff in E as [E1 E2]. apply N.leb_le in E1, E2.
    destruct (97 <=? c - 32) eqn:E3; [apply N.leb_le in E3; lia|]. reflexivity.
  - rewrite E. reflexivity.
Qed.
Definition same_upto_case (a b : list N) : Prop := map upper a = map upper b.

Lemma denote_case h c c' : upper c = upper c' -> denote h c = denote h c'.
Proof. unfold denote. intros ->. reflexivity. Qed.

Theorem spec_case_insensitive h i ref ref' que que' :
  same_upto_case ref ref' -> same_upto_case que que' ->
  spec_from h i ref que = spec_from h i ref' que'.
Proof.
  unfold same_upto_case. revert i ref' que que'.
  induction ref as [|a r IH]; intros i [|a' r'] que que' Hr Hq; try discriminate; [reflexivity|].
  cbn [map] in Hr. injection Hr as Ha Hr.
  destruct que as [|b q], que' as [|b' q']; try discriminate; [reflexivity|].
  cbn [map] in Hq. injection Hq as Hb Hq. cbn [spec_from].
  unfold disjoint_sym. rewrite (denote_case h a a' Ha), (denote_case h b b' Hb), Ha, Hb.
  rewrite (IH (i+1) r' q q' Hr Hq). reflexivity.
Qed.

Lemma all_valid_case a a' : same_upto_case a a' -> all_valid a -> Forall (fun c => c < 256) a' -> all_valid a'.
Proof.
  unfold same_upto_case, all_valid. revert a'. induction a as [|x a IH]; intros [|y a'] He Ha Hb; try discriminate; [constructor|].
  cbn [map] in He. injection He as Hx He. inversion Ha as [|? ? [Hx1 Hx2] Ha']; subst. inversion Hb; subst.
  constructor; [split; [assumption|]|apply IH; assumption].
  unfold valid in *. rewrite <- (denote_case false x y Hx). exact Hx2.
Qed.

Theorem snps_case_insensitive h ref ref' que que' :
  all_valid ref -> all_valid que -> all_valid ref' -> all_valid que' ->
  same_upto_case ref ref' -> same_upto_case que que' ->
  get_snps h ref que = get_snps h ref' que'.
Proof.
  intros. rewrite !snps_row_spec by assumption. apply spec_case_insensitive; assumption.
Qed.

Example ex_snps : get_snps false (bs "ACGTR-") (bs "ATnaC-")
  = [ {| s_ref := [67]; s_pos := 2; s_que := [84] |}; {| s_ref := [84]; s_pos := 4; s_que := [65] |};
      {| s_ref := [82]; s_pos := 5; s_que := [67] |} ].
Proof. vm_compute. reflexivity. Qed.

(* ---------- the whole command equals its spec on every pair of byte files ---------- *)
Lemma snps_rows_spec h refseq recs :
  all_valid refseq -> Forall (fun r => all_valid (r_seq r)) recs ->
  snps_rows (map (enc h) refseq) (map (map_rcd (enc h)) recs) = spec_rows h refseq recs.
Proof.
  intros Hr. induction 1 as [|r t Hq Ht IH]; [reflexivity|].
  cbn [map snps_rows spec_rows map_rcd r_seq r_id]. rewrite !map_length.
  destruct (Nat.eqb _ _); [|reflexivity]. rewrite IH.
  change (get_snps_from 0 (map (enc h) refseq) (map (enc h) (r_seq r))) with (get_snps h refseq (r_seq r)).
  rewrite snps_row_spec by assumption. reflexivity.
Qed.

Theorem snps_cmd_eq_spec h ref aln :
  Forall (fun c => c < 256) ref -> Forall (fun c => c < 256) aln ->
  snps_cmd h ref aln = snps_spec_cmd h ref aln.
Proof.
  intros Hr Ha. unfold snps_cmd, snps_spec_cmd. rewrite (read_encoded_raw h ref Hr), (read_encoded_raw h aln Ha).
  destruct (read conv_raw true ref) as [refs| |] eqn:Er; cbn [map_res bind]; try reflexivity.
  pose proof (read_seq_P conv_raw _ conv_raw_valid true ref refs Er) as Pr.
  destruct refs as [|r0 [|r1 rest]]; cbn [map]; try reflexivity.
  destruct (read conv_raw true aln) as [recs| |] eqn:Ea; cbn [map_res bind]; try reflexivity.
  pose proof (read_seq_P conv_raw _ conv_raw_valid true aln recs Ea) as Pa.
  cbn [map_rcd r_seq]. rewrite snps_rows_spec; [reflexivity| |exact Pa].
  inversion Pr; assumption.
Qed.
