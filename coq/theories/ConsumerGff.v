(* ConsumerGff.v — C14: the list level of RegionsFromGFF.  A GFF3 file whose coding rows are grouped by ID (the rows of one feature
   next to one another, in coordinate order - the canonical rendering; RegionsFromGFF's stable sort makes any other order of the
   rows of one feature equivalent, RegionsModel.gff_row_order_irrelevant) gives one region per ID, in order of first appearance,
   then sorted by start. *)
From GF Require Import Base Alphabet SymbolsDef FastaModel CodonModel TopK RegionsModel LocationModel GffLineModel GenbankModel GenbankFile GffFile ConsumerModel.
Open Scope N_scope.

Definition has_id (i : list N) (f : gfeat) : bool := match row_id f with Some j => list_eqb i j | None => false end.
Definition group := (list N * list gfeat)%type.
Definition group_ok (g : group) : Prop :=
  snd g <> [] /\ Forall (fun r => row_id r = Some (fst g) /\ is_cds_row r = true) (snd g) /\ sorted gfeat start_lt (snd g).
Definition rows_of (gs : list group) : list gfeat := concat (map snd gs).

Lemma existsb_eqb_false i seen : ~ In i seen -> existsb (list_eqb i) seen = false.
Proof.
  induction seen as [|s t IH]; intros H; [reflexivity|]. cbn [existsb].
  destruct (list_eqb i s) eqn:E; [apply list_eqb_eq in E; subst; exfalso; apply H; left; reflexivity|]. apply IH. intros Hin. apply H. right. exact Hin.
Qed.
Lemma existsb_eqb_true i seen : In i seen -> existsb (list_eqb i) seen = true.
Proof. intros H. apply existsb_exists. exists i. split; [exact H|apply list_eqb_refl]. Qed.

Lemma ids_skip rows i : Forall (fun r => row_id r = Some i) rows -> forall seen rest, In i seen ->
  ids_in_order seen (rows ++ rest) = ids_in_order seen rest.
Proof.
  induction 1 as [|r t Hr _ IH]; intros seen rest Hin; [reflexivity|]. cbn [app ids_in_order]. rewrite Hr, (existsb_eqb_true i seen Hin). apply IH. exact Hin.
Qed.
Lemma ids_group rows i seen rest : rows <> [] -> Forall (fun r => row_id r = Some i) rows -> ~ In i seen ->
  ids_in_order seen (rows ++ rest) = i :: ids_in_order (i :: seen) rest.
Proof.
  intros Hne H Hs. destruct rows as [|r t]; [congruence|]. inversion H as [|? ? Hr Ht]; subst. cbn [app ids_in_order].
  rewrite Hr, (existsb_eqb_false i seen Hs). f_equal. apply (ids_skip t i); [exact Ht|left; reflexivity].
Qed.
Lemma ids_all (gs : list group) : Forall group_ok gs -> NoDup (map fst gs) -> forall seen, (forall g, In g gs -> ~ In (fst g) seen) ->
  ids_in_order seen (rows_of gs) = map fst gs.
Proof.
  induction 1 as [|g t (Hne & Hrows & _) _ IH]; intros Hnd seen Hs; [reflexivity|].
  unfold rows_of. cbn [map concat]. fold (rows_of t). inversion Hnd as [|? ? Hni Hnd']; subst.
  rewrite (ids_group (snd g) (fst g) seen (rows_of t) Hne).
  - f_equal. apply IH; [exact Hnd'|]. intros g' Hg' [E|Hin].
    + apply Hni. rewrite E. apply in_map. exact Hg'.
    + apply (Hs g'); [right; exact Hg'|exact Hin].
  - eapply Forall_impl; [|exact Hrows]. intros r [H _]. exact H.
  - apply Hs. left. reflexivity.
Qed.

Lemma filter_other (g : group) i : Forall (fun r => row_id r = Some (fst g) /\ is_cds_row r = true) (snd g) -> fst g <> i -> filter (has_id i) (snd g) = [].
Proof.
  intros H Hne. induction H as [|r t [Hr _] _ IH]; [reflexivity|]. cbn [filter]. unfold has_id at 1. rewrite Hr.
  destruct (list_eqb i (fst g)) eqn:E; [apply list_eqb_eq in E; congruence|exact IH].
Qed.
Lemma filter_own (g : group) : Forall (fun r => row_id r = Some (fst g) /\ is_cds_row r = true) (snd g) -> filter (has_id (fst g)) (snd g) = snd g.
Proof.
  intros H. induction H as [|r t [Hr _] _ IH]; [reflexivity|]. cbn [filter]. unfold has_id at 1. rewrite Hr, list_eqb_refl, IH. reflexivity.
Qed.
Lemma filter_others (gs : list group) i : Forall group_ok gs -> ~ In i (map fst gs) -> filter (has_id i) (rows_of gs) = [].
Proof.
  induction 1 as [|g t (_ & Hrows & _) _ IH]; intros Hni; [reflexivity|]. unfold rows_of. cbn [map concat]. fold (rows_of t).
  rewrite filter_app, (filter_other g i Hrows), IH; [reflexivity| |]; intros H; apply Hni; [right; exact H|left; exact H].
Qed.
Lemma filter_member (gs : list group) : Forall group_ok gs -> NoDup (map fst gs) -> forall g, In g gs -> filter (has_id (fst g)) (rows_of gs) = snd g.
Proof.
  induction 1 as [|g0 t Hg0 Ht IH]; intros Hnd g Hin; [destruct Hin|]. destruct Hg0 as (Hne & Hrows & Hs).
  inversion Hnd as [|? ? Hni Hnd']; subst. unfold rows_of. cbn [map concat]. fold (rows_of t). rewrite filter_app.
  destruct Hin as [<-|Hin].
  - rewrite (filter_own g0 Hrows), (filter_others t (fst g0) Ht Hni), app_nil_r. reflexivity.
  - rewrite (filter_other g0 (fst g) Hrows), (IH Hnd' g Hin); [reflexivity|]. intros E. apply Hni. rewrite E. apply in_map. exact Hin.
Qed.

Lemma all_cds (gs : list group) : Forall group_ok gs -> filter is_cds_row (rows_of gs) = rows_of gs.
Proof.
  induction 1 as [|g t (_ & Hrows & _) _ IH]; [reflexivity|]. unfold rows_of. cbn [map concat]. fold (rows_of t). rewrite filter_app, IH. f_equal.
  clear -Hrows. induction Hrows as [|r t [_ Hc] _ IH]; [reflexivity|]. cbn [filter]. rewrite Hc, IH. reflexivity.
Qed.
Lemma no_singles (gs : list group) : Forall group_ok gs ->
  filter (fun f => match row_id f with None => true | Some _ => false end) (rows_of gs) = [].
Proof.
  induction 1 as [|g t (_ & Hrows & _) _ IH]; [reflexivity|]. unfold rows_of. cbn [map concat]. fold (rows_of t). rewrite filter_app, IH, app_nil_r.
  clear -Hrows. induction Hrows as [|r t [Hr _] _ IH]; [reflexivity|]. cbn [filter]. rewrite Hr. exact IH.
Qed.

Lemma collect_ok {A B} (f : A -> res B) xs ys : Forall2 (fun x y => f x = Ok y) xs ys -> collect f xs = Ok ys.
Proof. induction 1 as [|x y xs ys H _ IH]; [reflexivity|]. cbn [collect]. rewrite H. cbn [bind]. rewrite IH. reflexivity. Qed.

(* one region per ID, in order of first appearance, the named ones kept, then sorted by start *)
Theorem regions_from_gff_grouped genome (gs : list group) (rs : list cregion) :
  Forall group_ok gs -> NoDup (map fst gs) ->
  Forall2 (fun g r => region_from_gfeats genome (snd g) = Ok r) gs rs ->
  Forall (fun r => cr_name r <> []) rs ->
  regions_from_gff (rows_of gs) genome =
  bind (codes rs (length genome)) (fun inter => Ok (ssort cregion (fun a b => (cr_start a <? cr_start b)%Z) rs, inter)).
Proof.
  intros Hok Hnd Hreg Hnamed. unfold regions_from_gff. rewrite (all_cds gs Hok), (no_singles gs Hok). cbn [map]. rewrite app_nil_r.
  rewrite (ids_all gs Hok Hnd []) by (intros g _ []). rewrite map_map.
  rewrite (map_ext_in _ snd gs).
  2:{ intros g Hg. cbv beta. change (filter _ (rows_of gs)) with (filter (has_id (fst g)) (rows_of gs)). rewrite (filter_member gs Hok Hnd g Hg).
      rewrite Forall_forall in Hok. destruct (Hok g Hg) as (_ & _ & Hs). apply ssort_of_sorted. exact Hs. }
  rewrite (collect_ok (region_from_gfeats genome) (map snd gs) rs).
  - cbn [bind]. assert (En : filter (fun r => negb (list_eqb (cr_name r) [])) rs = rs).
    { clear -Hnamed. induction Hnamed as [|r t Hr _ IH]; [reflexivity|]. cbn [filter].
      destruct (list_eqb (cr_name r) []) eqn:E; [apply list_eqb_eq in E; contradiction|]. cbn [negb]. rewrite IH. reflexivity. }
    rewrite En. reflexivity.
  - clear -Hreg. induction Hreg as [|g r gs rs H _ IH]; [constructor|]. cbn [map]. constructor; assumption.
Qed.

(* ---- from the BYTES of a GFF3 file to the regions ---- *)
From GF Require Import FastaLayout GffLineProofs GffFileProofs.
Theorem gff_bytes_to_regions (regs : list (list N * (nat * nat))) (rows : list grow) (flines : list (list N)) (r : rcd) (genome : list N)
        (gs : list group) (rs : list cregion) (lines : list (list N * bool)) :
  Forall wf_region regs -> rows <> [] -> Forall wf_row rows ->
  fasta_of flines = Ok (Some [r]) -> degap (r_seq r) = genome ->
  map feat_of rows = rows_of gs -> Forall group_ok gs -> NoDup (map fst gs) ->
  Forall2 (fun g x => region_from_gfeats genome (snd g) = Ok x) gs rs -> Forall (fun x => cr_name x <> []) rs ->
  Forall (fun le => ok_line (fst le)) lines ->
  map fst lines = version_line :: map region_line regs ++ map render_row rows ++ bs "##FASTA" :: flines ->
  regions_of_gff_text (FastaLayout.render lines) =
  bind (codes rs (length genome)) (fun inter => Ok (ssort cregion (fun a b => (cr_start a <? cr_start b)%Z) rs, inter)).
Proof.
  intros Hregs Hne Hrows Hfa Hg Er Hok Hnd Hreg Hnamed Hl El. unfold regions_of_gff_text.
  rewrite (gff_file_bytes_read lines Hl), El, (gff_file_read regs rows flines Hregs Hne Hrows), Hfa. cbn [bind gff_fasta gff_features forallb last].
  rewrite Hg, Er. apply regions_from_gff_grouped; assumption.
Qed.

(* the premises are satisfiable: the two rows parsed from text in ConsumerProofs.v form one group *)
From GF Require Import ConsumerProofs.
Example grouped_premises_hold :
  group_ok (bs "c1", ex_rows) /\ rows_of [(bs "c1", ex_rows)] = ex_rows /\
  exists x, region_from_gfeats ex_genome ex_rows = Ok x /\ cr_name x <> [].
Proof.
  split; [|split].
  - unfold group_ok. cbn [fst snd]. split; [vm_compute; discriminate|]. split.
    + assert (E : forallb (fun r => match row_id r with Some i => list_eqb i (bs "c1") | None => false end && is_cds_row r) ex_rows = true) by (vm_compute; reflexivity).
      apply Forall_forall. intros r Hr. rewrite forallb_forall in E. specialize (E r Hr). apply andb_true_iff in E as [E1 E2]. split; [|exact E2].
      destruct (row_id r) as [i|]; [|discriminate]. apply list_eqb_eq in E1. subst. reflexivity.
    + assert (E : ssort gfeat start_lt ex_rows = ex_rows) by (vm_compute; reflexivity). rewrite <- E. apply ssort_sorted.
      * intros x. unfold start_lt. apply Z.ltb_irrefl.
      * intros x y z. unfold start_lt. rewrite !Z.ltb_lt. lia.
  - unfold rows_of. cbn [map concat snd]. apply app_nil_r.
  - eexists. split; [vm_compute; reflexivity|discriminate].
Qed.

(* ---- the ##FASTA section: one record, its sequence cut into lines, every symbol in the alphabet: the list reader of C16 returns
   it, and decoded it is the sequence in upper case ---- *)
From GF Require Import Symbols FastaProofs.
Lemma unlines_render (ls : list (list N)) : concat (map (fun l => l ++ [10]) ls) = FastaLayout.render (combine ls (repeat false (length ls))).
Proof. induction ls as [|l t IH]; [reflexivity|]. cbn [map concat length repeat combine FastaLayout.render eol]. rewrite IH, <- app_assoc. reflexivity. Qed.
Definition valid_chunk (c : list N) : Prop := Forall (fun x => x < 256 /\ valid x = true) c.
Lemma conv_valid_chunk c : valid_chunk c -> conv_line (conv_enc false) c = Some (map (enc false) c).
Proof.
  induction 1 as [|x t [Hx Hv] _ IH]; [reflexivity|]. cbn [conv_line map]. rewrite IH. unfold conv_enc.
  destruct (N.eqb_spec (enc false x) 0) as [E|_]; [|reflexivity]. exfalso. apply (enc_valid_iff false x Hx) in Hv. contradiction.
Qed.
Lemma decode_valid c : valid_chunk c -> concat (map dec (map (enc false) c)) = map upper c.
Proof. induction 1 as [|x t [Hx Hv] _ IH]; [reflexivity|]. cbn [map concat]. rewrite (dec_enc false x Hx Hv), IH. reflexivity. Qed.
Lemma valid_concat chunks : Forall valid_chunk chunks -> valid_chunk (concat chunks).
Proof. induction 1 as [|c t Hc _ IH]; [constructor|]. cbn [concat]. apply Forall_app. split; assumption. Qed.

Theorem gff_fasta_section (hdr : list N) (chunks : list (list N)) (id : list N) :
  first_field hdr = Some id -> concat chunks <> [] -> Forall valid_chunk chunks ->
  Forall ok_line ((62 :: hdr) :: chunks) ->
  fasta_of ((62 :: hdr) :: chunks) = Ok (Some [{| r_id := id; r_desc := hdr; r_seq := map upper (concat chunks); r_idx := 0 |}]).
Proof.
  intros Hid Hne Hv Hok. unfold fasta_of. rewrite unlines_render. unfold read_encoded.
  assert (Ef : (62 :: hdr) :: chunks = flat_map lines_of ((hdr, chunks) :: [])) by (cbn [flat_map lines_of fst snd app]; rewrite app_nil_r; reflexivity).
  rewrite Ef.
  rewrite (reader_layout_independent (conv_enc false) (length (concat chunks)) (hdr, chunks) []).
  - cbn [bind index_recs map]. unfold rec_of, decode_rcd. cbn [fst snd r_id r_desc r_seq r_idx]. rewrite Hid.
    rewrite (conv_valid_chunk _ (valid_concat chunks Hv)), (decode_valid _ (valid_concat chunks Hv)). reflexivity.
  - reflexivity.
  - destruct (concat chunks); [congruence|cbn; lia].
  - split; [exists id; exact Hid|]. split.
    + eapply Forall_impl; [|exact Hv]. intros c Hc. exists (map (enc false) c). apply conv_valid_chunk. exact Hc.
    + exists (map (enc false) (concat chunks)). split; [apply conv_valid_chunk, valid_concat; exact Hv|apply map_length].
  - constructor.
  - rewrite <- Ef. exact Hok.
  - rewrite repeat_length. reflexivity.
Qed.

(* the whole chain for a GFF3 file: bytes -> lines -> directives, rows, sequence section -> grouped rows -> regions *)
Corollary gff_bytes_to_regions_full (regs : list (list N * (nat * nat))) (rows : list grow) (hdr : list N) (chunks : list (list N)) (id : list N)
        (gs : list group) (rs : list cregion) (lines : list (list N * bool)) :
  let genome := degap (map upper (concat chunks)) in
  Forall wf_region regs -> rows <> [] -> Forall wf_row rows ->
  first_field hdr = Some id -> concat chunks <> [] -> Forall valid_chunk chunks -> Forall ok_line ((62 :: hdr) :: chunks) ->
  map feat_of rows = rows_of gs -> Forall group_ok gs -> NoDup (map fst gs) ->
  Forall2 (fun g x => region_from_gfeats genome (snd g) = Ok x) gs rs -> Forall (fun x => cr_name x <> []) rs ->
  Forall (fun le => ok_line (fst le)) lines ->
  map fst lines = version_line :: map region_line regs ++ map render_row rows ++ bs "##FASTA" :: (62 :: hdr) :: chunks ->
  regions_of_gff_text (FastaLayout.render lines) =
  bind (codes rs (length genome)) (fun inter => Ok (ssort cregion (fun a b => (cr_start a <? cr_start b)%Z) rs, inter)).
Proof.
  intros genome Hregs Hne Hrows Hid Hc Hv Hok Er Hgs Hnd Hreg Hnamed Hl El.
  apply (gff_bytes_to_regions regs rows ((62 :: hdr) :: chunks) {| r_id := id; r_desc := hdr; r_seq := map upper (concat chunks); r_idx := 0 |} genome gs rs lines);
    try assumption; [apply gff_fasta_section; assumption|reflexivity].
Qed.
