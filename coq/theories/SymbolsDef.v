(* SymbolsDef.v — encode/decode/score/complement as lookups in gen/Tables.v (dumped from the
   running Go code on every run), the boolean sweeps over all 256 byte values, and the search
   helpers the checker evaluates to name a failing table entry.  Definitions only: this file
   still compiles when a sweep no longer holds. *)
From GF Require Import Base Alphabet.
From GFgen Require Import Tables.
Open Scope N_scope.

Definition enc (hard : bool) (c : N) : N := lookup 0 (if hard then enc_hard_tab else enc_soft_tab) c.
Definition dec (e : N) : list N := lookup [] dec_tab e.
Definition score (c : N) : Z := lookup 0%Z score_tab c.
Definition escore (e : N) : Z := lookup 0%Z escore_tab e.
Definition comp_txt (c : N) : N := lookup 0 comp_txt_tab c.
Definition comp_enc (e : N) : N := lookup 0 comp_enc_tab e.

Definition bools := [false; true].
Lemma bools_In h : In h bools. Proof. destruct h; simpl; auto. Qed.

(* -- sweeps -- *)
Definition sweep_valid : bool :=
  forallb (fun h => forallb (fun c => Bool.eqb (negb (N.eqb (enc h c) 0)) (valid c)) all_bytes) bools.
Definition sweep_enc_lt : bool :=
  forallb (fun h => forallb (fun c => enc h c <? 256) all_bytes) bools.
Definition sweep_disjoint : bool :=
  forallb (fun h => forallb (fun c1 => forallb (fun c2 =>
    implb (valid c1 && valid c2)
          (Bool.eqb (N.land (enc h c1) (enc h c2) <? 16) (disjoint_sym h c1 c2))) all_bytes) all_bytes) bools.
Definition sweep_dec : bool :=
  forallb (fun h => forallb (fun c => implb (valid c) (list_eqb (dec (enc h c)) [upper c])) all_bytes) bools.
(* resolved bit: enc c & 8 = 8 iff c is one of ACGTacgt *)
Definition sweep_resolved : bool :=
  forallb (fun h => forallb (fun c => implb (valid c)
     (Bool.eqb (N.eqb (N.land (enc h c) 8) 8) (resolved c))) all_bytes) bools.
(* on two resolved symbols: same encoding iff same base; a|b = 200 iff {A,G}; a|b = 56 iff {C,T} *)
Definition sweep_pairs : bool :=
  forallb (fun h => forallb (fun c1 => forallb (fun c2 =>
    implb (resolved c1 && resolved c2)
      (match base_of c1, base_of c2 with
       | Some b1, Some b2 =>
           Bool.eqb (N.eqb (enc h c1) (enc h c2)) (base_eqb b1 b2) &&
           Bool.eqb (N.eqb (N.lor (enc h c1) (enc h c2)) 200) (negb (base_eqb b1 b2) && is_purine b1 && is_purine b2) &&
           Bool.eqb (N.eqb (N.lor (enc h c1) (enc h c2)) 56) (negb (base_eqb b1 b2) && negb (is_purine b1) && negb (is_purine b2))
       | _, _ => false end)) all_bytes) all_bytes) bools.
(* the fixed encodings the Go code tests against literally: A=136 C=40 G=72 T=24, gap 244 / 4 *)
Definition sweep_consts : bool :=
  forallb (fun h => forallb (fun c => implb (valid c)
     (Bool.eqb (N.eqb (enc h c) 136) (N.eqb (upper c) 65) &&
      Bool.eqb (N.eqb (enc h c) 40) (N.eqb (upper c) 67) &&
      Bool.eqb (N.eqb (enc h c) 72) (N.eqb (upper c) 71) &&
      Bool.eqb (N.eqb (enc h c) 24) (N.eqb (upper c) 84) &&
      Bool.eqb (N.eqb (enc h c) (if h then 4 else 244)) (N.eqb c 45))) all_bytes) bools.
(* letter case never matters to the encoding *)
Definition sweep_case : bool :=
  forallb (fun h => forallb (fun c => N.eqb (enc h (upper c)) (enc h c) && N.eqb (enc h (lower c)) (enc h c)) all_bytes) bools.

(* completeness score: 12 / |denoted set| (N,?,- score 3), same in text and encoded form *)
Definition card_score (c : N) : Z :=
  match denote false c with
  | Some s => (12 / Z.of_nat (length s))%Z
  | None => 0%Z end.
Definition sweep_score : bool :=
  forallb (fun c => Z.eqb (score c) (card_score c) &&
                    implb (valid c) (Z.eqb (escore (enc false c)) (score c))) all_bytes.
(* search helpers for the checker: which table entries break a sweep? *)
Definition failing_disjoint : list (bool * N * N) :=
  flat_map (fun h => flat_map (fun c1 => flat_map (fun c2 =>
    if implb (valid c1 && valid c2)
          (Bool.eqb (N.land (enc h c1) (enc h c2) <? 16) (disjoint_sym h c1 c2)) then [] else [(h,c1,c2)])
    all_bytes) all_bytes) bools.
Definition failing_valid : list (bool * N) :=
  flat_map (fun h => flat_map (fun c => if Bool.eqb (negb (N.eqb (enc h c) 0)) (valid c) then [] else [(h,c)]) all_bytes) bools.
Definition failing_dec : list (bool * N) :=
  flat_map (fun h => flat_map (fun c => if implb (valid c) (list_eqb (dec (enc h c)) [upper c]) then [] else [(h,c)]) all_bytes) bools.

