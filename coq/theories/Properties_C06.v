(* Properties_C06.v — C06: closest returns exactly the nearest targets under the documented total order. *)
From Coq Require Import Floats.SpecFloat.
From GF Require Import Base Alphabet Symbols FastaModel Float TopK ClosestModel ClosestProofs.

(* the bounded online catchment (append / stable sort / truncate, admit iff strictly better than the
   current last) equals: the first K, within D, of the targets stably sorted by (distance ascending,
   completeness descending) — file order breaks the remaining ties; any number of targets *)
Theorem C06_closestN_spec : forall K maxd l, (0 < K)%nat -> Forall defined_key l ->
  find_closest_n K maxd l = closest_spec K maxd l.
Proof. exact closestN_spec. Qed.
Print Assumptions C06_closestN_spec.

(* plain closest equals -n 1 *)
Theorem C06_closest1_eq_topk1 : forall l, Forall defined_key l ->
  find_closest l = hd_error (closest_spec 1 None l).
Proof. exact closest1_eq_topk1. Qed.
Print Assumptions C06_closest1_eq_topk1.

(* a target whose distance is undefined never displaces one whose distance is defined, wherever it
   sits in the file *)
Theorem C06_undefined_never_displaces : forall K maxd l u d, Forall defined_key l ->
  In u (closest_spec K maxd l) -> undefined u ->
  In d (filter (within maxd) l) -> finite_dist d -> In d (closest_spec K maxd l).
Proof. exact undefined_never_displaces. Qed.
Print Assumptions C06_undefined_never_displaces.

(* whole commands, every pair of input files, every option set: model = spec; rows follow the query file *)
Theorem C06_closestn_cmd_eq_spec : forall K maxd measure table oracle qf tf,
  closestn_cmd K maxd measure table oracle qf tf = closestn_spec_cmd K maxd measure table oracle qf tf.
Proof. exact closestn_cmd_eq_spec. Qed.
Print Assumptions C06_closestn_cmd_eq_spec.

Theorem C06_closest_cmd_eq_spec : forall measure oracle qf tf,
  closest_cmd measure oracle qf tf = closest_spec_cmd measure oracle qf tf.
Proof. exact closest_cmd_eq_spec. Qed.
Print Assumptions C06_closest_cmd_eq_spec.

(* the order used is a strict weak order on keys without NaN (what the TopK theorem needs) *)
Theorem C06_order_is_strict_weak :
  (forall x, key_code_lt x x = false) /\
  (forall x y z, key_code_lt x y = true -> key_code_lt y z = true -> key_code_lt x z = true) /\
  (forall x y z, key_code_lt x y = false -> key_code_lt y z = false -> key_code_lt x z = false) /\
  (forall x y, defined_key x -> defined_key y -> key_lt x y = key_code_lt x y).
Proof. exact (conj kc_irrefl (conj kc_trans (conj kc_ntrans key_lt_code))). Qed.
Print Assumptions C06_order_is_strict_weak.

Open Scope N_scope.
Example C06_example :
  closestn_cmd 2 None 1 true [] (bs ">q" ++ [10] ++ bs "ACGT" ++ [10])
    (bs ">t1" ++ [10] ++ bs "NNNN" ++ [10] ++ bs ">t2" ++ [10] ++ bs "ACGA" ++ [10] ++ bs ">t3" ++ [10] ++ bs "ACGN" ++ [10] ++ bs ">t4" ++ [10] ++ bs "ACGT" ++ [10])
  = Ok (bs "query,target,distance" ++ [10] ++ bs "q,t4,0" ++ [10] ++ bs "q,t3,0" ++ [10]).
Proof. vm_compute. reflexivity. Qed.
