(* VariantsProofs.v — C04 (first part): intergenic SNPs and the coding/intergenic split. *)
From Coq Require Import Floats.SpecFloat.
From GF Require Import Base Alphabet Symbols FastaModel Float TopK CodonModel Indels VariantsModel.
Open Scope N_scope.

(* getNucsPair lists exactly the intergenic positions whose (encoded) symbols test disjoint, naming the
   decoded symbols and the reference position *)
Theorem get_nucs_iff ref que r2m inter v :
  In v (get_nucs ref que r2m inter) <->
  exists p, In p inter /\ (N.land (nth (align_pos r2m p) ref 0) (nth (align_pos r2m p) que 0) <? 16) = true /\
            v = mk_nuc (dec (nth (align_pos r2m p) ref 0)) (dec (nth (align_pos r2m p) que 0)) p.
Proof.
  unfold get_nucs. rewrite in_flat_map. split.
  - intros (p & Hp & Hv). exists p. destruct (N.land _ _ <? 16) eqn:E; [|contradiction].
    destruct Hv as [<-|[]]. auto.
  - intros (p & Hp & E & ->). exists p. split; [exact Hp|]. rewrite E. left. reflexivity.
Qed.

(* codes: every reference position is either in a reported region or in the intergenic list, never both *)
Theorem inter_of_partition gs reflen p : (1 <= p <= reflen)%nat ->
  (In p (inter_of gs reflen) <-> ~ exists g, In g gs /\ In p (g_pos g)).
Proof.
  intros Hp. unfold inter_of. rewrite filter_In, in_seq, negb_true_iff. split.
  - intros [_ H] (g & Hg & Hin).
    assert (existsb (fun g => existsb (Nat.eqb p) (g_pos g)) gs = true).
    { apply existsb_exists. exists g. split; [exact Hg|]. apply existsb_exists. exists p. split; [exact Hin|apply Nat.eqb_refl]. }
    congruence.
  - intros H. split; [lia|]. apply not_true_is_false. intros E. apply H.
    apply existsb_exists in E as (g & Hg & E). apply existsb_exists in E as (q & Hq & E). apply Nat.eqb_eq in E. subst q. eauto.
Qed.

Definition nongap (c : N) : bool := negb (c =? 244).

(* the ref->msa offset table maps the k-th reference base to its own column: a non-gap column with exactly
   k-1 non-gap columns to its left *)
Lemma ref_to_msa_from_spec (ref : list N) : forall (g k : nat), (k < length (filter nongap ref))%nat ->
  exists col : nat, (col = k + nth k (ref_to_msa_from g ref) 0%nat - g)%nat /\ (g <= nth k (ref_to_msa_from g ref) 0%nat)%nat /\
              (nth col ref 0 =? 244) = false /\ length (filter nongap (firstn col ref)) = k.
Proof.
  induction ref as [|c t IH]; intros g k Hk; [cbn in Hk; lia|]. cbn [ref_to_msa_from filter] in *. unfold nongap in *.
  destruct (N.eqb_spec c 244) as [->|Hc]; cbn [negb] in Hk.
  - destruct (IH (S g) k Hk) as (col & Hcol & Hge & Hn & Hf). exists (S col). cbn [nth firstn filter N.eqb negb].
    replace (244 =? 244) with true by reflexivity. cbn [negb]. repeat split; try assumption; lia.
  - cbn [length] in Hk. destruct k as [|k].
    + exists 0%nat. cbn. destruct (N.eqb_spec c 244); [contradiction|]. repeat split; lia.
    + destruct (IH g k ltac:(lia)) as (col & Hcol & Hge & Hn & Hf). exists (S col). cbn [nth firstn filter].
      destruct (N.eqb_spec c 244); [contradiction|]. cbn [negb length]. repeat split; try assumption; lia.
Qed.

Theorem align_pos_is_own_column (ref : list N) (p : nat) :
  (1 <= p <= length (filter nongap ref))%nat ->
  (nth (align_pos (ref_to_msa ref) p) ref 0 =? 244) = false /\
  length (filter nongap (firstn (align_pos (ref_to_msa ref) p) ref)) = (p - 1)%nat.
Proof.
  intros Hp. destruct (ref_to_msa_from_spec ref 0 (p - 1) ltac:(lia)) as (col & Hcol & _ & Hn & Hf).
  unfold align_pos, ref_to_msa. replace (p - 1 + nth (p - 1) (ref_to_msa_from 0 ref) 0%nat)%nat with col by lia. auto.
Qed.

(* ================= the codon loop: every disjoint position of a region is mentioned, and nothing else ================= *)
From Coq Require Import ZifyNat ZifyBool.
Ltac Zify.zify_post_hook ::= Z.div_mod_to_equations.

Definition dis (ref que : list N) (r2m : list nat) (p : nat) : bool :=
  N.land (nth (align_pos r2m p) que 0) (nth (align_pos r2m p) ref 0) <? 16.
Definition vp (v : variant) : nat := Z.to_nat (v_pos v).
Lemma vp_mk_nuc r q p : vp (mk_nuc r q p) = p. Proof. unfold vp, mk_nuc. cbn. apply Nat2Z.id. Qed.

Section CodonLoop.
  Variables (ref que : list N) (r2m : list nat) (g : region).
  Hypothesis no_ref_gap : forall p, In p (g_pos g) -> (nth (align_pos r2m p) ref 0 =? 244) = false.

  Definition AInv (pre : list nat) (s : aast) : Prop :=
    a_panic s = false ->
    flat_map snd (a_out s) ++ map vp (a_snps s) = filter (dis ref que r2m) pre /\
    a_cc s = (length pre mod 3)%nat /\ (a_cc s = 0%nat -> a_snps s = []).

  Lemma flat_map_snd_trace l : flat_map snd (map trace_nuc l) = map vp l.
  Proof. induction l as [|v t IH]; [reflexivity|]. cbn. rewrite IH. reflexivity. Qed.

  Lemma aa_step_inv pre s p : In p (g_pos g) -> AInv pre s -> AInv (pre ++ [p]) (aa_step ref que r2m g s p).
  Proof.
    intros Hp Hinv. unfold AInv in *. unfold aa_step. destruct (a_panic s) eqn:Hpan; [intros H; congruence|].
    specialize (Hinv eq_refl). destruct Hinv as (Hm & Hcc & Hz).
    rewrite (no_ref_gap p Hp).
    rewrite filter_app. cbn [filter]. fold (dis ref que r2m p).
    set (snps' := if dis ref que r2m p then a_snps s ++ [mk_nuc (dec (nth (align_pos r2m p) ref 0)) (dec (nth (align_pos r2m p) que 0)) p] else a_snps s).
    assert (Hs' : map vp snps' = map vp (a_snps s) ++ (if dis ref que r2m p then [p] else [])).
    { unfold snps'. destruct (dis ref que r2m p); [rewrite map_app; cbn [map]; rewrite vp_mk_nuc; reflexivity|rewrite app_nil_r; reflexivity]. }
    assert (Hlen : length (pre ++ [p]) = S (length pre)) by (rewrite app_length; cbn; lia).
    unfold dis in snps'. fold snps'.
    destruct (Nat.eqb_spec (S (a_cc s)) 3) as [E3|E3].
    - destruct (nth_error (g_trans g) (a_aa s)) as [ra|]; [|cbn [a_panic]; intros H; discriminate].
      cbn [a_panic a_out a_snps a_cc]. intros _. rewrite Hlen. split; [|split; [lia|reflexivity]].
      rewrite app_nil_r. rewrite <- Hm, <- app_assoc, <- Hs'.
      destruct (negb _ && negb _); rewrite flat_map_app; [cbn [flat_map snd]; rewrite app_nil_r; reflexivity|rewrite flat_map_snd_trace; reflexivity].
    - cbn [a_panic a_out a_snps a_cc]. intros _. rewrite Hlen. split; [|split; [lia|lia]].
      rewrite Hs', app_assoc, Hm. reflexivity.
  Qed.

  Lemma aa_fold_inv post : forall pre s, (forall p, In p post -> In p (g_pos g)) -> AInv pre s ->
    AInv (pre ++ post) (fold_left (aa_step ref que r2m g) post s).
  Proof.
    induction post as [|p t IH]; intros pre s Hin Hi; cbn [fold_left]; [rewrite app_nil_r; exact Hi|].
    replace (pre ++ p :: t) with ((pre ++ [p]) ++ t) by (rewrite <- app_assoc; reflexivity).
    apply IH; [intros q Hq; apply Hin; right; exact Hq|]. apply aa_step_inv; [apply Hin; left; reflexivity|exact Hi].
  Qed.

  (* for a region whose length is a multiple of 3, the positions mentioned by the records the codon loop emits -
     the nuc: records and the (nuc:...) lists of the aa: records - are EXACTLY the positions of the region, in
     region order, at which the reference and query symbols test disjoint: none dropped, none invented *)
  Theorem aa_mentions_exact out : (length (g_pos g) mod 3 = 0)%nat ->
    get_aas_traced ref que r2m g = Ok out -> flat_map snd out = filter (dis ref que r2m) (g_pos g).
  Proof.
    intros Hmod H. unfold get_aas_traced in H.
    pose proof (aa_fold_inv (g_pos g) [] aa_init (fun p Hp => Hp)) as Hi. cbn [app] in Hi.
    assert (H0 : AInv [] aa_init) by (intros _; cbn; repeat split; reflexivity).
    specialize (Hi H0). destruct (a_panic (fold_left (aa_step ref que r2m g) (g_pos g) aa_init)) eqn:Hp; [discriminate|].
    injection H as <-. destruct (Hi Hp) as (Hm & Hcc & Hz). rewrite Hmod in Hcc. rewrite (Hz Hcc), app_nil_r in Hm. exact Hm.
  Qed.
End CodonLoop.

(* ================= merge, sort, dedupe: what the final list mentions ================= *)
Section Merge.
  Variables (ref que : list N) (gs : list region).
  Let r2m := ref_to_msa ref.
  Let reflen := length (filter nongap ref).
  Let inter := inter_of gs reflen.
  Hypothesis regions_in_range : forall g p, In g gs -> In p (g_pos g) -> (1 <= p <= reflen)%nat.
  Hypothesis regions_mod3 : forall g, In g gs -> (length (g_pos g) mod 3 = 0)%nat.

  Lemma all_aas_mentions : forall l aas, (forall g, In g l -> In g gs) -> all_aas ref que r2m l = Ok aas ->
    flat_map snd aas = flat_map (fun g => filter (dis ref que r2m) (g_pos g)) l.
  Proof.
    induction l as [|g t IH]; intros aas Hsub H; cbn [all_aas] in H; [injection H as <-; reflexivity|].
    destruct (get_aas_traced ref que r2m g) as [a| |] eqn:Ea; try discriminate. cbn [bind] in H.
    destruct (all_aas ref que r2m t) as [r| |] eqn:Er; try discriminate. cbn [bind] in H. injection H as <-.
    rewrite flat_map_app. cbn [flat_map]. f_equal.
    - apply (aa_mentions_exact ref que r2m g); [|apply regions_mod3; apply Hsub; left; reflexivity|exact Ea].
      intros p Hp. apply align_pos_is_own_column. apply (regions_in_range g p); [apply Hsub; left; reflexivity|exact Hp].
    - apply IH; [intros g' Hg'; apply Hsub; right; exact Hg'|reflexivity].
  Qed.

  Lemma nucs_mentions : flat_map snd (map trace_nuc (get_nucs ref que r2m inter)) = filter (dis ref que r2m) inter.
  Proof.
    rewrite (flat_map_snd_trace). unfold get_nucs. induction inter as [|p t IH]; [reflexivity|].
    cbn [flat_map filter]. unfold dis at 1. rewrite (N.land_comm (nth (align_pos r2m p) que 0)).
    destruct (N.land _ _ <? 16); cbn [map app]; [rewrite vp_mk_nuc|]; rewrite IH; reflexivity.
  Qed.

  (* the merged list (indels, intergenic nucs, per-region records) mentions p iff p is a reference position
     whose symbols test disjoint *)
  Theorem merged_mentions_exact aas : all_aas ref que r2m gs = Ok aas -> forall p,
    In p (flat_map snd (map (fun i => (mk_indel i, [])) (Indels.get_indels (cols_of_rows ref que)) ++
                        map trace_nuc (get_nucs ref que r2m inter) ++ aas)) <->
    ((1 <= p <= reflen)%nat /\ dis ref que r2m p = true).
  Proof.
    intros Ha p. rewrite !flat_map_app, !in_app_iff.
    assert (E0 : flat_map snd (map (fun i => (mk_indel i, @nil nat)) (Indels.get_indels (cols_of_rows ref que))) = []).
    { induction (Indels.get_indels (cols_of_rows ref que)) as [|i t IH]; [reflexivity|]. cbn. exact IH. }
    rewrite E0, nucs_mentions, (all_aas_mentions gs aas (fun g H => H) Ha). split.
    - intros [[]|[H|H]].
      + apply filter_In in H as [Hi Hd]. split; [|exact Hd]. unfold inter, inter_of in Hi. apply filter_In in Hi as [Hi _]. apply in_seq in Hi. lia.
      + apply in_flat_map in H as (g & Hg & H). apply filter_In in H as [Hp Hd]. split; [apply (regions_in_range g p Hg Hp)|exact Hd].
    - intros [Hr Hd]. right.
      destruct (existsb (fun g => existsb (Nat.eqb p) (g_pos g)) gs) eqn:Ex.
      + right. apply existsb_exists in Ex as (g & Hg & Ex). apply existsb_exists in Ex as (q & Hq & Ex). apply Nat.eqb_eq in Ex. subst q.
        apply in_flat_map. exists g. split; [exact Hg|]. apply filter_In. split; assumption.
      + left. apply filter_In. split; [|exact Hd]. unfold inter, inter_of. apply filter_In. split; [apply in_seq; lia|]. rewrite Ex. reflexivity.
  Qed.

  (* sorting permutes, dedupe only removes: nothing is invented *)
  Lemma ssort_In {E} (lt : E -> E -> bool) l x : In x (ssort E lt l) <-> In x l.
  Proof.
    unfold ssort. assert (G : forall acc, In x (fold_left (fun acc y => ins E lt y acc) l acc) <-> In x acc \/ In x l).
    { induction l as [|y t IH]; intros acc; cbn [fold_left]; [cbn; tauto|]. rewrite IH, ins_In. cbn [In]. intuition congruence. }
    rewrite G. cbn. tauto.
  Qed.
  Lemma dedupe_sub l : forall seen x, In x (dedupe seen l) -> In x l.
  Proof.
    induction l as [|v t IH]; intros seen x H; cbn [dedupe] in H; [contradiction|].
    destruct (_ && _); [right; eapply IH; eauto|].
    destruct (existsb (variant_eqb (fst v)) seen); [right; eapply IH; eauto|].
    destruct H as [<-|H]; [left; reflexivity|right; eapply IH; eauto].
  Qed.

  Theorem nuc_mentions_sound out : variants_pair_traced ref que gs inter = Ok out ->
    forall p, In p (flat_map snd out) -> ((1 <= p <= reflen)%nat /\ dis ref que r2m p = true).
  Proof.
    unfold variants_pair_traced. fold r2m. destruct (all_aas ref que r2m gs) as [aas| |] eqn:Ea; try discriminate.
    cbn [bind]. intros [= <-] p Hp. apply in_flat_map in Hp as (x & Hx & Hp).
    apply dedupe_sub in Hx. apply ssort_In in Hx. apply (merged_mentions_exact aas Ea p). apply in_flat_map. eauto.
  Qed.
End Merge.

(* ================= completeness through the duplicate removal ================= *)
Definition wf_tr (x : variant * list nat) : Prop :=
  match v_kind (fst x) with KNuc => snd x = [vp (fst x)] | KAA => True | _ => snd x = [] end.
Fixpoint aa_uniq (l : list (variant * list nat)) : Prop :=
  match l with
  | [] => True
  | x :: t => (v_kind (fst x) = KAA -> Forall (fun y => variant_eqb (fst y) (fst x) = false) t) /\ aa_uniq t
  end.

Lemma kind_rank_inj a b : kind_rank a = kind_rank b -> a = b.
Proof. destruct a, b; cbn; intros H; try reflexivity; discriminate. Qed.
Lemma variant_eqb_kind a b : variant_eqb a b = true -> v_kind a = v_kind b /\ v_pos a = v_pos b.
Proof.
  unfold variant_eqb. rewrite !andb_true_iff. intros [[[[[[[H1 H2] _] _] _] _] _] _].
  apply Z.eqb_eq in H1, H2. split; [apply kind_rank_inj; exact H1|exact H2].
Qed.

Lemma dedupe_complete l : forall seen, Forall wf_tr l -> aa_uniq l ->
  (forall pv, In pv seen -> v_kind pv = KAA -> Forall (fun y => variant_eqb (fst y) pv = false) l) ->
  forall v m p, In (v, m) l -> In p m ->
  In p (flat_map snd (dedupe seen l)) \/ (exists pv, In pv seen /\ variant_eqb v pv = true /\ v_kind v = KNuc).
Proof.
  induction l as [|x t IH]; intros seen Hwf Hu Hfresh v m p Hin Hp; [contradiction|].
  inversion Hwf as [|? ? Hx Hwt]; subst. destruct Hu as [Hux Hut]. cbn [dedupe].
  assert (Hfresh_t : forall pv, In pv seen -> v_kind pv = KAA -> Forall (fun y => variant_eqb (fst y) pv = false) t).
  { intros pv E K. specialize (Hfresh pv E K). inversion Hfresh; assumption. }
  destruct ((match v_kind (fst x) with KDel => true | _ => false end) && (v_pos (fst x) =? 0)%Z) eqn:Edel.
  - (* a start-abutting deletion: mentions nothing *)
    destruct Hin as [Hin|Hin]; [|apply (IH seen Hwt Hut Hfresh_t v m p Hin Hp)].
    subst x. cbn [fst snd] in *. unfold wf_tr in Hx. cbn [fst snd] in Hx. destruct (v_kind v); try discriminate. subst m. contradiction.
  - destruct (existsb (variant_eqb (fst x)) seen) eqn:Edup.
    + (* dropped as a repetition of a record kept earlier *)
      destruct Hin as [Hin|Hin]; [|apply (IH seen Hwt Hut Hfresh_t v m p Hin Hp)].
      subst x. cbn [fst snd] in *. apply existsb_exists in Edup as (pv & Hpv & Edup).
      destruct (variant_eqb_kind _ _ Edup) as [Hk _]. unfold wf_tr in Hx. cbn [fst snd] in Hx.
      destruct (v_kind v) eqn:Kv.
      * exfalso. specialize (Hfresh pv Hpv (eq_sym Hk)). inversion Hfresh as [|? ? Hf _]; subst. cbn [fst] in Hf. congruence.
      * subst m. contradiction.
      * subst m. contradiction.
      * right. exists pv. auto.
    + (* kept *)
      cbn [flat_map]. destruct Hin as [Hin|Hin].
      * subst x. left. apply in_or_app. left. exact Hp.
      * assert (Hf' : forall pv, In pv (fst x :: seen) -> v_kind pv = KAA -> Forall (fun y => variant_eqb (fst y) pv = false) t).
        { intros pv [<-|Hpv] K; [apply Hux; exact K|apply Hfresh_t; assumption]. }
        destruct (IH (fst x :: seen) Hwt Hut Hf' v m p Hin Hp) as [H|(pv & [<-|Hpv] & He & Kv)].
        -- left. apply in_or_app. right. exact H.
        -- left. apply in_or_app. left. destruct (variant_eqb_kind _ _ He) as [Hk Hpos].
           assert (Hwv : wf_tr (v, m)) by (rewrite Forall_forall in Hwt; apply Hwt; exact Hin).
           unfold wf_tr in Hwv, Hx. cbn [fst snd] in Hwv. rewrite Kv in Hwv. rewrite <- Hk, Kv in Hx.
           rewrite Hx. rewrite Hwv in Hp. destruct Hp as [<-|[]]. left. unfold vp. rewrite Hpos. reflexivity.
        -- right. exists pv. auto.
Qed.

(* what the codon loop emits is well-formed: nuc: records mention their own position *)
Lemma aa_out_wf ref que r2m g : forall l s,
  Forall wf_tr (a_out s) -> Forall (fun v => v_kind v = KNuc) (a_snps s) ->
  Forall wf_tr (a_out (fold_left (aa_step ref que r2m g) l s)).
Proof.
  induction l as [|p t IH]; intros s Ho Hs; cbn [fold_left]; [exact Ho|].
  assert (K : Forall wf_tr (a_out (aa_step ref que r2m g s p)) /\ Forall (fun v => v_kind v = KNuc) (a_snps (aa_step ref que r2m g s p))).
  { unfold aa_step. destruct (a_panic s); [split; assumption|]. destruct (_ =? 244); [split; assumption|].
    set (snps' := if _ <? 16 then a_snps s ++ [_] else a_snps s).
    assert (Hs' : Forall (fun v => v_kind v = KNuc) snps').
    { unfold snps'. destruct (_ <? 16); [apply Forall_app; split; [exact Hs|repeat constructor]|exact Hs]. }
    destruct (Nat.eqb (S (a_cc s)) 3).
    - destruct (nth_error (g_trans g) (a_aa s)); cbn [a_out a_snps]; [|split; assumption]. split; [|constructor].
      destruct (negb _ && negb _); apply Forall_app; split; try exact Ho.
      + repeat constructor.
      + apply Forall_forall. intros x Hx. apply in_map_iff in Hx as (v & <- & Hv). rewrite Forall_forall in Hs'. unfold wf_tr, trace_nuc. cbn [fst snd].
        rewrite (Hs' v Hv). reflexivity.
    - cbn [a_out a_snps]. split; assumption. }
  destruct K as [K1 K2]. apply IH; assumption.
Qed.

Section Complete.
  Variables (ref que : list N) (gs : list region).
  Let r2m := ref_to_msa ref.
  Let reflen := length (filter nongap ref).
  Let inter := inter_of gs reflen.
  Hypothesis regions_in_range : forall g p, In g gs -> In p (g_pos g) -> (1 <= p <= reflen)%nat.
  Hypothesis regions_mod3 : forall g, In g gs -> (length (g_pos g) mod 3 = 0)%nat.

  Lemma all_aas_wf : forall l aas, all_aas ref que r2m l = Ok aas -> Forall wf_tr aas.
  Proof.
    induction l as [|g t IH]; intros aas H; cbn [all_aas] in H; [injection H as <-; constructor|].
    destruct (get_aas_traced ref que r2m g) as [a| |] eqn:Ea; try discriminate. cbn [bind] in H.
    destruct (all_aas ref que r2m t) as [r| |] eqn:Er; try discriminate. cbn [bind] in H. injection H as <-.
    apply Forall_app. split; [|apply IH; reflexivity].
    unfold get_aas_traced in Ea. destruct (a_panic _); [discriminate|]. injection Ea as <-.
    apply aa_out_wf; constructor.
  Qed.

  Lemma merged_wf aas : all_aas ref que r2m gs = Ok aas ->
    Forall wf_tr (map (fun i => (mk_indel i, [])) (Indels.get_indels (cols_of_rows ref que)) ++
                  map trace_nuc (get_nucs ref que r2m inter) ++ aas).
  Proof.
    intros Ha. apply Forall_app. split; [|apply Forall_app; split; [|apply (all_aas_wf gs aas Ha)]].
    - apply Forall_forall. intros x Hx. apply in_map_iff in Hx as (i & <- & _). unfold wf_tr. destruct i; reflexivity.
    - apply Forall_forall. intros x Hx. apply in_map_iff in Hx as (v & <- & Hv). apply get_nucs_iff in Hv as (p & _ & _ & ->).
      unfold wf_tr, trace_nuc. reflexivity.
  Qed.

  (* none is dropped: every reference position whose symbols test disjoint is mentioned by the final list, provided no two
     aa: records of the sorted list are equal (true whenever the features carry pairwise distinct names: records of one
     feature differ in their residue number) *)
  Theorem nuc_mentions_complete out aas : all_aas ref que r2m gs = Ok aas ->
    variants_pair_traced ref que gs inter = Ok out ->
    aa_uniq (ssort (variant * list nat) t_lt
               (map (fun i => (mk_indel i, [])) (Indels.get_indels (cols_of_rows ref que)) ++ map trace_nuc (get_nucs ref que r2m inter) ++ aas)) ->
    forall p, (1 <= p <= reflen)%nat -> dis ref que r2m p = true -> In p (flat_map snd out).
  Proof.
    intros Ha Hout Hu p Hr Hd. unfold variants_pair_traced in Hout. fold r2m in Hout. rewrite Ha in Hout. cbn [bind] in Hout. injection Hout as <-.
    pose proof (proj2 (merged_mentions_exact ref que gs regions_in_range regions_mod3 aas Ha p) (conj Hr Hd)) as Hin.
    apply in_flat_map in Hin as ([v m] & Hx & Hp). cbn [snd] in Hp.
    set (L := map (fun i => (mk_indel i, [])) (Indels.get_indels (cols_of_rows ref que)) ++ map trace_nuc (get_nucs ref que r2m inter) ++ aas) in *.
    assert (Hwf : Forall wf_tr (ssort (variant * list nat) t_lt L)).
    { apply Forall_forall. intros x Hx'. apply (proj1 (ssort_In t_lt L x)) in Hx'. pose proof (merged_wf aas Ha) as W. rewrite Forall_forall in W. apply W. exact Hx'. }
    destruct (dedupe_complete _ [] Hwf Hu ltac:(intros pv []) v m p (proj2 (ssort_In t_lt L (v, m)) Hx) Hp) as [H|(pv & [] & _)]; exact H.
  Qed.
End Complete.
