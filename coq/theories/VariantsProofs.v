(* VariantsProofs.v — C04 (first part): intergenic SNPs and the coding/intergenic split. *)
From Coq Require Import Floats.SpecFloat.
From GF Require Import Base Alphabet Symbols FastaModel Float TopK CodonModel Indels VariantsModel.
Open Scope N_scope.

(* getNucsPair lists exactly the intergenic positions whose (encoded) symbols test disjoint, naming the
   decoded symbols and the reference position *)
Theorem get_nucs_iff ref que r2m inter v :
  In v (get_nucs ref que r2m inter) <->
  exists p, In p inter /\ (N.land (nth (align_pos r2m p) ref 0) (nth (align_pos r2m p) que 0) <? 16) = true /\
            v = mk_nuc (dec (nth (align_pos r2m p) ref 0)) (dec (nth (align_pos r2m p) que 0)) p.
Proof.
  unfold get_nucs. rewrite in_flat_map. split.
  - intros (p & Hp & Hv). exists p. destruct (N.land _ _ <? 16) eqn:E; [|contradiction].
    destruct Hv as [<-|[]]. auto.
  - intros (p & Hp & E & ->). exists p. split; [exact Hp|]. rewrite E. left. reflexivity.
Qed.

(* codes: every reference position is either in a reported region or in the intergenic list, never both *)
Theorem inter_of_partition gs reflen p : (1 <= p <= reflen)%nat ->
  (In p (inter_of gs reflen) <-> ~ exists g, In g gs /\ In p (g_pos g)).
Proof.
  intros Hp. unfold inter_of. rewrite filter_In, in_seq, negb_true_iff. split.
  - intros [_ H] (g & Hg & Hin).
    assert (existsb (fun g => existsb (Nat.eqb p) (g_pos g)) gs = true).
    { apply existsb_exists. exists g. split; [exact Hg|]. apply existsb_exists. exists p. split; [exact Hin|apply Nat.eqb_refl]. }
    congruence.
  - intros H. split; [lia|]. apply not_true_is_false. intros E. apply H.
    apply existsb_exists in E as (g & Hg & E). apply existsb_exists in E as (q & Hq & E). apply Nat.eqb_eq in E. subst q. eauto.
Qed.

Definition nongap (c : N) : bool := negb (c =? 244).

(* the ref->msa offset table maps the k-th reference base to its own column: a non-gap column with exactly
   k-1 non-gap columns to its left *)
Lemma ref_to_msa_from_spec (ref : list N) : forall (g k : nat), (k < length (filter nongap ref))%nat ->
  exists col : nat, (col = k + nth k (ref_to_msa_from g ref) 0%nat - g)%nat /\ (g <= nth k (ref_to_msa_from g ref) 0%nat)%nat /\
              (nth col ref 0 =? 244) = false /\ length (filter nongap (firstn col ref)) = k.
Proof.
  induction ref as [|c t IH]; intros g k Hk; [cbn in Hk; lia|]. cbn [ref_to_msa_from filter] in *. unfold nongap in *.
  destruct (N.eqb_spec c 244) as [->|Hc]; cbn [negb] in Hk.
  - destruct (IH (S g) k Hk) as (col & Hcol & Hge & Hn & Hf). exists (S col). cbn [nth firstn filter N.eqb negb].
    replace (244 =? 244) with true by reflexivity. cbn [negb]. repeat split; try assumption; lia.
  - cbn [length] in Hk. destruct k as [|k].
    + exists 0%nat. cbn. destruct (N.eqb_spec c 244); [contradiction|]. repeat split; lia.
    + destruct (IH g k ltac:(lia)) as (col & Hcol & Hge & Hn & Hf). exists (S col). cbn [nth firstn filter].
      destruct (N.eqb_spec c 244); [contradiction|]. cbn [negb length]. repeat split; try assumption; lia.
Qed.

Theorem align_pos_is_own_column (ref : list N) (p : nat) :
  (1 <= p <= length (filter nongap ref))%nat ->
  (nth (align_pos (ref_to_msa ref) p) ref 0 =? 244) = false /\
  length (filter nongap (firstn (align_pos (ref_to_msa ref) p) ref)) = (p - 1)%nat.
Proof.
  intros Hp. destruct (ref_to_msa_from_spec ref 0 (p - 1) ltac:(lia)) as (col & Hcol & _ & Hn & Hf).
  unfold align_pos, ref_to_msa. replace (p - 1 + nth (p - 1) (ref_to_msa_from 0 ref) 0%nat)%nat with col by lia. auto.
Qed.
