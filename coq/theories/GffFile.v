(* GffFile.v — C14: a whole GFF3 file at the level of bytes (pkg/gff/gff.go ReadGFF, versionStringFromHeader,
   setSequenceRegionsFromHeader): bufio.ScanLines; after a line beginning ##FASTA every line belongs to the sequence section;
   before it a line beginning ## is a directive, a line beginning # a comment, every other line (a blank one too) a feature row
   for featureFromLine (GffLineModel.v); the directives are examined when the FIRST feature row is met (never, in a file
   without rows); the sequence section goes through the list reader of C16 (FastaModel.read_encoded false) and is decoded.
   Definitions only.  Outside the model: non-ASCII white space in a directive, lines beyond the 1 MiB the scanner is given. *)
From GF Require Import Base SymbolsDef FastaModel LocationModel GffLineModel GenbankModel.
Open Scope N_scope.

Record gffile := { gff_version : list N; gff_regions : list (list N * (Z * Z)); gff_features : list gfeat; gff_fasta : option (list rcd) }.
(* gff_regions: SequenceRegions in the order the directives set them - a map in the code: a later entry with the same seqid replaces
   the earlier; gff_fasta: None = the FASTA field stays nil; the records carry the DECODED sequence; a map by ID in the code *)

(* versionStringFromHeader: the first directive beginning gff-version must have exactly two fields *)
Fixpoint version_of (hdr : list (list N)) : res (list N) :=
  match hdr with
  | [] => Err BadFormat
  | l :: t => if is_prefix (bs "gff-version") l
              then match fields_go l [] with [_; v] => Ok v | _ => Err BadFormat end
              else version_of t
  end.
(* setSequenceRegionsFromHeader *)
Fixpoint regions_of (hdr : list (list N)) : res (list (list N * (Z * Z))) :=
  match hdr with
  | [] => Ok []
  | l :: t =>
      if is_prefix (bs "sequence-region") l then
        match fields_go l [] with
        | _ :: id :: a :: b :: _ =>
            match atoi a with None => Err BadFormat | Some s =>
            match atoi b with None => Err BadFormat | Some e => bind (regions_of t) (fun r => Ok ((id, (s, e)) :: r)) end end
        | _ => Err BadFormat
        end
      else regions_of t
  end.

Record gst := { g_infasta : bool; g_hdr : list (list N); g_first : bool; g_ver : list N; g_regs : list (list N * (Z * Z));
                g_feats : list gfeat; g_fasta : list (list N) }.
Definition g_init : gst := {| g_infasta := false; g_hdr := []; g_first := true; g_ver := []; g_regs := []; g_feats := []; g_fasta := [] |}.

Definition gff_step (s : gst) (line : list N) : res gst :=
  if g_infasta s then
    Ok {| g_infasta := true; g_hdr := g_hdr s; g_first := g_first s; g_ver := g_ver s; g_regs := g_regs s; g_feats := g_feats s; g_fasta := g_fasta s ++ [line] |}
  else if is_prefix (bs "##FASTA") line then
    Ok {| g_infasta := true; g_hdr := g_hdr s; g_first := g_first s; g_ver := g_ver s; g_regs := g_regs s; g_feats := g_feats s; g_fasta := g_fasta s |}
  else if is_prefix (bs "##") line then
    Ok {| g_infasta := false; g_hdr := g_hdr s ++ [skipn 2 line]; g_first := g_first s; g_ver := g_ver s; g_regs := g_regs s; g_feats := g_feats s; g_fasta := g_fasta s |}
  else if is_prefix (bs "#") line then Ok s
  else
    bind (if g_first s then bind (version_of (g_hdr s)) (fun v => bind (regions_of (g_hdr s)) (fun r => Ok (v, r))) else Ok (g_ver s, g_regs s)) (fun vr =>
    bind (feature_from_line line) (fun f =>
      Ok {| g_infasta := false; g_hdr := g_hdr s; g_first := false; g_ver := fst vr; g_regs := snd vr; g_feats := g_feats s ++ [f]; g_fasta := g_fasta s |})).
Fixpoint gff_fold (s : gst) (ls : list (list N)) : res gst :=
  match ls with [] => Ok s | l :: t => bind (gff_step s l) (fun s' => gff_fold s' t) end.

Definition decode_rcd (r : rcd) : rcd := {| r_id := r_id r; r_desc := r_desc r; r_seq := concat (map dec (r_seq r)); r_idx := r_idx r |}.
Definition gff_finish (s : gst) : res gffile :=
  match g_fasta s with
  | [] => Ok {| gff_version := g_ver s; gff_regions := g_regs s; gff_features := g_feats s; gff_fasta := None |}
  | ls => bind (read_encoded false (concat (map (fun l => l ++ [10]) ls))) (fun recs =>
            Ok {| gff_version := g_ver s; gff_regions := g_regs s; gff_features := g_feats s; gff_fasta := Some (map decode_rcd recs) |})
  end.
Definition read_gff_lines (ls : list (list N)) : res gffile := bind (gff_fold g_init ls) gff_finish.
Definition read_gff (file : list N) : res gffile := read_gff_lines (scan_lines file).
