(* GenbankProofs.v — C14: a FEATURES block written from features with one-line qualifiers is read back as those features. *)
From GF Require Import Base FastaModel GenbankModel.
Open Scope N_scope.

Definition nospace (w : list N) : Prop := Forall (fun c => is_space c = false) w.
Record qual := { qk : list N; qv : list N; qquoted : bool; qmore : list (list N) }.   (* qmore: the further lines of a quoted value that runs over several lines (a long /translation) *)
Record wfeat := { fk : list N; floc : list N; fmore : list (list N); fquals : list qual }.   (* fmore: the rest of a location too long for one line *)
Definition indent (n : nat) : list N := repeat 32 n.
Definition feat_line (f : wfeat) : list N := indent 5 ++ fk f ++ indent 3 ++ floc f.
Definition value_text (q : qual) : list N := if qquoted q then [34] ++ qv q ++ [34] else qv q.
Definition qual_line (q : qual) : list N := indent 21 ++ [47] ++ qk q ++ [61] ++ value_text q.
Definition cont_line (c : list N) : list N := indent 21 ++ c.
Definition qual_first (q : qual) : list N := indent 21 ++ [47] ++ qk q ++ [61] ++ [34] ++ qv q.             (* slash k equals quote v: the quote is not closed on this line *)
Fixpoint more_lines (cs : list (list N)) : list (list N) :=
  match cs with [] => [] | [c] => [indent 21 ++ c ++ [34]] | c :: t => (indent 21 ++ c) :: more_lines t end.
Definition qual_lines (q : qual) : list (list N) := match qmore q with [] => [qual_line q] | cs => qual_first q :: more_lines cs end.
Definition feat_lines (f : wfeat) : list (list N) := feat_line f :: map cont_line (fmore f) ++ concat (map qual_lines (fquals f)).
Definition render_features (fs : list wfeat) : list (list N) := concat (map feat_lines fs).
Definition full_loc (f : wfeat) : list N := floc f ++ concat (fmore f).
Definition qfull (q : qual) : list N := qv q ++ concat (qmore q).
Definition kv (q : qual) : list N * list N := (qk q, qfull q).
Definition parsed (f : wfeat) : gbfeat := {| gf_key := fk f; gf_loc := full_loc f; gf_info := Some (map kv (fquals f)) |}.

Definition lacks (s : N) (x : list N) : Prop := forall c, In c x -> c <> s.
Definition wf_vchunk (c : list N) : Prop := c <> [] /\ lacks 34 c /\ is_space (hd 0 c) = false /\ is_space (last c 0) = false.
Definition wf_qual (q : qual) : Prop :=
  qk q <> [] /\ lacks 61 (qk q) /\ qv q <> [] /\ lacks 61 (qv q) /\ lacks 34 (qv q) /\ (qquoted q = false -> nospace (qv q)) /\
  (qmore q <> [] -> qquoted q = true /\ is_space (last (qv q) 0) = false /\ Forall wf_vchunk (qmore q)).
Definition wf_chunk (c : list N) : Prop := c <> [] /\ nospace c /\ hd 0 c <> 47.
Definition wf_feat (f : wfeat) : Prop :=
  fk f <> [] /\ nospace (fk f) /\ hd 0 (fk f) <> 47 /\ floc f <> [] /\ nospace (floc f) /\ fquals f <> [] /\ Forall wf_qual (fquals f) /\ Forall wf_chunk (fmore f).

(* ---- strings.Fields and TrimSpace on these lines ---- *)
Lemma fields_word w : nospace w -> forall rest rcur, fields_go (w ++ rest) rcur = fields_go rest (rev w ++ rcur).
Proof.
  induction 1 as [|c w Hc _ IH]; intros rest rcur; [reflexivity|]. cbn [app fields_go]. rewrite Hc, IH. cbn [rev]. rewrite <- app_assoc. reflexivity.
Qed.
Lemma fields_indent n rest : fields_go (indent n ++ rest) [] = fields_go rest [].
Proof. induction n as [|n IH]; [reflexivity|]. cbn [indent repeat app fields_go]. cbn. exact IH. Qed.
Lemma fields_sep rcur n rest : rcur <> [] -> fields_go (indent (S n) ++ rest) rcur = rev rcur :: fields_go rest [].
Proof.
  intros Hr. cbn [indent repeat app fields_go]. change (is_space 32) with true. cbv iota. destruct rcur as [|r0 rc]; [congruence|].
  f_equal. apply fields_indent.
Qed.
Lemma rev_nonnil {A} (l : list A) : l <> [] -> rev l <> [].
Proof. intros H E. apply H. apply (f_equal (@rev A)) in E. rewrite rev_involutive in E. exact E. Qed.
Lemma fields_feat_line f : wf_feat f -> fields_go (feat_line f) [] = [fk f; floc f].
Proof.
  intros (Hk & Hks & _ & Hl & Hls & _). unfold feat_line. rewrite fields_indent, fields_word by exact Hks. rewrite app_nil_r.
  rewrite fields_sep by (apply rev_nonnil; exact Hk). rewrite rev_involutive. f_equal.
  rewrite <- (app_nil_r (floc f)) at 1. rewrite fields_word by exact Hls. cbn [fields_go]. rewrite app_nil_r.
  destruct (rev (floc f)) eqn:El; [exfalso; revert El; apply rev_nonnil; exact Hl|]. rewrite <- El, rev_involutive. reflexivity.
Qed.
Lemma is_feature_feat_line f : wf_feat f -> is_feature_line (feat_line f) true = true.
Proof.
  intros H. unfold is_feature_line. rewrite (fields_feat_line f H). destruct H as (Hk & _ & Hh & _).
  destruct (fk f) as [|c t]; [congruence|]. cbn in *. destruct (N.eqb_spec c 47); [contradiction|reflexivity].
Qed.
Lemma fields_first_acc l : forall rcur, rcur <> [] -> exists w rest, fields_go l rcur = (rev rcur ++ w) :: rest.
Proof.
  induction l as [|c t IH]; intros rcur Hr; cbn [fields_go].
  - destruct rcur; [congruence|]. exists [], []. rewrite app_nil_r. reflexivity.
  - destruct (is_space c).
    + destruct rcur; [congruence|]. exists [], (fields_go t []). rewrite app_nil_r. reflexivity.
    + destruct (IH (c :: rcur)) as (w & rest & E); [discriminate|]. exists (c :: w), rest. rewrite E. cbn [rev]. rewrite <- app_assoc. reflexivity.
Qed.
Lemma is_feature_qual_line q b : is_feature_line (qual_line q) b = false.
Proof.
  unfold is_feature_line, qual_line. rewrite fields_indent.
  assert (E0 : fields_go ([47] ++ qk q ++ [61] ++ value_text q) [] = fields_go (qk q ++ [61] ++ value_text q) [47]) by reflexivity.
  rewrite E0. clear E0.
  destruct (fields_first_acc (qk q ++ [61] ++ value_text q) [47]) as (w & rest & E); [discriminate|]. rewrite E. cbn [rev app].
  destruct b; [|reflexivity]. cbn [andb]. destruct rest as [|r1 [|r2 rest']]; reflexivity.
Qed.

Lemma drop_space_indent n x c t : x = c :: t -> is_space c = false -> drop_space (indent n ++ x) = x.
Proof. intros -> Hc. induction n as [|n IH]; cbn [indent repeat app drop_space]; [rewrite Hc; reflexivity|]. cbn. exact IH. Qed.
Lemma trim_space_line n x c t y d : x = c :: t -> is_space c = false -> x = y ++ [d] -> is_space d = false -> trim_space (indent n ++ x) = x.
Proof.
  intros Ex Hc Ey Hd. unfold trim_space. rewrite (drop_space_indent n x c t Ex Hc). rewrite Ey at 1. rewrite rev_app_distr. cbn [rev app drop_space].
  rewrite Hd. change (d :: rev y) with (rev [d] ++ rev y). rewrite <- rev_app_distr, rev_involutive, <- Ey. reflexivity.
Qed.
Lemma last_nonspace q : wf_qual q -> exists y d, value_text q = y ++ [d] /\ is_space d = false.
Proof.
  intros (_ & _ & Hv & _ & _ & Hns & _). unfold value_text. destruct (qquoted q) eqn:Eq.
  - exists ([34] ++ qv q), 34. split; [rewrite <- app_assoc; reflexivity|reflexivity].
  - destruct (exists_last Hv) as (y & d & E). exists y, d. split; [exact E|]. specialize (Hns eq_refl). unfold nospace in Hns. rewrite Forall_forall in Hns.
    apply Hns. rewrite E. apply in_app_iff. right; left; reflexivity.
Qed.
Lemma trim_qual_line q : wf_qual q -> trim_space (qual_line q) = 47 :: qk q ++ [61] ++ value_text q.
Proof.
  intros H. destruct (last_nonspace q H) as (y & d & Ey & Hd). unfold qual_line.
  apply (trim_space_line 21 ([47] ++ qk q ++ [61] ++ value_text q) 47 (qk q ++ [61] ++ value_text q) ([47] ++ qk q ++ [61] ++ y) d); try reflexivity; [|exact Hd].
  rewrite Ey, <- !app_assoc. reflexivity.
Qed.
Lemma trim_feat_line f : wf_feat f -> exists t, trim_space (feat_line f) = hd 0 (fk f) :: t /\ hd 0 (fk f) <> 47.
Proof.
  intros (Hk & Hks & Hh & Hl & Hls & _). destruct (fk f) as [|c t] eqn:Ek; [congruence|]. destruct (exists_last Hl) as (y & d & El).
  exists (t ++ indent 3 ++ floc f). split; [|exact Hh]. unfold feat_line. rewrite Ek.
  apply (trim_space_line 5 ((c :: t) ++ indent 3 ++ floc f) c (t ++ indent 3 ++ floc f) ((c :: t) ++ indent 3 ++ y) d); try reflexivity.
  - inversion Hks; assumption.
  - rewrite El, <- !app_assoc. reflexivity.
  - unfold nospace in Hls. rewrite Forall_forall in Hls. apply Hls. rewrite El. apply in_app_iff. right; left; reflexivity.
Qed.

(* ---- the scan of one qualifier ---- *)
Lemma scan_key k : lacks 61 k -> forall s, q_iskey s = true ->
  fold_left qual_char k s = {| q_iskey := true; q_closed := q_closed s; q_key := rev k ++ q_key s; q_val := q_val s |}.
Proof.
  induction k as [|c k IH]; intros Hk s Hs; [destruct s; cbn in *; subst; reflexivity|]. cbn [fold_left].
  assert (Hc : c <> 61) by (apply Hk; left; reflexivity). unfold qual_char at 2. destruct (N.eqb_spec c 61); [contradiction|]. rewrite Hs.
  rewrite IH; [|intros c' Hc'; apply Hk; right; exact Hc'|reflexivity]. cbn [q_closed q_key q_val rev]. rewrite <- app_assoc. reflexivity.
Qed.
Lemma scan_val v : lacks 61 v -> lacks 34 v -> forall s, q_iskey s = false ->
  fold_left qual_char v s = {| q_iskey := false; q_closed := q_closed s; q_key := q_key s; q_val := rev v ++ q_val s |}.
Proof.
  induction v as [|c v IH]; intros H61 H34 s Hs; [destruct s; cbn in *; subst; reflexivity|]. cbn [fold_left].
  assert (Hc1 : c <> 61) by (apply H61; left; reflexivity). assert (Hc2 : c <> 34) by (apply H34; left; reflexivity).
  unfold qual_char at 2. destruct (N.eqb_spec c 61); [contradiction|]. rewrite Hs. destruct (N.eqb_spec c 34); [contradiction|].
  rewrite IH; [|intros c' Hc'; apply H61; right; exact Hc'|intros c' Hc'; apply H34; right; exact Hc'|reflexivity].
  cbn [q_closed q_key q_val rev]. rewrite <- app_assoc. reflexivity.
Qed.
Lemma scan_qual q : wf_qual q ->
  fold_left qual_char (qk q ++ [61] ++ value_text q) {| q_iskey := true; q_closed := true; q_key := []; q_val := [] |} =
  {| q_iskey := false; q_closed := true; q_key := rev (qk q); q_val := rev (qv q) |}.
Proof.
  intros (_ & Hk61 & _ & Hv61 & Hv34 & _). rewrite fold_left_app, (scan_key _ Hk61) by reflexivity. cbn [q_closed q_key q_val app fold_left].
  unfold qual_char at 2. cbn [N.eqb Pos.eqb]. rewrite app_nil_r. unfold value_text. destruct (qquoted q).
  - cbn [app fold_left]. unfold qual_char at 2. cbn [N.eqb Pos.eqb q_iskey q_closed q_key q_val negb].
    rewrite fold_left_app, (scan_val _ Hv61 Hv34) by reflexivity. cbn [fold_left q_closed q_key q_val]. unfold qual_char. cbn [N.eqb Pos.eqb q_iskey q_closed negb].
    rewrite app_nil_r. reflexivity.
  - rewrite (scan_val _ Hv61 Hv34) by reflexivity. cbn [q_closed q_key q_val]. rewrite app_nil_r. reflexivity.
Qed.

(* ---- one line at a time ---- *)
Definition mk0 (f : wfeat) : gbfeat := {| gf_key := fk f; gf_loc := floc f; gf_info := Some [] |}.
Definition mk (f : wfeat) : gbfeat := {| gf_key := fk f; gf_loc := full_loc f; gf_info := Some [] |}.
Lemma new_feat_line f : wf_feat f -> new_feat (feat_line f) = mk0 f.
Proof. intros H. unfold new_feat. rewrite (fields_feat_line f H). reflexivity. Qed.

Lemma step_first_feature f : wf_feat f ->
  gb_step gb_init (feat_line f) = Ok {| st_closed := true; st_cur := mk0 f; st_key := []; st_val := []; st_done := []; st_line := 1 |}.
Proof.
  intros H. unfold gb_step_gen, gb_init. cbn [st_closed st_line st_cur st_key st_val st_done]. rewrite (is_feature_feat_line f H). cbn [Nat.eqb andb].
  rewrite (new_feat_line f H). reflexivity.
Qed.

(* a qualifier line: the pending qualifier (if any) goes into the feature, the new one becomes pending *)
Definition with_info (g : gbfeat) (m : list (list N * list N)) : gbfeat := {| gf_key := gf_key g; gf_loc := gf_loc g; gf_info := Some m |}.
Lemma step_qual s q m : wf_qual q -> st_closed s = true -> gf_info (st_cur s) = Some m ->
  gb_step s (qual_line q) =
  Ok {| st_closed := true;
        st_cur := match st_key s with [] => st_cur s | _ => with_info (st_cur s) (m ++ [(st_key s, st_val s)]) end;
        st_key := qk q; st_val := qv q; st_done := st_done s; st_line := S (st_line s) |}.
Proof.
  intros Hq Hc Hm. unfold gb_step_gen. rewrite is_feature_qual_line. cbn [andb]. rewrite (trim_qual_line q Hq). cbn [N.eqb Pos.eqb andb].
  rewrite (scan_qual q Hq). cbn [q_closed q_key q_val]. rewrite !rev_involutive.
  destruct (st_key s) as [|k0 kt] eqn:Ek; [reflexivity|]. rewrite Hc. cbn [negb]. unfold put_info. rewrite Hm. reflexivity.
Qed.
Lemma step_next_feature s f m : wf_feat f -> st_closed s = true -> gf_info (st_cur s) = Some m -> st_line s <> 0%nat ->
  gb_step s (feat_line f) =
  Ok {| st_closed := true; st_cur := mk0 f; st_key := []; st_val := [];
        st_done := st_done s ++ [with_info (st_cur s) (m ++ [(st_key s, st_val s)])]; st_line := S (st_line s) |}.
Proof.
  intros Hf Hc Hm Hl. unfold gb_step_gen. rewrite Hc, (is_feature_feat_line f Hf). destruct (Nat.eqb_spec (st_line s) 0); [contradiction|]. cbn [andb].
  destruct (trim_feat_line f Hf) as (t & Et & Hh). rewrite Et. destruct (N.eqb_spec (hd 0 (fk f)) 47); [contradiction|]. cbn [andb negb].
  unfold put_info. rewrite Hm. rewrite (new_feat_line f Hf). reflexivity.
Qed.

(* ---- a quoted value that runs over several lines ---- *)
Lemma is_feature_qual_first q b : is_feature_line (qual_first q) b = false.
Proof.
  unfold is_feature_line, qual_first. rewrite fields_indent.
  assert (E0 : fields_go ([47] ++ qk q ++ [61] ++ [34] ++ qv q) [] = fields_go (qk q ++ [61] ++ [34] ++ qv q) [47]) by reflexivity.
  rewrite E0. clear E0.
  destruct (fields_first_acc (qk q ++ [61] ++ [34] ++ qv q) [47]) as (w & rest & E); [discriminate|]. rewrite E. cbn [rev app].
  destruct b; [|reflexivity]. cbn [andb]. destruct rest as [|r1 [|r2 rest']]; reflexivity.
Qed.
Lemma trim_qual_first q : qv q <> [] -> is_space (last (qv q) 0) = false -> trim_space (qual_first q) = 47 :: qk q ++ [61] ++ [34] ++ qv q.
Proof.
  intros Hv Hl. destruct (exists_last Hv) as (y & d & Ey). unfold qual_first.
  apply (trim_space_line 21 ([47] ++ qk q ++ [61] ++ [34] ++ qv q) 47 (qk q ++ [61] ++ [34] ++ qv q) ([47] ++ qk q ++ [61] ++ [34] ++ y) d); try reflexivity.
  - rewrite Ey, <- !app_assoc. reflexivity.
  - rewrite Ey, last_last in Hl. exact Hl.
Qed.
Lemma scan_qual_first q : lacks 61 (qk q) -> lacks 61 (qv q) -> lacks 34 (qv q) ->
  fold_left qual_char (qk q ++ [61] ++ [34] ++ qv q) {| q_iskey := true; q_closed := true; q_key := []; q_val := [] |} =
  {| q_iskey := false; q_closed := false; q_key := rev (qk q); q_val := rev (qv q) |}.
Proof.
  intros Hk61 Hv61 Hv34. rewrite fold_left_app, (scan_key _ Hk61) by reflexivity. cbn [q_closed q_key q_val app fold_left].
  unfold qual_char at 2. cbn [N.eqb Pos.eqb]. rewrite app_nil_r. unfold qual_char at 2. cbn [N.eqb Pos.eqb q_iskey q_closed q_key q_val negb].
  rewrite (scan_val _ Hv61 Hv34) by reflexivity. cbn [q_closed q_key q_val]. rewrite app_nil_r. reflexivity.
Qed.
Definition cur_after (s : gbst) (m : list (list N * list N)) : gbfeat :=
  match st_key s with [] => st_cur s | _ => with_info (st_cur s) (m ++ [(st_key s, st_val s)]) end.
Lemma step_qual_first s q m : wf_qual q -> qmore q <> [] -> st_closed s = true -> gf_info (st_cur s) = Some m ->
  gb_step s (qual_first q) =
  Ok {| st_closed := false; st_cur := cur_after s m; st_key := qk q; st_val := qv q; st_done := st_done s; st_line := S (st_line s) |}.
Proof.
  intros (Hk & Hk61 & Hv & Hv61 & Hv34 & _ & Hm) Hne Hc Hinfo. destruct (Hm Hne) as (_ & Hl & _).
  unfold gb_step_gen. rewrite is_feature_qual_first. cbn [andb]. rewrite (trim_qual_first q Hv Hl). cbn [N.eqb Pos.eqb andb].
  rewrite (scan_qual_first q Hk61 Hv61 Hv34). cbn [q_closed q_key q_val]. rewrite !rev_involutive. unfold cur_after.
  destruct (st_key s) as [|k0 kt] eqn:Ek; [reflexivity|]. rewrite Hc. cbn [negb]. unfold put_info. rewrite Hinfo. reflexivity.
Qed.
Lemma scan_cont_chunk c : lacks 34 c -> forall st, fold_left cont_char c st =
  {| q_iskey := q_iskey st; q_closed := q_closed st; q_key := q_key st; q_val := rev c ++ q_val st |}.
Proof.
  induction c as [|x c IH]; intros H st; [destruct st; reflexivity|]. cbn [fold_left].
  assert (Hx : x <> 34) by (apply H; left; reflexivity). unfold cont_char at 2. destruct (N.eqb_spec x 34); [contradiction|].
  rewrite IH by (intros y Hy; apply H; right; exact Hy). cbn [q_iskey q_closed q_key q_val rev]. rewrite <- app_assoc. reflexivity.
Qed.
Lemma trim_vchunk c tail : wf_vchunk c -> (tail = [] \/ tail = [34]) -> trim_space (indent 21 ++ c ++ tail) = c ++ tail.
Proof.
  intros (Hne & _ & Hh & Hl) Ht. destruct c as [|c0 r] eqn:Ec; [congruence|]. rewrite <- Ec in *. cbn [hd] in Hh. rewrite Ec in Hh. cbn [hd] in Hh.
  destruct Ht as [->| ->].
  - rewrite app_nil_r. destruct (exists_last Hne) as (y & d & Ey). apply (trim_space_line 21 c c0 r y d); [exact Ec|exact Hh|exact Ey|].
    rewrite Ey, last_last in Hl. exact Hl.
  - apply (trim_space_line 21 (c ++ [34]) c0 (r ++ [34]) c 34); [rewrite Ec; reflexivity|exact Hh|reflexivity|reflexivity].
Qed.
Lemma step_more s c (closing : bool) : wf_vchunk c -> st_closed s = false -> st_key s <> [] ->
  gb_step s (indent 21 ++ c ++ (if closing then [34] else [])) =
  Ok {| st_closed := closing; st_cur := st_cur s; st_key := st_key s; st_val := st_val s ++ c; st_done := st_done s; st_line := S (st_line s) |}.
Proof.
  intros Hc Hcl Hk. unfold gb_step_gen. unfold is_feature_line. rewrite Hcl. cbn [andb].
  rewrite (trim_vchunk c (if closing then [34] else []) Hc) by (destruct closing; [right|left]; reflexivity).
  destruct Hc as (Hne & H34 & _). destruct c as [|c0 r] eqn:Ec; [congruence|]. rewrite <- Ec. 
  assert (Et : exists t, c ++ (if closing then [34] else []) = c0 :: t) by (rewrite Ec; eexists; reflexivity). destruct Et as (t & Et). rewrite Et.
  destruct (st_key s) as [|k0 kt] eqn:Ek; [congruence|]. rewrite andb_false_r. cbn [negb]. rewrite <- Et.
  rewrite fold_left_app, (scan_cont_chunk c) by (rewrite Ec; exact H34). cbn [q_iskey q_closed q_key q_val].
  destruct closing; cbn [fold_left]; [unfold cont_char; cbn [N.eqb Pos.eqb q_closed q_val negb]|].
  all: assert (Er : rev (rev c ++ rev (st_val s)) = st_val s ++ c) by (rewrite rev_app_distr, !rev_involutive; reflexivity).
  all: cbn [q_closed q_val]; rewrite Er; reflexivity.
Qed.
Lemma fold_more cs : cs <> [] -> Forall wf_vchunk cs -> forall s rest, st_closed s = false -> st_key s <> [] ->
  gb_fold s (more_lines cs ++ rest) =
  gb_fold {| st_closed := true; st_cur := st_cur s; st_key := st_key s; st_val := st_val s ++ concat cs; st_done := st_done s; st_line := (st_line s + length cs)%nat |} rest.
Proof.
  induction cs as [|c t IH]; intros Hne Hw s rest Hcl Hk; [congruence|]. inversion Hw as [|? ? Hc Ht]; subst. destruct t as [|c' t'].
  - cbn [more_lines app gb_fold_gen]. rewrite (step_more s c true Hc Hcl Hk). cbn [bind concat length]. rewrite app_nil_r, Nat.add_1_r. reflexivity.
  - change (more_lines (c :: c' :: t')) with ((indent 21 ++ c) :: more_lines (c' :: t')). cbn [app gb_fold_gen].
    pose proof (step_more s c false Hc Hcl Hk) as E. cbn iota in E. rewrite app_nil_r in E. rewrite E. cbn [bind].
    rewrite IH; [|discriminate|exact Ht|reflexivity|exact Hk]. cbn [st_cur st_key st_val st_done st_line concat length].
    rewrite <- app_assoc. do 2 f_equal. lia.
Qed.
(* all the lines of one qualifier: the pending qualifier (if any) goes into the feature, this one becomes pending with its WHOLE value *)
Lemma qual_block s q m rest : wf_qual q -> st_closed s = true -> gf_info (st_cur s) = Some m ->
  exists n, gb_fold s (qual_lines q ++ rest) =
    gb_fold {| st_closed := true; st_cur := cur_after s m; st_key := qk q; st_val := qfull q; st_done := st_done s; st_line := S (st_line s + n) |} rest.
Proof.
  intros Hq Hc Hm. unfold qual_lines, qfull. destruct (qmore q) as [|c cs] eqn:Eq.
  - exists 0%nat. cbn [app gb_fold_gen]. rewrite (step_qual s q m Hq Hc Hm). cbn [bind concat]. rewrite app_nil_r, Nat.add_0_r. reflexivity.
  - exists (length (c :: cs)). cbn [app gb_fold_gen]. rewrite (step_qual_first s q m Hq) by (try assumption; rewrite Eq; discriminate). cbn [bind].
    destruct Hq as (Hk & _ & _ & _ & _ & _ & Hmore). destruct Hmore as (_ & _ & Hw); [rewrite Eq; discriminate|]. rewrite Eq in Hw.
    rewrite (fold_more (c :: cs)); [|discriminate|exact Hw|reflexivity|exact Hk]. reflexivity.
Qed.

(* ---- the qualifiers of one feature ---- *)
Lemma fold_quals qs : Forall wf_qual qs -> forall s m rest, st_closed s = true -> gf_info (st_cur s) = Some m -> st_key s <> [] ->
  exists s', gb_fold s (concat (map qual_lines qs) ++ rest) = gb_fold s' rest /\
             st_closed s' = true /\ st_done s' = st_done s /\ (st_line s <= st_line s')%nat /\ st_key s' <> [] /\
             gf_key (st_cur s') = gf_key (st_cur s) /\ gf_loc (st_cur s') = gf_loc (st_cur s) /\
             exists m', gf_info (st_cur s') = Some m' /\ m' ++ [(st_key s', st_val s')] = m ++ [(st_key s, st_val s)] ++ map kv qs.
Proof.
  induction 1 as [|q qs Hq Hqs IH]; intros s m rest Hc Hm Hk.
  - exists s. cbn [map concat app]. repeat split; try assumption; try reflexivity. exists m. split; [exact Hm|reflexivity].
  - cbn [map concat]. rewrite <- app_assoc. destruct (qual_block s q m (concat (map qual_lines qs) ++ rest) Hq Hc Hm) as (n & E). rewrite E. clear E.
    unfold cur_after. destruct (st_key s) as [|k0 kt] eqn:Ek; [congruence|].
    set (s1 := {| st_closed := true; st_cur := with_info (st_cur s) (m ++ [(k0 :: kt, st_val s)]); st_key := qk q; st_val := qfull q; st_done := st_done s; st_line := S (st_line s + n) |}).
    destruct (IH s1 (m ++ [(k0 :: kt, st_val s)]) rest) as (s' & E & H1 & H2 & H3 & H4 & H5 & H6 & m' & H7 & H8); try reflexivity.
    { cbn [s1 st_key]. destruct Hq as (Hq1 & _). exact Hq1. }
    exists s'. split; [exact E|]. repeat split; try assumption.
    + cbn [s1 st_line] in *. lia.
    + exists m'. split; [exact H7|]. rewrite H8. cbn [s1 st_key st_val map kv]. rewrite <- !app_assoc. reflexivity.
Qed.

(* ---- the lines that continue a location (repair D23) ---- *)
Lemma is_feature_cont_line c b : wf_chunk c -> is_feature_line (cont_line c) b = false.
Proof.
  intros (Hne & Hns & _). unfold is_feature_line, cont_line. rewrite fields_indent. rewrite <- (app_nil_r c). rewrite fields_word by exact Hns.
  cbn [fields_go]. rewrite app_nil_r. destruct (rev c) eqn:E; [exfalso; revert E; apply rev_nonnil; exact Hne|]. destruct b; reflexivity.
Qed.
Lemma trim_cont_line c : wf_chunk c -> trim_space (cont_line c) = c.
Proof.
  intros (Hne & Hns & _). destruct c as [|c0 t] eqn:Ec; [congruence|]. rewrite <- Ec in *. destruct (exists_last Hne) as (y & d & Ey).
  unfold cont_line. apply (trim_space_line 21 c c0 t y d); [exact Ec| |exact Ey|].
  - rewrite Ec in Hns. inversion Hns; assumption.
  - unfold nospace in Hns. rewrite Forall_forall in Hns. apply Hns. rewrite Ey. apply in_app_iff. right; left; reflexivity.
Qed.
Lemma step_cont s c m : wf_chunk c -> st_closed s = true -> st_key s = [] -> gf_info (st_cur s) = Some m ->
  gb_step s (cont_line c) =
  Ok {| st_closed := true; st_cur := {| gf_key := gf_key (st_cur s); gf_loc := gf_loc (st_cur s) ++ c; gf_info := Some m |};
        st_key := []; st_val := st_val s; st_done := st_done s; st_line := S (st_line s) |}.
Proof.
  intros Hc Hcl Hk Hm. unfold gb_step_gen. rewrite (is_feature_cont_line c _ Hc). cbn [andb]. rewrite (trim_cont_line c Hc).
  destruct Hc as (Hne & _ & Hh). destruct c as [|c0 t]; [congruence|]. cbn [hd] in Hh.
  destruct (N.eqb_spec c0 47); [contradiction|]. cbn [andb]. rewrite Hcl, Hk, Hm. reflexivity.
Qed.
Lemma fold_cont cs : Forall wf_chunk cs -> forall s m rest, st_closed s = true -> st_key s = [] -> gf_info (st_cur s) = Some m ->
  gb_fold s (map cont_line cs ++ rest) =
  gb_fold {| st_closed := true; st_cur := {| gf_key := gf_key (st_cur s); gf_loc := gf_loc (st_cur s) ++ concat cs; gf_info := Some m |};
             st_key := []; st_val := st_val s; st_done := st_done s; st_line := (st_line s + length cs)%nat |} rest.
Proof.
  induction 1 as [|c cs Hc _ IH]; intros s m rest Hcl Hk Hm.
  - cbn [map app concat length]. rewrite app_nil_r, Nat.add_0_r. destruct s as [a b k v d l]; cbn in *. subst. destruct b; cbn in *; subst. reflexivity.
  - cbn [map app gb_fold_gen]. rewrite (step_cont s c m Hc Hcl Hk Hm). cbn [bind]. rewrite (IH _ m rest); try reflexivity.
    cbn [st_cur st_val st_done st_line gf_key gf_loc concat length]. rewrite <- app_assoc, Nat.add_succ_r. reflexivity.
Qed.

(* ---- one whole feature after another ---- *)
Lemma qfull_nonempty q : wf_qual q -> qfull q <> [].
Proof. intros (_ & _ & Hv & _). unfold qfull. destruct (qv q); [congruence|discriminate]. Qed.
Lemma fold_feature_quals f s rest : wf_feat f -> st_closed s = true -> st_cur s = mk f -> st_key s = [] -> st_val s = [] ->
  exists s', gb_fold s (concat (map qual_lines (fquals f)) ++ rest) = gb_fold s' rest /\
             st_closed s' = true /\ st_done s' = st_done s /\ (st_line s <= st_line s')%nat /\ st_key s' <> [] /\ st_val s' <> [] /\
             exists m', st_cur s' = with_info (mk f) m' /\ m' ++ [(st_key s', st_val s')] = map kv (fquals f).
Proof.
  intros (_ & _ & _ & _ & _ & Hne & Hqs & _) Hc Hcur Hk Hv. destruct (fquals f) as [|q qs] eqn:Eq; [congruence|]. inversion Hqs as [|? ? Hq Hqs']; subst.
  cbn [map concat]. rewrite <- app_assoc.
  destruct (qual_block s q [] (concat (map qual_lines qs) ++ rest) Hq Hc) as (n & E); [rewrite Hcur; reflexivity|]. rewrite E. clear E.
  unfold cur_after. rewrite Hk.
  set (s1 := {| st_closed := true; st_cur := st_cur s; st_key := qk q; st_val := qfull q; st_done := st_done s; st_line := S (st_line s + n) |}).
  destruct (fold_quals qs Hqs' s1 [] rest) as (s' & E & H1 & H2 & H3 & H4 & H5 & H6 & m' & H7 & H8); try reflexivity.
  { cbn [s1 st_cur]. rewrite Hcur. reflexivity. }
  { cbn [s1 st_key]. destruct Hq as (Hq1 & _). exact Hq1. }
  exists s'. split; [exact E|]. split; [exact H1|]. split; [exact H2|]. split; [cbn [s1 st_line] in *; lia|]. split; [exact H4|].
  assert (Hlast : exists q', In q' (q :: qs) /\ (st_key s', st_val s') = kv q').
  { assert (In (st_key s', st_val s') (map kv (q :: qs))).
    { assert (E8 : map kv (q :: qs) = m' ++ [(st_key s', st_val s')]) by (rewrite H8; reflexivity).
      rewrite E8. apply in_app_iff. right; left; reflexivity. }
    apply in_map_iff in H as (q' & Hq' & Hin). exists q'. split; [exact Hin|symmetry; exact Hq']. }
  destruct Hlast as (q' & Hin & Ekv). split.
  - injection Ekv as _ Ev. rewrite Ev. rewrite Forall_forall in Hqs. apply qfull_nonempty. exact (Hqs q' Hin).
  - exists m'. split.
    + destruct (st_cur s') as [k' l' i'] eqn:Ec. cbn [gf_key gf_loc gf_info] in *. cbn [s1 st_cur] in H5, H6. rewrite Hcur in H5, H6. cbn [mk gf_key gf_loc] in H5, H6.
      subst k' l' i'. reflexivity.
    + rewrite H8. cbn [s1 st_key st_val app map kv]. reflexivity.
Qed.

Lemma fold_feature_lines f s rest : wf_feat f -> st_closed s = true -> st_cur s = mk0 f -> st_key s = [] -> st_val s = [] -> st_line s <> 0%nat ->
  exists s', gb_fold s (map cont_line (fmore f) ++ concat (map qual_lines (fquals f)) ++ rest) = gb_fold s' rest /\
             st_closed s' = true /\ st_done s' = st_done s /\ st_line s' <> 0%nat /\ st_key s' <> [] /\ st_val s' <> [] /\
             exists m', st_cur s' = with_info (mk f) m' /\ m' ++ [(st_key s', st_val s')] = map kv (fquals f).
Proof.
  intros Hf Hc Hcur Hk Hv Hl. assert (Hch : Forall wf_chunk (fmore f)) by (destruct Hf as (_ & _ & _ & _ & _ & _ & _ & H); exact H).
  rewrite (fold_cont (fmore f) Hch s [] _ Hc Hk) by (rewrite Hcur; reflexivity).
  set (s1 := {| st_closed := true; st_cur := _; st_key := []; st_val := st_val s; st_done := st_done s; st_line := _ |}).
  destruct (fold_feature_quals f s1 rest Hf) as (s' & E & H1 & H2 & H3 & H4 & H5 & H6); try reflexivity.
  { cbn [s1 st_cur]. rewrite Hcur. reflexivity. }
  { cbn [s1 st_val]. exact Hv. }
  exists s'. split; [exact E|]. split; [exact H1|]. split; [exact H2|]. split; [cbn [s1 st_line] in H3; lia|]. split; [exact H4|]. split; [exact H5|exact H6].
Qed.

Definition after (fs_done : list wfeat) (f : wfeat) (s : gbst) : Prop :=
  st_closed s = true /\ st_done s = map parsed fs_done /\ st_line s <> 0%nat /\ st_key s <> [] /\ st_val s <> [] /\
  exists m', st_cur s = with_info (mk f) m' /\ m' ++ [(st_key s, st_val s)] = map kv (fquals f).

Lemma fold_features fs : Forall wf_feat fs -> forall donef f s, after donef f s ->
  exists s' donef' f', gb_fold s (render_features fs) = Ok s' /\ after donef' f' s' /\ donef' ++ [f'] = donef ++ [f] ++ fs.
Proof.
  induction 1 as [|g fs Hg Hfs IH]; intros donef f s Ha.
  - exists s, donef, f. cbn [render_features map concat gb_fold_gen]. split; [reflexivity|]. split; [exact Ha|]. rewrite app_nil_r. reflexivity.
  - destruct Ha as (Hc & Hd & Hl & Hk & Hv & m' & Hcur & Hm').
    cbn [render_features map concat]. fold (render_features fs). unfold feat_lines at 1. cbn [app]. rewrite <- app_assoc. cbn [gb_fold_gen].
    rewrite (step_next_feature s g m' Hg Hc) by (try (rewrite Hcur; reflexivity); exact Hl). cbn [bind].
    set (s1 := {| st_closed := true; st_cur := mk0 g; st_key := []; st_val := []; st_done := st_done s ++ [with_info (st_cur s) (m' ++ [(st_key s, st_val s)])]; st_line := S (st_line s) |}).
    destruct (fold_feature_lines g s1 (render_features fs) Hg) as (s2 & E & H1 & H2 & H3 & H4 & H5 & m2 & H6 & H7); try reflexivity; [cbn [s1 st_line]; lia|].
    rewrite E.
    assert (Ha2 : after (donef ++ [f]) g s2).
    { split; [exact H1|]. split.
      - rewrite H2. cbn [s1 st_done]. rewrite Hd, map_app. cbn [map]. f_equal. f_equal. rewrite Hcur, Hm'. reflexivity.
      - split; [exact H3|]. split; [exact H4|]. split; [exact H5|]. exists m2. split; assumption. }
    destruct (IH (donef ++ [f]) g s2 Ha2) as (s' & donef' & f' & E' & Ha' & El). exists s', donef', f'. split; [exact E'|]. split; [exact Ha'|].
    rewrite El, <- !app_assoc. reflexivity.
Qed.

Theorem features_roundtrip fs : fs <> [] -> Forall wf_feat fs -> parse_features (render_features fs) = Ok (map parsed fs).
Proof.
  intros Hne Hwf. destruct fs as [|f fs]; [congruence|]. inversion Hwf as [|? ? Hf Hfs]; subst.
  unfold parse_features_gen. cbn [render_features map concat]. fold (render_features fs). unfold feat_lines at 1. cbn [app]. rewrite <- app_assoc. cbn [gb_fold_gen]. rewrite (step_first_feature f Hf). cbn [bind].
  set (s1 := {| st_closed := true; st_cur := mk0 f; st_key := []; st_val := []; st_done := []; st_line := 1 |}).
  destruct (fold_feature_lines f s1 (render_features fs) Hf) as (s2 & E & H1 & H2 & H3 & H4 & H5 & m2 & H6 & H7); try reflexivity; [cbn [s1 st_line]; lia|].
  rewrite E.
  assert (Ha2 : after [] f s2).
  { split; [exact H1|]. split; [rewrite H2; reflexivity|]. split; [exact H3|]. split; [exact H4|]. split; [exact H5|]. exists m2. split; assumption. }
  destruct (fold_features fs Hfs [] f s2 Ha2) as (s' & donef' & f' & E' & (Hc & Hd & Hl & Hk & Hv & m' & Hcur & Hm') & El). rewrite E'. cbn [bind].
  destruct (st_key s') as [|k0 kt] eqn:Ek; [congruence|]. destruct (st_val s') as [|v0 vt] eqn:Ev; [congruence|].
  unfold put_info. rewrite Hcur. cbn [with_info gf_info gf_key gf_loc mk]. rewrite Hd. f_equal.
  transitivity (map parsed (donef' ++ [f'])); [|rewrite El; reflexivity].
  rewrite map_app. cbn [map]. f_equal. f_equal. unfold parsed. rewrite <- Hm'. reflexivity.
Qed.

(* ---- ORIGIN: however the sequence is cut into numbered, blank-separated chunks, it is read back whole ---- *)
Theorem origin_roundtrip (pieces : list (list N * list N)) :
  Forall (fun p => forallb (fun c => negb (is_letter_ascii c)) (fst p) = true /\ forallb is_letter_ascii (snd p) = true) pieces ->
  filter is_letter_ascii (concat (map (fun p => fst p ++ snd p) pieces)) = concat (map snd pieces).
Proof.
  induction 1 as [|[a b] t [Ha Hb] _ IH]; [reflexivity|]. cbn [map concat fst snd] in *. rewrite !filter_app, IH. f_equal.
  assert (Ea : filter is_letter_ascii a = []).
  { clear -Ha. induction a as [|c a IHa]; [reflexivity|]. cbn [forallb] in Ha. apply andb_true_iff in Ha as [Hc Ha]. cbn [filter].
    apply negb_true_iff in Hc. rewrite Hc. apply IHa. exact Ha. }
  assert (Eb : filter is_letter_ascii b = b).
  { clear -Hb. induction b as [|c b IHb]; [reflexivity|]. cbn [forallb] in Hb. apply andb_true_iff in Hb as [Hc Hb]. cbn [filter]. rewrite Hc, IHb by exact Hb. reflexivity. }
  rewrite Ea, Eb. reflexivity.
Qed.
Corollary parse_origin_lines (lines : list (list (list N * list N))) :
  Forall (Forall (fun p => forallb (fun c => negb (is_letter_ascii c)) (fst p) = true /\ forallb is_letter_ascii (snd p) = true)) lines ->
  parse_origin (map (fun l => concat (map (fun p => fst p ++ snd p) l)) lines) = concat (map (fun l => concat (map snd l)) lines).
Proof.
  intros H. unfold parse_origin. induction H as [|l t Hl _ IH]; [reflexivity|]. cbn [map concat]. rewrite filter_app, IH, (origin_roundtrip l Hl). reflexivity.
Qed.

(* ---- before repair D23 a location continued on a second line was cut at the line end ---- *)
Definition wrapped_cds : wfeat :=
  {| fk := bs "CDS"; floc := bs "join(4..12,20..28,"; fmore := [bs "40..48)"]; fquals := [{| qk := bs "gene"; qv := bs "g1"; qquoted := true; qmore := [] |}] |}.
Lemma wrapped_cds_wf : wf_feat wrapped_cds.
Proof.
  unfold wf_feat, wrapped_cds, wf_chunk, wf_qual, nospace, lacks. cbn [fk floc fmore fquals qk qv qquoted].
  repeat match goal with
         | |- _ /\ _ => split
         | |- Forall _ _ => repeat constructor
         | |- _ <> _ => discriminate
         | |- forall c, In c _ -> _ => let H := fresh in intros ? H; cbn in H; repeat (destruct H as [<-|H]; [discriminate|]); destruct H
         | |- false = false -> _ => intros _
         | |- true = false -> _ => discriminate
         end.
Qed.
Theorem wrapped_location_old_refuted :
  exists f, wf_feat f /\ parse_features_old (render_features [f]) = Ok [{| gf_key := fk f; gf_loc := floc f; gf_info := gf_info (parsed f) |}] /\
            floc f <> full_loc f /\ parse_features (render_features [f]) = Ok [parsed f].
Proof. exists wrapped_cds. split; [exact wrapped_cds_wf|]. split; [vm_compute; reflexivity|]. split; [discriminate|]. vm_compute. reflexivity. Qed.

(* ---- a quoted value that runs over three lines (a long /translation), after a one-line qualifier: the premises are satisfiable ---- *)
Definition long_value_cds : wfeat :=
  {| fk := bs "CDS"; floc := bs "1..30"; fmore := [];
     fquals := [{| qk := bs "gene"; qv := bs "g1"; qquoted := true; qmore := [] |};
                {| qk := bs "translation"; qv := bs "MKV"; qquoted := true; qmore := [bs "LLA"; bs "QQ"] |}] |}.
Lemma long_value_cds_wf : wf_feat long_value_cds.
Proof.
  assert (L : forall s0 x, forallb (fun c => negb (c =? s0)) x = true -> lacks s0 x).
  { intros s0 x H0 c Hc E0. rewrite forallb_forall in H0. specialize (H0 c Hc). rewrite E0, N.eqb_refl in H0. discriminate. }
  unfold wf_feat, long_value_cds. cbn [fk floc fmore fquals].
  split; [discriminate|]. split; [repeat constructor|]. split; [discriminate|]. split; [discriminate|]. split; [repeat constructor|]. split; [discriminate|].
  split; [|constructor].
  constructor; [|constructor; [|constructor]]; unfold wf_qual; cbn [qk qv qquoted qmore].
  - split; [discriminate|]. split; [apply L; reflexivity|]. split; [discriminate|]. split; [apply L; reflexivity|]. split; [apply L; reflexivity|].
    split; [discriminate|]. intros Hx. congruence.
  - split; [discriminate|]. split; [apply L; reflexivity|]. split; [discriminate|]. split; [apply L; reflexivity|]. split; [apply L; reflexivity|].
    split; [discriminate|]. intros _. split; [reflexivity|]. split; [reflexivity|].
    constructor; [|constructor; [|constructor]]; (split; [discriminate|]; split; [apply L; reflexivity|]; split; reflexivity).
Qed.
Example long_value_read :
  parse_features (render_features [long_value_cds]) = Ok [parsed long_value_cds] /\
  info_get (bs "translation") (map kv (fquals long_value_cds)) = Some (bs "MKVLLAQQ") /\ length (render_features [long_value_cds]) = 5%nat.
Proof. split; [apply features_roundtrip; [discriminate|constructor; [exact long_value_cds_wf|constructor]]|]. split; reflexivity. Qed.
