(* GenbankProofs.v — C14: a FEATURES block written from features with one-line qualifiers is read back as those features. *)
From GF Require Import Base FastaModel GenbankModel.
Open Scope N_scope.

Definition nospace (w : list N) : Prop := Forall (fun c => is_space c = false) w.
Record qual := { qk : list N; qv : list N; qquoted : bool }.
Record wfeat := { fk : list N; floc : list N; fmore : list (list N); fquals : list qual }.   (* fmore: the rest of a location too long for one line *)
Definition indent (n : nat) : list N := repeat 32 n.
Definition feat_line (f : wfeat) : list N := indent 5 ++ fk f ++ indent 3 ++ floc f.
Definition value_text (q : qual) : list N := if qquoted q then [34] ++ qv q ++ [34] else qv q.
Definition qual_line (q : qual) : list N := indent 21 ++ [47] ++ qk q ++ [61] ++ value_text q.
Definition cont_line (c : list N) : list N := indent 21 ++ c.
Definition feat_lines (f : wfeat) : list (list N) := feat_line f :: map cont_line (fmore f) ++ map qual_line (fquals f).
Definition render_features (fs : list wfeat) : list (list N) := concat (map feat_lines fs).
Definition full_loc (f : wfeat) : list N := floc f ++ concat (fmore f).
Definition kv (q : qual) : list N * list N := (qk q, qv q).
Definition parsed (f : wfeat) : gbfeat := {| gf_key := fk f; gf_loc := full_loc f; gf_info := Some (map kv (fquals f)) |}.

Definition lacks (s : N) (x : list N) : Prop := forall c, In c x -> c <> s.
Definition wf_qual (q : qual) : Prop :=
  qk q <> [] /\ lacks 61 (qk q) /\ qv q <> [] /\ lacks 61 (qv q) /\ lacks 34 (qv q) /\ (qquoted q = false -> nospace (qv q)).
Definition wf_chunk (c : list N) : Prop := c <> [] /\ nospace c /\ hd 0 c <> 47.
Definition wf_feat (f : wfeat) : Prop :=
  fk f <> [] /\ nospace (fk f) /\ hd 0 (fk f) <> 47 /\ floc f <> [] /\ nospace (floc f) /\ fquals f <> [] /\ Forall wf_qual (fquals f) /\ Forall wf_chunk (fmore f).

(* ---- strings.Fields and TrimSpace on these lines ---- *)
Lemma fields_word w : nospace w -> forall rest rcur, fields_go (w ++ rest) rcur = fields_go rest (rev w ++ rcur).
Proof.
  induction 1 as [|c w Hc _ IH]; intros rest rcur; [reflexivity|]. cbn [app fields_go]. rewrite Hc, IH. cbn [rev]. rewrite <- app_assoc. reflexivity.
Qed.
Lemma fields_indent n rest : fields_go (indent n ++ rest) [] = fields_go rest [].
Proof. induction n as [|n IH]; [reflexivity|]. cbn [indent repeat app fields_go]. cbn. exact IH. Qed.
Lemma fields_sep rcur n rest : rcur <> [] -> fields_go (indent (S n) ++ rest) rcur = rev rcur :: fields_go rest [].
Proof.
  intros Hr. cbn [indent repeat app fields_go]. change (is_space 32) with true. cbv iota. destruct rcur as [|r0 rc]; [congruence|].
  f_equal. apply fields_indent.
Qed.
Lemma rev_nonnil {A} (l : list A) : l <> [] -> rev l <> [].
Proof. intros H E. apply H. apply (f_equal (@rev A)) in E. rewrite rev_involutive in E. exact E. Qed.
Lemma fields_feat_line f : wf_feat f -> fields_go (feat_line f) [] = [fk f; floc f].
Proof.
  intros (Hk & Hks & _ & Hl & Hls & _). unfold feat_line. rewrite fields_indent, fields_word by exact Hks. rewrite app_nil_r.
  rewrite fields_sep by (apply rev_nonnil; exact Hk). rewrite rev_involutive. f_equal.
  rewrite <- (app_nil_r (floc f)) at 1. rewrite fields_word by exact Hls. cbn [fields_go]. rewrite app_nil_r.
  destruct (rev (floc f)) eqn:El; [exfalso; revert El; apply rev_nonnil; exact Hl|]. rewrite <- El, rev_involutive. reflexivity.
Qed.
Lemma is_feature_feat_line f : wf_feat f -> is_feature_line (feat_line f) true = true.
Proof.
  intros H. unfold is_feature_line. rewrite (fields_feat_line f H). destruct H as (Hk & _ & Hh & _).
  destruct (fk f) as [|c t]; [congruence|]. cbn in *. destruct (N.eqb_spec c 47); [contradiction|reflexivity].
Qed.
Lemma fields_first_acc l : forall rcur, rcur <> [] -> exists w rest, fields_go l rcur = (rev rcur ++ w) :: rest.
Proof.
  induction l as [|c t IH]; intros rcur Hr; cbn [fields_go].
  - destruct rcur; [congruence|]. exists [], []. rewrite app_nil_r. reflexivity.
  - destruct (is_space c).
    + destruct rcur; [congruence|]. exists [], (fields_go t []). rewrite app_nil_r. reflexivity.
    + destruct (IH (c :: rcur)) as (w & rest & E); [discriminate|]. exists (c :: w), rest. rewrite E. cbn [rev]. rewrite <- app_assoc. reflexivity.
Qed.
Lemma is_feature_qual_line q b : is_feature_line (qual_line q) b = false.
Proof.
  unfold is_feature_line, qual_line. rewrite fields_indent.
  assert (E0 : fields_go ([47] ++ qk q ++ [61] ++ value_text q) [] = fields_go (qk q ++ [61] ++ value_text q) [47]) by reflexivity.
  rewrite E0. clear E0.
  destruct (fields_first_acc (qk q ++ [61] ++ value_text q) [47]) as (w & rest & E); [discriminate|]. rewrite E. cbn [rev app].
  destruct b; [|reflexivity]. cbn [andb]. destruct rest as [|r1 [|r2 rest']]; reflexivity.
Qed.

Lemma drop_space_indent n x c t : x = c :: t -> is_space c = false -> drop_space (indent n ++ x) = x.
Proof. intros -> Hc. induction n as [|n IH]; cbn [indent repeat app drop_space]; [rewrite Hc; reflexivity|]. cbn. exact IH. Qed.
Lemma trim_space_line n x c t y d : x = c :: t -> is_space c = false -> x = y ++ [d] -> is_space d = false -> trim_space (indent n ++ x) = x.
Proof.
  intros Ex Hc Ey Hd. unfold trim_space. rewrite (drop_space_indent n x c t Ex Hc). rewrite Ey at 1. rewrite rev_app_distr. cbn [rev app drop_space].
  rewrite Hd. change (d :: rev y) with (rev [d] ++ rev y). rewrite <- rev_app_distr, rev_involutive, <- Ey. reflexivity.
Qed.
Lemma last_nonspace q : wf_qual q -> exists y d, value_text q = y ++ [d] /\ is_space d = false.
Proof.
  intros (_ & _ & Hv & _ & _ & Hns). unfold value_text. destruct (qquoted q) eqn:Eq.
  - exists ([34] ++ qv q), 34. split; [rewrite <- app_assoc; reflexivity|reflexivity].
  - destruct (exists_last Hv) as (y & d & E). exists y, d. split; [exact E|]. specialize (Hns eq_refl). unfold nospace in Hns. rewrite Forall_forall in Hns.
    apply Hns. rewrite E. apply in_app_iff. right; left; reflexivity.
Qed.
Lemma trim_qual_line q : wf_qual q -> trim_space (qual_line q) = 47 :: qk q ++ [61] ++ value_text q.
Proof.
  intros H. destruct (last_nonspace q H) as (y & d & Ey & Hd). unfold qual_line.
  apply (trim_space_line 21 ([47] ++ qk q ++ [61] ++ value_text q) 47 (qk q ++ [61] ++ value_text q) ([47] ++ qk q ++ [61] ++ y) d); try reflexivity; [|exact Hd].
  rewrite Ey, <- !app_assoc. reflexivity.
Qed.
Lemma trim_feat_line f : wf_feat f -> exists t, trim_space (feat_line f) = hd 0 (fk f) :: t /\ hd 0 (fk f) <> 47.
Proof.
  intros (Hk & Hks & Hh & Hl & Hls & _). destruct (fk f) as [|c t] eqn:Ek; [congruence|]. destruct (exists_last Hl) as (y & d & El).
  exists (t ++ indent 3 ++ floc f). split; [|exact Hh]. unfold feat_line. rewrite Ek.
  apply (trim_space_line 5 ((c :: t) ++ indent 3 ++ floc f) c (t ++ indent 3 ++ floc f) ((c :: t) ++ indent 3 ++ y) d); try reflexivity.
  - inversion Hks; assumption.
  - rewrite El, <- !app_assoc. reflexivity.
  - unfold nospace in Hls. rewrite Forall_forall in Hls. apply Hls. rewrite El. apply in_app_iff. right; left; reflexivity.
Qed.

(* ---- the scan of one qualifier ---- *)
Lemma scan_key k : lacks 61 k -> forall s, q_iskey s = true ->
  fold_left qual_char k s = {| q_iskey := true; q_closed := q_closed s; q_key := rev k ++ q_key s; q_val := q_val s |}.
Proof.
  induction k as [|c k IH]; intros Hk s Hs; [destruct s; cbn in *; subst; reflexivity|]. cbn [fold_left].
  assert (Hc : c <> 61) by (apply Hk; left; reflexivity). unfold qual_char at 2. destruct (N.eqb_spec c 61); [contradiction|]. rewrite Hs.
  rewrite IH; [|intros c' Hc'; apply Hk; right; exact Hc'|reflexivity]. cbn [q_closed q_key q_val rev]. rewrite <- app_assoc. reflexivity.
Qed.
Lemma scan_val v : lacks 61 v -> lacks 34 v -> forall s, q_iskey s = false ->
  fold_left qual_char v s = {| q_iskey := false; q_closed := q_closed s; q_key := q_key s; q_val := rev v ++ q_val s |}.
Proof.
  induction v as [|c v IH]; intros H61 H34 s Hs; [destruct s; cbn in *; subst; reflexivity|]. cbn [fold_left].
  assert (Hc1 : c <> 61) by (apply H61; left; reflexivity). assert (Hc2 : c <> 34) by (apply H34; left; reflexivity).
  unfold qual_char at 2. destruct (N.eqb_spec c 61); [contradiction|]. rewrite Hs. destruct (N.eqb_spec c 34); [contradiction|].
  rewrite IH; [|intros c' Hc'; apply H61; right; exact Hc'|intros c' Hc'; apply H34; right; exact Hc'|reflexivity].
  cbn [q_closed q_key q_val rev]. rewrite <- app_assoc. reflexivity.
Qed.
Lemma scan_qual q : wf_qual q ->
  fold_left qual_char (qk q ++ [61] ++ value_text q) {| q_iskey := true; q_closed := true; q_key := []; q_val := [] |} =
  {| q_iskey := false; q_closed := true; q_key := rev (qk q); q_val := rev (qv q) |}.
Proof.
  intros (_ & Hk61 & _ & Hv61 & Hv34 & _). rewrite fold_left_app, (scan_key _ Hk61) by reflexivity. cbn [q_closed q_key q_val app fold_left].
  unfold qual_char at 2. cbn [N.eqb Pos.eqb]. rewrite app_nil_r. unfold value_text. destruct (qquoted q).
  - cbn [app fold_left]. unfold qual_char at 2. cbn [N.eqb Pos.eqb q_iskey q_closed q_key q_val negb].
    rewrite fold_left_app, (scan_val _ Hv61 Hv34) by reflexivity. cbn [fold_left q_closed q_key q_val]. unfold qual_char. cbn [N.eqb Pos.eqb q_iskey q_closed negb].
    rewrite app_nil_r. reflexivity.
  - rewrite (scan_val _ Hv61 Hv34) by reflexivity. cbn [q_closed q_key q_val]. rewrite app_nil_r. reflexivity.
Qed.

(* ---- one line at a time ---- *)
Definition mk0 (f : wfeat) : gbfeat := {| gf_key := fk f; gf_loc := floc f; gf_info := Some [] |}.
Definition mk (f : wfeat) : gbfeat := {| gf_key := fk f; gf_loc := full_loc f; gf_info := Some [] |}.
Lemma new_feat_line f : wf_feat f -> new_feat (feat_line f) = mk0 f.
Proof. intros H. unfold new_feat. rewrite (fields_feat_line f H). reflexivity. Qed.

Lemma step_first_feature f : wf_feat f ->
  gb_step gb_init (feat_line f) = Ok {| st_closed := true; st_cur := mk0 f; st_key := []; st_val := []; st_done := []; st_line := 1 |}.
Proof.
  intros H. unfold gb_step_gen, gb_init. cbn [st_closed st_line st_cur st_key st_val st_done]. rewrite (is_feature_feat_line f H). cbn [Nat.eqb andb].
  rewrite (new_feat_line f H). reflexivity.
Qed.

(* a qualifier line: the pending qualifier (if any) goes into the feature, the new one becomes pending *)
Definition with_info (g : gbfeat) (m : list (list N * list N)) : gbfeat := {| gf_key := gf_key g; gf_loc := gf_loc g; gf_info := Some m |}.
Lemma step_qual s q m : wf_qual q -> st_closed s = true -> gf_info (st_cur s) = Some m ->
  gb_step s (qual_line q) =
  Ok {| st_closed := true;
        st_cur := match st_key s with [] => st_cur s | _ => with_info (st_cur s) (m ++ [(st_key s, st_val s)]) end;
        st_key := qk q; st_val := qv q; st_done := st_done s; st_line := S (st_line s) |}.
Proof.
  intros Hq Hc Hm. unfold gb_step_gen. rewrite is_feature_qual_line. cbn [andb]. rewrite (trim_qual_line q Hq). cbn [N.eqb Pos.eqb andb].
  rewrite (scan_qual q Hq). cbn [q_closed q_key q_val]. rewrite !rev_involutive.
  destruct (st_key s) as [|k0 kt] eqn:Ek; [reflexivity|]. rewrite Hc. cbn [negb]. unfold put_info. rewrite Hm. reflexivity.
Qed.
Lemma step_next_feature s f m : wf_feat f -> st_closed s = true -> gf_info (st_cur s) = Some m -> st_line s <> 0%nat ->
  gb_step s (feat_line f) =
  Ok {| st_closed := true; st_cur := mk0 f; st_key := []; st_val := [];
        st_done := st_done s ++ [with_info (st_cur s) (m ++ [(st_key s, st_val s)])]; st_line := S (st_line s) |}.
Proof.
  intros Hf Hc Hm Hl. unfold gb_step_gen. rewrite Hc, (is_feature_feat_line f Hf). destruct (Nat.eqb_spec (st_line s) 0); [contradiction|]. cbn [andb].
  destruct (trim_feat_line f Hf) as (t & Et & Hh). rewrite Et. destruct (N.eqb_spec (hd 0 (fk f)) 47); [contradiction|]. cbn [andb negb].
  unfold put_info. rewrite Hm. rewrite (new_feat_line f Hf). reflexivity.
Qed.

(* ---- the qualifiers of one feature ---- *)
Lemma fold_quals qs : Forall wf_qual qs -> forall s m rest, st_closed s = true -> gf_info (st_cur s) = Some m -> st_key s <> [] ->
  exists s', gb_fold s (map qual_line qs ++ rest) = gb_fold s' rest /\
             st_closed s' = true /\ st_done s' = st_done s /\ st_line s' = (st_line s + length qs)%nat /\ st_key s' <> [] /\
             gf_key (st_cur s') = gf_key (st_cur s) /\ gf_loc (st_cur s') = gf_loc (st_cur s) /\
             exists m', gf_info (st_cur s') = Some m' /\ m' ++ [(st_key s', st_val s')] = m ++ [(st_key s, st_val s)] ++ map kv qs.
Proof.
  induction 1 as [|q qs Hq Hqs IH]; intros s m rest Hc Hm Hk.
  - exists s. cbn [map app length]. rewrite Nat.add_0_r. repeat split; try assumption; try reflexivity. exists m. split; [exact Hm|reflexivity].
  - cbn [map app gb_fold_gen]. rewrite (step_qual s q m Hq Hc Hm). cbn [bind].
    destruct (st_key s) as [|k0 kt] eqn:Ek; [congruence|].
    set (s1 := {| st_closed := true; st_cur := with_info (st_cur s) (m ++ [(k0 :: kt, st_val s)]); st_key := qk q; st_val := qv q; st_done := st_done s; st_line := S (st_line s) |}).
    destruct (IH s1 (m ++ [(k0 :: kt, st_val s)]) rest) as (s' & E & H1 & H2 & H3 & H4 & H5 & H6 & m' & H7 & H8); try reflexivity.
    { cbn [s1 st_key]. destruct Hq as (Hq1 & _). exact Hq1. }
    exists s'. split; [exact E|]. repeat split; try assumption.
    + cbn [s1 st_line length] in *. lia.
    + exists m'. split; [exact H7|]. rewrite H8. cbn [s1 st_key st_val map kv]. rewrite <- !app_assoc. reflexivity.
Qed.

(* ---- the lines that continue a location (repair D23) ---- *)
Lemma is_feature_cont_line c b : wf_chunk c -> is_feature_line (cont_line c) b = false.
Proof.
  intros (Hne & Hns & _). unfold is_feature_line, cont_line. rewrite fields_indent. rewrite <- (app_nil_r c). rewrite fields_word by exact Hns.
  cbn [fields_go]. rewrite app_nil_r. destruct (rev c) eqn:E; [exfalso; revert E; apply rev_nonnil; exact Hne|]. destruct b; reflexivity.
Qed.
Lemma trim_cont_line c : wf_chunk c -> trim_space (cont_line c) = c.
Proof.
  intros (Hne & Hns & _). destruct c as [|c0 t] eqn:Ec; [congruence|]. rewrite <- Ec in *. destruct (exists_last Hne) as (y & d & Ey).
  unfold cont_line. apply (trim_space_line 21 c c0 t y d); [exact Ec| |exact Ey|].
  - rewrite Ec in Hns. inversion Hns; assumption.
  - unfold nospace in Hns. rewrite Forall_forall in Hns. apply Hns. rewrite Ey. apply in_app_iff. right; left; reflexivity.
Qed.
Lemma step_cont s c m : wf_chunk c -> st_closed s = true -> st_key s = [] -> gf_info (st_cur s) = Some m ->
  gb_step s (cont_line c) =
  Ok {| st_closed := true; st_cur := {| gf_key := gf_key (st_cur s); gf_loc := gf_loc (st_cur s) ++ c; gf_info := Some m |};
        st_key := []; st_val := st_val s; st_done := st_done s; st_line := S (st_line s) |}.
Proof.
  intros Hc Hcl Hk Hm. unfold gb_step_gen. rewrite (is_feature_cont_line c _ Hc). cbn [andb]. rewrite (trim_cont_line c Hc).
  destruct Hc as (Hne & _ & Hh). destruct c as [|c0 t]; [congruence|]. cbn [hd] in Hh.
  destruct (N.eqb_spec c0 47); [contradiction|]. cbn [andb]. rewrite Hcl, Hk, Hm. reflexivity.
Qed.
Lemma fold_cont cs : Forall wf_chunk cs -> forall s m rest, st_closed s = true -> st_key s = [] -> gf_info (st_cur s) = Some m ->
  gb_fold s (map cont_line cs ++ rest) =
  gb_fold {| st_closed := true; st_cur := {| gf_key := gf_key (st_cur s); gf_loc := gf_loc (st_cur s) ++ concat cs; gf_info := Some m |};
             st_key := []; st_val := st_val s; st_done := st_done s; st_line := (st_line s + length cs)%nat |} rest.
Proof.
  induction 1 as [|c cs Hc _ IH]; intros s m rest Hcl Hk Hm.
  - cbn [map app concat length]. rewrite app_nil_r, Nat.add_0_r. destruct s as [a b k v d l]; cbn in *. subst. destruct b; cbn in *; subst. reflexivity.
  - cbn [map app gb_fold_gen]. rewrite (step_cont s c m Hc Hcl Hk Hm). cbn [bind]. rewrite (IH _ m rest); try reflexivity.
    cbn [st_cur st_val st_done st_line gf_key gf_loc concat length]. rewrite <- app_assoc, Nat.add_succ_r. reflexivity.
Qed.

(* ---- one whole feature after another ---- *)
Lemma fold_feature_quals f s rest : wf_feat f -> st_closed s = true -> st_cur s = mk f -> st_key s = [] -> st_val s = [] ->
  exists s', gb_fold s (map qual_line (fquals f) ++ rest) = gb_fold s' rest /\
             st_closed s' = true /\ st_done s' = st_done s /\ st_line s' = (st_line s + length (fquals f))%nat /\ st_key s' <> [] /\ st_val s' <> [] /\
             exists m', st_cur s' = with_info (mk f) m' /\ m' ++ [(st_key s', st_val s')] = map kv (fquals f).
Proof.
  intros (_ & _ & _ & _ & _ & Hne & Hqs & _) Hc Hcur Hk Hv. destruct (fquals f) as [|q qs] eqn:Eq; [congruence|]. inversion Hqs as [|? ? Hq Hqs']; subst.
  cbn [map app gb_fold_gen]. rewrite (step_qual s q [] Hq Hc) by (rewrite Hcur; reflexivity). rewrite Hk. cbn [bind].
  set (s1 := {| st_closed := true; st_cur := st_cur s; st_key := qk q; st_val := qv q; st_done := st_done s; st_line := S (st_line s) |}).
  destruct (fold_quals qs Hqs' s1 [] rest) as (s' & E & H1 & H2 & H3 & H4 & H5 & H6 & m' & H7 & H8); try reflexivity.
  { cbn [s1 st_cur]. rewrite Hcur. reflexivity. }
  { cbn [s1 st_key]. destruct Hq as (Hq1 & _). exact Hq1. }
  exists s'. split; [exact E|]. split; [exact H1|]. split; [exact H2|]. split; [cbn [s1 st_line length] in *; lia|]. split; [exact H4|].
  assert (Hlast : exists q', In q' (q :: qs) /\ (st_key s', st_val s') = kv q').
  { assert (In (st_key s', st_val s') (map kv (q :: qs))).
    { assert (E8 : map kv (q :: qs) = m' ++ [(st_key s', st_val s')]) by (rewrite H8; reflexivity).
      rewrite E8. apply in_app_iff. right; left; reflexivity. }
    apply in_map_iff in H as (q' & Hq' & Hin). exists q'. split; [exact Hin|symmetry; exact Hq']. }
  destruct Hlast as (q' & Hin & Ekv). split.
  - injection Ekv as _ Ev. rewrite Ev. rewrite Forall_forall in Hqs. destruct (Hqs q' Hin) as (_ & _ & Hv' & _). exact Hv'.
  - exists m'. split.
    + destruct (st_cur s') as [k' l' i'] eqn:Ec. cbn [gf_key gf_loc gf_info] in *. cbn [s1 st_cur] in H5, H6. rewrite Hcur in H5, H6. cbn [mk gf_key gf_loc] in H5, H6.
      subst k' l' i'. reflexivity.
    + rewrite H8. cbn [s1 st_key st_val app map kv]. reflexivity.
Qed.

Lemma fold_feature_lines f s rest : wf_feat f -> st_closed s = true -> st_cur s = mk0 f -> st_key s = [] -> st_val s = [] -> st_line s <> 0%nat ->
  exists s', gb_fold s (map cont_line (fmore f) ++ map qual_line (fquals f) ++ rest) = gb_fold s' rest /\
             st_closed s' = true /\ st_done s' = st_done s /\ st_line s' <> 0%nat /\ st_key s' <> [] /\ st_val s' <> [] /\
             exists m', st_cur s' = with_info (mk f) m' /\ m' ++ [(st_key s', st_val s')] = map kv (fquals f).
Proof.
  intros Hf Hc Hcur Hk Hv Hl. assert (Hch : Forall wf_chunk (fmore f)) by (destruct Hf as (_ & _ & _ & _ & _ & _ & _ & H); exact H).
  rewrite (fold_cont (fmore f) Hch s [] _ Hc Hk) by (rewrite Hcur; reflexivity).
  set (s1 := {| st_closed := true; st_cur := _; st_key := []; st_val := st_val s; st_done := st_done s; st_line := _ |}).
  destruct (fold_feature_quals f s1 rest Hf) as (s' & E & H1 & H2 & H3 & H4 & H5 & H6); try reflexivity.
  { cbn [s1 st_cur]. rewrite Hcur. reflexivity. }
  { cbn [s1 st_val]. exact Hv. }
  exists s'. split; [exact E|]. split; [exact H1|]. split; [exact H2|]. split; [cbn [s1 st_line] in H3; lia|]. split; [exact H4|]. split; [exact H5|exact H6].
Qed.

Definition after (fs_done : list wfeat) (f : wfeat) (s : gbst) : Prop :=
  st_closed s = true /\ st_done s = map parsed fs_done /\ st_line s <> 0%nat /\ st_key s <> [] /\ st_val s <> [] /\
  exists m', st_cur s = with_info (mk f) m' /\ m' ++ [(st_key s, st_val s)] = map kv (fquals f).

Lemma fold_features fs : Forall wf_feat fs -> forall donef f s, after donef f s ->
  exists s' donef' f', gb_fold s (render_features fs) = Ok s' /\ after donef' f' s' /\ donef' ++ [f'] = donef ++ [f] ++ fs.
Proof.
  induction 1 as [|g fs Hg Hfs IH]; intros donef f s Ha.
  - exists s, donef, f. cbn [render_features map concat gb_fold_gen]. split; [reflexivity|]. split; [exact Ha|]. rewrite app_nil_r. reflexivity.
  - destruct Ha as (Hc & Hd & Hl & Hk & Hv & m' & Hcur & Hm').
    cbn [render_features map concat]. fold (render_features fs). unfold feat_lines at 1. cbn [app]. rewrite <- app_assoc. cbn [gb_fold_gen].
    rewrite (step_next_feature s g m' Hg Hc) by (try (rewrite Hcur; reflexivity); exact Hl). cbn [bind].
    set (s1 := {| st_closed := true; st_cur := mk0 g; st_key := []; st_val := []; st_done := st_done s ++ [with_info (st_cur s) (m' ++ [(st_key s, st_val s)])]; st_line := S (st_line s) |}).
    destruct (fold_feature_lines g s1 (render_features fs) Hg) as (s2 & E & H1 & H2 & H3 & H4 & H5 & m2 & H6 & H7); try reflexivity; [cbn [s1 st_line]; lia|].
    rewrite E.
    assert (Ha2 : after (donef ++ [f]) g s2).
    { split; [exact H1|]. split.
      - rewrite H2. cbn [s1 st_done]. rewrite Hd, map_app. cbn [map]. f_equal. f_equal. rewrite Hcur, Hm'. reflexivity.
      - split; [exact H3|]. split; [exact H4|]. split; [exact H5|]. exists m2. split; assumption. }
    destruct (IH (donef ++ [f]) g s2 Ha2) as (s' & donef' & f' & E' & Ha' & El). exists s', donef', f'. split; [exact E'|]. split; [exact Ha'|].
    rewrite El, <- !app_assoc. reflexivity.
Qed.

Theorem features_roundtrip fs : fs <> [] -> Forall wf_feat fs -> parse_features (render_features fs) = Ok (map parsed fs).
Proof.
  intros Hne Hwf. destruct fs as [|f fs]; [congruence|]. inversion Hwf as [|? ? Hf Hfs]; subst.
  unfold parse_features_gen. cbn [render_features map concat]. fold (render_features fs). unfold feat_lines at 1. cbn [app]. rewrite <- app_assoc. cbn [gb_fold_gen]. rewrite (step_first_feature f Hf). cbn [bind].
  set (s1 := {| st_closed := true; st_cur := mk0 f; st_key := []; st_val := []; st_done := []; st_line := 1 |}).
  destruct (fold_feature_lines f s1 (render_features fs) Hf) as (s2 & E & H1 & H2 & H3 & H4 & H5 & m2 & H6 & H7); try reflexivity; [cbn [s1 st_line]; lia|].
  rewrite E.
  assert (Ha2 : after [] f s2).
  { split; [exact H1|]. split; [rewrite H2; reflexivity|]. split; [exact H3|]. split; [exact H4|]. split; [exact H5|]. exists m2. split; assumption. }
  destruct (fold_features fs Hfs [] f s2 Ha2) as (s' & donef' & f' & E' & (Hc & Hd & Hl & Hk & Hv & m' & Hcur & Hm') & El). rewrite E'. cbn [bind].
  destruct (st_key s') as [|k0 kt] eqn:Ek; [congruence|]. destruct (st_val s') as [|v0 vt] eqn:Ev; [congruence|].
  unfold put_info. rewrite Hcur. cbn [with_info gf_info gf_key gf_loc mk]. rewrite Hd. f_equal.
  transitivity (map parsed (donef' ++ [f'])); [|rewrite El; reflexivity].
  rewrite map_app. cbn [map]. f_equal. f_equal. unfold parsed. rewrite <- Hm'. reflexivity.
Qed.

(* ---- ORIGIN: however the sequence is cut into numbered, blank-separated chunks, it is read back whole ---- *)
Theorem origin_roundtrip (pieces : list (list N * list N)) :
  Forall (fun p => forallb (fun c => negb (is_letter_ascii c)) (fst p) = true /\ forallb is_letter_ascii (snd p) = true) pieces ->
  filter is_letter_ascii (concat (map (fun p => fst p ++ snd p) pieces)) = concat (map snd pieces).
Proof.
  induction 1 as [|[a b] t [Ha Hb] _ IH]; [reflexivity|]. cbn [map concat fst snd] in *. rewrite !filter_app, IH. f_equal.
  assert (Ea : filter is_letter_ascii a = []).
  { clear -Ha. induction a as [|c a IHa]; [reflexivity|]. cbn [forallb] in Ha. apply andb_true_iff in Ha as [Hc Ha]. cbn [filter].
    apply negb_true_iff in Hc. rewrite Hc. apply IHa. exact Ha. }
  assert (Eb : filter is_letter_ascii b = b).
  { clear -Hb. induction b as [|c b IHb]; [reflexivity|]. cbn [forallb] in Hb. apply andb_true_iff in Hb as [Hc Hb]. cbn [filter]. rewrite Hc, IHb by exact Hb. reflexivity. }
  rewrite Ea, Eb. reflexivity.
Qed.
Corollary parse_origin_lines (lines : list (list (list N * list N))) :
  Forall (Forall (fun p => forallb (fun c => negb (is_letter_ascii c)) (fst p) = true /\ forallb is_letter_ascii (snd p) = true)) lines ->
  parse_origin (map (fun l => concat (map (fun p => fst p ++ snd p) l)) lines) = concat (map (fun l => concat (map snd l)) lines).
Proof.
  intros H. unfold parse_origin. induction H as [|l t Hl _ IH]; [reflexivity|]. cbn [map concat]. rewrite filter_app, IH, (origin_roundtrip l Hl). reflexivity.
Qed.

(* ---- before repair D23 a location continued on a second line was cut at the line end ---- *)
Definition wrapped_cds : wfeat :=
  {| fk := bs "CDS"; floc := bs "join(4..12,20..28,"; fmore := [bs "40..48)"]; fquals := [{| qk := bs "gene"; qv := bs "g1"; qquoted := true |}] |}.
Lemma wrapped_cds_wf : wf_feat wrapped_cds.
Proof.
  unfold wf_feat, wrapped_cds, wf_chunk, wf_qual, nospace, lacks. cbn [fk floc fmore fquals qk qv qquoted].
  repeat match goal with
         | |- _ /\ _ => split
         | |- Forall _ _ => repeat constructor
         | |- _ <> _ => discriminate
         | |- forall c, In c _ -> _ => let H := fresh in intros ? H; cbn in H; repeat (destruct H as [<-|H]; [discriminate|]); destruct H
         | |- false = false -> _ => intros _
         | |- true = false -> _ => discriminate
         end.
Qed.
Theorem wrapped_location_old_refuted :
  exists f, wf_feat f /\ parse_features_old (render_features [f]) = Ok [{| gf_key := fk f; gf_loc := floc f; gf_info := gf_info (parsed f) |}] /\
            floc f <> full_loc f /\ parse_features (render_features [f]) = Ok [parsed f].
Proof. exists wrapped_cds. split; [exact wrapped_cds_wf|]. split; [vm_compute; reflexivity|]. split; [discriminate|]. vm_compute. reflexivity. Qed.
