(* Properties_C10.v — C10: updown list is a lossless summary of each sequence relative to the reference. *)
From Coq Require Import Sorting.Sorted.
From GF Require Import Base Alphabet Symbols FastaModel FastaProofs SnpsModel SnpsProofs UpdownListModel UpdownListProofs.

(* For EVERY pair of byte files the model of the command equals the specification command:
   one row per record in input order; SNP list = the A/C/G/T columns whose base is not in the
   reference symbol's set (spec_snp_pos over spec_cols), ranges = starts of maximal ambiguous
   runs paired with their stops (spec_ranges), counts as counted; same errors. *)
Theorem C10_command_eq_spec : forall ref aln,
  Forall (fun c => (c < 256)%N) ref -> Forall (fun c => (c < 256)%N) aln ->
  list_cmd ref aln = list_spec_cmd ref aln.
Proof. exact list_cmd_eq_spec. Qed.
Print Assumptions C10_command_eq_spec.

(* lossless: SNP list and ranges of the row determine the class of every column, any length *)
Theorem C10_list_reconstructs : forall cols, rebuild (length cols) (get_line cols) = cols.
Proof. exact list_reconstructs. Qed.
Print Assumptions C10_list_reconstructs.

(* the ranges are maximal runs: 1-based, inclusive, ascending, pairwise separated by at least one column *)
Theorem C10_ranges_maximal : forall cols,
  let '(_, rs, _) := get_line cols in
  StronglySorted gapped rs /\ Forall (fun r => 1 <= fst r <= snd r /\ snd r <= length cols) rs.
Proof. exact list_ranges_maximal. Qed.
Print Assumptions C10_ranges_maximal.

(* the scan's row is the declarative one: SNP positions, starts/stops of runs, ambiguity count *)
Theorem C10_row_spec : forall cols,
  get_line cols = (spec_snp_pos 1 cols, spec_ranges cols, length (filter is_am cols)).
Proof. exact get_line_spec. Qed.
Print Assumptions C10_row_spec.

(* the SNP list is exactly the known-base columns that differ, in ascending order *)
Theorem C10_snps_exact : forall cols p,
  In p (spec_snp_pos 1 cols) <-> (1 <= p /\ nth_error cols (p - 1) = Some (Kn true)).
Proof. intros cols p. exact (spec_snp_pos_iff cols 1 p). Qed.
Print Assumptions C10_snps_exact.

Theorem C10_snps_ascending : forall cols, StronglySorted lt (spec_snp_pos 1 cols).
Proof. intros cols. exact (spec_snp_pos_sorted cols 1). Qed.
Print Assumptions C10_snps_ascending.

Theorem C10_ambcount : forall cols, snd (get_line cols) = length (filter is_am cols).
Proof. exact list_ambcount. Qed.
Print Assumptions C10_ambcount.

Open Scope N_scope.
Example C10_example :
  list_cmd (bs ">r" ++ [10] ++ bs "ACGTACGTAC" ++ [10]) (bs ">q" ++ [10] ++ bs "NNGAAC-TnR" ++ [10])
  = Ok (bs "query,SNPs,ambiguities,SNPcount,ambcount" ++ [10] ++ bs "q,T4A,1-2|7|9-10,1,5" ++ [10]).
Proof. vm_compute. reflexivity. Qed.
