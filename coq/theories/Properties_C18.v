(* Properties_C18.v — C18: invalid or inconsistent input is refused with a non-zero exit, never silently.
   What the model can carry is the DECISION to refuse (an error value instead of output); exit status,
   promptness and "no partial output presented as success" are properties of the process and are observed by
   running the built binary under a timeout for every corruption x position x input file x command. *)
From Coq Require Import Floats.SpecFloat.
From GF Require Import Base Alphabet Symbols FastaModel FastaProofs SnpsModel UpdownListModel Cigar SamModel TopRankModel Errors.
Open Scope N_scope.

Theorem C18_invalid_symbol_refused : forall conv l, l <> [] -> hd 0 l <> 62 -> conv_line conv l = None ->
  forall pre post, exists e, read_lines conv true (pre ++ l :: post) = Err e.
Proof. exact invalid_symbol_refused. Qed.
Print Assumptions C18_invalid_symbol_refused.

Theorem C18_no_leading_header_refused : forall conv l, l <> [] -> hd 0 l <> 62 ->
  forall post, read_lines conv true (l :: post) = Err BadFormat.
Proof. exact no_leading_header_refused. Qed.
Print Assumptions C18_no_leading_header_refused.

Theorem C18_empty_fasta_refused : forall conv ls, Forall (fun l => l = []) ls -> read_lines conv true ls = Err EmptyFile.
Proof. exact empty_fasta_refused. Qed.
Print Assumptions C18_empty_fasta_refused.

Theorem C18_unequal_length_refused : forall conv s d, first s = false -> counter s <> 0%nat -> length (buf s) <> width s ->
  step conv true s (62 :: d) = Err DiffLen.
Proof. exact unequal_length_refused. Qed.
Print Assumptions C18_unequal_length_refused.

Theorem C18_unequal_last_refused : forall s, counter s <> 0%nat -> length (buf s) <> width s -> finish true s = Err DiffLen.
Proof. exact unequal_last_refused. Qed.
Print Assumptions C18_unequal_last_refused.

Theorem C18_two_references_refused : forall h ref aln r1 r2 rest,
  read_encoded h ref = Ok (r1 :: r2 :: rest) -> snps_cmd h ref aln = Err Other.
Proof. exact snps_two_refs_refused. Qed.
Print Assumptions C18_two_references_refused.

Theorem C18_reference_width_mismatch_refused : forall refseq r t,
  length (r_seq r) <> length refseq -> snps_rows refseq (r :: t) = Err DiffLen.
Proof. exact snps_width_mismatch_refused. Qed.
Print Assumptions C18_reference_width_mismatch_refused.

Theorem C18_window_out_of_range_refused : forall reflen ts te,
  ((ts <> -1 /\ (ts < 1 \/ Z.of_nat reflen < ts)) \/ (te <> -1 /\ (te < 1 \/ Z.of_nat reflen < te)) \/
   (ts <> -1 /\ te <> -1 /\ te < ts))%Z ->
  check_args reflen ts te = None.
Proof. exact window_out_of_range_refused. Qed.
Print Assumptions C18_window_out_of_range_refused.

Theorem C18_topranking_no_option_refused : check_args_tr 0 0 0 0 0 0 0 0 0 0 = None.
Proof. exact topranking_no_option_refused. Qed.
Print Assumptions C18_topranking_no_option_refused.

(* the SAM header hand-off cannot deadlock (reachable states enumerated): empty or unreadable stream -> the caller
   receives the error; the pinned snapshot did deadlock (D9) *)
Theorem C18_header_handoff_no_deadlock : hdeadlocks true true = [] /\ hdeadlocks true false = [].
Proof. exact header_handoff_no_deadlock. Qed.
Print Assumptions C18_header_handoff_no_deadlock.

Theorem C18_old_handoff_deadlock_refuted : hdeadlocks false false = [(1, 0)%nat].
Proof. exact header_handoff_old_deadlocks_refuted. Qed.
Print Assumptions C18_old_handoff_deadlock_refuted.

(* the reference and the annotation in different coordinates (another length than the GenBank ORIGIN or the gff ##sequence-region,
   or two ##sequence-region lines): refused by the one check both annotation-reading commands make since repair D21 *)
Theorem C18_annotation_coordinates_refused : forall reflen a,
  match a with GbOrigin n => reflen <> n | GffRegions [e] => reflen <> e | GffRegions [] => False | GffRegions _ => True end ->
  coords_ok reflen a = false.
Proof. exact coords_mismatch_refused. Qed.
Print Assumptions C18_annotation_coordinates_refused.
Theorem C18_old_sam_variants_coordinates_refuted : exists reflen a, coords_ok reflen a = false /\ old_sam_variants_coords reflen a = true.
Proof. exact old_sam_variants_coords_refuted. Qed.
Print Assumptions C18_old_sam_variants_coordinates_refuted.

(* a --reference of another length than the SAM header's @SQ line gives: refused (repair D22) *)
Theorem C18_sam_reference_length_refused : forall reflen sq_len, reflen <> sq_len -> sam_reference_ok reflen sq_len = false.
Proof. exact sam_reference_mismatch_refused. Qed.
Print Assumptions C18_sam_reference_length_refused.
Theorem C18_old_sam_reference_check_refuted : exists reflen sq_len, sam_reference_ok reflen sq_len = false /\ old_sam_reference_ok reflen sq_len = true.
Proof. exact old_sam_reference_refuted. Qed.
Print Assumptions C18_old_sam_reference_check_refuted.
