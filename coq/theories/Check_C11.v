From Coq Require Import Floats.SpecFloat.
From GF Require Import Base Alphabet SymbolsDef FastaModel Float TopK CodonModel Indels VariantsModel ClosestModel Cigar SamModel TopaModel Harness.
From GF Require Import Check_C04.
Open Scope N_scope.

(* `sam variants`: each query block -> pairwise rows (as sam toPairAlign builds them) -> encoded -> the shared caller *)
Fixpoint sam_call_all (ref : list N) (gs : list region) (inter : list nat) (blocks : list (list srec)) : res (list (list N * list variant)) :=
  match blocks with
  | [] => Ok []
  | b :: t =>
      match b, block_to_seq_pair ref b with
      | rc0 :: _, Some (R, Q) =>
          bind (variants_pair (map (enc false) R) (map (enc false) Q) gs inter) (fun vs =>
          bind (sam_call_all ref gs inter t) (fun rest => Ok ((s_name rc0, vs) :: rest)))
      | _, _ => Panic
      end
  end.
Definition samvariants_cmd_model (ref refid : list N) (gs : list region) (recs : list srec)
           (aggregate append_snp : bool) (s e : Z) (thr : spec_float) : res (list N) :=
  let inter := inter_of gs (length (filter (fun c => negb (c =? 45)) ref)) in
  bind (sam_call_all ref gs inter (group_records recs)) (fun called =>
    Ok (if aggregate then aggregate_header ++ aggregate_rows append_snp s e thr refid called
        else variants_header ++ variants_rows append_snp s e refid called)).

Definition check_C11 (c : list N * list N * list (list N * bool * list nat * list N) * list srec *
                          (bool * bool) * (Z * Z) * (N * Z * Z) * gores) : N :=
  let '(ref, refid, gs, recs, (aggregate, append_snp), (s, e), (tk, tm, te), g) := c in
  verdict_p g (samvariants_cmd_model ref refid (map mk_region gs) recs aggregate append_snp s e (sf_norm tk tm te)) true.

(* both commands reduce to the same caller on the same encoded rows: the mutation list `sam variants` reports for
   a block is what `variants` computes for the pair of rows `sam toPairAlign` writes for it *)
Theorem samvariants_eq_variants_on_pair ref gs inter b rc0 tl R Q :
  b = rc0 :: tl -> block_to_seq_pair ref b = Some (R, Q) ->
  sam_call_all ref gs inter [b] =
  bind (variants_pair (map (enc false) R) (map (enc false) Q) gs inter) (fun vs => Ok [(s_name rc0, vs)]).
Proof.
  intros -> H. cbn [sam_call_all]. rewrite H. destruct (variants_pair _ _ gs inter); reflexivity.
Qed.
