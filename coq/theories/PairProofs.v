(* PairProofs.v — C02, multi-record queries: the reference row sam toPairAlign builds for a query described by ANY
   number of SAM records is the canonical gapped reference - the reference with, after its k-th base, exactly the total
   length of the block's insertions at k - and the query row has the same length. *)
From GF Require Import Base Alphabet SymbolsDef FastaModel Cigar SamModel SamProofs TopaModel TopaProofs.
Open Scope nat_scope.

(* ---------- gapped rows as segments: leading gaps, then every base followed by its gap run ---------- *)
Definition seg := (N * nat)%type.
Definition flat_segs (segs : list seg) : list N := concat (map (fun s : seg => fst s :: repeat 45%N (snd s)) segs).
Definition flat (g0 : nat) (segs : list seg) : list N := repeat 45%N g0 ++ flat_segs segs.
Definition wf_segs (segs : list seg) : Prop := Forall (fun s : seg => fst s <> 45%N) segs.

Lemma flat_segs_cons c g t : flat_segs ((c, g) :: t) = c :: repeat 45%N g ++ flat_segs t.
Proof. reflexivity. Qed.
Lemma flat_segs_app a b : flat_segs (a ++ b) = flat_segs a ++ flat_segs b.
Proof. unfold flat_segs. rewrite map_app, concat_app. reflexivity. Qed.
Lemma flat_segs_length_ge segs : length segs <= length (flat_segs segs).
Proof. induction segs as [|[c g] t IH]; [cbn; lia|]. rewrite flat_segs_cons. cbn [length]. rewrite app_length. lia. Qed.

Lemma find_col_done rrow start col refb : start <= refb -> find_col rrow start col refb = (col, refb).
Proof. intros H. destruct rrow as [|c t]; [reflexivity|]. cbn [find_col]. destruct (Nat.ltb_spec refb start); [lia|reflexivity]. Qed.
Lemma find_col_gaps g rest start : forall col refb, refb < start ->
  find_col (repeat 45%N g ++ rest) start col refb = find_col rest start (col + g) refb.
Proof.
  induction g as [|g IH]; intros col refb H; cbn [repeat app]; [rewrite Nat.add_0_r; reflexivity|].
  cbn [find_col]. destruct (Nat.ltb_spec refb start); [|lia]. replace (45 =? 45)%N with true by reflexivity.
  rewrite IH by exact H. f_equal. lia.
Qed.
Lemma find_col_segs start segs : wf_segs segs -> forall col refb, refb < start ->
  find_col (flat_segs segs) start col refb =
  if start - refb <=? length segs then (col + length (flat_segs (firstn (start - refb - 1) segs)) + 1, start)
  else (col + length (flat_segs segs), refb + length segs).
Proof.
  induction 1 as [|[c g] t Hc Ht IH]; intros col refb Hlt.
  - cbn. destruct (Nat.leb_spec (start - refb) 0); [lia|]. f_equal; lia.
  - rewrite flat_segs_cons. cbn [find_col]. destruct (Nat.ltb_spec refb start); [|lia]. cbn [fst] in Hc.
    destruct (N.eqb_spec c 45); [contradiction|]. cbn [length].
    destruct (Nat.eq_dec (S refb) start) as [E|E].
    + rewrite find_col_done by lia. replace (start - refb) with 1 by lia. cbn [Nat.leb Nat.sub firstn flat_segs map concat length]. f_equal; lia.
    + rewrite find_col_gaps by lia. rewrite IH by lia. replace (start - S refb) with (start - refb - 1) by lia.
      destruct (Nat.leb_spec (start - refb - 1) (length t)); destruct (Nat.leb_spec (start - refb) (S (length t))); try lia.
      * replace (start - refb - 1) with (S (start - refb - 1 - 1)) at 2 by lia. cbn [firstn]. rewrite flat_segs_cons. cbn [length].
        rewrite app_length, repeat_length. f_equal. lia.
      * rewrite app_length, repeat_length. f_equal; lia.
Qed.

(* bump the gap run after `s` bases (s = 0: the leading run) by l, when the row has that many bases *)
Definition add_gap (s l : nat) (g0 : nat) (segs : list seg) : nat * list seg :=
  match s with
  | O => (l + g0, segs)
  | S s' => if s <=? length segs
            then (g0, firstn s' segs ++ (fst (nth s' segs (0%N, 0)), l + snd (nth s' segs (0%N, 0))) :: skipn s segs)
            else (g0, segs)
  end.

Lemma nth_split {A} (l : list A) : forall n d, n < length l -> l = firstn n l ++ nth n l d :: skipn (S n) l.
Proof.
  induction l as [|x t IH]; intros n d H; [cbn in H; lia|]. destruct n as [|n]; [reflexivity|].
  cbn [firstn nth skipn app]. f_equal. apply IH. cbn in H. lia.
Qed.
Lemma regap_row_flat s l g0 segs q : wf_segs segs ->
  fst (regap_row s l (flat g0 segs, q)) = flat (fst (add_gap s l g0 segs)) (snd (add_gap s l g0 segs)) /\
  (length q = length (flat g0 segs) -> length (snd (regap_row s l (flat g0 segs, q))) = length (fst (regap_row s l (flat g0 segs, q)))).
Proof.
  intros Hwf.
  assert (LEN : forall col, length (firstn col (flat g0 segs) ++ repeat 45%N l ++ skipn col (flat g0 segs)) = length (flat g0 segs) + l).
  { intros col. rewrite !app_length, repeat_length. pose proof (firstn_skipn col (flat g0 segs)) as E.
    apply (f_equal (@length N)) in E. rewrite app_length in E. lia. }
  assert (LENQ : forall col, length (firstn col q ++ repeat 45%N l ++ skipn col q) = length q + l).
  { intros col. rewrite !app_length, repeat_length. pose proof (firstn_skipn col q) as E.
    apply (f_equal (@length N)) in E. rewrite app_length in E. lia. }
  assert (VAL : exists col, regap_row s l (flat g0 segs, q) =
                  (flat (fst (add_gap s l g0 segs)) (snd (add_gap s l g0 segs)),
                   if (match s with O => true | S _ => s <=? length segs end) then firstn col q ++ repeat 45%N l ++ skipn col q else q) /\
                (match s with O => true | S _ => s <=? length segs end = true ->
                 flat (fst (add_gap s l g0 segs)) (snd (add_gap s l g0 segs)) = firstn col (flat g0 segs) ++ repeat 45%N l ++ skipn col (flat g0 segs))).
  { unfold regap_row. destruct s as [|s'].
    - exists 0. rewrite find_col_done by lia. cbn [Nat.ltb Nat.leb fst snd add_gap firstn skipn app].
      assert (E : flat (l + g0) segs = repeat 45%N l ++ flat g0 segs) by (unfold flat; rewrite repeat_app, <- app_assoc; reflexivity).
      rewrite E. split; [reflexivity|intros _; reflexivity].
    - unfold flat at 1. rewrite find_col_gaps by lia. rewrite (find_col_segs (S s') segs Hwf) by lia. cbn [Nat.add].
      replace (S s' - 0) with (S s') by lia. cbn [add_gap]. destruct (Nat.leb_spec (S s') (length segs)) as [Hle|Hgt].
      + destruct (Nat.ltb_spec (S s') (S s')); [lia|]. cbn [fst snd]. replace (S s' - 1) with s' by lia.
        exists (g0 + length (flat_segs (firstn s' segs)) + 1). set (col := g0 + length (flat_segs (firstn s' segs)) + 1).
        destruct (nth s' segs (0%N, 0)) as [c g] eqn:En.
        assert (Esplit : segs = firstn s' segs ++ (c, g) :: skipn (S s') segs) by (rewrite <- En; apply nth_split; lia).
        assert (Eflat : flat g0 segs = (repeat 45%N g0 ++ flat_segs (firstn s' segs) ++ [c]) ++ repeat 45%N g ++ flat_segs (skipn (S s') segs)).
        { unfold flat. rewrite Esplit at 1. rewrite flat_segs_app, flat_segs_cons, <- !app_assoc. reflexivity. }
        assert (Ecol : col = length (repeat 45%N g0 ++ flat_segs (firstn s' segs) ++ [c])).
        { unfold col. rewrite !app_length, repeat_length. cbn [length]. lia. }
        assert (Eres : firstn col (flat g0 segs) ++ repeat 45%N l ++ skipn col (flat g0 segs) =
                       flat g0 (firstn s' segs ++ (c, l + g) :: skipn (S s') segs)).
        { rewrite Eflat, Ecol, firstn_app, firstn_all, Nat.sub_diag, skipn_app, skipn_all, Nat.sub_diag. cbn [firstn skipn app].
          rewrite app_nil_r. unfold flat. rewrite flat_segs_app, flat_segs_cons, repeat_app, <- !app_assoc. reflexivity. }
        cbn [fst snd]. rewrite Eres. split; [reflexivity|intros _; reflexivity].
      + destruct (Nat.ltb_spec (length segs) (S s')); [|lia]. exists 0. cbn [fst snd]. split; [reflexivity|intros H'; discriminate]. }
  destruct VAL as (col & -> & Hflat). cbn [fst snd]. split; [reflexivity|]. intros Hq.
  destruct s as [|s']; [rewrite (Hflat eq_refl), LEN, LENQ; lia|].
  cbn [add_gap] in *. destruct (S s' <=? length segs); [rewrite (Hflat eq_refl), LEN, LENQ; lia|exact Hq].
Qed.

(* ---------- the canonical gapped reference ---------- *)
(* I s = number of gap columns after s reference bases; rows cover the first E bases *)
Definition gsegs (ref : list N) (I : nat -> nat) (r n : nat) : list seg :=
  map (fun k => (nth (r + k) ref 0%N, I (r + k + 1))) (seq 0 n).
Definition grow (ref : list N) (I : nat -> nat) (E : nat) : list N := flat (I 0) (gsegs ref I 0 E).
Definition bump (I : nat -> nat) (s l : nat) : nat -> nat := fun x => if x =? s then l + I x else I x.

Lemma gsegs_length ref I r n : length (gsegs ref I r n) = n.
Proof. unfold gsegs. rewrite map_length, seq_length. reflexivity. Qed.
Lemma gsegs_S ref I r n : gsegs ref I r (S n) = (nth r ref 0%N, I (r + 1)) :: gsegs ref I (S r) n.
Proof.
  unfold gsegs. cbn [seq map]. rewrite Nat.add_0_r. f_equal. rewrite <- seq_shift, map_map. apply map_ext. intros k.
  replace (r + S k) with (S r + k) by lia. reflexivity.
Qed.
Lemma gsegs_app ref I r n m : gsegs ref I r (n + m) = gsegs ref I r n ++ gsegs ref I (r + n) m.
Proof.
  revert r. induction n as [|n IH]; intros r; [cbn [Nat.add]; rewrite Nat.add_0_r; reflexivity|].
  cbn [Nat.add]. rewrite !gsegs_S, IH. cbn [app]. replace (S r + n) with (r + S n) by lia. reflexivity.
Qed.
Lemma gsegs_ext ref I I' r n : (forall x, r < x <= r + n -> I x = I' x) -> gsegs ref I r n = gsegs ref I' r n.
Proof.
  intros H. unfold gsegs. apply map_ext_in. intros k Hk. apply in_seq in Hk. rewrite H by lia. reflexivity.
Qed.
Lemma gsegs_wf ref I r n : ~ In 45%N ref -> r + n <= length ref -> wf_segs (gsegs ref I r n).
Proof.
  intros Hng Hl. unfold wf_segs, gsegs. apply Forall_forall. intros s Hs. apply in_map_iff in Hs. destruct Hs as (k & <- & Hk).
  apply in_seq in Hk. cbn [fst]. intros E. apply Hng. rewrite <- E. apply nth_In. lia.
Qed.
Lemma grow_app ref I E n : grow ref I (E + n) = grow ref I E ++ flat_segs (gsegs ref I E n).
Proof. unfold grow, flat. rewrite gsegs_app, flat_segs_app, <- app_assoc. reflexivity. Qed.

Lemma split3 {A} (a : list A) x c d :
  firstn (length a) (a ++ x :: c) = a /\ nth (length a) (a ++ x :: c) d = x /\ skipn (S (length a)) (a ++ x :: c) = c.
Proof.
  induction a as [|y t IH]; [repeat split; reflexivity|]. destruct IH as (H1 & H2 & H3). cbn [length app firstn nth skipn].
  rewrite H1, H2. split; [reflexivity|split; [reflexivity|exact H3]].
Qed.
Lemma add_mid {A} n (a : list A) x c d (f : A -> A) : length a = n ->
  firstn n (a ++ x :: c) ++ f (nth n (a ++ x :: c) d) :: skipn (S n) (a ++ x :: c) = a ++ f x :: c.
Proof. intros <-. destruct (split3 a x c d) as (H1 & H2 & H3). rewrite H1, H2, H3. reflexivity. Qed.
Lemma gsegs_split ref I E s' : S s' <= E ->
  gsegs ref I 0 E = gsegs ref I 0 s' ++ (nth s' ref 0%N, I (S s')) :: gsegs ref I (S s') (E - S s').
Proof.
  intros H. replace E with (s' + S (E - S s')) at 1 by lia. rewrite gsegs_app, gsegs_S. cbn [Nat.add].
  replace (s' + 1) with (S s') by lia. reflexivity.
Qed.
Lemma grow_bump ref I E s l :
  flat (fst (add_gap s l (I 0) (gsegs ref I 0 E))) (snd (add_gap s l (I 0) (gsegs ref I 0 E))) = grow ref (bump I s l) E.
Proof.
  unfold grow. destruct s as [|s']; cbn [add_gap fst snd].
  - unfold bump at 1. cbn [Nat.eqb]. f_equal. apply gsegs_ext. intros x Hx. unfold bump. destruct (Nat.eqb_spec x 0); [lia|reflexivity].
  - rewrite gsegs_length. destruct (Nat.leb_spec (S s') E) as [Hle|Hgt]; cbn [fst snd].
    + unfold bump at 1. cbn [Nat.eqb]. f_equal.
      rewrite (gsegs_split ref (bump I (S s') l) E s' Hle). rewrite (gsegs_split ref I E s' Hle).
      etransitivity; [exact (add_mid s' (gsegs ref I 0 s') (nth s' ref 0%N, I (S s')) (gsegs ref I (S s') (E - S s')) (0%N, 0)
                                       (fun y : seg => (fst y, l + snd y)) (gsegs_length _ _ _ _))|]. cbn [fst snd].
      f_equal; [apply gsegs_ext; intros x Hx; unfold bump; destruct (Nat.eqb_spec x (S s')); [lia|reflexivity]|].
      f_equal; [unfold bump; rewrite Nat.eqb_refl; reflexivity|].
      apply gsegs_ext. intros x Hx. unfold bump. destruct (Nat.eqb_spec x (S s')); [lia|reflexivity].
    + unfold bump at 1. cbn [Nat.eqb]. f_equal. apply gsegs_ext. intros x Hx. unfold bump. destruct (Nat.eqb_spec x (S s')); [lia|reflexivity].
Qed.

Lemma regap_row_grow ref I E s l q : ~ In 45%N ref -> E <= length ref ->
  fst (regap_row s l (grow ref I E, q)) = grow ref (bump I s l) E /\
  (length q = length (grow ref I E) -> length (snd (regap_row s l (grow ref I E, q))) = length (fst (regap_row s l (grow ref I E, q)))).
Proof.
  intros Hng HE. destruct (regap_row_flat s l (I 0) (gsegs ref I 0 E) q (gsegs_wf ref I 0 E Hng HE)) as [H1 H2].
  split; [etransitivity; [exact H1|apply grow_bump]|exact H2].
Qed.

Lemma skipn_nth_cons {A} (l : list A) : forall r d, r < length l -> skipn r l = nth r l d :: skipn (S r) l.
Proof. induction l as [|x t IH]; intros r d H; [cbn in H; lia|]. destruct r as [|r]; [reflexivity|]. cbn [skipn nth]. apply IH. cbn in H. lia. Qed.
(* a stretch of bases with no insertion inside is the plain reference *)
Lemma zero_stretch ref I n : forall len r, (forall x, r <= x < r + len -> I x = 0) -> r + len <= length ref ->
  repeat 45%N (I r) ++ flat_segs (gsegs ref I r (len + n)) =
  firstn len (skipn r ref) ++ repeat 45%N (I (r + len)) ++ flat_segs (gsegs ref I (r + len) n).
Proof.
  induction len as [|len IH]; intros r Hz Hl; [cbn [Nat.add firstn app]; rewrite Nat.add_0_r; reflexivity|].
  rewrite (Hz r) by lia. cbn [repeat app Nat.add]. rewrite gsegs_S, flat_segs_cons.
  rewrite (skipn_nth_cons ref r 0%N) by lia. cbn [firstn app]. f_equal.
  replace (r + 1) with (S r) by lia. rewrite (IH (S r)) by (try lia; intros x Hx; apply Hz; lia).
  replace (S r + len) with (r + S len) by lia. reflexivity.
Qed.

(* ---------- the insertion table of a list of insertions; each record's row ---------- *)
Fixpoint Iof (L : list (nat * nat * nat)) : nat -> nat :=
  match L with [] => fun _ => 0 | (s, l, _) :: t => bump (Iof t) s l end.
Lemma Iof_zero L s : (forall x, In x L -> fst (fst x) <> s) -> Iof L s = 0.
Proof.
  induction L as [|[[s0 l0] r0] t IH]; intros H; [reflexivity|]. cbn [Iof]. unfold bump.
  destruct (Nat.eqb_spec s s0) as [->|Hn]; [exfalso; apply (H (s0, l0, r0)); [left; reflexivity|reflexivity]|].
  apply IH. intros x Hx. apply H. right. exact Hx.
Qed.
Lemma Iof_app a b s : Iof (a ++ b) s = Iof a s + Iof b s.
Proof. induction a as [|[[s0 l0] r0] t IH]; [reflexivity|]. cbn [app Iof]. unfold bump. rewrite IH. destruct (s =? s0); lia. Qed.

Lemma ins_of_cigar_range row ops : forall pos x, In x (ins_of_cigar row pos ops) -> pos <= fst (fst x) <= pos + ref_span ops.
Proof.
  induction ops as [|[o len] t IH]; intros pos x H; [contradiction|]. cbn [ins_of_cigar ref_span] in *. apply in_app_iff in H.
  destruct H as [H|H].
  - destruct o; try contradiction. destruct H as [<-|[]]. cbn [fst]. lia.
  - apply IH in H. destruct o; cbv beta iota in H |- *; lia.
Qed.

Lemma walk2_grow row ops : forall q r sq ref x y, ~ In 45%N ref -> r <= length ref -> walk2 true ops q r sq ref = Some (x, y) ->
  y = repeat 45%N (Iof (ins_of_cigar row r ops) r) ++ flat_segs (gsegs ref (Iof (ins_of_cigar row r ops)) r (ref_span ops)) /\
  r + ref_span ops <= length ref.
Proof.
  induction ops as [|[o len] t IH]; intros q r sq ref x y Hng Hr H; cbn [walk2 ref_span ins_of_cigar] in *.
  - injection H as <- <-. split; [reflexivity|]. lia.
  - assert (REF : forall b y', slice ref r len = Some b ->
                    y' = repeat 45%N (Iof (ins_of_cigar row (r + len) t) (r + len)) ++
                         flat_segs (gsegs ref (Iof (ins_of_cigar row (r + len) t)) (r + len) (ref_span t)) ->
                    r + len + ref_span t <= length ref ->
                    b ++ y' = repeat 45%N (Iof (ins_of_cigar row (r + len) t) r) ++
                              flat_segs (gsegs ref (Iof (ins_of_cigar row (r + len) t)) r (len + ref_span t))).
    { intros b y' Hb Hy Hl. destruct (slice_is _ _ _ _ Hb) as [-> Hlen]. rewrite Hy. symmetry. apply zero_stretch; [|lia].
      intros s Hs. apply Iof_zero. intros e He. apply ins_of_cigar_range in He. lia. }
    destruct o; cbn [app].
    + destruct (slice sq q len) as [a|]; [|discriminate]. destruct (slice ref r len) as [b|] eqn:Eb; [|discriminate].
      destruct (walk2 true t (q + len) (r + len) sq ref) as [[x' y']|] eqn:Ew; [|discriminate]. injection H as <- <-.
      destruct (IH _ _ _ _ _ _ Hng (proj2 (slice_is _ _ _ _ Eb)) Ew) as [Hy Hl]. split; [apply REF; (reflexivity || assumption)|lia].
    + destruct (slice sq q len) as [a|]; [|discriminate].
      destruct (walk2 true t (q + len) r sq ref) as [[x' y']|] eqn:Ew; [|discriminate]. injection H as <- <-.
      destruct (IH _ _ _ _ _ _ Hng Hr Ew) as [Hy Hl]. split; [|lia]. cbn [Iof]. unfold bump at 1. rewrite Nat.eqb_refl, repeat_app, <- app_assoc.
      rewrite Hy. f_equal. f_equal. f_equal. apply gsegs_ext. intros s Hs. unfold bump. destruct (Nat.eqb_spec s r); [lia|reflexivity].
    + destruct (slice ref r len) as [b|] eqn:Eb; [|discriminate].
      destruct (walk2 true t q (r + len) sq ref) as [[x' y']|] eqn:Ew; [|discriminate]. injection H as <- <-.
      destruct (IH _ _ _ _ _ _ Hng (proj2 (slice_is _ _ _ _ Eb)) Ew) as [Hy Hl]. split; [apply REF; (reflexivity || assumption)|lia].
    + destruct (slice ref r len) as [b|] eqn:Eb; [|discriminate].
      destruct (walk2 true t q (r + len) sq ref) as [[x' y']|] eqn:Ew; [|discriminate]. injection H as <- <-.
      destruct (IH _ _ _ _ _ _ Hng (proj2 (slice_is _ _ _ _ Eb)) Ew) as [Hy Hl]. split; [apply REF; (reflexivity || assumption)|lia].
    + apply (IH _ _ _ _ _ _ Hng Hr H).
    + apply (IH _ _ _ _ _ _ Hng Hr H).
    + apply (IH _ _ _ _ _ _ Hng Hr H).
    + destruct (slice sq q len) as [a|]; [|discriminate]. destruct (slice ref r len) as [b|] eqn:Eb; [|discriminate].
      destruct (walk2 true t (q + len) (r + len) sq ref) as [[x' y']|] eqn:Ew; [|discriminate]. injection H as <- <-.
      destruct (IH _ _ _ _ _ _ Hng (proj2 (slice_is _ _ _ _ Eb)) Ew) as [Hy Hl]. split; [apply REF; (reflexivity || assumption)|lia].
    + destruct (slice sq q len) as [a|]; [|discriminate]. destruct (slice ref r len) as [b|] eqn:Eb; [|discriminate].
      destruct (walk2 true t (q + len) (r + len) sq ref) as [[x' y']|] eqn:Ew; [|discriminate]. injection H as <- <-.
      destruct (IH _ _ _ _ _ _ Hng (proj2 (slice_is _ _ _ _ Eb)) Ew) as [Hy Hl]. split; [apply REF; (reflexivity || assumption)|lia].
Qed.

Definition rec_E (rc : srec) : nat := s_pos rc + ref_span (s_cigar rc).
Theorem one_line_grow row rc ref qrow rrow : ~ In 45%N ref -> one_line_plus_ref true rc ref = Some (qrow, rrow) ->
  rrow = grow ref (Iof (ins_of_cigar row (s_pos rc) (s_cigar rc))) (rec_E rc) /\ rec_E rc <= length ref /\ length qrow = length rrow.
Proof.
  intros Hng H. destruct (one_line_plus_ref_rows rc ref qrow rrow Hng H) as [Hlen _].
  unfold one_line_plus_ref in H. destruct (Nat.ltb_spec (length ref) (s_pos rc)); [discriminate|].
  destruct (walk2 true (s_cigar rc) 0 (s_pos rc) (s_seq rc) ref) as [[x y]|] eqn:Ew; [|discriminate]. injection H as <- <-.
  assert (Hp : s_pos rc <= length ref) by lia.
  destruct (walk2_grow row _ _ _ _ _ _ _ Hng Hp Ew) as [Hy Hl]. split; [|split; [exact Hl|exact Hlen]].
  unfold grow, flat, rec_E. rewrite (zero_stretch ref _ (ref_span (s_cigar rc)) (s_pos rc) 0).
  - cbn [skipn Nat.add]. rewrite Hy. reflexivity.
  - intros s Hs. apply Iof_zero. intros e He. apply ins_of_cigar_range in He. lia.
  - lia.
Qed.

(* ---------- the re-gapping loop over all rows ---------- *)
Lemma grow_ext ref I I' E : (forall x, x <= E -> I x = I' x) -> grow ref I E = grow ref I' E.
Proof. intros H. unfold grow. rewrite (H 0) by lia. f_equal. apply gsegs_ext. intros x Hx. apply H. lia. Qed.

Definition dpair : list N * list N := ([], []).
Section Regap.
  Variables (ref : list N) (E : nat -> nat) (n : nat).
  Hypothesis (Hng : ~ In 45%N ref) (HE : forall j, j < n -> E j <= length ref).

  Definition RowsInv (rows : list (list N * list N)) (F : nat -> nat -> nat) : Prop :=
    length rows = n /\
    forall j, j < n -> fst (nth j rows dpair) = grow ref (F j) (E j) /\ length (snd (nth j rows dpair)) = length (fst (nth j rows dpair)).
  Definition stepF (F : nat -> nat -> nat) (i : nat * nat * nat) : nat -> nat -> nat :=
    let '(s, l, row) := i in fun j => if j =? row then F j else bump (F j) s l.
  Definition step_rows (rows : list (list N * list N)) (i : nat * nat * nat) : list (list N * list N) :=
    let '(start, len, row) := i in mapi_from (fun j rq => if Nat.eqb j row then rq else regap_row start len rq) 0 rows.

  Lemma step_inv rows F i : RowsInv rows F -> RowsInv (step_rows rows i) (stepF F i).
  Proof.
    intros [Hl Hr]. destruct i as [[s l] row]. unfold step_rows, stepF. split; [rewrite mapi_from_length; exact Hl|].
    intros j Hj. rewrite (mapi_from_nth _ rows 0 j dpair dpair) by lia. cbn [Nat.add]. destruct (Hr j Hj) as [H1 H2].
    destruct (Nat.eqb_spec j row); [split; assumption|].
    destruct (nth j rows dpair) as [r q] eqn:En. cbn [fst snd] in H1, H2. subst r.
    destruct (regap_row_grow ref (F j) (E j) s l q Hng (HE j Hj)) as [G1 G2]. split; [exact G1|apply G2, H2].
  Qed.
  Fixpoint foldF (F : nat -> nat -> nat) (INS : list (nat * nat * nat)) : nat -> nat -> nat :=
    match INS with [] => F | i :: t => foldF (stepF F i) t end.
  Lemma regap_inv INS : forall rows F, RowsInv rows F -> RowsInv (regap rows INS) (foldF F INS).
  Proof.
    induction INS as [|i t IH]; intros rows F H; [exact H|]. unfold regap. cbn [fold_left foldF].
    change (RowsInv (regap (step_rows rows i) t) (foldF (stepF F i) t)).
    - apply IH, step_inv, H.
  Qed.
  Lemma foldF_spec INS : forall F j x,
    foldF F INS j x = F j x + Iof (filter (fun i : nat * nat * nat => negb (snd i =? j)) INS) x.
  Proof.
    induction INS as [|[[s l] row] t IH]; intros F j x; [cbn; lia|]. cbn [foldF filter snd]. rewrite IH. unfold stepF.
    destruct (Nat.eqb_spec row j) as [->|Hn].
    - rewrite Nat.eqb_refl. cbn [negb]. reflexivity.
    - destruct (Nat.eqb_spec j row); [congruence|]. cbn [negb Iof]. unfold bump. destruct (x =? s); lia.
  Qed.
End Regap.

(* ---------- the block's insertion table ---------- *)
Lemma Iof_filter_split (P : nat * nat * nat -> bool) L x :
  Iof L x = Iof (filter P L) x + Iof (filter (fun i => negb (P i)) L) x.
Proof.
  induction L as [|[[s l] r] t IH]; [reflexivity|]. cbn [filter Iof]. destruct (P (s, l, r)); cbn [negb Iof]; unfold bump; rewrite IH; destruct (x =? s); lia.
Qed.
Lemma Iof_ins_sorted P e acc x : Iof (filter P (ins_sorted e acc)) x = Iof (filter P (e :: acc)) x.
Proof.
  induction acc as [|a t IH]; [reflexivity|]. cbn [ins_sorted]. destruct (fst (fst e) <? fst (fst a)); [reflexivity|].
  cbn [filter] in *. destruct (P a) eqn:Ea, (P e) eqn:Ee; cbn [Iof] in *; destruct a as [[sa la] ra], e as [[se le] re]; cbn [Iof] in *;
    unfold bump in *; rewrite IH; destruct (x =? sa), (x =? se); lia.
Qed.
Lemma Iof_sort P L x : Iof (filter P (sort_insertions L)) x = Iof (filter P L) x.
Proof.
  unfold sort_insertions.
  assert (G : forall acc, Iof (filter P (fold_left (fun acc e => ins_sorted e acc) L acc)) x = Iof (filter P acc) x + Iof (filter P L) x).
  { induction L as [|e t IH]; intros acc; cbn [fold_left]; [cbn; lia|]. rewrite IH, Iof_ins_sorted. cbn [filter].
    destruct (P e); [|lia]. destruct e as [[s l] r]. cbn [Iof]. unfold bump. destruct (x =? s); lia. }
  rewrite G. cbn. reflexivity.
Qed.
Lemma Iof_filter_all P L x : Forall (fun i => P i = true) L -> Iof (filter P L) x = Iof L x.
Proof. induction 1 as [|e t He Ht IH]; [reflexivity|]. cbn [filter]. rewrite He. destruct e as [[s l] r]. cbn [Iof]. unfold bump. rewrite IH. reflexivity. Qed.
Lemma Iof_filter_none P L x : Forall (fun i => P i = false) L -> Iof (filter P L) x = 0.
Proof. induction 1 as [|e t He Ht IH]; [reflexivity|]. cbn [filter]. rewrite He. exact IH. Qed.

Definition rec_ins (j : nat) (rc : srec) : list (nat * nat * nat) := ins_of_cigar j (s_pos rc) (s_cigar rc).
Lemma block_ins_row (block : list srec) : forall k j x d, k <= j < k + length block ->
  Iof (filter (fun i : nat * nat * nat => snd i =? j) (concat (mapi_from rec_ins k block))) x = Iof (rec_ins j (nth (j - k) block d)) x.
Proof.
  induction block as [|rc t IH]; intros k j x d Hj; [cbn in Hj; lia|]. cbn [mapi_from concat]. rewrite filter_app, Iof_app.
  pose proof (ins_of_cigar_row k (s_cigar rc) (s_pos rc)) as Hrow. destruct (Nat.eq_dec j k) as [->|Hn].
  - rewrite Nat.sub_diag. cbn [nth]. rewrite Iof_filter_all.
    + assert (Z : Iof (filter (fun i : nat * nat * nat => snd i =? k) (concat (mapi_from rec_ins (S k) t))) x = 0).
      { apply Iof_filter_none. apply Forall_forall. intros e He. apply in_concat in He. destruct He as (l & Hl & He).
        assert (Hk : forall t' k', In l (mapi_from rec_ins k' t') -> exists k'', k' <= k'' /\ exists rc', l = rec_ins k'' rc').
        { clear. induction t' as [|a t' IHt]; intros k' H; [contradiction|]. cbn [mapi_from] in H. destruct H as [<-|H].
          - exists k'. split; [lia|eauto].
          - destruct (IHt (S k') H) as (k'' & Hk & Hx). exists k''. split; [lia|exact Hx]. }
        destruct (Hk _ _ Hl) as (k'' & Hk'' & rc' & ->). pose proof (ins_of_cigar_row k'' (s_cigar rc') (s_pos rc')) as Hr.
        rewrite Forall_forall in Hr. unfold rec_ins in He. rewrite (Hr e He). apply Nat.eqb_neq. lia. }
      rewrite Z. unfold rec_ins. lia.
    + eapply Forall_impl; [|exact Hrow]. cbn. intros e ->. apply Nat.eqb_refl.
  - rewrite Iof_filter_none.
    + replace (j - k) with (S (j - S k)) by lia. cbn [nth]. cbn [Nat.add]. apply IH. cbn [length] in Hj. lia.
    + eapply Forall_impl; [|exact Hrow]. cbn. intros e ->. apply Nat.eqb_neq. lia.
Qed.

(* ---------- flattening rows that are '*'-padded prefixes of one row ---------- *)
Lemma nfs_same site x : In x site -> (forall y, In y site -> y = x \/ y = 42%N) -> (42 <= x)%N -> nuc_from_site site = x.
Proof.
  intros Hx Hall Hge. assert (Hne : site <> []) by (intros ->; contradiction).
  destruct (flatten_max site) as [Hin Hmax]; [|exact Hne|].
  - intros a b Ha Hb La Lb. destruct (Hall a Ha) as [-> | ->]; [|discriminate]. destruct (Hall b Hb) as [-> | ->]; [reflexivity|discriminate].
  - destruct (Hall _ Hin) as [E|E]; [exact E|]. specialize (Hmax x Hx). rewrite E in *. apply N.le_antisymm; assumption.
Qed.
Lemma flatten_prefix_rows (rows : list (list N)) (Rmax : list N) :
  Forall (fun r => exists k, k <= length Rmax /\ r = firstn k Rmax ++ repeat 42%N (length Rmax - k)) rows ->
  In Rmax rows -> Forall (fun c => (42 <= c)%N) Rmax -> flatten_block rows = Rmax.
Proof.
  intros Hrows Hin Hge. set (mx := length Rmax).
  assert (Hlen : Forall (fun r => length r = mx) rows).
  { eapply Forall_impl; [|exact Hrows]. cbn. intros r (k & Hk & ->). rewrite app_length, firstn_length, repeat_length. unfold mx. lia. }
  unfold flatten_block. destruct rows as [|r0 rest] eqn:Er; [contradiction|]. rewrite <- Er in *.
  assert (Hr0 : length r0 = mx) by (rewrite Forall_forall in Hlen; apply Hlen; rewrite Er; left; reflexivity).
  rewrite Hr0. apply (nth_ext _ _ 0%N 0%N); [rewrite map_length, transpose_length; reflexivity|].
  intros i Hi. rewrite map_length, transpose_length in Hi.
  rewrite (nth_indep _ 0%N (nuc_from_site [])) by (rewrite map_length, transpose_length; exact Hi).
  rewrite map_nth, transpose_nth by assumption.
  apply nfs_same.
  - apply in_map_iff. exists Rmax. split; [reflexivity|exact Hin].
  - intros y Hy. apply in_map_iff in Hy. destruct Hy as (r & <- & Hr). rewrite Forall_forall in Hrows.
    destruct (Hrows r Hr) as (k & Hk & ->). destruct (Nat.lt_ge_cases i k) as [Hlt|Hge'].
    + left. rewrite app_nth1 by (rewrite firstn_length; lia). rewrite <- (firstn_skipn k Rmax) at 2.
      rewrite app_nth1 by (rewrite firstn_length; lia). reflexivity.
    + right. rewrite app_nth2 by (rewrite firstn_length; lia). rewrite firstn_length, Nat.min_l by exact Hk.
      rewrite (nth_indep _ 0%N 42%N) by (rewrite repeat_length; unfold mx in Hi; lia). apply nth_repeat.
  - rewrite Forall_forall in Hge. apply Hge. apply nth_In. exact Hi.
Qed.

Lemma fold_max_nat_ge l : forall a, a <= fold_left Nat.max l a /\ (forall x, In x l -> x <= fold_left Nat.max l a).
Proof.
  induction l as [|y t IH]; intros a; cbn [fold_left]; [split; [lia|intros x []]|].
  destruct (IH (Nat.max a y)) as [H1 H2]. split; [lia|]. intros x [<-|Hx]; [lia|apply H2, Hx].
Qed.
Lemma fold_max_nat_in l : forall a, fold_left Nat.max l a = a \/ In (fold_left Nat.max l a) l.
Proof.
  induction l as [|y t IH]; intros a; cbn [fold_left]; [left; reflexivity|].
  destruct (IH (Nat.max a y)) as [H|H]; [|right; right; exact H]. rewrite H.
  destruct (Nat.max_spec a y) as [[_ E]|[_ E]]; rewrite E; [right; left; reflexivity|left; reflexivity].
Qed.

Lemma grow_length_mono ref I a b : length (grow ref I a) <= length (grow ref I b) -> a <= b.
Proof.
  intros H. destruct (Nat.le_gt_cases a b) as [|Hgt]; [assumption|]. exfalso.
  replace a with (b + (a - b)) in H by lia. rewrite grow_app, app_length in H.
  pose proof (flat_segs_length_ge (gsegs ref I b (a - b))) as G. rewrite gsegs_length in G. lia.
Qed.
Lemma zero_tail ref I : forall m r, (forall x, r < x <= r + m -> I x = 0) -> r + m <= length ref ->
  flat_segs (gsegs ref I r m) = firstn m (skipn r ref).
Proof.
  induction m as [|m IH]; intros r Hz Hl; [reflexivity|]. rewrite gsegs_S, flat_segs_cons. rewrite (Hz (r + 1)) by lia. cbn [repeat app].
  rewrite (skipn_nth_cons ref r 0%N) by lia. cbn [firstn]. f_equal. apply IH; [intros x Hx; apply Hz; lia|lia].
Qed.
Lemma grow_zero ref : grow ref (fun _ => 0) (length ref) = ref.
Proof.
  unfold grow, flat. cbn [repeat app]. rewrite zero_tail by (try lia; reflexivity). cbn [skipn]. apply firstn_all.
Qed.
Lemma flat_length g0 segs : length (flat g0 segs) = g0 + length (flat_segs segs).
Proof. unfold flat. rewrite app_length, repeat_length. reflexivity. Qed.
Lemma grow_bump_length ref I E s l : s <= E -> length (grow ref (bump I s l) E) = length (grow ref I E) + l.
Proof.
  intros Hs. rewrite <- grow_bump. unfold grow. destruct s as [|s']; cbn [add_gap fst snd].
  - rewrite !flat_length. lia.
  - rewrite gsegs_length. destruct (Nat.leb_spec (S s') E); [|lia]. cbn [fst snd].
    rewrite (gsegs_split ref I E s') by lia.
    destruct (@split3 seg (gsegs ref I 0 s') (nth s' ref 0%N, I (S s')) (gsegs ref I (S s') (E - S s')) (0%N, 0)) as (H1 & H2 & H3).
    rewrite gsegs_length in H1, H2, H3.
    transitivity (length (flat (I 0) (gsegs ref I 0 s' ++ (nth s' ref 0%N, l + I (S s')) :: gsegs ref I (S s') (E - S s')))).
    + f_equal. f_equal. exact (add_mid s' (gsegs ref I 0 s') (nth s' ref 0%N, I (S s')) (gsegs ref I (S s') (E - S s')) (0%N, 0)
                                 (fun y : seg => (fst y, l + snd y)) (gsegs_length _ _ _ _)).
    + rewrite !flat_length, !flat_segs_app, !flat_segs_cons. cbn [length]. rewrite !app_length. cbn [length]. rewrite !app_length, !repeat_length. lia.
Qed.
Lemma grow_full_length ref L : (forall e, In e L -> fst (fst e) <= length ref) ->
  length (grow ref (Iof L) (length ref)) = length ref + tot L.
Proof.
  induction L as [|[[s l] r] t IH]; intros H.
  - cbn [Iof]. rewrite grow_zero. unfold tot. cbn. lia.
  - cbn [Iof]. rewrite grow_bump_length by (apply (H (s, l, r)); left; reflexivity).
    rewrite IH by (intros e He; apply H; right; exact He). rewrite tot_cons. cbn [fst snd]. lia.
Qed.

(* ---------- the theorem ---------- *)
Lemma map_eq_nth {A B C} (f : A -> C) (g : B -> C) : forall (l : list A) (l' : list B) d d', map f l = map g l' ->
  length l = length l' /\ forall j, j < length l -> f (nth j l d) = g (nth j l' d').
Proof.
  induction l as [|a t IH]; intros [|b t'] d d' H; try discriminate; [split; [reflexivity|intros j Hj; cbn in Hj; lia]|].
  cbn [map] in H. injection H as H0 H. destruct (IH t' d d' H) as [Hl Hn]. split; [cbn; lia|].
  intros [|j] Hj; [exact H0|]. cbn [nth]. apply Hn. cbn in Hj. lia.
Qed.
Lemma block_ins_In block : forall k e, In e (concat (mapi_from rec_ins k block)) ->
  exists j rc, k <= j < k + length block /\ nth_error block (j - k) = Some rc /\ In e (rec_ins j rc).
Proof.
  induction block as [|rc t IH]; intros k e H; [contradiction|]. cbn [mapi_from concat] in H. apply in_app_iff in H. destruct H as [H|H].
  - exists k, rc. rewrite Nat.sub_diag. cbn [length nth_error]. split; [lia|split; [reflexivity|exact H]].
  - destruct (IH (S k) e H) as (j & rc' & Hj & Hn & He). exists j, rc'. cbn [length]. split; [lia|]. split; [|exact He].
    replace (j - k) with (S (j - S k)) by lia. exact Hn.
Qed.

(* ---------- the query row seen through the reference row: drop the columns where the reference row has '-' ---------- *)
Definition proj (R Q : list N) : list N := map snd (filter (fun rq : N * N => negb (fst rq =? 45)%N) (combine R Q)).
Lemma combine_app {A B} (a1 a2 : list A) (b1 b2 : list B) : length a1 = length b1 ->
  combine (a1 ++ a2) (b1 ++ b2) = combine a1 b1 ++ combine a2 b2.
Proof.
  revert b1. induction a1 as [|x t IH]; intros [|y u] H; try discriminate; [reflexivity|]. cbn [app combine]. f_equal. apply IH. cbn in H. lia.
Qed.
Lemma proj_app R1 R2 Q1 Q2 : length R1 = length Q1 -> proj (R1 ++ R2) (Q1 ++ Q2) = proj R1 Q1 ++ proj R2 Q2.
Proof. intros H. unfold proj. rewrite combine_app by exact H. rewrite filter_app, map_app. reflexivity. Qed.
Lemma proj_gaps l X : proj (repeat 45%N l) X = [].
Proof. unfold proj. revert X. induction l as [|l IH]; intros [|x X]; cbn; try reflexivity. apply IH. Qed.
Lemma proj_nogap R : forall Q, ~ In 45%N R -> length Q = length R -> proj R Q = Q.
Proof.
  induction R as [|c t IH]; intros [|x Q] Hn Hl; try discriminate; [reflexivity|]. unfold proj in *. cbn [combine filter fst].
  destruct (N.eqb_spec c 45) as [->|]; [exfalso; apply Hn; left; reflexivity|]. cbn [negb map snd]. f_equal.
  apply IH; [intros Hin; apply Hn; right; exact Hin|cbn in Hl; lia].
Qed.
Lemma proj_length R : forall Q, length Q = length R -> length (proj R Q) = length (degap R).
Proof.
  induction R as [|c t IH]; intros [|x Q] Hl; try discriminate; [reflexivity|]. unfold proj, degap in *. cbn [combine filter fst].
  destruct (negb (c =? 45)%N); cbn [map length]; rewrite IH by (cbn in Hl; lia); reflexivity.
Qed.
Lemma proj_map f R : forall Q, proj R (map f Q) = map f (proj R Q).
Proof.
  induction R as [|c t IH]; intros [|x Q]; try reflexivity. unfold proj in *. cbn [map combine filter fst].
  destruct (negb (c =? 45)%N); cbn [map snd]; rewrite IH; reflexivity.
Qed.
Lemma regap_row_proj s l r q : length q = length r ->
  proj (fst (regap_row s l (r, q))) (snd (regap_row s l (r, q))) = proj r q /\
  length (snd (regap_row s l (r, q))) = length (fst (regap_row s l (r, q))).
Proof.
  intros Hl. unfold regap_row. destruct (find_col r s 0 0) as [col refb]. destruct (refb <? s); cbn [fst snd]; [split; [reflexivity|exact Hl]|].
  split.
  - rewrite proj_app by (rewrite !firstn_length; lia). rewrite proj_app by (rewrite !repeat_length; reflexivity). rewrite proj_gaps. cbn [app].
    rewrite <- proj_app by (rewrite !firstn_length; lia). rewrite !firstn_skipn. reflexivity.
  - rewrite !app_length, !repeat_length, !firstn_length, !skipn_length. lia.
Qed.
Lemma regap_proj INS : forall rows,
  (forall j, length (snd (nth j rows dpair)) = length (fst (nth j rows dpair))) ->
  forall j, proj (fst (nth j (regap rows INS) dpair)) (snd (nth j (regap rows INS) dpair)) = proj (fst (nth j rows dpair)) (snd (nth j rows dpair)).
Proof.
  induction INS as [|[[s l] row] t IH]; intros rows Hl j; [reflexivity|]. unfold regap. cbn [fold_left].
  set (rows' := mapi_from (fun (j0 : nat) (rq : list N * list N) => if j0 =? row then rq else regap_row s l rq) 0 rows).
  change (proj (fst (nth j (regap rows' t) dpair)) (snd (nth j (regap rows' t) dpair)) = proj (fst (nth j rows dpair)) (snd (nth j rows dpair))).
  assert (Hnth : forall k, nth k rows' dpair = if k <? length rows then (if k =? row then nth k rows dpair else regap_row s l (nth k rows dpair)) else dpair).
  { intros k. destruct (Nat.ltb_spec k (length rows)).
    - unfold rows'. rewrite (mapi_from_nth _ rows 0 k dpair dpair) by lia. reflexivity.
    - apply nth_overflow. unfold rows'. rewrite mapi_from_length. lia. }
  assert (Hl' : forall k, length (snd (nth k rows' dpair)) = length (fst (nth k rows' dpair))).
  { intros k. rewrite Hnth. destruct (k <? length rows); [|reflexivity]. destruct (k =? row); [apply Hl|].
    destruct (nth k rows dpair) as [r q] eqn:E. pose proof (Hl k) as Hk. rewrite E in Hk. cbn [fst snd] in Hk. apply (regap_row_proj s l r q Hk). }
  rewrite (IH rows' Hl' j). rewrite Hnth. destruct (Nat.ltb_spec j (length rows)); [|rewrite (nth_overflow rows) by lia; reflexivity].
  destruct (j =? row); [reflexivity|]. destruct (nth j rows dpair) as [r q] eqn:E. pose proof (Hl j) as Hk. rewrite E in Hk. cbn [fst snd] in Hk.
  apply (regap_row_proj s l r q Hk).
Qed.

Lemma pairk_struct ref rc0 rest R Q : ~ In 45%N ref -> Forall (fun c => (42 <= c)%N) ref ->
  block_to_seq_pair ref (rc0 :: rest) = Some (R, Q) ->
  exists pairs rows js mx,
    map (fun rc => one_line_plus_ref true rc ref) (rc0 :: rest) = map Some pairs /\
    length rows = length (rc0 :: rest) /\
    (forall j, j < length (rc0 :: rest) ->
       fst (nth j rows dpair) = grow ref (Iof (block_insertions (rc0 :: rest))) (rec_E (nth j (rc0 :: rest) rc0)) /\
       length (snd (nth j rows dpair)) = length (fst (nth j rows dpair)) /\
       proj (fst (nth j rows dpair)) (snd (nth j rows dpair)) = proj (snd (nth j pairs dpair)) (fst (nth j pairs dpair)) /\
       rec_E (nth j (rc0 :: rest) rc0) <= rec_E (nth js (rc0 :: rest) rc0)) /\
    js < length (rc0 :: rest) /\ rec_E (nth js (rc0 :: rest) rc0) <= length ref /\
    R = grow ref (Iof (block_insertions (rc0 :: rest))) (rec_E (nth js (rc0 :: rest) rc0)) ++ skipn (rec_E (nth js (rc0 :: rest) rc0)) ref /\
    mx = length (grow ref (Iof (block_insertions (rc0 :: rest))) (rec_E (nth js (rc0 :: rest) rc0))) /\
    Q = swap_pad (flatten_block (map (fun rq : list N * list N => pad_to mx (snd rq)) rows)
                  ++ repeat 42%N (length ref - rec_E (nth js (rc0 :: rest) rc0))) /\
    (forall e, In e (block_insertions (rc0 :: rest)) -> fst (fst e) <= rec_E (nth js (rc0 :: rest) rc0)) /\
    length (flatten_block (map (fun rq : list N * list N => pad_to mx (snd rq)) rows)) = mx /\
    rows = regap (map (fun p : list N * list N => (snd p, fst p)) pairs) (sort_insertions (block_insertions (rc0 :: rest))).
Proof.
  intros Hng Hge H. unfold block_to_seq_pair in H. remember (rc0 :: rest) as block eqn:Eb.
  destruct (all_some (map (fun rc => one_line_plus_ref true rc ref) block)) as [pairs|] eqn:Ea; [|discriminate].
  apply all_some_spec in Ea.
  set (n := length block). set (BI := block_insertions block) in *. set (Itot := Iof BI).
  destruct (map_eq_nth (fun rc => one_line_plus_ref true rc ref) (@Some (list N * list N)) block pairs rc0 dpair Ea) as [Hpl Hrec].
  fold n in Hpl, Hrec.
  set (E := fun j => rec_E (nth j block rc0)). set (F0 := fun j => Iof (rec_ins j (nth j block rc0))).
  assert (HE : forall j, j < n -> E j <= length ref).
  { intros j Hj. specialize (Hrec j Hj). destruct (nth j pairs dpair) as [qr rr]. apply (one_line_grow j _ _ _ _ Hng Hrec). }
  (* the rows before re-gapping *)
  assert (H0 : RowsInv ref E n (map (fun p : list N * list N => (snd p, fst p)) pairs) F0).
  { split; [rewrite map_length; lia|]. intros j Hj. change dpair with ((fun p : list N * list N => (snd p, fst p)) dpair). rewrite map_nth.
    specialize (Hrec j Hj). destruct (nth j pairs dpair) as [qr rr]. cbn [fst snd].
    destruct (one_line_grow j _ _ _ _ Hng Hrec) as (G1 & _ & G3). split; [exact G1|exact G3]. }
  pose proof (regap_inv ref E n Hng HE (sort_insertions BI) _ _ H0) as [Hrl Hrows].
  set (rows := regap (map (fun p : list N * list N => (snd p, fst p)) pairs) (sort_insertions BI)) in *.
  (* every row is the canonical gapped reference up to its own extent *)
  assert (Hrow : forall j, j < n -> fst (nth j rows dpair) = grow ref Itot (E j) /\ length (snd (nth j rows dpair)) = length (fst (nth j rows dpair))).
  { intros j Hj. destruct (Hrows j Hj) as [G1 G2]. split; [|exact G2]. rewrite G1. apply grow_ext. intros x _.
    rewrite foldF_spec, Iof_sort. unfold F0, Itot, BI, block_insertions.
    change (fun (i : nat) (rc : srec) => ins_of_cigar i (s_pos rc) (s_cigar rc)) with rec_ins.
    rewrite (Iof_filter_split (fun i => snd i =? j) (concat (mapi_from rec_ins 0 block)) x).
    rewrite (block_ins_row block 0 j x rc0) by (fold n; lia). rewrite Nat.sub_0_r. reflexivity. }
  (* the longest row *)
  set (lens := map (fun rq : list N * list N => length (fst rq)) rows) in *.
  set (mx := fold_left Nat.max lens 0) in *.
  assert (Hmax : exists js, js < n /\ length (fst (nth js rows dpair)) = mx /\ forall j, j < n -> length (fst (nth j rows dpair)) <= mx).
  { assert (Hall : forall j, j < n -> length (fst (nth j rows dpair)) <= mx).
    { intros j Hj. apply (proj2 (fold_max_nat_ge lens 0)). unfold lens.
      change (length (fst (nth j rows dpair))) with ((fun rq : list N * list N => length (fst rq)) (nth j rows dpair)).
      apply in_map, nth_In. lia. }
    destruct (fold_max_nat_in lens 0) as [Hz|Hin].
    - exists 0. assert (0 < n) by (unfold n; rewrite Eb; cbn; lia). split; [lia|]. split; [|exact Hall]. specialize (Hall 0 ltac:(lia)). fold mx in Hz. lia.
    - fold mx in Hin. unfold lens in Hin. apply in_map_iff in Hin. destruct Hin as (rq & Hlen & Hin). apply (In_nth _ _ dpair) in Hin.
      destruct Hin as (js & Hjs & <-). exists js. split; [lia|]. split; [exact Hlen|exact Hall]. }
  destruct Hmax as (js & Hjs & Hjsl & Hall).
  set (Rmax := grow ref Itot (E js)).
  assert (HRmax : fst (nth js rows dpair) = Rmax) by (apply Hrow; exact Hjs).
  assert (HEjs : forall j, j < n -> E j <= E js).
  { intros j Hj. apply (grow_length_mono ref Itot). rewrite <- (proj1 (Hrow j Hj)), <- (proj1 (Hrow js Hjs)). rewrite Hjsl. apply Hall, Hj. }
  assert (Hmx : length Rmax = mx) by (rewrite <- HRmax; exact Hjsl).
  (* the reference row of the block *)
  assert (HR : flatten_block (map (fun rq : list N * list N => pad_to mx (fst rq)) rows) = Rmax).
  { apply flatten_prefix_rows.
    - apply Forall_forall. intros r Hr. apply in_map_iff in Hr. destruct Hr as (rq & <- & Hin). apply (In_nth _ _ dpair) in Hin.
      destruct Hin as (j & Hj & <-). rewrite Hrl in Hj. exists (length (grow ref Itot (E j))). rewrite (proj1 (Hrow j Hj)).
      assert (Hle : length (grow ref Itot (E j)) <= length Rmax).
      { rewrite Hmx, <- (proj1 (Hrow j Hj)). apply Hall, Hj. }
      split; [exact Hle|]. unfold pad_to. rewrite Hmx. f_equal. unfold Rmax. replace (E js) with (E j + (E js - E j)) by (specialize (HEjs j Hj); lia).
      rewrite grow_app, firstn_app, firstn_all, Nat.sub_diag. cbn [firstn]. rewrite app_nil_r. reflexivity.
    - apply in_map_iff. exists (nth js rows dpair). split; [|apply nth_In; lia]. rewrite HRmax. unfold pad_to. rewrite Hmx, Nat.sub_diag. cbn [repeat]. apply app_nil_r.
    - unfold Rmax, grow, flat. apply Forall_app. split; [apply Forall_forall; intros c Hc; apply repeat_spec in Hc; subst; discriminate|].
      unfold flat_segs. apply Forall_concat. apply Forall_forall. intros l Hl. apply in_map_iff in Hl. destruct Hl as ([c g] & <- & Hs).
      cbn [fst snd]. constructor; [|apply Forall_forall; intros c' Hc'; apply repeat_spec in Hc'; subst; discriminate].
      unfold gsegs in Hs. apply in_map_iff in Hs. destruct Hs as (k & Ek & Hk). injection Ek as <- _. apply in_seq in Hk.
      rewrite Forall_forall in Hge. apply Hge, nth_In. specialize (HE js Hjs). lia. }
  rewrite HR in H. rewrite fold_add_shift in H. cbn [Nat.add] in H. rewrite tot_sort in H.
  (* the length of the query row *)
  set (Qf := flatten_block (map (fun rq : list N * list N => pad_to mx (snd rq)) rows)) in *.
  assert (HQ : length Qf = mx).
  { unfold Qf, flatten_block. destruct rows as [|rq0 rt] eqn:Er; [cbn in Hrl; unfold n in Hrl; rewrite Eb in Hrl; discriminate|].
    cbn [map]. rewrite map_length, transpose_length. unfold pad_to. rewrite app_length, repeat_length.
    assert (L0 : length (snd rq0) <= mx).
    { pose proof (Hrow 0 ltac:(unfold n; rewrite Eb; cbn; lia)) as [_ G2]. pose proof (Hall 0 ltac:(unfold n; rewrite Eb; cbn; lia)) as G3.
      cbn [nth] in G2, G3. lia. }
    lia. }
  (* the full gapped reference and the right-extension *)
  assert (Hstarts : forall e, In e BI -> fst (fst e) <= E js).
  { intros e He. unfold BI, block_insertions in He. change (fun (i : nat) (rc : srec) => ins_of_cigar i (s_pos rc) (s_cigar rc)) with rec_ins in He.
    destruct (block_ins_In block 0 e He) as (j & rc & Hj & Hn & Hin). rewrite Nat.sub_0_r in Hn. fold n in Hj.
    apply ins_of_cigar_range in Hin. specialize (HEjs j ltac:(lia)). unfold E in HEjs at 1. rewrite (nth_error_nth _ _ rc0 Hn) in HEjs.
    unfold rec_E in HEjs. lia. }
  assert (HEjsr : E js <= length ref) by (apply HE, Hjs).
  assert (Hfull : grow ref Itot (length ref) = Rmax ++ skipn (E js) ref).
  { replace (length ref) with (E js + (length ref - E js)) at 1 by lia. rewrite grow_app. fold Rmax. f_equal.
    rewrite zero_tail; [|intros x Hx; apply Iof_zero; intros e He; specialize (Hstarts e He); lia|lia].
    rewrite <- (skipn_length (E js) ref). apply firstn_all. }
  assert (Hflen : length (grow ref Itot (length ref)) = length ref + tot BI).
  { apply grow_full_length. intros e He. specialize (Hstarts e He). lia. }
  rewrite Hfull, app_length, skipn_length, Hmx in Hflen.
  assert (Hproj : forall j, j < n -> proj (fst (nth j rows dpair)) (snd (nth j rows dpair)) = proj (snd (nth j pairs dpair)) (fst (nth j pairs dpair))).
  { intros j Hj. unfold rows. rewrite regap_proj.
    - change dpair with ((fun p : list N * list N => (snd p, fst p)) dpair) at 1 2. rewrite map_nth. reflexivity.
    - intros k. destruct (Nat.lt_ge_cases k n) as [Hk|Hk]; [apply (proj2 H0 k Hk)|].
      rewrite nth_overflow by (rewrite map_length; lia). reflexivity. }
  exists pairs, rows, js, mx. split; [exact Ea|]. split; [exact Hrl|]. split.
  { intros j Hj. destruct (Hrow j Hj) as [G1 G2]. split; [exact G1|]. split; [exact G2|]. split; [apply Hproj, Hj|apply HEjs, Hj]. }
  split; [exact Hjs|]. split; [exact HEjsr|].
  rewrite Hmx in H. destruct (Nat.ltb_spec mx (tot BI + length ref)) as [Hlt|Hge'].
  - destruct (Nat.ltb_spec (length ref) (tot BI + length ref - mx)); [discriminate|]. injection H as <- <-.
    replace (length ref - (tot BI + length ref - mx)) with (E js) by lia. replace (tot BI + length ref - mx) with (length ref - E js) by lia.
    split; [reflexivity|]. split; [symmetry; exact Hmx|]. split; [reflexivity|]. split; [exact Hstarts|]. split; [exact HQ|reflexivity].
  - injection H as <- <-. assert (HEq : E js = length ref) by lia. change (rec_E (nth js block rc0)) with (E js).
    split; [fold Rmax; rewrite HEq, skipn_all, app_nil_r; reflexivity|].
    split; [symmetry; exact Hmx|].
    split; [rewrite HEq, Nat.sub_diag; cbn [repeat]; rewrite app_nil_r; reflexivity|].
    split; [exact Hstarts|]. split; [exact HQ|reflexivity].
Qed.

Theorem pairk_ref_row ref block R Q : block <> [] -> ~ In 45%N ref -> Forall (fun c => (42 <= c)%N) ref ->
  block_to_seq_pair ref block = Some (R, Q) ->
  R = grow ref (Iof (block_insertions block)) (length ref) /\ length Q = length R.
Proof.
  intros Hne Hng Hge H. destruct block as [|rc0 rest]; [contradiction|].
  destruct (pairk_struct ref rc0 rest R Q Hng Hge H) as (pairs & rows & js & mx & _ & _ & _ & Hjs & HEr & -> & Hmx & -> & Hst & HQl & _).
  set (Ej := rec_E (nth js (rc0 :: rest) rc0)) in *. set (Itot := Iof (block_insertions (rc0 :: rest))) in *. split.
  - replace (length ref) with (Ej + (length ref - Ej)) at 1 by lia. rewrite grow_app. f_equal.
    rewrite zero_tail; [|intros x Hx; apply Iof_zero; intros e He; specialize (Hst e He); lia|lia].
    rewrite <- (skipn_length Ej ref). symmetry. apply firstn_all.
  - unfold swap_pad. rewrite map_length, !app_length, repeat_length, skipn_length, HQl, Hmx. reflexivity.
Qed.

(* what the canonical row says in the statement's words *)
Lemma degap_flat g0 segs : wf_segs segs -> degap (flat g0 segs) = map fst segs.
Proof.
  intros H. unfold flat. rewrite degap_app, degap_repeat. cbn [app]. induction H as [|[c g] t Hc Ht IH]; [reflexivity|].
  rewrite flat_segs_cons. change (c :: repeat 45%N g ++ flat_segs t) with ([c] ++ repeat 45%N g ++ flat_segs t).
  rewrite !degap_app, degap_repeat, IH. cbn [fst] in Hc. unfold degap. cbn [filter]. destruct (N.eqb_spec c 45); [contradiction|]. reflexivity.
Qed.
Lemma map_nth_seq (ref : list N) : forall E r, r + E <= length ref -> map (fun k => nth (r + k) ref 0%N) (seq 0 E) = firstn E (skipn r ref).
Proof.
  induction E as [|E IH]; intros r H; [reflexivity|]. cbn [seq map]. rewrite Nat.add_0_r, (skipn_nth_cons ref r 0%N) by lia. cbn [firstn]. f_equal.
  rewrite <- seq_shift, map_map. rewrite <- (IH (S r)) by lia. apply map_ext. intros k. f_equal. lia.
Qed.
Theorem degap_grow ref I E : ~ In 45%N ref -> E <= length ref -> degap (grow ref I E) = firstn E ref.
Proof.
  intros Hng HE. unfold grow. rewrite degap_flat by (apply gsegs_wf; [exact Hng|lia]). unfold gsegs. rewrite map_map. cbn [fst].
  apply (map_nth_seq ref E 0). lia.
Qed.

(* multi-record queries: the reference row degaps to the reference, has exactly the block's inserted columns, and the
   query row is as long *)
Theorem pairk_degap_ref ref block R Q : block <> [] -> ~ In 45%N ref -> Forall (fun c => (42 <= c)%N) ref ->
  block_to_seq_pair ref block = Some (R, Q) ->
  degap R = ref /\ length R = length ref + tot (block_insertions block) /\ length Q = length R.
Proof.
  intros Hne Hng Hge H. destruct (pairk_ref_row ref block R Q Hne Hng Hge H) as [-> HQ]. split; [|split; [|exact HQ]].
  - rewrite degap_grow by (assumption || lia). apply firstn_all.
  - (* every insertion of the block starts within the reference: its record's walk succeeded *)
    apply grow_full_length. intros e He. unfold block_to_seq_pair in H.
    destruct (all_some (map (fun rc => one_line_plus_ref true rc ref) block)) as [pairs|] eqn:Ea; [|discriminate]. apply all_some_spec in Ea.
    unfold block_insertions in He. change (fun (i : nat) (rc : srec) => ins_of_cigar i (s_pos rc) (s_cigar rc)) with rec_ins in He.
    destruct (block_ins_In block 0 e He) as (j & rc & Hj & Hn & Hin). rewrite Nat.sub_0_r in Hn.
    destruct (map_eq_nth (fun rc => one_line_plus_ref true rc ref) (@Some (list N * list N)) block pairs rc dpair Ea) as [_ Hrec].
    specialize (Hrec j ltac:(lia)). rewrite (nth_error_nth _ _ rc Hn) in Hrec. destruct (nth j pairs dpair) as [qr rr].
    destruct (one_line_grow j rc ref qr rr Hng Hrec) as (_ & HE & _). apply ins_of_cigar_range in Hin. unfold rec_E in HE. lia.
Qed.

(* ================= --skip-insertions = the toMultiAlign --pad row ================= *)
Lemma map_repeat' {A B} (f : A -> B) a n : map f (repeat a n) = repeat (f a) n.
Proof. induction n as [|n IH]; [reflexivity|]. cbn. rewrite IH. reflexivity. Qed.
Lemma walk2_false_walk ops : forall q r sq ref x y, walk2 false ops q r sq ref = Some (x, y) ->
  exists row, walk ops q sq = Some row /\ x = map cell_byte row.
Proof.
  induction ops as [|[o len] t IH]; intros q r sq ref x y H; cbn [walk2 walk] in *.
  - injection H as <- <-. exists []. split; reflexivity.
  - destruct o.
    + destruct (slice sq q len) as [a|] eqn:Ea; [|discriminate]. destruct (slice ref r len) as [b|]; [|discriminate].
      destruct (walk2 false t (q + len) (r + len) sq ref) as [[x' y']|] eqn:Ew; [|discriminate]. injection H as <- <-.
      destruct (IH _ _ _ _ _ _ Ew) as (row & -> & ->). exists (map Base a ++ row). split; [reflexivity|].
      rewrite map_app, map_map. cbn [cell_byte]. rewrite map_id. reflexivity.
    + apply (IH _ _ _ _ _ _ H).
    + destruct (slice ref r len) as [b|]; [|discriminate].
      destruct (walk2 false t q (r + len) sq ref) as [[x' y']|] eqn:Ew; [|discriminate]. injection H as <- <-.
      destruct (IH _ _ _ _ _ _ Ew) as (row & -> & ->). exists (repeat Gap len ++ row). split; [reflexivity|].
      rewrite map_app, map_repeat'. reflexivity.
    + destruct (slice ref r len) as [b|]; [|discriminate].
      destruct (walk2 false t q (r + len) sq ref) as [[x' y']|] eqn:Ew; [|discriminate]. injection H as <- <-.
      destruct (IH _ _ _ _ _ _ Ew) as (row & -> & ->). exists (repeat Star len ++ row). split; [reflexivity|].
      rewrite map_app, map_repeat'. reflexivity.
    + apply (IH _ _ _ _ _ _ H).
    + apply (IH _ _ _ _ _ _ H).
    + apply (IH _ _ _ _ _ _ H).
    + destruct (slice sq q len) as [a|] eqn:Ea; [|discriminate]. destruct (slice ref r len) as [b|]; [|discriminate].
      destruct (walk2 false t (q + len) (r + len) sq ref) as [[x' y']|] eqn:Ew; [|discriminate]. injection H as <- <-.
      destruct (IH _ _ _ _ _ _ Ew) as (row & -> & ->). exists (map Base a ++ row). split; [reflexivity|].
      rewrite map_app, map_map. cbn [cell_byte]. rewrite map_id. reflexivity.
    + destruct (slice sq q len) as [a|] eqn:Ea; [|discriminate]. destruct (slice ref r len) as [b|]; [|discriminate].
      destruct (walk2 false t (q + len) (r + len) sq ref) as [[x' y']|] eqn:Ew; [|discriminate]. injection H as <- <-.
      destruct (IH _ _ _ _ _ _ Ew) as (row & -> & ->). exists (map Base a ++ row). split; [reflexivity|].
      rewrite map_app, map_map. cbn [cell_byte]. rewrite map_id. reflexivity.
Qed.
Lemma one_line_false_toma rc ref qrow rrow : one_line_plus_ref false rc ref = Some (qrow, rrow) ->
  exists row, one_line (s_pos rc) (s_cigar rc) (s_seq rc) (length ref) = Some row /\ qrow = map cell_byte row.
Proof.
  unfold one_line_plus_ref, one_line. intros H. destruct (Nat.ltb (length ref) (s_pos rc)); [discriminate|].
  destruct (walk2 false (s_cigar rc) 0 (s_pos rc) (s_seq rc) ref) as [[x y]|] eqn:Ew; [|discriminate].
  destruct (walk2_false_walk _ _ _ _ _ _ _ Ew) as (row & -> & ->).
  assert (EL : length (repeat 42%N (s_pos rc) ++ map cell_byte row) = length (repeat Star (s_pos rc) ++ row))
    by (rewrite !app_length, !repeat_length, map_length; reflexivity).
  rewrite EL in H. destruct (length (repeat Star (s_pos rc) ++ row) <=? length ref); [|discriminate]. injection H as <- _.
  eexists. split; [reflexivity|]. rewrite !map_app, !map_repeat'. reflexivity.
Qed.

Theorem skip_ins_eq_toma_pad ref block R Q : block <> [] -> block_skip_ins ref block = Some (R, Q) ->
  R = ref /\ exists raw, seq_from_block (length ref) block = Some raw /\ Q = fasta_seq true false 0 0 raw.
Proof.
  intros Hne H. unfold block_skip_ins in H.
  destruct (all_some (map (fun rc => one_line_plus_ref false rc ref) block)) as [pairs|] eqn:Ea; [|discriminate]. injection H as <- <-.
  split; [reflexivity|]. apply all_some_spec in Ea.
  assert (Hrows : exists rows, map (fun r => one_line (s_pos r) (s_cigar r) (s_seq r) (length ref)) block = map Some rows /\
                               map fst pairs = map (map cell_byte) rows).
  { clear Hne. revert pairs Ea. induction block as [|rc t IH]; intros [|[qr rr] pt] Ea; try discriminate; [exists []; split; reflexivity|].
    cbn [map] in Ea. injection Ea as E1 E2. destruct (IH pt E2) as (rows & H1 & H2).
    destruct (one_line_false_toma rc ref qr rr E1) as (row & Hr & ->). exists (row :: rows). cbn [map fst]. rewrite Hr, H1, H2. split; reflexivity. }
  destruct Hrows as (rows & H1 & H2). unfold seq_from_block.
  assert (Eas : all_some (map (fun r => one_line (s_pos r) (s_cigar r) (s_seq r) (length ref)) block) = Some rows).
  { rewrite H1. clear. induction rows as [|r t IH]; [reflexivity|]. cbn [map all_some]. rewrite IH. reflexivity. }
  rewrite Eas. cbn [option_map]. eexists. split; [reflexivity|]. unfold fasta_seq. f_equal. rewrite H2.
  (* flatten_block and flatten_rows coincide on rows of the reference length *)
  assert (Hlen : Forall (fun r => length r = length ref) (map (map cell_byte) rows)).
  { apply Forall_forall. intros r Hr. apply in_map_iff in Hr. destruct Hr as (row & <- & Hrow). rewrite map_length.
    assert (Hin : In (Some row) (map Some rows)) by (apply in_map; exact Hrow). rewrite <- H1 in Hin. apply in_map_iff in Hin.
    destruct Hin as (rc & Hrc & _). apply (one_line_cell _ _ _ _ _ Hrc). }
  destruct rows as [|r0 [|r1 rt]].
  - destruct block; [contradiction|discriminate].
  - cbn [map flatten_rows]. apply flatten_block_single.
  - unfold flatten_block, flatten_rows. cbn [map]. inversion Hlen as [|? ? Hl0 _]; subst. cbn [map] in Hl0. rewrite Hl0. reflexivity.
Qed.

(* ================= the query row through the reference row = the toMultiAlign --pad row ================= *)
Lemma walk2_proj ops : forall q r sq ref x y, ~ In 45%N ref -> walk2 true ops q r sq ref = Some (x, y) ->
  exists x' y', walk2 false ops q r sq ref = Some (x', y') /\ proj y x = x'.
Proof.
  induction ops as [|[o len] t IH]; intros q r sq ref x y Hng H; cbn [walk2] in *.
  - injection H as <- <-. exists [], []. split; reflexivity.
  - assert (NG : forall b, slice ref r len = Some b -> ~ In 45%N b) by (intros b Hb Hin; apply Hng; eapply slice_sub; eauto).
    destruct o.
    + destruct (slice sq q len) as [a|] eqn:Ea; [|discriminate]. destruct (slice ref r len) as [b|] eqn:Eb; [|discriminate].
      destruct (walk2 true t (q + len) (r + len) sq ref) as [[x1 y1]|] eqn:Ew; [|discriminate]. injection H as <- <-.
      destruct (IH _ _ _ _ _ _ Hng Ew) as (x' & y' & -> & <-). eexists _, _. split; [reflexivity|].
      rewrite proj_app by (rewrite (slice_length _ _ _ _ Ea), (slice_length _ _ _ _ Eb); reflexivity).
      rewrite proj_nogap by (try apply NG; try reflexivity; rewrite (slice_length _ _ _ _ Ea), (slice_length _ _ _ _ Eb); reflexivity). reflexivity.
    + destruct (slice sq q len) as [a|] eqn:Ea; [|discriminate].
      destruct (walk2 true t (q + len) r sq ref) as [[x1 y1]|] eqn:Ew; [|discriminate]. injection H as <- <-.
      destruct (IH _ _ _ _ _ _ Hng Ew) as (x' & y' & -> & <-). eexists _, _. split; [reflexivity|].
      rewrite proj_app by (rewrite repeat_length, (slice_length _ _ _ _ Ea); reflexivity). rewrite proj_gaps. reflexivity.
    + destruct (slice ref r len) as [b|] eqn:Eb; [|discriminate].
      destruct (walk2 true t q (r + len) sq ref) as [[x1 y1]|] eqn:Ew; [|discriminate]. injection H as <- <-.
      destruct (IH _ _ _ _ _ _ Hng Ew) as (x' & y' & -> & <-). eexists _, _. split; [reflexivity|].
      rewrite proj_app by (rewrite repeat_length, (slice_length _ _ _ _ Eb); reflexivity).
      rewrite proj_nogap by (try apply NG; try reflexivity; rewrite repeat_length, (slice_length _ _ _ _ Eb); reflexivity). reflexivity.
    + destruct (slice ref r len) as [b|] eqn:Eb; [|discriminate].
      destruct (walk2 true t q (r + len) sq ref) as [[x1 y1]|] eqn:Ew; [|discriminate]. injection H as <- <-.
      destruct (IH _ _ _ _ _ _ Hng Ew) as (x' & y' & -> & <-). eexists _, _. split; [reflexivity|].
      rewrite proj_app by (rewrite repeat_length, (slice_length _ _ _ _ Eb); reflexivity).
      rewrite proj_nogap by (try apply NG; try reflexivity; rewrite repeat_length, (slice_length _ _ _ _ Eb); reflexivity). reflexivity.
    + apply (IH _ _ _ _ _ _ Hng H).
    + apply (IH _ _ _ _ _ _ Hng H).
    + apply (IH _ _ _ _ _ _ Hng H).
    + destruct (slice sq q len) as [a|] eqn:Ea; [|discriminate]. destruct (slice ref r len) as [b|] eqn:Eb; [|discriminate].
      destruct (walk2 true t (q + len) (r + len) sq ref) as [[x1 y1]|] eqn:Ew; [|discriminate]. injection H as <- <-.
      destruct (IH _ _ _ _ _ _ Hng Ew) as (x' & y' & -> & <-). eexists _, _. split; [reflexivity|].
      rewrite proj_app by (rewrite (slice_length _ _ _ _ Ea), (slice_length _ _ _ _ Eb); reflexivity).
      rewrite proj_nogap by (try apply NG; try reflexivity; rewrite (slice_length _ _ _ _ Ea), (slice_length _ _ _ _ Eb); reflexivity). reflexivity.
    + destruct (slice sq q len) as [a|] eqn:Ea; [|discriminate]. destruct (slice ref r len) as [b|] eqn:Eb; [|discriminate].
      destruct (walk2 true t (q + len) (r + len) sq ref) as [[x1 y1]|] eqn:Ew; [|discriminate]. injection H as <- <-.
      destruct (IH _ _ _ _ _ _ Hng Ew) as (x' & y' & -> & <-). eexists _, _. split; [reflexivity|].
      rewrite proj_app by (rewrite (slice_length _ _ _ _ Ea), (slice_length _ _ _ _ Eb); reflexivity).
      rewrite proj_nogap by (try apply NG; try reflexivity; rewrite (slice_length _ _ _ _ Ea), (slice_length _ _ _ _ Eb); reflexivity). reflexivity.
Qed.

(* one record: the query row through its reference row is the toMultiAlign cell row up to the record's end *)
Lemma one_line_true_proj rc ref qrow rrow : ~ In 45%N ref -> one_line_plus_ref true rc ref = Some (qrow, rrow) ->
  exists row, walk (s_cigar rc) 0 (s_seq rc) = Some row /\
              proj rrow qrow = map cell_byte (repeat Star (s_pos rc) ++ row) /\ s_pos rc + length row = rec_E rc.
Proof.
  intros Hng H. destruct (one_line_plus_ref_rows rc ref qrow rrow Hng H) as [Hlen Hd].
  unfold one_line_plus_ref in H. destruct (Nat.ltb_spec (length ref) (s_pos rc)); [discriminate|].
  destruct (walk2 true (s_cigar rc) 0 (s_pos rc) (s_seq rc) ref) as [[x y]|] eqn:Ew; [|discriminate]. injection H as <- <-.
  destruct (walk2_proj _ _ _ _ _ _ _ Hng Ew) as (x' & y' & Ef & Hp). destruct (walk2_false_walk _ _ _ _ _ _ _ Ef) as (row & Hw & ->).
  exists row. split; [exact Hw|].
  assert (P : proj (firstn (s_pos rc) ref ++ y) (repeat 42%N (s_pos rc) ++ x) = map cell_byte (repeat Star (s_pos rc) ++ row)).
  { rewrite proj_app by (rewrite firstn_length, repeat_length; lia). rewrite Hp, map_app, map_repeat'.
    rewrite proj_nogap; [reflexivity| |rewrite firstn_length, repeat_length; lia]. intros Hin. apply Hng. eapply firstn_In_sub; eauto. }
  split; [exact P|].
  pose proof (proj_length (firstn (s_pos rc) ref ++ y) (repeat 42%N (s_pos rc) ++ x) Hlen) as L. rewrite P, Hd, map_length, app_length, repeat_length in L.
  rewrite firstn_length in L. destruct (walk2_grow 0 _ _ _ _ _ _ _ Hng ltac:(eassumption) Ew) as [_ HE]. unfold rec_E. lia.
Qed.

Definition colof (g0 : nat) (segs : list seg) (k : nat) : nat := g0 + length (flat_segs (firstn k segs)).
Lemma colof_lt g0 segs k : k < length segs -> colof g0 segs k < length (flat g0 segs).
Proof.
  intros Hk. unfold colof. rewrite flat_length. rewrite <- (firstn_skipn k segs) at 2. rewrite flat_segs_app, app_length.
  pose proof (flat_segs_length_ge (skipn k segs)) as G. rewrite skipn_length in G. lia.
Qed.
Lemma colof_firstn g0 segs m k : k <= m -> colof g0 (firstn m segs) k = colof g0 segs k.
Proof. intros H. unfold colof. rewrite firstn_firstn, Nat.min_l by exact H. reflexivity. Qed.
Lemma proj_flat_cols g0 segs : wf_segs segs -> forall Q', length Q' = length (flat g0 segs) ->
  proj (flat g0 segs) Q' = map (fun k => nth (colof g0 segs k) Q' 0%N) (seq 0 (length segs)).
Proof.
  induction segs as [|sg segs IH] using rev_ind; intros Hwf Q' Hl.
  - unfold flat. cbn [flat_segs map concat app length seq]. rewrite app_nil_r. apply proj_gaps.
  - apply Forall_app in Hwf. destruct Hwf as [Hwf Hc]. inversion Hc as [|? ? Hc' _]; subst.
    assert (EF : flat g0 (segs ++ [sg]) = flat g0 segs ++ fst sg :: repeat 45%N (snd sg)).
    { unfold flat. rewrite flat_segs_app, app_assoc. f_equal. cbn [flat_segs map concat]. rewrite app_nil_r. reflexivity. }
    set (L := length (flat g0 segs)). rewrite EF in Hl |- *. rewrite app_length in Hl. cbn [length] in Hl. rewrite repeat_length in Hl. fold L in Hl.
    rewrite <- (firstn_skipn L Q'). assert (HL1 : length (firstn L Q') = L) by (rewrite firstn_length; lia).
    destruct (skipn L Q') as [|x rest] eqn:Es; [apply (f_equal (@length N)) in Es; rewrite skipn_length in Es; cbn in Es; lia|].
    rewrite proj_app by (rewrite HL1; reflexivity). rewrite (IH Hwf (firstn L Q') HL1).
    rewrite app_length. cbn [length]. rewrite Nat.add_1_r, seq_S, map_app. cbn [map Nat.add]. f_equal.
    + apply map_ext_in. intros k Hk. apply in_seq in Hk.
      assert (Hcol : colof g0 (segs ++ [sg]) k = colof g0 segs k).
      { unfold colof. rewrite firstn_app. replace (k - length segs) with 0 by lia. cbn [firstn]. rewrite app_nil_r. reflexivity. }
      rewrite Hcol. rewrite app_nth1 by (rewrite HL1; apply colof_lt; lia). reflexivity.
    + unfold proj. cbn [combine filter fst]. destruct (N.eqb_spec (fst sg) 45); [contradiction|]. cbn [negb map snd]. f_equal.
      * unfold colof. rewrite firstn_app, firstn_all, Nat.sub_diag. cbn [firstn]. rewrite app_nil_r.
        assert (EL : g0 + length (flat_segs segs) = L) by (unfold L; rewrite flat_length; reflexivity).
        rewrite EL. rewrite app_nth2 by (rewrite HL1; lia). rewrite HL1, Nat.sub_diag. reflexivity.
      * fold (proj (repeat 45%N (snd sg)) rest). apply proj_gaps.
Qed.

Lemma flatten_block_nth rows mx i : rows <> [] -> Forall (fun r => length r = mx) rows -> i < mx ->
  nth i (flatten_block rows) 0%N = nuc_from_site (map (fun r => nth i r 0%N) rows).
Proof.
  intros Hne Hl Hi. unfold flatten_block. destruct rows as [|r0 rest] eqn:Er; [contradiction|]. rewrite <- Er in *.
  assert (Hr0 : length r0 = mx) by (rewrite Forall_forall in Hl; apply Hl; rewrite Er; left; reflexivity). rewrite Hr0.
  rewrite (nth_indep _ 0%N (nuc_from_site [])) by (rewrite map_length, transpose_length; exact Hi).
  rewrite map_nth, transpose_nth by assumption. reflexivity.
Qed.
Lemma map_nth_eq {A B C} (f : A -> C) (g : B -> C) (l : list A) (l' : list B) d d' :
  length l = length l' -> (forall j, j < length l -> f (nth j l d) = g (nth j l' d')) -> map f l = map g l'.
Proof.
  revert l'. induction l as [|a t IH]; intros [|b t'] Hl H; try discriminate; [reflexivity|]. cbn [map]. f_equal.
  - apply (H 0). cbn. lia.
  - apply IH; [cbn in Hl; lia|]. intros j Hj. apply (H (S j)). cbn. lia.
Qed.

Lemma nth_repeat_lt {A} (a d : A) n i : i < n -> nth i (repeat a n) d = a.
Proof. revert i; induction n as [|n IH]; intros i H; [lia|]. destruct i; [reflexivity|]. cbn. apply IH. lia. Qed.
Lemma wf_firstn m S : wf_segs S -> wf_segs (firstn m S).
Proof. unfold wf_segs. intros H. apply Forall_forall. intros x Hx. rewrite Forall_forall in H. apply H. eapply firstn_In_sub; eauto. Qed.
(* one row of the block, read at the column of the k-th base of the longest row *)
Lemma row_col g0 S m q k : wf_segs S -> m <= length S -> length q = length (flat g0 (firstn m S)) -> k < length S ->
  nth (colof g0 S k) (pad_to (length (flat g0 S)) q) 0%N = nth k (proj (flat g0 (firstn m S)) q) 42%N.
Proof.
  intros Hwf Hm Hq Hk. pose proof (wf_firstn m S Hwf) as Hwfm.
  assert (Lm : length (firstn m S) = m) by (rewrite firstn_length; lia).
  destruct (Nat.lt_ge_cases k m) as [Hlt|Hge].
  - rewrite <- (colof_firstn g0 S m k) by lia. unfold pad_to.
    rewrite app_nth1 by (rewrite Hq; apply colof_lt; lia).
    rewrite (proj_flat_cols g0 (firstn m S) Hwfm q Hq), Lm.
    rewrite (nth_indep _ 42%N (nth (colof g0 (firstn m S) 0) q 0%N)) by (rewrite map_length, seq_length; exact Hlt).
    rewrite (map_nth (fun k0 => nth (colof g0 (firstn m S) k0) q 0%N) (seq 0 m) 0 k), seq_nth by exact Hlt. reflexivity.
  - rewrite (nth_overflow (proj _ _)) by (rewrite (proj_length _ q Hq), (degap_flat g0 _ Hwfm), map_length, firstn_length; lia).
    assert (Hcol : length q <= colof g0 S k).
    { rewrite Hq, flat_length. unfold colof. rewrite <- (firstn_skipn m (firstn k S)), flat_segs_app, app_length, firstn_firstn, Nat.min_l by lia. lia. }
    unfold pad_to. rewrite app_nth2 by exact Hcol. apply nth_repeat_lt. pose proof (colof_lt g0 S k Hk). lia.
Qed.
Lemma cell_of_record rc row k : walk (s_cigar rc) 0 (s_seq rc) = Some row ->
  cell_byte (aligned (s_cigar rc) 0 (s_pos rc) (s_seq rc) k) = nth k (map cell_byte (repeat Star (s_pos rc) ++ row)) 42%N.
Proof.
  intros Hw. rewrite <- (walk_cell _ _ _ _ Hw (s_pos rc) k). change 42%N with (cell_byte Star). rewrite map_nth. f_equal.
  unfold cellat. destruct (Nat.ltb_spec k (s_pos rc)).
  - rewrite app_nth1 by (rewrite repeat_length; lia). rewrite nth_repeat_cell. destruct (k <? s_pos rc); reflexivity.
  - rewrite app_nth2 by (rewrite repeat_length; lia). rewrite repeat_length. reflexivity.
Qed.
Lemma all_some_of {A B} (f : A -> option B) l : (forall x, In x l -> exists y, f x = Some y) -> exists ys, all_some (map f l) = Some ys.
Proof.
  induction l as [|a t IH]; intros H; [exists []; reflexivity|]. destruct (H a (or_introl eq_refl)) as [y Hy].
  destruct (IH (fun x Hx => H x (or_intror Hx))) as [ys Hys]. exists (y :: ys). cbn [map all_some]. rewrite Hy, Hys. reflexivity.
Qed.
Lemma grow_length_le ref I a b : a <= b -> length (grow ref I a) <= length (grow ref I b).
Proof. intros H. replace b with (a + (b - a)) by lia. rewrite grow_app, app_length. lia. Qed.
Lemma gsegs_firstn ref I a b : a <= b -> firstn a (gsegs ref I 0 b) = gsegs ref I 0 a.
Proof.
  intros H. replace b with (a + (b - a)) by lia. rewrite gsegs_app, firstn_app, gsegs_length, Nat.sub_diag. cbn [firstn].
  rewrite app_nil_r. apply firstn_all2. rewrite gsegs_length. lia.
Qed.

Theorem pairk_proj_eq_toma_pad ref block R Q : block <> [] -> ~ In 45%N ref -> Forall (fun c => (42 <= c)%N) ref ->
  block_to_seq_pair ref block = Some (R, Q) ->
  exists raw, seq_from_block (length ref) block = Some raw /\ proj R Q = fasta_seq true false 0 0 raw.
Proof.
  intros Hne Hng Hge H. destruct block as [|rc0 rest]; [contradiction|]. clear Hne.
  destruct (pairk_struct ref rc0 rest R Q Hng Hge H) as (pairs & rows & js & mx & Ea & Hrl & Hrows & Hjs & HEr & -> & Hmx & -> & Hst & HQl & _).
  set (block := rc0 :: rest) in *. set (n := length block) in *. set (Itot := Iof (block_insertions block)) in *.
  set (Ej := rec_E (nth js block rc0)) in *. set (S := gsegs ref Itot 0 Ej).
  assert (HwfS : wf_segs S) by (apply gsegs_wf; [exact Hng|lia]).
  assert (HlS : length S = Ej) by apply gsegs_length.
  destruct (map_eq_nth (fun rc => one_line_plus_ref true rc ref) (@Some (list N * list N)) block pairs rc0 dpair Ea) as [Hpl Hrec].
  fold n in Hpl, Hrec.
  (* per record: the cells, and the row's projection *)
  assert (Hper : forall j, j < n -> exists row, walk (s_cigar (nth j block rc0)) 0 (s_seq (nth j block rc0)) = Some row /\
             proj (fst (nth j rows dpair)) (snd (nth j rows dpair)) = map cell_byte (repeat Star (s_pos (nth j block rc0)) ++ row) /\
             s_pos (nth j block rc0) + length row = rec_E (nth j block rc0)).
  { intros j Hj. specialize (Hrec j Hj). destruct (nth j pairs dpair) as [qr rr] eqn:Ep.
    destruct (one_line_true_proj _ _ _ _ Hng Hrec) as (row & Hw & Hp & Hlen). exists row. split; [exact Hw|]. split; [|exact Hlen].
    destruct (Hrows j Hj) as (_ & _ & Hpj & _). rewrite Hpj, Ep. exact Hp. }
  (* the toMultiAlign side exists *)
  assert (Hraw : exists raw, seq_from_block (length ref) block = Some raw).
  { unfold seq_from_block. destruct (all_some_of (fun r => one_line (s_pos r) (s_cigar r) (s_seq r) (length ref)) block) as [ys ->]; [|eexists; reflexivity].
    intros rc Hin. apply (In_nth _ _ rc0) in Hin. destruct Hin as (j & Hj & <-). destruct (Hper j Hj) as (row & Hw & _ & Hlen).
    unfold one_line. rewrite Hw. destruct (Hrows j Hj) as (_ & _ & _ & HEj). fold Ej in HEj.
    destruct (Nat.leb_spec (length (repeat Star (s_pos (nth j block rc0)) ++ row)) (length ref)) as [|Hgt]; [eexists; reflexivity|].
    rewrite app_length, repeat_length in Hgt. lia. }
  destruct Hraw as [raw Hraw]. exists raw. split; [exact Hraw|].
  rewrite (seq_from_block_spec (length ref) block raw ltac:(discriminate) Hraw). unfold fasta_seq, swap_pad.
  rewrite proj_map. f_equal.
  set (Qf := flatten_block (map (fun rq : list N * list N => pad_to mx (snd rq)) rows)) in *.
  assert (HR : length (grow ref Itot Ej) = length Qf) by (rewrite HQl; symmetry; exact Hmx).
  rewrite proj_app by exact HR.
  rewrite (proj_nogap (skipn Ej ref)) by (try (intros Hin; apply Hng; eapply skipn_In_sub; eauto); rewrite repeat_length, skipn_length; reflexivity).
  unfold spec_raw. replace (length ref) with (Ej + (length ref - Ej)) at 2 by lia. rewrite seq_app, map_app. cbn [Nat.add]. f_equal.
  - (* the base columns *)
    unfold grow. fold S. rewrite (proj_flat_cols (Itot 0) S HwfS Qf) by (symmetry; exact HR). rewrite HlS.
    apply map_ext_in. intros k Hk. apply in_seq in Hk.
    assert (Hmxflat : length (flat (Itot 0) S) = mx) by (symmetry; exact Hmx).
    assert (Hlens : Forall (fun r => length r = mx) (map (fun rq : list N * list N => pad_to mx (snd rq)) rows)).
    { apply Forall_forall. intros r Hr. apply in_map_iff in Hr. destruct Hr as (rq & <- & Hin). apply (In_nth _ _ dpair) in Hin.
      destruct Hin as (j & Hj & <-). rewrite Hrl in Hj. fold n in Hj. destruct (Hrows j Hj) as (G1 & G2 & _ & G4).
      unfold pad_to. rewrite app_length, repeat_length, G2, G1. fold Itot. fold Ej in G4.
      pose proof (grow_length_le ref Itot _ _ G4) as Hle. unfold grow in Hle at 2. fold S in Hle. lia. }
    unfold Qf. rewrite (flatten_block_nth _ mx) ; [|intros E0; apply (f_equal (@length _)) in E0; rewrite map_length, Hrl in E0; discriminate|exact Hlens|].
    2:{ rewrite <- Hmxflat. apply colof_lt. lia. }
    rewrite map_map. f_equal. apply (map_nth_eq _ _ rows block dpair rc0); [exact Hrl|]. intros j Hj. rewrite Hrl in Hj. fold n in Hj.
    destruct (Hrows j Hj) as (G1 & G2 & _ & G4). fold Itot in G1. fold Ej in G4. destruct (Hper j Hj) as (row & Hw & Hp & Hlen).
    rewrite (cell_of_record _ row k Hw), <- Hp. rewrite <- Hmxflat.
    assert (G1' : fst (nth j rows dpair) = flat (Itot 0) (firstn (rec_E (nth j block rc0)) S)).
    { rewrite G1. unfold grow, S. rewrite gsegs_firstn by exact G4. reflexivity. }
    rewrite G1'. apply row_col; [exact HwfS|lia| |lia]. rewrite G2, G1'. reflexivity.
  - (* beyond the last aligned base of the block: nothing covers *)
    apply (nth_ext _ _ 0%N 0%N); [rewrite map_length, seq_length, repeat_length; reflexivity|]. intros i Hi. rewrite repeat_length in Hi.
    rewrite nth_repeat_lt by exact Hi.
    rewrite (nth_indep _ 0%N (nuc_from_site (map (fun r => cell_byte (aligned (s_cigar r) 0 (s_pos r) (s_seq r) 0)) block)))
      by (rewrite map_length, seq_length; exact Hi).
    rewrite (map_nth (fun i0 => nuc_from_site (map (fun r => cell_byte (aligned (s_cigar r) 0 (s_pos r) (s_seq r) i0)) block)) (seq Ej (length ref - Ej)) 0 i).
    rewrite seq_nth by exact Hi. symmetry. apply nfs_same; [| |discriminate].
    + apply in_map_iff. exists rc0. split; [|left; reflexivity]. destruct (Hper 0 ltac:(unfold n, block; cbn; lia)) as (row & Hw & _ & Hlen).
      change (nth 0 block rc0) with rc0 in Hw, Hlen. rewrite (cell_of_record rc0 row _ Hw). apply nth_overflow.
      rewrite map_length, app_length, repeat_length. destruct (Hrows 0 ltac:(unfold n, block; cbn; lia)) as (_ & _ & _ & G4).
      change (nth 0 block rc0) with rc0 in G4. fold Ej in G4. lia.
    + intros y Hy. left. apply in_map_iff in Hy. destruct Hy as (rc & <- & Hin). apply (In_nth _ _ rc0) in Hin. destruct Hin as (j & Hj & <-).
      destruct (Hper j Hj) as (row & Hw & _ & Hlen). rewrite (cell_of_record _ row _ Hw). apply nth_overflow.
      rewrite map_length, app_length, repeat_length. destruct (Hrows j Hj) as (_ & _ & _ & G4). fold Ej in G4. lia.
Qed.

(* a query without insertions: the pair is the reference and the toMultiAlign --pad row *)
Corollary pairk_no_insertions ref block R Q : block <> [] -> ~ In 45%N ref -> Forall (fun c => (42 <= c)%N) ref ->
  block_insertions block = [] -> block_to_seq_pair ref block = Some (R, Q) ->
  R = ref /\ exists raw, seq_from_block (length ref) block = Some raw /\ Q = fasta_seq true false 0 0 raw.
Proof.
  intros Hne Hng Hge Hni H. destruct (pairk_ref_row ref block R Q Hne Hng Hge H) as [HR HQ].
  destruct (pairk_proj_eq_toma_pad ref block R Q Hne Hng Hge H) as (raw & Hraw & Hp).
  rewrite Hni in HR. cbn [Iof] in HR. rewrite grow_zero in HR. subst R. split; [reflexivity|]. exists raw. split; [exact Hraw|].
  rewrite <- Hp. symmetry. apply proj_nogap; [exact Hng|exact HQ].
Qed.
