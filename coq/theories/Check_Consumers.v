(* Check_Consumers.v — verdict for the regions made from the bytes of an annotation file: genbank.ReadGenBank + variants.RegionsFromGenbank,
   gff.ReadGFF + variants.RegionsFromGFF (implementation) vs regions_of_genbank_text / regions_of_gff_text (model).  0 agree, 2 disagree *)
From Coq Require Import Floats.SpecFloat.
From GF Require Import Base FastaModel Harness LocationModel GffLineModel GenbankModel GenbankFile GffFile ConsumerModel TopK CodonModel Indels VariantsModel Check_Gff.
Open Scope N_scope.

Definition ser_region (r : cregion) : list N :=
  [35] ++ ser_str (cr_name r) ++ ser_str (dec_Z (cr_strand r)) ++ ser_str (join [44] (map dec_Z (cr_pos r))) ++ ser_str (cr_trans r).
Definition ser_regions (x : list cregion * list Z) : list N :=
  concat (map ser_region (fst x)) ++ [73] ++ ser_str (join [44] (map dec_Z (snd x))).
Definition check_regions (c : bool * list N * gores) : N :=
  let '(is_gff, file, g) := c in
  let m := match (if is_gff then regions_of_gff_text file else regions_of_genbank_text file) with
           | Ok x => Ok (ser_regions x) | Err e => Err e | Panic => Panic end in
  if agree g m then 0 else 2.
