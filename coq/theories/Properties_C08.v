(* Properties_C08.v — C08: updown topranking bins, ranks and limits neighbours exactly as specified. *)
From Coq Require Import List Arith Lia Bool.
From GF Require Import TopK Balance.
Import ListNotations.

(* each bin is kept by the bounded online catchment, which equals the first K of the stable sort by the bin's
   order (any strict weak order: here distance, then fewer ambiguities; file order breaks ties) *)
Theorem C08_bin_is_sorted_prefix : forall (E : Type) (lt : E -> E -> bool),
  (forall x, lt x x = false) ->
  (forall x y z, lt x y = true -> lt y z = true -> lt x z = true) ->
  (forall x y z, lt x y = false -> lt y z = false -> lt x z = false) ->
  forall K xs, 0 < K -> online E lt K xs = firstn K (ssort E lt xs).
Proof. exact online_topk_eq_sorted_prefix. Qed.
Print Assumptions C08_bin_is_sorted_prefix.

(* the round-robin fill, any number of bins and any sizes: every bin ends at level r+1 or r of its own supply
   (size0 + min(level, spare)), so sizes stay within [size0, size0 + spare] and are even up to one *)
Theorem C08_balance_closed_form : forall total fuel bins res,
  outer fuel total bins = Some res ->
  exists r d t, bins = d ++ t /\ res = map (lvl (S r)) d ++ map (lvl r) t.
Proof. exact balance_closed_form. Qed.
Print Assumptions C08_balance_closed_form.

(* the loop terminates: fuel above the total spare supply suffices *)
Theorem C08_balance_terminates : forall total fuel r bins, bins <> [] ->
  asum (map (lvl r) bins) < fuel -> exists res, outer fuel total (map (lvl r) bins) = Some res.
Proof. exact balance_terminates. Qed.
Print Assumptions C08_balance_terminates.

(* totals: nothing is created or lost; the fill stops when the supply is exhausted or the total is reached; the total
   is never exceeded *)
Theorem C08_balance_sum : forall total fuel bins res, ssum bins < total ->
  outer fuel total bins = Some res ->
  ssum res + asum res = ssum bins + asum bins /\ (asum res = 0 \/ ssum res = total) /\ ssum res <= total.
Proof. exact balance_sum. Qed.
Print Assumptions C08_balance_sum.
