(* Properties_C08.v — C08: updown topranking bins, ranks and limits neighbours exactly as specified. *)
From Coq Require Import List Arith Lia Bool.
From Coq Require Import Floats.SpecFloat.
From GF Require Import Base Alphabet SymbolsDef SnpsProofs TopK Balance TopRankModel WhichWayProofs PushProofs BinsProofs TopRankSpec.
Import ListNotations.

(* the pairwise classification: whichWay, computed from the two updown-list rows (SNP texts, SNP positions, ambiguity
   tracts), equals the column-wise definition of the statement for sequences of ANY width over an A/C/G/T reference:
   n0 = columns where the query has a base differing from the reference that the target (a base) lacks, n2 the converse,
   n1 shared differences, n3 differences hidden by an ambiguity of the other sequence; bin = same/up/down/side by
   (n0 = 0, n2 = 0); distance = columns where both are A/C/G/T and differ; pair threshold on n3 / (n0+n1+n2+n3) *)
Theorem C08_which_way_spec : forall ref q t idq idt thr,
  all_valid ref -> all_valid q -> all_valid t -> Forall (fun c => resolved c = true) ref ->
  length q = length ref -> length t = length ref ->
  which_way (udl_of_seq (map (enc false) ref) idq (map (enc false) q))
            (udl_of_seq (map (enc false) ref) idt (map (enc false) t)) thr = spec_which_way ref q t thr.
Proof. exact which_way_spec. Qed.
Print Assumptions C08_which_way_spec.

(* non-vacuity: a side pair at distance 3 with one shared difference and ambiguity codes in both sequences *)
Example C08_which_way_example :
  let ref := bs "ACGTACGTAC" in let q := bs "TCGAACGNAC" in let t := bs "TGGTACCTAN" in
  spec_which_way ref q t (Float.f64_dyadic 1 0) = Some (3, 3)%nat /\
  which_way (udl_of_seq (map (enc false) ref) [] (map (enc false) q)) (udl_of_seq (map (enc false) ref) [] (map (enc false) t))
            (Float.f64_dyadic 1 0) = Some (3, 3)%nat.
Proof. vm_compute. split; reflexivity. Qed.

(* each bin is kept by the bounded online catchment, which equals the first K of the stable sort by the bin's
   order (any strict weak order: here distance, then fewer ambiguities; file order breaks ties) *)
Theorem C08_bin_is_sorted_prefix : forall (E : Type) (lt : E -> E -> bool),
  (forall x, lt x x = false) ->
  (forall x y z, lt x y = true -> lt y z = true -> lt x z = true) ->
  (forall x y z, lt x y = false -> lt y z = false -> lt x z = false) ->
  forall K xs, 0 < K -> online E lt K xs = firstn K (ssort E lt xs).
Proof. exact online_topk_eq_sorted_prefix. Qed.
Print Assumptions C08_bin_is_sorted_prefix.

(* the round-robin fill, any number of bins and any sizes: every bin ends at level r+1 or r of its own supply
   (size0 + min(level, spare)), so sizes stay within [size0, size0 + spare] and are even up to one *)
Theorem C08_balance_closed_form : forall total fuel bins res,
  outer fuel total bins = Some res ->
  exists r d t, bins = d ++ t /\ res = map (lvl (S r)) d ++ map (lvl r) t.
Proof. exact balance_closed_form. Qed.
Print Assumptions C08_balance_closed_form.

(* the loop terminates: fuel above the total spare supply suffices *)
Theorem C08_balance_terminates : forall total fuel r bins, bins <> [] ->
  asum (map (lvl r) bins) < fuel -> exists res, outer fuel total (map (lvl r) bins) = Some res.
Proof. exact balance_terminates. Qed.
Print Assumptions C08_balance_terminates.

(* totals: nothing is created or lost; the fill stops when the supply is exhausted or the total is reached; the total
   is never exceeded *)
Theorem C08_balance_sum : forall total fuel bins res, ssum bins < total ->
  outer fuel total bins = Some res ->
  ssum res + asum res = ssum bins + asum bins /\ (asum res = 0 \/ ssum res = total) /\ ssum res <= total.
Proof. exact balance_sum. Qed.
Print Assumptions C08_balance_sum.

(* --dist-push k: a bin is, for the k smallest occurring distances in ascending order (sdd = the occurring distances,
   ascending, each once; keysk k = its first k), the candidates at that distance ordered by fewer ambiguities, then file
   order; any k >= 1, any candidate list *)
Theorem C08_push_k_smallest : forall k hs, 0 < k -> push_bin k hs = push_spec k hs.
Proof. exact push_bin_spec. Qed.
Print Assumptions C08_push_k_smallest.

Theorem C08_push_membership : forall k hs x, 0 < k ->
  (In x (push_bin k hs) <-> In x hs /\ In (h_dist x) (keysk k (map h_dist hs))).
Proof. intros k hs x Hk. rewrite (push_bin_spec k hs Hk). apply push_spec_In. Qed.
Print Assumptions C08_push_membership.

Theorem C08_occurring_distances : forall l, Sorted.StronglySorted lt (sdd l) /\ (forall x, In x (sdd l) <-> In x l).
Proof. intros l. split; [apply sdd_asc|intros x; apply sdd_In]. Qed.
Print Assumptions C08_occurring_distances.

Example C08_push_example :
  let h (n : nat) (d a : nat) := {| h_name := [N.of_nat n]; h_dist := d; h_amb := a |} in
  push_bin 2 [h 1 5 0; h 2 3 1; h 3 9 0; h 4 3 0; h 5 1 2; h 6 5 0; h 7 1 0]
  = [h 7 1 0; h 5 1 2; h 4 3 0; h 2 3 1].
Proof. vm_compute. reflexivity. Qed.

(* size mode, the whole stage: each of the four reported bins is a prefix of that bin's candidates (direction and
   --dist limit, file order) stably sorted by distance, then fewer ambiguities *)
Theorem C08_size_mode_bins_are_prefixes : forall sizes dists nofill n cl, length sizes = 4 ->
  exists n0 n1 n2 n3,
    size_mode sizes dists nofill n cl =
    [firstn n0 (ssort hit hit_lt (candidates dists 0 cl)); firstn n1 (ssort hit hit_lt (candidates dists 1 cl));
     firstn n2 (ssort hit hit_lt (candidates dists 2 cl)); firstn n3 (ssort hit hit_lt (candidates dists 3 cl))].
Proof. exact size_mode_bins_are_prefixes. Qed.
Print Assumptions C08_size_mode_bins_are_prefixes.

Theorem C08_check_args_four_bins : forall st su sd ss sm da du dd ds dp sizes dists,
  check_args_tr st su sd ss sm da du dd ds dp = Some (sizes, dists) -> length sizes = 4 /\ length dists = 4.
Proof. exact check_args_sizes_length. Qed.
Print Assumptions C08_check_args_four_bins.

(* the stages composed: for rows derived from FASTA sequences of the reference's width, the core of the command (every
   target classified against every query, thresholds and --ignore, the two binning modes, both writers) equals the
   specification command spec_core: column-wise classification and distance (spec_which_way), size-mode bins = first K
   of the stably sorted candidates then the balanced allocation, --dist-push bins = the candidates at the k smallest
   occurring distances; any numbers of queries and targets, any option set *)
Theorem C08_core_eq_spec : forall o ref qs ts, all_valid ref -> Forall (fun c => resolved c = true) ref ->
  Forall (seq_ok ref) qs -> Forall (seq_ok ref) ts ->
  topranking_core o (map (udl_of ref) qs) (map (udl_of ref) ts) = spec_core o ref qs ts.
Proof. exact core_eq_spec. Qed.
Print Assumptions C08_core_eq_spec.
