(* CsvModel.v — C09/C10: the one CSV cell that can hold arbitrary text, the sequence ID.
   csv_field mirrors csvField of pkg/updown/list.go (repair D18); csv_parse is a model of what encoding/csv makes of ONE line
   (Comma = ',', LazyQuotes = false, TrimLeadingSpace = false), compared with the library on every run.  Definitions and
   the round trip. *)
From GF Require Import Base.
Open Scope N_scope.

Definition csv_special (c : N) : bool := (c =? 44) || (c =? 34) || (c =? 13) || (c =? 10).
Fixpoint csv_escape (l : list N) : list N :=
  match l with [] => [] | c :: t => if c =? 34 then 34 :: 34 :: csv_escape t else c :: csv_escape t end.
Definition csv_field (s : list N) : list N := if existsb csv_special s then [34] ++ csv_escape s ++ [34] else s.

Inductive cstate := StartField | InUnq | InQ | AfterQ.
Fixpoint csv_go (st : cstate) (rcur : list N) (racc : list (list N)) (l : list N) : option (list (list N)) :=
  match l with
  | [] => match st with
          | InQ => None                                  (* unterminated quoted field *)
          | _ => Some (rev (rev rcur :: racc))
          end
  | c :: t =>
      match st with
      | StartField => if c =? 34 then csv_go InQ [] racc t
                      else if c =? 44 then csv_go StartField [] ([] :: racc) t
                      else csv_go InUnq [c] racc t
      | InUnq => if c =? 44 then csv_go StartField [] (rev rcur :: racc) t
                 else if c =? 34 then None                (* bare quote in a non-quoted field *)
                 else csv_go InUnq (c :: rcur) racc t
      | InQ => if c =? 34 then csv_go AfterQ rcur racc t else csv_go InQ (c :: rcur) racc t
      | AfterQ => if c =? 34 then csv_go InQ (34 :: rcur) racc t
                  else if c =? 44 then csv_go StartField [] (rev rcur :: racc) t
                  else None                               (* text after the closing quote *)
      end
  end.
Definition csv_parse (line : list N) : option (list (list N)) := csv_go StartField [] [] line.

(* ---- round trip ---- *)
Lemma csv_go_unq x : forallb (fun c => negb (csv_special c)) x = true -> forall rcur racc rest,
  csv_go InUnq rcur racc (x ++ rest) = csv_go InUnq (rev x ++ rcur) racc rest.
Proof.
  induction x as [|c x IH]; intros H rcur racc rest; [reflexivity|]. cbn [forallb] in H. apply andb_true_iff in H as [Hc Hx].
  unfold csv_special in Hc. rewrite !negb_orb, !andb_true_iff, !negb_true_iff in Hc. destruct Hc as [[[H44 H34] _] _].
  cbn [app csv_go]. rewrite H44, H34. rewrite IH by exact Hx. cbn [rev]. rewrite <- app_assoc. reflexivity.
Qed.
Lemma csv_go_q x : forall rcur racc rest,
  csv_go InQ rcur racc (csv_escape x ++ rest) = csv_go InQ (rev x ++ rcur) racc rest.
Proof.
  induction x as [|c x IH]; intros rcur racc rest; [reflexivity|]. cbn [csv_escape].
  destruct (N.eqb_spec c 34) as [->|Hn].
  - cbn [app csv_go]. cbn [N.eqb Pos.eqb]. rewrite IH. cbn [rev]. rewrite <- app_assoc. reflexivity.
  - cbn [app csv_go]. destruct (N.eqb_spec c 34); [contradiction|]. rewrite IH. cbn [rev]. rewrite <- app_assoc. reflexivity.
Qed.

(* one written field followed by a comma, or by the end of the line, is read back as that field *)
Lemma csv_go_field_comma s racc rest :
  csv_go StartField [] racc (csv_field s ++ [44] ++ rest) = csv_go StartField [] (s :: racc) rest.
Proof.
  unfold csv_field. destruct (existsb csv_special s) eqn:E.
  - cbn [app csv_go]. cbn [N.eqb Pos.eqb]. rewrite <- app_assoc. rewrite csv_go_q. cbn [app csv_go]. cbn [N.eqb Pos.eqb].
    rewrite app_nil_r, rev_involutive. reflexivity.
  - assert (Hs : forallb (fun c => negb (csv_special c)) s = true).
    { apply forallb_forall. intros c Hc. apply negb_true_iff. destruct (csv_special c) eqn:Ec; [|reflexivity].
      assert (existsb csv_special s = true) by (apply existsb_exists; exists c; split; assumption). congruence. }
    destruct s as [|c s]; [reflexivity|]. cbn [forallb] in Hs. apply andb_true_iff in Hs as [Hc Hs].
    pose proof Hc as Hc'. unfold csv_special in Hc'. rewrite !negb_orb, !andb_true_iff, !negb_true_iff in Hc'. destruct Hc' as [[[H44 H34] _] _].
    cbn [app csv_go]. rewrite H34, H44. rewrite csv_go_unq by exact Hs. cbn [app csv_go]. cbn [N.eqb Pos.eqb].
    rewrite rev_app_distr, rev_involutive. reflexivity.
Qed.
Lemma csv_go_field_end s racc : csv_go StartField [] racc (csv_field s) = Some (rev (s :: racc)).
Proof.
  unfold csv_field. destruct (existsb csv_special s) eqn:E.
  - cbn [app csv_go]. cbn [N.eqb Pos.eqb]. rewrite csv_go_q. cbn [app csv_go]. cbn [N.eqb Pos.eqb].
    rewrite app_nil_r, rev_involutive. reflexivity.
  - assert (Hs : forallb (fun c => negb (csv_special c)) s = true).
    { apply forallb_forall. intros c Hc. apply negb_true_iff. destruct (csv_special c) eqn:Ec; [|reflexivity].
      assert (existsb csv_special s = true) by (apply existsb_exists; exists c; split; assumption). congruence. }
    destruct s as [|c s]; [reflexivity|]. cbn [forallb] in Hs. apply andb_true_iff in Hs as [Hc Hs].
    pose proof Hc as Hc'. unfold csv_special in Hc'. rewrite !negb_orb, !andb_true_iff, !negb_true_iff in Hc'. destruct Hc' as [[[H44 H34] _] _].
    cbn [csv_go]. rewrite H34, H44. rewrite <- (app_nil_r s). rewrite csv_go_unq by exact Hs. cbn [csv_go].
    rewrite app_nil_r. rewrite rev_app_distr, rev_involutive. reflexivity.
Qed.
(* a whole line: any fields at all, each written with csv_field, come back unchanged *)
Theorem csv_roundtrip_line (fields : list (list N)) : fields <> [] ->
  csv_parse (join [44] (map csv_field fields)) = Some fields.
Proof.
  intros Hn. unfold csv_parse.
  assert (G : forall racc, csv_go StartField [] racc (join [44] (map csv_field fields)) = Some (rev racc ++ fields)).
  { induction fields as [|f t IH]; [congruence|]. intros racc. destruct t as [|g t'].
    - cbn [map join]. rewrite csv_go_field_end. cbn [rev]. reflexivity.
    - change (join [44] (map csv_field (f :: g :: t'))) with (csv_field f ++ [44] ++ join [44] (map csv_field (g :: t'))).
      rewrite csv_go_field_comma. rewrite IH by discriminate. cbn [rev]. rewrite <- app_assoc. reflexivity. }
  rewrite G. reflexivity.
Qed.
