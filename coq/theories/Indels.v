From Coq Require Import List Arith Lia Bool.
Import ListNotations.

(* A column of a pairwise alignment: (reference has a gap, query has a gap) *)
Notation col := (bool * bool)%type.
Inductive indel := Ins (p len : nat) | Del (p len : nat).

(* ---------- M1: mirrors the (repaired) Go code, with alignment positions and the MSAToRef table ---------- *)
(* GetMSAOffsets: MSAToRef[i] = gap columns left of i at reference columns, 0 at reference-gap columns *)
Fixpoint msa_to_ref_from (gapsum : nat) (cs : list col) : list nat :=
  match cs with
  | [] => []
  | (true, _) :: t => 0 :: msa_to_ref_from (S gapsum) t
  | (false, _) :: t => gapsum :: msa_to_ref_from gapsum t
  end.
Definition msa_to_ref := msa_to_ref_from 0.

Record st1 := { insOpen : bool; insStart : nat; insLen : nat;
                delOpen : bool; delStart : nat; delLen : nat;
                refBases : nat; pos : nat; acc : list indel }.
Definition init1 := {| insOpen := false; insStart := 0; insLen := 0; delOpen := false; delStart := 0; delLen := 0;
                       refBases := 0; pos := 0; acc := [] |}.

Definition step1 (off : list nat) (s : st1) (c : col) : st1 :=
  let p := pos s in
  match c with
  | (true, true) => {| insOpen := insOpen s; insStart := insStart s; insLen := insLen s; delOpen := delOpen s; delStart := delStart s;
                       delLen := delLen s; refBases := refBases s; pos := S p; acc := acc s |}
  | (true, false) =>
      if insOpen s
      then {| insOpen := true; insStart := insStart s; insLen := S (insLen s); delOpen := delOpen s; delStart := delStart s;
              delLen := delLen s; refBases := refBases s; pos := S p; acc := acc s |}
      else {| insOpen := true; insStart := refBases s; insLen := 1; delOpen := delOpen s; delStart := delStart s;
              delLen := delLen s; refBases := refBases s; pos := S p; acc := acc s |}
  | (false, q) =>
      let acc1 := if insOpen s then acc s ++ [Ins (insStart s) (insLen s)] else acc s in
      let rb := S (refBases s) in
      if q then
        if delOpen s
        then {| insOpen := false; insStart := insStart s; insLen := insLen s; delOpen := true; delStart := delStart s;
                delLen := S (delLen s); refBases := rb; pos := S p; acc := acc1 |}
        else {| insOpen := false; insStart := insStart s; insLen := insLen s; delOpen := true; delStart := p;
                delLen := 1; refBases := rb; pos := S p; acc := acc1 |}
      else
        let acc2 := if delOpen s
                    then (if Nat.eqb (delStart s - nth (delStart s) off 0) 0 then acc1
                          else acc1 ++ [Del (delStart s - nth (delStart s) off 0 + 1) (delLen s)])
                    else acc1 in
        {| insOpen := false; insStart := insStart s; insLen := insLen s; delOpen := false; delStart := delStart s;
           delLen := delLen s; refBases := rb; pos := S p; acc := acc2 |}
  end.
Definition finish1 (s : st1) : list indel := if insOpen s then acc s ++ [Ins (insStart s) (insLen s)] else acc s.
Definition get_indels (cs : list col) : list indel := finish1 (fold_left (step1 (msa_to_ref cs)) cs init1).

(* ---------- M2: the same machine in reference coordinates only ---------- *)
Record st2 := { iOpen : bool; iStart : nat; iLen : nat; dOpen : bool; dStart : nat; dLen : nat; rb2 : nat; acc2 : list indel }.
Definition init2 := {| iOpen := false; iStart := 0; iLen := 0; dOpen := false; dStart := 0; dLen := 0; rb2 := 0; acc2 := [] |}.
Definition step2 (s : st2) (c : col) : st2 :=
  match c with
  | (true, true) => s
  | (true, false) =>
      if iOpen s
      then {| iOpen := true; iStart := iStart s; iLen := S (iLen s); dOpen := dOpen s; dStart := dStart s; dLen := dLen s; rb2 := rb2 s; acc2 := acc2 s |}
      else {| iOpen := true; iStart := rb2 s; iLen := 1; dOpen := dOpen s; dStart := dStart s; dLen := dLen s; rb2 := rb2 s; acc2 := acc2 s |}
  | (false, q) =>
      let a1 := if iOpen s then acc2 s ++ [Ins (iStart s) (iLen s)] else acc2 s in
      if q then
        if dOpen s
        then {| iOpen := false; iStart := iStart s; iLen := iLen s; dOpen := true; dStart := dStart s; dLen := S (dLen s); rb2 := S (rb2 s); acc2 := a1 |}
        else {| iOpen := false; iStart := iStart s; iLen := iLen s; dOpen := true; dStart := rb2 s; dLen := 1; rb2 := S (rb2 s); acc2 := a1 |}
      else
        let a2 := if dOpen s then (if Nat.eqb (dStart s) 0 then a1 else a1 ++ [Del (dStart s + 1) (dLen s)]) else a1 in
        {| iOpen := false; iStart := iStart s; iLen := iLen s; dOpen := false; dStart := dStart s; dLen := dLen s; rb2 := S (rb2 s); acc2 := a2 |}
  end.
Definition finish2 (s : st2) : list indel := if iOpen s then acc2 s ++ [Ins (iStart s) (iLen s)] else acc2 s.
Definition indels_ref (cs : list col) : list indel := finish2 (fold_left step2 cs init2).

(* ---------- M1 = M2 ---------- *)
(* the offset table at a reference column equals the number of gap columns to its left *)
Lemma nth_msa_from g pre c post :
  fst c = false ->
  nth (length pre) (msa_to_ref_from g (pre ++ c :: post)) 0 = g + length (filter (fun x => fst x) pre).
Proof.
  revert g; induction pre as [|[r q] t IH]; intros g Hc.
  - destruct c as [r q]; cbn in Hc; subst; cbn. lia.
  - destruct r; cbn.
    + rewrite IH by exact Hc. lia.
    + rewrite IH by exact Hc. lia.
Qed.

Definition refcols (l : list col) := length (filter (fun x => negb (fst x)) l).
Definition gapcols (l : list col) := length (filter (fun x => fst x) l).
Lemma cols_split l : length l = refcols l + gapcols l.
Proof. unfold refcols, gapcols. induction l as [|[r q] t IH]; cbn; [reflexivity|]. destruct r; cbn; lia. Qed.

Lemma off_at all pre c post :
  all = pre ++ c :: post -> fst c = false ->
  length pre - nth (length pre) (msa_to_ref all) 0 = refcols pre.
Proof.
  intros -> Hc. unfold msa_to_ref. rewrite (nth_msa_from 0 pre c post Hc).
  fold (gapcols pre). pose proof (cols_split pre). lia.
Qed.

(* relation between the two states after processing the prefix `pre` of the alignment `all` *)
Definition Rel (all pre : list col) (s1 : st1) (s2 : st2) : Prop :=
  insOpen s1 = iOpen s2 /\ insStart s1 = iStart s2 /\ insLen s1 = iLen s2 /\
  delOpen s1 = dOpen s2 /\ delLen s1 = dLen s2 /\ refBases s1 = rb2 s2 /\ acc s1 = acc2 s2 /\
  pos s1 = length pre /\ rb2 s2 = refcols pre /\
  (dOpen s2 = true -> delStart s1 - nth (delStart s1) (msa_to_ref all) 0 = dStart s2).

Lemma step_rel all pre c post s1 s2 :
  all = pre ++ c :: post -> Rel all pre s1 s2 ->
  Rel all (pre ++ [c]) (step1 (msa_to_ref all) s1 c) (step2 s2 c).
Proof.
  intros Hall (H1 & H2 & H3 & H4 & H5 & H6 & H7 & H8 & H9 & H10).
  assert (Hlen : length (pre ++ [c]) = S (length pre)) by (rewrite app_length; cbn; lia).
  assert (Hrc : forall r q, c = (r, q) -> refcols (pre ++ [c]) = if r then refcols pre else S (refcols pre)).
  { intros r q ->. unfold refcols. rewrite filter_app, app_length. destruct r; cbn [filter fst negb length]; [apply Nat.add_0_r|apply Nat.add_1_r]. }
  destruct c as [r q]. unfold Rel, step1, step2.
  destruct r, q; cbn [fst snd].
  - (* both gaps *) cbn. rewrite (Hrc true true eq_refl). repeat split; try assumption; lia.
  - (* insertion column *)
    rewrite <- H1. destruct (insOpen s1); cbn; rewrite (Hrc true false eq_refl); repeat split; try assumption; try lia; congruence.
  - (* deletion column *)
    pose proof (off_at all pre (false,true) post Hall eq_refl) as Hoff.
    rewrite <- H1, <- H4. rewrite H2, H3, H7.
    destruct (insOpen s1), (delOpen s1) eqn:Hd; cbn [insOpen insStart insLen delOpen delStart delLen refBases pos acc
                                                      iOpen iStart iLen dOpen dStart dLen rb2 acc2];
      rewrite (Hrc false true eq_refl), Hlen.
    all: repeat split; try lia; try congruence; try assumption.
    all: intros _.
    all: try (apply H10; congruence).
    all: rewrite H8, Hoff; lia.
  - (* match column *)
    rewrite <- H1, <- H4. rewrite H2, H3, H7.
    destruct (insOpen s1), (delOpen s1) eqn:Hd; cbn [insOpen insStart insLen delOpen delStart delLen refBases pos acc
                                                      iOpen iStart iLen dOpen dStart dLen rb2 acc2];
      rewrite (Hrc false false eq_refl), Hlen.
    all: try (rewrite (H10 (eq_sym H4))).
    all: rewrite ?H5.
    all: repeat split; try lia; try congruence; try assumption; try discriminate.
Qed.

Theorem get_indels_ref_coords cs : get_indels cs = indels_ref cs.
Proof.
  unfold get_indels, indels_ref.
  assert (H : forall post pre s1 s2, cs = pre ++ post -> Rel cs pre s1 s2 ->
              exists pre', Rel cs pre' (fold_left (step1 (msa_to_ref cs)) post s1) (fold_left step2 post s2)).
  { induction post as [|c post IH]; intros pre s1 s2 Hc Hr; cbn [fold_left].
    - exists pre; exact Hr.
    - apply (IH (pre ++ [c])); [rewrite <- app_assoc; exact Hc|]. eapply step_rel; eauto. }
  destruct (H cs [] init1 init2 eq_refl) as [pre' (H1 & H2 & H3 & _ & _ & _ & H7 & _)].
  { unfold Rel, init1, init2; cbn. repeat split; try reflexivity; discriminate. }
  unfold finish1, finish2. rewrite H1, H2, H3, H7. reflexivity.
Qed.

(* ---------- the invariance half of C05 ---------- *)
Theorem indels_invariant_under_double_gap_columns pre post :
  get_indels (pre ++ (true, true) :: post) = get_indels (pre ++ post).
Proof.
  rewrite !get_indels_ref_coords. unfold indels_ref. rewrite !fold_left_app. reflexivity.
Qed.
Print Assumptions indels_invariant_under_double_gap_columns.

(* non-vacuity: the gofasta unit-test alignment  ref ATG---ATGATGAT / que ATGATGAT--TG-- *)
Example ex_unit :
  get_indels [(false,false);(false,false);(false,false);(true,false);(true,false);(true,false);
              (false,false);(false,false);(false,true);(false,true);(false,false);(false,false);(false,true);(false,true)]
  = [Ins 3 3; Del 6 2].
Proof. vm_compute. reflexivity. Qed.
