From GF Require Import Base Alphabet Symbols FastaModel CodonModel.
Open Scope N_scope.

Lemma sweep_codons_ok : sweep_codons = true. Proof. vm_compute. reflexivity. Qed.
Lemma sweep_dict_keys_ok : sweep_dict_keys = true. Proof. vm_compute. reflexivity. Qed.
Lemma sweep_std64_ok : sweep_std64 = true. Proof. vm_compute. reflexivity. Qed.
Lemma sweep_comp_ok : sweep_comp = true. Proof. vm_compute. reflexivity. Qed.

(* every one of the 15^3 = 3375 IUPAC codons: the dictionary has a (one-letter) entry iff all
   expansions share one product under the standard code, and then it is that product *)
Theorem codon_table_sound_complete c1 c2 c3 :
  In c1 iupac15 -> In c2 iupac15 -> In c3 iupac15 ->
  codon_aa c1 c2 c3 = option_map (fun a => [a]) (unique_product c1 c2 c3).
Proof.
  intros H1 H2 H3. pose proof sweep_codons_ok as S. unfold sweep_codons in S.
  rewrite forallb_forall in S. specialize (S c1 H1). rewrite forallb_forall in S. specialize (S c2 H2).
  rewrite forallb_forall in S. specialize (S c3 H3). unfold codon_ok in S.
  destruct (codon_aa c1 c2 c3) as [[|a [|? ?]]|], (unique_product c1 c2 c3); try discriminate; [|reflexivity].
  apply N.eqb_eq in S. subst. reflexivity.
Qed.

Theorem standard_code_64 c1 c2 c3 : In c1 acgt -> In c2 acgt -> In c3 acgt ->
  codon_aa c1 c2 c3 = Some [std (base_of_up c1) (base_of_up c2) (base_of_up c3)].
Proof.
  intros H1 H2 H3. pose proof sweep_std64_ok as S. unfold sweep_std64 in S.
  rewrite forallb_forall in S. specialize (S c1 H1). rewrite forallb_forall in S. specialize (S c2 H2).
  rewrite forallb_forall in S. specialize (S c3 H3).
  destruct (codon_aa c1 c2 c3) as [[|a [|? ?]]|]; try discriminate. apply N.eqb_eq in S. subst. reflexivity.
Qed.

(* Translate, every length: over the 15 IUPAC codes it is the spec translation (unique product or
   'X' / error in strict mode); a length not divisible by 3 is an error *)
Lemma codons_In fuel : forall l cs, codons fuel l = Some cs -> Forall (fun c => In c iupac15) l ->
  Forall (fun t => let '(a, b, c) := t in In a iupac15 /\ In b iupac15 /\ In c iupac15) cs.
Proof.
  induction fuel as [|f IH]; intros l cs H Hl.
  - destruct l as [|a [|b [|c t]]]; cbn in H; try discriminate. injection H as <-. constructor.
  - destruct l as [|a [|b [|c t]]]; cbn [codons] in H; try discriminate; [injection H as <-; constructor|].
    destruct (codons f t) as [r|] eqn:E; [|discriminate]. cbn in H. injection H as <-.
    inversion Hl as [|? ? Ha Hl1]; subst. inversion Hl1 as [|? ? Hb Hl2]; subst. inversion Hl2 as [|? ? Hc Hl3]; subst.
    constructor; [auto|]. apply (IH t r E Hl3).
Qed.

Lemma translate_codons_spec strict cs :
  Forall (fun t => let '(a, b, c) := t in In a iupac15 /\ In b iupac15 /\ In c iupac15) cs ->
  translate_codons strict cs = spec_translate_codons strict cs.
Proof.
  induction 1 as [|[[a b] c] t (Ha & Hb & Hc) Ht IH]; [reflexivity|].
  cbn [translate_codons spec_translate_codons]. rewrite (codon_table_sound_complete a b c Ha Hb Hc), IH.
  destruct (unique_product a b c); reflexivity.
Qed.

Theorem translate_spec strict nuc : Forall (fun c => In c iupac15) nuc ->
  translate strict nuc = spec_translate strict nuc.
Proof.
  intros H. unfold translate, spec_translate. destruct (codons (length nuc) nuc) as [cs|] eqn:E; [|reflexivity].
  apply translate_codons_spec. eapply codons_In; eassumption.
Qed.

(* complement *)
Theorem complement_denotes h c : In c accepted32 ->
  exists s s', denote h c = Some s /\ denote h (comp_txt c) = Some s' /\ set_eqb s' (comp_set s) = true.
Proof.
  intros Hc. pose proof sweep_comp_ok as S. unfold sweep_comp in S.
  rewrite forallb_forall in S. specialize (S h (bools_In h)). rewrite forallb_forall in S. specialize (S c Hc).
  apply andb_true_iff in S as [S _]. unfold comp_txt_ok in S. apply andb_true_iff in S as [S _]. apply andb_true_iff in S as [S _].
  destruct (denote h c) as [s|]; [|discriminate]. destruct (denote h (comp_txt c)) as [s'|]; [|discriminate].
  exists s, s'. auto.
Qed.

Theorem complement_involutive_sym c : In c accepted32 -> comp_txt (comp_txt c) = c.
Proof.
  intros Hc. pose proof sweep_comp_ok as S. unfold sweep_comp in S.
  rewrite forallb_forall in S. specialize (S false (bools_In false)). rewrite forallb_forall in S. specialize (S c Hc).
  apply andb_true_iff in S as [S _]. unfold comp_txt_ok in S. apply andb_true_iff in S as [S _]. apply andb_true_iff in S as [_ S].
  apply N.eqb_eq in S. exact S.
Qed.

Theorem complement_encoded_commutes h c : In c accepted32 ->
  comp_enc (enc h c) = enc h (comp_txt c) /\ comp_enc (comp_enc (enc h c)) = enc h c.
Proof.
  intros Hc. pose proof sweep_comp_ok as S. unfold sweep_comp in S.
  rewrite forallb_forall in S. specialize (S h (bools_In h)). rewrite forallb_forall in S. specialize (S c Hc).
  apply andb_true_iff in S as [_ S]. unfold comp_enc_ok in S. apply andb_true_iff in S as [S1 S2].
  apply N.eqb_eq in S1, S2. auto.
Qed.

Theorem complement_involutive s : Forall (fun c => In c accepted32) s -> complement (complement s) = s.
Proof.
  induction 1 as [|c t Hc Ht IH]; [reflexivity|]. unfold complement in *. cbn [map]. rewrite IH, complement_involutive_sym by assumption. reflexivity.
Qed.

Lemma complement_rev s : complement (rev s) = rev (complement s).
Proof. unfold complement. apply map_rev. Qed.

Theorem revcomp_involutive s : Forall (fun c => In c accepted32) s -> revcomp (revcomp s) = s.
Proof.
  intros H. unfold revcomp. rewrite complement_rev, rev_involutive. apply complement_involutive. exact H.
Qed.

Theorem erevcomp_involutive h s : Forall (fun c => In c accepted32) s ->
  erevcomp (erevcomp (map (enc h) s)) = map (enc h) s.
Proof.
  intros H. unfold erevcomp, ecomplement. rewrite map_rev, rev_involutive, map_map.
  induction H as [|c t Hc Ht IH]; [reflexivity|]. cbn [map]. rewrite IH.
  destruct (complement_encoded_commutes h c Hc) as [_ ->]. reflexivity.
Qed.

Theorem ecomplement_is_complement h s : Forall (fun c => In c accepted32) s ->
  ecomplement (map (enc h) s) = map (enc h) (complement s).
Proof.
  induction 1 as [|c t Hc Ht IH]; [reflexivity|]. unfold ecomplement, complement in *. cbn [map]. rewrite IH.
  destruct (complement_encoded_commutes h c Hc) as [-> _]. reflexivity.
Qed.
