From Coq Require Import Floats.SpecFloat.
From GF Require Import Base Alphabet SymbolsDef FastaModel Float TopK ClosestModel DistProofs Harness.
Open Scope N_scope.

Definition sf_same (x y : spec_float) : bool :=
  match x, y with
  | S754_zero a, S754_zero b => Bool.eqb a b
  | S754_infinity a, S754_infinity b => Bool.eqb a b
  | S754_nan, S754_nan => true
  | S754_finite a m e, S754_finite b m' e' => Bool.eqb a b && Pos.eqb m m' && Z.eqb e e'
  | _, _ => false
  end.

(* SPEC distances from the raw symbols, by the definitions of the statement *)
Definition spec_dist (measure : N) (q t : list N) : spec_float :=
  match measure with
  | 1 => f64_of_Z (Z.of_nat (count2 col_disjoint q t))
  | _ => f64_div_Z (Z.of_nat (count2 col_disjoint q t))
                   (Z.of_nat (count2 col_disjoint q t + count2 col_same_resolved q t))
  end.

Definition matrix_ok (measure : N) (qf tf : list N) (mat : list (list spec_float)) : bool :=
  match read conv_raw true qf, read conv_raw true tf with
  | Ok qs, Ok ts =>
      Nat.eqb (length mat) (length qs) &&
      forallb (fun qm => let '(q, row) := qm in
                 Nat.eqb (length row) (length ts) &&
                 forallb (fun tv => let '(t, v) := tv in sf_same v (spec_dist measure (r_seq q) (r_seq t))) (combine ts row))
              (combine qs mat)
  | _, _ => true
  end.

(* case: (measure, matrix from the Go distance functions, query file, target file, observation of
   closest -n (#targets+1) --table); for tn93 (measure 2) the matrix is the oracle of the ranking and is
   checked against eq. (7) separately (certified interval enclosures, TN93Cert.v) *)
Definition check_C07 (c : N * list (list (N * Z * Z)) * list N * list N * nat * gores) : N :=
  let '(measure, parts, qf, tf, K, g) := c in
  let mat := map (map (fun x => let '(k, m, e) := x in sf_of k m e)) parts in
  if match measure with 2 => false | _ => negb (matrix_ok measure qf tf mat) end then 1
  else if agree g (closestn_cmd K None measure true mat qf tf) then 0 else 2.

(* what the tn93 certificate needs from the model: counts of the pair and base counts of the target *)
Definition tn93_inputs (qf tf : list N) : list (list (Z * Z * Z * Z * (Z * Z * Z * Z))) :=
  match read_encoded false qf, read_scored false tf with
  | Ok qs, Ok ts =>
      map (fun q => map (fun t =>
        let c := tn93_counts (r_seq q) (r_seq (sc_rec t)) in
        (Z.of_nat (c_P1 c), Z.of_nat (c_P2 c), Z.of_nat (c_d c), Z.of_nat (c_L c),
         (Z.of_nat (sc_A t), Z.of_nat (sc_C t), Z.of_nat (sc_G t), Z.of_nat (sc_T t)))) ts) qs
  | _, _ => []
  end.
