(* WhichWayProofs.v — C08: the pairwise classification whichWay (bin and SNP distance computed from the two
   updown-list rows) equals the column-wise definition of the statement, for all sequences of any width. *)
From Coq Require Import Floats.SpecFloat.
From GF Require Import Base Alphabet Symbols FastaModel FastaProofs SnpsModel SnpsProofs UpdownListModel UpdownListProofs
  Float TopK Balance TopRankModel UpdownCsv.
Open Scope nat_scope.

(* ---------- 1. the two loops as folds with named step functions ---------- *)
Definition winit := {| w0 := 0; w1 := 0; w2 := 0; w3 := 0; wd := []; wplus := 0 |}.
Definition step1 (tambs : list (nat * nat)) (tsnps : list (list N)) (s : wtab) (tp : list N * nat) : wtab :=
  let '(txt, p) := tp in
  if is_site_amb p tambs then {| w0 := w0 s; w1 := w1 s; w2 := w2 s; w3 := S (w3 s); wd := wd s; wplus := wplus s |}
  else if in_texts txt tsnps then {| w0 := w0 s; w1 := S (w1 s); w2 := w2 s; w3 := w3 s; wd := wd s; wplus := wplus s |}
  else {| w0 := S (w0 s); w1 := w1 s; w2 := w2 s; w3 := w3 s; wd := wd s ++ [p]; wplus := wplus s |}.
Definition step2 (qambs : list (nat * nat)) (qsnps : list (list N)) (s : wtab) (tp : list N * nat) : wtab :=
  let '(txt, p) := tp in
  if is_site_amb p qambs then {| w0 := w0 s; w1 := w1 s; w2 := w2 s; w3 := S (w3 s); wd := wd s; wplus := wplus s |}
  else if negb (in_texts txt qsnps) then
    {| w0 := w0 s; w1 := w1 s; w2 := S (w2 s); w3 := w3 s; wd := wd s;
       wplus := if existsb (Nat.eqb p) (wd s) then wplus s else S (wplus s) |}
  else s.
Definition wfinish (thresh : spec_float) (s2 : wtab) : option (nat * nat) :=
  let sum := (w0 s2 + w1 s2 + w2 s2 + w3 s2)%nat in
  if f64_ltb thresh (f32_div (f32_of_Z (Z.of_nat (w3 s2))) (f32_of_Z (Z.of_nat sum))) then None
  else Some ((if Nat.eqb (w0 s2) 0 then (if Nat.eqb (w2 s2) 0 then 0 else 2) else (if Nat.eqb (w2 s2) 0 then 1 else 3))%nat,
             (length (wd s2) + wplus s2)%nat).
Lemma which_way_unfold q t thr :
  which_way q t thr =
  wfinish thr (fold_left (step2 (u_ambs q) (u_snps q)) (combine (u_snps t) (u_pos t))
                (fold_left (step1 (u_ambs t) (u_snps t)) (combine (u_snps q) (u_pos q)) winit)).
Proof. reflexivity. Qed.

Lemma fold1 A S (g : nat -> list N) l : forall s,
  fold_left (step1 A S) (combine (map g l) l) s =
  {| w0 := w0 s + countp (fun p => negb (is_site_amb p A) && negb (in_texts (g p) S)) l;
     w1 := w1 s + countp (fun p => negb (is_site_amb p A) && in_texts (g p) S) l;
     w2 := w2 s;
     w3 := w3 s + countp (fun p => is_site_amb p A) l;
     wd := wd s ++ filter (fun p => negb (is_site_amb p A) && negb (in_texts (g p) S)) l;
     wplus := wplus s |}.
Proof.
  unfold countp. induction l as [|p l IH]; intros s; cbn [map combine fold_left filter length].
  - destruct s; cbn. rewrite app_nil_r, !Nat.add_0_r. reflexivity.
  - rewrite IH. unfold step1; cbv beta iota. destruct (is_site_amb p A); [|destruct (in_texts (g p) S)];
      cbn [negb andb w0 w1 w2 w3 wd wplus length]; f_equal; try lia. rewrite <- app_assoc. reflexivity.
Qed.

Lemma fold2 A S (g : nat -> list N) l : forall s,
  fold_left (step2 A S) (combine (map g l) l) s =
  {| w0 := w0 s; w1 := w1 s;
     w2 := w2 s + countp (fun p => negb (is_site_amb p A) && negb (in_texts (g p) S)) l;
     w3 := w3 s + countp (fun p => is_site_amb p A) l;
     wd := wd s;
     wplus := wplus s + countp (fun p => negb (is_site_amb p A) && negb (in_texts (g p) S) && negb (existsb (Nat.eqb p) (wd s))) l |}.
Proof.
  unfold countp. induction l as [|p l IH]; intros s; cbn [map combine fold_left filter length].
  - destruct s; cbn. rewrite !Nat.add_0_r. reflexivity.
  - rewrite IH. unfold step2; cbv beta iota. destruct (is_site_amb p A); [|destruct (in_texts (g p) S)];
      cbn [negb andb w0 w1 w2 w3 wd wplus length]; [f_equal; lia| destruct s; cbn; f_equal; lia|].
    destruct (existsb (Nat.eqb p) (wd s)); cbn [negb length]; f_equal; lia.
Qed.

(* ---------- 2. the rows of the two sequences, column-wise ---------- *)
Definition spec_udl (ref id que : list N) : udl :=
  let cols := spec_cols ref que in
  {| u_id := id; u_snps := map (spec_snp_text ref que) (spec_snp_pos 1 cols); u_pos := spec_snp_pos 1 cols;
     u_ambs := spec_ranges cols; u_ambc := length (filter is_am cols) |}.

Lemma udl_of_seq_spec ref id que : all_valid ref -> all_valid que -> length que = length ref ->
  udl_of_seq (map (enc false) ref) id (map (enc false) que) = spec_udl ref id que.
Proof.
  intros Hr Hq Hl. unfold udl_of_seq, spec_udl. rewrite cols_of_spec by assumption. rewrite get_line_spec.
  f_equal. apply map_ext_in. intros p Hp. apply snp_text_spec; try assumption.
  apply spec_snp_pos_bounds in Hp. rewrite spec_cols_length in Hp. lia.
Qed.

Definition clsq (z : col) : cls := let '(r, (a, _)) := z in spec_class r a.
Definition clst (z : col) : cls := let '(r, (_, b)) := z in spec_class r b.
Lemma spec_cols_q ref : forall q t, length q = length ref -> length t = length ref ->
  spec_cols ref q = map clsq (combine ref (combine q t)).
Proof.
  induction ref as [|r ref IH]; intros [|a q] [|b t] Hq Ht; try discriminate; [reflexivity|].
  cbn [spec_cols combine map clsq]. f_equal. apply IH; cbn in *; lia.
Qed.
Lemma spec_cols_t ref : forall q t, length q = length ref -> length t = length ref ->
  spec_cols ref t = map clst (combine ref (combine q t)).
Proof.
  induction ref as [|r ref IH]; intros [|a q] [|b t] Hq Ht; try discriminate; [reflexivity|].
  cbn [spec_cols combine map clst]. f_equal. apply IH; cbn in *; lia.
Qed.

Lemma cell_nth cols j : j < length cols ->
  cell (spec_snp_pos 1 cols) (spec_ranges cols) (j + 1) = nth j cols Am.
Proof.
  intros Hj. pose proof (list_reconstructs cols) as H. rewrite get_line_spec in H. unfold rebuild in H.
  apply (f_equal (fun l => nth j l Am)) in H. rewrite <- H.
  rewrite (nth_indep _ Am (cell (spec_snp_pos 1 cols) (spec_ranges cols) (0 + 1))) by (rewrite map_length, seq_length; exact Hj).
  rewrite (map_nth (fun i => cell (spec_snp_pos 1 cols) (spec_ranges cols) (i + 1)) (seq 0 (length cols)) 0 j).
  rewrite seq_nth by exact Hj. reflexivity.
Qed.

Definition is_snpc (c : cls) : bool := match c with Kn true => true | _ => false end.
Lemma amb_at cols j : j < length cols -> is_site_amb (j + 1) (spec_ranges cols) = is_am (nth j cols Am).
Proof.
  intros Hj. pose proof (cell_nth cols j Hj) as H. unfold cell in H.
  change (is_site_amb (j + 1) (spec_ranges cols)) with (in_ranges (j + 1) (spec_ranges cols)).
  destruct (in_ranges (j + 1) (spec_ranges cols)); rewrite <- H; reflexivity.
Qed.
Lemma snp_at cols j : j < length cols -> existsb (Nat.eqb (j + 1)) (spec_snp_pos 1 cols) = is_snpc (nth j cols Am).
Proof.
  intros Hj. apply Bool.eq_iff_eq_true. rewrite existsb_exists. split.
  - intros (p & Hin & Hp). apply Nat.eqb_eq in Hp. subst p. apply spec_snp_pos_iff in Hin. destruct Hin as [_ Hn].
    replace (j + 1 - 1) with j in Hn by lia. rewrite (nth_error_nth _ _ Am Hn). reflexivity.
  - intros H. exists (j + 1). split; [|apply Nat.eqb_refl]. apply spec_snp_pos_iff. split; [lia|].
    replace (j + 1 - 1) with j by lia. destruct (nth_error cols j) as [c|] eqn:E.
    + rewrite (nth_error_nth _ _ Am E) in H. destruct c as [[|]|]; try discriminate. reflexivity.
    + apply nth_error_None in E. lia.
Qed.

(* the SNP texts of two rows over one reference coincide exactly at equal positions with equal bases *)
Lemma text_eqb ref q t p p' :
  list_eqb (spec_snp_text ref q p) (spec_snp_text ref t p') =
  Nat.eqb p p' && (upper (nth (p - 1) q 0%N) =? upper (nth (p - 1) t 0%N))%N.
Proof.
  apply Bool.eq_iff_eq_true. rewrite list_eqb_eq, andb_true_iff, Nat.eqb_eq, N.eqb_eq. unfold spec_snp_text. split.
  - intros H. cbn [app] in H. injection H as Hr H. apply app_inj_tail in H. destruct H as [Hd Ha].
    assert (p = p') by (pose proof (parse_nat_dec p) as P1; rewrite Hd, parse_nat_dec in P1; congruence).
    subst p'. split; [reflexivity|exact Ha].
  - intros [<- Ha]. rewrite Ha. reflexivity.
Qed.
Lemma in_texts_spec ref q t p Pt :
  in_texts (spec_snp_text ref q p) (map (spec_snp_text ref t) Pt) =
  existsb (Nat.eqb p) Pt && (upper (nth (p - 1) q 0%N) =? upper (nth (p - 1) t 0%N))%N.
Proof.
  unfold in_texts. induction Pt as [|p' Pt IH]; [reflexivity|]. cbn [map existsb]. rewrite IH, text_eqb.
  destruct (Nat.eqb p p'), (existsb (Nat.eqb p) Pt), (upper (nth (p - 1) q 0%N) =? upper (nth (p - 1) t 0%N))%N; reflexivity.
Qed.

(* counting over the SNP positions of a row = counting over the columns *)
Lemma count_snp_pos (cs : list col) (clsf : col -> cls) (F : nat -> bool) (G : col -> bool) (d : col) : forall i,
  (forall j, j < length cs -> F (i + j) = G (nth j cs d)) ->
  filter F (spec_snp_pos i (map clsf cs)) =
  map fst (filter (fun iz => is_snpc (clsf (snd iz)) && G (snd iz)) (combine (seq i (length cs)) cs)).
Proof.
  induction cs as [|z cs IH]; intros i H; [reflexivity|]. cbn [map spec_snp_pos length seq combine filter snd].
  pose proof (H 0 (Nat.lt_0_succ _)) as H0. rewrite Nat.add_0_r in H0. cbn [nth] in H0.
  assert (Ht : forall j, j < length cs -> F (S i + j) = G (nth j cs d)).
  { intros j Hj. specialize (H (S j)). cbn [length nth] in H. rewrite <- H by lia. f_equal. lia. }
  destruct (clsf z) as [[|]|]; cbn [is_snpc andb filter]; [|apply IH, Ht|apply IH, Ht].
  rewrite H0. destruct (G z); cbn [map fst]; [f_equal|]; apply IH, Ht.
Qed.
Lemma filter_combine_seq_len (P : col -> bool) cs : forall i,
  length (filter (fun iz : nat * col => P (snd iz)) (combine (seq i (length cs)) cs)) = length (filter P cs).
Proof.
  induction cs as [|z cs IH]; intros i; [reflexivity|]. cbn [length seq combine filter snd].
  destruct (P z); cbn [length]; rewrite IH; reflexivity.
Qed.
Lemma countp_snp_pos (cs : list col) clsf F G d :
  (forall j, j < length cs -> F (1 + j) = G (nth j cs d)) ->
  countp F (spec_snp_pos 1 (map clsf cs)) = countp (fun z => is_snpc (clsf z) && G z) cs.
Proof.
  intros H. unfold countp. rewrite (count_snp_pos cs clsf F G d 1 H), map_length.
  apply (filter_combine_seq_len (fun z => is_snpc (clsf z) && G z)).
Qed.
Lemma existsb_filter_eqb p D l : existsb (Nat.eqb p) (filter D l) = existsb (Nat.eqb p) l && D p.
Proof.
  induction l as [|x l IH]; [reflexivity|]. cbn [filter existsb]. destruct (D x) eqn:E; cbn [existsb]; rewrite IH.
  - destruct (Nat.eqb_spec p x) as [Hpx|Hn]; [subst; rewrite E; reflexivity|reflexivity].
  - destruct (Nat.eqb_spec p x) as [Hpx|Hn]; [subst; rewrite E; cbn; rewrite !andb_false_r; reflexivity|reflexivity].
Qed.

(* ---------- 3. symbols ---------- *)
Definition sweep_res2 : bool :=
  forallb (fun r => forallb (fun a => if resolved r && resolved a then Bool.eqb (disjoint_sym false r a) (nequp a r) else true)
                      all_bytes) all_bytes.
Lemma sweep_res2_ok : sweep_res2 = true. Proof. vm_compute. reflexivity. Qed.
Lemma disj_resolved r a : (r < 256)%N -> (a < 256)%N -> resolved r = true -> resolved a = true ->
  disjoint_sym false r a = nequp a r.
Proof.
  intros Hr Ha Rr Ra. pose proof sweep_res2_ok as S. unfold sweep_res2 in S.
  rewrite forallb_forall in S. specialize (S r (all_bytes_In r Hr)).
  rewrite forallb_forall in S. specialize (S a (all_bytes_In a Ha)). rewrite Rr, Ra in S. cbn in S.
  apply Bool.eqb_prop in S. exact S.
Qed.
Lemma upper_eq_resolved a b : upper a = upper b -> resolved a = resolved b.
Proof. intros H. unfold resolved, denote. rewrite H. reflexivity. Qed.

Definition rq (z : col) : bool := resolved (fst (snd z)).
Definition rt (z : col) : bool := resolved (snd (snd z)).
Definition sQ (z : col) : bool := is_snpc (clsq z).
Definition sT (z : col) : bool := is_snpc (clst z).
Definition ueq (z : col) : bool := (upper (fst (snd z)) =? upper (snd (snd z)))%N.
Definition d0 : col := (0, (0, 0))%N.
Lemma is_am_clsq z : is_am (clsq z) = negb (rq z).
Proof. destruct z as [r [a b]]. unfold clsq, spec_class, rq. cbn [fst snd]. destruct (resolved a); reflexivity. Qed.
Lemma is_am_clst z : is_am (clst z) = negb (rt z).
Proof. destruct z as [r [a b]]. unfold clst, spec_class, rt. cbn [fst snd]. destruct (resolved b); reflexivity. Qed.

Lemma countp_ext_in {A} (f g : A -> bool) l : (forall x, In x l -> f x = g x) -> countp f l = countp g l.
Proof. intros H. unfold countp. rewrite (filter_ext_in f g l H). reflexivity. Qed.
Lemma countp_or {A} (f g : A -> bool) l : (forall x, In x l -> f x && g x = false) ->
  countp (fun x => f x || g x) l = countp f l + countp g l.
Proof.
  unfold countp. induction l as [|x l IH]; intros H; [reflexivity|]. cbn [filter].
  pose proof (H x (or_introl eq_refl)) as Hx. assert (IH' := IH (fun y Hy => H y (or_intror Hy))).
  destruct (f x), (g x); try discriminate; cbn [orb length]; lia.
Qed.

(* ---------- 4. the theorem ---------- *)
Section WhichWay.
Variables (ref q t : list N).
Hypothesis (Vr : all_valid ref) (Vq : all_valid q) (Vt : all_valid t).
Hypothesis (Lq : length q = length ref) (Lt : length t = length ref).
Let cs := combine ref (combine q t).
Let Pq := spec_snp_pos 1 (map clsq cs).
Let Pt := spec_snp_pos 1 (map clst cs).

Lemma cs_length : length cs = length ref.
Proof. unfold cs. rewrite !combine_length. lia. Qed.
Lemma cs_nth j : nth j cs d0 = (nth j ref 0%N, (nth j q 0%N, nth j t 0%N)).
Proof. unfold cs, d0. rewrite combine_nth by (rewrite combine_length; lia). rewrite combine_nth by lia. reflexivity. Qed.

Lemma pw_amb_q j : j < length cs -> is_site_amb (1 + j) (spec_ranges (map clsq cs)) = negb (rq (nth j cs d0)).
Proof.
  intros Hj. replace (1 + j) with (j + 1) by lia. rewrite amb_at by (rewrite map_length; exact Hj).
  change Am with (clsq d0). rewrite map_nth. apply is_am_clsq.
Qed.
Lemma pw_amb_t j : j < length cs -> is_site_amb (1 + j) (spec_ranges (map clst cs)) = negb (rt (nth j cs d0)).
Proof.
  intros Hj. replace (1 + j) with (j + 1) by lia. rewrite amb_at by (rewrite map_length; exact Hj).
  change Am with (clst d0). rewrite map_nth. apply is_am_clst.
Qed.
Lemma pw_snp_q j : j < length cs -> existsb (Nat.eqb (1 + j)) Pq = sQ (nth j cs d0).
Proof.
  intros Hj. replace (1 + j) with (j + 1) by lia. unfold Pq. rewrite snp_at by (rewrite map_length; exact Hj).
  change Am with (clsq d0). rewrite map_nth. reflexivity.
Qed.
Lemma pw_snp_t j : j < length cs -> existsb (Nat.eqb (1 + j)) Pt = sT (nth j cs d0).
Proof.
  intros Hj. replace (1 + j) with (j + 1) by lia. unfold Pt. rewrite snp_at by (rewrite map_length; exact Hj).
  change Am with (clst d0). rewrite map_nth. reflexivity.
Qed.
Lemma pw_txt_q j : j < length cs ->
  in_texts (spec_snp_text ref q (1 + j)) (map (spec_snp_text ref t) Pt) = sT (nth j cs d0) && ueq (nth j cs d0).
Proof.
  intros Hj. rewrite in_texts_spec, pw_snp_t by exact Hj. replace (1 + j - 1) with j by lia.
  rewrite cs_nth. reflexivity.
Qed.
Lemma pw_txt_t j : j < length cs ->
  in_texts (spec_snp_text ref t (1 + j)) (map (spec_snp_text ref q) Pq) = sQ (nth j cs d0) && ueq (nth j cs d0).
Proof.
  intros Hj. rewrite in_texts_spec, pw_snp_q by exact Hj. replace (1 + j - 1) with j by lia.
  rewrite cs_nth. unfold ueq. cbn [fst snd]. rewrite N.eqb_sym. reflexivity.
Qed.

Hypothesis (Rr : Forall (fun c => resolved c = true) ref).
Let Rq := spec_ranges (map clsq cs).
Let Rt := spec_ranges (map clst cs).
Let tq := spec_snp_text ref q.
Let tt := spec_snp_text ref t.
Let F0 (p : nat) : bool := negb (is_site_amb p Rt) && negb (in_texts (tq p) (map tt Pt)).
Let F1 (p : nat) : bool := negb (is_site_amb p Rt) && in_texts (tq p) (map tt Pt).
Let F3q (p : nat) : bool := is_site_amb p Rt.
Let F2 (p : nat) : bool := negb (is_site_amb p Rq) && negb (in_texts (tt p) (map tq Pq)).
Let F3t (p : nat) : bool := is_site_amb p Rq.
Let Fp (p : nat) : bool := negb (is_site_amb p Rq) && negb (in_texts (tt p) (map tq Pq)) && negb (existsb (Nat.eqb p) (filter F0 Pq)).

Lemma s2_eq :
  fold_left (step2 Rq (map tq Pq)) (combine (map tt Pt) Pt)
    (fold_left (step1 Rt (map tt Pt)) (combine (map tq Pq) Pq) winit) =
  {| w0 := countp F0 Pq; w1 := countp F1 Pq; w2 := countp F2 Pt; w3 := countp F3q Pq + countp F3t Pt;
     wd := filter F0 Pq; wplus := countp Fp Pt |}.
Proof. rewrite fold1, fold2. unfold winit. cbn [w0 w1 w2 w3 wd wplus app]. rewrite !Nat.add_0_l. reflexivity. Qed.

Lemma c0 : countp F0 Pq = countp (fun z => sQ z && (rt z && negb (sT z && ueq z))) cs.
Proof.
  apply (countp_snp_pos cs clsq F0 _ d0). intros j Hj. unfold F0, Rt, tq, tt.
  rewrite pw_amb_t, pw_txt_q by exact Hj. rewrite negb_involutive. reflexivity.
Qed.
Lemma c1 : countp F1 Pq = countp (fun z => sQ z && (rt z && (sT z && ueq z))) cs.
Proof.
  apply (countp_snp_pos cs clsq F1 _ d0). intros j Hj. unfold F1, Rt, tq, tt.
  rewrite pw_amb_t, pw_txt_q by exact Hj. rewrite negb_involutive. reflexivity.
Qed.
Lemma c3q : countp F3q Pq = countp (fun z => sQ z && negb (rt z)) cs.
Proof. apply (countp_snp_pos cs clsq F3q _ d0). intros j Hj. unfold F3q, Rt. rewrite pw_amb_t by exact Hj. reflexivity. Qed.
Lemma c2 : countp F2 Pt = countp (fun z => sT z && (rq z && negb (sQ z && ueq z))) cs.
Proof.
  apply (countp_snp_pos cs clst F2 _ d0). intros j Hj. unfold F2, Rq, tq, tt.
  rewrite pw_amb_q, pw_txt_t by exact Hj. rewrite negb_involutive. reflexivity.
Qed.
Lemma c3t : countp F3t Pt = countp (fun z => sT z && negb (rq z)) cs.
Proof. apply (countp_snp_pos cs clst F3t _ d0). intros j Hj. unfold F3t, Rq. rewrite pw_amb_q by exact Hj. reflexivity. Qed.
Lemma cp : countp Fp Pt =
  countp (fun z => sT z && (rq z && negb (sQ z && ueq z) && negb (sQ z && (rt z && negb (sT z && ueq z))))) cs.
Proof.
  apply (countp_snp_pos cs clst Fp _ d0). intros j Hj. unfold Fp. rewrite existsb_filter_eqb.
  unfold F0, Rq, Rt, tq, tt. rewrite pw_amb_q, pw_amb_t, pw_txt_t, pw_txt_q, pw_snp_q by exact Hj.
  rewrite !negb_involutive. reflexivity.
Qed.

(* facts about one column of cs *)
Lemma col_facts z : In z cs ->
  let '(r, (a, b)) := z in
  sQ z = resolved a && nequp a r /\ sT z = resolved b && nequp b r /\ ueq z = negb (nequp a b) /\
  (nequp a b = false -> resolved a = resolved b /\ nequp a r = nequp b r) /\
  (nequp a b = true -> nequp a r = false -> nequp b r = false -> False).
Proof.
  destruct z as [r [a b]]. intros Hin. unfold cs in Hin.
  pose proof (in_combine_l _ _ _ _ Hin) as Hr. pose proof (in_combine_r _ _ _ _ Hin) as Hab.
  pose proof (in_combine_l _ _ _ _ Hab) as Ha. pose proof (in_combine_r _ _ _ _ Hab) as Hb.
  unfold all_valid in Vr, Vq, Vt. rewrite Forall_forall in Vr, Vq, Vt, Rr.
  destruct (Vr r Hr) as [Br _]. destruct (Vq a Ha) as [Ba _]. destruct (Vt b Hb) as [Bb _]. specialize (Rr r Hr).
  unfold sQ, sT, ueq, clsq, clst, spec_class, nequp. cbn [fst snd].
  split; [|split; [|split; [|split]]].
  - destruct (resolved a) eqn:Ea; [|reflexivity]. cbn [is_snpc andb]. rewrite (disj_resolved r a Br Ba Rr Ea).
    unfold nequp. destruct (negb _); reflexivity.
  - destruct (resolved b) eqn:Eb; [|reflexivity]. cbn [is_snpc andb]. rewrite (disj_resolved r b Br Bb Rr Eb).
    unfold nequp. destruct (negb _); reflexivity.
  - rewrite negb_involutive. reflexivity.
  - intros H. apply negb_false_iff, N.eqb_eq in H. split; [apply upper_eq_resolved; exact H|]. rewrite H. reflexivity.
  - intros H1 H2 H3. apply negb_true_iff, N.eqb_neq in H1. apply negb_false_iff, N.eqb_eq in H2, H3. congruence.
Qed.

Ltac col_case z Hz :=
  let r := fresh "r" in let a := fresh "a" in let b := fresh "b" in
  pose proof (col_facts z Hz) as F; destruct z as [r [a b]]; destruct F as (Fq & Ft & Fu & Fe & Fn);
  unfold rq, rt in *; cbn [fst snd] in *; try rewrite Fq; try rewrite Ft; try rewrite Fu; clear Fq Ft Fu;
  unfold c_qonly, c_tonly, c_shared, c_amb, c_dist;
  destruct (nequp a b) eqn:Eab;
  [ destruct (resolved a), (resolved b), (nequp a r) eqn:Ear, (nequp b r) eqn:Ebr; try reflexivity;
    exfalso; apply (Fn eq_refl eq_refl eq_refl)
  | destruct (Fe eq_refl) as [Fr Fx]; rewrite Fr, Fx; destruct (resolved b), (nequp b r); reflexivity ].

Theorem ww_cols thr :
  wfinish thr (fold_left (step2 Rq (map tq Pq)) (combine (map tt Pt) Pt)
                (fold_left (step1 Rt (map tt Pt)) (combine (map tq Pq) Pq) winit)) = spec_which_way ref q t thr.
Proof.
  rewrite s2_eq. unfold wfinish, spec_which_way. cbn [w0 w1 w2 w3 wd wplus]. fold cs.
  change (length (filter F0 Pq)) with (countp F0 Pq).
  rewrite c0, c1, c2, c3q, c3t, cp.
  assert (E0 : countp (fun z => sQ z && (rt z && negb (sT z && ueq z))) cs = countp c_qonly cs).
  { apply countp_ext_in. intros z Hz. col_case z Hz. }
  assert (E1 : countp (fun z => sQ z && (rt z && (sT z && ueq z))) cs = countp c_shared cs).
  { apply countp_ext_in. intros z Hz. col_case z Hz. }
  assert (E2 : countp (fun z => sT z && (rq z && negb (sQ z && ueq z))) cs = countp c_tonly cs).
  { apply countp_ext_in. intros z Hz. col_case z Hz. }
  assert (E3 : countp (fun z => sQ z && negb (rt z)) cs + countp (fun z => sT z && negb (rq z)) cs = countp c_amb cs).
  { rewrite <- countp_or.
    - apply countp_ext_in. intros z Hz. col_case z Hz.
    - intros z Hz. col_case z Hz. }
  assert (Ed : countp (fun z => sQ z && (rt z && negb (sT z && ueq z))) cs +
               countp (fun z => sT z && (rq z && negb (sQ z && ueq z) && negb (sQ z && (rt z && negb (sT z && ueq z))))) cs
               = countp c_dist cs).
  { rewrite <- countp_or.
    - apply countp_ext_in. intros z Hz. col_case z Hz.
    - intros z Hz. col_case z Hz. }
  rewrite Ed, E3, E0, E1, E2. reflexivity.
Qed.
End WhichWay.

Theorem which_way_spec ref q t idq idt thr :
  all_valid ref -> all_valid q -> all_valid t -> Forall (fun c => resolved c = true) ref ->
  length q = length ref -> length t = length ref ->
  which_way (udl_of_seq (map (enc false) ref) idq (map (enc false) q))
            (udl_of_seq (map (enc false) ref) idt (map (enc false) t)) thr = spec_which_way ref q t thr.
Proof.
  intros Vr Vq Vt Rr Lq Lt. rewrite !udl_of_seq_spec by assumption. rewrite which_way_unfold.
  unfold spec_udl. cbn [u_ambs u_snps u_pos].
  rewrite (spec_cols_q ref q t Lq Lt), (spec_cols_t ref q t Lq Lt).
  apply (ww_cols ref q t Vr Vq Vt Lq Lt Rr thr).
Qed.
