(* Alphabet.v — SPEC SIDE. The meaning of the nucleotide characters, written from the IUPAC
   standard and independent of gofasta's tables.  Trusted as specification. *)
From GF Require Import Base.
Open Scope N_scope.

Inductive base := bA | bC | bG | bT.
Definition base_eqb (x y : base) : bool :=
  match x, y with bA,bA | bC,bC | bG,bG | bT,bT => true | _,_ => false end.
Lemma base_eqb_eq x y : base_eqb x y = true <-> x = y.
Proof. destruct x, y; simpl; split; intros; congruence. Qed.
Definition compl (b : base) : base := match b with bA => bT | bT => bA | bC => bG | bG => bC end.
Definition all_bases := [bA; bC; bG; bT].

(* base set denoted by an upper-case character; hard = --hard-gaps *)
Definition denote_up (hard : bool) (c : N) : option (list base) :=
  match c with
  | 65 => Some [bA] | 67 => Some [bC] | 71 => Some [bG] | 84 => Some [bT]
  | 82 => Some [bA;bG] | 89 => Some [bC;bT] | 83 => Some [bC;bG] | 87 => Some [bA;bT]
  | 75 => Some [bG;bT] | 77 => Some [bA;bC]
  | 66 => Some [bC;bG;bT] | 68 => Some [bA;bG;bT] | 72 => Some [bA;bC;bT] | 86 => Some [bA;bC;bG]
  | 78 => Some [bA;bC;bG;bT] | 63 => Some [bA;bC;bG;bT]
  | 45 => Some (if hard then [] else [bA;bC;bG;bT])
  | _ => None
  end.
Definition denote (hard : bool) (c : N) : option (list base) := denote_up hard (upper c).
Definition valid (c : N) : bool := match denote false c with Some _ => true | None => false end.

Definition mem (a : base) (s : list base) : bool := existsb (base_eqb a) s.
Definition meets (x y : list base) : bool := existsb (fun a => mem a y) x.
Definition subset (x y : list base) : bool := forallb (fun a => mem a y) x.
Definition set_eqb (x y : list base) : bool := subset x y && subset y x.

(* "the sets of bases denoted by the two symbols are disjoint" *)
Definition disjoint_sym (hard : bool) (c1 c2 : N) : bool :=
  match denote hard c1, denote hard c2 with
  | Some x, Some y => negb (meets x y)
  | _, _ => false
  end.

(* an unambiguous base: one of ACGTacgt *)
Definition resolved (c : N) : bool :=
  match denote false c with Some [_] => true | _ => false end.
Definition base_of (c : N) : option base :=
  match denote false c with Some [b] => Some b | _ => None end.
Definition is_purine (b : base) := match b with bA | bG => true | _ => false end.

(* the 15 IUPAC nucleotide codes (upper case) and the 32 accepted characters *)
Definition iupac15 : list N := [65;67;71;84;82;89;83;87;75;77;66;68;72;86;78].
Definition accepted32 : list N := iupac15 ++ map lower iupac15 ++ [45; 63].
