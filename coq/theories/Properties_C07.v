(* Properties_C07.v — C07: raw, snp and tn93 distances equal their definitions for every pair. *)
From Coq Require Import Floats.SpecFloat.
From GF Require Import Base Alphabet Symbols FastaModel Float TopK ClosestModel DistProofs.

(* snp distance = number of columns with disjoint base sets; every length *)
Theorem C07_snp_is_count_disjoint : forall q t, Forall valid_sym q -> Forall valid_sym t ->
  snp_count (map (enc false) q) (map (enc false) t) = count2 col_disjoint q t.
Proof. exact snp_is_count_disjoint. Qed.
Print Assumptions C07_snp_is_count_disjoint.

(* raw distance = that number / (itself + columns where both carry the same unambiguous base) *)
Theorem C07_raw_counts : forall q t, Forall valid_sym q -> Forall valid_sym t ->
  raw_counts (map (enc false) q) (map (enc false) t) =
  (count2 col_disjoint q t, (count2 col_disjoint q t + count2 col_same_resolved q t)%nat).
Proof. exact raw_counts_spec. Qed.
Print Assumptions C07_raw_counts.

Theorem C07_snp_symmetric : forall q t, snp_count q t = snp_count t q.
Proof. exact snp_symmetric. Qed.
Print Assumptions C07_snp_symmetric.

Theorem C07_raw_symmetric : forall q t, Forall valid_sym q -> Forall valid_sym t ->
  raw_counts (map (enc false) q) (map (enc false) t) = raw_counts (map (enc false) t) (map (enc false) q).
Proof. exact raw_symmetric. Qed.
Print Assumptions C07_raw_symmetric.

(* raw lies in [0,1]: numerator <= denominator (rational level; the printed value is the correctly
   rounded quotient, Float.v) *)
Theorem C07_raw_in_unit : forall q t, let '(n, d) := raw_counts q t in (n <= d)%nat.
Proof. exact raw_in_unit. Qed.
Print Assumptions C07_raw_in_unit.

Theorem C07_zero_on_identical : forall s, Forall (fun c => (c < 256)%N /\ resolved c = true) s ->
  snp_count (map (enc false) s) (map (enc false) s) = 0%nat /\
  fst (raw_counts (map (enc false) s) (map (enc false) s)) = 0%nat /\
  snd (raw_counts (map (enc false) s) (map (enc false) s)) = length s.
Proof. exact zero_on_identical. Qed.
Print Assumptions C07_zero_on_identical.

(* tn93: the columns where both are A/C/G/T are counted as differences / purine transitions /
   pyrimidine transitions / identities exactly as the statement names them *)
Theorem C07_tn93_classes : forall q t, Forall valid_sym q -> Forall valid_sym t ->
  let c := tn93_counts (map (enc false) q) (map (enc false) t) in
  c_d c = count2 col_both_resolved_diff q t /\
  c_L c = (count2 col_both_resolved_diff q t + count2 col_same_resolved q t)%nat /\
  c_P1 c = count2 col_purine_ts q t /\
  c_P2 c = count2 col_pyrimidine_ts q t.
Proof. exact tn93_classes. Qed.
Print Assumptions C07_tn93_classes.
