(* Check_Gff.v — verdict for one GFF3 feature row: gff.ReadGFF (implementation) vs feature_from_line (model).  0 agree, 2 disagree *)
From Coq Require Import Floats.SpecFloat.
From GF Require Import Base FastaModel Harness LocationModel GffLineModel TopK CodonModel Indels VariantsModel.
Open Scope N_scope.
Definition ser_str (x : list N) : list N := dec_nat (length x) ++ [58] ++ x.
Fixpoint nodup_keys (seen : list (list N)) (l : list (list N)) : list (list N) :=
  match l with [] => [] | k :: t => if existsb (list_eqb k) seen then nodup_keys seen t else k :: nodup_keys (k :: seen) t end.
Definition ser_feat (f : gfeat) : list N :=
  concat (map ser_str [g_seqid f; g_source f; g_type f; dec_Z (g_start f); dec_Z (g_end f); g_score f; g_strand f; dec_nat (g_phase f)]) ++
  concat (map (fun k => [124] ++ ser_str k ++
                        concat (map (fun v => [44] ++ ser_str v) (match attr_get k (g_attrs f) with Some vs => vs | None => [] end)))
              (ssort (list N) bytes_ltb (nodup_keys [] (map fst (g_attrs f))))).
Definition check_gff (c : list N * gores) : N :=
  let '(line, g) := c in
  let m := match feature_from_line line with Ok f => Ok (ser_feat f) | Err e => Err e | Panic => Panic end in
  if agree g m then 0 else 2.
