From Coq Require Import List Arith Lia Bool Permutation.
Import ListNotations.

Section TopK.
  Variable E : Type.
  Variable lt : E -> E -> bool.   (* strict "better than" on keys *)
  Hypothesis lt_irrefl : forall x, lt x x = false.
  Hypothesis lt_trans : forall x y z, lt x y = true -> lt y z = true -> lt x z = true.
  (* negative transitivity = strict weak order *)
  Hypothesis lt_ntrans : forall x y z, lt x y = false -> lt y z = false -> lt x z = false.

  (* insert x after every element that is not worse than x, i.e. before the first y with x < y *)
  Fixpoint ins (x : E) (l : list E) : list E :=
    match l with
    | [] => [x]
    | y :: t => if lt x y then x :: y :: t else y :: ins x t
    end.

  Definition ssort (l : list E) : list E := fold_left (fun acc x => ins x acc) l [].

  Fixpoint sorted (l : list E) : Prop :=
    match l with
    | [] => True
    | x :: t => (forall y, In y t -> lt y x = false) /\ sorted t
    end.

  Lemma ssort_snoc l x : ssort (l ++ [x]) = ins x (ssort l).
  Proof. unfold ssort. rewrite fold_left_app. reflexivity. Qed.

  Lemma ins_In x l y : In y (ins x l) <-> y = x \/ In y l.
  Proof.
    induction l as [|a t IH]; simpl.
    - intuition.
    - destruct (lt x a); simpl; rewrite ?IH; intuition.
  Qed.

  Lemma ins_perm x l : Permutation (ins x l) (x :: l).
  Proof.
    induction l as [|a t IH]; simpl; [apply Permutation_refl|]. destruct (lt x a); [apply Permutation_refl|].
    eapply Permutation_trans; [apply perm_skip, IH|apply perm_swap].
  Qed.
  Lemma ssort_perm l : Permutation (ssort l) l.
  Proof.
    induction l as [|x l IH] using rev_ind; [apply Permutation_refl|]. rewrite ssort_snoc.
    eapply Permutation_trans; [apply ins_perm|]. eapply Permutation_trans; [apply perm_skip, IH|].
    apply Permutation_cons_append.
  Qed.

  Lemma ins_sorted x l : sorted l -> sorted (ins x l).
  Proof.
    induction l as [|a t IH]; simpl; intros Hs.
    - split; [intros y []|exact I].
    - destruct Hs as [Ha Ht]. destruct (lt x a) eqn:Hxa; simpl.
      + split.
        * intros y [->|Hy].
          -- destruct (lt y x) eqn:Hyx; [|reflexivity].
             pose proof (lt_trans _ _ _ Hyx Hxa) as H. rewrite lt_irrefl in H. discriminate.
          -- destruct (lt y x) eqn:Hyx; [|reflexivity].
             pose proof (lt_trans _ _ _ Hyx Hxa) as H. rewrite (Ha y Hy) in H. discriminate.
        * split; assumption.
      + split.
        * intros y Hy. apply ins_In in Hy. destruct Hy as [->|Hy]; [exact Hxa|exact (Ha y Hy)].
        * apply IH; assumption.
  Qed.

  Lemma ssort_sorted l : sorted (ssort l).
  Proof.
    induction l as [|x l IH] using rev_ind; [exact I|].
    rewrite ssort_snoc. apply ins_sorted, IH.
  Qed.

  Lemma ins_length x l : length (ins x l) = S (length l).
  Proof. induction l as [|a t IH]; simpl; [reflexivity|]. destruct (lt x a); simpl; rewrite ?IH; reflexivity. Qed.

  Lemma ssort_length l : length (ssort l) = length l.
  Proof.
    induction l as [|x l IH] using rev_ind; [reflexivity|].
    rewrite ssort_snoc, ins_length, app_length, IH. simpl. lia.
  Qed.

  (* x is not better than anything in l: it goes to the end *)
  Lemma ins_last x l : (forall y, In y l -> lt x y = false) -> ins x l = l ++ [x].
  Proof.
    induction l as [|a t IH]; simpl; intros H; [reflexivity|].
    rewrite (H a (or_introl eq_refl)). f_equal. apply IH. intros y Hy. apply H. right; exact Hy.
  Qed.

  Lemma ssort_of_sorted l : sorted l -> ssort l = l.
  Proof.
    induction l as [|x l IH] using rev_ind; intros Hs; [reflexivity|].
    rewrite ssort_snoc.
    assert (Hl : sorted l /\ forall y, In y l -> lt x y = false).
    { clear IH. induction l as [|a t IHt]; simpl in *.
      - split; [exact I|intros y []].
      - destruct Hs as [Ha Ht]. destruct (IHt Ht) as [St Hx]. split.
        + split; [|exact St]. intros y Hy. apply Ha. apply in_or_app. left; exact Hy.
        + intros y [<-|Hy]; [|exact (Hx y Hy)]. apply Ha. apply in_or_app. right. left. reflexivity. }
    destruct Hl as [Sl Hx]. rewrite (IH Sl). apply ins_last, Hx.
  Qed.

  (* firstn and ins on sorted lists *)
  Lemma firstn_ins_worse K x l :
    sorted l -> K <= length l ->
    (forall y, In y (firstn K l) -> lt x y = false) ->
    firstn K (ins x l) = firstn K l.
  Proof.
    revert l; induction K as [|K IH]; intros l Hs HK Hx; [reflexivity|].
    destruct l as [|a t]; simpl in HK; [lia|]. simpl in Hx. simpl.
    rewrite (Hx a (or_introl eq_refl)). simpl. f_equal. destruct Hs as [_ Ht].
    apply IH; [exact Ht|lia|]. intros y Hy. apply Hx. right; exact Hy.
  Qed.

  Lemma firstn_ins_firstn K x l :
    firstn K (ins x (firstn K l)) = firstn K (ins x l).
  Proof.
    revert l; induction K as [|K IH]; intros l; [reflexivity|].
    destruct l as [|a t]; [reflexivity|].
    cbn [firstn ins]. destruct (lt x a).
    - cbn [firstn]. f_equal.
      change (a :: firstn K t) with (firstn (S K) (a :: t)).
      rewrite firstn_firstn. f_equal. lia.
    - cbn [firstn]. f_equal. apply IH.
  Qed.

  (* ---- the Go admission rule ---- *)
  Definition last_opt (l : list E) : option E := match rev l with [] => None | y :: _ => Some y end.

  (* catchment state: list; "full" means length = K (and then it is sorted) *)
  Definition step (K : nat) (c : list E) (x : E) : list E :=
    if length c <? K then
      let c' := c ++ [x] in
      if length c' =? K then firstn K (ssort c') else c'
    else
      match last_opt c with
      | Some w => if lt x w then firstn K (ssort (c ++ [x])) else c
      | None => c
      end.

  Definition finish (K : nat) (c : list E) : list E :=
    if (length c <? K) && (0 <? length c) then firstn (length c) (ssort c) else c.

  Definition online (K : nat) (xs : list E) : list E := finish K (fold_left (step K) xs []).

  Definition Inv (K : nat) (seen c : list E) : Prop :=
    if length seen <? K then c = seen else c = firstn K (ssort seen).

  Lemma last_opt_snoc l x : last_opt (l ++ [x]) = Some x.
  Proof. unfold last_opt. rewrite rev_app_distr. reflexivity. Qed.

  Lemma firstn_all2 (l : list E) n : length l <= n -> firstn n l = l.
  Proof. apply firstn_all2. Qed.

  Lemma nth_last_firstn K (l : list E) w :
    0 < K -> K <= length l -> last_opt (firstn K l) = Some w ->
    exists pre, firstn K l = pre ++ [w].
  Proof.
    intros HK Hl H. unfold last_opt in H.
    destruct (rev (firstn K l)) as [|y r] eqn:Hr; [discriminate|]. injection H as ->.
    exists (rev r). rewrite <- (rev_involutive (firstn K l)), Hr. reflexivity.
  Qed.

  (* all elements of a sorted list that come before w are not worse than w *)
  Lemma sorted_app_last pre w : sorted (pre ++ [w]) -> forall y, In y pre -> lt w y = false.
  Proof.
    induction pre as [|a t IH]; simpl; intros Hs y Hy; [contradiction|].
    destruct Hs as [Ha Ht]. destruct Hy as [<-|Hy]; [|exact (IH Ht y Hy)].
    apply Ha. apply in_or_app. right. left. reflexivity.
  Qed.

  Lemma sorted_firstn K l : sorted l -> sorted (firstn K l).
  Proof.
    revert l; induction K as [|K IH]; intros l Hs; [exact I|].
    destruct l as [|a t]; [exact I|]. cbn [firstn sorted]. destruct Hs as [Ha Ht]. split; [|apply IH, Ht].
    intros y Hy. apply Ha. revert Hy. clear. revert t. induction K as [|K IHK]; intros t Hy; [contradiction|].
    destruct t as [|b u]; [contradiction|]. destruct Hy as [<-|Hy]; [left; reflexivity|right; apply IHK, Hy].
  Qed.

  Theorem step_inv K seen c x : 0 < K -> Inv K seen c -> Inv K (seen ++ [x]) (step K c x).
  Proof.
    intros HK. unfold Inv, step. rewrite app_length. cbn [length].
    destruct (length seen <? K) eqn:Hlt.
    - (* not yet full *)
      intros ->. rewrite Hlt. rewrite app_length. cbn [length].
      apply Nat.ltb_lt in Hlt.
      destruct (length seen + 1 =? K) eqn:Heq.
      + apply Nat.eqb_eq in Heq.
        replace (length seen + 1 <? K) with false by (symmetry; apply Nat.ltb_ge; lia). reflexivity.
      + apply Nat.eqb_neq in Heq.
        replace (length seen + 1 <? K) with true by (symmetry; apply Nat.ltb_lt; lia). reflexivity.
    - (* full *)
      intros ->. apply Nat.ltb_ge in Hlt.
      replace (length seen + 1 <? K) with false by (symmetry; apply Nat.ltb_ge; lia).
      assert (Hlen : length (firstn K (ssort seen)) = K).
      { rewrite firstn_length, ssort_length. lia. }
      rewrite Hlen, Nat.ltb_irrefl.
      destruct (last_opt (firstn K (ssort seen))) as [w|] eqn:Hw.
      2:{ exfalso. unfold last_opt in Hw. destruct (rev (firstn K (ssort seen))) eqn:Hr; [|discriminate].
          apply (f_equal (@length E)) in Hr. rewrite rev_length, Hlen in Hr. simpl in Hr. lia. }
      destruct (nth_last_firstn K (ssort seen) w HK ltac:(rewrite ssort_length; lia) Hw) as [pre Hpre].
      pose proof (sorted_firstn K _ (ssort_sorted seen)) as Hsf.
      rewrite (ssort_snoc seen x).
      destruct (lt x w) eqn:Hxw.
      + rewrite (ssort_snoc (firstn K (ssort seen)) x). rewrite (ssort_of_sorted _ Hsf). apply firstn_ins_firstn.
      + symmetry. apply firstn_ins_worse; [apply ssort_sorted|rewrite ssort_length; lia|].
        intros y Hy. rewrite Hpre in Hy, Hsf. apply in_app_or in Hy. destruct Hy as [Hy|[<-|[]]]; [|exact Hxw].
        pose proof (sorted_app_last pre w Hsf y Hy) as Hwy.
        exact (lt_ntrans _ _ _ Hxw Hwy).
  Qed.

  Theorem online_topk_eq_sorted_prefix K xs : 0 < K -> online K xs = firstn K (ssort xs).
  Proof.
    intros HK. unfold online.
    assert (H : forall seen c ys, Inv K seen c -> Inv K (seen ++ ys) (fold_left (step K) ys c)).
    { intros seen c ys; revert seen c; induction ys as [|y ys IH]; intros seen c Hi; cbn [fold_left].
      - rewrite app_nil_r; exact Hi.
      - replace (seen ++ y :: ys) with ((seen ++ [y]) ++ ys) by (rewrite <- app_assoc; reflexivity).
        apply IH, step_inv; assumption. }
    specialize (H [] [] xs). cbn [app] in H.
    assert (Hi : Inv K xs (fold_left (step K) xs [])) by (apply H; unfold Inv; destruct K; [lia|reflexivity]).
    unfold Inv in Hi. unfold finish. destruct (length xs <? K) eqn:Hlt; rewrite Hi.
    - rewrite Hlt. apply Nat.ltb_lt in Hlt. destruct (0 <? length xs) eqn:H0; cbn [andb].
      + rewrite !firstn_all2; rewrite ?ssort_length; try lia. reflexivity.
      + apply Nat.ltb_ge in H0. destruct xs; [destruct K; reflexivity|simpl in H0; lia].
    - apply Nat.ltb_ge in Hlt.
      replace (length (firstn K (ssort xs)) <? K) with false; [reflexivity|].
      symmetry. apply Nat.ltb_ge. rewrite firstn_length, ssort_length. lia.
  Qed.
End TopK.
Print Assumptions online_topk_eq_sorted_prefix.
