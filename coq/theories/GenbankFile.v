(* GenbankFile.v — C14: a whole GenBank flat file at the level of bytes (pkg/genbank/genbank.go ReadGenBank): bufio.ScanLines,
   blank lines skipped, a line whose first byte is a capital letter opens a section named by its first field, the lines of the
   FEATURES and ORIGIN sections are handed to parseGenbankFEATURES / parseGenbankORIGIN (GenbankModel.v) when the NEXT section
   opens or the input ends.  As in the code, the lines gathered before the first section header are NOT cleared when it opens
   (so they count as the first lines of that section).  Definitions only.
   Outside the model: non-ASCII bytes in a header line (strings.Fields), lines beyond bufio.Scanner's 64 KiB token limit. *)
From GF Require Import Base FastaModel GenbankModel.
Open Scope N_scope.

(* unicode.IsUpper(utf8.DecodeRune([]byte{line[0]})): a byte of 0x80 or more decodes to RuneError, which is not upper case *)
Definition is_upper_ascii (c : N) : bool := (65 <=? c) && (c <=? 90).

Record gbfile := { gb_features : option (list gbfeat); gb_origin : option (list N) }.     (* None = the field was never set *)
Definition gb_empty : gbfile := {| gb_features := None; gb_origin := None |}.
Record fstate := { fs_first : bool; fs_header : list N; fs_lines : list (list N); fs_gb : gbfile }.
Definition fs_init : fstate := {| fs_first := true; fs_header := []; fs_lines := []; fs_gb := gb_empty |}.

(* the switch on header: FEATURES and ORIGIN are parsed, every other section is dropped *)
Definition dispatch (h : list N) (lines : list (list N)) (g : gbfile) : res gbfile :=
  if list_eqb h (bs "FEATURES") then
    bind (parse_features lines) (fun f => Ok {| gb_features := Some f; gb_origin := gb_origin g |})
  else if list_eqb h (bs "ORIGIN") then Ok {| gb_features := gb_features g; gb_origin := Some (parse_origin lines) |}
  else Ok g.

Definition file_step (s : fstate) (line : list N) : res fstate :=
  match line with
  | [] => Ok s
  | c :: _ =>
      if is_upper_ascii c then
        match fields_go line [] with
        | [] => Panic                                                   (* strings.Fields(line)[0]; cannot happen, c is not a space *)
        | h :: _ =>
            if fs_first s then Ok {| fs_first := false; fs_header := h; fs_lines := fs_lines s; fs_gb := fs_gb s |}
            else bind (dispatch (fs_header s) (fs_lines s) (fs_gb s)) (fun g =>
                   Ok {| fs_first := false; fs_header := h; fs_lines := []; fs_gb := g |})
        end
      else Ok {| fs_first := fs_first s; fs_header := fs_header s; fs_lines := fs_lines s ++ [line]; fs_gb := fs_gb s |}
  end.
Fixpoint file_fold (s : fstate) (ls : list (list N)) : res fstate :=
  match ls with [] => Ok s | l :: t => bind (file_step s l) (fun s' => file_fold s' t) end.
Definition read_genbank_lines (ls : list (list N)) : res gbfile :=
  bind (file_fold fs_init ls) (fun s => dispatch (fs_header s) (fs_lines s) (fs_gb s)).
Definition read_genbank (file : list N) : res gbfile := read_genbank_lines (scan_lines file).
