(* Check_AnnoFile.v — verdicts for a whole annotation file: genbank.ReadGenBank vs read_genbank, gff.ReadGFF vs read_gff.  0 agree, 2 disagree *)
From Coq Require Import Floats.SpecFloat.
From GF Require Import Base FastaModel Harness LocationModel GffLineModel GenbankModel GenbankFile GffFile TopK CodonModel Indels VariantsModel Check_Gff Check_Genbank.
Open Scope N_scope.

Definition ser_gbfile (g : gbfile) : list N :=
  [70] ++ match gb_features g with None => [45] | Some fs => concat (map ser_gbfeat fs) end ++
  [79] ++ match gb_origin g with None => [45] | Some o => ser_str o end.
Definition check_gbfile (c : list N * gores) : N :=
  let '(file, g) := c in
  let m := match read_genbank file with Ok x => Ok (ser_gbfile x) | Err e => Err e | Panic => Panic end in
  if agree g m then 0 else 2.

(* a Go map printed by sorted key: the last value set for each key *)
Fixpoint last_val {V} (k : list N) (m : list (list N * V)) : option V :=
  match m with
  | [] => None
  | (k', v) :: t => match last_val k t with Some r => Some r | None => if list_eqb k k' then Some v else None end
  end.
Definition sorted_keys {V} (m : list (list N * V)) : list (list N) := ssort (list N) bytes_ltb (nodup_keys [] (map fst m)).
Definition ser_gffile (g : gffile) : list N :=
  [86] ++ ser_str (gff_version g) ++
  [82] ++ concat (map (fun k => match last_val k (gff_regions g) with
                                 | Some (s, e) => ser_str k ++ ser_str (dec_Z s) ++ ser_str (dec_Z e)
                                 | None => [] end) (sorted_keys (gff_regions g))) ++
  [70] ++ concat (map (fun f => [35] ++ ser_feat f) (gff_features g)) ++
  [65] ++ match gff_fasta g with
          | None => [45]
          | Some rs => let m := map (fun r => (r_id r, r_seq r)) rs in
                       concat (map (fun k => match last_val k m with Some s => ser_str k ++ ser_str s | None => [] end) (sorted_keys m))
          end.
Definition check_gfffile (c : list N * gores) : N :=
  let '(file, g) := c in
  let m := match read_gff file with Ok x => Ok (ser_gffile x) | Err e => Err e | Panic => Panic end in
  if agree g m then 0 else 2.
