(* Symbols.v — the symbol interface lemmas: each is a complete sweep over all 256 byte values
   (and both gap modes) evaluated by the kernel and lifted with forallb_forall.  Later proofs
   use only these lemmas, never the tables. *)
From GF Require Import Base Alphabet.
From GF Require Export SymbolsDef.
Open Scope N_scope.

Lemma sweep_valid_ok : sweep_valid = true. Proof. vm_compute. reflexivity. Qed.

Lemma sweep_enc_lt_ok : sweep_enc_lt = true. Proof. vm_compute. reflexivity. Qed.

Lemma sweep_disjoint_ok : sweep_disjoint = true. Proof. vm_compute. reflexivity. Qed.

Lemma sweep_dec_ok : sweep_dec = true. Proof. vm_compute. reflexivity. Qed.

Lemma sweep_resolved_ok : sweep_resolved = true. Proof. vm_compute. reflexivity. Qed.

Lemma sweep_pairs_ok : sweep_pairs = true. Proof. vm_compute. reflexivity. Qed.

Lemma sweep_consts_ok : sweep_consts = true. Proof. vm_compute. reflexivity. Qed.

Lemma sweep_case_ok : sweep_case = true. Proof. vm_compute. reflexivity. Qed.

Lemma sweep_score_ok : sweep_score = true. Proof. vm_compute. reflexivity. Qed.

(* -- lifted lemmas -- *)
Ltac sweep2 S h c Hc :=
  rewrite forallb_forall in S; specialize (S h (bools_In h));
  rewrite forallb_forall in S; specialize (S c (all_bytes_In c Hc)).

Theorem enc_valid_iff h c : c < 256 -> (enc h c <> 0 <-> valid c = true).
Proof.
  intros Hc. pose proof sweep_valid_ok as S. unfold sweep_valid in S. sweep2 S h c Hc.
  apply Bool.eqb_prop in S. rewrite <- S. rewrite negb_true_iff, N.eqb_neq. tauto.
Qed.

Theorem enc_lt h c : c < 256 -> enc h c < 256.
Proof.
  intros Hc. pose proof sweep_enc_lt_ok as S. unfold sweep_enc_lt in S. sweep2 S h c Hc.
  apply N.ltb_lt. exact S.
Qed.

Theorem enc_disjoint_iff h c1 c2 :
  c1 < 256 -> c2 < 256 -> valid c1 = true -> valid c2 = true ->
  (N.land (enc h c1) (enc h c2) <? 16) = disjoint_sym h c1 c2.
Proof.
  intros H1 H2 V1 V2. pose proof sweep_disjoint_ok as S. unfold sweep_disjoint in S.
  sweep2 S h c1 H1. rewrite forallb_forall in S. specialize (S c2 (all_bytes_In c2 H2)).
  rewrite V1, V2 in S. simpl in S. apply Bool.eqb_prop in S. exact S.
Qed.

Theorem dec_enc h c : c < 256 -> valid c = true -> dec (enc h c) = [upper c].
Proof.
  intros H V. pose proof sweep_dec_ok as S. unfold sweep_dec in S. sweep2 S h c H.
  rewrite V in S. simpl in S. apply list_eqb_eq in S. exact S.
Qed.

Theorem resolved_iff h c : c < 256 -> valid c = true ->
  (N.land (enc h c) 8 =? 8) = resolved c.
Proof.
  intros H V. pose proof sweep_resolved_ok as S. unfold sweep_resolved in S. sweep2 S h c H.
  rewrite V in S. simpl in S. apply Bool.eqb_prop in S. exact S.
Qed.

Theorem resolved_valid c : resolved c = true -> valid c = true.
Proof. unfold resolved, valid. destruct (denote false c); congruence. Qed.

Theorem resolved_base c : resolved c = true -> exists b, base_of c = Some b.
Proof. unfold resolved, base_of. destruct (denote false c) as [[|b [|? ?]]|]; try discriminate. eauto. Qed.

Theorem pair_facts h c1 c2 b1 b2 : c1 < 256 -> c2 < 256 ->
  base_of c1 = Some b1 -> base_of c2 = Some b2 ->
  (enc h c1 =? enc h c2) = base_eqb b1 b2 /\
  (N.lor (enc h c1) (enc h c2) =? 200) = (negb (base_eqb b1 b2) && is_purine b1 && is_purine b2) /\
  (N.lor (enc h c1) (enc h c2) =? 56) = (negb (base_eqb b1 b2) && negb (is_purine b1) && negb (is_purine b2)).
Proof.
  intros H1 H2 B1 B2. pose proof sweep_pairs_ok as S. unfold sweep_pairs in S.
  sweep2 S h c1 H1. rewrite forallb_forall in S. specialize (S c2 (all_bytes_In c2 H2)).
  assert (R1 : resolved c1 = true).
  { unfold resolved, base_of in *. destruct (denote false c1) as [[|? [|? ?]]|]; congruence. }
  assert (R2 : resolved c2 = true).
  { unfold resolved, base_of in *. destruct (denote false c2) as [[|? [|? ?]]|]; congruence. }
  rewrite R1, R2, B1, B2 in S. simpl in S.
  apply andb_true_iff in S as [S S3]. apply andb_true_iff in S as [S1 S2].
  apply Bool.eqb_prop in S1, S2, S3. auto.
Qed.

Theorem enc_consts h c : c < 256 -> valid c = true ->
  (enc h c =? 136) = (upper c =? 65) /\ (enc h c =? 40) = (upper c =? 67) /\
  (enc h c =? 72) = (upper c =? 71) /\ (enc h c =? 24) = (upper c =? 84) /\
  (enc h c =? (if h then 4 else 244)) = (c =? 45).
Proof.
  intros H V. pose proof sweep_consts_ok as S. unfold sweep_consts in S. sweep2 S h c H.
  rewrite V in S. simpl in S.
  repeat (apply andb_true_iff in S as [S ?]).
  repeat match goal with X : Bool.eqb _ _ = true |- _ => apply Bool.eqb_prop in X end. auto.
Qed.

Theorem score_spec c : c < 256 -> score c = card_score c.
Proof.
  intros H. pose proof sweep_score_ok as S. unfold sweep_score in S.
  rewrite forallb_forall in S. specialize (S c (all_bytes_In c H)).
  apply andb_true_iff in S as [S _]. apply Z.eqb_eq in S. exact S.
Qed.

Theorem escore_enc c : c < 256 -> valid c = true -> escore (enc false c) = score c.
Proof.
  intros H V. pose proof sweep_score_ok as S. unfold sweep_score in S.
  rewrite forallb_forall in S. specialize (S c (all_bytes_In c H)).
  apply andb_true_iff in S as [_ S]. rewrite V in S. simpl in S. apply Z.eqb_eq in S. exact S.
Qed.


Theorem enc_case h c : c < 256 -> enc h (upper c) = enc h c /\ enc h (lower c) = enc h c.
Proof.
  intros H. pose proof sweep_case_ok as S. unfold sweep_case in S. sweep2 S h c H.
  apply andb_true_iff in S as [S1 S2]. apply N.eqb_eq in S1, S2. auto.
Qed.
