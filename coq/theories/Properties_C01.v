(* Properties_C01.v — C01: sam toMultiAlign projects every query onto reference coordinates exactly. *)
From GF Require Import Base FastaModel Cigar SamModel SamProofs.
Open Scope N_scope.

(* the row built from one record has the reference length and, at EVERY reference position i, the cell the
   CIGAR aligns to i (`aligned`: a two-counter walk that builds no list): the query base for M/=/X, a gap
   for D, nothing for N and for positions outside the alignment; I/S consume query only, H/P nothing.
   Any CIGAR, any POS, any reference length. *)
Theorem C01_one_line_cell : forall pos ops seq reflen row,
  one_line pos ops seq reflen = Some row ->
  length row = reflen /\ forall i, (i < reflen)%nat -> nth i row Star = aligned ops 0 pos seq i.
Proof. exact one_line_cell. Qed.
Print Assumptions C01_one_line_cell.

(* several records of one query at a column: two different bases give 'N' ... *)
Theorem C01_flatten_conflict : forall site x y, In x site -> In y site ->
  is_letter x = true -> is_letter y = true -> x <> y -> nuc_from_site site = 78.
Proof. exact flatten_conflict. Qed.
Print Assumptions C01_flatten_conflict.

(* ... otherwise the greatest byte present: a base (>= 'A') beats a deletion '-' beats no coverage '*' *)
Theorem C01_flatten_priority : forall site,
  (forall x y, In x site -> In y site -> is_letter x = true -> is_letter y = true -> x = y) -> site <> [] ->
  In (nuc_from_site site) site /\ forall x, In x site -> x <= nuc_from_site site.
Proof. exact flatten_max. Qed.
Print Assumptions C01_flatten_priority.

(* uncovered positions: '-' before the first and after the last aligned base, 'N' between; all '-' when no base
   is aligned at all (first = last = length) *)
Theorem C01_flank_rule : forall s i, (i < length s)%nat ->
  let fi := match first_letter 0 s with Some k => k | None => length s end in
  let li := match last_letter 0 s None with Some k => k | None => length s end in
  nth i (swap_flank s) 0 =
    (if nth i s 0 =? 42 then
       (if Nat.ltb i fi then 45 else if Nat.ltb fi i && Nat.ltb i li then 78 else if Nat.ltb li i then 45 else 42)
     else nth i s 0).
Proof. exact flank_rule. Qed.
Print Assumptions C01_flank_rule.

(* under --pad every uncovered position is 'N' *)
Theorem C01_pad_rule : forall s i, nth i (swap_pad s) 0 = (if nth i s 0 =? 42 then 78 else nth i s 0).
Proof. exact pad_rule. Qed.
Print Assumptions C01_pad_rule.

(* unmapped (0x4) and secondary (0x100) records never contribute, wherever they sit *)
Theorem C01_skipped_never_contribute : forall l1 r l2, skipped r = true ->
  group_records (l1 ++ r :: l2) = group_records (l1 ++ l2).
Proof. exact skipped_never_contribute. Qed.
Print Assumptions C01_skipped_never_contribute.

Example C01_example :
  toma_cmd 12%nat [ {| s_name := bs "q"; s_flag := 0; s_pos := 2%nat; s_cigar := [(OS,1);(OM,3);(OD,2);(OM,2)]%nat; s_seq := bs "TACGTT" |};
                {| s_name := bs "x"; s_flag := 4; s_pos := 0%nat; s_cigar := [(OM,2%nat)]; s_seq := bs "GG" |} ] 0%nat (-1) (-1) false
  = Ok (bs ">q" ++ [10] ++ bs "--ACG--TT---" ++ [10]).
Proof. vm_compute. reflexivity. Qed.

(* composition: the row of a query block before the flank/pad rewrite has the reference length and, at EVERY reference
   position, is the flattening (C01_flatten_conflict / C01_flatten_priority) of the cells its records' CIGARs align there *)
Theorem C01_block_row_spec : forall reflen block raw, block <> [] -> seq_from_block reflen block = Some raw ->
  length raw = reflen /\
  forall i, (i < reflen)%nat ->
    nth i raw 0 = nuc_from_site (map (fun r => cell_byte (aligned (s_cigar r) 0 (s_pos r) (s_seq r) i)) block).
Proof. exact toma_block_row_spec. Qed.
Print Assumptions C01_block_row_spec.

(* the whole command: for every record list and every option set the model of sam.ToMultiAlign equals the position-wise
   specification command - one FASTA record per query block in input order (skipped records removed first), whose row
   is, position by position, the flattening of the cells the block's CIGARs align there (spec_raw), then the flank or
   --pad rule, the window and the wrapping; the command fails exactly when some record's CIGAR walk leaves its SEQ or
   the reference (the code's index panic) *)
Theorem C01_command_eq_spec : forall reflen recs wrap ts te pad,
  toma_cmd reflen recs wrap ts te pad = toma_spec_cmd reflen recs wrap ts te pad.
Proof. exact toma_cmd_eq_spec. Qed.
Print Assumptions C01_command_eq_spec.

(* the query blocks: the non-skipped records in input order, cut into non-empty runs of one query name *)
Theorem C01_group_records_spec : forall l,
  concat (group_records l) = filter (fun r => negb (skipped r)) l /\
  Forall (fun b => b <> [] /\ exists nm, forall r, In r b -> s_name r = nm) (group_records l).
Proof. exact group_records_spec. Qed.
Print Assumptions C01_group_records_spec.
