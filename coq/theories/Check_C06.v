From Coq Require Import Floats.SpecFloat.
From GF Require Import Base Alphabet SymbolsDef FastaModel Float TopK ClosestModel Harness.
Open Scope N_scope.
(* case: (mode, K, maxd, measure, table, oracle, query file, target file, observation)
   mode 0 = plain closest, 1 = closest -n/-d; maxd = Some (m, e) for the exactly representable m * 2^e *)
Definition check_C06 (c : N * nat * option (Z * Z) * N * bool * list (list (N * Z * Z)) * list N * list N * gores) : N :=
  let '(mode, K, maxd, measure, table, oracle, qf, tf, g) := c in
  let orc := map (map (fun x => let '(k, m, e) := x in sf_of k m e)) oracle in
  let md := option_map (fun me => f64_dyadic (fst me) (snd me)) maxd in
  match mode with
  | 0 => verdict g (closest_cmd measure orc qf tf) (closest_spec_cmd measure orc qf tf)
  | _ => verdict g (closestn_cmd K md measure table orc qf tf) (closestn_spec_cmd K md measure table orc qf tf)
  end.
