(* Check_Loc.v — verdict function for the GenBank location strings (C14): 0 agree, 2 model <> implementation *)
From GF Require Import Base FastaModel Harness LocationModel.
Open Scope N_scope.
Definition render_positions (ps : list Z) : list N := join [44] (map dec_Z ps).
Definition check_loc (c : bool * list N * gores) : N :=
  let '(rv, s, g) := c in
  let m := if rv then bind (is_reverse s) (fun b => Ok (if b then bs "true" else bs "false"))
           else bind (get_positions s) (fun ps => Ok (render_positions ps)) in
  if agree g m then 0 else 2.
