(* TN93Spec.v — SPEC: Tamura & Nei (1993) eq. (7) over the reals, as a function of the column
   counts of the pair (purine transitions p1, pyrimidine transitions p2, differences d, compared
   sites l) and the A/C/G/T counts of the target sequence.  Depends on the standard library's
   real-number axioms. *)
From Coq Require Import Reals ZArith.
Open Scope R_scope.

Definition tn93_R (p1 p2 d l a c g t : Z) : R :=
  let L := IZR (a + c + g + t) in
  let gA := IZR a / L in let gC := IZR c / L in let gG := IZR g / L in let gT := IZR t / L in
  let gR := gA + gG in let gY := gC + gT in
  let P1 := IZR p1 / IZR l in let P2 := IZR p2 / IZR l in let Q := IZR (d - (p1 + p2)) / IZR l in
  - (2 * gA * gG / gR) * ln (1 - gR / (2 * gA * gG) * P1 - 1 / (2 * gR) * Q)
  - (2 * gT * gC / gY) * ln (1 - gY / (2 * gT * gC) * P2 - 1 / (2 * gY) * Q)
  - 2 * (gR * gY - gA * gG * gY / gR - gT * gC * gR / gY) * ln (1 - 1 / (2 * gR * gY) * Q).

(* identical sequences: all three logarithms are ln 1 *)
Lemma tn93_zero_on_identical l a c g t : tn93_R 0 0 0 l a c g t = 0.
Proof.
  unfold tn93_R. change (0 - (0 + 0))%Z with 0%Z.
  assert (Z0 : IZR 0 / IZR l = 0) by (unfold Rdiv; apply Rmult_0_l).
  rewrite Z0. rewrite !Rmult_0_r. unfold Rminus. rewrite !Ropp_0, !Rplus_0_r, ln_1. ring.
Qed.
