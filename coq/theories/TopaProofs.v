(* TopaProofs.v — C02: the paired CIGAR walk. *)
From GF Require Import Base Alphabet SymbolsDef FastaModel Cigar SamModel TopaModel.
Open Scope N_scope.

Definition degap (l : list N) : list N := filter (fun c => negb (c =? 45)) l.
Lemma degap_app a b : degap (a ++ b) = degap a ++ degap b. Proof. apply filter_app. Qed.
Lemma degap_repeat n : degap (repeat 45 n) = [].
Proof. induction n as [|n IH]; [reflexivity|]. cbn. exact IH. Qed.
Lemma degap_id l : ~ In 45 l -> degap l = l.
Proof.
  induction l as [|c t IH]; intros H; [reflexivity|]. cbn [degap filter].
  destruct (N.eqb_spec c 45) as [->|]; [exfalso; apply H; left; reflexivity|]. cbn [negb]. fold (degap t). rewrite IH; [reflexivity|].
  intros Hin. apply H. right. exact Hin.
Qed.
Lemma slice_is s q len b : slice s q len = Some b -> b = firstn len (skipn q s) /\ (q + len <= length s)%nat.
Proof. unfold slice. destruct (Nat.leb_spec (q + len) (length s)); [|discriminate]. intros [= <-]. auto. Qed.
Lemma slice_length s q len b : slice s q len = Some b -> length b = len.
Proof. intros H. destruct (slice_is _ _ _ _ H) as [-> Hl]. rewrite firstn_length, skipn_length. lia. Qed.
Lemma skipn_In_sub {A} n (l : list A) x : In x (skipn n l) -> In x l.
Proof. revert l; induction n as [|n IH]; intros [|a l] H; cbn in *; auto. Qed.
Lemma firstn_In_sub {A} n (l : list A) x : In x (firstn n l) -> In x l.
Proof. revert l; induction n as [|n IH]; intros [|a l] H; cbn in *; try contradiction. destruct H as [->|H]; auto. Qed.
Lemma slice_sub s q len b x : slice s q len = Some b -> In x b -> In x s.
Proof. intros H Hx. destruct (slice_is _ _ _ _ H) as [-> _]. apply firstn_In_sub in Hx. eapply skipn_In_sub; eauto. Qed.
Lemma firstn_skipn_app {A} (l : list A) a b : firstn a l ++ firstn b (skipn a l) = firstn (a + b) l.
Proof.
  revert l; induction a as [|a IH]; intros l; [reflexivity|]. destruct l as [|x t]; [cbn; rewrite firstn_nil; reflexivity|].
  cbn. rewrite IH. reflexivity.
Qed.
Lemma skipn_skipn {A} (l : list A) a b : skipn a (skipn b l) = skipn (b + a) l.
Proof. revert l; induction b as [|b IH]; intros l; [reflexivity|]. destruct l as [|x t]; [cbn; rewrite skipn_nil; reflexivity|]. cbn. apply IH. Qed.

Fixpoint ref_span (ops : list (op * nat)) : nat :=
  match ops with
  | [] => 0
  | (o, len) :: t => (match o with OM | OEq | OX | OD | ON => len | _ => 0 end + ref_span t)%nat
  end.

(* the two rows of the paired walk have equal length, and the reference row with its gap columns removed is
   exactly the stretch of the reference the CIGAR consumes: reference bases are never lost, duplicated or
   invented; every CIGAR over M,I,D,N,S,H,P,=,X, with and without insertion columns *)
Theorem walk2_rows ins ops : forall q r sq ref x y, ~ In 45 ref ->
  walk2 ins ops q r sq ref = Some (x, y) ->
  length x = length y /\ degap y = firstn (ref_span ops) (skipn r ref).
Proof.
  induction ops as [|[o len] t IH]; intros q r sq ref x y Hng H; cbn [walk2 ref_span] in *.
  - injection H as <- <-. split; reflexivity.
  - assert (REFSLICE : forall b y', slice ref r len = Some b -> degap y' = firstn (ref_span t) (skipn (r + len) ref) ->
                        degap (b ++ y') = firstn (len + ref_span t) (skipn r ref)).
    { intros b y' Hb Hy. rewrite degap_app, Hy. destruct (slice_is _ _ _ _ Hb) as [Eb _].
      rewrite degap_id by (intros Hin; apply Hng; eapply slice_sub; eauto).
      rewrite Eb, <- skipn_skipn. apply firstn_skipn_app. }
    destruct o.
    + destruct (slice sq q len) as [a|] eqn:Ea; [|discriminate]. destruct (slice ref r len) as [b|] eqn:Eb; [|discriminate].
      destruct (walk2 ins t (q + len) (r + len) sq ref) as [[x' y']|] eqn:Ew; [|discriminate]. injection H as <- <-.
      destruct (IH _ _ _ _ _ _ Hng Ew) as [L D]. split; [rewrite !app_length, L, (slice_length _ _ _ _ Ea), (slice_length _ _ _ _ Eb); reflexivity|].
      apply REFSLICE; [reflexivity || assumption|assumption].
    + destruct ins.
      * destruct (slice sq q len) as [a|] eqn:Ea; [|discriminate].
        destruct (walk2 true t (q + len) r sq ref) as [[x' y']|] eqn:Ew; [|discriminate]. injection H as <- <-.
        destruct (IH _ _ _ _ _ _ Hng Ew) as [L D]. split; [rewrite !app_length, L, repeat_length, (slice_length _ _ _ _ Ea); reflexivity|].
        rewrite degap_app, degap_repeat. exact D.
      * apply (IH _ _ _ _ _ _ Hng H).
    + destruct (slice ref r len) as [b|] eqn:Eb; [|discriminate].
      destruct (walk2 ins t q (r + len) sq ref) as [[x' y']|] eqn:Ew; [|discriminate]. injection H as <- <-.
      destruct (IH _ _ _ _ _ _ Hng Ew) as [L D]. split; [rewrite !app_length, L, repeat_length, (slice_length _ _ _ _ Eb); reflexivity|].
      apply REFSLICE; [reflexivity || assumption|assumption].
    + destruct (slice ref r len) as [b|] eqn:Eb; [|discriminate].
      destruct (walk2 ins t q (r + len) sq ref) as [[x' y']|] eqn:Ew; [|discriminate]. injection H as <- <-.
      destruct (IH _ _ _ _ _ _ Hng Ew) as [L D]. split; [rewrite !app_length, L, repeat_length, (slice_length _ _ _ _ Eb); reflexivity|].
      apply REFSLICE; [reflexivity || assumption|assumption].
    + apply (IH _ _ _ _ _ _ Hng H).
    + apply (IH _ _ _ _ _ _ Hng H).
    + apply (IH _ _ _ _ _ _ Hng H).
    + destruct (slice sq q len) as [a|] eqn:Ea; [|discriminate]. destruct (slice ref r len) as [b|] eqn:Eb; [|discriminate].
      destruct (walk2 ins t (q + len) (r + len) sq ref) as [[x' y']|] eqn:Ew; [|discriminate]. injection H as <- <-.
      destruct (IH _ _ _ _ _ _ Hng Ew) as [L D]. split; [rewrite !app_length, L, (slice_length _ _ _ _ Ea), (slice_length _ _ _ _ Eb); reflexivity|].
      apply REFSLICE; [reflexivity || assumption|assumption].
    + destruct (slice sq q len) as [a|] eqn:Ea; [|discriminate]. destruct (slice ref r len) as [b|] eqn:Eb; [|discriminate].
      destruct (walk2 ins t (q + len) (r + len) sq ref) as [[x' y']|] eqn:Ew; [|discriminate]. injection H as <- <-.
      destruct (IH _ _ _ _ _ _ Hng Ew) as [L D]. split; [rewrite !app_length, L, (slice_length _ _ _ _ Ea), (slice_length _ _ _ _ Eb); reflexivity|].
      apply REFSLICE; [reflexivity || assumption|assumption].
Qed.

(* one record: rows of equal length; the reference row degapped is the reference prefix up to the alignment end *)
Theorem one_line_plus_ref_rows rc ref qrow rrow : ~ In 45 ref ->
  one_line_plus_ref true rc ref = Some (qrow, rrow) ->
  length qrow = length rrow /\ degap rrow = firstn (s_pos rc + ref_span (s_cigar rc)) ref.
Proof.
  intros Hng H. unfold one_line_plus_ref in H. destruct (Nat.ltb_spec (length ref) (s_pos rc)); [discriminate|].
  destruct (walk2 true (s_cigar rc) 0 (s_pos rc) (s_seq rc) ref) as [[x y]|] eqn:Ew; [|discriminate]. injection H as <- <-.
  destruct (walk2_rows _ _ _ _ _ _ _ _ Hng Ew) as [L D]. split.
  - rewrite !app_length, repeat_length, firstn_length, L. lia.
  - rewrite degap_app, D, degap_id.
    + apply firstn_skipn_app.
    + intros Hin. apply Hng. eapply firstn_In_sub; eauto.
Qed.

(* the window cut: trim_pair keeps the columns from that of reference base s to that of base e *)
Lemma ref_offset_length g rrow : length (ref_offset_from g rrow) = length (degap rrow).
Proof.
  revert g; induction rrow as [|c t IH]; intros g; [reflexivity|]. cbn [ref_offset_from degap filter].
  destruct (c =? 45); cbn [negb length]; rewrite IH; reflexivity.
Qed.

(* ================= one-record queries: the whole of blockToSeqPair ================= *)
From GF Require Import SamProofs.
Open Scope N_scope.

Fixpoint ins_total (ops : list (op * nat)) : nat :=
  match ops with [] => 0 | (OI, len) :: t => (len + ins_total t)%nat | _ :: t => ins_total t end.

Lemma walk2_len ops : forall q r sq ref x y, walk2 true ops q r sq ref = Some (x, y) ->
  length y = (ref_span ops + ins_total ops)%nat.
Proof.
  induction ops as [|[o len] t IH]; intros q r sq ref x y H; cbn [walk2 ref_span ins_total] in *; [injection H as <- <-; reflexivity|].
  destruct o;
    repeat match type of H with
    | match slice ?a ?b ?c with _ => _ end = _ => let E := fresh "E" in destruct (slice a b c) eqn:E; [|discriminate]
    | match walk2 ?i ?o ?a ?b ?c ?d with _ => _ end = _ => let E := fresh "E" in destruct (walk2 i o a b c d) as [[? ?]|] eqn:E; [|discriminate]
    end;
    try (injection H as <- <-; rewrite app_length;
         repeat match goal with E : slice _ _ _ = Some _ |- _ => rewrite (slice_length _ _ _ _ E); clear E end;
         rewrite ?repeat_length;
         match goal with E : walk2 _ _ _ _ _ _ = Some _ |- _ => rewrite (IH _ _ _ _ _ _ E) end; lia);
    try (apply (IH _ _ _ _ _ _ H)).
Qed.

Lemma transpose_single n : forall r, length r = n -> transpose_n n [r] = map (fun x => [x]) r.
Proof.
  induction n as [|n IH]; intros r Hl; [destruct r; [reflexivity|discriminate]|].
  destruct r as [|a t]; [discriminate|]. cbn [transpose_n map hd tl]. rewrite IH by (cbn in Hl; lia). reflexivity.
Qed.
Lemma flatten_block_single r : flatten_block [r] = r.
Proof.
  unfold flatten_block. rewrite transpose_single by reflexivity. rewrite map_map.
  induction r as [|a t IH]; [reflexivity|]. cbn [map]. rewrite nuc_single, IH. reflexivity.
Qed.

Definition tot (l : list (nat * nat * nat)) : nat := fold_left (fun a i => (a + snd (fst i))%nat) l 0%nat.
Lemma fold_add_shift l : forall a, fold_left (fun a i => (a + snd (fst i))%nat) l a = (a + tot l)%nat.
Proof.
  unfold tot. induction l as [|x t IH]; intros a; cbn [fold_left]; [lia|]. rewrite IH, (IH (0 + _)%nat). lia.
Qed.
Lemma tot_cons x l : tot (x :: l) = (snd (fst x) + tot l)%nat.
Proof. unfold tot at 1. cbn [fold_left]. rewrite fold_add_shift. lia. Qed.
Lemma tot_ins_sorted x l : tot (ins_sorted x l) = (snd (fst x) + tot l)%nat.
Proof.
  induction l as [|y t IH]; cbn [ins_sorted]; [rewrite tot_cons; reflexivity|].
  destruct (Nat.ltb _ _); rewrite !tot_cons; [reflexivity|]. rewrite IH. lia.
Qed.
Lemma tot_sort l : tot (sort_insertions l) = tot l.
Proof.
  unfold sort_insertions. assert (G : forall acc, tot (fold_left (fun acc x => ins_sorted x acc) l acc) = (tot acc + tot l)%nat).
  { induction l as [|x t IH]; intros acc; cbn [fold_left]; [unfold tot at 3; cbn; lia|]. rewrite IH, tot_ins_sorted, tot_cons. lia. }
  rewrite G. unfold tot at 1. cbn. lia.
Qed.
Lemma tot_ins_of_cigar row ops : forall pos, tot (ins_of_cigar row pos ops) = ins_total ops.
Proof.
  induction ops as [|[o len] t IH]; intros pos; cbn [ins_of_cigar ins_total]; [reflexivity|].
  destruct o; cbn [app]; rewrite ?tot_cons, IH; cbn [fst snd]; reflexivity.
Qed.
Lemma ins_of_cigar_row row ops : forall pos, Forall (fun i => snd i = row) (ins_of_cigar row pos ops).
Proof.
  induction ops as [|[o len] t IH]; intros pos; cbn [ins_of_cigar]; [constructor|]. destruct o; cbn [app]; try apply IH. constructor; [reflexivity|apply IH].
Qed.
Lemma sort_insertions_In l x : In x (sort_insertions l) <-> In x l.
Proof.
  unfold sort_insertions. assert (I1 : forall y acc, In x (ins_sorted y acc) <-> x = y \/ In x acc).
  { intros y acc. induction acc as [|a t IH]; cbn [ins_sorted]; [cbn; intuition congruence|]. destruct (Nat.ltb _ _); cbn [In]; [intuition congruence|]. rewrite IH. intuition congruence. }
  assert (G : forall acc, In x (fold_left (fun acc y => ins_sorted y acc) l acc) <-> In x acc \/ In x l).
  { induction l as [|y t IH]; intros acc; cbn [fold_left]; [cbn; tauto|]. rewrite IH, I1. cbn [In]. intuition congruence. }
  rewrite G. cbn. tauto.
Qed.
Lemma regap_own_row rq ins : Forall (fun i => snd i = 0%nat) ins -> regap [rq] ins = [rq].
Proof.
  unfold regap. induction 1 as [|[[st ln] row] t Hrow Ht IH]; [reflexivity|]. cbn [fold_left]. cbn [snd] in Hrow. subst row.
  cbn [mapi_from Nat.eqb]. exact IH.
Qed.

(* a single-record query, any CIGAR over the nine operators, any POS: the two rows have equal length, the reference row
   with its gap columns removed is EXACTLY the reference, and it has '-' in exactly as many columns as bases were inserted *)
Theorem pair1_degap_ref ref rc R Q : ~ In 45 ref -> block_to_seq_pair ref [rc] = Some (R, Q) ->
  degap R = ref /\ length R = (length ref + ins_total (s_cigar rc))%nat /\ length Q = length R.
Proof.
  intros Hng H. unfold block_to_seq_pair in H. cbn [map all_some] in H.
  destruct (one_line_plus_ref true rc ref) as [[qrow rrow]|] eqn:E1; [|discriminate]. cbn [option_map] in H.
  destruct (one_line_plus_ref_rows rc ref qrow rrow Hng E1) as [Hl Hd].
  assert (Hrl : length rrow = (s_pos rc + (ref_span (s_cigar rc) + ins_total (s_cigar rc)))%nat).
  { unfold one_line_plus_ref in E1. destruct (Nat.ltb_spec (length ref) (s_pos rc)); [discriminate|].
    destruct (walk2 true (s_cigar rc) 0 (s_pos rc) (s_seq rc) ref) as [[x y]|] eqn:Ew; [|discriminate]. injection E1 as <- <-.
    rewrite app_length, firstn_length, (walk2_len _ _ _ _ _ _ _ Ew). lia. }
  assert (Hpos : (s_pos rc + ref_span (s_cigar rc) <= length ref)%nat).
  { assert (L : length (degap rrow) = (s_pos rc + ref_span (s_cigar rc))%nat \/ (length (degap rrow) < s_pos rc + ref_span (s_cigar rc))%nat).
    { rewrite Hd, firstn_length. lia. }
    (* the walk succeeded, so every slice of the reference was in range *)
    unfold one_line_plus_ref in E1. destruct (Nat.ltb_spec (length ref) (s_pos rc)); [discriminate|].
    destruct (walk2 true (s_cigar rc) 0 (s_pos rc) (s_seq rc) ref) as [[x y]|] eqn:Ew; [|discriminate].
    assert (W : forall ops q r sq x y, walk2 true ops q r sq ref = Some (x, y) -> (r <= length ref -> r + ref_span ops <= length ref)%nat).
    { induction ops as [|[o len] t IHo]; intros q r sq x0 y0 Hw Hr; cbn [walk2 ref_span] in *; [lia|].
      destruct o;
        repeat match type of Hw with
        | match slice ?a ?b ?c with _ => _ end = _ => let E := fresh "E" in destruct (slice a b c) eqn:E; [|discriminate]
        | match walk2 ?i ?o ?a ?b ?c ?d with _ => _ end = _ => let E := fresh "E" in destruct (walk2 i o a b c d) as [[? ?]|] eqn:E; [|discriminate]
        end;
        repeat match goal with E : slice ref _ _ = Some _ |- _ => apply slice_is in E; destruct E as [_ E] end;
        match goal with
        | E : walk2 _ _ _ _ _ _ = Some _ |- _ => specialize (IHo _ _ _ _ _ E); lia
        | _ => specialize (IHo _ _ _ _ _ Hw); lia
        end. }
    apply (W _ _ _ _ _ _ Ew). assumption. }
  assert (Hrow0 : Forall (fun i => snd i = 0%nat) (sort_insertions (block_insertions [rc]))).
  { apply Forall_forall. intros i Hi. apply (proj1 (sort_insertions_In _ _)) in Hi. unfold block_insertions in Hi. cbn [mapi_from concat] in Hi. rewrite ?app_nil_r in Hi.
    pose proof (ins_of_cigar_row 0 (s_cigar rc) (s_pos rc)) as F. rewrite Forall_forall in F. apply F. exact Hi. }
  assert (Htot : tot (sort_insertions (block_insertions [rc])) = ins_total (s_cigar rc)).
  { rewrite tot_sort. unfold block_insertions. cbn [mapi_from concat]. rewrite ?app_nil_r. apply tot_ins_of_cigar. }
  cbn [map fst snd] in H. rewrite (regap_own_row (rrow, qrow) _ Hrow0) in H. cbn [map fst snd fold_left] in H.
  replace (Nat.max 0 (length rrow)) with (length rrow) in H by lia.
  unfold pad_to in H. rewrite Nat.sub_diag in H. replace (length rrow - length qrow)%nat with 0%nat in H by lia. cbn [repeat] in H. rewrite !app_nil_r in H.
  rewrite !flatten_block_single in H. fold (tot (sort_insertions (block_insertions [rc]))) in H. rewrite Htot in H.
  destruct (Nat.ltb_spec (length rrow) (ins_total (s_cigar rc) + length ref)) as [Hlt|Hge].
  - destruct (Nat.ltb_spec (length ref) (ins_total (s_cigar rc) + length ref - length rrow)); [discriminate|]. injection H as <- <-.
    replace (length ref - (ins_total (s_cigar rc) + length ref - length rrow))%nat with (s_pos rc + ref_span (s_cigar rc))%nat by lia.
    split; [|split].
    + rewrite degap_app, Hd, degap_id by (intros Hin; apply Hng; eapply skipn_In_sub; eauto). apply firstn_skipn.
    + rewrite app_length, skipn_length. lia.
    + unfold swap_pad. rewrite map_length, !app_length, repeat_length, skipn_length. lia.
  - injection H as <- <-. assert (s_pos rc + ref_span (s_cigar rc) = length ref)%nat by lia. split; [|split].
    + rewrite Hd. replace (s_pos rc + ref_span (s_cigar rc))%nat with (length ref) by lia. apply firstn_all.
    + lia.
    + unfold swap_pad. rewrite map_length. exact Hl.
Qed.

(* ================= C15: sam toPairAlign --start/--end cuts from the column of base s to that of base e ================= *)
Open Scope nat_scope.
Lemma ref_offset_from_spec (R : list N) : forall g k, k < length (degap R) ->
  exists col, col = k + nth k (ref_offset_from g R) 0 - g /\ g <= nth k (ref_offset_from g R) 0 /\
              (nth col R 0%N =? 45)%N = false /\ length (degap (firstn col R)) = k /\ col < length R.
Proof.
  induction R as [|c t IH]; intros g k Hk; [cbn in Hk; lia|]. unfold degap in *. cbn [ref_offset_from filter] in *.
  destruct (N.eqb_spec c 45) as [->|Hc]; cbn [negb] in Hk.
  - destruct (IH (S g) k Hk) as (col & Hcol & Hge & Hn & Hf & Hl). exists (S col). cbn [nth firstn filter length].
    replace (45 =? 45)%N with true by reflexivity. cbn [negb]. repeat split; try assumption; lia.
  - cbn [length] in Hk. destruct k as [|k].
    + exists 0. cbn. destruct (N.eqb_spec c 45); [contradiction|]. repeat split; lia.
    + destruct (IH g k ltac:(lia)) as (col & Hcol & Hge & Hn & Hf & Hl). exists (S col). cbn [nth firstn filter].
      destruct (N.eqb_spec c 45); [contradiction|]. cbn [negb length]. repeat split; try assumption; lia.
Qed.
Lemma ref_offset_from_length R : forall g, length (ref_offset_from g R) = length (degap R).
Proof.
  induction R as [|c t IH]; intros g; [reflexivity|]. unfold degap in *. cbn [ref_offset_from filter].
  destruct (c =? 45)%N; cbn [negb length]; rewrite IH; reflexivity.
Qed.
Lemma degap_firstn_S R col : col < length R -> (nth col R 0%N =? 45)%N = false ->
  degap (firstn (S col) R) = degap (firstn col R) ++ [nth col R 0%N].
Proof.
  revert col. induction R as [|c t IH]; intros col Hl Hn; [cbn in Hl; lia|]. destruct col as [|col].
  - cbn [firstn nth] in *. unfold degap. cbn [filter]. rewrite Hn. reflexivity.
  - cbn [firstn nth length] in *. unfold degap in *. cbn [filter]. destruct (negb (c =? 45)%N); cbn [app]; rewrite IH by (assumption || lia); reflexivity.
Qed.

Lemma degap_firstn_mono R : forall a b, a <= b -> length (degap (firstn a R)) <= length (degap (firstn b R)).
Proof.
  induction R as [|c t IH]; intros a b Hab; [rewrite !firstn_nil; lia|]. destruct a as [|a]; [cbn; lia|]. destruct b as [|b]; [lia|].
  cbn [firstn]. unfold degap in *. cbn [filter]. specialize (IH a b ltac:(lia)). destruct (negb (c =? 45)%N); cbn [length]; lia.
Qed.
Lemma firstn_add {A} (R : list A) : forall a n, firstn (a + n) R = firstn a R ++ firstn n (skipn a R).
Proof.
  induction R as [|c t IH]; intros a n; [rewrite skipn_nil, !firstn_nil; reflexivity|]. destruct a as [|a]; [reflexivity|].
  cbn [Nat.add firstn skipn app]. rewrite IH. reflexivity.
Qed.

Theorem trim_pair_cut ts te R Q R' Q' : ts <= te -> trim_pair ts te (R, Q) = Some (R', Q') ->
  1 <= ts /\ te <= length (degap R) /\
  exists a b, (nth a R 0%N =? 45)%N = false /\ length (degap (firstn a R)) = ts - 1 /\
              (nth (b - 1) R 0%N =? 45)%N = false /\ length (degap (firstn (b - 1) R)) = te - 1 /\ a < b <= length R /\
              R' = firstn (b - a) (skipn a R) /\ Q' = firstn (b - a) (skipn a Q) /\
              degap R' = firstn (te - ts + 1) (skipn (ts - 1) (degap R)).
Proof.
  intros Hle H. unfold trim_pair in H. rewrite ref_offset_from_length in H.
  destruct (Nat.ltb_spec (length (degap R)) te) as [|Hte]; [discriminate|]. destruct (Nat.eqb_spec ts 0) as [|Hts]; [discriminate|].
  cbn [orb] in H.
  destruct (ref_offset_from_spec R 0 (ts - 1) ltac:(lia)) as (a & Ha & _ & Hna & Hfa & Hla).
  destruct (ref_offset_from_spec R 0 (te - 1) ltac:(lia)) as (b1 & Hb & _ & Hnb & Hfb & Hlb).
  set (A := ts + nth (ts - 1) (ref_offset_from 0 R) 0 - 1) in *. set (B := te + nth (te - 1) (ref_offset_from 0 R) 0) in *.
  assert (EA : A = a) by (unfold A; lia). assert (EB : B = S b1) by (unfold B; lia).
  destruct (Nat.ltb_spec (length R) B); [discriminate|]. destruct (Nat.ltb_spec (length Q) B); [discriminate|].
  destruct (Nat.ltb_spec B A); [discriminate|]. cbn [orb] in H. injection H as <- <-.
  assert (HSb : length (degap (firstn (S b1) R)) = te).
  { rewrite (degap_firstn_S R b1 Hlb Hnb), app_length, Hfb. cbn [length]. lia. }
  (* the column of base ts is not right of the column of base te *)
  assert (Hab : a <= b1).
  { destruct (Nat.le_gt_cases a b1) as [|Hgt]; [assumption|]. exfalso.
    pose proof (degap_firstn_mono R (S b1) a ltac:(lia)) as Hm. lia. }
  split; [lia|]. split; [exact Hte|]. exists a, (S b1). rewrite EA, EB. replace (S b1 - 1) with b1 by lia.
  repeat (split; [first [assumption|lia|reflexivity]|]).
  (* the reference bases inside the cut *)
  set (R1 := firstn (S b1 - a) (skipn a R)).
  assert (E1 : degap (firstn (S b1) R) = degap (firstn a R) ++ degap R1).
  { replace (S b1) with (a + (S b1 - a)) at 1 by lia. rewrite firstn_add, degap_app. reflexivity. }
  assert (E2 : degap R = (degap (firstn a R) ++ degap R1) ++ degap (skipn (S b1) R)).
  { rewrite <- E1, <- degap_app, firstn_skipn. reflexivity. }
  assert (L1 : length (degap R1) = te - ts + 1).
  { pose proof (f_equal (@length N) E1) as HL. rewrite app_length, HSb, Hfa in HL. lia. }
  rewrite E2, <- app_assoc. rewrite skipn_app, Hfa, Nat.sub_diag. cbn [skipn].
  rewrite (skipn_all2 (degap (firstn a R))) by lia. cbn [app].
  rewrite firstn_app, L1, Nat.sub_diag. cbn [firstn]. rewrite app_nil_r. rewrite <- L1. apply eq_sym, firstn_all.
Qed.
