(* TopaProofs.v — C02: the paired CIGAR walk. *)
From GF Require Import Base Alphabet SymbolsDef FastaModel Cigar SamModel TopaModel.
Open Scope N_scope.

Definition degap (l : list N) : list N := filter (fun c => negb (c =? 45)) l.
Lemma degap_app a b : degap (a ++ b) = degap a ++ degap b. Proof. apply filter_app. Qed.
Lemma degap_repeat n : degap (repeat 45 n) = [].
Proof. induction n as [|n IH]; [reflexivity|]. cbn. exact IH. Qed.
Lemma degap_id l : ~ In 45 l -> degap l = l.
Proof.
  induction l as [|c t IH]; intros H; [reflexivity|]. cbn [degap filter].
  destruct (N.eqb_spec c 45) as [->|]; [exfalso; apply H; left; reflexivity|]. cbn [negb]. fold (degap t). rewrite IH; [reflexivity|].
  intros Hin. apply H. right. exact Hin.
Qed.
Lemma slice_is s q len b : slice s q len = Some b -> b = firstn len (skipn q s) /\ (q + len <= length s)%nat.
Proof. unfold slice. destruct (Nat.leb_spec (q + len) (length s)); [|discriminate]. intros [= <-]. auto. Qed.
Lemma slice_length s q len b : slice s q len = Some b -> length b = len.
Proof. intros H. destruct (slice_is _ _ _ _ H) as [-> Hl]. rewrite firstn_length, skipn_length. lia. Qed.
Lemma skipn_In_sub {A} n (l : list A) x : In x (skipn n l) -> In x l.
Proof. revert l; induction n as [|n IH]; intros [|a l] H; cbn in *; auto. Qed.
Lemma firstn_In_sub {A} n (l : list A) x : In x (firstn n l) -> In x l.
Proof. revert l; induction n as [|n IH]; intros [|a l] H; cbn in *; try contradiction. destruct H as [->|H]; auto. Qed.
Lemma slice_sub s q len b x : slice s q len = Some b -> In x b -> In x s.
Proof. intros H Hx. destruct (slice_is _ _ _ _ H) as [-> _]. apply firstn_In_sub in Hx. eapply skipn_In_sub; eauto. Qed.
Lemma firstn_skipn_app {A} (l : list A) a b : firstn a l ++ firstn b (skipn a l) = firstn (a + b) l.
Proof.
  revert l; induction a as [|a IH]; intros l; [reflexivity|]. destruct l as [|x t]; [cbn; rewrite firstn_nil; reflexivity|].
  cbn. rewrite IH. reflexivity.
Qed.
Lemma skipn_skipn {A} (l : list A) a b : skipn a (skipn b l) = skipn (b + a) l.
Proof. revert l; induction b as [|b IH]; intros l; [reflexivity|]. destruct l as [|x t]; [cbn; rewrite skipn_nil; reflexivity|]. cbn. apply IH. Qed.

Fixpoint ref_span (ops : list (op * nat)) : nat :=
  match ops with
  | [] => 0
  | (o, len) :: t => (match o with OM | OEq | OX | OD | ON => len | _ => 0 end + ref_span t)%nat
  end.

(* the two rows of the paired walk have equal length, and the reference row with its gap columns removed is
   exactly the stretch of the reference the CIGAR consumes: reference bases are never lost, duplicated or
   invented; every CIGAR over M,I,D,N,S,H,P,=,X, with and without insertion columns *)
Theorem walk2_rows ins ops : forall q r sq ref x y, ~ In 45 ref ->
  walk2 ins ops q r sq ref = Some (x, y) ->
  length x = length y /\ degap y = firstn (ref_span ops) (skipn r ref).
Proof.
  induction ops as [|[o len] t IH]; intros q r sq ref x y Hng H; cbn [walk2 ref_span] in *.
  - injection H as <- <-. split; reflexivity.
  - assert (REFSLICE : forall b y', slice ref r len = Some b -> degap y' = firstn (ref_span t) (skipn (r + len) ref) ->
                        degap (b ++ y') = firstn (len + ref_span t) (skipn r ref)).
    { intros b y' Hb Hy. rewrite degap_app, Hy. destruct (slice_is _ _ _ _ Hb) as [Eb _].
      rewrite degap_id by (intros Hin; apply Hng; eapply slice_sub; eauto).
      rewrite Eb, <- skipn_skipn. apply firstn_skipn_app. }
    destruct o.
    + destruct (slice sq q len) as [a|] eqn:Ea; [|discriminate]. destruct (slice ref r len) as [b|] eqn:Eb; [|discriminate].
      destruct (walk2 ins t (q + len) (r + len) sq ref) as [[x' y']|] eqn:Ew; [|discriminate]. injection H as <- <-.
      destruct (IH _ _ _ _ _ _ Hng Ew) as [L D]. split; [rewrite !app_length, L, (slice_length _ _ _ _ Ea), (slice_length _ _ _ _ Eb); reflexivity|].
      apply REFSLICE; [reflexivity || assumption|assumption].
    + destruct ins.
      * destruct (slice sq q len) as [a|] eqn:Ea; [|discriminate].
        destruct (walk2 true t (q + len) r sq ref) as [[x' y']|] eqn:Ew; [|discriminate]. injection H as <- <-.
        destruct (IH _ _ _ _ _ _ Hng Ew) as [L D]. split; [rewrite !app_length, L, repeat_length, (slice_length _ _ _ _ Ea); reflexivity|].
        rewrite degap_app, degap_repeat. exact D.
      * apply (IH _ _ _ _ _ _ Hng H).
    + destruct (slice ref r len) as [b|] eqn:Eb; [|discriminate].
      destruct (walk2 ins t q (r + len) sq ref) as [[x' y']|] eqn:Ew; [|discriminate]. injection H as <- <-.
      destruct (IH _ _ _ _ _ _ Hng Ew) as [L D]. split; [rewrite !app_length, L, repeat_length, (slice_length _ _ _ _ Eb); reflexivity|].
      apply REFSLICE; [reflexivity || assumption|assumption].
    + destruct (slice ref r len) as [b|] eqn:Eb; [|discriminate].
      destruct (walk2 ins t q (r + len) sq ref) as [[x' y']|] eqn:Ew; [|discriminate]. injection H as <- <-.
      destruct (IH _ _ _ _ _ _ Hng Ew) as [L D]. split; [rewrite !app_length, L, repeat_length, (slice_length _ _ _ _ Eb); reflexivity|].
      apply REFSLICE; [reflexivity || assumption|assumption].
    + apply (IH _ _ _ _ _ _ Hng H).
    + apply (IH _ _ _ _ _ _ Hng H).
    + apply (IH _ _ _ _ _ _ Hng H).
    + destruct (slice sq q len) as [a|] eqn:Ea; [|discriminate]. destruct (slice ref r len) as [b|] eqn:Eb; [|discriminate].
      destruct (walk2 ins t (q + len) (r + len) sq ref) as [[x' y']|] eqn:Ew; [|discriminate]. injection H as <- <-.
      destruct (IH _ _ _ _ _ _ Hng Ew) as [L D]. split; [rewrite !app_length, L, (slice_length _ _ _ _ Ea), (slice_length _ _ _ _ Eb); reflexivity|].
      apply REFSLICE; [reflexivity || assumption|assumption].
    + destruct (slice sq q len) as [a|] eqn:Ea; [|discriminate]. destruct (slice ref r len) as [b|] eqn:Eb; [|discriminate].
      destruct (walk2 ins t (q + len) (r + len) sq ref) as [[x' y']|] eqn:Ew; [|discriminate]. injection H as <- <-.
      destruct (IH _ _ _ _ _ _ Hng Ew) as [L D]. split; [rewrite !app_length, L, (slice_length _ _ _ _ Ea), (slice_length _ _ _ _ Eb); reflexivity|].
      apply REFSLICE; [reflexivity || assumption|assumption].
Qed.

(* one record: rows of equal length; the reference row degapped is the reference prefix up to the alignment end *)
Theorem one_line_plus_ref_rows rc ref qrow rrow : ~ In 45 ref ->
  one_line_plus_ref true rc ref = Some (qrow, rrow) ->
  length qrow = length rrow /\ degap rrow = firstn (s_pos rc + ref_span (s_cigar rc)) ref.
Proof.
  intros Hng H. unfold one_line_plus_ref in H. destruct (Nat.ltb_spec (length ref) (s_pos rc)); [discriminate|].
  destruct (walk2 true (s_cigar rc) 0 (s_pos rc) (s_seq rc) ref) as [[x y]|] eqn:Ew; [|discriminate]. injection H as <- <-.
  destruct (walk2_rows _ _ _ _ _ _ _ _ Hng Ew) as [L D]. split.
  - rewrite !app_length, repeat_length, firstn_length, L. lia.
  - rewrite degap_app, D, degap_id.
    + apply firstn_skipn_app.
    + intros Hin. apply Hng. eapply firstn_In_sub; eauto.
Qed.

(* the window cut: trim_pair keeps the columns from that of reference base s to that of base e *)
Lemma ref_offset_length g rrow : length (ref_offset_from g rrow) = length (degap rrow).
Proof.
  revert g; induction rrow as [|c t IH]; intros g; [reflexivity|]. cbn [ref_offset_from degap filter].
  destruct (c =? 45); cbn [negb length]; rewrite IH; reflexivity.
Qed.
