(* UpdownCsv.v — C09: the CSV that `updown list` writes, read back by `updown topranking`
   (pkg/updown/list.go writeOutput; input.go readCSVToUDLList / readCSVToUDLChan / getAmbArr), at the level of
   the five fields of a record (encoding/csv, which splits a line into fields, is a trusted library). *)
From Coq Require Import Floats.SpecFloat.
From GF Require Import Base Alphabet SymbolsDef FastaModel SnpsModel UpdownListModel Float TopK Balance TopRankModel.
Open Scope N_scope.

(* writer: the five fields of a row *)
Definition fields_of_udl (u : udl) : list (list N) :=
  [u_id u; join [124] (u_snps u); join [124] (map range_text (u_ambs u)); dec_nat (length (u_snps u)); dec_nat (u_ambc u)].

(* reader *)
Fixpoint split_on (s : N) (l : list N) (rcur : list N) : list (list N) :=
  match l with
  | [] => [rev rcur]
  | c :: t => if c =? s then rev rcur :: split_on s t [] else split_on s t (c :: rcur)
  end.
Definition parse_nat (l : list N) : option nat := option_map N.to_nat (parse_N l).
Definition snp_pos_of_text (t : list N) : option nat := parse_nat (removelast (tl t)).      (* snp[1:len-1] *)
Definition parse_range (a : list N) : option (nat * nat) :=
  match split_on 45 a [] with
  | [x] => match parse_nat x with Some p => Some (p, p) | None => None end
  | [x; y] => match parse_nat x, parse_nat y with Some p, Some q => Some (p, q) | _, _ => None end
  | _ => None
  end.
Fixpoint all_some_l {A} (l : list (option A)) : option (list A) :=
  match l with [] => Some [] | Some a :: t => option_map (cons a) (all_some_l t) | None :: _ => None end.
Definition udl_of_fields (f : list (list N)) : option udl :=
  match f with
  | [id; snps; ambs; _; ambc] =>
      let texts := match snps with [] => [] | _ => split_on 124 snps [] end in
      let ranges := match ambs with [] => Some [] | _ => all_some_l (map parse_range (split_on 124 ambs [])) end in
      match all_some_l (map snp_pos_of_text texts), ranges, parse_nat ambc with
      | Some ps, Some rs, Some ac => Some {| u_id := id; u_snps := texts; u_pos := ps; u_ambs := rs; u_ambc := ac |}
      | _, _, _ => None
      end
  | _ => None
  end.

(* ---------- round trip ---------- *)
Lemma split_on_app s x : ~ In s x -> forall t rcur, split_on s (x ++ t) rcur = split_on s t (rev x ++ rcur).
Proof.
  induction x as [|c x IH]; intros Hn t rcur; [reflexivity|]. cbn [app split_on].
  destruct (N.eqb_spec c s) as [->|]; [exfalso; apply Hn; left; reflexivity|].
  rewrite IH by (intros H; apply Hn; right; exact H). cbn [rev]. rewrite <- app_assoc. reflexivity.
Qed.
Lemma split_join s l : l <> [] -> Forall (fun x => ~ In s x) l -> split_on s (join [s] l) [] = l.
Proof.
  intros Hne H. induction H as [|x t Hx Ht IH]; [congruence|]. destruct t as [|y t'].
  - cbn [join]. rewrite <- (app_nil_r x) at 1. rewrite split_on_app by exact Hx. cbn. rewrite app_nil_r, rev_involutive. reflexivity.
  - change (join [s] (x :: y :: t')) with (x ++ [s] ++ join [s] (y :: t')). rewrite split_on_app by exact Hx.
    cbn [app split_on]. rewrite N.eqb_refl, app_nil_r, rev_involutive. f_equal. apply IH. discriminate.
Qed.

Lemma parse_nat_dec n : parse_nat (dec_nat n) = Some n.
Proof. unfold parse_nat, dec_nat. rewrite parse_dec_N. cbn. rewrite Nat2N.id. reflexivity. Qed.
Lemma dec_nat_no (c : N) n : is_digit c = false -> ~ In c (dec_nat n).
Proof.
  intros Hc Hin. unfold dec_nat in Hin. pose proof (dec_N_digits (N.of_nat n)) as D. rewrite forallb_forall in D.
  specialize (D c Hin). congruence.
Qed.
Lemma dec_nat_nonempty n : dec_nat n <> []. Proof. apply dec_N_nonempty. Qed.

(* well-formed line: every SNP text is <one byte><decimal position><one byte> with the position the one recorded,
   no text contains '|'; (what getLines produces) *)
Definition wf_snp (t : list N) (p : nat) : Prop := exists a b, t = a :: dec_nat p ++ [b] /\ a <> 124 /\ b <> 124.
Definition wf_udl (u : udl) : Prop := Forall2 wf_snp (u_snps u) (u_pos u).

Lemma removelast_app_one {A} (l : list A) x : removelast (l ++ [x]) = l.
Proof. apply removelast_last. Qed.
Lemma snp_pos_roundtrip t p : wf_snp t p -> snp_pos_of_text t = Some p.
Proof. intros (a & b & -> & _). unfold snp_pos_of_text. cbn [tl]. rewrite removelast_app_one. apply parse_nat_dec. Qed.
Lemma wf_snp_no_bar t p : wf_snp t p -> ~ In 124 t.
Proof.
  intros (a & b & -> & Ha & Hb) [H|H]; [congruence|]. apply in_app_or in H as [H|[H|[]]]; [|congruence].
  revert H. apply dec_nat_no. reflexivity.
Qed.

Lemma parse_range_text r : parse_range (range_text r) = Some r.
Proof.
  destruct r as [a b]. unfold range_text, parse_range. cbn [fst snd]. destruct (Nat.eqb_spec a b) as [->|Hne].
  - rewrite <- (app_nil_r (dec_nat b)) at 1. rewrite split_on_app by (apply dec_nat_no; reflexivity). cbn.
    rewrite app_nil_r, rev_involutive, parse_nat_dec. reflexivity.
  - rewrite split_on_app by (apply dec_nat_no; reflexivity). cbn [app split_on]. rewrite N.eqb_refl, app_nil_r, rev_involutive.
    rewrite <- (app_nil_r (dec_nat b)) at 1. rewrite split_on_app by (apply dec_nat_no; reflexivity). cbn.
    rewrite app_nil_r, rev_involutive, !parse_nat_dec. reflexivity.
Qed.
Lemma range_text_no_bar r : ~ In 124 (range_text r).
Proof.
  destruct r as [a b]. unfold range_text. cbn [fst snd]. destruct (Nat.eqb a b).
  - apply dec_nat_no. reflexivity.
  - intros H. apply in_app_or in H as [H|H]; [revert H; apply dec_nat_no; reflexivity|].
    cbn [app In] in H. destruct H as [H|H]; [discriminate|]. revert H. apply dec_nat_no. reflexivity.
Qed.
Lemma range_text_nonempty r : range_text r <> [].
Proof.
  destruct r as [a b]. unfold range_text. cbn [fst snd]. destruct (Nat.eqb a b); [apply dec_nat_nonempty|].
  intros H. apply app_eq_nil in H as [H _]. revert H. apply dec_nat_nonempty.
Qed.
Lemma join_nonempty s (l : list (list N)) : l <> [] -> Forall (fun x => x <> []) l -> join [s] l <> [].
Proof.
  intros Hne H. destruct H as [|x t Hx Ht]; [congruence|]. destruct t; cbn [join]; [exact Hx|].
  intros E. apply app_eq_nil in E as [E _]. contradiction.
Qed.

Lemma wf_texts ts ps : Forall2 wf_snp ts ps -> Forall (fun x => ~ In 124 x) ts /\ Forall (fun x : list N => x <> []) ts.
Proof.
  induction 1 as [|t p ts ps Htp Hr [IH1 IH2]]; [split; constructor|]. split; constructor; try assumption.
  - eapply wf_snp_no_bar; eauto.
  - destruct Htp as (a & b & -> & _). discriminate.
Qed.

Theorem csv_roundtrip u : wf_udl u -> udl_of_fields (fields_of_udl u) = Some u.
Proof.
  intros Hw. unfold fields_of_udl, udl_of_fields.
  assert (T : match join [124] (u_snps u) with [] => [] | _ => split_on 124 (join [124] (u_snps u)) [] end = u_snps u).
  { destruct (u_snps u) as [|t ts] eqn:E; [reflexivity|].
    unfold wf_udl in Hw. rewrite E in Hw. destruct (wf_texts _ _ Hw) as [Hnb Hne].
    pose proof (join_nonempty 124 (t :: ts) ltac:(discriminate) Hne) as J.
    destruct (join [124] (t :: ts)) eqn:Ej; [congruence|]. rewrite <- Ej. apply split_join; [discriminate|exact Hnb]. }
  rewrite T.
  assert (P : all_some_l (map snp_pos_of_text (u_snps u)) = Some (u_pos u)).
  { unfold wf_udl in Hw. revert Hw. generalize (u_snps u) (u_pos u). induction 1 as [|t p ts ps Htp Hr IH]; [reflexivity|].
    cbn [map all_some_l]. rewrite (snp_pos_roundtrip _ _ Htp), IH. reflexivity. }
  rewrite P.
  assert (R : match join [124] (map range_text (u_ambs u)) with
              | [] => Some [] | _ => all_some_l (map parse_range (split_on 124 (join [124] (map range_text (u_ambs u))) [])) end = Some (u_ambs u)).
  { destruct (u_ambs u) as [|r rs] eqn:E; [reflexivity|].
    assert (J : join [124] (map range_text (r :: rs)) <> []).
    { apply join_nonempty; [discriminate|]. apply Forall_forall. intros x Hx. apply in_map_iff in Hx as (y & <- & _). apply range_text_nonempty. }
    destruct (join [124] (map range_text (r :: rs))) eqn:Ej; [congruence|]. rewrite <- Ej.
    rewrite split_join; [|discriminate|apply Forall_forall; intros x Hx; apply in_map_iff in Hx as (y & <- & _); apply range_text_no_bar].
    rewrite map_map. generalize (r :: rs). induction l0 as [|x l0 IH]; [reflexivity|]. cbn [map all_some_l].
    rewrite parse_range_text, IH. reflexivity. }
  rewrite R, parse_nat_dec. destruct u; reflexivity.
Qed.

(* ---------- the lines getLines produces are well-formed ---------- *)
From GF Require Import Symbols SnpsProofs UpdownListProofs.
Open Scope N_scope.
Lemma upper_not_bar c : valid c = true -> upper c <> 124.
Proof.
  intros V E. unfold upper in E. destruct ((97 <=? c) && (c <=? 122)) eqn:B.
  - apply andb_true_iff in B as [B1 B2]. apply N.leb_le in B1, B2. lia.
  - subst c. vm_compute in V. discriminate.
Qed.
Lemma dec_enc_one (l : list N) k : all_valid l -> (k < length l)%nat ->
  exists a, dec (nth k (map (enc false) l) 0) = [a] /\ a <> 124.
Proof.
  intros Hl Hk. rewrite (nth_indep _ 0 (enc false 0)) by (rewrite map_length; exact Hk). rewrite map_nth.
  unfold all_valid in Hl. rewrite Forall_forall in Hl. destruct (Hl (nth k l 0) (nth_In _ _ Hk)) as [H1 H2].
  exists (upper (nth k l 0)). split; [apply dec_enc; assumption|apply upper_not_bar; exact H2].
Qed.

Theorem udl_of_seq_wf ref q id : all_valid ref -> all_valid q ->
  wf_udl (udl_of_seq (map (enc false) ref) id (map (enc false) q)).
Proof.
  intros Hr Hq. unfold wf_udl, udl_of_seq. rewrite cols_of_spec by assumption. rewrite get_line_spec. cbn [u_snps u_pos].
  assert (B : forall p, In p (spec_snp_pos 1 (spec_cols ref q)) -> (1 <= p <= Nat.min (length ref) (length q))%nat).
  { intros p Hp. apply spec_snp_pos_bounds in Hp. rewrite spec_cols_length in Hp. lia. }
  induction (spec_snp_pos 1 (spec_cols ref q)) as [|p ps IH]; [constructor|]. cbn [map]. constructor.
  - destruct (B p (or_introl eq_refl)) as [B1 B2]. unfold wf_snp, snp_text.
    destruct (dec_enc_one ref (p - 1) Hr ltac:(lia)) as (a & Ea & Ha). destruct (dec_enc_one q (p - 1) Hq ltac:(lia)) as (b & Eb & Hb).
    rewrite Ea, Eb. exists a, b. auto.
  - apply IH. intros p' Hp'. apply B. right. exact Hp'.
Qed.

(* reading back the CSV row of a sequence gives the line computed from the sequence itself *)
Theorem csv_roundtrip_of_seq ref q id : all_valid ref -> all_valid q ->
  let u := udl_of_seq (map (enc false) ref) id (map (enc false) q) in udl_of_fields (fields_of_udl u) = Some u.
Proof. intros Hr Hq. apply csv_roundtrip. apply udl_of_seq_wf; assumption. Qed.

(* hence the command computes the same thing whichever form each input takes *)
Definition via_csv (u : udl) : udl := match udl_of_fields (fields_of_udl u) with Some u' => u' | None => u end.
Theorem topranking_input_format_irrelevant o qs ts : Forall wf_udl qs -> Forall wf_udl ts ->
  topranking_core o (map via_csv qs) ts = topranking_core o qs ts /\
  topranking_core o qs (map via_csv ts) = topranking_core o qs ts /\
  topranking_core o (map via_csv qs) (map via_csv ts) = topranking_core o qs ts.
Proof.
  intros Hq Ht.
  assert (E : forall l, Forall wf_udl l -> map via_csv l = l).
  { induction 1 as [|u l Hu Hl IH]; [reflexivity|]. cbn [map]. unfold via_csv at 1. rewrite (csv_roundtrip u Hu), IH. reflexivity. }
  rewrite (E qs Hq), (E ts Ht). auto.
Qed.
