(* DistProofs.v — C07: snp, raw and the tn93 column classes equal their definitions *)
From Coq Require Import Floats.SpecFloat.
From GF Require Import Base Alphabet Symbols FastaModel Float TopK ClosestModel.
Open Scope N_scope.

Definition valid_sym (c : N) : Prop := c < 256 /\ valid c = true.

(* SPEC: column classes from the meaning of the symbols *)
Definition col_disjoint (a b : N) : bool := disjoint_sym false a b.
Definition col_same_resolved (a b : N) : bool :=
  match base_of a, base_of b with Some x, Some y => base_eqb x y | _, _ => false end.
Definition col_both_resolved_diff (a b : N) : bool :=
  match base_of a, base_of b with Some x, Some y => negb (base_eqb x y) | _, _ => false end.
Definition col_purine_ts (a b : N) : bool :=
  match base_of a, base_of b with Some x, Some y => negb (base_eqb x y) && is_purine x && is_purine y | _, _ => false end.
Definition col_pyrimidine_ts (a b : N) : bool :=
  match base_of a, base_of b with Some x, Some y => negb (base_eqb x y) && negb (is_purine x) && negb (is_purine y) | _, _ => false end.
Fixpoint count2 (f : N -> N -> bool) (q t : list N) : nat :=
  match q, t with a :: q', b :: t' => ((if f a b then 1 else 0) + count2 f q' t')%nat | _, _ => 0%nat end.

Lemma base_of_resolved c : resolved c = true -> exists b, base_of c = Some b.
Proof. apply resolved_base. Qed.
Lemma base_of_none c : resolved c = false -> base_of c = None.
Proof. unfold resolved, base_of. destruct (denote false c) as [[|b [|? ?]]|]; try reflexivity. discriminate. Qed.
Lemma base_of_denote c b : base_of c = Some b -> denote false c = Some [b].
Proof. unfold base_of. destruct (denote false c) as [[|x [|? ?]]|]; try discriminate. intros [= ->]. reflexivity. Qed.

Lemma disjoint_resolved a b x y : base_of a = Some x -> base_of b = Some y -> disjoint_sym false a b = negb (base_eqb x y).
Proof.
  intros Ha Hb. unfold disjoint_sym. rewrite (base_of_denote _ _ Ha), (base_of_denote _ _ Hb).
  unfold meets, mem. cbn. rewrite !orb_false_r. reflexivity.
Qed.

Theorem snp_is_count_disjoint q t : Forall valid_sym q -> Forall valid_sym t ->
  snp_count (map (enc false) q) (map (enc false) t) = count2 col_disjoint q t.
Proof.
  intros Hq. revert t. induction Hq as [|a q' [Ha Va] Hq' IH]; intros t Ht; [reflexivity|].
  destruct Ht as [|b t' [Hb Vb] Ht']; [reflexivity|]. cbn [map snp_count count2].
  rewrite (enc_disjoint_iff false a b Ha Hb Va Vb), IH by assumption. reflexivity.
Qed.

Lemma same_test a b : valid_sym a -> valid_sym b ->
  (N.land (enc false a) 8 =? 8) && (enc false a =? enc false b) = col_same_resolved a b.
Proof.
  intros [Ha Va] [Hb Vb]. rewrite (resolved_iff false a Ha Va). unfold col_same_resolved.
  destruct (resolved a) eqn:Ra; cbn [andb].
  - destruct (base_of_resolved a Ra) as [x Hx]. rewrite Hx.
    destruct (resolved b) eqn:Rb.
    + destruct (base_of_resolved b Rb) as [y Hy]. rewrite Hy.
      destruct (pair_facts false a b x y Ha Hb Hx Hy) as (E & _ & _). exact E.
    + rewrite (base_of_none b Rb).
      (* a resolved, b not: encodings differ because the resolved bit differs *)
      destruct (N.eqb_spec (enc false a) (enc false b)) as [E|]; [|reflexivity].
      pose proof (resolved_iff false a Ha Va) as R1. pose proof (resolved_iff false b Hb Vb) as R2.
      rewrite E, R2, Rb in R1. rewrite Ra in R1. discriminate.
  - rewrite (base_of_none a Ra). reflexivity.
Qed.

Theorem raw_counts_spec q t : Forall valid_sym q -> Forall valid_sym t ->
  raw_counts (map (enc false) q) (map (enc false) t) =
  (count2 col_disjoint q t, (count2 col_disjoint q t + count2 col_same_resolved q t)%nat).
Proof.
  intros Hq. revert t. induction Hq as [|a q' Ha Hq' IH]; intros t Ht; [reflexivity|].
  destruct Ht as [|b t' Hb Ht']; [reflexivity|]. cbn [map raw_counts count2].
  rewrite IH by assumption. rewrite (same_test a b Ha Hb).
  destruct Ha as [Ha Va], Hb as [Hb Vb]. rewrite (enc_disjoint_iff false a b Ha Hb Va Vb). unfold col_disjoint.
  destruct (disjoint_sym false a b), (col_same_resolved a b); f_equal; lia.
Qed.

(* symmetry, range, zero on identical unambiguous sequences *)
Theorem snp_symmetric q t : snp_count q t = snp_count t q.
Proof.
  revert t; induction q as [|a q IH]; intros [|b t]; try reflexivity. cbn [snp_count]. rewrite (N.land_comm a b), IH. reflexivity.
Qed.
Theorem raw_symmetric q t : Forall valid_sym q -> Forall valid_sym t ->
  raw_counts (map (enc false) q) (map (enc false) t) = raw_counts (map (enc false) t) (map (enc false) q).
Proof.
  intros Hq Ht. rewrite !raw_counts_spec by assumption.
  assert (S1 : forall f, (forall a b, f a b = f b a) -> forall q t, count2 f q t = count2 f t q).
  { intros f Hf. induction q0 as [|a q0 IH]; intros [|b t0]; try reflexivity. cbn [count2]. rewrite Hf, IH. reflexivity. }
  rewrite (S1 col_disjoint), (S1 col_same_resolved); [reflexivity| |].
  - intros a b. unfold col_same_resolved. destruct (base_of a), (base_of b); try reflexivity. destruct b0, b1; reflexivity.
  - intros a b. unfold col_disjoint, disjoint_sym. destruct (denote false a) as [x|], (denote false b) as [y|]; try reflexivity.
    f_equal. unfold meets, mem.
    assert (M : forall x y, existsb (fun a0 => existsb (base_eqb a0) y) x = true -> existsb (fun a0 => existsb (base_eqb a0) x) y = true).
    { intros x0 y0 H. apply existsb_exists in H as (u & Hu & H). apply existsb_exists in H as (v & Hv & H).
      apply base_eqb_eq in H. subst v. apply existsb_exists. exists u. split; [exact Hv|]. apply existsb_exists. exists u. split; [exact Hu|]. apply base_eqb_eq. reflexivity. }
    destruct (existsb _ x) eqn:E1, (existsb _ y) eqn:E2; try reflexivity.
    + apply M in E1. congruence.
    + apply M in E2. congruence.
Qed.
Theorem raw_in_unit q t : let '(n, d) := raw_counts q t in (n <= d)%nat.
Proof.
  revert t; induction q as [|a q IH]; intros [|b t]; cbn [raw_counts]; try lia.
  specialize (IH t). destruct (raw_counts q t) as [n d]. destruct (N.land a b <? 16), ((N.land a 8 =? 8) && (a =? b)); lia.
Qed.
Theorem zero_on_identical s : Forall (fun c => c < 256 /\ resolved c = true) s ->
  snp_count (map (enc false) s) (map (enc false) s) = 0%nat /\
  fst (raw_counts (map (enc false) s) (map (enc false) s)) = 0%nat /\
  snd (raw_counts (map (enc false) s) (map (enc false) s)) = length s.
Proof.
  induction 1 as [|c t [Hc Rc] Ht (I1 & I2 & I3)]; [repeat split; reflexivity|].
  pose proof (resolved_valid c Rc) as Vc. destruct (base_of_resolved c Rc) as [x Hx].
  cbn [map snp_count raw_counts length]. destruct (raw_counts (map (enc false) t) (map (enc false) t)) as [n d]. cbn [fst snd] in *.
  rewrite (enc_disjoint_iff false c c Hc Hc Vc Vc), (disjoint_resolved c c x x Hx Hx).
  rewrite (resolved_iff false c Hc Vc), Rc, N.eqb_refl.
  assert (base_eqb x x = true) as -> by (apply base_eqb_eq; reflexivity). cbn. repeat split; lia.
Qed.

(* tn93: every column is counted in exactly the class the statement names *)
Theorem tn93_classes q t : Forall valid_sym q -> Forall valid_sym t ->
  let c := tn93_counts (map (enc false) q) (map (enc false) t) in
  c_d c = count2 col_both_resolved_diff q t /\
  c_L c = (count2 col_both_resolved_diff q t + count2 col_same_resolved q t)%nat /\
  c_P1 c = count2 col_purine_ts q t /\
  c_P2 c = count2 col_pyrimidine_ts q t.
Proof.
  intros Hq. revert t. induction Hq as [|a q' Ha Hq' IH]; intros t Ht; [cbn; auto|].
  destruct Ht as [|b t' Hb Ht']; [cbn; auto|]. cbn [map tn93_counts count2].
  destruct (IH t' Ht') as (I1 & I2 & I3 & I4). clear IH.
  rewrite (same_test a b Ha Hb).
  destruct Ha as [Ha Va], Hb as [Hb Vb].
  rewrite (enc_disjoint_iff false a b Ha Hb Va Vb), (resolved_iff false a Ha Va), (resolved_iff false b Hb Vb).
  unfold col_both_resolved_diff, col_same_resolved, col_purine_ts, col_pyrimidine_ts in *.
  destruct (resolved a) eqn:Ra; [destruct (base_of_resolved a Ra) as [x Hx]|rewrite ?(base_of_none a Ra)];
  (destruct (resolved b) eqn:Rb; [destruct (base_of_resolved b Rb) as [y Hy]|rewrite ?(base_of_none b Rb)]);
  try rewrite Hx; try rewrite Hy; rewrite ?andb_false_r; cbn [andb].
  - rewrite (disjoint_resolved a b x y Hx Hy).
    destruct (pair_facts false a b x y Ha Hb Hx Hy) as (_ & E2 & E3). rewrite E2, E3.
    destruct (base_eqb x y) eqn:Exy; cbn [negb andb].
    + cbn [c_d c_L c_P1 c_P2]. repeat split; lia.
    + destruct (is_purine x), (is_purine y); cbn [negb andb c_d c_L c_P1 c_P2]; repeat split; lia.
  - destruct (disjoint_sym false a b); cbn [c_d c_L c_P1 c_P2]; repeat split; lia.
  - destruct (disjoint_sym false a b); cbn [c_d c_L c_P1 c_P2]; repeat split; lia.
  - destruct (disjoint_sym false a b); cbn [c_d c_L c_P1 c_P2]; repeat split; lia.
Qed.
