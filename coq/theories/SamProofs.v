(* SamProofs.v — C01 / C15: flattening, flank and window rules of sam toMultiAlign. *)
From GF Require Import Base FastaModel Cigar SamModel.
Open Scope N_scope.

(* ---------- unmapped and secondary records never contribute ---------- *)
Theorem skipped_never_contribute l1 r l2 : skipped r = true ->
  group_records (l1 ++ r :: l2) = group_records (l1 ++ l2).
Proof. intros H. unfold group_records. rewrite !filter_app. cbn [filter]. rewrite H. reflexivity. Qed.

(* ---------- per-column flattening: base beats deletion beats nothing; two different bases give N ---------- *)
Lemma dedup_In x l : In x (dedup_bytes l) <-> In x l.
Proof.
  induction l as [|a t IH]; cbn [dedup_bytes fold_right]; [tauto|]. fold (dedup_bytes t).
  destruct (existsb (N.eqb a) (dedup_bytes t)) eqn:E.
  - apply existsb_exists in E as (y & Hy & Ha). apply N.eqb_eq in Ha. subst y. rewrite IH. cbn [In].
    split; [tauto|]. intros [<-|H]; [apply IH; exact Hy|exact H].
  - cbn [In]. rewrite IH. tauto.
Qed.
Lemma dedup_NoDup l : NoDup (dedup_bytes l).
Proof.
  induction l as [|a t IH]; cbn [dedup_bytes fold_right]; [constructor|]. fold (dedup_bytes t).
  destruct (existsb (N.eqb a) (dedup_bytes t)) eqn:E; [exact IH|]. constructor; [|exact IH].
  intros Hin. assert (existsb (N.eqb a) (dedup_bytes t) = true) by (apply existsb_exists; exists a; split; [exact Hin|apply N.eqb_refl]). congruence.
Qed.
Lemma two_in_nodup (l : list N) x y : NoDup l -> In x l -> In y l -> x <> y -> (2 <= length l)%nat.
Proof.
  intros Hn Hx Hy Hne. destruct l as [|a [|b t]]; cbn [length]; try lia.
  - destruct Hx.
  - destruct Hx as [<-|[]], Hy as [<-|[]]. congruence.
Qed.
Lemma fold_max_ge l : forall a x, In x l \/ x = a -> x <= fold_left N.max l a.
Proof.
  induction l as [|b t IH]; intros a x H; cbn [fold_left].
  - destruct H as [[] | ->]. lia.
  - destruct H as [[<- | H] | ->]; [|apply IH; left; exact H|];
      (transitivity (N.max a b); [lia|apply IH; right; reflexivity]).
Qed.
Lemma fold_max_in l : forall a, fold_left N.max l a = a \/ In (fold_left N.max l a) l.
Proof.
  induction l as [|b t IH]; intros a; cbn [fold_left]; [left; reflexivity|].
  destruct (IH (N.max a b)) as [H|H]; [|right; right; exact H].
  rewrite H. destruct (N.max_spec a b) as [[_ ->]|[_ ->]]; [right; left; reflexivity|left; reflexivity].
Qed.

(* two different letters among a query's records at one column: 'N' *)
Theorem flatten_conflict site x y : In x site -> In y site -> is_letter x = true -> is_letter y = true -> x <> y ->
  nuc_from_site site = 78.
Proof.
  intros Hx Hy Lx Ly Hne. unfold nuc_from_site.
  assert (H2 : (2 <= length (filter is_letter (dedup_bytes site)))%nat).
  { apply (two_in_nodup _ x y); [apply NoDup_filter, dedup_NoDup| | |exact Hne];
      apply filter_In; (split; [apply (proj2 (dedup_In _ _)); assumption|assumption]). }
  destruct (Nat.ltb_spec 1 (length (filter is_letter (dedup_bytes site)))); [reflexivity|lia].
Qed.

(* otherwise the greatest byte of the column: a letter (>= 65) beats '-' (45) beats '*' (42) *)
Theorem flatten_max site : (forall x y, In x site -> In y site -> is_letter x = true -> is_letter y = true -> x = y) ->
  site <> [] -> In (nuc_from_site site) site /\ forall x, In x site -> x <= nuc_from_site site.
Proof.
  intros Huniq Hne. unfold nuc_from_site.
  assert (H1 : (length (filter is_letter (dedup_bytes site)) <= 1)%nat).
  { destruct (filter is_letter (dedup_bytes site)) as [|a [|b t]] eqn:E; cbn; try lia. exfalso.
    assert (Ha : In a (filter is_letter (dedup_bytes site))) by (rewrite E; left; reflexivity).
    assert (Hb : In b (filter is_letter (dedup_bytes site))) by (rewrite E; right; left; reflexivity).
    apply filter_In in Ha as [Ha La], Hb as [Hb Lb]. apply (proj1 (dedup_In _ _)) in Ha. apply (proj1 (dedup_In _ _)) in Hb.
    pose proof (Huniq a b Ha Hb La Lb) as Eab. subst b.
    pose proof (NoDup_filter is_letter (dedup_NoDup site)) as Hn. rewrite E in Hn. inversion Hn as [|? ? Hni _]; subst. apply Hni. left. reflexivity. }
  destruct (Nat.ltb_spec 1 (length (filter is_letter (dedup_bytes site)))); [lia|]. split.
  - destruct (fold_max_in (dedup_bytes site) 0) as [H0|Hin]; [|apply (proj1 (dedup_In _ _)); exact Hin].
    destruct site as [|s0 t]; [congruence|].
    pose proof (fold_max_ge (dedup_bytes (s0 :: t)) 0 s0 (or_introl (proj2 (dedup_In s0 (s0 :: t)) (or_introl eq_refl)))) as Hge.
    rewrite H0 in Hge. assert (s0 = 0) by lia. subst s0. rewrite H0. left. reflexivity.
  - intros x Hx. apply fold_max_ge. left. apply (proj2 (dedup_In _ _)). exact Hx.
Qed.

(* ---------- flank / internal rewrite of uncovered positions ---------- *)
Lemma mapi_from_nth {A B} (f : nat -> A -> B) (l : list A) : forall i k da db,
  (k < length l)%nat -> nth k (mapi_from f i l) db = f (i + k)%nat (nth k l da).
Proof.
  induction l as [|a t IH]; intros i k da db Hk; [cbn in Hk; lia|]. cbn [mapi_from].
  destruct k as [|k]; cbn [nth]; [rewrite Nat.add_0_r; reflexivity|].
  rewrite (IH (S i) k da db) by (cbn in Hk; lia). f_equal. lia.
Qed.
Lemma mapi_from_length {A B} (f : nat -> A -> B) (l : list A) i : length (mapi_from f i l) = length l.
Proof. revert i; induction l as [|a t IH]; intros i; cbn; [reflexivity|rewrite IH; reflexivity]. Qed.

Theorem flank_rule s i : (i < length s)%nat ->
  let fi := match first_letter 0 s with Some k => k | None => length s end in
  let li := match last_letter 0 s None with Some k => k | None => length s end in
  nth i (swap_flank s) 0 =
    (if nth i s 0 =? 42 then
       (if Nat.ltb i fi then 45 else if Nat.ltb fi i && Nat.ltb i li then 78 else if Nat.ltb li i then 45 else 42)
     else nth i s 0).
Proof.
  intros Hi. unfold swap_flank. rewrite (mapi_from_nth _ s 0%nat i 0 0 Hi). cbn [Nat.add].
  destruct (N.eqb_spec (nth i s 0) 42) as [->|]; reflexivity.
Qed.

Theorem pad_rule s i : nth i (swap_pad s) 0 = (if nth i s 0 =? 42 then 78 else nth i s 0).
Proof.
  unfold swap_pad. destruct (Nat.ltb_spec i (length s)) as [Hi|Hi].
  - rewrite (nth_indep _ 0 ((fun b => if b =? 42 then 78 else b) 0)) by (rewrite map_length; exact Hi).
    rewrite (map_nth (fun b => if b =? 42 then 78 else b)). reflexivity.
  - rewrite !nth_overflow by (rewrite ?map_length; lia). reflexivity.
Qed.

(* ---------- C15: --start/--end select columns of the untrimmed row; with --pad they mask outside ---------- *)
Theorem toma_window_is_slice s e raw :
  fasta_seq false true s e raw = firstn (e - (s - 1)) (skipn (s - 1) (fasta_seq false false s e raw)).
Proof. reflexivity. Qed.

Theorem toma_pad_window s e raw i : (i < length raw)%nat ->
  nth i (fasta_seq true true s e raw) 0 =
  if Nat.ltb i (s - 1) || Nat.leb e i then 78 else nth i (fasta_seq true false s e raw) 0.
Proof.
  intros Hi. unfold fasta_seq.
  rewrite (mapi_from_nth _ (swap_pad raw) 0%nat i 0 0) by (unfold swap_pad; rewrite map_length; exact Hi).
  reflexivity.
Qed.

(* legacy flags: --trimstart a --trimend b are --start a+1 --end b (cmd/samtoma.go reconciliation) *)
Definition legacy_flags (trimstart trimend : Z) : Z * Z :=
  ((if (trimstart =? -1)%Z then -1 else trimstart + 1)%Z, trimend).
Theorem legacy_flags_eq reflen recs wrap a b pad : (0 <= a)%Z ->
  let '(s, e) := legacy_flags a b in
  toma_cmd reflen recs wrap s e pad = toma_cmd reflen recs wrap (a + 1) b pad.
Proof. intros Ha. unfold legacy_flags. destruct (Z.eqb_spec a (-1)); [lia|reflexivity]. Qed.

(* ---------- composition: the flattened row of a block, position by position ---------- *)
Lemma transpose_nth n : forall rows i, (i < n)%nat -> Forall (fun r => length r = n) rows ->
  nth i (transpose_n n rows) [] = map (fun r => nth i r 0) rows.
Proof.
  induction n as [|n IH]; intros rows i Hi Hl; [lia|]. cbn [transpose_n]. destruct i as [|i]; cbn [nth].
  - apply map_ext_in. intros r Hr. rewrite Forall_forall in Hl. specialize (Hl r Hr). destruct r; [discriminate|reflexivity].
  - rewrite IH; [|lia|].
    + rewrite map_map. apply map_ext_in. intros r Hr. rewrite Forall_forall in Hl. specialize (Hl r Hr). destruct r; [discriminate|reflexivity].
    + apply Forall_forall. intros r Hr. apply in_map_iff in Hr as (r0 & <- & Hr0). rewrite Forall_forall in Hl. specialize (Hl r0 Hr0).
      destruct r0; [discriminate|]. cbn in *. lia.
Qed.
Lemma transpose_length n rows : length (transpose_n n rows) = n.
Proof. revert rows; induction n as [|n IH]; intros rows; cbn; [reflexivity|]. rewrite IH. reflexivity. Qed.
Lemma nuc_single b : nuc_from_site [b] = b.
Proof.
  unfold nuc_from_site. cbn [dedup_bytes fold_right existsb]. cbn [filter]. destruct (is_letter b); cbn [length Nat.ltb Nat.leb fold_left]; lia.
Qed.

Theorem flatten_rows_nth n rows i : rows <> [] -> (i < n)%nat -> Forall (fun r => length r = n) rows ->
  nth i (flatten_rows n rows) 0 = nuc_from_site (map (fun r => nth i r 0) rows).
Proof.
  intros Hne Hi Hl. unfold flatten_rows. destruct rows as [|r [|r2 t]]; [congruence| |].
  - cbn [map]. rewrite nuc_single. reflexivity.
  - rewrite (nth_indep _ 0 (nuc_from_site [])) by (rewrite map_length, transpose_length; exact Hi).
    rewrite map_nth. rewrite transpose_nth by assumption. reflexivity.
Qed.

Lemma all_some_spec {A} (l : list (option A)) r : all_some l = Some r -> l = map Some r.
Proof.
  revert r; induction l as [|[a|] t IH]; intros r H; cbn in H; try discriminate; [injection H as <-; reflexivity|].
  destruct (all_some t) as [rt|]; [|discriminate]. injection H as <-. cbn. rewrite (IH rt eq_refl). reflexivity.
Qed.

(* the row of a query block before the flank rewrite: reference length, and at EVERY reference position the flattening of
   the cells its records' CIGARs align there (a base, '-' for a deletion, '*' for nothing) *)
Theorem toma_block_row_spec reflen block raw : block <> [] -> seq_from_block reflen block = Some raw ->
  length raw = reflen /\
  forall i, (i < reflen)%nat ->
    nth i raw 0 = nuc_from_site (map (fun r => cell_byte (aligned (s_cigar r) 0 (s_pos r) (s_seq r) i)) block).
Proof.
  intros Hne H. unfold seq_from_block in H.
  destruct (all_some (map (fun r => one_line (s_pos r) (s_cigar r) (s_seq r) reflen) block)) as [rows|] eqn:E; [|discriminate].
  injection H as <-. apply all_some_spec in E.
  assert (Hrows : Forall2 (fun r row => one_line (s_pos r) (s_cigar r) (s_seq r) reflen = Some row) block rows).
  { clear Hne. revert rows E. induction block as [|r t IH]; intros [|row rows] E; cbn in E; try discriminate; [constructor|].
    injection E as E1 E2. constructor; [exact E1|apply IH; exact E2]. }
  assert (Hlen : Forall (fun r => length r = reflen) (map (map cell_byte) rows)).
  { apply Forall_forall. intros x Hx. apply in_map_iff in Hx as (row & <- & Hrow). rewrite map_length.
    clear -Hrows Hrow. induction Hrows as [|r row' t rows' H1 H2 IH]; [contradiction|].
    destruct Hrow as [->|Hrow]; [apply (one_line_cell _ _ _ _ _ H1)|apply IH; exact Hrow]. }
  assert (Hne2 : map (map cell_byte) rows <> []).
  { destruct block; [congruence|]. inversion Hrows; subst. discriminate. }
  split.
  - unfold flatten_rows. destruct (map (map cell_byte) rows) as [|r0 [|r1 t]] eqn:Er; [congruence| |].
    + inversion Hlen; assumption.
    + rewrite map_length, transpose_length. reflexivity.
  - intros i Hi. rewrite (flatten_rows_nth reflen _ i Hne2 Hi Hlen). f_equal. rewrite map_map.
    clear -Hrows Hi. induction Hrows as [|r row t rows' H1 H2 IH]; [reflexivity|]. cbn [map]. rewrite IH. f_equal.
    destruct (one_line_cell _ _ _ _ _ H1) as [L C]. rewrite <- (C i Hi).
    rewrite (nth_indep _ 0 (cell_byte Star)) by (rewrite map_length, L; exact Hi). apply map_nth.
Qed.

(* ================= the whole command as a position-wise specification ================= *)
(* SPEC row of a query block before the flank/pad rewrite, written position by position from the statement *)
Definition spec_raw (reflen : nat) (block : list srec) : list N :=
  map (fun i => nuc_from_site (map (fun r => cell_byte (aligned (s_cigar r) 0 (s_pos r) (s_seq r) i)) block)) (seq 0 reflen).
Definition block_ok (reflen : nat) (block : list srec) : bool :=
  match block with
  | [] => false
  | _ => match all_some (map (fun r => one_line (s_pos r) (s_cigar r) (s_seq r) reflen) block) with Some _ => true | None => false end
  end.
Definition toma_spec_cmd (reflen : nat) (recs : list srec) (wrap : nat) (ts te : Z) (pad : bool) : res (list N) :=
  match check_args reflen ts te with
  | None => Err Other
  | Some (s, e, trim) =>
      if forallb (block_ok reflen) (group_records recs) then
        Ok (concat (map (fun b =>
              let sq := fasta_seq pad trim s e (spec_raw reflen b) in
              let name := match b with r0 :: _ => s_name r0 | [] => [] end in
              if Nat.ltb 0 wrap then fasta_record_wrap wrap name sq else fasta_record name sq) (group_records recs)))
      else Panic
  end.

Lemma seq_from_block_spec reflen block raw : block <> [] -> seq_from_block reflen block = Some raw -> raw = spec_raw reflen block.
Proof.
  intros Hne H. destruct (toma_block_row_spec reflen block raw Hne H) as [Hl Hn].
  apply (nth_ext _ _ 0 0); [unfold spec_raw; rewrite map_length, seq_length; exact Hl|].
  intros i Hi. rewrite Hl in Hi. rewrite (Hn i Hi). unfold spec_raw.
  rewrite (nth_indep _ 0 (nuc_from_site (map (fun r => cell_byte (aligned (s_cigar r) 0 (s_pos r) (s_seq r) 0)) block)))
    by (rewrite map_length, seq_length; exact Hi).
  rewrite (map_nth (fun i => nuc_from_site (map (fun r => cell_byte (aligned (s_cigar r) 0 (s_pos r) (s_seq r) i)) block)) (seq 0 reflen) 0%nat i).
  rewrite seq_nth by exact Hi. reflexivity.
Qed.

(* the model command equals the position-wise specification command: every SAM record list, every option set *)
Theorem toma_cmd_eq_spec reflen recs wrap ts te pad :
  toma_cmd reflen recs wrap ts te pad = toma_spec_cmd reflen recs wrap ts te pad.
Proof.
  unfold toma_cmd, toma_spec_cmd. destruct (check_args reflen ts te) as [[[s e] trim]|]; [|reflexivity].
  induction (group_records recs) as [|b t IH]; [reflexivity|]. cbn [forallb map concat].
  destruct b as [|r0 b']; [cbn [block_ok andb]; reflexivity|].
  destruct (seq_from_block reflen (r0 :: b')) as [raw|] eqn:E.
  - assert (Hok : block_ok reflen (r0 :: b') = true).
    { unfold block_ok. unfold seq_from_block in E. destruct (all_some _); [reflexivity|discriminate]. }
    rewrite Hok. cbn [andb]. rewrite IH. rewrite (seq_from_block_spec reflen (r0 :: b') raw ltac:(discriminate) E).
    destruct (forallb (block_ok reflen) t); reflexivity.
  - assert (Hok : block_ok reflen (r0 :: b') = false).
    { unfold block_ok. unfold seq_from_block in E. destruct (all_some _); [discriminate|reflexivity]. }
    rewrite Hok. reflexivity.
Qed.

(* grouping: the blocks are the non-skipped records in input order, cut where the query name changes *)
Lemma group_from_concat : forall l cur name, concat (group_from cur name l) = rev cur ++ l.
Proof.
  induction l as [|r t IH]; intros cur name; cbn [group_from concat]; [rewrite app_nil_r; reflexivity|].
  destruct (list_eqb (s_name r) name).
  - rewrite IH. cbn [rev]. rewrite <- app_assoc. reflexivity.
  - cbn [concat]. rewrite IH. reflexivity.
Qed.
Lemma group_from_blocks : forall l cur name, cur <> [] -> (forall r, In r cur -> s_name r = name) ->
  Forall (fun b => b <> [] /\ exists nm, forall r, In r b -> s_name r = nm) (group_from cur name l).
Proof.
  induction l as [|r t IH]; intros cur name Hne Hn; cbn [group_from].
  - constructor; [|constructor]. split; [intros E; apply Hne; destruct cur; [reflexivity|cbn in E; destruct (rev cur); discriminate]|].
    exists name. intros r Hr. apply Hn. apply in_rev. exact Hr.
  - destruct (list_eqb (s_name r) name) eqn:E.
    + apply list_eqb_eq in E. apply IH; [discriminate|]. intros r' [<-|Hr']; [exact E|apply Hn, Hr'].
    + constructor.
      * split; [intros E'; apply Hne; destruct cur; [reflexivity|cbn in E'; destruct (rev cur); discriminate]|].
        exists name. intros r' Hr'. apply Hn. apply in_rev. exact Hr'.
      * apply IH; [discriminate|]. intros r' [<-|[]]. reflexivity.
Qed.
Theorem group_records_spec l :
  concat (group_records l) = filter (fun r => negb (skipped r)) l /\
  Forall (fun b => b <> [] /\ exists nm, forall r, In r b -> s_name r = nm) (group_records l).
Proof.
  unfold group_records. destruct (filter (fun r => negb (skipped r)) l) as [|r t]; [split; [reflexivity|constructor]|]. split.
  - rewrite group_from_concat. reflexivity.
  - apply group_from_blocks; [discriminate|]. intros r' [<-|[]]. reflexivity.
Qed.
