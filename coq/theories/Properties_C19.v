(* Properties_C19.v — C19: a failed output write is never reported as success.
   gen/WriteSites.v is regenerated from the source on every run by harness/go/cmd/sites (go/ast scan). *)
From Coq Require Import List Arith Lia Bool String.
From GF Require Import Writers.
From GFgen Require Import WriteSites.
Import ListNotations.

(* every write call site of every function that writes to an output destination checks the result and returns or
   reports the error (evaluated by the kernel over the regenerated site list) *)
Theorem C19_all_sites_checked :
  forallb (fun f => forallb (fun s => snd s) (snd f)) write_sites = true.
Proof. vm_compute. reflexivity. Qed.
Print Assumptions C19_all_sites_checked.

(* the scan found the writers the property names (so the theorem above is not vacuous) *)
Theorem C19_writers_found :
  forallb (fun n => existsb (fun f => String.eqb (fst f) n) write_sites)
    ["closest.writeClosest"; "closest.writeClosestN"; "closest.writeClosestNTable"; "updown.writeUpDownCatchment";
     "updown.writeUpdownTable"; "updown.writeOutput"; "snps.writeOutput"; "snps.aggregateWriteOutput";
     "variants.WriteVariants"; "variants.AggregateWriteVariants"; "fastaio.WriteAlignment"; "fastaio.WriteWrapAlignment";
     "sam.writePairwiseAlignment"]%string = true.
Proof. vm_compute. reflexivity. Qed.
Print Assumptions C19_writers_found.

(* for a function all of whose sites are checked, a failure of ANY write of ANY run makes the run fail *)
Theorem C19_checked_sites_propagate_fault : forall events fails, forallb (fun c => c) events = true ->
  (exists k, k < List.length events /\ fails k = true) -> run events fails = Failure.
Proof. exact checked_sites_propagate_fault. Qed.
Print Assumptions C19_checked_sites_propagate_fault.

(* and a dropped site would hide one *)
Theorem C19_dropped_site_hides_fault : forall pre post, forallb (fun c => c) (pre ++ post) = true ->
  run (pre ++ false :: post) (fun k => Nat.eqb k (List.length pre)) = Success.
Proof. exact dropped_site_hides_fault. Qed.
Print Assumptions C19_dropped_site_hides_fault.
