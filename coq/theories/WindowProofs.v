(* WindowProofs.v — C15: wrap only re-breaks lines; the variants window keeps exactly s <= p <= e. *)
From Coq Require Import Floats.SpecFloat.
From GF Require Import Base Alphabet SymbolsDef FastaModel Float TopK CodonModel Indels VariantsModel Cigar SamModel TopaModel TopaProofs.
Open Scope N_scope.

Definition strip_nl (l : list N) : list N := filter (fun c => negb (c =? NL)) l.
Lemma strip_nl_app a b : strip_nl (a ++ b) = strip_nl a ++ strip_nl b. Proof. apply filter_app. Qed.
Lemma strip_nl_id l : ~ In NL l -> strip_nl l = l.
Proof.
  induction l as [|c t IH]; intros H; [reflexivity|]. cbn [strip_nl filter].
  destruct (N.eqb_spec c NL) as [->|]; [exfalso; apply H; left; reflexivity|]. cbn [negb]. fold (strip_nl t).
  rewrite IH; [reflexivity|]. intros Hin; apply H; right; exact Hin.
Qed.
Lemma not_in_firstn {A} (x : A) n l : ~ In x l -> ~ In x (firstn n l).
Proof. intros H Hin. apply H. eapply firstn_In_sub; eauto. Qed.
Lemma not_in_skipn {A} (x : A) n l : ~ In x l -> ~ In x (skipn n l).
Proof. intros H Hin. apply H. eapply skipn_In_sub; eauto. Qed.

(* --wrap w only re-breaks the sequence: removing the line breaks gives the sequence back; any width >= 1 *)
Theorem wrap_only_rebreaks w : (0 < w)%nat -> forall fuel s, (length s <= fuel)%nat -> ~ In NL s ->
  strip_nl (wrap_lines fuel w s) = s.
Proof.
  intros Hw. induction fuel as [|f IH]; intros s Hlen Hn.
  - destruct s; [reflexivity|cbn in Hlen; lia].
  - destruct s as [|c t]; [reflexivity|]. cbn [wrap_lines].
    destruct (Nat.leb_spec (length (c :: t)) w).
    + rewrite strip_nl_app. change (strip_nl [NL]) with (@nil N). rewrite app_nil_r. apply strip_nl_id. exact Hn.
    + rewrite !strip_nl_app. change (strip_nl [NL]) with (@nil N). cbn [app].
      rewrite IH.
      * rewrite strip_nl_id by (apply not_in_firstn; exact Hn). apply firstn_skipn.
      * rewrite skipn_length. cbn [length] in *. lia.
      * apply not_in_skipn. exact Hn.
Qed.

(* every line of the wrapped text except the last has exactly w characters; stated on the first line *)
Theorem wrap_first_line w fuel s : (w < length s)%nat -> (0 < fuel)%nat ->
  firstn (S w) (wrap_lines fuel w s) = firstn w s ++ [NL].
Proof.
  intros Hl Hf. destruct fuel as [|f]; [lia|]. destruct s as [|c t]; [cbn in Hl; lia|]. cbn [wrap_lines].
  destruct (Nat.leb_spec (length (c :: t)) w); [lia|].
  rewrite app_assoc.
  assert (E : length (firstn w (c :: t) ++ [NL]) = S w) by (rewrite app_length, firstn_length; cbn [length] in *; lia).
  replace (S w) with (length (firstn w (c :: t) ++ [NL]) + 0)%nat by lia.
  rewrite firstn_app_2. cbn [firstn]. apply app_nil_r.
Qed.

(* variants --start s / --end e, each alone or together: a mutation is kept iff s <= p and p <= e for the
   bounds that are given (a bound <= 0 is "not given") *)
Theorem variants_window_filter s e v :
  in_window s e v = true <-> ((0 < s -> s <= v_pos v) /\ (0 < e -> v_pos v <= e))%Z.
Proof.
  unfold in_window. rewrite negb_true_iff, orb_false_iff, !andb_false_iff.
  destruct (Z.ltb_spec 0 s), (Z.ltb_spec (v_pos v) s), (Z.ltb_spec 0 e), (Z.ltb_spec e (v_pos v));
    split; intros; try lia; try (split; [left; reflexivity || right; reflexivity | left; reflexivity || right; reflexivity]);
    intuition (try lia; try discriminate).
Qed.
