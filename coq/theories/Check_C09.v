From GF Require Export Check_C08.
