From GF Require Import Base FastaModel Cigar SamModel TopaModel Harness.
From GF Require Import Check_C01 Check_C02 Check_C04.
Inductive c15case :=
| WToma (c : nat * list srec * nat * Z * Z * bool * option (list N) * gores)
| WTopa (c : list N * list N * list srec * nat * Z * Z * bool * bool * option (list N) * gores)
| WVar (c : list N * list N * list (list N * bool * list nat * list N) * list N * (bool * bool * bool) * (Z * Z) * (N * Z * Z) * gores).
Definition check_C15 (c : c15case) : N :=
  match c with WToma x => check_C01 x | WTopa x => check_C02 x | WVar x => check_variants x end.
