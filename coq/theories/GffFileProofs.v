(* GffFileProofs.v — C14: a GFF3 file written as  ##gff-version 3 / ##sequence-region lines / feature rows / ##FASTA / sequence lines
   is read back as that version, those regions, those rows field by field, and what the list reader of C16 makes of the
   sequence lines. *)
From GF Require Import Base SymbolsDef FastaModel FastaLayout LocationModel LocationProofs GffLineModel GffLineProofs GenbankModel GenbankProofs GffFile.
Open Scope N_scope.

Definition version_line : list N := bs "##gff-version 3".
Definition region_line (r : list N * (nat * nat)) : list N :=
  bs "##sequence-region" ++ indent 1 ++ fst r ++ indent 1 ++ dec_nat (fst (snd r)) ++ indent 1 ++ dec_nat (snd (snd r)).
Definition wf_region (r : list N * (nat * nat)) : Prop := fst r <> [] /\ nospace (fst r).
Definition region_of (r : list N * (nat * nat)) : list N * (Z * Z) := (fst r, (Z.of_nat (fst (snd r)), Z.of_nat (snd (snd r)))).
Definition fasta_of (flines : list (list N)) : res (option (list rcd)) :=
  match flines with
  | [] => Ok None
  | _ => bind (read_encoded false (concat (map (fun l => l ++ [10]) flines))) (fun recs => Ok (Some (map decode_rcd recs)))
  end.

Lemma gff_fold_app l1 : forall s l2, gff_fold s (l1 ++ l2) = bind (gff_fold s l1) (fun s' => gff_fold s' l2).
Proof.
  induction l1 as [|l t IH]; intros s l2; [reflexivity|]. cbn [app gff_fold].
  destruct (gff_step s l) as [s'| |]; cbn [bind]; [apply IH|reflexivity|reflexivity].
Qed.

(* ---- the directives ---- *)
Lemma nospace_digits n : nospace (dec_nat n).
Proof.
  unfold nospace. pose proof (dec_nat_digits n) as D. unfold digits in D. eapply Forall_impl; [|exact D].
  intros c Hc. unfold is_digit in Hc. unfold GenbankModel.is_space. apply andb_true_iff in Hc as [H1 H2]. apply N.leb_le in H1, H2.
  destruct (N.eqb_spec c 32); [lia|]. destruct (N.leb_spec 9 c); destruct (N.leb_spec c 13); cbn; try reflexivity; lia.
Qed.
Lemma fields_region r : wf_region r ->
  fields_go (skipn 2 (region_line r)) [] = [bs "sequence-region"; fst r; dec_nat (fst (snd r)); dec_nat (snd (snd r))].
Proof.
  intros [Hne Hns]. unfold region_line. change (skipn 2 (bs "##sequence-region" ++ ?x)) with (bs "sequence-region" ++ x).
  rewrite (fields_word (bs "sequence-region")) by (repeat constructor). rewrite app_nil_r.
  rewrite fields_sep by discriminate. f_equal.
  rewrite fields_word by exact Hns. rewrite app_nil_r. rewrite fields_sep by (apply rev_nonnil; exact Hne). rewrite rev_involutive. f_equal.
  rewrite fields_word by apply nospace_digits. rewrite app_nil_r. rewrite fields_sep by (apply rev_nonnil; apply dec_nat_nonempty'). rewrite rev_involutive. f_equal.
  rewrite <- (app_nil_r (dec_nat (snd (snd r)))) at 1. rewrite fields_word by apply nospace_digits. cbn [fields_go]. rewrite app_nil_r.
  destruct (rev (dec_nat (snd (snd r)))) eqn:E; [exfalso; revert E; apply rev_nonnil; apply dec_nat_nonempty'|]. rewrite <- E, rev_involutive. reflexivity.
Qed.
Lemma regions_of_lines regs : Forall wf_region regs -> regions_of (map (fun r => skipn 2 (region_line r)) regs) = Ok (map region_of regs).
Proof.
  induction 1 as [|r t Hr _ IH]; [reflexivity|]. cbn [map regions_of].
  assert (Ep : is_prefix (bs "sequence-region") (skipn 2 (region_line r)) = true) by reflexivity. rewrite Ep.
  rewrite (fields_region r Hr), !atoi_dec, IH. reflexivity.
Qed.
Definition hdr_of (regs : list (list N * (nat * nat))) : list (list N) := bs "gff-version 3" :: map (fun r => skipn 2 (region_line r)) regs.
Lemma fold_directives regs : forall s, g_infasta s = false ->
  gff_fold s (map region_line regs) =
  Ok {| g_infasta := false; g_hdr := g_hdr s ++ map (fun r => skipn 2 (region_line r)) regs; g_first := g_first s; g_ver := g_ver s;
        g_regs := g_regs s; g_feats := g_feats s; g_fasta := g_fasta s |}.
Proof.
  induction regs as [|r t IH]; intros s Hs.
  - cbn [map gff_fold]. rewrite app_nil_r. destruct s; cbn in *; subst; reflexivity.
  - cbn [map gff_fold]. unfold gff_step at 1. rewrite Hs.
    assert (E1 : is_prefix (bs "##FASTA") (region_line r) = false) by reflexivity.
    assert (E2 : is_prefix (bs "##") (region_line r) = true) by reflexivity. rewrite E1, E2. cbn [bind].
    rewrite IH by reflexivity. cbn [g_hdr g_first g_ver g_regs g_feats g_fasta]. rewrite <- app_assoc. reflexivity.
Qed.

(* ---- the rows ---- *)
Lemma seqid_first_not_hash x : seqid_ok x = true -> match x with 35 :: _ => False | _ => True end.
Proof.
  destruct x as [|c t]; [exact (fun _ => I)|]. intros H. destruct (N.eqb_spec c 35) as [->|Hc].
  - exfalso. unfold seqid_ok in H. apply andb_true_iff in H as [_ H]. cbn in H. discriminate.
  - destruct c as [|p]; [exact I|]. do 6 (destruct p as [p|p|]; try exact I). all: try congruence.
Qed.
Lemma row_not_comment r : wf_row r -> is_prefix (bs "#") (render_row r) = false.
Proof.
  intros (Hid & _). apply seqid_first_not_hash in Hid. unfold render_row.
  change (join [9] (w_seqid r :: ?t)) with (w_seqid r ++ [9] ++ join [9] t).
  destruct (w_seqid r) as [|c t]; [reflexivity|]. change (bs "#") with [35]. cbn [app is_prefix].
  destruct (N.eqb_spec 35 c) as [<-|_]; [contradiction|reflexivity].
Qed.
Lemma prefix_longer p q l : is_prefix p l = false -> is_prefix (p ++ q) l = false.
Proof.
  revert l. induction p as [|x p IH]; intros l H; [discriminate|]. destruct l as [|y l]; [reflexivity|]. cbn [app is_prefix] in *.
  destruct (x =? y); [cbn [andb] in *; apply IH; exact H|reflexivity].
Qed.
Lemma step_row s r : wf_row r -> g_infasta s = false -> g_first s = false ->
  gff_step s (render_row r) =
  Ok {| g_infasta := false; g_hdr := g_hdr s; g_first := false; g_ver := g_ver s; g_regs := g_regs s; g_feats := g_feats s ++ [feat_of r]; g_fasta := g_fasta s |}.
Proof.
  intros Hr Hs Hf. unfold gff_step. rewrite Hs, Hf.
  pose proof (row_not_comment r Hr) as E1.
  assert (E2 : is_prefix (bs "##FASTA") (render_row r) = false) by exact (prefix_longer (bs "#") (bs "#FASTA") _ E1).
  assert (E3 : is_prefix (bs "##") (render_row r) = false) by exact (prefix_longer (bs "#") (bs "#") _ E1).
  rewrite E2, E3, E1.
  cbn [bind fst snd]. rewrite (gff_row_roundtrip r Hr). reflexivity.
Qed.
Lemma fold_rows rows : Forall wf_row rows -> forall s, g_infasta s = false -> g_first s = false ->
  gff_fold s (map render_row rows) =
  Ok {| g_infasta := false; g_hdr := g_hdr s; g_first := false; g_ver := g_ver s; g_regs := g_regs s; g_feats := g_feats s ++ map feat_of rows; g_fasta := g_fasta s |}.
Proof.
  induction 1 as [|r t Hr _ IH]; intros s Hs Hf.
  - cbn [map gff_fold]. rewrite app_nil_r. destruct s; cbn in *; subst; reflexivity.
  - cbn [map gff_fold]. rewrite (step_row s r Hr Hs Hf). cbn [bind]. rewrite IH by reflexivity.
    cbn [g_hdr g_ver g_regs g_feats g_fasta]. rewrite <- app_assoc. reflexivity.
Qed.
Lemma step_first_row s r regs : wf_row r -> Forall wf_region regs -> g_infasta s = false -> g_first s = true -> g_hdr s = hdr_of regs ->
  gff_step s (render_row r) =
  Ok {| g_infasta := false; g_hdr := g_hdr s; g_first := false; g_ver := bs "3"; g_regs := map region_of regs; g_feats := g_feats s ++ [feat_of r]; g_fasta := g_fasta s |}.
Proof.
  intros Hr Hregs Hs Hf Hh. unfold gff_step. rewrite Hs, Hf, Hh.
  pose proof (row_not_comment r Hr) as E1.
  assert (E2 : is_prefix (bs "##FASTA") (render_row r) = false) by exact (prefix_longer (bs "#") (bs "#FASTA") _ E1).
  assert (E3 : is_prefix (bs "##") (render_row r) = false) by exact (prefix_longer (bs "#") (bs "#") _ E1).
  rewrite E2, E3, E1.
  unfold hdr_of. cbn [version_of]. change (is_prefix (bs "gff-version") (bs "gff-version 3")) with true. cbv iota.
  change (fields_go (bs "gff-version 3") []) with [bs "gff-version"; bs "3"]. cbv iota. cbn [bind regions_of].
  change (is_prefix (bs "sequence-region") (bs "gff-version 3")) with false. cbv iota.
  rewrite (regions_of_lines regs Hregs). cbn [bind fst snd]. rewrite (gff_row_roundtrip r Hr). reflexivity.
Qed.

(* ---- the sequence section ---- *)
Lemma fold_fasta flines : forall s, g_infasta s = true ->
  gff_fold s flines = Ok {| g_infasta := true; g_hdr := g_hdr s; g_first := g_first s; g_ver := g_ver s; g_regs := g_regs s; g_feats := g_feats s;
                            g_fasta := g_fasta s ++ flines |}.
Proof.
  induction flines as [|l t IH]; intros s Hs.
  - cbn [gff_fold]. rewrite app_nil_r. destruct s; cbn in *; subst; reflexivity.
  - cbn [gff_fold]. unfold gff_step at 1. rewrite Hs. cbn [bind]. rewrite IH by reflexivity. cbn [g_hdr g_first g_ver g_regs g_feats g_fasta].
    rewrite <- app_assoc. reflexivity.
Qed.

Theorem gff_file_read (regs : list (list N * (nat * nat))) (rows : list grow) (flines : list (list N)) :
  Forall wf_region regs -> rows <> [] -> Forall wf_row rows ->
  read_gff_lines (version_line :: map region_line regs ++ map render_row rows ++ bs "##FASTA" :: flines) =
  bind (fasta_of flines) (fun fa =>
    Ok {| gff_version := bs "3"; gff_regions := map region_of regs; gff_features := map feat_of rows; gff_fasta := fa |}).
Proof.
  intros Hregs Hne Hrows. destruct rows as [|r rows]; [congruence|]. inversion Hrows as [|? ? Hr Hrows']; subst.
  unfold read_gff_lines. cbn [gff_fold]. unfold gff_step at 1. cbn [g_init g_infasta].
  change (is_prefix (bs "##FASTA") version_line) with false. change (is_prefix (bs "##") version_line) with true. cbv iota. cbn [bind].
  rewrite gff_fold_app, fold_directives by reflexivity. cbn [bind g_hdr g_first g_ver g_regs g_feats g_fasta app].
  cbn [map app gff_fold].
  rewrite (step_first_row _ r regs Hr Hregs) by reflexivity. cbn [bind g_hdr g_feats g_fasta app].
  rewrite gff_fold_app, (fold_rows rows Hrows') by reflexivity. cbn [bind g_hdr g_ver g_regs g_feats g_fasta gff_fold].
  unfold gff_step at 1. cbn [g_infasta]. change (is_prefix (bs "##FASTA") (bs "##FASTA")) with true. cbv iota. cbn [bind].
  rewrite fold_fasta by reflexivity. cbn [bind g_hdr g_first g_ver g_regs g_feats g_fasta app].
  unfold gff_finish, fasta_of. cbn [g_fasta g_ver g_regs g_feats]. change (g_fasta g_init) with (@nil (list N)).
  change (g_feats g_init) with (@nil gfeat). cbn [app]. destruct flines as [|l t]; [reflexivity|].
  destruct (read_encoded false _) as [recs| |]; reflexivity.
Qed.

(* ... and as bytes: any mixture of LF and CRLF line ends *)
Theorem gff_file_bytes_read (lines : list (list N * bool)) :
  Forall (fun le => ok_line (fst le)) lines -> read_gff (FastaLayout.render lines) = read_gff_lines (map fst lines).
Proof. intros H. unfold read_gff. rewrite scan_render by exact H. reflexivity. Qed.
