From GF Require Import Base FastaModel Cigar SamModel Harness.
Open Scope N_scope.
(* case: (reference length, parsed records, wrap, start, end, pad, bytes expected by the statement-level oracle, observation) *)
Definition check_C01 (c : nat * list srec * nat * Z * Z * bool * option (list N) * gores) : N :=
  let '(reflen, recs, wrap, ts, te, pad, expect, g) := c in
  let spec := match expect with Some e => agree g (Ok e) | None => true end in
  verdict_p g (toma_cmd reflen recs wrap ts te pad) spec.
