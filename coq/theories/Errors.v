(* Errors.v — C18: refusal of invalid input, on the models; and the SAM header hand-off as a small labelled
   transition system whose reachable states are enumerated by the kernel. *)
From Coq Require Import Floats.SpecFloat.
From GF Require Import Base Alphabet Symbols FastaModel FastaProofs SnpsModel UpdownListModel Cigar SamModel TopRankModel.
Open Scope N_scope.

(* ---------- FASTA: a sequence line with a symbol outside the alphabet, anywhere in the file ---------- *)
Lemma run_app_res conv s a b : run conv true s (a ++ b) = bind (run conv true s a) (fun s' => run conv true s' b).
Proof.
  revert s; induction a as [|l t IH]; intros s; cbn [app run bind]; [reflexivity|].
  destruct (step conv true s l); cbn [bind]; [apply IH|reflexivity|reflexivity].
Qed.

Theorem invalid_symbol_refused conv l : l <> [] -> hd 0 l <> 62 -> conv_line conv l = None ->
  forall pre post, exists e, read_lines conv true (pre ++ l :: post) = Err e.
Proof.
  intros Hne Hh Hc pre post. unfold read_lines. rewrite run_app_res.
  pose proof (run_no_panic conv pre init) as NP.
  destruct (run conv true init pre) as [s| |] eqn:E; cbn [bind]; [|eauto|contradiction].
  cbn [run]. destruct l as [|c d]; [congruence|]. cbn [hd] in Hh. unfold step.
  destruct (N.eqb_spec c 62); [contradiction|]. rewrite Hc. destruct (first s); cbn [bind]; eauto.
Qed.

(* no leading header *)
Theorem no_leading_header_refused conv l : l <> [] -> hd 0 l <> 62 ->
  forall post, read_lines conv true (l :: post) = Err BadFormat.
Proof.
  intros Hne Hh post. unfold read_lines. cbn [run]. destruct l as [|c d]; [congruence|]. cbn [hd] in Hh.
  unfold step. cbn [init first]. destruct (N.eqb_spec c 62); [contradiction|]. reflexivity.
Qed.

(* an empty stream, or one of blank lines only *)
Theorem empty_fasta_refused conv ls : Forall (fun l => l = []) ls -> read_lines conv true ls = Err EmptyFile.
Proof.
  intros H. unfold read_lines. assert (E : run conv true init ls = Ok init).
  { induction H as [|l t -> Ht IH]; [reflexivity|]. cbn [run step bind]. exact IH. }
  rewrite E. reflexivity.
Qed.

(* a record boundary at which the finished record's length differs from the width (state level) *)
Theorem unequal_length_refused conv s d : first s = false -> counter s <> 0%nat -> length (buf s) <> width s ->
  step conv true s (62 :: d) = Err DiffLen.
Proof.
  intros Hf Hc Hl. unfold step. rewrite Hf. cbn [N.eqb Pos.eqb].
  destruct (Nat.eqb_spec (counter s) 0); [contradiction|]. destruct (Nat.eqb_spec (length (buf s)) (width s)); [contradiction|]. reflexivity.
Qed.
Theorem unequal_last_refused s : counter s <> 0%nat -> length (buf s) <> width s -> finish true s = Err DiffLen.
Proof.
  intros Hc Hl. unfold finish. destruct (Nat.eqb_spec (counter s) 0); [contradiction|].
  destruct (Nat.eqb_spec (length (buf s)) (width s)); [contradiction|]. rewrite orb_true_r. reflexivity.
Qed.

(* ---------- commands ---------- *)
(* more than one record in --reference; reference and alignment of different widths *)
Theorem snps_two_refs_refused h ref aln r1 r2 rest : read_encoded h ref = Ok (r1 :: r2 :: rest) -> snps_cmd h ref aln = Err Other.
Proof. intros H. unfold snps_cmd. rewrite H. reflexivity. Qed.
Theorem snps_width_mismatch_refused refseq r t : length (r_seq r) <> length refseq -> snps_rows refseq (r :: t) = Err DiffLen.
Proof. intros H. cbn [snps_rows]. destruct (Nat.eqb_spec (length (r_seq r)) (length refseq)); [contradiction|reflexivity]. Qed.
Theorem list_width_mismatch_refused refenc r t : length (r_seq r) <> length refenc -> list_rows refenc (r :: t) = Err DiffLen.
Proof. intros H. cbn [list_rows]. destruct (Nat.eqb_spec (length (r_seq r)) (length refenc)); [contradiction|reflexivity]. Qed.

(* window coordinates outside 1..reference length, or start > end *)
Theorem window_out_of_range_refused reflen ts te :
  ((ts <> -1 /\ (ts < 1 \/ Z.of_nat reflen < ts)) \/ (te <> -1 /\ (te < 1 \/ Z.of_nat reflen < te)) \/
   (ts <> -1 /\ te <> -1 /\ te < ts))%Z ->
  check_args reflen ts te = None.
Proof.
  intros H. unfold check_args.
  destruct (Z.eqb_spec ts (-1)), (Z.eqb_spec te (-1));
    repeat match goal with |- context [(?a <? ?b)%Z] => destruct (Z.ltb_spec a b) end; cbn; try reflexivity; lia.
Qed.
Theorem toma_bad_window_refused reflen recs wrap ts te pad : check_args reflen ts te = None -> toma_cmd reflen recs wrap ts te pad = Err Other.
Proof. intros H. unfold toma_cmd. rewrite H. reflexivity. Qed.

(* no size/dist option for topranking *)
Theorem topranking_no_option_refused : check_args_tr 0 0 0 0 0 0 0 0 0 0 = None.
Proof. reflexivity. Qed.

(* ---------- the SAM header hand-off ---------- *)
(* reader goroutine: NewReader fails -> send on cErr -> return (after the fix; before it: fall through to send the
   header); caller: select on {cHeader, cErr}.  Unbuffered channels: a send and a receive rendezvous.
   Reader states: 0 start, 1 wants to send err, 2 wants to send header, 3 done.  Caller: 0 waiting, 1 got header,
   2 got error.  `fixed` = the code as it is now; false = the pinned snapshot (caller waits for the header only, reader
   falls through after the error). *)
Definition hstate := (nat * nat)%type.
Definition hstep (fixed ok : bool) (s : hstate) : list hstate :=
  let '(r, c) := s in
  match r, c with
  | 0, _ => [((if ok then 2 else 1), c)]%nat
  | 1, 0 => if fixed then [(3, 2)]%nat else []                       (* the old caller never receives on cErr here *)
  | 2, 0 => [(3, 1)]%nat
  | _, _ => []
  end%nat.
Definition hfinal (s : hstate) : bool := match s with (3, 1) | (3, 2) => true | _ => false end%nat.
Fixpoint hreach (fuel : nat) (fixed ok : bool) (s : hstate) : list hstate :=
  s :: match fuel with O => [] | S f => flat_map (hreach f fixed ok) (hstep fixed ok s) end.
Definition hdeadlocks (fixed ok : bool) : list hstate :=
  filter (fun s => negb (hfinal s) && match hstep fixed ok s with [] => true | _ => false end) (hreach 5 fixed ok (0, 0)%nat).

Theorem header_handoff_no_deadlock : hdeadlocks true true = [] /\ hdeadlocks true false = [].
Proof. split; vm_compute; reflexivity. Qed.
Theorem header_handoff_old_deadlocks_refuted : hdeadlocks false false = [(1, 0)%nat].
Proof. vm_compute. reflexivity. Qed.

(* ---- the reference and the annotation have to be in the same coordinates: the check `variants` makes, and `sam variants`
   too since repair D21 (before it, sam variants made none: old_sam_variants_coords) ---- *)
Inductive anno_coords := GbOrigin (origin_len : nat) | GffRegions (region_ends : list nat).
Definition coords_ok (reflen : nat) (a : anno_coords) : bool :=
  match a with
  | GbOrigin n => Nat.eqb reflen n
  | GffRegions [] => true                      (* no ##sequence-region line: nothing to compare with *)
  | GffRegions [e] => Nat.eqb reflen e
  | GffRegions _ => false                      (* more than one ##sequence-region *)
  end.
Definition old_sam_variants_coords (reflen : nat) (a : anno_coords) : bool := true.
Lemma coords_mismatch_refused reflen a :
  match a with GbOrigin n => reflen <> n | GffRegions [e] => reflen <> e | GffRegions [] => False | GffRegions _ => True end ->
  coords_ok reflen a = false.
Proof.
  destruct a as [n|[|e [|e' t]]]; cbn [coords_ok]; intros H; try reflexivity; try contradiction; apply Nat.eqb_neq; exact H.
Qed.
Lemma old_sam_variants_coords_refuted : exists reflen a, coords_ok reflen a = false /\ old_sam_variants_coords reflen a = true.
Proof. exists 33%nat, (GffRegions [30%nat]). split; reflexivity. Qed.

(* ---- the reference given with a SAM file is the sequence its header describes: checked by sam toPairAlign and sam variants since
   repair D22 (before it neither compared the two lengths) ---- *)
Definition sam_reference_ok (reflen sq_len : nat) : bool := Nat.eqb reflen sq_len.
Definition old_sam_reference_ok (reflen sq_len : nat) : bool := true.
Lemma sam_reference_mismatch_refused reflen sq_len : reflen <> sq_len -> sam_reference_ok reflen sq_len = false.
Proof. intros H. apply Nat.eqb_neq. exact H. Qed.
Lemma old_sam_reference_refuted : exists reflen sq_len, sam_reference_ok reflen sq_len = false /\ old_sam_reference_ok reflen sq_len = true.
Proof. exists 17%nat, 20%nat. split; reflexivity. Qed.
