(* RegionsModel.v — C14: coding features as an AST; the position list each format's code path
   derives from it (GenBank: GetPositions + codon_start; GFF3: CDSRegion2fromGFF rows + phase).
   The text parsers themselves are modelled by this AST level only (exercised by rendering the AST
   to text and parsing it with the real code). *)
From GF Require Import Base Alphabet SymbolsDef FastaModel CodonModel.
Open Scope nat_scope.

Record feat := { f_name : list N; f_rev : bool; f_segs : list (nat * nat); f_cstart : nat }.  (* segments ascending; codon_start 1..3 *)

Definition range (ab : nat * nat) : list nat := seq (fst ab) (S (snd ab) - fst ab).       (* a..b ascending *)
Definition rrange (ab : nat * nat) : list nat := rev (range ab).                            (* b..a descending *)

(* GenBank: a..b | join(..) ascending; complement(..) and complement(join(..)) reverse the whole list;
   join(complement(c..d),complement(a..b)) lists the reversed segments in translation order; then
   codon_start-1 positions are dropped *)
Definition gb_positions_form0 (f : feat) : list nat :=
  skipn (f_cstart f - 1) (if f_rev f then rev (concat (map range (f_segs f))) else concat (map range (f_segs f))).
Definition gb_positions_form1 (f : feat) : list nat :=
  skipn (f_cstart f - 1) (if f_rev f then concat (map rrange (rev (f_segs f))) else concat (map range (f_segs f))).
(* GFF3: one row per segment in file (ascending) order; forward: rows first to last, each ascending; reverse: rows
   last to first, each descending; the phase of the first row in translation order (= codon_start-1) is dropped *)
Definition gff_positions (f : feat) : list nat :=
  skipn (f_cstart f - 1) (if f_rev f then concat (map rrange (rev (f_segs f))) else concat (map range (f_segs f))).

(* the translation the GFF path computes from the reference; the GenBank path reads it from /translation (+ "*") *)
Definition feature_bases (genome : list N) (ps : list nat) : list N := map (fun p => nth (p - 1) genome 0%N) ps.
Definition gff_translation (genome : list N) (f : feat) : res (list N) :=
  let s := feature_bases genome (gff_positions f) in
  translate true (if f_rev f then complement s else s).

Lemma rev_concat {A} (l : list (list A)) : rev (concat l) = concat (map (@rev A) (rev l)).
Proof.
  induction l as [|x t IH]; [reflexivity|]. cbn [concat rev map]. rewrite rev_app_distr, IH, map_app, concat_app.
  cbn [map concat]. rewrite app_nil_r. reflexivity.
Qed.

(* the three code paths give the same ordered position list for every feature *)
Theorem positions_gb_eq_gff f : gb_positions_form0 f = gff_positions f /\ gb_positions_form1 f = gff_positions f.
Proof.
  unfold gb_positions_form0, gb_positions_form1, gff_positions. split; [|reflexivity].
  destruct (f_rev f); [|reflexivity]. rewrite rev_concat, <- map_rev, map_map. reflexivity.
Qed.
