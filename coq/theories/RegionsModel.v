(* RegionsModel.v — C14: coding features as an AST; the position list each format's code path
   derives from it (GenBank: GetPositions + codon_start; GFF3: CDSRegion2fromGFF rows + phase).
   The text parsers themselves are modelled by this AST level only (exercised by rendering the AST
   to text and parsing it with the real code). *)
From Coq Require Import Permutation.
From GF Require Import Base Alphabet SymbolsDef FastaModel CodonModel TopK.
Open Scope nat_scope.

Record feat := { f_name : list N; f_rev : bool; f_segs : list (nat * nat); f_cstart : nat }.  (* segments in the order the annotation lists them: ascending, or not - a gene that spans the origin of a circular genome is join(40..50,1..10); codon_start 1..3 *)

Definition range (ab : nat * nat) : list nat := seq (fst ab) (S (snd ab) - fst ab).       (* a..b ascending *)
Definition rrange (ab : nat * nat) : list nat := rev (range ab).                            (* b..a descending *)

(* GenBank: a..b | join(..) ascending; complement(..) and complement(join(..)) reverse the whole list;
   join(complement(c..d),complement(a..b)) lists the reversed segments in translation order; then
   codon_start-1 positions are dropped *)
Definition gb_positions_form0 (f : feat) : list nat :=
  skipn (f_cstart f - 1) (if f_rev f then rev (concat (map range (f_segs f))) else concat (map range (f_segs f))).
Definition gb_positions_form1 (f : feat) : list nat :=
  skipn (f_cstart f - 1) (if f_rev f then concat (map rrange (rev (f_segs f))) else concat (map range (f_segs f))).
(* GFF3: one row per segment, listed in ANY order in the file: the rows of one ID are first put in coordinate order (repair
   D15; stable sort by start, as sort.SliceStable); forward: rows first to last, each ascending; reverse: rows last to
   first, each descending; the phase of the first row in translation order (= codon_start-1) is dropped *)
Definition seg_lt (a b : nat * nat) : bool := Nat.ltb (fst a) (fst b).
Definition sort_segs (l : list (nat * nat)) : list (nat * nat) := ssort (nat * nat) seg_lt l.
Definition gff_positions (f : feat) : list nat :=
  let segs := sort_segs (f_segs f) in
  skipn (f_cstart f - 1) (if f_rev f then concat (map rrange (rev segs)) else concat (map range segs)).
(* the annotation lists the segments of the feature in ascending order (every layout but an origin-spanning join) *)
Definition segs_ascending (l : list (nat * nat)) : Prop := sorted (nat * nat) seg_lt l.

(* the translation the GFF path computes from the reference; the GenBank path reads it from /translation (+ "*") *)
Definition feature_bases (genome : list N) (ps : list nat) : list N := map (fun p => nth (p - 1) genome 0%N) ps.
Definition gff_translation (genome : list N) (f : feat) : res (list N) :=
  let s := feature_bases genome (gff_positions f) in
  translate true (if f_rev f then complement s else s).

Lemma rev_concat {A} (l : list (list A)) : rev (concat l) = concat (map (@rev A) (rev l)).
Proof.
  induction l as [|x t IH]; [reflexivity|]. cbn [concat rev map]. rewrite rev_app_distr, IH, map_app, concat_app.
  cbn [map concat]. rewrite app_nil_r. reflexivity.
Qed.

Lemma seg_lt_irrefl x : seg_lt x x = false. Proof. apply Nat.ltb_irrefl. Qed.
Lemma seg_lt_trans x y z : seg_lt x y = true -> seg_lt y z = true -> seg_lt x z = true.
Proof. unfold seg_lt. rewrite !Nat.ltb_lt. lia. Qed.

(* the three code paths give the same ordered position list for every feature whose segments are listed in ascending order *)
Theorem positions_gb_eq_gff f : segs_ascending (f_segs f) ->
  gb_positions_form0 f = gff_positions f /\ gb_positions_form1 f = gff_positions f.
Proof.
  intros Hs. unfold gb_positions_form0, gb_positions_form1, gff_positions, sort_segs.
  rewrite (ssort_of_sorted _ _ (f_segs f) Hs). split; [|reflexivity].
  destruct (f_rev f); [|reflexivity]. rewrite rev_concat, <- map_rev, map_map. reflexivity.
Qed.

(* GFF3: the order in which the rows of one feature are listed is irrelevant (rows with distinct starts) *)
Lemma sorted_perm_unique (l : list (nat * nat)) : forall l', sorted (nat * nat) seg_lt l -> sorted (nat * nat) seg_lt l' ->
  Permutation l l' -> NoDup (map fst l) -> l = l'.
Proof.
  induction l as [|x t IH]; intros l' Hs Hs' HP Hn.
  - apply Permutation_nil in HP. subst. reflexivity.
  - destruct l' as [|y t']; [apply Permutation_sym, Permutation_nil in HP; discriminate|].
    cbn [sorted] in Hs, Hs'. destruct Hs as [Hx Hst], Hs' as [Hy Hst'].
    cbn [map] in Hn. inversion Hn as [|? ? Hnx Hnt]; subst.
    assert (E : x = y).
    { assert (Hxin : In x (y :: t')) by (apply (Permutation_in _ HP); left; reflexivity).
      assert (Hyin : In y (x :: t)) by (apply (Permutation_in _ (Permutation_sym HP)); left; reflexivity).
      destruct Hxin as [->|Hxin]; [reflexivity|]. destruct Hyin as [->|Hyin]; [reflexivity|].
      specialize (Hy x Hxin). specialize (Hx y Hyin). unfold seg_lt in Hx, Hy. apply Nat.ltb_ge in Hx, Hy.
      exfalso. apply Hnx. replace (fst x) with (fst y) by lia. apply in_map. exact Hyin. }
    subst y. f_equal. apply IH; [exact Hst|exact Hst'|exact (Permutation_cons_inv HP)|exact Hnt].
Qed.
Theorem gff_row_order_irrelevant f f' : Permutation (f_segs f) (f_segs f') -> NoDup (map fst (f_segs f)) ->
  f_rev f = f_rev f' -> f_cstart f = f_cstart f' -> gff_positions f = gff_positions f'.
Proof.
  intros HP Hn Hr Hc. unfold gff_positions. rewrite <- Hr, <- Hc.
  assert (E : sort_segs (f_segs f) = sort_segs (f_segs f')).
  { unfold sort_segs. apply sorted_perm_unique.
    - apply ssort_sorted; [exact seg_lt_irrefl|exact seg_lt_trans].
    - apply ssort_sorted; [exact seg_lt_irrefl|exact seg_lt_trans].
    - eapply Permutation_trans; [apply ssort_perm|]. eapply Permutation_trans; [exact HP|]. apply Permutation_sym, ssort_perm.
    - apply (Permutation_NoDup (l := map fst (f_segs f))); [|exact Hn]. apply Permutation_map, Permutation_sym, ssort_perm. }
  rewrite E. reflexivity.
Qed.

(* ---- the region record each path hands to the caller (name, strand, ordered positions, one residue per codon) ---- *)
Record aregion := { ar_name : list N; ar_rev : bool; ar_pos : list nat; ar_trans : list N }.
(* GFF3: the translation is computed from the reference bases at the positions *)
Definition region_gff (genome : list N) (f : feat) : res aregion :=
  bind (gff_translation genome f) (fun t => Ok {| ar_name := f_name f; ar_rev := f_rev f; ar_pos := gff_positions f; ar_trans := t |}).
(* GenBank: the /translation qualifier (protein without the stop) plus "*"; form0 = complement(join(..)), form1 = join(complement(..),..) *)
Definition region_gb (form1 : bool) (f : feat) (translation : list N) : aregion :=
  {| ar_name := f_name f; ar_rev := f_rev f; ar_pos := if form1 then gb_positions_form1 f else gb_positions_form0 f;
     ar_trans := translation ++ [42%N] |}.

(* a consistent annotation (the GenBank /translation is what the CDS translates to, stop excluded) gives the SAME region
   on both paths, in either GenBank spelling of a reverse-strand join *)
Theorem regions_gb_eq_gff genome f translation form1 : segs_ascending (f_segs f) ->
  gff_translation genome f = Ok (translation ++ [42%N]) -> region_gff genome f = Ok (region_gb form1 f translation).
Proof.
  intros Hs H. unfold region_gff, region_gb. rewrite H. cbn [bind]. destruct (positions_gb_eq_gff f Hs) as [E0 E1].
  destruct form1; [rewrite E1|rewrite E0]; reflexivity.
Qed.
(* and so does every list of features: the two descriptions hand identical inputs to the variant caller *)
Theorem region_lists_gb_eq_gff genome fs : Forall (fun f => segs_ascending (f_segs f)) fs ->
  forall trs forms, length trs = length fs -> length forms = length fs ->
  (forall k, k < length fs -> gff_translation genome (nth k fs {| f_name := []; f_rev := false; f_segs := []; f_cstart := 1 |}) = Ok (nth k trs [] ++ [42%N])) ->
  map (region_gff genome) fs = map (@Ok aregion) (map (fun x => region_gb (fst (fst x)) (snd (fst x)) (snd x)) (combine (combine forms fs) trs)).
Proof.
  intros Hasc. induction Hasc as [|f t Hf Ht IH]; intros [|tr trs] [|fm forms] Hl1 Hl2 H; try discriminate; [reflexivity|].
  cbn [map combine fst snd]. f_equal.
  - apply regions_gb_eq_gff; [exact Hf|]. apply (H 0). cbn. lia.
  - apply IH; [cbn in Hl1; lia|cbn in Hl2; lia|]. intros k Hk. apply (H (S k)). cbn. lia.
Qed.

(* ---- the strand on the GenBank path.  Location.IsReverse answers "does the location contain complement(", which on the AST
   is f_rev (all three renderings of a reverse feature contain it, no rendering of a forward one does).  Before repair D14 it
   compared the first and the last position of the list; that rule is wrong for a join listed in descending order, in both
   directions: *)
Definition old_is_reverse (ps : list nat) : bool := Nat.ltb (last ps 0) (hd 0 ps).
Lemma old_strand_rule_refuted :
  (exists f, f_rev f = false /\ old_is_reverse (gb_positions_form0 f) = true) /\
  (exists f, f_rev f = true /\ old_is_reverse (gb_positions_form0 f) = false).
Proof.
  split.
  - exists {| f_name := []; f_rev := false; f_segs := [(40, 51); (1, 9)]; f_cstart := 1 |}. split; reflexivity.
  - exists {| f_name := []; f_rev := true; f_segs := [(38, 41); (25, 26); (28, 33)]; f_cstart := 1 |}. split; reflexivity.
Qed.
