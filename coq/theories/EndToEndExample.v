(* EndToEndExample.v — the premises of same_mutations_from_both_files are jointly satisfiable: one concrete GenBank flat file and one
   concrete GFF3 file (a reverse-strand gene of two segments with codon_start 2; the GenBank location continued on a second line; the
   GFF3 rows in descending order), every premise checked, and the conclusion instantiated. *)
From Coq Require Import Floats.SpecFloat Permutation.
From GF Require Import Base Alphabet SymbolsDef Symbols FastaModel FastaLayout CodonModel TopK RegionsModel LocationModel LocationProofs GffLineModel GffLineProofs GenbankModel GenbankProofs
  GenbankFile GenbankFileProofs GffFile GffFileProofs ConsumerModel ConsumerProofs ConsumerGff ConsumerGffAny ConsumerBoth Indels VariantsModel RegionOrder EndToEnd.
Open Scope N_scope.

Lemma lacksb_ok s x : forallb (fun c => negb (c =? s)) x = true -> GenbankProofs.lacks s x.
Proof. intros H c Hc E. rewrite forallb_forall in H. specialize (H c Hc). rewrite E, N.eqb_refl in H. discriminate. Qed.
Lemma nospaceb_ok x : forallb (fun c => negb (GenbankModel.is_space c)) x = true -> nospace x.
Proof. intros H. apply Forall_forall. intros c Hc. rewrite forallb_forall in H. specialize (H c Hc). apply negb_true_iff in H. exact H. Qed.

(* ---- the GenBank file ---- *)
Definition e_w : wfeat :=
  {| fk := bs "CDS"; floc := bs "complement(join(2..7,"; fmore := [bs "11..17))"];
     fquals := [{| qk := bs "gene"; qv := bs "g1"; qquoted := true; qmore := [] |};
                {| qk := bs "codon_start"; qv := bs "2"; qquoted := false; qmore := [] |};
                {| qk := bs "translation"; qv := bs "MET"; qquoted := true; qmore := [] |}] |}.
Definition e_items : list (bool * feat * list N * wfeat) := [(false, ex_feat, bs "MET", e_w)].
Definition e_pre : list section := [{| s_head := bs "LOCUS       TEST 23 bp"; s_name := bs "LOCUS"; s_body := [bs "  a continuation line"] |}].
Definition e_olines : list (list (list N * list N)) :=
  [[(bs "        1 ", bs "attaggtccc"); ([32], bs "ttccatgaaa"); ([32], bs "aaa")]; [(bs "//", [])]].
Definition e_gb_lines : list (list N) := flatten (e_pre ++ [features_section (map snd e_items); origin_section 0 e_olines]).
Definition e_gblines : list (list N * bool) := map (fun l => (l, false)) e_gb_lines.

Lemma e_w_wf : wf_feat e_w.
Proof.
  unfold wf_feat, e_w. cbn [fk floc fmore fquals].
  split; [discriminate|]. split; [apply nospaceb_ok; reflexivity|]. split; [discriminate|]. split; [discriminate|]. split; [apply nospaceb_ok; reflexivity|]. split; [discriminate|].
  split.
  - constructor; [|constructor; [|constructor; [|constructor]]]; unfold wf_qual; cbn [qk qv qquoted qmore];
      (split; [discriminate|]; split; [apply lacksb_ok; reflexivity|]; split; [discriminate|]; split; [apply lacksb_ok; reflexivity|]; split; [apply lacksb_ok; reflexivity|];
       split; [first [discriminate | intros _; apply nospaceb_ok; reflexivity]|]; intros Hx; congruence).
  - constructor; [|constructor]. split; [discriminate|]. split; [apply nospaceb_ok; reflexivity|discriminate].
Qed.
Lemma e_writes : Forall (fun x => writes_cds (fst (fst (fst x))) (snd (fst (fst x))) (snd (fst x)) (snd x)) e_items.
Proof.
  constructor; [|constructor]. cbn [fst snd]. unfold writes_cds. split; [exact e_w_wf|]. split; [reflexivity|]. split; [vm_compute; reflexivity|].
  split; [vm_compute; reflexivity|]. split; [discriminate|]. split; [vm_compute; lia|]. split; [vm_compute; lia|]. split; [vm_compute; discriminate|]. vm_compute. reflexivity.
Qed.

Lemma e_pre_ok : Forall sec_ok e_pre /\ Forall other_name e_pre.
Proof.
  split.
  - constructor; [|constructor]. split.
    + split; [exists 76, (bs "OCUS       TEST 23 bp"); split; reflexivity|]. eexists. vm_compute. reflexivity.
    + constructor; [|constructor]. exists 32, (bs " a continuation line"). split; reflexivity.
  - constructor; [|constructor]. split; discriminate.
Qed.
Lemma e_olines_ok : Forall (Forall piece_ok) e_olines /\ Forall body_line_ok (map origin_line e_olines).
Proof.
  split.
  - repeat constructor.
  - constructor; [|constructor; [|constructor]].
    + eexists 32, _. split; [vm_compute; reflexivity|reflexivity].
    + eexists 47, _. split; [vm_compute; reflexivity|reflexivity].
Qed.
Lemma e_gblines_ok : Forall (fun le => ok_line (fst le)) e_gblines /\ map fst e_gblines = e_gb_lines.
Proof.
  split.
  - assert (E : forallb (fun l => negb (existsb (N.eqb 10) l) && negb (last l 0 =? 13)) e_gb_lines = true) by (vm_compute; reflexivity).
    unfold e_gblines. apply Forall_forall. intros le Hle. apply in_map_iff in Hle as (l & <- & Hl). cbn [fst].
    rewrite forallb_forall in E. specialize (E l Hl). apply andb_true_iff in E as [E1 E2]. split.
    + intros Hin. apply negb_true_iff in E1. assert (X : existsb (N.eqb 10) l = true) by (apply existsb_exists; exists 10; split; [exact Hin|reflexivity]). congruence.
    + apply negb_true_iff in E2. apply N.eqb_neq. exact E2.
  - unfold e_gblines. rewrite map_map. cbn [fst]. apply map_id.
Qed.

(* ---- the GFF3 file ---- *)
Definition e_row (a b : nat) (ph : nat) : grow :=
  {| w_seqid := bs "ref"; w_source := bs "t"; w_type := bs "CDS"; w_start := a; w_end := b; w_score := [46]; w_strand := 45; w_phase := Some ph;
     w_attrs := [(bs "ID", [bs "c1"]); (bs "Name", [bs "g1"])] |}.
Definition e_rows : list grow := [e_row 11 17 1; e_row 2 7 0].                     (* descending, as NCBI lists a reverse-strand CDS *)
Definition e_regs : list (list N * (nat * nat)) := [(bs "ref", (1, 23)%nat)].
Definition e_gs : list group := [(bs "c1", [feat_of (e_row 2 7 0); feat_of (e_row 11 17 1)])].
Definition e_gff_lines : list (list N) := version_line :: map region_line e_regs ++ map render_row e_rows ++ bs "##FASTA" :: (62 :: bs "ref") :: [ex_genome].
Definition e_gfflines : list (list N * bool) := map (fun l => (l, false)) e_gff_lines.

Lemma glacksb_ok s x : forallb (fun c => negb (c =? s)) x = true -> GffLineProofs.lacks s x.
Proof. exact (lacksb_ok s x). Qed.
Lemma e_row_wf a b ph : (ph <= 2)%nat -> wf_row (e_row a b ph).
Proof.
  intros Hp. unfold wf_row, e_row. cbn [w_seqid w_source w_type w_score w_strand w_phase w_attrs].
  split; [reflexivity|]. split; [apply glacksb_ok; reflexivity|]. split; [apply glacksb_ok; reflexivity|]. split; [apply glacksb_ok; reflexivity|]. split; [apply glacksb_ok; reflexivity|].
  split; [right; left; reflexivity|]. split; [exact Hp|]. split; [discriminate|].
  constructor; [|constructor; [|constructor]]; unfold wf_attr; cbn [fst snd];
    (split; [apply glacksb_ok; reflexivity|]; split; [apply glacksb_ok; reflexivity|]; split; [apply glacksb_ok; reflexivity|]; split; [discriminate|];
     constructor; [|constructor]; repeat split; apply glacksb_ok; reflexivity).
Qed.

Lemma e_gff_side :
  Forall wf_region e_regs /\ e_rows <> [] /\ Forall wf_row e_rows /\
  first_field (bs "ref") = Some (bs "ref") /\ concat [ex_genome] <> [] /\ Forall valid_chunk [ex_genome] /\ Forall ok_line ((62 :: bs "ref") :: [ex_genome]) /\
  Forall (fun r => is_cds_row r = true /\ exists i, row_id r = Some i) (map feat_of e_rows) /\
  ids_in_order [] (map feat_of e_rows) = map fst e_gs /\ Forall (canonical (map feat_of e_rows)) e_gs.
Proof.
  split; [constructor; [split; [discriminate|apply nospaceb_ok; reflexivity]|constructor]|].
  split; [discriminate|]. split; [constructor; [apply e_row_wf; lia|constructor; [apply e_row_wf; lia|constructor]]|].
  split; [reflexivity|]. split; [discriminate|].
  split.
  { constructor; [|constructor]. assert (E : forallb (fun x => (x <? 256) && valid x) ex_genome = true) by (vm_compute; reflexivity).
    apply Forall_forall. intros x Hx. rewrite forallb_forall in E. specialize (E x Hx). apply andb_true_iff in E as [E1 E2]. split; [apply N.ltb_lt; exact E1|exact E2]. }
  split.
  { constructor; [|constructor; [|constructor]]; (split; [intros Hin; vm_compute in Hin; repeat (destruct Hin as [Hin|Hin]; [discriminate|]); exact Hin|vm_compute; discriminate]). }
  split; [constructor; [split; [reflexivity|eexists; vm_compute; reflexivity]|constructor; [split; [reflexivity|eexists; vm_compute; reflexivity]|constructor]]|].
  split; [vm_compute; reflexivity|].
  constructor; [|constructor]. split; [|split].
  - cbn [snd e_gs sorted]. split; [intros y [<-|[]]; vm_compute; reflexivity|]. split; [intros y []|exact I].
  - cbn [snd map]. constructor; [intros [H|[]]; vm_compute in H; discriminate|]. constructor; [intros []|constructor].
  - assert (E : filter (has_id (bs "c1")) (map feat_of e_rows) = [feat_of (e_row 11 17 1); feat_of (e_row 2 7 0)]) by (vm_compute; reflexivity).
    cbn [fst snd]. rewrite E. apply perm_swap.
Qed.
Lemma e_gfflines_ok : Forall (fun le => ok_line (fst le)) e_gfflines /\ map fst e_gfflines = e_gff_lines.
Proof.
  split.
  - assert (E : forallb (fun l => negb (existsb (N.eqb 10) l) && negb (last l 0 =? 13)) e_gff_lines = true) by (vm_compute; reflexivity).
    unfold e_gfflines. apply Forall_forall. intros le Hle. apply in_map_iff in Hle as (l & <- & Hl). cbn [fst].
    rewrite forallb_forall in E. specialize (E l Hl). apply andb_true_iff in E as [E1 E2]. split.
    + intros Hin. apply negb_true_iff in E1. assert (X : existsb (N.eqb 10) l = true) by (apply existsb_exists; exists 10; split; [exact Hin|reflexivity]). congruence.
    + apply negb_true_iff in E2. apply N.eqb_neq. exact E2.
  - unfold e_gfflines. rewrite map_map. cbn [fst]. apply map_id.
Qed.

(* ---- every premise holds; the conclusion, for these two files ---- *)
Notation e_rs := (map (fun x => cregion_of (region_gb (fst (fst (fst x))) (snd (fst (fst x))) (snd (fst x)))) e_items).
Notation e_genome := (degap (map upper (concat [ex_genome]))).
Lemma e_codes : exists inter, codes e_rs (length e_genome) = Ok inter /\ length inter = 11%nat.
Proof. eexists; split; vm_compute; reflexivity. Qed.
Lemma e_len : length (concat (map (fun l => concat (map snd l)) e_olines)) = length e_genome.
Proof. vm_compute. reflexivity. Qed.
Lemma e_groups : Forall2 (fun g x => region_from_gfeats e_genome (snd g) = Ok x) e_gs e_rs.
Proof. constructor; [vm_compute; reflexivity|constructor]. Qed.
Lemma e_named : Forall (fun x => cr_name x <> []) e_rs.
Proof. constructor; [vm_compute; discriminate|constructor]. Qed.
Lemma e_items_ne : e_items <> []. Proof. discriminate. Qed.

Example both_files_example :
  exists inter gb_regions gff_regions,
    regions_of_genbank_text (FastaLayout.render e_gblines) = Ok (gb_regions, inter) /\
    regions_of_gff_text (FastaLayout.render e_gfflines) = Ok (gff_regions, inter) /\
    gb_regions = e_rs /\ length inter = 11%nat /\
    forall (ref que : list N) (l : list variant),
      variants_pair ref que (map to_region gb_regions) (map Z.to_nat inter) = Ok l ->
      exists l', variants_pair ref que (map to_region gff_regions) (map Z.to_nat inter) = Ok l' /\ Permutation l l'.
Proof.
  destruct e_pre_ok as [Hpre Hoth]. destruct e_olines_ok as [Hp Hb]. destruct e_gblines_ok as [Hgl Egl]. destruct e_gfflines_ok as [Hfl Efl].
  destruct e_gff_side as (Hregs & Hrne & Hrows & Hid & Hc & Hv & Hok & HR & Hids & Hcan).
  destruct e_codes as (inter & Hcodes & Hlen11).
  pose proof (bytes_regions_gb_vs_gff_any_order e_pre e_items 0 e_olines e_gblines e_regs e_rows (bs "ref") [ex_genome] (bs "ref") e_gs e_gfflines
                Hpre Hoth e_items_ne e_writes Hp Hb Hgl Egl Hregs Hrne Hrows Hid Hc Hv Hok HR Hids Hcan Hfl Efl e_len e_groups e_named inter Hcodes) as [E1 E2].
  exists inter, e_rs, (ssort cregion (fun a b => (cr_start a <? cr_start b)%Z) e_rs).
  split; [exact E1|]. split; [exact E2|]. split; [reflexivity|]. split; [exact Hlen11|].
  intros ref que l Hl. apply (variants_region_order_irrelevant ref que (map to_region e_rs)); [|exact Hl].
  apply Permutation_map, Permutation_sym, ssort_perm.
Qed.
