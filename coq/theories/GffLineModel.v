(* GffLineModel.v — C14: one feature row of a GFF3 file at the level of bytes (pkg/gff/gff.go featureFromLine, seqidFromField /
   isEscapedCorrectly, strandFromField, phaseFromField, attributesFromField).  Definitions only.
   Outside the model: non-ASCII bytes (the regular expression works on runes), numbers of more than 18 digits. *)
From GF Require Import Base FastaModel LocationModel.
Open Scope N_scope.

Fixpoint split_byte (s : N) (l : list N) (rcur : list N) : list (list N) :=          (* strings.Split(l, string(s)) *)
  match l with
  | [] => [rev rcur]
  | c :: t => if c =? s then rev rcur :: split_byte s t [] else split_byte s t (c :: rcur)
  end.

(* the class [a-zA-Z0-9.:^*$@!+_?-|] as regexp reads it: "?-|" is the RANGE 0x3F..0x7C *)
Definition seqid_class (c : N) : bool :=
  ((97 <=? c) && (c <=? 122)) || ((65 <=? c) && (c <=? 90)) || ((48 <=? c) && (c <=? 57)) ||
  existsb (N.eqb c) [46; 58; 94; 42; 36; 64; 33; 43; 95] || ((63 <=? c) && (c <=? 124)).
(* regexp.MatchString("[^\\][^a-zA-Z0-9.:^*$@!+_?-|]", f): in the Go source the pattern is the text  [^\][^a-z...?-|]  and "\]" inside a
   class is an escaped ']', so this is ONE negated class (holding ']', '[', '^' and the characters above; '[' and ']' lie in the
   range 0x3F..0x7C anyway): the field is refused iff SOME byte is outside the class - among them '-', '%', '/', ' ' *)
Definition seqid_bad (l : list N) : bool := existsb (fun c => negb (seqid_class c)) l.
Definition seqid_ok (f : list N) : bool :=
  negb (match f with 62 :: _ => true | _ => false end) && negb (seqid_bad f).

Definition strand_ok (f : list N) : bool :=
  list_eqb f [43] || list_eqb f [45] || list_eqb f [46] || list_eqb f [63].

Definition phase_of (is_cds : bool) (f : list N) : option nat :=
  match atoi f with
  | Some z => if (0 <=? z)%Z && (z <=? 2)%Z then Some (Z.to_nat z) else None
  | None => if negb is_cds && list_eqb f [46] then Some 0%nat else None
  end.

(* attributes: tag=value pairs separated by ';'; a value is split at ','; a later pair with the same tag replaces the earlier *)
Fixpoint attrs_of (pairs : list (list N)) : option (list (list N * list (list N))) :=
  match pairs with
  | [] => Some []
  | p :: t => match split_byte 61 p [] with
              | [k; v] => option_map (cons (k, split_byte 44 v [])) (attrs_of t)
              | _ => None
              end
  end.
Fixpoint attr_get (k : list N) (a : list (list N * list (list N))) : option (list (list N)) :=      (* the LAST pair with that tag *)
  match a with
  | [] => None
  | (k', v) :: t => match attr_get k t with Some r => Some r | None => if list_eqb k k' then Some v else None end
  end.

Record gfeat := { g_seqid : list N; g_source : list N; g_type : list N; g_start : Z; g_end : Z; g_score : list N;
                  g_strand : list N; g_phase : nat; g_attrs : list (list N * list (list N)) }.

Definition feature_from_line (l : list N) : res gfeat :=
  match split_byte 9 l [] with
  | [f0; f1; f2; f3; f4; f5; f6; f7; f8] =>
      if negb (seqid_ok f0) then Err BadFormat else
      match atoi f3 with None => Err BadFormat | Some s =>
      match atoi f4 with None => Err BadFormat | Some e =>
      if negb (strand_ok f6) then Err BadFormat else
      match phase_of (list_eqb f2 (bs "CDS")) f7 with None => Err BadFormat | Some ph =>
      match attrs_of (split_byte 59 f8 []) with None => Err BadFormat | Some a =>
      Ok {| g_seqid := f0; g_source := f1; g_type := f2; g_start := s; g_end := e; g_score := f5; g_strand := f6; g_phase := ph; g_attrs := a |}
      end end end end
  | _ => Err BadFormat
  end.

(* ---- a row as an annotation writes it ---- *)
Record grow := { w_seqid : list N; w_source : list N; w_type : list N; w_start : nat; w_end : nat; w_score : list N;
                 w_strand : N; w_phase : option nat; w_attrs : list (list N * list (list N)) }.
Definition render_attrs (a : list (list N * list (list N))) : list N :=
  join [59] (map (fun kv => fst kv ++ [61] ++ join [44] (snd kv)) a).
Definition render_row (r : grow) : list N :=
  join [9] [w_seqid r; w_source r; w_type r; dec_nat (w_start r); dec_nat (w_end r); w_score r; [w_strand r];
            (match w_phase r with Some p => dec_nat p | None => [46] end); render_attrs (w_attrs r)].
