(* Check_Genbank.v — verdict for one FEATURES block: genbank.ReadGenBank (implementation) vs parse_features (model). 0 agree, 2 disagree *)
From Coq Require Import Floats.SpecFloat.
From GF Require Import Base FastaModel Harness GenbankModel TopK CodonModel Indels VariantsModel Check_Gff.
Open Scope N_scope.
Definition ser_gbfeat (f : gbfeat) : list N :=
  [35] ++ ser_str (gf_key f) ++ ser_str (gf_loc f) ++
  match gf_info f with
  | None => bs "nil"
  | Some m => concat (map (fun k => [124] ++ ser_str k ++ ser_str (match info_get k m with Some v => v | None => [] end))
                          (ssort (list N) bytes_ltb (nodup_keys [] (map fst m))))
  end.
Definition check_genbank (c : list (list N) * gores) : N :=
  let '(lines, g) := c in
  let m := match parse_features lines with Ok fs => Ok (concat (map ser_gbfeat fs)) | Err e => Err e | Panic => Panic end in
  if agree g m then 0 else 2.
Definition check_origin (c : list (list N) * gores) : N :=
  let '(lines, g) := c in if agree g (Ok (parse_origin lines)) then 0 else 2.
