(* Properties_C04.v — C04: variants loses no nucleotide difference and every aa call is a true translation.
   PARTIAL: proved here are the coordinate map, the coding/intergenic partition and the intergenic SNP
   rule; the per-codon decision and merge/dedupe are covered by the correspondence check and by the
   statement-level oracle (every row of the implementation's output checked against disjoint positions
   and the standard genetic code), not yet by a theorem. *)
From Coq Require Import Floats.SpecFloat.
From GF Require Import Base Alphabet Symbols FastaModel Float TopK CodonModel Indels VariantsModel VariantsProofs.
Open Scope N_scope.

(* reference position p is looked up in its own alignment column, whatever insertions the alignment has *)
Theorem C04_align_pos_is_own_column : forall ref p,
  (1 <= p <= length (filter nongap ref))%nat ->
  (nth (align_pos (ref_to_msa ref) p) ref 0 =? 244) = false /\
  length (filter nongap (firstn (align_pos (ref_to_msa ref) p) ref)) = (p - 1)%nat.
Proof. exact align_pos_is_own_column. Qed.
Print Assumptions C04_align_pos_is_own_column.

(* every reference position is in a reported region or in the intergenic list, never both *)
Theorem C04_partition : forall gs reflen p, (1 <= p <= reflen)%nat ->
  (In p (inter_of gs reflen) <-> ~ exists g, In g gs /\ In p (g_pos g)).
Proof. exact inter_of_partition. Qed.
Print Assumptions C04_partition.

(* intergenic positions: a nuc: record iff the symbols test disjoint *)
Theorem C04_intergenic_nucs : forall ref que r2m inter v,
  In v (get_nucs ref que r2m inter) <->
  exists p, In p inter /\ (N.land (nth (align_pos r2m p) ref 0) (nth (align_pos r2m p) que 0) <? 16) = true /\
            v = mk_nuc (dec (nth (align_pos r2m p) ref 0)) (dec (nth (align_pos r2m p) que 0)) p.
Proof. exact get_nucs_iff. Qed.
Print Assumptions C04_intergenic_nucs.
