(* Properties_C04.v — C04: variants loses no nucleotide difference and every aa call is a true translation.
   PARTIAL: proved here are the coordinate map, the coding/intergenic partition and the intergenic SNP
   rule; the per-codon decision and merge/dedupe are covered by the correspondence check and by the
   statement-level oracle (every row of the implementation's output checked against disjoint positions
   and the standard genetic code), not yet by a theorem. *)
From Coq Require Import Floats.SpecFloat.
From GF Require Import Base Alphabet Symbols FastaModel Float TopK CodonModel Indels VariantsModel VariantsProofs.
Open Scope N_scope.

(* reference position p is looked up in its own alignment column, whatever insertions the alignment has *)
Theorem C04_align_pos_is_own_column : forall ref p,
  (1 <= p <= length (filter nongap ref))%nat ->
  (nth (align_pos (ref_to_msa ref) p) ref 0 =? 244) = false /\
  length (filter nongap (firstn (align_pos (ref_to_msa ref) p) ref)) = (p - 1)%nat.
Proof. exact align_pos_is_own_column. Qed.
Print Assumptions C04_align_pos_is_own_column.

(* every reference position is in a reported region or in the intergenic list, never both *)
Theorem C04_partition : forall gs reflen p, (1 <= p <= reflen)%nat ->
  (In p (inter_of gs reflen) <-> ~ exists g, In g gs /\ In p (g_pos g)).
Proof. exact inter_of_partition. Qed.
Print Assumptions C04_partition.

(* intergenic positions: a nuc: record iff the symbols test disjoint *)
Theorem C04_intergenic_nucs : forall ref que r2m inter v,
  In v (get_nucs ref que r2m inter) <->
  exists p, In p inter /\ (N.land (nth (align_pos r2m p) ref 0) (nth (align_pos r2m p) que 0) <? 16) = true /\
            v = mk_nuc (dec (nth (align_pos r2m p) ref 0)) (dec (nth (align_pos r2m p) que 0)) p.
Proof. exact get_nucs_iff. Qed.
Print Assumptions C04_intergenic_nucs.

(* the codon loop of one region (length a multiple of 3): the positions mentioned by what it emits - its nuc: records
   and the (nuc:...) lists of its aa: records - are EXACTLY the region's positions at which the reference and query
   symbols test disjoint, in region order: none dropped, none invented; any region (strand, joins), any rows *)
Theorem C04_codon_loop_mentions_exact : forall ref que r2m g,
  (forall p, In p (g_pos g) -> (nth (align_pos r2m p) ref 0 =? 244) = false) ->
  forall out, (length (g_pos g) mod 3 = 0)%nat ->
  get_aas_traced ref que r2m g = Ok out -> flat_map snd out = filter (dis ref que r2m) (g_pos g).
Proof. exact aa_mentions_exact. Qed.
Print Assumptions C04_codon_loop_mentions_exact.

(* before sorting: the merged list (indels, intergenic nucs, every region's records) mentions p iff p is a reference
   position whose symbols test disjoint - this is where the coding/intergenic partition is used *)
Theorem C04_merged_mentions_exact : forall ref que gs,
  (forall g p, In g gs -> In p (g_pos g) -> (1 <= p <= length (filter nongap ref))%nat) ->
  (forall g, In g gs -> (length (g_pos g) mod 3 = 0)%nat) ->
  forall aas, all_aas ref que (ref_to_msa ref) gs = Ok aas -> forall p,
  In p (flat_map snd (map (fun i => (mk_indel i, [])) (Indels.get_indels (cols_of_rows ref que)) ++
                      map trace_nuc (get_nucs ref que (ref_to_msa ref) (inter_of gs (length (filter nongap ref)))) ++ aas)) <->
  ((1 <= p <= length (filter nongap ref))%nat /\ dis ref que (ref_to_msa ref) p = true).
Proof. exact merged_mentions_exact. Qed.
Print Assumptions C04_merged_mentions_exact.

(* after the stable sort and the duplicate removal nothing is invented: every position the final list mentions is a
   reference position whose symbols test disjoint *)
Theorem C04_nuc_mentions_sound : forall ref que gs,
  (forall g p, In g gs -> In p (g_pos g) -> (1 <= p <= length (filter nongap ref))%nat) ->
  (forall g, In g gs -> (length (g_pos g) mod 3 = 0)%nat) ->
  forall out, variants_pair_traced ref que gs (inter_of gs (length (filter nongap ref))) = Ok out ->
  forall p, In p (flat_map snd out) -> ((1 <= p <= length (filter nongap ref))%nat /\ dis ref que (ref_to_msa ref) p = true).
Proof. exact nuc_mentions_sound. Qed.
Print Assumptions C04_nuc_mentions_sound.

(* none is dropped through the sort and the duplicate removal either: every reference position whose symbols test
   disjoint is mentioned by the final list - under the stated side condition that no two aa: records of the sorted list
   are equal (records of one feature differ in their residue number, so this holds whenever feature names are distinct) *)
Theorem C04_nuc_mentions_complete : forall ref que gs,
  (forall g p, In g gs -> In p (g_pos g) -> (1 <= p <= length (filter nongap ref))%nat) ->
  (forall g, In g gs -> (length (g_pos g) mod 3 = 0)%nat) ->
  forall out aas, all_aas ref que (ref_to_msa ref) gs = Ok aas ->
  variants_pair_traced ref que gs (inter_of gs (length (filter nongap ref))) = Ok out ->
  aa_uniq (ssort (variant * list nat) t_lt
             (map (fun i => (mk_indel i, [])) (Indels.get_indels (cols_of_rows ref que)) ++
              map trace_nuc (get_nucs ref que (ref_to_msa ref) (inter_of gs (length (filter nongap ref)))) ++ aas)) ->
  forall p, (1 <= p <= length (filter nongap ref))%nat -> dis ref que (ref_to_msa ref) p = true -> In p (flat_map snd out).
Proof. exact nuc_mentions_complete. Qed.
Print Assumptions C04_nuc_mentions_complete.
