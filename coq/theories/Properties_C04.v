(* Properties_C04.v — C04: variants loses no nucleotide difference and every aa call is a true translation.
   Proved: the coordinate map, the coding/intergenic partition, the intergenic SNP rule, the codon loop as a function
   of the feature's codons (which codon yields an aa: record, with which residue, alleles, feature and SNP list), the
   dictionary product = the standard genetic code, what the merged and the final list mention (none invented, none
   dropped).  The aa: records of the final list are exactly those of the features' codon loops (C04_aa_final_exact with
   C04_aa_records_exact); the final-list completeness of mentioned positions needs pairwise distinct feature names; GenBank /translation text is an input. *)
From Coq Require Import Floats.SpecFloat.
From GF Require Import Base Alphabet Symbols FastaModel Float TopK CodonModel Indels VariantsModel VariantsProofs AaProofs AaUniq.
Open Scope N_scope.

(* reference position p is looked up in its own alignment column, whatever insertions the alignment has *)
Theorem C04_align_pos_is_own_column : forall ref p,
  (1 <= p <= length (filter nongap ref))%nat ->
  (nth (align_pos (ref_to_msa ref) p) ref 0 =? 244) = false /\
  length (filter nongap (firstn (align_pos (ref_to_msa ref) p) ref)) = (p - 1)%nat.
Proof. exact align_pos_is_own_column. Qed.
Print Assumptions C04_align_pos_is_own_column.

(* every reference position is in a reported region or in the intergenic list, never both *)
Theorem C04_partition : forall gs reflen p, (1 <= p <= reflen)%nat ->
  (In p (inter_of gs reflen) <-> ~ exists g, In g gs /\ In p (g_pos g)).
Proof. exact inter_of_partition. Qed.
Print Assumptions C04_partition.

(* intergenic positions: a nuc: record iff the symbols test disjoint *)
Theorem C04_intergenic_nucs : forall ref que r2m inter v,
  In v (get_nucs ref que r2m inter) <->
  exists p, In p inter /\ (N.land (nth (align_pos r2m p) ref 0) (nth (align_pos r2m p) que 0) <? 16) = true /\
            v = mk_nuc (dec (nth (align_pos r2m p) ref 0)) (dec (nth (align_pos r2m p) que 0)) p.
Proof. exact get_nucs_iff. Qed.
Print Assumptions C04_intergenic_nucs.

(* the codon loop of one region (length a multiple of 3): the positions mentioned by what it emits - its nuc: records
   and the (nuc:...) lists of its aa: records - are EXACTLY the region's positions at which the reference and query
   symbols test disjoint, in region order: none dropped, none invented; any region (strand, joins), any rows *)
Theorem C04_codon_loop_mentions_exact : forall ref que r2m g,
  (forall p, In p (g_pos g) -> (nth (align_pos r2m p) ref 0 =? 244) = false) ->
  forall out, (length (g_pos g) mod 3 = 0)%nat ->
  get_aas_traced ref que r2m g = Ok out -> flat_map snd out = filter (dis ref que r2m) (g_pos g).
Proof. exact aa_mentions_exact. Qed.
Print Assumptions C04_codon_loop_mentions_exact.

(* before sorting: the merged list (indels, intergenic nucs, every region's records) mentions p iff p is a reference
   position whose symbols test disjoint - this is where the coding/intergenic partition is used *)
Theorem C04_merged_mentions_exact : forall ref que gs,
  (forall g p, In g gs -> In p (g_pos g) -> (1 <= p <= length (filter nongap ref))%nat) ->
  (forall g, In g gs -> (length (g_pos g) mod 3 = 0)%nat) ->
  forall aas, all_aas ref que (ref_to_msa ref) gs = Ok aas -> forall p,
  In p (flat_map snd (map (fun i => (mk_indel i, [])) (Indels.get_indels (cols_of_rows ref que)) ++
                      map trace_nuc (get_nucs ref que (ref_to_msa ref) (inter_of gs (length (filter nongap ref)))) ++ aas)) <->
  ((1 <= p <= length (filter nongap ref))%nat /\ dis ref que (ref_to_msa ref) p = true).
Proof. exact merged_mentions_exact. Qed.
Print Assumptions C04_merged_mentions_exact.

(* after the stable sort and the duplicate removal nothing is invented: every position the final list mentions is a
   reference position whose symbols test disjoint *)
Theorem C04_nuc_mentions_sound : forall ref que gs,
  (forall g p, In g gs -> In p (g_pos g) -> (1 <= p <= length (filter nongap ref))%nat) ->
  (forall g, In g gs -> (length (g_pos g) mod 3 = 0)%nat) ->
  forall out, variants_pair_traced ref que gs (inter_of gs (length (filter nongap ref))) = Ok out ->
  forall p, In p (flat_map snd out) -> ((1 <= p <= length (filter nongap ref))%nat /\ dis ref que (ref_to_msa ref) p = true).
Proof. exact nuc_mentions_sound. Qed.
Print Assumptions C04_nuc_mentions_sound.

(* none is dropped through the sort and the duplicate removal either: every reference position whose symbols test
   disjoint is mentioned by the final list - under the stated side condition that no two aa: records of the sorted list
   are equal (records of one feature differ in their residue number, so this holds whenever feature names are distinct) *)
Theorem C04_nuc_mentions_complete : forall ref que gs,
  (forall g p, In g gs -> In p (g_pos g) -> (1 <= p <= length (filter nongap ref))%nat) ->
  (forall g, In g gs -> (length (g_pos g) mod 3 = 0)%nat) ->
  forall out aas, all_aas ref que (ref_to_msa ref) gs = Ok aas ->
  variants_pair_traced ref que gs (inter_of gs (length (filter nongap ref))) = Ok out ->
  aa_uniq (ssort (variant * list nat) t_lt
             (map (fun i => (mk_indel i, [])) (Indels.get_indels (cols_of_rows ref que)) ++
              map trace_nuc (get_nucs ref que (ref_to_msa ref) (inter_of gs (length (filter nongap ref)))) ++ aas)) ->
  forall p, (1 <= p <= length (filter nongap ref))%nat -> dis ref que (ref_to_msa ref) p = true -> In p (flat_map snd out).
Proof. exact nuc_mentions_complete. Qed.
Print Assumptions C04_nuc_mentions_complete.

(* ... and that side condition follows from pairwise distinct feature names (records of one feature differ in their
   residue number, records of different features in the feature name): none dropped, none invented, final list *)
Theorem C04_nuc_mentions_complete_names : forall ref que gs,
  (forall g p, In g gs -> In p (g_pos g) -> (1 <= p <= length (filter nongap ref))%nat) ->
  (forall g, In g gs -> (length (g_pos g) mod 3 = 0)%nat) ->
  NoDup (map g_name gs) ->
  forall out, variants_pair_traced ref que gs (inter_of gs (length (filter nongap ref))) = Ok out ->
  forall p, (1 <= p <= length (filter nongap ref))%nat -> dis ref que (ref_to_msa ref) p = true -> In p (flat_map snd out).
Proof. exact nuc_mentions_complete_names. Qed.
Print Assumptions C04_nuc_mentions_complete_names.

(* ---- the aa: rule ---- *)
(* the codon loop of one feature, as a function: consecutive triples of the feature's position list (strand and joins
   are in the list), residue k+1 against the k-th reference residue; any feature, any rows, any length *)
Theorem C04_codon_loop_spec : forall ref que r2m g,
  (forall p, In p (g_pos g) -> (nth (align_pos r2m p) ref 0 =? 244) = false) ->
  get_aas_traced ref que r2m g = match codon_spec ref que r2m g 0 (g_pos g) with Some l => Ok l | None => Panic end.
Proof. exact codon_loop_spec. Qed.
Print Assumptions C04_codon_loop_spec.

(* an aa: record is emitted for codon j exactly when the query codon's product (on the feature's strand) is neither
   'X' nor the reference residue, and it then carries residue j+1, both residues, the feature's name (and the codon's
   SNPs); conversely every such codon has its record: sound and complete *)
Theorem C04_aa_records_exact : forall ref que r2m g out,
  (forall p, In p (g_pos g) -> (nth (align_pos r2m p) ref 0 =? 244) = false) ->
  get_aas_traced ref que r2m g = Ok out -> forall x,
  (In x out /\ v_kind (fst x) = KAA <->
   exists j ra, (3 * j + 2 < length (g_pos g))%nat /\ nth_error (g_trans g) j = Some ra /\
     let p1 := nth (3 * j) (g_pos g) 0%nat in let p2 := nth (3 * j + 1) (g_pos g) 0%nat in let p3 := nth (3 * j + 2) (g_pos g) 0%nat in
     let aa := aa_lookup g (dec (qsym que r2m p1) ++ dec (qsym que r2m p2) ++ dec (qsym que r2m p3)) in
     aa <> [ra] /\ aa <> [88] /\ codon_out ref que r2m g j p1 p2 p3 ra = [x] /\ v_kind (fst x) = KAA /\ v_queal (fst x) = aa /\
     v_refal (fst x) = [ra] /\ v_residue (fst x) = S j /\ v_feature (fst x) = g_name g).
Proof. exact aa_records_exact. Qed.
Print Assumptions C04_aa_records_exact.

(* the product looked up is a single residue, and it is b (not 'X') iff the strand-adjusted codon consists of three
   IUPAC codes all of whose A/C/G/T expansions translate to b under the standard genetic code *)
Theorem C04_aa_lookup_is_genetic_code : forall g c b, b <> 88 ->
  (aa_lookup g c = [b] <->
   exists c1 c2 c3, strand g c = [c1; c2; c3] /\ In c1 iupac15 /\ In c2 iupac15 /\ In c3 iupac15 /\ unique_product c1 c2 c3 = Some b).
Proof. exact aa_lookup_is_genetic_code. Qed.
Print Assumptions C04_aa_lookup_is_genetic_code.
Theorem C04_aa_lookup_single : forall g c, exists b, aa_lookup g c = [b].
Proof. exact aa_lookup_single. Qed.
Print Assumptions C04_aa_lookup_single.

(* the reference residues of the GFF path: strict translation gives, per codon, the unique product of the codon *)
Theorem C04_reference_residues_are_code : forall nuc tr, Forall (fun c => In c iupac15) nuc -> translate true nuc = Ok tr ->
  exists cs, codons (length nuc) nuc = Some cs /\
    forall k a b c, nth_error cs k = Some (a, b, c) -> exists v, unique_product a b c = Some v /\ nth_error tr k = Some v.
Proof. exact reference_residues_are_code. Qed.
Print Assumptions C04_reference_residues_are_code.

(* aa: records of the FINAL list (after merge, stable sort and duplicate removal): exactly those the codon loops of the
   annotation's features emit - none invented, none lost (a dropped duplicate has an equal record kept) *)
Theorem C04_aa_final_exact : forall ref que gs inter out, variants_pair_traced ref que gs inter = Ok out ->
  forall v, v_kind v = KAA ->
  (In v (map fst out) <-> exists g l, In g gs /\ get_aas_traced ref que (ref_to_msa ref) g = Ok l /\ In v (map fst l)).
Proof. exact aa_final_exact. Qed.
Print Assumptions C04_aa_final_exact.

(* no record twice: the mutation list of a sequence is duplicate-free for EVERY annotation - also when features share a name and
   a codon (pp1ab / pp1a) - since the duplicate removal drops every repetition, not only adjacent ones (repair D20) *)
Theorem C04_no_record_twice : forall ref que gs inter out, variants_pair_traced ref que gs inter = Ok out -> NoDup (map fst out).
Proof. exact final_list_nodup. Qed.
Print Assumptions C04_no_record_twice.
