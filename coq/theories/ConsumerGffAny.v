(* ConsumerGffAny.v — C14: the list level of RegionsFromGFF for rows in ANY order - the rows of one feature listed in any order, the
   rows of different features interleaved or not (D15 at the level of the whole file): what matters is the order in which the IDs
   first appear and, per ID, the SET of its rows (distinct starts). *)
From Coq Require Import Permutation.
From GF Require Import Base Alphabet SymbolsDef FastaModel CodonModel TopK RegionsModel LocationModel GffLineModel GenbankModel GenbankFile GffFile ConsumerModel ConsumerProofs ConsumerGff.
Open Scope N_scope.

Lemma start_lt_irrefl x : start_lt x x = false. Proof. unfold start_lt. apply Z.ltb_irrefl. Qed.
Lemma start_lt_trans x y z : start_lt x y = true -> start_lt y z = true -> start_lt x z = true.
Proof. unfold start_lt. rewrite !Z.ltb_lt. lia. Qed.

Lemma sorted_start_unique (l : list gfeat) : forall l', sorted gfeat start_lt l -> sorted gfeat start_lt l' ->
  Permutation l l' -> NoDup (map g_start l) -> l = l'.
Proof.
  induction l as [|x t IH]; intros l' Hs Hs' HP Hn.
  - apply Permutation_nil in HP. subst. reflexivity.
  - destruct l' as [|y t']; [apply Permutation_sym, Permutation_nil in HP; discriminate|].
    cbn [sorted] in Hs, Hs'. destruct Hs as [Hx Hst], Hs' as [Hy Hst'].
    cbn [map] in Hn. inversion Hn as [|? ? Hnx Hnt]; subst.
    assert (E : x = y).
    { assert (Hxin : In x (y :: t')) by (apply (Permutation_in _ HP); left; reflexivity).
      assert (Hyin : In y (x :: t)) by (apply (Permutation_in _ (Permutation_sym HP)); left; reflexivity).
      destruct Hxin as [->|Hxin]; [reflexivity|]. destruct Hyin as [->|Hyin]; [reflexivity|].
      specialize (Hy x Hxin). specialize (Hx y Hyin). unfold start_lt in Hx, Hy. apply Z.ltb_ge in Hx, Hy.
      exfalso. apply Hnx. replace (g_start x) with (g_start y) by lia. apply in_map. exact Hyin. }
    subst y. f_equal. apply IH; [exact Hst|exact Hst'|exact (Permutation_cons_inv HP)|exact Hnt].
Qed.

Lemma all_cds_rows (R : list gfeat) : Forall (fun r => is_cds_row r = true /\ exists i, row_id r = Some i) R -> filter is_cds_row R = R.
Proof. induction 1 as [|r t [Hc _] _ IH]; [reflexivity|]. cbn [filter]. rewrite Hc, IH. reflexivity. Qed.
Lemma no_single_rows (R : list gfeat) : Forall (fun r => is_cds_row r = true /\ exists i, row_id r = Some i) R ->
  filter (fun f => match row_id f with None => true | Some _ => false end) R = [].
Proof. induction 1 as [|r t [_ (i & Hi)] _ IH]; [reflexivity|]. cbn [filter]. rewrite Hi. exact IH. Qed.

Definition canonical (R : list gfeat) (g : group) : Prop :=
  sorted gfeat start_lt (snd g) /\ NoDup (map g_start (snd g)) /\ Permutation (filter (has_id (fst g)) R) (snd g).

Theorem regions_from_gff_any_order genome (R : list gfeat) (gs : list group) (rs : list cregion) :
  Forall (fun r => is_cds_row r = true /\ exists i, row_id r = Some i) R ->
  ids_in_order [] R = map fst gs ->
  Forall (canonical R) gs ->
  Forall2 (fun g r => region_from_gfeats genome (snd g) = Ok r) gs rs ->
  Forall (fun r => cr_name r <> []) rs ->
  regions_from_gff R genome =
  bind (codes rs (length genome)) (fun inter => Ok (ssort cregion (fun a b => (cr_start a <? cr_start b)%Z) rs, inter)).
Proof.
  intros HR Hids Hcan Hreg Hnamed. unfold regions_from_gff. rewrite (all_cds_rows R HR), (no_single_rows R HR). cbn [map]. rewrite app_nil_r.
  rewrite Hids, map_map. rewrite (map_ext_in _ snd gs).
  2:{ intros g Hg. cbv beta. change (filter _ R) with (filter (has_id (fst g)) R).
      rewrite Forall_forall in Hcan. destruct (Hcan g Hg) as (Hs & Hn & HP). symmetry. apply sorted_start_unique; [exact Hs| | |exact Hn].
      - apply ssort_sorted; [exact start_lt_irrefl|exact start_lt_trans].
      - eapply Permutation_trans; [apply Permutation_sym; exact HP|apply Permutation_sym, ssort_perm]. }
  rewrite (collect_ok (region_from_gfeats genome) (map snd gs) rs).
  - cbn [bind]. assert (En : filter (fun r => negb (list_eqb (cr_name r) [])) rs = rs).
    { clear -Hnamed. induction Hnamed as [|r t Hr _ IH]; [reflexivity|]. cbn [filter].
      destruct (list_eqb (cr_name r) []) eqn:E; [apply list_eqb_eq in E; contradiction|]. cbn [negb]. rewrite IH. reflexivity. }
    rewrite En. reflexivity.
  - clear -Hreg. induction Hreg as [|g r gs rs H _ IH]; [constructor|]. cbn [map]. constructor; assumption.
Qed.

(* hence two files that list the same rows in different orders - but introduce the IDs in the same order - give the same regions *)
Corollary gff_file_row_order_irrelevant genome (R R' : list gfeat) (gs : list group) (rs : list cregion) :
  Forall (fun r => is_cds_row r = true /\ exists i, row_id r = Some i) R -> Forall (fun r => is_cds_row r = true /\ exists i, row_id r = Some i) R' ->
  ids_in_order [] R = map fst gs -> ids_in_order [] R' = map fst gs ->
  Forall (canonical R) gs -> Forall (canonical R') gs ->
  Forall2 (fun g r => region_from_gfeats genome (snd g) = Ok r) gs rs -> Forall (fun r => cr_name r <> []) rs ->
  regions_from_gff R genome = regions_from_gff R' genome.
Proof.
  intros H1 H2 I1 I2 C1 C2 Hreg Hn. rewrite (regions_from_gff_any_order genome R gs rs), (regions_from_gff_any_order genome R' gs rs); try assumption. reflexivity.
Qed.

(* the premises are satisfiable: three rows parsed from text, the two rows of c1 in descending order with the row of c2 between them *)
Definition row_text (a b : list N) (strand ph : N) (attrs : list N) : list N :=
  bs "ref" ++ [9] ++ bs "t" ++ [9] ++ bs "CDS" ++ [9] ++ a ++ [9] ++ b ++ [9; 46; 9; strand; 9; ph; 9] ++ attrs.
Definition parse_row (l : list N) : gfeat := match feature_from_line l with Ok r => r | _ => ConsumerProofs.dflt_row end.
Definition r1b := parse_row (row_text (bs "11") (bs "17") 45 49 (bs "ID=c1;Name=g1")).
Definition r2 := parse_row (row_text (bs "19") (bs "21") 43 48 (bs "ID=c2;Name=g2")).
Definition r1a := parse_row (row_text (bs "2") (bs "7") 45 50 (bs "ID=c1;Name=g1")).
Example any_order_premises_hold :
  let R := [r1b; r2; r1a] in let gs := [(bs "c1", [r1a; r1b]); (bs "c2", [r2])] in
  Forall (fun r => is_cds_row r = true /\ exists i, row_id r = Some i) R /\
  ids_in_order [] R = map fst gs /\ Forall (canonical R) gs /\
  exists rs, Forall2 (fun g r => region_from_gfeats ConsumerProofs.ex_genome (snd g) = Ok r) gs rs /\ Forall (fun r => cr_name r <> []) rs.
Proof.
  cbv zeta. split; [|split; [|split]].
  - repeat constructor; eexists; vm_compute; reflexivity.
  - vm_compute. reflexivity.
  - constructor; [|constructor; [|constructor]].
    + split; [|split].
      * cbn [snd sorted]. split; [intros y [<-|[]]; vm_compute; reflexivity|]. split; [intros y []|exact I].
      * cbn [snd map]. constructor; [intros [H|[]]; vm_compute in H; discriminate|]. constructor; [intros []|constructor].
      * assert (E : filter (has_id (bs "c1")) [r1b; r2; r1a] = [r1b; r1a]) by (vm_compute; reflexivity). cbn [fst snd]. rewrite E. apply perm_swap.
    + split; [|split].
      * cbn [snd sorted]. split; [intros y []|exact I].
      * cbn [snd map]. constructor; [intros []|constructor].
      * assert (E : filter (has_id (bs "c2")) [r1b; r2; r1a] = [r2]) by (vm_compute; reflexivity). cbn [fst snd]. rewrite E. apply Permutation_refl.
  - eexists [_; _]. split.
    + constructor; [vm_compute; reflexivity|]. constructor; [vm_compute; reflexivity|constructor].
    + repeat constructor; discriminate.
Qed.

(* ---- from the BYTES of a GFF3 file whose rows stand in any order ---- *)
From GF Require Import FastaLayout GffLineProofs GffFileProofs.
Theorem gff_bytes_to_regions_any_order (regs : list (list N * (nat * nat))) (rows : list grow) (hdr : list N) (chunks : list (list N)) (id : list N)
        (gs : list group) (rs : list cregion) (lines : list (list N * bool)) :
  let genome := degap (map upper (concat chunks)) in
  let R := map feat_of rows in
  Forall wf_region regs -> rows <> [] -> Forall wf_row rows ->
  first_field hdr = Some id -> concat chunks <> [] -> Forall valid_chunk chunks -> Forall ok_line ((62 :: hdr) :: chunks) ->
  Forall (fun r => is_cds_row r = true /\ exists i, row_id r = Some i) R -> ids_in_order [] R = map fst gs -> Forall (canonical R) gs ->
  Forall2 (fun g x => region_from_gfeats genome (snd g) = Ok x) gs rs -> Forall (fun x => cr_name x <> []) rs ->
  Forall (fun le => ok_line (fst le)) lines ->
  map fst lines = version_line :: map region_line regs ++ map render_row rows ++ bs "##FASTA" :: (62 :: hdr) :: chunks ->
  regions_of_gff_text (FastaLayout.render lines) =
  bind (codes rs (length genome)) (fun inter => Ok (ssort cregion (fun a b => (cr_start a <? cr_start b)%Z) rs, inter)).
Proof.
  intros genome R Hregs Hne Hrows Hid Hc Hv Hok HR Hids Hcan Hreg Hnamed Hl El. unfold regions_of_gff_text.
  rewrite (gff_file_bytes_read lines Hl), El, (gff_file_read regs rows _ Hregs Hne Hrows), (gff_fasta_section hdr chunks id Hid Hc Hv Hok).
  cbn [bind gff_fasta gff_features forallb last r_seq]. apply (regions_from_gff_any_order genome R gs rs); assumption.
Qed.
