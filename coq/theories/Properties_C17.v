(* Properties_C17.v — C17: the genetic code and nucleotide tables are sound and complete over IUPAC.
   The tables are gen/Tables.v, dumped from the running code on every run. *)
From GF Require Import Base Alphabet Symbols FastaModel CodonModel CodonProofs.
Open Scope N_scope.

(* all 15^3 = 3375 codons (bound in the statement: the three symbols range over iupac15) *)
Theorem C17_codon_table_sound_complete : forall c1 c2 c3,
  In c1 iupac15 -> In c2 iupac15 -> In c3 iupac15 ->
  codon_aa c1 c2 c3 = option_map (fun a => [a]) (unique_product c1 c2 c3).
Proof. exact codon_table_sound_complete. Qed.
Print Assumptions C17_codon_table_sound_complete.

Theorem C17_standard_code_64 : forall c1 c2 c3, In c1 acgt -> In c2 acgt -> In c3 acgt ->
  codon_aa c1 c2 c3 = Some [std (base_of_up c1) (base_of_up c2) (base_of_up c3)].
Proof. exact standard_code_64. Qed.
Print Assumptions C17_standard_code_64.

(* the dictionary has no key outside the 3375 *)
Theorem C17_no_other_keys : sweep_dict_keys = true.
Proof. exact sweep_dict_keys_ok. Qed.
Print Assumptions C17_no_other_keys.

(* Translate on sequences of any length, lenient ('X') and strict (error) *)
Theorem C17_translate_spec : forall strict nuc, Forall (fun c => In c iupac15) nuc ->
  translate strict nuc = spec_translate strict nuc.
Proof. exact translate_spec. Qed.
Print Assumptions C17_translate_spec.

(* complement denotes the base-wise complements: all 32 accepted characters, both gap modes *)
Theorem C17_complement_denotes : forall h c, In c accepted32 ->
  exists s s', denote h c = Some s /\ denote h (comp_txt c) = Some s' /\ set_eqb s' (comp_set s) = true.
Proof. exact complement_denotes. Qed.
Print Assumptions C17_complement_denotes.

(* the bit-encoded complement is the encoding of the text complement, in both gap encodings *)
Theorem C17_encoded_complement : forall h s, Forall (fun c => In c accepted32) s ->
  ecomplement (map (enc h) s) = map (enc h) (complement s).
Proof. exact ecomplement_is_complement. Qed.
Print Assumptions C17_encoded_complement.

Theorem C17_complement_involutive : forall s, Forall (fun c => In c accepted32) s -> complement (complement s) = s.
Proof. exact complement_involutive. Qed.
Print Assumptions C17_complement_involutive.

Theorem C17_revcomp_involutive : forall s, Forall (fun c => In c accepted32) s -> revcomp (revcomp s) = s.
Proof. exact revcomp_involutive. Qed.
Print Assumptions C17_revcomp_involutive.

Theorem C17_encoded_revcomp_involutive : forall h s, Forall (fun c => In c accepted32) s ->
  erevcomp (erevcomp (map (enc h) s)) = map (enc h) s.
Proof. exact erevcomp_involutive. Qed.
Print Assumptions C17_encoded_revcomp_involutive.

Example C17_example : translate false (bs "ATGGCNTARYTN") = Ok (bs "MA*X") /\ revcomp (bs "ACGTRYn-") = bs "-nRYACGT".
Proof. split; vm_compute; reflexivity. Qed.
