(* ConsumerProofs.v — C14: from the parsed annotation to the region, on both paths: what CDSRegion2fromGenbank makes of a feature whose
   location qualifier is the text of the AST's location and whose /gene, /codon_start, /translation are the AST's, and what
   CDSRegion2fromGFF makes of the rows written from the same AST, is the region the AST-level model (RegionsModel.v) works with. *)
From GF Require Import Base Alphabet SymbolsDef FastaModel CodonModel TopK RegionsModel LocationModel LocationProofs GffLineModel GenbankModel GenbankFile GffFile ConsumerModel.
Open Scope N_scope.

Definition cregion_of (a : aregion) : cregion :=
  {| cr_name := ar_name a; cr_strand := if ar_rev a then (-1)%Z else 1%Z; cr_pos := map Z.of_nat (ar_pos a); cr_trans := ar_trans a |}.

(* the positions of the location, before codon_start *)
Definition gb_full (form1 : bool) (f : feat) : list nat :=
  if f_rev f then (if form1 then concat (map rrange (rev (f_segs f))) else rev (concat (map range (f_segs f)))) else concat (map range (f_segs f)).
Lemma gb_positions_full (form1 : bool) (f : feat) : (if form1 then gb_positions_form1 f else gb_positions_form0 f) = skipn (f_cstart f - 1) (gb_full form1 f).
Proof. unfold gb_full, gb_positions_form0, gb_positions_form1. destruct form1, (f_rev f); reflexivity. Qed.

Lemma skipn_map {A B} (g : A -> B) n (l : list A) : skipn n (map g l) = map g (skipn n l).
Proof. revert l. induction n as [|n IH]; intros [|x l]; cbn [skipn map]; try reflexivity. apply IH. Qed.

Theorem region_from_gbfeat_read form1 f t (g : gbfeat) m :
  f_segs f <> [] -> (1 <= f_cstart f)%nat -> (f_cstart f - 1 <= length (gb_full form1 f))%nat ->
  gf_loc g = render (gb_loc form1 f) -> gf_info g = Some m ->
  info_get (bs "gene") m = Some (f_name f) ->
  info_get (bs "codon_start") m = Some (dec_nat (f_cstart f)) ->
  info_get (bs "translation") m = Some t ->
  (if form1 then gb_positions_form1 f else gb_positions_form0 f) <> [] ->
  (length (if form1 then gb_positions_form1 f else gb_positions_form0 f) mod 3 = 0)%nat ->
  region_from_gbfeat g = Ok (cregion_of (region_gb form1 f t)).
Proof.
  intros Hsegs Hc1 Hc2 Hloc Hinfo Hgene Hcs Htr Hne Hmod.
  destruct (genbank_location_read form1 f Hsegs) as [Hpos Hrev]. fold (gb_full form1 f) in Hpos.
  unfold region_from_gbfeat. rewrite Hinfo, Hgene, Hcs, Hloc, Hpos. cbn [bind]. rewrite atoi_dec.
  unfold zlen. rewrite map_length.
  destruct (Z.ltb_spec (Z.of_nat (f_cstart f) - 1) 0) as [H|_]; [lia|].
  destruct (Z.ltb_spec (Z.of_nat (length (gb_full form1 f))) (Z.of_nat (f_cstart f) - 1)) as [H|_]; [lia|]. cbn [orb].
  replace (Z.to_nat (Z.of_nat (f_cstart f) - 1)) with (f_cstart f - 1)%nat by lia.
  rewrite skipn_map, <- gb_positions_full, map_length, Hmod. cbn [Nat.eqb negb].
  destruct (map Z.of_nat (if form1 then gb_positions_form1 f else gb_positions_form0 f)) as [|p0 pt] eqn:Ep.
  - exfalso. apply Hne. destruct (if form1 then gb_positions_form1 f else gb_positions_form0 f); [reflexivity|discriminate].
  - rewrite Hrev. cbn [bind]. rewrite Htr, <- Ep. unfold cregion_of, region_gb. cbn [ar_name ar_rev ar_pos ar_trans].
    destruct form1; reflexivity.
Qed.

(* ---- GFF3: the rows of one feature, in coordinate order (RegionsFromGFF has sorted them), as featureFromLine returns them ---- *)
Definition bounds (fs : list gfeat) : list (Z * Z) := map (fun r => (g_start r, g_end r)) fs.
Definition zpair (ab : nat * nat) : Z * Z := (Z.of_nat (fst ab), Z.of_nat (snd ab)).
Lemma concat_up fs segs : bounds fs = map zpair segs ->
  concat (map (fun r => zrange (g_start r) (g_end r)) fs) = map Z.of_nat (concat (map range segs)).
Proof.
  intros H. transitivity (concat (map (fun se => zrange (fst se) (snd se)) (bounds fs))); [unfold bounds; rewrite map_map; reflexivity|].
  rewrite H, map_map, concat_range_zr. reflexivity.
Qed.
Lemma concat_rrange_zr segs : map Z.of_nat (concat (map rrange segs)) = concat (map (fun ab => rev (zr ab)) segs).
Proof.
  induction segs as [|ab t IH]; [reflexivity|]. cbn [map concat]. rewrite map_app, IH. f_equal. unfold rrange. rewrite map_rev, range_zr. reflexivity.
Qed.
Lemma concat_down fs segs : bounds fs = map zpair segs ->
  concat (map (fun r => zrange_down (g_start r) (g_end r)) (rev fs)) = map Z.of_nat (concat (map rrange (rev segs))).
Proof.
  intros H. transitivity (concat (map (fun se => zrange_down (fst se) (snd se)) (bounds (rev fs)))); [unfold bounds; rewrite map_map; reflexivity|].
  assert (E : bounds (rev fs) = map zpair (rev segs)) by (unfold bounds in *; rewrite map_rev, H, map_rev; reflexivity).
  rewrite E, map_map, concat_rrange_zr. reflexivity.
Qed.
Lemma bases_eq genome (ps : list nat) :
  map (fun p => nth (Z.to_nat (p - 1)) genome 0) (map Z.of_nat ps) = feature_bases genome ps.
Proof.
  unfold feature_bases. rewrite map_map. apply map_ext. intros p. f_equal. lia.
Qed.

Lemma last_default {A} (l : list A) (d d' : A) : l <> [] -> last l d = last l d'.
Proof. induction l as [|x [|y t] IH]; intros H; [congruence|reflexivity|]. change (last (y :: t) d = last (y :: t) d'). apply IH. discriminate. Qed.

Lemma nonempty_match {A B} (l : list A) (X : B) (Y : B) : l <> [] -> match l with [] => Y | _ :: _ => X end = X.
Proof. destruct l; [congruence|reflexivity]. Qed.

Definition dflt_row : gfeat :=
  {| g_seqid := []; g_source := []; g_type := []; g_start := 0; g_end := 0; g_score := []; g_strand := []; g_phase := 0; g_attrs := [] |}.

Theorem region_from_gfeats_read genome (f : feat) (fs : list gfeat) rest :
  fs <> [] ->
  bounds fs = map zpair (sort_segs (f_segs f)) ->
  Forall (fun r => g_strand r = [if f_rev f then 45 else 43]) fs ->
  attr_get (bs "Name") (g_attrs (hd dflt_row fs)) = Some (f_name f :: rest) ->
  g_phase (if f_rev f then last fs dflt_row else hd dflt_row fs) = (f_cstart f - 1)%nat ->
  (f_cstart f - 1 <= length (if f_rev f then concat (map rrange (rev (sort_segs (f_segs f)))) else concat (map range (sort_segs (f_segs f)))))%nat ->
  gff_positions f <> [] ->
  forallb (fun p => Nat.leb 1 p && Nat.leb p (length genome)) (gff_positions f) = true ->
  region_from_gfeats genome fs = bind (region_gff genome f) (fun a => Ok (cregion_of a)).
Proof.
  intros Hne Hb Hstr Hname Hph Hlen Hpne Hin.
  destruct fs as [|f0 ft]; [congruence|]. cbn [hd] in Hname, Hph.
  unfold region_from_gfeats. rewrite Hname.
  assert (Hall : forall s, g_strand f0 = [s] -> Forall (fun r => g_strand r = [s]) (f0 :: ft) -> strand_is s f0 = true /\ forallb (strand_is s) (f0 :: ft) = true).
  { intros s H0 Ha. split; [unfold strand_is; rewrite H0; apply list_eqb_refl|]. apply forallb_forall. intros r Hr. rewrite Forall_forall in Ha.
    unfold strand_is. rewrite (Ha r Hr). apply list_eqb_refl. }
  assert (H0 : g_strand f0 = [if f_rev f then 45 else 43]) by (inversion Hstr; assumption).
  assert (Hposs : map Z.of_nat (gff_positions f) <> []) by (destruct (gff_positions f); [congruence|discriminate]).
  assert (Hinz : forallb (in_range (zlen genome)) (map Z.of_nat (gff_positions f)) = true).
  { apply forallb_forall. intros z Hz. apply in_map_iff in Hz as (p & <- & Hp). rewrite forallb_forall in Hin. specialize (Hin p Hp).
    apply andb_true_iff in Hin as [H1 H2]. apply Nat.leb_le in H1, H2. unfold in_range, zlen. apply andb_true_iff. split; apply Z.leb_le; lia. }
  unfold region_gff, gff_translation. unfold gff_positions in *.
  destruct (f_rev f) eqn:Er; rewrite ?Er in Hposs, Hinz, Hph, Hlen, H0, Hstr.
  - rewrite (last_default (f0 :: ft) f0 dflt_row) by discriminate.
    destruct (Hall 45 H0 Hstr) as [S0 Sall].
    assert (S43 : strand_is 43 f0 = false) by (unfold strand_is; rewrite H0; reflexivity). rewrite S43, S0, Sall. cbn [negb].
    rewrite (concat_down (f0 :: ft) _ Hb), Hph, map_length.
    destruct (Nat.ltb_spec (length (concat (map rrange (rev (sort_segs (f_segs f)))))) (f_cstart f - 1)) as [H|_]; [lia|].
    rewrite skipn_map.
    rewrite (nonempty_match _ _ _ Hposs), Hinz. cbn [negb]. rewrite bases_eq. change ((-1 <? 0)%Z) with true. cbv iota.
    destruct (translate true _) as [t| |]; reflexivity.
  - destruct (Hall 43 H0 Hstr) as [S0 Sall]. rewrite S0, Sall. cbn [negb].
    rewrite (concat_up (f0 :: ft) _ Hb), Hph, map_length.
    destruct (Nat.ltb_spec (length (concat (map range (sort_segs (f_segs f))))) (f_cstart f - 1)) as [H|_]; [lia|].
    rewrite skipn_map.
    rewrite (nonempty_match _ _ _ Hposs), Hinz. cbn [negb]. rewrite bases_eq. change ((1 <? 0)%Z) with false. cbv iota.
    destruct (translate true _) as [t| |]; reflexivity.
Qed.

(* ---- both paths give the caller the same region: the AST-level theorem carried to what the code computes from the parsed file ---- *)
Theorem parsed_regions_gb_eq_gff genome form1 f t (g : gbfeat) m (fs : list gfeat) rest :
  segs_ascending (f_segs f) -> gff_translation genome f = Ok (t ++ [42]) ->
  f_segs f <> [] -> (1 <= f_cstart f)%nat -> (f_cstart f - 1 <= length (gb_full form1 f))%nat ->
  gf_loc g = render (gb_loc form1 f) -> gf_info g = Some m ->
  info_get (bs "gene") m = Some (f_name f) -> info_get (bs "codon_start") m = Some (dec_nat (f_cstart f)) -> info_get (bs "translation") m = Some t ->
  fs <> [] -> bounds fs = map zpair (sort_segs (f_segs f)) -> Forall (fun r => g_strand r = [if f_rev f then 45 else 43]) fs ->
  attr_get (bs "Name") (g_attrs (hd dflt_row fs)) = Some (f_name f :: rest) ->
  g_phase (if f_rev f then last fs dflt_row else hd dflt_row fs) = (f_cstart f - 1)%nat ->
  gff_positions f <> [] -> (length (gff_positions f) mod 3 = 0)%nat ->
  forallb (fun p => Nat.leb 1 p && Nat.leb p (length genome)) (gff_positions f) = true ->
  region_from_gbfeat g = region_from_gfeats genome fs.
Proof.
  intros Hasc Htr Hsegs Hc1 Hc2 Hloc Hinfo Hgene Hcs Htrq Hfs Hb Hstr Hname Hph Hpne Hmod Hin.
  destruct (positions_gb_eq_gff f Hasc) as [E0 E1].
  assert (Eg : (if form1 then gb_positions_form1 f else gb_positions_form0 f) = gff_positions f) by (destruct form1; assumption).
  rewrite (region_from_gbfeat_read form1 f t g m Hsegs Hc1 Hc2 Hloc Hinfo Hgene Hcs Htrq) by (rewrite Eg; assumption).
  rewrite (region_from_gfeats_read genome f fs rest Hfs Hb Hstr Hname Hph); try assumption.
  - rewrite (regions_gb_eq_gff genome f t form1 Hasc Htr). reflexivity.
  - pose proof (gb_positions_full form1 f) as Ef. unfold gb_full in Hc2.
    unfold sort_segs. rewrite (ssort_of_sorted _ _ (f_segs f) Hasc).
    destruct (f_rev f); [|exact Hc2]. destruct form1; [exact Hc2|].
    rewrite rev_concat, <- map_rev, map_map in Hc2. exact Hc2.
Qed.

(* ---- the premises are satisfiable, starting from the two TEXTS of one annotation (a reverse-strand gene of two segments with
   codon_start 2, its location continued on a second line; the GFF3 rows listed in descending order as NCBI lists them) ---- *)
Definition ex_genome : list N := bs "ATTAGGTCCCTTCCATGAAAAAA".
Definition ex_feat : feat := {| f_name := bs "g1"; f_rev := true; f_segs := [(2, 7); (11, 17)]%nat; f_cstart := 2 |}.
Definition ex_gb_lines : list (list N) :=
  [bs "     CDS             complement(join(2..7,";
   bs "                     11..17))";
   bs "                     /gene=""g1""";
   bs "                     /codon_start=2";
   bs "                     /translation=""MET"""].
Definition ex_gff_lines : list (list N) :=
  [[114; 101; 102; 9; 116; 9; 67; 68; 83; 9; 49; 49; 9; 49; 55; 9; 46; 9; 45; 9; 49; 9] ++ bs "ID=c1;Name=g1";
   [114; 101; 102; 9; 116; 9; 67; 68; 83; 9; 50; 9; 55; 9; 46; 9; 45; 9; 50; 9] ++ bs "ID=c1;Name=g1"].
Definition ex_g : gbfeat := match parse_features ex_gb_lines with Ok [g] => g | _ => zero_feat end.
Definition ex_rows : list gfeat :=
  ssort gfeat start_lt (concat (map (fun l => match feature_from_line l with Ok r => [r] | _ => [] end) ex_gff_lines)).
Example premises_hold_from_text :
  gf_loc ex_g = render (gb_loc false ex_feat) /\ length ex_rows = 2%nat /\
  region_from_gbfeat ex_g = region_from_gfeats ex_genome ex_rows /\
  exists r, region_from_gbfeat ex_g = Ok r /\ cr_name r = bs "g1" /\ cr_strand r = (-1)%Z /\ cr_trans r = bs "MET*".
Proof.
  split; [vm_compute; reflexivity|]. split; [vm_compute; reflexivity|]. split.
  - apply (parsed_regions_gb_eq_gff ex_genome false ex_feat (bs "MET") ex_g
             [(bs "gene", bs "g1"); (bs "codon_start", bs "2"); (bs "translation", bs "MET")] ex_rows []); try (vm_compute; reflexivity); try discriminate.
    + cbv. split; [intros y [<-|[]]; reflexivity|]. split; [intros y []|exact I].
    + vm_compute. lia.
    + vm_compute. lia.
    + vm_compute. repeat constructor.
  - eexists. split; [vm_compute; reflexivity|]. repeat split.
Qed.

(* ---- from the BYTES of a GenBank flat file to the regions: the file readers, the FEATURES parser, the location reader and the
   consumer, composed.  A coding feature as the file writes it: key CDS, the location text of the feature AST (cut into lines
   anywhere the writer likes), and the three qualifiers ---- *)
From GF Require Import FastaLayout GenbankProofs GenbankFileProofs.
Definition writes_cds (form1 : bool) (f : feat) (t : list N) (w : wfeat) : Prop :=
  wf_feat w /\ fk w = bs "CDS" /\ full_loc w = LocationModel.render (gb_loc form1 f) /\
  map kv (fquals w) = [(bs "gene", f_name f); (bs "codon_start", dec_nat (f_cstart f)); (bs "translation", t)] /\
  f_segs f <> [] /\ (1 <= f_cstart f)%nat /\ (f_cstart f - 1 <= length (gb_full form1 f))%nat /\
  (if form1 then gb_positions_form1 f else gb_positions_form0 f) <> [] /\
  (length (if form1 then gb_positions_form1 f else gb_positions_form0 f) mod 3 = 0)%nat.

Lemma written_cds_region form1 f t w : writes_cds form1 f t w -> region_from_gbfeat (parsed w) = Ok (cregion_of (region_gb form1 f t)).
Proof.
  intros (_ & _ & Hloc & Hq & Hs & H1 & H2 & H3 & H4).
  apply (region_from_gbfeat_read form1 f t (parsed w) (map kv (fquals w))); try assumption; try reflexivity; rewrite Hq; reflexivity.
Qed.
Lemma collect_written (items : list (bool * feat * list N * wfeat)) :
  Forall (fun x => writes_cds (fst (fst (fst x))) (snd (fst (fst x))) (snd (fst x)) (snd x)) items ->
  collect region_from_gbfeat (map (fun x => parsed (snd x)) items) =
  Ok (map (fun x => cregion_of (region_gb (fst (fst (fst x))) (snd (fst (fst x))) (snd (fst x)))) items).
Proof.
  induction 1 as [|x t Hx _ IH]; [reflexivity|]. cbn [map collect]. rewrite (written_cds_region _ _ _ _ Hx). cbn [bind]. rewrite IH. reflexivity.
Qed.
Lemma filter_all_cds (items : list (bool * feat * list N * wfeat)) :
  Forall (fun x => writes_cds (fst (fst (fst x))) (snd (fst (fst x))) (snd (fst x)) (snd x)) items ->
  filter (fun g => list_eqb (gf_key g) (bs "CDS")) (map (fun x => parsed (snd x)) items) = map (fun x => parsed (snd x)) items.
Proof.
  induction 1 as [|x t (_ & Hk & _) _ IH]; [reflexivity|]. cbn [map filter]. cbn [parsed gf_key]. rewrite Hk, list_eqb_refl, IH. reflexivity.
Qed.

Theorem genbank_bytes_to_regions (pre : list section) (items : list (bool * feat * list N * wfeat)) (n : nat)
        (olines : list (list (list N * list N))) (lines : list (list N * bool)) :
  Forall sec_ok pre -> Forall other_name pre -> items <> [] ->
  Forall (fun x => writes_cds (fst (fst (fst x))) (snd (fst (fst x))) (snd (fst x)) (snd x)) items ->
  Forall (Forall piece_ok) olines -> Forall body_line_ok (map origin_line olines) ->
  Forall (fun le => ok_line (fst le)) lines ->
  map fst lines = flatten (pre ++ [features_section (map snd items); origin_section n olines]) ->
  regions_of_genbank_text (FastaLayout.render lines) =
  let rs := map (fun x => cregion_of (region_gb (fst (fst (fst x))) (snd (fst (fst x))) (snd (fst x)))) items in
  bind (codes rs (length (concat (map (fun l => concat (map snd l)) olines)))) (fun inter => Ok (rs, inter)).
Proof.
  intros Hpre Hoth Hne Hit Hp Hb Hl El. unfold regions_of_genbank_text.
  rewrite (genbank_file_bytes_read lines Hl), El.
  rewrite (genbank_file_read pre (map snd items) n olines Hpre Hoth); try assumption.
  - cbn [bind gb_features gb_origin]. unfold regions_from_genbank. rewrite map_map.
    rewrite (filter_all_cds items Hit), (collect_written items Hit). reflexivity.
  - destruct items; [congruence|discriminate].
  - apply Forall_forall. intros w Hw. apply in_map_iff in Hw as (x & <- & Hx). rewrite Forall_forall in Hit. destruct (Hit x Hx) as (H & _). exact H.
Qed.
