(* AggregateProofs.v — C13: the counting association list of the aggregators.  Generic in the key type. *)
From Coq Require Import Floats.SpecFloat.
From GF Require Import Base Alphabet SymbolsDef FastaModel Float TopK SnpsModel SnpsAggModel.
Open Scope nat_scope.

Section Counting.
  Variable K : Type.
  Variable eqb : K -> K -> bool.
  Hypothesis eqb_eq : forall a b, eqb a b = true <-> a = b.

  Fixpoint cadd (k : K) (cs : list (K * nat)) : list (K * nat) :=
    match cs with
    | [] => [(k, 1)]
    | (k', n) :: t => if eqb k k' then (k', S n) :: t else (k', n) :: cadd k t
    end.
  Fixpoint cget (k : K) (cs : list (K * nat)) : nat :=
    match cs with [] => 0 | (k', n) :: t => if eqb k k' then n else cget k t end.
  Definition occ (k : K) (l : list K) : nat := length (filter (eqb k) l).
  Definition keys_distinct (cs : list (K * nat)) : Prop := NoDup (map fst cs).

  Lemma eqb_refl a : eqb a a = true. Proof. apply eqb_eq. reflexivity. Qed.
  Lemma eqb_false a b : a <> b -> eqb a b = false.
  Proof. intros H. destruct (eqb a b) eqn:E; [apply eqb_eq in E; contradiction|reflexivity]. Qed.

  Lemma cget_cadd k k' cs : cget k (cadd k' cs) = if eqb k k' then S (cget k cs) else cget k cs.
  Proof.
    induction cs as [|[k0 n] t IH]; cbn [cadd cget].
    - destruct (eqb k k'); reflexivity.
    - destruct (eqb k' k0) eqn:E1; cbn [cget].
      + apply eqb_eq in E1. subst k0. destruct (eqb k k'); reflexivity.
      + destruct (eqb k k0) eqn:E2.
        * apply eqb_eq in E2. subst k0. destruct (eqb k k') eqn:E3; [|reflexivity].
          apply eqb_eq in E3. subst k'. rewrite eqb_refl in E1. discriminate.
        * exact IH.
  Qed.

  Lemma cadd_keys k cs : keys_distinct cs -> keys_distinct (cadd k cs) /\
    (forall x, In x (map fst (cadd k cs)) <-> x = k \/ In x (map fst cs)).
  Proof.
    unfold keys_distinct. induction cs as [|[k0 n] t IH]; intros Hd; cbn [cadd map fst].
    - split; [constructor; [intros []|constructor]|]. intros x; cbn; intuition congruence.
    - inversion Hd as [|? ? Hn Hd']; subst. destruct (eqb k k0) eqn:E.
      + apply eqb_eq in E. subst k0. cbn [map fst]. split; [exact Hd|]. intros x; cbn; intuition congruence.
      + destruct (IH Hd') as [I1 I2]. cbn [map fst]. split.
        * constructor; [|exact I1]. intros Hin. apply I2 in Hin as [->|Hin]; [rewrite eqb_refl in E; discriminate|contradiction].
        * intros x. cbn [In]. rewrite I2. tauto.
  Qed.

  (* counting a whole list of keys: the count of k is its number of occurrences *)
  Lemma fold_cadd l : forall cs k, cget k (fold_left (fun cs x => cadd x cs) l cs) = cget k cs + occ k l.
  Proof.
    induction l as [|x t IH]; intros cs k; cbn [fold_left]; [unfold occ; cbn; lia|].
    rewrite IH, cget_cadd. unfold occ. cbn [filter]. destruct (eqb k x); cbn [length]; lia.
  Qed.

  (* over all sequences: count = sum of per-sequence occurrences; with duplicate-free per-sequence lists this
     is the number of sequences whose list contains the key *)
  Definition total_occ (k : K) (ls : list (list K)) : nat := fold_right (fun l a => occ k l + a) 0 ls.
  Theorem aggregate_counts ls : forall cs k,
    cget k (fold_left (fun cs l => fold_left (fun cs x => cadd x cs) l cs) ls cs) = cget k cs + total_occ k ls.
  Proof.
    induction ls as [|l t IH]; intros cs k; cbn [fold_left]; [unfold total_occ; cbn; lia|].
    rewrite IH, fold_cadd. unfold total_occ. cbn [fold_right]. lia.
  Qed.

  Lemma occ_nodup k l : NoDup l -> occ k l = if existsb (eqb k) l then 1 else 0.
  Proof.
    unfold occ. induction 1 as [|x t Hn Hd IH]; [reflexivity|]. cbn [filter existsb].
    destruct (eqb k x) eqn:E; cbn [length orb].
    - apply eqb_eq in E. subst x. rewrite IH.
      destruct (existsb (eqb k) t) eqn:E2; [|reflexivity].
      apply existsb_exists in E2 as (y & Hy & Hk). apply eqb_eq in Hk. subst y. contradiction.
    - exact IH.
  Qed.

  Theorem aggregate_counts_sequences ls k : Forall (@NoDup K) ls ->
    total_occ k ls = length (filter (fun l => existsb (eqb k) l) ls).
  Proof.
    induction 1 as [|l t Hl Ht IH]; [reflexivity|]. cbn [total_occ fold_right filter]. fold (total_occ k t).
    rewrite IH, (occ_nodup k l Hl). destruct (existsb (eqb k) l); cbn [length]; lia.
  Qed.

  (* each distinct key is listed once *)
  Theorem aggregate_keys_distinct ls : forall cs, keys_distinct cs ->
    keys_distinct (fold_left (fun cs l => fold_left (fun cs x => cadd x cs) l cs) ls cs).
  Proof.
    induction ls as [|l t IH]; intros cs Hd; cbn [fold_left]; [exact Hd|]. apply IH.
    revert cs Hd. induction l as [|x r IHr]; intros cs Hd; cbn [fold_left]; [exact Hd|]. apply IHr. apply cadd_keys. exact Hd.
  Qed.

  (* ---- the whole table: exactly the keys that occur, each with the number of sequences that carry it ---- *)
  Definition pos_counts (cs : list (K * nat)) : Prop := Forall (fun kn => 0 < snd kn) cs.
  Lemma cadd_pos k cs : pos_counts cs -> pos_counts (cadd k cs).
  Proof.
    unfold pos_counts. induction cs as [|[k0 n] t IH]; intros H; cbn [cadd].
    - constructor; [cbn; lia|constructor].
    - inversion H as [|? ? H1 H2]; subst. destruct (eqb k k0); constructor; cbn in *; try lia; auto.
  Qed.
  Lemma fold_pos ls : forall cs, pos_counts cs ->
    pos_counts (fold_left (fun cs l => fold_left (fun cs x => cadd x cs) l cs) ls cs).
  Proof.
    induction ls as [|l t IH]; intros cs H; cbn [fold_left]; [exact H|]. apply IH.
    revert cs H. induction l as [|x r IHr]; intros cs H; cbn [fold_left]; [exact H|]. apply IHr. apply cadd_pos. exact H.
  Qed.
  Lemma cget_In k cs : keys_distinct cs -> forall c, In (k, c) cs -> cget k cs = c.
  Proof.
    unfold keys_distinct. induction cs as [|[k0 n] t IH]; intros Hd c Hin; [contradiction|].
    cbn [map fst] in Hd. inversion Hd as [|? ? Hn Hd']; subst. cbn [cget]. destruct Hin as [E|Hin].
    - injection E as -> ->. rewrite eqb_refl. reflexivity.
    - destruct (eqb k k0) eqn:E; [|apply IH; assumption]. apply eqb_eq in E. subst k0.
      exfalso. apply Hn. apply (in_map fst) in Hin. exact Hin.
  Qed.
  Lemma In_cget k cs : 0 < cget k cs -> In (k, cget k cs) cs.
  Proof.
    induction cs as [|[k0 n] t IH]; cbn [cget]; [lia|]. destruct (eqb k k0) eqn:E; intros H.
    - apply eqb_eq in E. subst k0. left; reflexivity.
    - right. apply IH. exact H.
  Qed.
  Theorem aggregate_table ls : Forall (@NoDup K) ls -> forall k c,
    In (k, c) (fold_left (fun cs l => fold_left (fun cs x => cadd x cs) l cs) ls []) <->
    0 < c /\ c = length (filter (fun l => existsb (eqb k) l) ls).
  Proof.
    intros Hnd k c. set (cs := fold_left _ ls []).
    assert (Hd : keys_distinct cs) by (apply aggregate_keys_distinct; constructor).
    assert (Hp : pos_counts cs) by (apply fold_pos; constructor).
    assert (Hc : cget k cs = length (filter (fun l => existsb (eqb k) l) ls)).
    { unfold cs. rewrite aggregate_counts. cbn [cget]. apply aggregate_counts_sequences. exact Hnd. }
    split.
    - intros Hin. split.
      + unfold pos_counts in Hp. rewrite Forall_forall in Hp. apply (Hp (k, c) Hin).
      + rewrite <- Hc. symmetry. apply cget_In; assumption.
    - intros (H0 & ->). rewrite <- Hc. apply In_cget. rewrite Hc. exact H0.
  Qed.
End Counting.

(* instantiation for snps: snp_eqb decides equality, count_snp is cadd *)
Lemma snp_eqb_eq a b : snp_eqb a b = true <-> a = b.
Proof.
  unfold snp_eqb. destruct a as [r1 p1 q1], b as [r2 p2 q2]. cbn [s_ref s_pos s_que].
  rewrite !andb_true_iff, !list_eqb_eq, N.eqb_eq. split; [intros [[-> ->] ->]; reflexivity|intros [= -> -> ->]; auto].
Qed.
Lemma count_snp_cadd k cs : count_snp k cs = cadd snp snp_eqb k cs.
Proof. induction cs as [|[k' n] t IH]; cbn; [reflexivity|]. rewrite IH. reflexivity. Qed.

(* per-sequence SNP lists have strictly ascending positions, hence no duplicates *)
Open Scope N_scope.
Lemma get_snps_from_lb i r q s : In s (get_snps_from i r q) -> i < s_pos s.
Proof.
  revert i q. induction r as [|a r IH]; intros i q H; [contradiction|]. destruct q as [|b q]; [contradiction|].
  cbn [get_snps_from] in H. destruct (N.land a b <? 16).
  - destruct H as [<-|H]; [cbn; lia|]. apply IH in H. lia.
  - apply IH in H. lia.
Qed.
Lemma get_snps_from_nodup i r q : NoDup (get_snps_from i r q).
Proof.
  revert i q. induction r as [|a r IH]; intros i q; [constructor|]. destruct q as [|b q]; [constructor|].
  cbn [get_snps_from]. destruct (N.land a b <? 16); [|apply IH]. constructor; [|apply IH].
  intros Hin. apply get_snps_from_lb in Hin. cbn in Hin. lia.
Qed.

(* the sort key of snps --aggregate is irreflexive and transitive, so the printed list is ordered by it *)
Lemma snp_lt_irrefl x : snp_lt x x = false.
Proof. unfold snp_lt. rewrite !N.ltb_irrefl, andb_false_r. reflexivity. Qed.
Lemma snp_lt_trans x y z : snp_lt x y = true -> snp_lt y z = true -> snp_lt x z = true.
Proof.
  unfold snp_lt. generalize (last (s_que (fst x)) 0) (last (s_que (fst y)) 0) (last (s_que (fst z)) 0).
  generalize (s_pos (fst x)) (s_pos (fst y)) (s_pos (fst z)). intros p1 p2 p3 a1 a2 a3.
  rewrite !orb_true_iff, !andb_true_iff, !N.ltb_lt, !N.eqb_eq. lia.
Qed.
Theorem snps_agg_ordered counts : sorted (snp * nat) snp_lt (ssort (snp * nat) snp_lt counts).
Proof. apply ssort_sorted; [exact snp_lt_irrefl|exact snp_lt_trans]. Qed.

(* ---- snps --aggregate, the table before the threshold: sorted, each SNP once, exactly the SNPs that occur in some
   sequence's list, each with the number of sequences whose list contains it ---- *)
From Coq Require Import Permutation.
Lemma count_snp_fold (lists : list (list snp)) : forall cs,
  fold_left (fun cs l => fold_left (fun cs s => count_snp s cs) l cs) lists cs =
  fold_left (fun cs l => fold_left (fun cs x => cadd snp snp_eqb x cs) l cs) lists cs.
Proof.
  induction lists as [|l t IH]; intros cs; cbn [fold_left]; [reflexivity|]. rewrite IH. f_equal.
Qed.
Theorem snps_agg_table (lists : list (list snp)) : Forall (@NoDup snp) lists ->
  let S := ssort (snp * nat) snp_lt (fold_left (fun cs l => fold_left (fun cs s => count_snp s cs) l cs) lists []) in
  sorted (snp * nat) snp_lt S /\ NoDup (map fst S) /\
  forall k c, In (k, c) S <-> (0 < c)%nat /\ c = length (filter (fun l => existsb (snp_eqb k) l) lists).
Proof.
  intros Hnd S.
  pose proof (count_snp_fold lists []) as E.
  pose proof (ssort_perm (snp * nat) snp_lt (fold_left (fun cs l => fold_left (fun cs s => count_snp s cs) l cs) lists [])) as HP.
  fold S in HP. split; [apply snps_agg_ordered|]. split.
  - apply (Permutation_NoDup (l := map fst (fold_left (fun cs l => fold_left (fun cs s => count_snp s cs) l cs) lists []))).
    + apply Permutation_map. apply Permutation_sym. exact HP.
    + rewrite E. apply (aggregate_keys_distinct snp snp_eqb snp_eqb_eq). constructor.
  - intros k c. rewrite <- (aggregate_table snp snp_eqb snp_eqb_eq lists Hnd k c). rewrite <- E.
    split; intros H; [apply (Permutation_in _ HP); exact H|apply (Permutation_in _ (Permutation_sym HP)); exact H].
Qed.

(* the per-sequence lists the command builds are duplicate-free *)
Lemma snps_lists_nodup refseq recs ls : snps_lists refseq recs = Ok ls -> Forall (@NoDup snp) ls.
Proof.
  revert ls. induction recs as [|r t IH]; intros ls H; cbn [snps_lists] in H.
  - injection H as <-. constructor.
  - destruct (Nat.eqb (length (r_seq r)) (length refseq)); [|discriminate].
    destruct (snps_lists refseq t) as [rest| |] eqn:E; cbn [bind] in H; try discriminate.
    injection H as <-. constructor; [apply get_snps_from_nodup|apply IH; reflexivity].
Qed.

(* the printed rows: the table rows whose frequency count/n (float64 division) is not below the threshold, in table order,
   each as  SNP,frequency to 9 decimals *)
Lemma concat_map_if {A B} (p : A -> bool) (f : A -> list B) (l : list A) :
  concat (map (fun x => if p x then [] else f x) l) = concat (map f (filter (fun x => negb (p x)) l)).
Proof. induction l as [|x t IH]; [reflexivity|]. cbn [map concat filter]. destruct (p x); cbn [negb map concat]; rewrite IH; reflexivity. Qed.
Theorem snps_agg_rows_spec thr lists :
  let n := length lists in
  let freq (kn : snp * nat) := f64_div_Z (Z.of_nat (snd kn)) (Z.of_nat n) in
  snps_agg_rows thr lists =
  concat (map (fun kn => snp_bytes (fst kn) ++ [44%N] ++ fmt_f9 (freq kn) ++ [NL])
              (filter (fun kn => negb (f64_ltb (freq kn) thr))
                      (ssort (snp * nat) snp_lt (fold_left (fun cs l => fold_left (fun cs s => count_snp s cs) l cs) lists [])))).
Proof. intros n freq. unfold snps_agg_rows. apply (concat_map_if (fun kn => f64_ltb (freq kn) thr)). Qed.
