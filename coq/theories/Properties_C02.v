(* Properties_C02.v — C02: sam toPairAlign reconstructs each pairwise alignment losslessly.
   PARTIAL: proved are the paired CIGAR walk (all operators, with and without insertion columns), the
   one-record rows, and — for every query described by one SAM record — the whole block_to_seq_pair pipeline
   (re-gapping, flattening, right-extension): the reference row degaps to the reference and both rows have
   length |ref| + total inserted bases.  The multi-record re-gapping loop and the window cut are an executable
   Coq model compared byte for byte with sam.ToPairAlign, and the implementation's files are compared with
   pairs written from the statement. *)
From GF Require Import Base Alphabet SymbolsDef FastaModel Cigar SamModel TopaModel TopaProofs.
Open Scope N_scope.

Theorem C02_walk2_rows : forall ins ops q r sq ref x y, ~ In 45 ref ->
  walk2 ins ops q r sq ref = Some (x, y) ->
  length x = length y /\ degap y = firstn (ref_span ops) (skipn r ref).
Proof. exact walk2_rows. Qed.
Print Assumptions C02_walk2_rows.

Theorem C02_one_record_rows : forall rc ref qrow rrow, ~ In 45 ref ->
  one_line_plus_ref true rc ref = Some (qrow, rrow) ->
  length qrow = length rrow /\ degap rrow = firstn (s_pos rc + ref_span (s_cigar rc)) ref.
Proof. exact one_line_plus_ref_rows. Qed.
Print Assumptions C02_one_record_rows.

Theorem C02_pair1_degap_ref : forall ref rc R Q, ~ In 45 ref ->
  block_to_seq_pair ref [rc] = Some (R, Q) ->
  degap R = ref /\ length R = (length ref + ins_total (s_cigar rc))%nat /\ length Q = length R.
Proof. exact pair1_degap_ref. Qed.
Print Assumptions C02_pair1_degap_ref.

Example C02_example :
  block_to_seq_pair (bs "ACGTACGTAC") [ {| s_name := bs "q"; s_flag := 0; s_pos := 1%nat;
      s_cigar := [(OM,3);(OI,2);(OM,2);(OD,1);(OM,1)]%nat; s_seq := bs "CGTTTACC" |} ]
  = Some (bs "ACGT--ACGTAC", bs "NCGTTTAC-CNN").
Proof. vm_compute. reflexivity. Qed.
