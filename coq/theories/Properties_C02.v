(* Properties_C02.v — C02: sam toPairAlign reconstructs each pairwise alignment losslessly.
   Proved: the paired CIGAR walk (all operators, with and without insertion columns), the one-record rows, and - for
   queries described by ANY number of SAM records - the whole block_to_seq_pair pipeline (per-record rows, re-gapping
   loop over the sorted insertions, '*'-padding, column-wise flattening, right-extension): the reference row IS the
   canonical gapped reference (after its k-th base exactly the total length of the block's insertions at k), hence
   degaps to the reference, the query row has the same length, and the query row read through the reference row
   (the columns where the reference row is '-' deleted) is exactly the sam toMultiAlign --pad row of the same block -
   so every reference position carries the aligned base / '-' / 'N' the statement demands; and, for blocks in which no
   two records insert at the same reference position (the property's non-conflict case), the query row read in the gap
   columns carries, position after position, exactly the inserted bases of the records in CIGAR order.  Together:
   every clause of the statement for all blocks.  The window cut is C15_topa_window_cut. *)
From GF Require Import Base Alphabet SymbolsDef FastaModel Cigar SamModel TopaModel TopaProofs PairProofs PairInsProofs.
Open Scope N_scope.

Theorem C02_walk2_rows : forall ins ops q r sq ref x y, ~ In 45 ref ->
  walk2 ins ops q r sq ref = Some (x, y) ->
  length x = length y /\ degap y = firstn (ref_span ops) (skipn r ref).
Proof. exact walk2_rows. Qed.
Print Assumptions C02_walk2_rows.

Theorem C02_one_record_rows : forall rc ref qrow rrow, ~ In 45 ref ->
  one_line_plus_ref true rc ref = Some (qrow, rrow) ->
  length qrow = length rrow /\ degap rrow = firstn (s_pos rc + ref_span (s_cigar rc)) ref.
Proof. exact one_line_plus_ref_rows. Qed.
Print Assumptions C02_one_record_rows.

Theorem C02_pair1_degap_ref : forall ref rc R Q, ~ In 45 ref ->
  block_to_seq_pair ref [rc] = Some (R, Q) ->
  degap R = ref /\ length R = (length ref + ins_total (s_cigar rc))%nat /\ length Q = length R.
Proof. exact pair1_degap_ref. Qed.
Print Assumptions C02_pair1_degap_ref.

(* multi-record (supplementary) queries: the reference row is the canonical gapped reference ... *)
Theorem C02_pairk_ref_row : forall ref block R Q, block <> [] -> ~ In 45 ref -> Forall (fun c => 42 <= c) ref ->
  block_to_seq_pair ref block = Some (R, Q) ->
  R = grow ref (Iof (block_insertions block)) (length ref) /\ length Q = length R.
Proof. exact pairk_ref_row. Qed.
Print Assumptions C02_pairk_ref_row.

(* ... which in the statement's words means: removing '-' gives exactly the reference, the gap columns are exactly the
   block's inserted bases, and the rows are equally long; any number of records, any CIGARs, any overlaps *)
Theorem C02_pairk_degap_ref : forall ref block R Q, block <> [] -> ~ In 45 ref -> Forall (fun c => 42 <= c) ref ->
  block_to_seq_pair ref block = Some (R, Q) ->
  degap R = ref /\ length R = (length ref + tot (block_insertions block))%nat /\ length Q = length R.
Proof. exact pairk_degap_ref. Qed.
Print Assumptions C02_pairk_degap_ref.

(* the canonical row read back: its bases are the first E reference bases *)
Theorem C02_canonical_row_degaps : forall ref I E, ~ In 45 ref -> (E <= length ref)%nat -> degap (grow ref I E) = firstn E ref.
Proof. exact degap_grow. Qed.
Print Assumptions C02_canonical_row_degaps.

(* --skip-insertions: the reference row is the reference and the query row is exactly the sam toMultiAlign --pad row of
   the same block (same per-record CIGAR walk, same flattening, then '*' -> 'N'); any number of records *)
Theorem C02_skip_insertions_eq_toma_pad : forall ref block R Q, block <> [] -> block_skip_ins ref block = Some (R, Q) ->
  R = ref /\ exists raw, seq_from_block (length ref) block = Some raw /\ Q = fasta_seq true false 0 0 raw.
Proof. exact skip_ins_eq_toma_pad. Qed.
Print Assumptions C02_skip_insertions_eq_toma_pad.

(* the query row through the reference row: deleting the columns where the reference row has '-' gives exactly the
   sam toMultiAlign --pad row of the same block; any number of records, any CIGARs *)
Theorem C02_pairk_proj_eq_toma_pad : forall ref block R Q, block <> [] -> ~ In 45 ref -> Forall (fun c => 42 <= c) ref ->
  block_to_seq_pair ref block = Some (R, Q) ->
  exists raw, seq_from_block (length ref) block = Some raw /\ proj R Q = fasta_seq true false 0 0 raw.
Proof. exact pairk_proj_eq_toma_pad. Qed.
Print Assumptions C02_pairk_proj_eq_toma_pad.

(* a query without insertions: the pair is (reference, toMultiAlign --pad row) *)
Theorem C02_pairk_no_insertions : forall ref block R Q, block <> [] -> ~ In 45 ref -> Forall (fun c => 42 <= c) ref ->
  block_insertions block = [] -> block_to_seq_pair ref block = Some (R, Q) ->
  R = ref /\ exists raw, seq_from_block (length ref) block = Some raw /\ Q = fasta_seq true false 0 0 raw.
Proof. exact pairk_no_insertions. Qed.
Print Assumptions C02_pairk_no_insertions.

(* the inserted bases: the query row restricted to the columns where the reference row has '-' is, for k = 0..|ref|, the
   inserted bases of the insertions that start after k reference bases (Otot: per record, in CIGAR order) - when no two
   different records insert at the same position and SEQ bytes are above '-' (letters) *)
Theorem C02_pairk_insertions : forall ref rc0 rest R Q, let block := rc0 :: rest in
  ~ In 45 ref -> Forall (fun c => 42 <= c) ref ->
  no_shared_starts block rc0 -> Forall (fun rc => Forall (fun c => 45 < c) (s_seq rc)) block ->
  block_to_seq_pair ref block = Some (R, Q) ->
  cproj R Q = concat (map (Otot block) (seq 0 (S (length ref)))).
Proof. exact pairk_insertions. Qed.
Print Assumptions C02_pairk_insertions.

Example C02_example_two_records :
  block_to_seq_pair (bs "ACGTACGTACGTACGT")
    [ {| s_name := bs "q"; s_flag := 0; s_pos := 0%nat; s_cigar := [(OM,4);(OI,2);(OM,3)]%nat; s_seq := bs "ACGTTTACG" |};
      {| s_name := bs "q"; s_flag := 2048; s_pos := 9%nat; s_cigar := [(OM,2);(OI,1);(OM,4)]%nat; s_seq := bs "CGAACGT" |} ]
  = Some (bs "ACGT--ACGTACG-TACGT", bs "ACGTTTACGNNCGAACGTN").
Proof. vm_compute. reflexivity. Qed.

Example C02_example :
  block_to_seq_pair (bs "ACGTACGTAC") [ {| s_name := bs "q"; s_flag := 0; s_pos := 1%nat;
      s_cigar := [(OM,3);(OI,2);(OM,2);(OD,1);(OM,1)]%nat; s_seq := bs "CGTTTACC" |} ]
  = Some (bs "ACGT--ACGTAC", bs "NCGTTTAC-CNN").
Proof. vm_compute. reflexivity. Qed.
