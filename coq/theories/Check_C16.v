From GF Require Import Base Alphabet SymbolsDef FastaModel SnpsModel Harness.
Open Scope N_scope.
(* serialisation of reader results, the same as harness/go/cmd/run/op_fasta.go *)
Definition ser_field (l : list N) : list N := dec_nat (length l) ++ [58] ++ l.
Definition ser_rcd (r : rcd) : list N := dec_nat (r_idx r) ++ [59] ++ ser_field (r_id r) ++ ser_field (r_desc r) ++ ser_field (r_seq r).
Definition ser_recs (l : list rcd) : list N := concat (map (fun r => ser_rcd r ++ [NL]) l).
Definition ser_scored (l : list scored) : list N :=
  concat (map (fun s => ser_rcd (sc_rec s) ++ dec_Z (sc_score s) ++ [59] ++ dec_nat (sc_A s) ++ [59] ++ dec_nat (sc_T s)
                        ++ [59] ++ dec_nat (sc_G s) ++ [59] ++ dec_nat (sc_C s) ++ [NL]) l).
Definition map_res' {A B} (f : A -> B) (r : res A) : res B :=
  match r with Ok a => Ok (f a) | Err e => Err e | Panic => Panic end.
Definition map_rcd' (g : N -> N) (r : rcd) : rcd :=
  {| r_id := r_id r; r_desc := r_desc r; r_seq := map g (r_seq r); r_idx := r_idx r |}.

(* reader: 0 plain, 1 streaming encoder, 2 scoring, 3 list, 4 findReference *)
Definition model_C16 (reader : N) (h : bool) (refid file : list N) : res (list N) :=
  match reader with
  | 0 => map_res' ser_recs (read_plain file)
  | 2 => map_res' ser_scored (read_scored h file)
  | 4 => map_res' (fun r => ser_recs [r]) (find_reference refid file)
  | _ => map_res' ser_recs (read_encoded h file)
  end.
(* spec: the same reader skeleton over the Alphabet-level validity test, symbols encoded afterwards *)
Definition spec_C16 (reader : N) (h : bool) (refid file : list N) : res (list N) :=
  match reader with
  | 0 => map_res' ser_recs (read_plain file)
  | 2 => map_res' (fun l => ser_scored (map (fun r => score_rec (map_rcd' (enc h) r)) l)) (read conv_raw true file)
  | 4 => map_res' (fun r => ser_recs [r]) (find_reference refid file)
  | _ => map_res' (fun l => ser_recs (map (map_rcd' (enc h)) l)) (read conv_raw true file)
  end.
Definition check_C16 (c : N * bool * list N * list N * gores) : N :=
  let '(reader, h, refid, file, g) := c in
  match g with
  | GPanic | GHang => 1      (* "never by a panic or a hang" *)
  | _ => verdict g (model_C16 reader h refid file) (spec_C16 reader h refid file)
  end.
