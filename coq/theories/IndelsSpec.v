(* IndelsSpec.v — C05: the declarative reading of the indel records.  `Indels.v` proves that the scan of the code equals
   the reference-coordinate machine `indels_ref`; here the OUTPUT of that machine is characterised without any machine:
   which records are in the list, stated on the columns of the pairwise relation alone. *)
From Coq Require Import List Arith Lia Bool.
From GF Require Import Indels.
Import ListNotations.

(* a column where the reference has a gap and the query a base *)
Definition is_ins (c : col) : bool := fst c && negb (snd c).
(* the number of such columns that have exactly P reference (non-gap) columns to their left *)
Definition inslen (cs : list col) (P : nat) : nat :=
  length (filter (fun i => is_ins (nth i cs (true, true)) && Nat.eqb (refcols (firstn i cs)) P) (seq 0 (length cs))).
(* per reference base, in order: is it absent from the query *)
Definition delv (cs : list col) : list bool := map snd (filter (fun c => negb (fst c)) cs).
Definition deleted (cs : list col) (k : nat) : bool := nth (k - 1) (delv cs) false.      (* k = 1 .. refcols cs *)
(* bases P..P+L-1 absent, P-1 and P+L present (so both exist: the run touches neither end) *)
Definition DelRun (D : list bool) (P L : nat) : Prop :=
  1 < P /\ 0 < L /\ P + L <= length D /\ (forall k, P <= k < P + L -> nth (k - 1) D false = true) /\
  nth (P - 2) D false = false /\ nth (P + L - 1) D false = false.

Lemma refcols_snoc l c : refcols (l ++ [c]) = refcols l + (if fst c then 0 else 1).
Proof. unfold refcols. rewrite filter_app, app_length. destruct c as [[|] q]; reflexivity. Qed.

Lemma delv_snoc l c : delv (l ++ [c]) = delv l ++ (if fst c then [] else [snd c]).
Proof. unfold delv. rewrite filter_app, map_app. destruct c as [[|] q]; reflexivity. Qed.

Lemma delv_length l : length (delv l) = refcols l.
Proof. unfold delv, refcols. apply map_length. Qed.

Lemma inslen_snoc l c P : inslen (l ++ [c]) P = inslen l P + (if is_ins c && Nat.eqb (refcols l) P then 1 else 0).
Proof.
  unfold inslen. rewrite app_length. cbn [length]. rewrite Nat.add_1_r, seq_S, filter_app, app_length. cbn [Nat.add].
  f_equal.
  - f_equal. apply filter_ext_in. intros i Hi. apply in_seq in Hi.
    rewrite app_nth1 by lia. rewrite firstn_app. replace (i - length l) with 0 by lia. cbn [firstn]. rewrite app_nil_r. reflexivity.
  - cbn [filter]. rewrite nth_middle. rewrite firstn_app, firstn_all, Nat.sub_diag. cbn [firstn]. rewrite app_nil_r.
    destruct (is_ins c && Nat.eqb (refcols l) P); reflexivity.
Qed.

Lemma inslen_nil P : inslen [] P = 0.
Proof. reflexivity. Qed.

(* no column has more reference columns to its left than the alignment has *)
Lemma inslen_beyond l : forall P, refcols l < P -> inslen l P = 0.
Proof.
  induction l as [|c l IH] using rev_ind; intros P HP; [reflexivity|].
  rewrite inslen_snoc. rewrite refcols_snoc in HP. rewrite IH by lia.
  replace (Nat.eqb (refcols l) P) with false by (symmetry; apply Nat.eqb_neq; lia). rewrite andb_false_r. reflexivity.
Qed.

Lemma NoDup_snoc {A} (l : list A) x : NoDup l -> ~ In x l -> NoDup (l ++ [x]).
Proof.
  intros Hn Hx. induction l as [|a l IH]; cbn; [constructor; [intros []|constructor]|].
  inversion Hn as [|? ? Ha Hl]; subst. constructor.
  - rewrite in_app_iff. intros [H|[H|[]]]; [exact (Ha H)|]. subst. apply Hx. left; reflexivity.
  - apply IH; [exact Hl|]. intros H. apply Hx. right; exact H.
Qed.

(* a run that closes when one more reference base is seen *)
Lemma DelRun_snoc D b P L :
  DelRun (D ++ [b]) P L <->
  DelRun D P L \/ (b = false /\ P + L = S (length D) /\ 1 < P /\ 0 < L /\
                   (forall k, P <= k < P + L -> nth (k - 1) D false = true) /\ nth (P - 2) D false = false).
Proof.
  unfold DelRun. rewrite app_length. cbn [length]. split.
  - intros (H1 & H2 & H3 & H4 & H5 & H6).
    destruct (Nat.eq_dec (P + L) (S (length D))) as [E|E].
    + right. rewrite E in H6. replace (S (length D) - 1) with (length D) in H6 by lia. rewrite nth_middle in H6.
      repeat split; try assumption; try lia.
      * intros k Hk. specialize (H4 k Hk). rewrite app_nth1 in H4 by lia. exact H4.
      * rewrite app_nth1 in H5 by lia. exact H5.
    + left. repeat split; try assumption; try lia.
      * intros k Hk. specialize (H4 k Hk). rewrite app_nth1 in H4 by lia. exact H4.
      * rewrite app_nth1 in H5 by lia. exact H5.
      * rewrite app_nth1 in H6 by lia. exact H6.
  - intros [(H1 & H2 & H3 & H4 & H5 & H6)|(Hb & E & H1 & H2 & H4 & H5)].
    + repeat split; try assumption; try lia.
      * intros k Hk. rewrite app_nth1 by lia. apply H4; exact Hk.
      * rewrite app_nth1 by lia. exact H5.
      * rewrite app_nth1 by lia. exact H6.
    + subst b. repeat split; try assumption; try lia.
      * intros k Hk. rewrite app_nth1 by lia. apply H4; exact Hk.
      * rewrite app_nth1 by lia. exact H5.
      * rewrite E. replace (S (length D) - 1) with (length D) by lia. apply nth_middle.
Qed.

(* ---- the invariant of the machine after the prefix `pre` ---- *)
Definition Inv (pre : list col) (s : st2) : Prop :=
  rb2 s = refcols pre /\
  (if iOpen s then iStart s = refcols pre /\ iLen s = inslen pre (refcols pre) /\ 0 < iLen s
   else inslen pre (refcols pre) = 0) /\
  (forall P L, In (Ins P L) (acc2 s) <-> P < refcols pre /\ 0 < L /\ L = inslen pre P) /\
  (if dOpen s then dStart s + dLen s = refcols pre /\ 0 < dLen s /\
                   (forall k, dStart s < k <= refcols pre -> nth (k - 1) (delv pre) false = true) /\
                   (dStart s = 0 \/ nth (dStart s - 1) (delv pre) false = false)
   else refcols pre = 0 \/ nth (refcols pre - 1) (delv pre) false = false) /\
  (forall P L, In (Del P L) (acc2 s) <-> DelRun (delv pre) P L) /\
  NoDup (acc2 s).

Lemma Inv_init : Inv [] init2.
Proof.
  unfold Inv, init2. cbn [rb2 iOpen iStart iLen dOpen dStart dLen acc2 In].
  split; [reflexivity|]. split; [reflexivity|]. split.
  { intros P L. split; [intros []|]. cbn. intros (Hx & _). lia. }
  split; [left; reflexivity|]. split.
  { intros P L. split; [intros []|]. unfold DelRun. cbn. intros (_ & Hx2 & Hx3 & _). lia. }
  constructor.
Qed.

Ltac inv6 := split; [|split; [|split; [|split; [|split]]]].

Lemma Inv_step pre s c : Inv pre s -> Inv (pre ++ [c]) (step2 s c).
Proof.
  intros (Hrb & Hi & Hia & Hd & Hda & Hnd).
  pose proof (delv_length pre) as HDl.
  destruct c as [[|] [|]].
  - (* both gaps: nothing changes *)
    assert (E : forall P, inslen (pre ++ [(true, true)]) P = inslen pre P) by (intros P; rewrite inslen_snoc; cbn; lia).
    unfold Inv. cbn [step2]. rewrite refcols_snoc, delv_snoc. cbn [fst snd]. rewrite Nat.add_0_r, app_nil_r.
    inv6; [exact Hrb|rewrite E; exact Hi|intros P L; rewrite E; apply Hia|exact Hd|exact Hda|exact Hnd].
  - (* the query's own insertion column *)
    assert (E : forall P, inslen (pre ++ [(true, false)]) P = inslen pre P + (if Nat.eqb (refcols pre) P then 1 else 0))
      by (intros P; rewrite inslen_snoc; reflexivity).
    assert (Eacc : forall P L, (P < refcols pre /\ 0 < L /\ L = inslen (pre ++ [(true, false)]) P) <->
                               (P < refcols pre /\ 0 < L /\ L = inslen pre P)).
    { intros P L. rewrite E. destruct (Nat.eqb_spec (refcols pre) P); [split; intros (H & _); lia|]. rewrite Nat.add_0_r. reflexivity. }
    unfold Inv. cbn [step2]. destruct (iOpen s) eqn:Hio;
      cbn [rb2 iOpen iStart iLen acc2 dOpen dStart dLen]; rewrite refcols_snoc, delv_snoc; cbn [fst snd]; rewrite Nat.add_0_r, app_nil_r.
    + destruct Hi as (Hi1 & Hi2 & Hi3).
      inv6; [exact Hrb| |intros P L; etransitivity; [apply Hia|symmetry; apply Eacc]|exact Hd|exact Hda|exact Hnd].
      rewrite E, Nat.eqb_refl. repeat split; lia.
    + inv6; [exact Hrb| |intros P L; etransitivity; [apply Hia|symmetry; apply Eacc]|exact Hd|exact Hda|exact Hnd].
      rewrite E, Nat.eqb_refl. repeat split; lia.
  - (* a reference base absent from the query *)
    assert (E : forall P, inslen (pre ++ [(false, true)]) P = inslen pre P) by (intros P; rewrite inslen_snoc; cbn; lia).
    assert (Hn1 : refcols (pre ++ [(false, true)]) = S (refcols pre)) by (rewrite refcols_snoc; cbn; lia).
    assert (HD1 : delv (pre ++ [(false, true)]) = delv pre ++ [true]) by (rewrite delv_snoc; reflexivity).
    (* the list after the pending insertion is logged *)
    set (a1 := if iOpen s then acc2 s ++ [Ins (iStart s) (iLen s)] else acc2 s).
    assert (Ha1i : forall P L, In (Ins P L) a1 <-> P < S (refcols pre) /\ 0 < L /\ L = inslen pre P).
    { intros P L. unfold a1. destruct (iOpen s).
      - destruct Hi as (Hi1 & Hi2 & Hi3). rewrite in_app_iff, Hia. cbn [In]. split.
        + intros [(H1 & H2 & H3)|[H|[]]]; [repeat split; [lia|assumption|assumption]|].
          injection H as <- <-. rewrite Hi1. repeat split; [lia|assumption|assumption].
        + intros (H1 & H2 & H3). destruct (Nat.eq_dec P (refcols pre)) as [->|Hne]; [right; left|left; repeat split; [lia|assumption|assumption]].
          rewrite Hi1, Hi2, H3. reflexivity.
      - rewrite Hia. split; [intros (H1 & H2 & H3); repeat split; [lia|assumption|assumption]|].
        intros (H1 & H2 & H3). destruct (Nat.eq_dec P (refcols pre)) as [->|Hne]; [lia|repeat split; [lia|assumption|assumption]]. }
    assert (Ha1d : forall P L, In (Del P L) a1 <-> DelRun (delv pre) P L).
    { intros P L. unfold a1. destruct (iOpen s); [|apply Hda]. rewrite in_app_iff, Hda. cbn [In].
      split; [intros [H|[H|[]]]; [exact H|discriminate]|intros H; left; exact H]. }
    assert (Ha1n : NoDup a1).
    { unfold a1. destruct (iOpen s); [|exact Hnd]. apply NoDup_snoc; [exact Hnd|]. destruct Hi as (Hi1 & _). rewrite Hia, Hi1. lia. }
    assert (Hrun : forall P L, DelRun (delv pre ++ [true]) P L <-> DelRun (delv pre) P L).
    { intros P L. rewrite DelRun_snoc. split; [intros [H|(H & _)]; [exact H|discriminate]|intros H; left; exact H]. }
    unfold Inv. cbn [step2]. fold a1. destruct (dOpen s) eqn:Hdo;
      cbn [rb2 iOpen iStart iLen acc2 dOpen dStart dLen]; rewrite Hn1, HD1.
    + destruct Hd as (Hd1 & Hd2 & Hd3 & Hd4).
      inv6; [lia|rewrite E; apply inslen_beyond; lia|intros P L; rewrite E; apply Ha1i| |intros P L; etransitivity; [apply Ha1d|symmetry; apply Hrun]|exact Ha1n].
      split; [lia|]. split; [lia|]. split.
      * intros k Hk. destruct (Nat.eq_dec k (S (refcols pre))) as [->|Hne].
        -- replace (S (refcols pre) - 1) with (length (delv pre)) by lia. apply nth_middle.
        -- rewrite app_nth1 by lia. apply Hd3. lia.
      * destruct Hd4 as [Hd4|Hd4]; [left; exact Hd4|right]. rewrite app_nth1 by lia. exact Hd4.
    + inv6; [lia|rewrite E; apply inslen_beyond; lia|intros P L; rewrite E; apply Ha1i| |intros P L; etransitivity; [apply Ha1d|symmetry; apply Hrun]|exact Ha1n].
      split; [lia|]. split; [lia|]. split.
      * intros k Hk. assert (k = S (refcols pre)) by lia. subst k. replace (S (refcols pre) - 1) with (length (delv pre)) by lia. apply nth_middle.
      * rewrite Hrb. destruct (Nat.eq_dec (refcols pre) 0) as [Hz|Hz]; [left; exact Hz|right].
        destruct Hd as [Hd|Hd]; [lia|]. rewrite app_nth1 by lia. exact Hd.
  - (* a reference base present in the query *)
    assert (E : forall P, inslen (pre ++ [(false, false)]) P = inslen pre P) by (intros P; rewrite inslen_snoc; cbn; lia).
    assert (Hn1 : refcols (pre ++ [(false, false)]) = S (refcols pre)) by (rewrite refcols_snoc; cbn; lia).
    assert (HD1 : delv (pre ++ [(false, false)]) = delv pre ++ [false]) by (rewrite delv_snoc; reflexivity).
    set (a1 := if iOpen s then acc2 s ++ [Ins (iStart s) (iLen s)] else acc2 s).
    assert (Ha1i : forall P L, In (Ins P L) a1 <-> P < S (refcols pre) /\ 0 < L /\ L = inslen pre P).
    { intros P L. unfold a1. destruct (iOpen s).
      - destruct Hi as (Hi1 & Hi2 & Hi3). rewrite in_app_iff, Hia. cbn [In]. split.
        + intros [(H1 & H2 & H3)|[H|[]]]; [repeat split; [lia|assumption|assumption]|].
          injection H as <- <-. rewrite Hi1. repeat split; [lia|assumption|assumption].
        + intros (H1 & H2 & H3). destruct (Nat.eq_dec P (refcols pre)) as [->|Hne]; [right; left|left; repeat split; [lia|assumption|assumption]].
          rewrite Hi1, Hi2, H3. reflexivity.
      - rewrite Hia. split; [intros (H1 & H2 & H3); repeat split; [lia|assumption|assumption]|].
        intros (H1 & H2 & H3). destruct (Nat.eq_dec P (refcols pre)) as [->|Hne]; [lia|repeat split; [lia|assumption|assumption]]. }
    assert (Ha1d : forall P L, In (Del P L) a1 <-> DelRun (delv pre) P L).
    { intros P L. unfold a1. destruct (iOpen s); [|apply Hda]. rewrite in_app_iff, Hda. cbn [In].
      split; [intros [H|[H|[]]]; [exact H|discriminate]|intros H; left; exact H]. }
    assert (Ha1n : NoDup a1).
    { unfold a1. destruct (iOpen s); [|exact Hnd]. apply NoDup_snoc; [exact Hnd|]. destruct Hi as (Hi1 & _). rewrite Hia, Hi1. lia. }
    set (a2 := if dOpen s then (if Nat.eqb (dStart s) 0 then a1 else a1 ++ [Del (dStart s + 1) (dLen s)]) else a1).
    assert (Ha2i : forall P L, In (Ins P L) a2 <-> P < S (refcols pre) /\ 0 < L /\ L = inslen pre P).
    { intros P L. unfold a2. destruct (dOpen s); [|apply Ha1i]. destruct (Nat.eqb (dStart s) 0); [apply Ha1i|].
      rewrite in_app_iff, Ha1i. cbn [In]. split; [intros [H|[H|[]]]; [exact H|discriminate]|intros H; left; exact H]. }
    assert (Ha2d : forall P L, In (Del P L) a2 <-> DelRun (delv pre ++ [false]) P L).
    { intros P L. rewrite DelRun_snoc. unfold a2. destruct (dOpen s).
      - destruct Hd as (Hd1 & Hd2 & Hd3 & Hd4).
        assert (Huniq : (1 < P /\ 0 < L /\ P + L = S (length (delv pre)) /\ (forall k, P <= k < P + L -> nth (k - 1) (delv pre) false = true) /\
                         nth (P - 2) (delv pre) false = false) <-> (dStart s <> 0 /\ P = dStart s + 1 /\ L = dLen s)).
        { split.
          - intros (H1 & H2 & H3 & H4 & H5).
            assert (P - 1 = dStart s).
            { destruct (lt_eq_lt_dec (P - 1) (dStart s)) as [[Hlt|Heq]|Hgt]; [|exact Heq|].
              - (* dStart lies inside the run: it is absent, but dStart is 0 or present *)
                destruct Hd4 as [Hd4|Hd4]; [lia|]. specialize (H4 (dStart s)). rewrite H4 in Hd4 by lia. discriminate.
              - (* P-1 lies inside the open run: absent, but it is present *)
                specialize (Hd3 (P - 1)). replace (P - 1 - 1) with (P - 2) in Hd3 by lia. rewrite Hd3 in H5 by lia. discriminate. }
            lia.
          - intros (H0 & -> & ->). destruct Hd4 as [Hd4|Hd4]; [lia|]. split; [lia|]. split; [lia|]. split; [lia|]. split.
            + intros k Hk. apply Hd3. lia.
            + replace (dStart s + 1 - 2) with (dStart s - 1) by lia. exact Hd4. }
        destruct (Nat.eqb_spec (dStart s) 0) as [Hz|Hz].
        + rewrite Ha1d. split; [intros H; left; exact H|]. intros [H|(_ & H3 & H1 & H2 & H4 & H5)]; [exact H|].
          exfalso. assert (Hu : dStart s <> 0 /\ P = dStart s + 1 /\ L = dLen s) by (apply Huniq; repeat split; assumption). tauto.
        + rewrite in_app_iff, Ha1d. cbn [In]. split.
          * intros [H|[H|[]]]; [left; exact H|right]. injection H as <- <-.
            assert (Hu : 1 < dStart s + 1 /\ 0 < dLen s /\ dStart s + 1 + dLen s = S (length (delv pre)) /\
                         (forall k, dStart s + 1 <= k < dStart s + 1 + dLen s -> nth (k - 1) (delv pre) false = true) /\
                         nth (dStart s + 1 - 2) (delv pre) false = false) by (apply Huniq; split; [exact Hz|split; reflexivity]).
            destruct Hu as (U1 & U2 & U3 & U4 & U5). split; [reflexivity|]. split; [exact U3|]. split; [exact U1|]. split; [exact U2|]. split; [exact U4|exact U5].
          * intros [H|(_ & H3 & H1 & H2 & H4 & H5)]; [left; exact H|right; left].
            assert (Hu : dStart s <> 0 /\ P = dStart s + 1 /\ L = dLen s) by (apply Huniq; repeat split; assumption).
            destruct Hu as (_ & -> & ->). reflexivity.
      - rewrite Ha1d. split; [intros H; left; exact H|]. intros [H|(_ & H3 & H1 & H2 & H4 & H5)]; [exact H|]. exfalso.
        destruct Hd as [Hd|Hd]; [lia|]. specialize (H4 (refcols pre)). rewrite H4 in Hd by lia. discriminate. }
    assert (Ha2n : NoDup a2).
    { unfold a2. destruct (dOpen s); [|exact Ha1n]. destruct (Nat.eqb (dStart s) 0); [exact Ha1n|].
      apply NoDup_snoc; [exact Ha1n|]. rewrite Ha1d. unfold DelRun. destruct Hd as (Hd1 & _). lia. }
    unfold Inv. cbn [step2]. fold a1. fold a2.
    cbn [rb2 iOpen iStart iLen acc2 dOpen dStart dLen]. rewrite Hn1, HD1.
    inv6; [lia|rewrite E; apply inslen_beyond; lia|intros P L; rewrite E; apply Ha2i| |exact Ha2d|exact Ha2n].
    right. replace (S (refcols pre) - 1) with (length (delv pre)) by lia. apply nth_middle.
Qed.

Lemma Inv_fold post : forall pre s, Inv pre s -> Inv (pre ++ post) (fold_left step2 post s).
Proof.
  induction post as [|c post IH]; intros pre s H; cbn [fold_left]; [rewrite app_nil_r; exact H|].
  replace (pre ++ c :: post) with ((pre ++ [c]) ++ post) by (rewrite <- app_assoc; reflexivity).
  apply IH. apply Inv_step. exact H.
Qed.

(* ---- the records of the list, read off the columns ---- *)
(* ins:P:L is listed iff L >= 1 columns with a reference gap and a query base have exactly P reference bases to their left *)
Theorem ins_iff cs P L : In (Ins P L) (get_indels cs) <-> 0 < L /\ L = inslen cs P.
Proof.
  rewrite get_indels_ref_coords. unfold indels_ref, finish2.
  pose proof (Inv_fold cs [] init2 Inv_init) as (Hrb & Hi & Hia & _). cbn [app] in *.
  destruct (iOpen (fold_left step2 cs init2)).
  - destruct Hi as (Hi1 & Hi2 & Hi3). rewrite in_app_iff, Hia. cbn [In]. split.
    + intros [(H1 & H2 & H3)|[H|[]]]; [split; assumption|]. injection H as <- <-. rewrite Hi1. split; assumption.
    + intros (H2 & H3). destruct (lt_eq_lt_dec P (refcols cs)) as [[Hlt|Heq]|Hgt].
      * left. repeat split; assumption.
      * right; left. subst P. rewrite Hi1, Hi2, H3. reflexivity.
      * rewrite inslen_beyond in H3 by exact Hgt. lia.
  - rewrite Hia. split; [intros (H1 & H2 & H3); split; assumption|].
    intros (H2 & H3). destruct (lt_eq_lt_dec P (refcols cs)) as [[Hlt|Heq]|Hgt].
    + repeat split; assumption.
    + subst P. lia.
    + rewrite inslen_beyond in H3 by exact Hgt. lia.
Qed.

(* del:P:L is listed iff reference bases P..P+L-1 are absent from the query and bases P-1 and P+L exist and are present *)
Theorem del_iff cs P L :
  In (Del P L) (get_indels cs) <->
  1 < P /\ 0 < L /\ P + L <= refcols cs /\ (forall k, P <= k < P + L -> deleted cs k = true) /\
  deleted cs (P - 1) = false /\ deleted cs (P + L) = false.
Proof.
  rewrite get_indels_ref_coords. unfold indels_ref, finish2.
  pose proof (Inv_fold cs [] init2 Inv_init) as (_ & _ & _ & _ & Hda & _). cbn [app] in *.
  assert (HR : DelRun (delv cs) P L <-> 1 < P /\ 0 < L /\ P + L <= refcols cs /\ (forall k, P <= k < P + L -> deleted cs k = true) /\
                                        deleted cs (P - 1) = false /\ deleted cs (P + L) = false).
  { unfold DelRun, deleted. rewrite delv_length. replace (P - 1 - 1) with (P - 2) by lia. reflexivity. }
  rewrite <- HR, <- Hda. destruct (iOpen (fold_left step2 cs init2)); [|reflexivity].
  rewrite in_app_iff. cbn [In]. split; [intros [H|[H|[]]]; [exact H|discriminate]|intros H; left; exact H].
Qed.

(* one record per run: no record is listed twice *)
Theorem indels_nodup cs : NoDup (get_indels cs).
Proof.
  rewrite get_indels_ref_coords. unfold indels_ref, finish2.
  pose proof (Inv_fold cs [] init2 Inv_init) as (_ & Hi & Hia & _ & _ & Hnd). cbn [app] in *.
  destruct (iOpen (fold_left step2 cs init2)); [|exact Hnd].
  apply NoDup_snoc; [exact Hnd|]. destruct Hi as (Hi1 & _). rewrite Hia, Hi1. lia.
Qed.

(* the records are functions of the position: at most one insertion per P, one deletion per P *)
Corollary ins_length_unique cs P L L' : In (Ins P L) (get_indels cs) -> In (Ins P L') (get_indels cs) -> L = L'.
Proof. rewrite !ins_iff. intros (_ & ->) (_ & ->). reflexivity. Qed.

Corollary del_length_unique cs P L L' : In (Del P L) (get_indels cs) -> In (Del P L') (get_indels cs) -> L = L'.
Proof.
  rewrite !del_iff. intros (_ & H2 & _ & H4 & _ & H6) (_ & H2' & _ & H4' & _ & H6').
  destruct (lt_eq_lt_dec L L') as [[Hlt|Heq]|Hgt]; [|exact Heq|].
  - rewrite (H4' (P + L)) in H6 by lia. discriminate.
  - rewrite (H4 (P + L')) in H6' by lia. discriminate.
Qed.

Theorem lengths_unique cs P L L' :
  (In (Ins P L) (get_indels cs) -> In (Ins P L') (get_indels cs) -> L = L') /\
  (In (Del P L) (get_indels cs) -> In (Del P L') (get_indels cs) -> L = L').
Proof. split; [apply ins_length_unique|apply del_length_unique]. Qed.

(* non-vacuity on the unit-test alignment  ref ATG---ATGATGAT / que ATGATGAT--TG-- : 3 inserted bases after base 3,
   bases 6..7 absent, bases 10..11 absent but touching the end (not listed) *)
Example spec_unit :
  let cs := [(false,false);(false,false);(false,false);(true,false);(true,false);(true,false);
             (false,false);(false,false);(false,true);(false,true);(false,false);(false,false);(false,true);(false,true)] in
  inslen cs 3 = 3 /\ inslen cs 0 = 0 /\ delv cs = [false;false;false;false;false;true;true;false;false;true;true].
Proof. vm_compute. repeat split. Qed.
