(* Harness.v — how an observation of the running Go code is compared with the model and the
   spec inside Coq (correspondence check; this is testing of the tie, not a proof). *)
From GF Require Import Base FastaModel.
Open Scope N_scope.

Inductive gores := GOk (out : list N) | GErr | GPanic | GHang.

Definition agree (g : gores) (m : res (list N)) : bool :=
  match g, m with
  | GOk o, Ok o' => list_eqb o o'
  | GErr, Err _ => true
  | GPanic, Panic => true
  | _, _ => false
  end.

(* 0: the implementation agrees with model and spec on this case
   1: the implementation's observable differs from what the spec demands (a failing input)
   2: implementation and model differ although the spec is met: the tie is broken *)
Definition verdict (g : gores) (model spec : res (list N)) : N :=
  if agree g spec then (if agree g model then 0 else 2) else 1.

(* when the spec is not a function of the input but a predicate on the output *)
Definition verdict_p (g : gores) (model : res (list N)) (spec_ok : bool) : N :=
  if spec_ok then (if agree g model then 0 else 2) else 1.
