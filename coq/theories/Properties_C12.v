(* Properties_C12.v — C12: output is a deterministic function of the input, not of threads or scheduling.
   PARTIAL by nature: what is proved is that the model's output is independent of the three kinds of
   nondeterminism a Gallina model can quantify over - arrival order at an index-keyed writer, completion order
   of per-query goroutines, map iteration order before a total sort.  Data races and schedule-dependent
   deadlock are properties of the Go runtime: they are addressed only by running the real binary (seeded
   jitter hook, thread counts, GOMAXPROCS, race detector, repeated runs, byte comparison). *)
From Coq Require Import List Arith Lia Bool Permutation.
From GF Require Import TopK Reorder OrderProofs.
Import ListNotations.

(* the index-keyed re-ordering writers (fastaio.WriteAlignment / WriteWrapAlignment, snps.writeOutput,
   updown.writeOutput, variants.WriteVariants, sam.inInputOrder): whenever every arrival is a record of the input
   carrying its own index and every index arrives, in ANY order (and even with repeats), what is written is the
   input order *)
Theorem C12_reorder_writer_any_arrival : forall (R : Type) (recs : list R) (arr : list (nat * R)),
  correct R recs arr -> (forall k, k < length recs -> exists r, In (k, r) arr) ->
  run R (length recs) arr = recs.
Proof. exact reorder_writer_any_arrival. Qed.
Print Assumptions C12_reorder_writer_any_arrival.

(* result arrays indexed by query position (closest, closestN, topranking) *)
Theorem C12_slot_array_any_completion_order : forall (R : Type) (recs : list R) (arr : list (nat * R)),
  (forall k r, In (k, r) arr -> nth_error recs k = Some r) ->
  (forall k, k < length recs -> exists r, In (k, r) arr) ->
  fill R (length recs) arr = map Some recs.
Proof. exact slot_array_any_completion_order. Qed.
Print Assumptions C12_slot_array_any_completion_order.

(* map iterations feeding output (aggregate keys, push-distance bins): any iteration order, then a sort whose key
   totally orders the keys present *)
Theorem C12_sorted_output_any_map_order : forall (E : Type) (lt : E -> E -> bool),
  (forall x, lt x x = false) -> (forall x y z, lt x y = true -> lt y z = true -> lt x z = true) ->
  (forall x y : E, {x = y} + {x <> y}) ->
  forall l1 l2, Permutation l1 l2 ->
  (forall x y, In x l1 -> In y l1 -> x <> y -> lt x y = true \/ lt y x = true) ->
  ssort E lt l1 = ssort E lt l2.
Proof. exact sorted_output_any_map_order. Qed.
Print Assumptions C12_sorted_output_any_map_order.

(* ---- D19: `variants --reference ID` with the alignment on stdin waits for the first record (StdinSelect.v) ---- *)
From GF Require Import StdinSelect.
(* whatever the moment at which the main goroutine reaches its select - the reader may have pushed any number of the n >= 1
   records into the channel buffer and may already be offering its done signal -, the repaired select takes the record *)
Theorem C12_stdin_select_takes_the_record : forall n m, (0 < n)%nat -> reachable n m -> forall o, In o (new_select n m) -> o = TookRecord.
Proof. exact new_select_takes_the_record. Qed.
Print Assumptions C12_stdin_select_takes_the_record.
Theorem C12_stdin_select_empty_pipe : forall m, reachable 0 m -> forall o, In o (new_select 0 m) -> o = SawDone.
Proof. exact new_select_empty. Qed.
Print Assumptions C12_stdin_select_empty_pipe.
(* the plain select of the pinned code could report an empty pipe for a short alignment that sits wholly in the buffer *)
Theorem C12_old_stdin_select_refuted : exists n m, (0 < n)%nat /\ reachable n m /\ In SawDone (old_select n m).
Proof. exact old_select_refuted. Qed.
Print Assumptions C12_old_stdin_select_refuted.
