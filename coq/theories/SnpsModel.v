(* SnpsModel.v — model of pkg/snps/snps.go (getSNPs, writeOutput, SNPs), per-sequence mode.
   Definitions only. *)
From GF Require Import Base Alphabet SymbolsDef FastaModel.
Open Scope N_scope.

Record snp := { s_ref : list N; s_pos : N; s_que : list N }.

(* getSNPs: loop over the encoded columns; r, q already encoded; i = 0-based column *)
Fixpoint get_snps_from (i : N) (r q : list N) : list snp :=
  match r, q with
  | a :: r', b :: q' =>
      let rest := get_snps_from (i + 1) r' q' in
      if N.land a b <? 16 then {| s_ref := dec a; s_pos := i + 1; s_que := dec b |} :: rest else rest
  | _, _ => []
  end.
Definition get_snps (h : bool) (ref que : list N) : list snp :=
  get_snps_from 0 (map (enc h) ref) (map (enc h) que).

Definition snp_bytes (s : snp) : list N := s_ref s ++ dec_N (s_pos s) ++ s_que s.
Definition snps_header : list N := bs "query,SNPs" ++ [NL].
Definition snps_row (name : list N) (l : list snp) : list N :=
  name ++ [44] ++ join [124] (map snp_bytes l) ++ [NL].

(* the whole command: reference file, alignment file -> bytes written on success *)
Fixpoint snps_rows (refseq : list N) (recs : list rcd) : res (list N) :=
  match recs with
  | [] => Ok []
  | r :: t =>
      if Nat.eqb (length (r_seq r)) (length refseq) then
        bind (snps_rows refseq t) (fun rest => Ok (snps_row (r_id r) (get_snps_from 0 refseq (r_seq r)) ++ rest))
      else Err DiffLen
  end.

Definition snps_cmd (hard : bool) (ref aln : list N) : res (list N) :=
  bind (read_encoded hard ref) (fun refs =>
    match refs with
    | [r0] => bind (read_encoded hard aln) (fun recs =>
                bind (snps_rows (r_seq r0) recs) (fun rows => Ok (snps_header ++ rows)))
    | [] => Panic
    | _ => Err Other
    end).

(* ---- SPEC: column-wise, from the meaning of the symbols (Alphabet.v) ---- *)
Fixpoint spec_from (h : bool) (i : N) (ref que : list N) : list snp :=
  match ref, que with
  | a :: r', b :: q' =>
      let rest := spec_from h (i + 1) r' q' in
      if disjoint_sym h a b then {| s_ref := [upper a]; s_pos := i + 1; s_que := [upper b] |} :: rest else rest
  | _, _ => []
  end.

(* SPEC of the whole command: the records of the two files (symbols kept as written, a byte
   outside the alphabet refused), one row per record in input order from spec_from. *)
Fixpoint spec_rows (h : bool) (refseq : list N) (recs : list rcd) : res (list N) :=
  match recs with
  | [] => Ok []
  | r :: t =>
      if Nat.eqb (length (r_seq r)) (length refseq) then
        bind (spec_rows h refseq t) (fun rest => Ok (snps_row (r_id r) (spec_from h 0 refseq (r_seq r)) ++ rest))
      else Err DiffLen
  end.
Definition snps_spec_cmd (hard : bool) (ref aln : list N) : res (list N) :=
  bind (read conv_raw true ref) (fun refs =>
    match refs with
    | [r0] => bind (read conv_raw true aln) (fun recs =>
                bind (spec_rows hard (r_seq r0) recs) (fun rows => Ok (snps_header ++ rows)))
    | [] => Panic
    | _ => Err Other
    end).
