(* OrderProofs.v — C12: the places where nondeterminism (arrival order, completion order, map iteration order)
   enters a command, and why the bytes written do not depend on it. *)
From Coq Require Import List Arith Lia Bool Permutation.
From GF Require Import TopK Reorder.
Import ListNotations.

(* ---------- result slots indexed by query position (closest, closestN, topranking) ---------- *)
Section Slots.
  Variable R : Type.
  Fixpoint set_nth (l : list (option R)) (k : nat) (r : R) : list (option R) :=
    match l, k with
    | [], _ => []
    | _ :: t, O => Some r :: t
    | x :: t, S k' => x :: set_nth t k' r
    end.
  Definition fill (n : nat) (arr : list (nat * R)) : list (option R) :=
    fold_left (fun a kr => set_nth a (fst kr) (snd kr)) arr (repeat None n).

  Lemma nth_ext_error_len {A} (l1 l2 : list A) : length l1 = length l2 ->
    (forall j, j < length l1 -> nth_error l1 j = nth_error l2 j) -> l1 = l2.
  Proof.
    revert l2; induction l1 as [|a t IH]; intros [|b t2] Hl H; cbn in Hl; try lia; [reflexivity|].
    pose proof (H 0 ltac:(cbn; lia)) as H0. cbn in H0. injection H0 as ->. f_equal. apply IH; [lia|].
    intros j Hj. apply (H (S j)). cbn. lia.
  Qed.
  Lemma set_nth_length l k r : length (set_nth l k r) = length l.
  Proof. revert k; induction l as [|x t IH]; intros [|k]; cbn; auto. Qed.
  Lemma nth_set_nth l k r j : k < length l -> nth_error (set_nth l k r) j = if Nat.eqb j k then Some (Some r) else nth_error l j.
  Proof.
    revert k j; induction l as [|x t IH]; intros k j Hk; [cbn in Hk; lia|].
    destruct k as [|k], j as [|j]; cbn; try reflexivity. apply IH. cbn in Hk. lia.
  Qed.

  Lemma fill_length n arr : length (fill n arr) = n.
  Proof.
    unfold fill. assert (G : forall a, length (fold_left (fun a kr => set_nth a (fst kr) (snd kr)) arr a) = length a).
    { induction arr as [|x t IH]; intros a; cbn [fold_left]; [reflexivity|]. rewrite IH, set_nth_length. reflexivity. }
    rewrite G. apply repeat_length.
  Qed.

  (* whatever the order in which the per-query goroutines finish, slot k ends up holding query k's result,
     provided every result carries its own index *)
  Theorem slot_array_any_completion_order (recs : list R) (arr : list (nat * R)) :
    (forall k r, In (k, r) arr -> nth_error recs k = Some r) ->
    (forall k, k < length recs -> exists r, In (k, r) arr) ->
    fill (length recs) arr = map Some recs.
  Proof.
    intros Hc Hall.
    assert (G : forall arr0, (forall k r, In (k, r) arr0 -> nth_error recs k = Some r) ->
               forall j, j < length recs ->
               nth_error (fill (length recs) arr0) j =
               if existsb (fun kr => Nat.eqb (fst kr) j) arr0 then Some (nth_error recs j) else Some None).
    { induction arr0 as [|[k r] t IH] using rev_ind; intros Hcor j Hj.
      - unfold fill. cbn [fold_left existsb]. apply nth_error_repeat. exact Hj.
      - unfold fill in *. rewrite fold_left_app. cbn [fold_left fst snd].
        assert (Hk : nth_error recs k = Some r) by (apply Hcor; apply in_or_app; right; left; reflexivity).
        assert (Hkl : k < length recs) by (apply nth_error_Some; congruence).
        rewrite nth_set_nth by (fold (fill (length recs) t); rewrite fill_length; exact Hkl).
        rewrite existsb_app. cbn [existsb fst]. rewrite orb_false_r.
        destruct (Nat.eqb_spec j k) as [->|Hne].
        + rewrite Nat.eqb_refl, orb_true_r, Hk. reflexivity.
        + destruct (Nat.eqb_spec k j); [congruence|]. rewrite orb_false_r. apply IH; [|exact Hj].
          intros k' r' Hin. apply Hcor. apply in_or_app. left. exact Hin. }
    apply nth_ext_error_len; [rewrite fill_length, map_length; reflexivity|].
    intros j Hj. rewrite fill_length in Hj. rewrite (G arr Hc j Hj), nth_error_map.
    destruct (Hall j Hj) as (r & Hin).
    assert (E : existsb (fun kr => Nat.eqb (fst kr) j) arr = true).
    { apply existsb_exists. exists (j, r). split; [exact Hin|apply Nat.eqb_refl]. }
    rewrite E, (Hc j r Hin). reflexivity.
  Qed.
End Slots.

(* ---------- sorts whose key totally orders the keys present: the output does not depend on the order in which
   a map was iterated ---------- *)
Section SortedUnique.
  Variable E : Type.
  Variable lt : E -> E -> bool.
  Hypothesis lt_irrefl : forall x, lt x x = false.
  Hypothesis lt_trans : forall x y z, lt x y = true -> lt y z = true -> lt x z = true.
  Variable eq_dec : forall x y : E, {x = y} + {x <> y}.

  Lemma ins_perm x l : Permutation (ins E lt x l) (x :: l).
  Proof.
    induction l as [|a t IH]; cbn [ins]; [apply Permutation_refl|]. destruct (lt x a); [apply Permutation_refl|].
    eapply perm_trans; [apply perm_skip; exact IH|apply perm_swap].
  Qed.
  Lemma ssort_perm l : Permutation (ssort E lt l) l.
  Proof.
    induction l as [|x t IH] using rev_ind; [apply Permutation_refl|]. rewrite ssort_snoc.
    eapply perm_trans; [apply ins_perm|]. eapply perm_trans; [apply perm_skip; exact IH|]. apply Permutation_cons_append.
  Qed.

  Lemma sorted_unique l1 : forall l2, sorted E lt l1 -> sorted E lt l2 -> Permutation l1 l2 ->
    (forall x y, In x l1 -> In y l1 -> x <> y -> lt x y = true \/ lt y x = true) -> l1 = l2.
  Proof.
    induction l1 as [|a t1 IH]; intros l2 S1 S2 P T.
    - apply Permutation_nil in P. subst. reflexivity.
    - destruct l2 as [|b t2]; [apply Permutation_sym, Permutation_nil in P; discriminate|].
      destruct S1 as [Ha St1]. destruct S2 as [Hb St2].
      assert (Eab : a = b).
      { assert (Ia : In a (b :: t2)) by (eapply Permutation_in; [exact P|left; reflexivity]).
        assert (Ib : In b (a :: t1)) by (eapply Permutation_in; [apply Permutation_sym; exact P|left; reflexivity]).
        destruct Ia as [<-|Ia]; [reflexivity|]. destruct Ib as [<-|Ib]; [reflexivity|].
        destruct (eq_dec a b) as [|Hne]; [assumption|]. exfalso.
        destruct (T a b (or_introl eq_refl) (or_intror Ib) Hne) as [H|H].
        - rewrite (Hb a Ia) in H. discriminate.
        - rewrite (Ha b Ib) in H. discriminate. }
      subst b. f_equal. apply IH; [exact St1|exact St2|eapply Permutation_cons_inv; exact P|].
      intros x y Hx Hy. apply T; right; assumption.
  Qed.

  (* the keys of a map, collected in ANY iteration order and sorted by a key that totally orders them, come out the same *)
  Theorem sorted_output_any_map_order l1 l2 : Permutation l1 l2 ->
    (forall x y, In x l1 -> In y l1 -> x <> y -> lt x y = true \/ lt y x = true) ->
    ssort E lt l1 = ssort E lt l2.
  Proof.
    intros P T. apply sorted_unique.
    - apply ssort_sorted; assumption.
    - apply ssort_sorted; assumption.
    - eapply perm_trans; [apply ssort_perm|]. eapply perm_trans; [exact P|]. apply Permutation_sym, ssort_perm.
    - intros x y Hx Hy. apply T; (eapply Permutation_in; [apply ssort_perm|assumption]).
  Qed.
End SortedUnique.

