(* Properties_C15.v — C15: windowing, padding, wrapping and input-channel options only select or re-lay-out. *)
From Coq Require Import Floats.SpecFloat.
From GF Require Import Base Alphabet SymbolsDef FastaModel Float TopK CodonModel Indels VariantsModel Cigar SamModel SamProofs TopaModel TopaProofs WindowProofs.
Open Scope N_scope.

(* sam toMultiAlign --start s --end e = columns s..e of the untrimmed row (the flank/internal rewrite is done
   on the whole row first) *)
Theorem C15_toma_window_is_slice : forall s e raw,
  fasta_seq false true s e raw = firstn (e - (s - 1)) (skipn (s - 1) (fasta_seq false false s e raw)).
Proof. exact toma_window_is_slice. Qed.
Print Assumptions C15_toma_window_is_slice.

(* with --pad: the untrimmed --pad row with everything outside s..e set to 'N' *)
Theorem C15_toma_pad_window : forall s e raw i, (i < length raw)%nat ->
  nth i (fasta_seq true true s e raw) 0 =
  if Nat.ltb i (s - 1) || Nat.leb e i then 78 else nth i (fasta_seq true false s e raw) 0.
Proof. exact toma_pad_window. Qed.
Print Assumptions C15_toma_pad_window.

(* legacy --trimstart a --trimend b = --start a+1 --end b *)
Theorem C15_legacy_flags : forall reflen recs wrap a b pad, (0 <= a)%Z ->
  let '(s, e) := legacy_flags a b in
  toma_cmd reflen recs wrap s e pad = toma_cmd reflen recs wrap (a + 1) b pad.
Proof. exact legacy_flags_eq. Qed.
Print Assumptions C15_legacy_flags.

(* --wrap w only re-breaks sequence lines *)
Theorem C15_wrap_only_rebreaks : forall w, (0 < w)%nat -> forall fuel s, (length s <= fuel)%nat -> ~ In NL s ->
  strip_nl (wrap_lines fuel w s) = s.
Proof. exact wrap_only_rebreaks. Qed.
Print Assumptions C15_wrap_only_rebreaks.

Theorem C15_wrap_line_width : forall w fuel s, (w < length s)%nat -> (0 < fuel)%nat ->
  firstn (S w) (wrap_lines fuel w s) = firstn w s ++ [NL].
Proof. exact wrap_first_line. Qed.
Print Assumptions C15_wrap_line_width.

(* variants / sam variants --start s, --end e, alone or together *)
Theorem C15_variants_window_filter : forall s e v,
  in_window s e v = true <-> ((0 < s -> s <= v_pos v) /\ (0 < e -> v_pos v <= e))%Z.
Proof. exact variants_window_filter. Qed.
Print Assumptions C15_variants_window_filter.

(* sam toPairAlign --start ts --end te: the pair is cut from the column of reference base ts (a: a non-gap column of
   the reference row with ts-1 reference bases to its left) to the column of base te inclusive, both rows alike; the
   reference bases inside the cut are exactly bases ts..te; any rows, any insertions *)
Theorem C15_topa_window_cut : forall ts te R Q R' Q', (ts <= te)%nat -> trim_pair ts te (R, Q) = Some (R', Q') ->
  (1 <= ts)%nat /\ (te <= length (degap R))%nat /\
  exists a b, (nth a R 0 =? 45) = false /\ length (degap (firstn a R)) = (ts - 1)%nat /\
              (nth (b - 1) R 0 =? 45) = false /\ length (degap (firstn (b - 1) R)) = (te - 1)%nat /\ (a < b <= length R)%nat /\
              R' = firstn (b - a) (skipn a R) /\ Q' = firstn (b - a) (skipn a Q) /\
              degap R' = firstn (te - ts + 1) (skipn (ts - 1) (degap R)).
Proof. exact trim_pair_cut. Qed.
Print Assumptions C15_topa_window_cut.

Example C15_topa_window_example :
  trim_pair 3 6 (bs "AC--GTA-CGT", bs "ACTTGTAACGT") = Some (bs "GTA-C", bs "GTAAC").
Proof. vm_compute. reflexivity. Qed.
