(* PushProofs.v — C08: under --dist-push k a bin holds exactly the targets at the k smallest occurring distances,
   nearest first (within one distance: fewer ambiguities, then file order), for any k >= 1 and any candidate list. *)
From Coq Require Import Floats.SpecFloat Sorting.Sorted.
From GF Require Import Base Alphabet SymbolsDef FastaModel SnpsModel UpdownListModel Float TopK Balance TopRankModel.
Open Scope nat_scope.

(* ---------- SPEC: the k smallest distinct distances, ascending ---------- *)
Fixpoint insd (d : nat) (l : list nat) : list nat :=
  match l with
  | [] => [d]
  | y :: t => if d <? y then d :: y :: t else if d =? y then y :: t else y :: insd d t
  end.
Definition sdd (l : list nat) : list nat := fold_left (fun acc d => insd d acc) l [].
Definition keysk (k : nat) (l : list nat) : list nat := firstn k (sdd l).
Definition group (d : nat) (hs : list hit) : list hit := filter (fun h => h_dist h =? d) hs.
Definition push_spec (k : nat) (hs : list hit) : list hit :=
  concat (map (fun d => ssort hit hit_lt (group d hs)) (keysk k (map h_dist hs))).

(* ---------- strictly ascending lists ---------- *)
Definition asc (l : list nat) : Prop := StronglySorted lt l.
Lemma insd_In d l x : In x (insd d l) <-> x = d \/ In x l.
Proof.
  induction l as [|y t IH]; cbn [insd In]; [intuition|].
  destruct (Nat.ltb_spec d y); [cbn [In]; intuition|]. destruct (Nat.eqb_spec d y); cbn [In]; [subst; intuition|].
  rewrite IH. intuition.
Qed.
Lemma insd_asc d l : asc l -> asc (insd d l).
Proof.
  unfold asc. induction l as [|y t IH]; intros H; cbn [insd]; [repeat constructor|].
  apply StronglySorted_inv in H. destruct H as [Ht Hy]. rewrite Forall_forall in Hy.
  destruct (Nat.ltb_spec d y).
  - constructor; [constructor; [exact Ht|apply Forall_forall; exact Hy]|].
    constructor; [exact H|]. apply Forall_forall. intros x Hx. specialize (Hy x Hx). lia.
  - destruct (Nat.eqb_spec d y); [constructor; [exact Ht|apply Forall_forall; exact Hy]|].
    constructor; [apply IH; exact Ht|]. apply Forall_forall. intros x Hx. apply insd_In in Hx.
    destruct Hx as [->|Hx]; [lia|exact (Hy x Hx)].
Qed.
Lemma sdd_snoc l d : sdd (l ++ [d]) = insd d (sdd l).
Proof. unfold sdd. rewrite fold_left_app. reflexivity. Qed.
Lemma sdd_asc l : asc (sdd l).
Proof. induction l as [|d l IH] using rev_ind; [constructor|]. rewrite sdd_snoc. apply insd_asc, IH. Qed.
Lemma sdd_In l x : In x (sdd l) <-> In x l.
Proof.
  induction l as [|d l IH] using rev_ind; [reflexivity|]. rewrite sdd_snoc, insd_In, IH, in_app_iff. cbn [In]. intuition.
Qed.
Lemma firstn_In' {A} k (l : list A) x : In x (firstn k l) -> In x l.
Proof. revert l; induction k as [|k IH]; intros [|y t] H; cbn in *; try contradiction. destruct H; [left; assumption|right; auto]. Qed.
Lemma asc_firstn k l : asc l -> asc (firstn k l).
Proof.
  unfold asc. revert l. induction k as [|k IH]; intros l H; [constructor|]. destruct l as [|y t]; [constructor|].
  apply StronglySorted_inv in H. destruct H as [Ht Hy]. cbn [firstn]. constructor; [apply IH, Ht|].
  rewrite Forall_forall in *. intros x Hx. apply Hy. eapply firstn_In'; eauto.
Qed.
(* two strictly ascending lists with the same elements are equal *)
Lemma asc_ext l1 : forall l2, asc l1 -> asc l2 -> (forall x, In x l1 <-> In x l2) -> l1 = l2.
Proof.
  unfold asc. induction l1 as [|a t1 IH]; intros [|b t2] H1 H2 E.
  - reflexivity.
  - exfalso. apply (proj2 (E b)). left; reflexivity.
  - exfalso. apply (proj1 (E a)). left; reflexivity.
  - apply StronglySorted_inv in H1. destruct H1 as [S1 F1]. apply StronglySorted_inv in H2. destruct H2 as [S2 F2].
    rewrite Forall_forall in F1, F2.
    assert (a = b).
    { destruct (proj1 (E a) (or_introl eq_refl)) as [<-|Ha]; [reflexivity|].
      destruct (proj2 (E b) (or_introl eq_refl)) as [->|Hb]; [reflexivity|].
      specialize (F1 b Hb). specialize (F2 a Ha). lia. }
    subst b. f_equal. apply IH; [exact S1|exact S2|]. intros x. split; intros Hx.
    + destruct (proj1 (E x) (or_intror Hx)) as [<-|H]; [|exact H]. specialize (F1 a Hx). lia.
    + destruct (proj2 (E x) (or_intror Hx)) as [<-|H]; [|exact H]. specialize (F2 a Hx). lia.
Qed.
(* in an ascending list, whatever is smaller than a member of the first k is itself among the first k *)
Lemma asc_firstn_down k l : asc l -> forall d m, In d l -> In m (firstn k l) -> d < m -> In d (firstn k l).
Proof.
  unfold asc. revert l. induction k as [|k IH]; intros l H d m Hd Hm Hlt; [contradiction|].
  destruct l as [|y t]; [contradiction|]. apply StronglySorted_inv in H. destruct H as [Ht Hy]. rewrite Forall_forall in Hy.
  cbn [firstn In] in *. destruct Hd as [->|Hd]; [left; reflexivity|]. destruct Hm as [->|Hm].
  - specialize (Hy d Hd). lia.
  - right. eapply IH; eauto.
Qed.
Lemma firstn_insd_firstn k d l : firstn k (insd d (firstn k l)) = firstn k (insd d l).
Proof.
  revert l; induction k as [|k IH]; intros l; [reflexivity|]. destruct l as [|y t]; [reflexivity|].
  cbn [firstn insd]. destruct (d <? y).
  - cbn [firstn]. f_equal. change (y :: firstn k t) with (firstn (S k) (y :: t)). rewrite firstn_firstn. f_equal. lia.
  - destruct (d =? y); cbn [firstn]; [f_equal; rewrite firstn_firstn; f_equal; lia|]. f_equal. apply IH.
Qed.
Lemma keysk_snoc k l d : keysk k (l ++ [d]) = firstn k (insd d (keysk k l)).
Proof. unfold keysk. rewrite sdd_snoc, firstn_insd_firstn. reflexivity. Qed.
Lemma keysk_asc k l : asc (keysk k l). Proof. apply asc_firstn, sdd_asc. Qed.
Lemma keysk_length k l : length (keysk k l) <= k. Proof. unfold keysk. rewrite firstn_length. lia. Qed.
Lemma keysk_In k l x : In x (keysk k l) -> In x l.
Proof. intros H. apply sdd_In. eapply firstn_In'; exact H. Qed.
(* a distance that occurs but is not among the k smallest is larger than all of them, and then there are k of them *)
Lemma keysk_missing k l d : In d l -> ~ In d (keysk k l) -> length (keysk k l) = k /\ forall m, In m (keysk k l) -> m < d.
Proof.
  intros Hd Hn. apply sdd_In in Hd. unfold keysk in *. split.
  - rewrite firstn_length. destruct (Nat.le_gt_cases k (length (sdd l))); [lia|].
    exfalso. apply Hn. rewrite firstn_all2 by lia. exact Hd.
  - intros m Hm. destruct (Nat.lt_trichotomy m d) as [H|[->|H]]; [exact H|contradiction|].
    exfalso. apply Hn. eapply asc_firstn_down; eauto. apply sdd_asc.
Qed.

Lemma asc_NoDup l : asc l -> NoDup l.
Proof.
  unfold asc. induction 1 as [|a t Ht IH Ha]; constructor; [|exact IH]. rewrite Forall_forall in Ha.
  intros Hin. specialize (Ha a Hin). lia.
Qed.
Lemma insd_mem d l : asc l -> In d l -> insd d l = l.
Proof.
  unfold asc. induction l as [|y t IH]; intros H Hd; [contradiction|]. apply StronglySorted_inv in H. destruct H as [Ht Hy].
  rewrite Forall_forall in Hy. cbn [insd]. destruct (Nat.ltb_spec d y) as [Hlt|Hge].
  - exfalso. destruct Hd as [->|Hd]; [lia|]. specialize (Hy d Hd). lia.
  - destruct (Nat.eqb_spec d y); [reflexivity|]. destruct Hd as [->|Hd]; [contradiction|]. rewrite IH by assumption. reflexivity.
Qed.
Lemma insd_big d l : (forall m, In m l -> m < d) -> insd d l = l ++ [d].
Proof.
  induction l as [|y t IH]; intros H; [reflexivity|]. cbn [insd]. pose proof (H y (or_introl eq_refl)) as Hy.
  destruct (Nat.ltb_spec d y); [lia|]. destruct (Nat.eqb_spec d y); [lia|]. rewrite IH by (intros m Hm; apply H; right; exact Hm). reflexivity.
Qed.
Lemma insd_length_notin d l : ~ In d l -> length (insd d l) = S (length l).
Proof.
  induction l as [|y t IH]; intros H; [reflexivity|]. cbn [insd]. destruct (d <? y); [reflexivity|].
  destruct (Nat.eqb_spec d y) as [->|Hn]; [exfalso; apply H; left; reflexivity|]. cbn [length]. rewrite IH; [reflexivity|].
  intros Hin. apply H. right. exact Hin.
Qed.
Lemma asc_firstn_drop_max k : forall L M, asc L -> length L = S k -> In M L -> (forall y, In y L -> y <= M) ->
  forall x, In x (firstn k L) <-> In x L /\ x <> M.
Proof.
  unfold asc. induction k as [|k IH]; intros L M HL Hlen HM Hmax x.
  - destruct L as [|y [|z t]]; try discriminate. cbn [firstn In]. destruct HM as [<-|[]]. intuition.
  - destruct L as [|y t]; [discriminate|]. apply StronglySorted_inv in HL. destruct HL as [Ht Hy]. rewrite Forall_forall in Hy.
    cbn [length] in Hlen. assert (Hlt : length t = S k) by lia. destruct t as [|z t']; [discriminate|].
    assert (HMt : In M (z :: t')).
    { destruct HM as [<-|HM]; [|exact HM]. exfalso. specialize (Hy z (or_introl eq_refl)). specialize (Hmax z (or_intror (or_introl eq_refl))). lia. }
    cbn [firstn]. change (In x (y :: firstn k (z :: t')) <-> In x (y :: z :: t') /\ x <> M).
    specialize (IH (z :: t') M Ht Hlt HMt (fun w Hw => Hmax w (or_intror Hw)) x). cbn [In] in *.
    specialize (Hy M HMt). split.
    + intros [<-|Hx]; [split; [left; reflexivity|lia]|]. apply IH in Hx. destruct Hx as [Hx Hn]. split; [right; exact Hx|exact Hn].
    + intros [[<-|Hx] Hn]; [left; reflexivity|]. right. apply IH. split; assumption.
Qed.

(* S' = firstn k (insd d S), by cases *)
Lemma kstep_mem k S d : asc S -> length S <= k -> In d S -> firstn k (insd d S) = S.
Proof. intros HS Hl Hd. rewrite insd_mem by assumption. apply firstn_all2. exact Hl. Qed.
Lemma kstep_small k S d : ~ In d S -> length S < k -> firstn k (insd d S) = insd d S.
Proof. intros Hn Hl. apply firstn_all2. rewrite insd_length_notin by assumption. lia. Qed.
Lemma kstep_big k S d : length S = k -> (forall m, In m S -> m < d) -> firstn k (insd d S) = S.
Proof.
  intros Hl Hb. rewrite insd_big by assumption. rewrite firstn_app, Hl, Nat.sub_diag. cbn [firstn]. rewrite app_nil_r.
  apply firstn_all2. lia.
Qed.
Lemma kstep_evict k S d M : asc S -> length S = k -> ~ In d S -> In M S -> (forall y, In y S -> y <= M) -> d < M ->
  forall x, In x (firstn k (insd d S)) <-> (x = d \/ In x S) /\ x <> M.
Proof.
  intros HS Hl Hn HM Hmax Hlt x. rewrite (asc_firstn_drop_max k (insd d S) M).
  - rewrite insd_In. reflexivity.
  - apply insd_asc, HS.
  - rewrite insd_length_notin by assumption. lia.
  - apply insd_In. right. exact HM.
  - intros y Hy. apply insd_In in Hy. destruct Hy as [->|Hy]; [lia|apply Hmax, Hy].
Qed.

(* ---------- the model's map ---------- *)
Definition keys (m : list (nat * list hit)) : list nat := map fst m.
Lemma fold_max_ge l : forall a, a <= fold_left Nat.max l a /\ (forall x, In x l -> x <= fold_left Nat.max l a).
Proof.
  induction l as [|y t IH]; intros a; cbn [fold_left]; [split; [lia|intros x []]|].
  destruct (IH (Nat.max a y)) as [H1 H2]. split; [lia|]. intros x [<-|Hx]; [lia|apply H2, Hx].
Qed.
Lemma fold_max_in l : forall a, fold_left Nat.max l a = a \/ In (fold_left Nat.max l a) l.
Proof.
  induction l as [|y t IH]; intros a; cbn [fold_left]; [left; reflexivity|].
  destruct (IH (Nat.max a y)) as [H|H]; [|right; right; exact H]. rewrite H.
  destruct (Nat.max_spec a y) as [[_ E]|[_ E]]; rewrite E; [right; left; reflexivity|left; reflexivity].
Qed.
Lemma p_max_ge m d : In d (keys m) -> d <= p_max m.
Proof. intros H. unfold p_max. apply (proj2 (fold_max_ge (map fst m) 0)). exact H. Qed.
Lemma p_max_In m : m <> [] -> In (p_max m) (keys m).
Proof.
  intros Hne. unfold p_max, keys. destruct (fold_max_in (map fst m) 0) as [H|H]; [|exact H].
  destruct m as [|[y l] t]; [contradiction|]. rewrite H. cbn [map fst]. left.
  pose proof (proj2 (fold_max_ge (map fst ((y, l) :: t)) 0) y (or_introl eq_refl)) as Hy. rewrite H in Hy. lia.
Qed.

Lemma p_append_none d h m : ~ In d (keys m) -> p_append d h m = None.
Proof.
  induction m as [|[d0 l0] t IH]; intros H; [reflexivity|]. cbn [p_append]. cbn [keys map fst In] in H.
  destruct (Nat.eqb_spec d d0) as [->|Hn]; [exfalso; apply H; left; reflexivity|]. rewrite IH; [reflexivity|].
  intros Hin. apply H. right. exact Hin.
Qed.
Lemma p_append_keys d h m : forall m', p_append d h m = Some m' -> keys m' = keys m /\ In d (keys m).
Proof.
  induction m as [|[d0 l0] t IH]; intros m' H; [discriminate|]. cbn [p_append] in H.
  destruct (Nat.eqb_spec d d0) as [->|Hn].
  - injection H as <-. split; [reflexivity|left; reflexivity].
  - destruct (p_append d h t) as [t'|] eqn:E; [|discriminate]. injection H as <-. destruct (IH t' eq_refl) as [Hk Hd].
    cbn [keys map fst]. split; [f_equal; exact Hk|right; exact Hd].
Qed.
Lemma p_append_entries d h m : forall m', NoDup (keys m) -> p_append d h m = Some m' ->
  forall d' l', In (d', l') m' -> (d' <> d /\ In (d', l') m) \/ (d' = d /\ exists l, In (d, l) m /\ l' = l ++ [h]).
Proof.
  induction m as [|[d0 l0] t IH]; intros m' Hnd H d' l' Hin; [discriminate|]. cbn [p_append] in H.
  cbn [keys map fst] in Hnd. apply NoDup_cons_iff in Hnd. destruct Hnd as [Hd0 Hnd].
  destruct (Nat.eqb_spec d d0) as [->|Hn].
  - injection H as <-. destruct Hin as [E|Hin].
    + injection E as <- <-. right. split; [reflexivity|]. exists l0. split; [left; reflexivity|reflexivity].
    + left. split; [|right; exact Hin]. intros ->. apply Hd0. change d0 with (fst (d0, l')). apply in_map. exact Hin.
  - destruct (p_append d h t) as [t'|] eqn:E; [|discriminate]. injection H as <-. destruct Hin as [E0|Hin].
    + injection E0 as <- <-. left. split; [intros ->; contradiction|left; reflexivity].
    + destruct (IH t' Hnd eq_refl d' l' Hin) as [[H1 H2]|[H1 (l & H2 & H3)]].
      * left. split; [exact H1|right; exact H2].
      * right. split; [exact H1|]. exists l. split; [right; exact H2|exact H3].
Qed.

Lemma group_snoc_same d seen h : h_dist h = d -> group d (seen ++ [h]) = group d seen ++ [h].
Proof. intros E. unfold group. rewrite filter_app. cbn [filter]. rewrite E, Nat.eqb_refl. reflexivity. Qed.
Lemma group_snoc_other d seen h : h_dist h <> d -> group d (seen ++ [h]) = group d seen.
Proof.
  intros E. unfold group. rewrite filter_app. cbn [filter]. destruct (Nat.eqb_spec (h_dist h) d); [contradiction|]. apply app_nil_r.
Qed.
Lemma group_nil d seen : ~ In d (map h_dist seen) -> group d seen = [].
Proof.
  induction seen as [|x t IH]; intros H; [reflexivity|]. unfold group in *. cbn [filter map In] in *.
  destruct (Nat.eqb_spec (h_dist x) d) as [E|E]; [exfalso; apply H; left; exact E|]. apply IH. intros Hin. apply H. right. exact Hin.
Qed.

Record PInv (k : nat) (seen : list hit) (s : pst) : Prop := {
  pi_nodup : NoDup (keys (p_map s));
  pi_keys : forall d, In d (keys (p_map s)) <-> In d (keysk k (map h_dist seen));
  pi_groups : forall d l, In (d, l) (p_map s) -> l = group d seen;
  pi_n : p_ndists s = length (p_map s);
  pi_max : p_maxdist s = p_max (p_map s) }.

Lemma pinv_len k seen s : PInv k seen s -> length (p_map s) = length (keysk k (map h_dist seen)).
Proof.
  intros [I1 I2 _ _ _]. rewrite <- (map_length fst (p_map s)). fold (keys (p_map s)). apply Nat.le_antisymm.
  - apply NoDup_incl_length; [exact I1|]. intros x Hx. apply I2, Hx.
  - apply NoDup_incl_length; [apply asc_NoDup, keysk_asc|]. intros x Hx. apply I2, Hx.
Qed.

Lemma filter_keys_In M m x : In x (keys (filter (fun e : nat * list hit => negb (fst e =? M)) m)) <-> In x (keys m) /\ x <> M.
Proof.
  unfold keys. rewrite !in_map_iff. split.
  - intros ([d l] & <- & Hin). apply filter_In in Hin. destruct Hin as [Hin Hf]. cbn [fst] in *.
    apply negb_true_iff, Nat.eqb_neq in Hf. split; [exists (d, l); split; [reflexivity|exact Hin]|exact Hf].
  - intros [([d l] & <- & Hin) Hn]. exists (d, l). split; [reflexivity|]. apply filter_In. split; [exact Hin|].
    cbn [fst] in *. apply negb_true_iff, Nat.eqb_neq. exact Hn.
Qed.
Lemma filter_keys_NoDup M m : NoDup (keys m) -> NoDup (keys (filter (fun e : nat * list hit => negb (fst e =? M)) m)).
Proof.
  unfold keys. induction m as [|[d l] t IH]; intros H; [constructor|]. cbn [map fst] in H. apply NoDup_cons_iff in H. destruct H as [Hd Ht].
  cbn [filter fst]. destruct (negb (d =? M)); [|apply IH, Ht]. cbn [map fst]. constructor; [|apply IH, Ht].
  intros Hin. apply Hd. apply in_map_iff in Hin. destruct Hin as (e & <- & He). apply filter_In in He. apply in_map. exact (proj1 He).
Qed.

Lemma NoDup_snoc {A} (l : list A) x : NoDup l -> ~ In x l -> NoDup (l ++ [x]).
Proof.
  induction l as [|a t IH]; cbn [app]; intros H Hn; [constructor; [intros []|constructor]|].
  apply NoDup_cons_iff in H. destruct H as [Ha Ht]. constructor.
  - rewrite in_app_iff. cbn [In]. intros [H|[H|[]]]; [contradiction|]. apply Hn. left. symmetry. exact H.
  - apply IH; [exact Ht|]. intros H. apply Hn. right. exact H.
Qed.
Lemma p_append_some d h m : In d (keys m) -> exists m', p_append d h m = Some m'.
Proof.
  induction m as [|[d0 l0] t IH]; intros Hin; [contradiction|]. cbn [p_append]. destruct (Nat.eqb_spec d d0); [eexists; reflexivity|].
  destruct Hin as [E|Hin]; [cbn in E; congruence|]. destruct (IH Hin) as [t' ->]. eexists. reflexivity.
Qed.

(* adding the entry (d, [h]) for a distance never seen before *)
Lemma new_entry_inv k seen h m0 (S1 : list nat) :
  let d := h_dist h in
  NoDup (keys m0) -> ~ In d (keys m0) -> ~ In d (map h_dist seen) ->
  (forall x, In x S1 <-> x = d \/ In x (keys m0)) ->
  keysk k (map h_dist (seen ++ [h])) = S1 ->
  (forall d' l, In (d', l) m0 -> l = group d' seen) ->
  PInv k (seen ++ [h]) {| p_map := m0 ++ [(d, [h])]; p_ndists := length (m0 ++ [(d, [h])]); p_maxdist := p_max (m0 ++ [(d, [h])]) |}.
Proof.
  intros d Hnd Hdm Hds HS1 HS' Hg. constructor; cbn [p_map p_ndists p_maxdist]; try reflexivity.
  - unfold keys. rewrite map_app. cbn [map fst]. apply NoDup_snoc; assumption.
  - intros x. rewrite HS', HS1. unfold keys. rewrite map_app, in_app_iff. cbn [map fst In]. intuition.
  - intros d' l Hin. apply in_app_iff in Hin. destruct Hin as [Hin|[E|[]]].
    + rewrite (Hg _ _ Hin). symmetry. apply group_snoc_other. fold d. intros E. apply Hdm. rewrite E.
      change d' with (fst (d', l)). apply in_map. exact Hin.
    + injection E as <- <-. rewrite group_snoc_same by reflexivity. rewrite (group_nil d seen Hds). reflexivity.
Qed.

Lemma push_step_inv k seen s h : 0 < k -> PInv k seen s -> PInv k (seen ++ [h]) (push_step k s h).
Proof.
  intros Hk Hinv. pose proof (pinv_len k seen s Hinv) as Hlen. destruct Hinv as [I1 I2 I3 I4 I5].
  set (d := h_dist h). set (m := p_map s) in *. set (S0 := keysk k (map h_dist seen)) in *.
  assert (HS' : keysk k (map h_dist (seen ++ [h])) = firstn k (insd d S0)).
  { rewrite map_app. cbn [map]. apply keysk_snoc. }
  assert (HascS : asc S0) by apply keysk_asc. assert (HlS : length S0 <= k) by apply keysk_length.
  unfold push_step. fold d. fold m. rewrite I4, I5. fold m.
  destruct (Nat.leb d (p_max m) || Nat.ltb (length m) k) eqn:C.
  - destruct (p_append d h m) as [m'|] eqn:PA.
    + (* the distance is already a key: append to its group *)
      destruct (p_append_keys d h m m' PA) as [Hk' Hdm]. assert (HdS : In d S0) by (apply I2; exact Hdm).
      assert (HSS : firstn k (insd d S0) = S0) by (apply kstep_mem; assumption).
      constructor; cbn [p_map p_ndists p_maxdist].
      * rewrite Hk'. exact I1.
      * intros x. rewrite Hk', HS', HSS. apply I2.
      * intros d' l' Hin. destruct (p_append_entries d h m m' I1 PA d' l' Hin) as [[Hn Hin']|[-> (l & Hin' & ->)]].
        -- rewrite (I3 _ _ Hin'). symmetry. apply group_snoc_other. fold d. congruence.
        -- rewrite (I3 _ _ Hin'). symmetry. apply group_snoc_same. reflexivity.
      * rewrite <- (map_length fst m'), <- (map_length fst m). fold (keys m') (keys m). rewrite Hk'. reflexivity.
      * unfold p_max. fold (keys m') (keys m). rewrite Hk'. reflexivity.
    + (* a new key *)
      assert (Hdm : ~ In d (keys m)).
      { intros Hin. destruct (p_append_some d h m Hin) as [m' E]. congruence. }
      assert (HdS : ~ In d S0) by (intros H; apply Hdm, I2, H).
      destruct (Nat.eqb_spec (length m) k) as [Hfull|Hnfull].
      * (* full: evict the largest key *)
        assert (Hne : m <> []) by (intros E; rewrite E in Hfull; cbn in Hfull; lia).
        set (M := p_max m). assert (HMm : In M (keys m)) by (apply p_max_In, Hne). assert (HMS : In M S0) by (apply I2, HMm).
        assert (HmaxS : forall y, In y S0 -> y <= M) by (intros y Hy; apply p_max_ge, I2, Hy).
        assert (HdM : d < M).
        { apply orb_true_iff in C. destruct C as [C|C]; [apply Nat.leb_le in C|apply Nat.ltb_lt in C; lia].
          fold M in C. destruct (Nat.eq_dec d M) as [E|E]; [exfalso; apply Hdm; rewrite E; exact HMm|lia]. }
        assert (HlS' : length S0 = k) by lia.
        pose proof (kstep_evict k S0 d M HascS HlS' HdS HMS HmaxS HdM) as HS1.
        assert (Hdseen : ~ In d (map h_dist seen)).
        { intros Hin. destruct (keysk_missing k (map h_dist seen) d Hin HdS) as [_ Hb]. specialize (Hb M HMS). lia. }
        apply (new_entry_inv k seen h (filter (fun e => negb (fst e =? M)) m) (firstn k (insd d S0))).
        -- apply filter_keys_NoDup, I1.
        -- intros H. apply filter_keys_In in H. apply Hdm, H.
        -- exact Hdseen.
        -- intros x. rewrite HS1, filter_keys_In. fold d. split.
           ++ intros [[->|Hx] Hn]; [left; reflexivity|right; split; [apply I2, Hx|exact Hn]].
           ++ intros [->|[Hx Hn]]; [split; [left; reflexivity|lia]|split; [right; apply I2, Hx|exact Hn]].
        -- exact HS'.
        -- intros d' l Hin. apply filter_In in Hin. apply I3, Hin.
      * (* not full: just add *)
        assert (Hlt : length S0 < k) by lia.
        assert (Hdseen : ~ In d (map h_dist seen)).
        { intros Hin. destruct (keysk_missing k (map h_dist seen) d Hin HdS) as [Hb _]. fold S0 in Hb. lia. }
        apply (new_entry_inv k seen h m (insd d S0)).
        -- exact I1.
        -- exact Hdm.
        -- exact Hdseen.
        -- intros x. rewrite insd_In. fold d. rewrite I2. reflexivity.
        -- rewrite HS'. apply kstep_small; assumption.
        -- exact I3.
  - (* farther than everything kept and the map is full: ignored *)
    apply orb_false_iff in C. destruct C as [C1 C2]. apply Nat.leb_gt in C1. apply Nat.ltb_ge in C2.
    assert (HlS' : length S0 = k) by lia.
    assert (Hbig : forall x, In x S0 -> x < d). { intros x Hx. apply I2, p_max_ge in Hx. lia. }
    assert (HSS : firstn k (insd d S0) = S0) by (apply kstep_big; assumption).
    constructor; try assumption.
    + intros x. rewrite HS', HSS. apply I2.
    + intros d' l Hin. rewrite (I3 _ _ Hin). symmetry. apply group_snoc_other. fold d. intros E.
      assert (Hd' : In d' S0). { apply I2. change d' with (fst (d', l)). apply in_map. exact Hin. }
      specialize (Hbig d' Hd'). lia.
Qed.

Lemma push_fold_inv k : 0 < k -> forall hs seen s, PInv k seen s -> PInv k (seen ++ hs) (fold_left (push_step k) hs s).
Proof.
  intros Hk. induction hs as [|h hs IH]; intros seen s Hi; cbn [fold_left]; [rewrite app_nil_r; exact Hi|].
  replace (seen ++ h :: hs) with ((seen ++ [h]) ++ hs) by (rewrite <- app_assoc; reflexivity).
  apply IH, push_step_inv; assumption.
Qed.
Lemma pinv_init k : PInv k [] {| p_map := []; p_ndists := 0; p_maxdist := 0 |}.
Proof.
  constructor; cbn; try reflexivity; [constructor| |intros d l []].
  intros d. unfold keysk, sdd. cbn. rewrite firstn_nil. reflexivity.
Qed.

(* ---------- sorting the map by key ---------- *)
Definition keylt (a b : nat * list hit) : bool := Nat.ltb (fst a) (fst b).
Lemma ssort_In {E} (lt : E -> E -> bool) l y : In y (ssort E lt l) <-> In y l.
Proof.
  induction l as [|x l IH] using rev_ind; [reflexivity|]. rewrite ssort_snoc, ins_In, IH, in_app_iff. cbn [In]. intuition.
Qed.
Lemma sorted_keys_asc (l : list (nat * list hit)) : sorted _ keylt l -> NoDup (keys l) -> asc (keys l).
Proof.
  unfold asc, keys. induction l as [|[d g] t IH]; intros Hs Hnd; [constructor|]. cbn [sorted] in Hs. destruct Hs as [Hd Ht].
  cbn [map fst] in *. apply NoDup_cons_iff in Hnd. destruct Hnd as [Hnin Hnd]. constructor; [apply IH; assumption|].
  apply Forall_forall. intros x Hx. apply in_map_iff in Hx. destruct Hx as ([d' g'] & <- & Hin). cbn [fst].
  specialize (Hd _ Hin). unfold keylt in Hd. cbn [fst] in Hd. apply Nat.ltb_ge in Hd.
  destruct (Nat.eq_dec d d') as [->|Hne]; [|lia]. exfalso. apply Hnin. change d' with (fst (d', g')). apply in_map. exact Hin.
Qed.
Lemma entries_by_keys (g : nat -> list hit) (l : list (nat * list hit)) :
  (forall d x, In (d, x) l -> x = g d) -> l = map (fun d => (d, g d)) (keys l).
Proof.
  unfold keys. induction l as [|[d x] t IH]; intros H; [reflexivity|]. cbn [map fst]. rewrite (H d x (or_introl eq_refl)). f_equal.
  apply IH. intros d' x' Hin. apply H. right. exact Hin.
Qed.
Lemma keylt_irrefl x : keylt x x = false. Proof. unfold keylt. apply Nat.ltb_irrefl. Qed.
Lemma keylt_trans x y z : keylt x y = true -> keylt y z = true -> keylt x z = true.
Proof. unfold keylt. rewrite !Nat.ltb_lt. lia. Qed.
Lemma sorted_map_eq k seen s : PInv k seen s ->
  ssort _ keylt (p_map s) = map (fun d => (d, group d seen)) (keysk k (map h_dist seen)).
Proof.
  intros [I1 I2 I3 _ _]. set (E' := ssort _ keylt (p_map s)).
  assert (Hin : forall e, In e E' <-> In e (p_map s)) by (intros e; apply ssort_In).
  assert (Hnd : NoDup (keys E')).
  { apply NoDup_incl_NoDup with (l := keys (p_map s)); [exact I1| |].
    - unfold keys. rewrite !map_length. unfold E'. rewrite ssort_length. lia.
    - intros x Hx. unfold keys in *. apply in_map_iff in Hx. destruct Hx as (e & <- & He). apply in_map, Hin, He. }
  assert (Hk : keys E' = keysk k (map h_dist seen)).
  { apply asc_ext; [apply sorted_keys_asc; [apply ssort_sorted; [apply keylt_irrefl|apply keylt_trans]|exact Hnd]|apply keysk_asc|]. intros x. split; intros Hx.
    - apply I2. unfold keys in *. apply in_map_iff in Hx. destruct Hx as (e & <- & He). apply in_map, Hin, He.
    - apply I2 in Hx. unfold keys in *. apply in_map_iff in Hx. destruct Hx as (e & <- & He). apply in_map, Hin, He. }
  rewrite (entries_by_keys (fun d => group d seen) E'); [rewrite Hk; reflexivity|].
  intros d x Hx. apply I3, Hin, Hx.
Qed.

(* ---------- sorting a concatenation of blocks with ascending keys ---------- *)
Lemma ins_app_skip {E} (lt : E -> E -> bool) x a c : (forall y, In y a -> lt x y = false) -> ins E lt x (a ++ c) = a ++ ins E lt x c.
Proof.
  induction a as [|y t IH]; intros H; [reflexivity|]. cbn [app ins]. rewrite (H y (or_introl eq_refl)). f_equal.
  apply IH. intros z Hz. apply H. right. exact Hz.
Qed.
Lemma ssort_app_blocks {E} (lt : E -> E -> bool) X b : (forall x y, In x X -> In y b -> lt y x = false) ->
  ssort E lt (X ++ b) = ssort E lt X ++ ssort E lt b.
Proof.
  induction b as [|y b IH] using rev_ind; intros H; [cbn; rewrite !app_nil_r; reflexivity|].
  rewrite app_assoc, !ssort_snoc, IH by (intros x z Hx Hz; apply H; [exact Hx|apply in_or_app; left; exact Hz]).
  apply ins_app_skip. intros z Hz. apply ssort_In in Hz. apply H; [exact Hz|apply in_or_app; right; left; reflexivity].
Qed.
Lemma group_dist d hs x : In x (group d hs) -> h_dist x = d.
Proof. unfold group. intros H. apply filter_In in H. apply Nat.eqb_eq, H. Qed.
Lemma sort_blocks hs ds : asc ds ->
  ssort hit hit_lt (concat (map (fun d => group d hs) ds)) = concat (map (fun d => ssort hit hit_lt (group d hs)) ds).
Proof.
  induction ds as [|d ds IH] using rev_ind; intros Ha; [reflexivity|].
  rewrite !map_app, !concat_app. cbn [map concat]. rewrite !app_nil_r.
  assert (Hads : asc ds /\ forall x, In x ds -> x < d).
  { clear IH. unfold asc in *. induction ds as [|a t IHt]; [split; [constructor|intros x []]|].
    cbn [app] in Ha. apply StronglySorted_inv in Ha. destruct Ha as [Ht Hf]. destruct (IHt Ht) as [A1 A2]. rewrite Forall_forall in Hf. split.
    - constructor; [exact A1|]. apply Forall_forall. intros x Hx. apply Hf, in_or_app. left. exact Hx.
    - intros x [<-|Hx]; [apply Hf, in_or_app; right; left; reflexivity|apply A2, Hx]. }
  destruct Hads as [Hds Hlt]. rewrite ssort_app_blocks; [rewrite (IH Hds); reflexivity|].
  intros x y Hx Hy. apply in_concat in Hx. destruct Hx as (g & Hg & Hx). apply in_map_iff in Hg. destruct Hg as (d' & <- & Hd').
  apply group_dist in Hx. apply group_dist in Hy. specialize (Hlt d' Hd'). unfold hit_lt. rewrite Hx, Hy.
  destruct (Nat.ltb_spec d d'); [lia|]. destruct (Nat.eqb_spec d d'); [lia|]. reflexivity.
Qed.

(* ---------- the theorem ---------- *)
Theorem push_bin_spec k hs : 0 < k -> push_bin k hs = push_spec k hs.
Proof.
  intros Hk. unfold push_bin, push_spec.
  pose proof (push_fold_inv k Hk hs [] _ (pinv_init k)) as Hinv. cbn [app] in Hinv.
  change (fun a b : nat * list hit => fst a <? fst b) with keylt.
  rewrite (sorted_map_eq k hs _ Hinv), map_map. cbn [snd]. apply sort_blocks, keysk_asc.
Qed.

(* what the spec says, spelled out: membership = distance among the k smallest occurring distances; nearest first *)
Lemma push_spec_In k hs x : In x (push_spec k hs) <-> In x hs /\ In (h_dist x) (keysk k (map h_dist hs)).
Proof.
  unfold push_spec. rewrite in_concat. split.
  - intros (g & Hg & Hx). apply in_map_iff in Hg. destruct Hg as (d & <- & Hd). apply ssort_In in Hx.
    pose proof (group_dist d hs x Hx) as E. unfold group in Hx. apply filter_In in Hx. rewrite E. split; [exact (proj1 Hx)|exact Hd].
  - intros [Hx Hd]. exists (ssort hit hit_lt (group (h_dist x) hs)). split.
    + apply in_map_iff. exists (h_dist x). split; [reflexivity|exact Hd].
    + apply ssort_In. unfold group. apply filter_In. split; [exact Hx|apply Nat.eqb_refl].
Qed.
