From GF Require Import Base Harness Errors.
Definition check_C18 (c : N) : N := c.
