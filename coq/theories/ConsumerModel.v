(* ConsumerModel.v — C14: what the variant callers make of a parsed annotation (pkg/variants/variants.go RegionsFromGenbank,
   CDSRegion2fromGenbank, RegionsFromGFF, CDSRegion2fromGFF, codes), with Go's panics (slice bounds, index, gmin of an empty
   slice) as `Panic`.  Input: the structures GenbankFile.v / GffFile.v read from the bytes of the file.  Definitions only. *)
From GF Require Import Base Alphabet SymbolsDef FastaModel CodonModel TopK LocationModel GffLineModel GenbankModel GenbankFile GffFile.
Open Scope N_scope.

(* Region: name, strand (1, -1, 0 = never set), ordered 1-based positions, one residue per codon *)
Record cregion := { cr_name : list N; cr_strand : Z; cr_pos : list Z; cr_trans : list N }.

Definition zmin (l : list Z) : Z := fold_left Z.min l (hd 0%Z l).
Definition zlen {A} (l : list A) : Z := Z.of_nat (length l).

(* ---- GenBank ---- *)
Definition region_from_gbfeat (f : gbfeat) : res cregion :=
  let m := match gf_info f with Some m => m | None => [] end in
  match info_get (bs "gene") m with
  | None => Err NotFound
  | Some name =>
      match info_get (bs "codon_start") m with
      | None => Err NotFound
      | Some cs =>
          bind (get_positions (gf_loc f)) (fun ps =>
            let c := match atoi cs with Some z => z | None => 0%Z end in        (* the error of strconv.Atoi is dropped *)
            if ((c - 1 <? 0) || (zlen ps <? c - 1))%Z then Panic                   (* temp[codon_start-1:] *)
            else
              let ps' := skipn (Z.to_nat (c - 1)) ps in
              if negb (Nat.eqb (length ps' mod 3) 0) then Err BadFormat
              else match ps' with
                   | [] => Panic                                                 (* gmin of an empty slice *)
                   | _ => bind (is_reverse (gf_loc f)) (fun r =>
                            Ok {| cr_name := name; cr_strand := if r then (-1)%Z else 1%Z; cr_pos := ps';
                                  cr_trans := match info_get (bs "translation") m with Some t => t | None => [] end ++ [42] |})
                   end)
      end
  end.
Fixpoint collect {A B} (f : A -> res B) (l : list A) : res (list B) :=
  match l with [] => Ok [] | x :: t => bind (f x) (fun y => bind (collect f t) (fun r => Ok (y :: r))) end.
(* codes: codes[pos-1] = true for every position of every region (index out of range: panic); the rest, ascending *)
Definition in_range (n : Z) (p : Z) : bool := ((1 <=? p) && (p <=? n))%Z.
Definition codes (rs : list cregion) (n : nat) : res (list Z) :=
  let ps := concat (map cr_pos rs) in
  if forallb (in_range (Z.of_nat n)) ps
  then Ok (filter (fun p => negb (existsb (Z.eqb p) ps)) (map (fun i => Z.of_nat (S i)) (seq 0 n)))
  else Panic.
Definition regions_from_genbank (fs : list gbfeat) (reflen : nat) : res (list cregion * list Z) :=
  bind (collect region_from_gbfeat (filter (fun f => list_eqb (gf_key f) (bs "CDS")) fs)) (fun rs =>
  bind (codes rs reflen) (fun inter => Ok (rs, inter))).

(* ---- GFF3 ---- *)
Definition zrange_down (a b : Z) : list Z := rev (zrange a b).                       (* b, b-1, ..., a *)
Definition strand_is (s : N) (f : gfeat) : bool := list_eqb (g_strand f) [s].
Definition region_from_gfeats (genome : list N) (fs : list gfeat) : res cregion :=
  match fs with
  | [] => Panic                                                                         (* fs[0] *)
  | f0 :: _ =>
      let name := match attr_get (bs "Name") (g_attrs f0) with Some (v :: _) => v | _ => [] end in
      let finish (strand : Z) (pos : list Z) (phase : nat) :=
        if Nat.ltb (length pos) phase then Err BadFormat
        else let pos' := skipn phase pos in
             match pos' with
             | [] => Panic                                                              (* gmin of an empty slice *)
             | _ => if negb (forallb (in_range (zlen genome)) pos') then Panic          (* refSeqDegapped[p-1] *)
                    else let s := map (fun p => nth (Z.to_nat (p - 1)) genome 0) pos' in
                         bind (translate true (if (strand <? 0)%Z then complement s else s)) (fun t =>
                           Ok {| cr_name := name; cr_strand := strand; cr_pos := pos'; cr_trans := t |})
             end in
      if strand_is 43 f0 then
        if negb (forallb (strand_is 43) fs) then Err BadFormat
        else finish 1%Z (concat (map (fun f => zrange (g_start f) (g_end f)) fs)) (g_phase f0)
      else if strand_is 45 f0 then
        if negb (forallb (strand_is 45) fs) then Err BadFormat
        else finish (-1)%Z (concat (map (fun f => zrange_down (g_start f) (g_end f)) (rev fs))) (g_phase (last fs f0))
      else if strand_is 46 f0 then Err BadFormat
      else Ok {| cr_name := name; cr_strand := 0%Z; cr_pos := []; cr_trans := [] |}      (* "?": no case of the switch *)
  end.

Definition is_cds_row (f : gfeat) : bool := list_eqb (g_type f) (bs "CDS") || list_eqb (g_type f) (bs "mature_protein_region_of_CDS").
Definition row_id (f : gfeat) : option (list N) := match attr_get (bs "ID") (g_attrs f) with Some (v :: _) => Some v | Some [] => Some [] | None => None end.
Fixpoint ids_in_order (seen : list (list N)) (fs : list gfeat) : list (list N) :=
  match fs with
  | [] => []
  | f :: t => match row_id f with
              | Some i => if existsb (list_eqb i) seen then ids_in_order seen t else i :: ids_in_order (i :: seen) t
              | None => ids_in_order seen t
              end
  end.
Definition start_lt (a b : gfeat) : bool := (g_start a <? g_start b)%Z.
Definition cr_start (r : cregion) : Z := match cr_pos r with [] => 0%Z | _ => zmin (cr_pos r) end.
Definition regions_from_gff (fs : list gfeat) (genome : list N) : res (list cregion * list Z) :=
  let cds := filter is_cds_row fs in
  let groups := map (fun i => ssort gfeat start_lt (filter (fun f => match row_id f with Some j => list_eqb i j | None => false end) cds))
                    (ids_in_order [] cds) in
  let singles := map (fun f => [f]) (filter (fun f => match row_id f with None => true | Some _ => false end) cds) in
  bind (collect (region_from_gfeats genome) (groups ++ singles)) (fun rs =>
    let named := filter (fun r => negb (list_eqb (cr_name r) [])) rs in
    bind (codes named (length genome)) (fun inter =>
      Ok (ssort cregion (fun a b => (cr_start a <? cr_start b)%Z) named, inter))).

(* ---- from the bytes of the file ---- *)
Definition degap (s : list N) : list N := filter (fun c => negb (c =? 45)) s.
Definition regions_of_genbank_text (file : list N) : res (list cregion * list Z) :=
  bind (read_genbank file) (fun g =>
    regions_from_genbank (match gb_features g with Some fs => fs | None => [] end)
                         (length (match gb_origin g with Some o => o | None => [] end))).
(* the reference is the single record of the ##FASTA section *)
Definition regions_of_gff_text (file : list N) : res (list cregion * list Z) :=
  bind (read_gff file) (fun g =>
    match gff_fasta g with
    | Some (r :: rest) =>
        if forallb (fun r' => list_eqb (r_id r') (r_id r)) rest                        (* a map by ID with one entry: the last record of that ID *)
        then regions_from_gff (gff_features g) (degap (r_seq (last rest r)))
        else Err Other
    | _ => Err Other
    end).
