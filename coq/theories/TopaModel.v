(* TopaModel.v — model of `sam toPairAlign` (pkg/sam/topa.go, sam.go getOneLinePlusRef, cigar.go ...WithRef).
   Value semantics (fresh lists); see DESIGN.md D2 for the aliasing the pinned snapshot had.
   Definitions only. *)
From GF Require Import Base Alphabet SymbolsDef FastaModel Cigar SamModel.
Open Scope N_scope.

(* getOneLinePlusRef: paired (query row, reference row); ins = keep insertion columns *)
Fixpoint walk2 (ins : bool) (ops : list (op * nat)) (q r : nat) (sq ref : list N) : option (list N * list N) :=
  match ops with
  | [] => Some ([], [])
  | (o, len) :: t =>
      match o with
      | OM | OEq | OX =>
          match slice sq q len, slice ref r len, walk2 ins t (q + len) (r + len) sq ref with
          | Some a, Some b, Some (x, y) => Some (a ++ x, b ++ y) | _, _, _ => None end
      | OI => if ins then
                match slice sq q len, walk2 ins t (q + len) r sq ref with
                | Some a, Some (x, y) => Some (a ++ x, repeat 45 len ++ y) | _, _ => None end
              else walk2 ins t (q + len) r sq ref
      | OS => walk2 ins t (q + len) r sq ref
      | OD => match slice ref r len, walk2 ins t q (r + len) sq ref with
              | Some b, Some (x, y) => Some (repeat 45 len ++ x, b ++ y) | _, _ => None end
      | ON => match slice ref r len, walk2 ins t q (r + len) sq ref with
              | Some b, Some (x, y) => Some (repeat 42 len ++ x, b ++ y) | _, _ => None end
      | OH | OP => walk2 ins t q r sq ref
      end
  end.
Definition one_line_plus_ref (ins : bool) (rc : srec) (ref : list N) : option (list N * list N) :=
  if Nat.ltb (length ref) (s_pos rc) then None          (* reference[i] for i < POS *)
  else match walk2 ins (s_cigar rc) 0 (s_pos rc) (s_seq rc) ref with
       | Some (x, y) =>
           let qrow := repeat 42 (s_pos rc) ++ x in
           let rrow := firstn (s_pos rc) ref ++ y in
           if ins then Some (qrow, rrow)
           else if Nat.leb (length qrow) (length ref) then Some (qrow ++ repeat 42 (length ref - length qrow), rrow) else None
       | None => None
       end.

(* insertions of a block: (reference bases to the left, length, row) in cigar order per row *)
Fixpoint ins_of_cigar (row : nat) (pos : nat) (ops : list (op * nat)) : list (nat * nat * nat) :=
  match ops with
  | [] => []
  | (o, len) :: t =>
      (match o with OI => [(pos, len, row)] | _ => [] end) ++
      ins_of_cigar row (match o with OM | OEq | OX | OD | ON => pos + len | _ => pos end)%nat t
  end.
Definition block_insertions (block : list srec) : list (nat * nat * nat) :=
  concat (mapi_from (fun i rc => ins_of_cigar i (s_pos rc) (s_cigar rc)) 0%nat block).
(* sort.Sort by start: modelled by a stable insertion sort (starts are pairwise distinct under the property's
   non-conflict precondition, so any sort gives this order) *)
Fixpoint ins_sorted (x : nat * nat * nat) (l : list (nat * nat * nat)) : list (nat * nat * nat) :=
  match l with
  | [] => [x]
  | y :: t => if Nat.ltb (fst (fst x)) (fst (fst y)) then x :: y :: t else y :: ins_sorted x t
  end.
Definition sort_insertions (l : list (nat * nat * nat)) : list (nat * nat * nat) := fold_left (fun acc x => ins_sorted x acc) l [].

(* the column that follows `start` reference bases in a (gapped) reference row *)
Fixpoint find_col (rrow : list N) (start : nat) (col refb : nat) : nat * nat :=
  match rrow with
  | [] => (col, refb)
  | c :: t => if Nat.ltb refb start then find_col t start (S col) (if c =? 45 then refb else S refb) else (col, refb)
  end.
Definition regap_row (start len : nat) (rq : list N * list N) : list N * list N :=
  let '(rrow, qrow) := rq in
  let '(col, refb) := find_col rrow start 0 0 in
  if Nat.ltb refb start then (rrow, qrow)
  else (firstn col rrow ++ repeat 45 len ++ skipn col rrow, firstn col qrow ++ repeat 45 len ++ skipn col qrow).
Definition regap (rows : list (list N * list N)) (insertions : list (nat * nat * nat)) : list (list N * list N) :=
  fold_left (fun rows i => let '(start, len, row) := i in
                           mapi_from (fun j rq => if Nat.eqb j row then rq else regap_row start len rq) 0%nat rows)
            insertions rows.

Definition pad_to (n : nat) (l : list N) : list N := l ++ repeat 42 (n - length l).
Definition flatten_block (rows : list (list N)) : list N :=
  match rows with [] => [] | r0 :: _ => map nuc_from_site (transpose_n (length r0) rows) end.

Definition block_to_seq_pair (ref : list N) (block : list srec) : option (list N * list N) :=   (* (R, Q) *)
  match all_some (map (fun rc => one_line_plus_ref true rc ref) block) with
  | None => None
  | Some pairs =>                                    (* (qrow, rrow) per record *)
      let insertions := sort_insertions (block_insertions block) in
      let rows := regap (map (fun p => (snd p, fst p)) pairs) insertions in     (* (rrow, qrow) *)
      let mx := fold_left Nat.max (map (fun rq => length (fst rq)) rows) 0%nat in
      let R := flatten_block (map (fun rq => pad_to mx (fst rq)) rows) in
      let Q := flatten_block (map (fun rq => pad_to mx (snd rq)) rows) in
      let total := fold_left (fun a i => (a + snd (fst i))%nat) insertions 0%nat in
      let want := (total + length ref)%nat in
      if Nat.ltb (length R) want then
        let diff := (want - length R)%nat in
        if Nat.ltb (length ref) diff then None
        else Some (R ++ skipn (length ref - diff) ref, swap_pad (Q ++ repeat 42 diff))
      else Some (R, swap_pad Q)
  end.

Definition block_skip_ins (ref : list N) (block : list srec) : option (list N * list N) :=
  match all_some (map (fun rc => one_line_plus_ref false rc ref) block) with
  | None => None
  | Some pairs => Some (ref, swap_pad (flatten_block (map fst pairs)))
  end.

(* getRefOffset / trimAlignment on text rows ('-' = 45) *)
Fixpoint ref_offset_from (gapsum : nat) (rrow : list N) : list nat :=
  match rrow with
  | [] => []
  | c :: t => if c =? 45 then ref_offset_from (S gapsum) t else gapsum :: ref_offset_from gapsum t
  end.
Definition trim_pair (ts te : nat) (rq : list N * list N) : option (list N * list N) :=
  let '(R, Q) := rq in
  let off := ref_offset_from 0 R in
  if Nat.ltb (length off) te || Nat.eqb ts 0 then None else
  let a := (ts + nth (ts - 1) off 0 - 1)%nat in
  let b := (te + nth (te - 1) off 0)%nat in
  if Nat.ltb (length R) b || Nat.ltb (length Q) b || Nat.ltb b a then None
  else Some (firstn (b - a) (skipn a R), firstn (b - a) (skipn a Q)).

(* topa.go wrap *)
Definition wrap_text (w : nat) (s : list N) : list N :=
  if Nat.eqb w 0 then s ++ [NL] else wrap_lines (length s) w s.

Definition file_name (q : list N) : list N := map (fun c => if c =? 47 then 95 else c) q ++ bs ".fasta".
Definition pair_text (w : nat) (omit_ref : bool) (refname qname R Q : list N) : list N :=
  (if omit_ref then [] else [62] ++ refname ++ [NL] ++ wrap_text w R) ++ [62] ++ qname ++ [NL] ++ wrap_text w Q.

(* the command: reference file, reference name (of the @SQ line), parsed records, options ->
   one (file name, content) per query block, in block order *)
Definition topa_cmd (ref_file refname : list N) (recs : list srec) (w : nat) (ts te : Z) (omit_ref omit_ins : bool)
  : res (list (list N * list N)) :=
  bind (read_encoded false ref_file) (fun refs =>
    match refs with
    | [r0] =>
        let ref := map (fun e => hd 0 (dec e)) (r_seq r0) in
        match check_args (length ref) ts te with
        | None => Err Other
        | Some (s, e, trim) =>
            (fix go (blocks : list (list srec)) : res (list (list N * list N)) :=
               match blocks with
               | [] => Ok []
               | b :: t =>
                   match b, (if omit_ins then block_skip_ins ref b else block_to_seq_pair ref b) with
                   | rc0 :: _, Some rq =>
                       match (if trim then trim_pair s e rq else Some rq) with
                       | Some (R, Q) => bind (go t) (fun rest =>
                                          Ok ((file_name (s_name rc0), pair_text w omit_ref refname (s_name rc0) R Q) :: rest))
                       | None => Panic
                       end
                   | _, _ => Panic
                   end
               end) (group_records recs)
        end
    | _ => Err Other
    end).
Definition ser_files (l : list (list N * list N)) : list N :=
  concat (map (fun f => bs "==" ++ fst f ++ bs "==" ++ [NL] ++ snd f) l).
