(* SamVariantsProofs.v — C11, second clause: a query without insertions. *)
From Coq Require Import Floats.SpecFloat.
From GF Require Import Base Alphabet SymbolsDef FastaModel Float TopK CodonModel Indels VariantsModel Cigar SamModel TopaModel TopaProofs PairProofs Check_C04 Check_C11.
Open Scope N_scope.

Theorem samvariants_eq_variants_on_toma_pad_row : forall ref gs inter rc0 tl,
  ~ In 45 ref -> Forall (fun c => 42 <= c) ref -> block_insertions (rc0 :: tl) = [] ->
  forall R Q, block_to_seq_pair ref (rc0 :: tl) = Some (R, Q) ->
  exists raw, seq_from_block (length ref) (rc0 :: tl) = Some raw /\
    sam_call_all ref gs inter [rc0 :: tl] =
    bind (variants_pair (map (enc false) ref) (map (enc false) (fasta_seq true false 0 0 raw)) gs inter) (fun vs => Ok [(s_name rc0, vs)]).
Proof.
  intros ref gs inter rc0 tl Hng Hge Hni R Q H.
  destruct (pairk_no_insertions ref (rc0 :: tl) R Q ltac:(discriminate) Hng Hge Hni H) as (-> & raw & Hraw & ->).
  exists raw. split; [exact Hraw|]. apply (samvariants_eq_variants_on_pair ref gs inter (rc0 :: tl) rc0 tl _ _ eq_refl H).
Qed.
