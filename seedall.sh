#!/bin/sh
# seedall.sh: run every stored seeded change against the checks that meta.json says detect it (the property's own check first when it is
# one of them); with FAST=1 stop at the first check that reports a violation.  Needs /repo to itself.
cd /verif
for d in seeded/*/; do
  ids=$(python3 -c "import json,sys; m=json.load(open('$d/meta.json')); det=m.get('detected_by_checks',[]); p=m['property']; print(' '.join(dict.fromkeys(([p] if p in det else [])+det+([] if p in det else []))))")
  echo "=== $d ($ids)"
  if [ -n "$FAST" ]; then
    for id in $ids; do
      out=$(./seedrun.sh /verif/$d/patch.diff $id); echo "$out"
      echo "$out" | grep -q "exit=1" && break
    done
  else
    ./seedrun.sh /verif/$d/patch.diff $ids
  fi
done
