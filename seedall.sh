#!/bin/sh
# seedall.sh: run every stored seeded change against the checks listed in its meta.json (plus its own property's check)
cd /verif
for d in seeded/*/; do
  ids=$(python3 -c "import json,sys; m=json.load(open('$d/meta.json')); print(' '.join(dict.fromkeys([m['property']]+m.get('detected_by_checks',[]))))")
  echo "=== $d ($ids)"
  ./seedrun.sh /verif/$d/patch.diff $ids
done
