module verifharness

go 1.19

require github.com/virus-evolution/gofasta v0.0.0

replace github.com/virus-evolution/gofasta => /repo
