module verifharness

go 1.19

require github.com/virus-evolution/gofasta v0.0.0

require golang.org/x/exp v0.0.0-20230116083435-1de6713980de // indirect

replace github.com/virus-evolution/gofasta => /repo
